//go:build verif

package mod

// C10 harness: the DagModifier against spec/MutableFile.
//
//	replay: TLC-generated call sequences (GenMutableFile) are run on real DagModifiers for a set of
//	        configurations (importer layout, leaf kind, chunker, MaxLinks, CID version, read API).
//	        After EVERY call the harness compares the returned values with the file model and makes
//	        four observations that do not disturb the modifier under test -- they are made on copies
//	        of it through the public API:   Size();   GetNode()+read back ("view");
//	        Seek(0, io.SeekCurrent) ("cur");   Write(marker)+GetNode()+read back ("wview": where
//	        the next Write lands).
//	record: random histories on larger files, logged for TraceMutableFile.

import (
	"bytes"
	"context"
	"encoding/json"
	"fmt"
	"io"
	"math/rand"
	"sort"
	"strings"
	"sync"
	"testing"

	chunker "github.com/ipfs/boxo/chunker"
	mdag "github.com/ipfs/boxo/ipld/merkledag"
	mdagmock "github.com/ipfs/boxo/ipld/merkledag/test"
	"github.com/ipfs/boxo/ipld/unixfs/importer/balanced"
	h "github.com/ipfs/boxo/ipld/unixfs/importer/helpers"
	"github.com/ipfs/boxo/ipld/unixfs/importer/trickle"
	uio "github.com/ipfs/boxo/ipld/unixfs/io"
	cid "github.com/ipfs/go-cid"
	ipld "github.com/ipfs/go-ipld-format"
	mh "github.com/multiformats/go-multihash"
)

const c10Marker = 255

type c10R struct {
	N    int    `json:"n"`
	Err  bool   `json:"err"`
	Eofs []bool `json:"eofs,omitempty"`
	Data []int  `json:"data"`
	Ret  int    `json:"ret"`
	Any  bool   `json:"any"` // expected results only: not modelled (alternatives with an unmodelled state)
	// real results only
	Eof    bool   `json:"eof"`
	ErrStr string `json:"errstr,omitempty"`
	node   ipld.Node // GetNode only: the node that was returned
}
type c10P struct {
	Wild  bool   `json:"wild"`
	Size  int    `json:"size"`
	View  []int  `json:"view"`
	Cur   int    `json:"cur"`
	Wview []int  `json:"wview"`
	Fail  string `json:"fail,omitempty"` // real observations only: a probe errored / panicked
}
type c10Alt struct {
	Devs []string `json:"devs"`
	R    c10R     `json:"r"`
	Wild bool     `json:"wild"`
	P    c10P     `json:"p"`
	Xp   bool     `json:"xp"`
}
type c10Step struct {
	Op   string   `json:"op"`
	B    []int    `json:"b"`
	O    int      `json:"o"`
	W    int      `json:"w"`
	K    int      `json:"k"`
	R    c10R     `json:"r"`
	P    c10P     `json:"p"`
	Xp   bool     `json:"xp"` // the call (or its observation) re-roots the DAG outside Sync
	Alts []c10Alt `json:"alts"`
	Amb  bool     `json:"amb"`
	Fo   struct { // follow track: outcome with the unrepaired open deviations in force
		On   bool     `json:"on"`
		R    c10R     `json:"r"`
		Wild bool     `json:"wild"`
		P    c10P     `json:"p"`
		Xp   bool     `json:"xp"`
		Alts []c10Alt `json:"alts"`
		Amb  bool     `json:"amb"`
		Devs []string `json:"devs"`
	} `json:"fo"`
}
type c10Beh struct {
	Init struct {
		Root string `json:"root"`
		Size int    `json:"size"`
	} `json:"init"`
	Steps []c10Step `json:"steps"`
}

// c10Cfg: one concrete configuration of importer + modifier.
type c10Cfg struct {
	Layout   string // "bal" | "tri"
	ImpRaw   bool   // importer leaves raw / dag-pb
	ImpChunk int    // importer chunk size
	ModRaw   bool   // DagModifier.RawLeaves
	ModChunk int    // DagModifier splitter chunk size
	MaxLinks int
	V1       bool // CIDv1 prefix (else CIDv0)
	Ident    bool // identity multihash prefix (CIDv1)
	CtxRead  bool // use CtxReadFull instead of Read
}

func (c c10Cfg) String() string {
	return fmt.Sprintf("%s/impraw=%v/impchunk=%d/modraw=%v/modchunk=%d/w=%d/v1=%v/ident=%v/ctxread=%v",
		c.Layout, c.ImpRaw, c.ImpChunk, c.ModRaw, c.ModChunk, c.MaxLinks, c.V1, c.Ident, c.CtxRead)
}

func c10Bytes(sym []int) []byte {
	b := make([]byte, len(sym))
	for i, s := range sym {
		b[i] = byte(s)
	}
	return b
}
func c10Syms(b []byte) []int {
	s := make([]int, len(b))
	for i, x := range b {
		s[i] = int(x)
	}
	return s
}
func c10EqInts(a, b []int) bool {
	if len(a) != len(b) {
		return false
	}
	for i := range a {
		if a[i] != b[i] {
			return false
		}
	}
	return true
}

func c10Prefix(c c10Cfg) cid.Prefix {
	p := mdag.V0CidPrefix()
	if c.V1 || c.Ident {
		p = mdag.V1CidPrefix()
	}
	if c.Ident {
		p.MhType = mh.IDENTITY
		p.MhLength = -1
	}
	return p
}

// c10Start imports `content` and opens a DagModifier on it.
func c10Start(content []byte, c c10Cfg) (*DagModifier, ipld.DAGService, error) {
	ds := mdagmock.Mock()
	dbp := h.DagBuilderParams{Dagserv: ds, Maxlinks: c.MaxLinks, CidBuilder: c10Prefix(c), RawLeaves: c.ImpRaw}
	db, err := dbp.New(chunker.NewSizeSplitter(bytes.NewReader(content), int64(c.ImpChunk)))
	if err != nil {
		return nil, nil, err
	}
	var root ipld.Node
	if c.Layout == "bal" {
		root, err = balanced.Layout(db)
	} else {
		root, err = trickle.Layout(db)
	}
	if err != nil {
		return nil, nil, err
	}
	mc := int64(c.ModChunk)
	dm, err := NewDagModifier(context.Background(), root, ds, func(r io.Reader) chunker.Splitter { return chunker.NewSizeSplitter(r, mc) })
	if err != nil {
		return nil, nil, err
	}
	dm.MaxLinks = c.MaxLinks
	dm.RawLeaves = c.ModRaw
	return dm, ds, nil
}

// c10RootKind: shape of the node the modifier starts from (what the model calls root).
func c10RootKind(n ipld.Node) string {
	if len(n.Links()) > 0 {
		return "tree"
	}
	if _, ok := n.(*mdag.RawNode); ok {
		return "raw"
	}
	return "pb"
}

// c10Clone copies the modifier so that observations can be made without disturbing it: own node
// object (with its own link objects), own pending buffer, no reader.  The DAGService is shared
// (content addressed: adding blocks to it changes nothing for the original).
func c10Clone(dm *DagModifier) *DagModifier {
	c := *dm
	c.curNode = dm.curNode.Copy()
	if pn, ok := c.curNode.(*mdag.ProtoNode); ok {
		links := pn.Links()
		for i := range links {
			l := *links[i]
			links[i] = &l
		}
		pn.SetLinks(links)
	}
	if dm.wrBuf != nil {
		c.wrBuf = bytes.NewBuffer(append([]byte{}, dm.wrBuf.Bytes()...))
	}
	c.read = nil
	c.readCancel = nil
	return &c
}

func c10ReadBack(ds ipld.DAGService, nd ipld.Node) ([]byte, error) {
	r, err := uio.NewDagReader(context.Background(), nd, ds)
	if err != nil {
		return nil, err
	}
	defer r.Close()
	b, err := io.ReadAll(r)
	if err != nil {
		return nil, err
	}
	if int(r.Size()) != len(b) {
		return b, fmt.Errorf("reader Size()=%d but %d bytes read", r.Size(), len(b))
	}
	return b, nil
}

// c10Probe makes the four observations.
func c10Probe(dm *DagModifier, ds ipld.DAGService) (p c10P) {
	defer func() {
		if e := recover(); e != nil {
			p.Fail = fmt.Sprintf("panic in probe: %v", e)
		}
	}()
	sz, err := dm.Size()
	if err != nil {
		p.Fail = "Size: " + err.Error()
		return
	}
	p.Size = int(sz)
	c1 := c10Clone(dm)
	nd, err := c1.GetNode()
	if err != nil {
		p.Fail = "clone GetNode: " + err.Error()
		return
	}
	b, err := c10ReadBack(ds, nd)
	if err != nil {
		p.Fail = "read back: " + err.Error()
		return
	}
	p.View = c10Syms(b)
	c2 := c10Clone(dm)
	cur, err := c2.Seek(0, io.SeekCurrent)
	if err != nil {
		p.Fail = "clone Seek(0,SeekCurrent): " + err.Error()
		return
	}
	p.Cur = int(cur)
	c3 := c10Clone(dm)
	if n, err := c3.Write([]byte{c10Marker}); err != nil || n != 1 {
		p.Fail = fmt.Sprintf("clone Write(marker): n=%d err=%v", n, err)
		return
	}
	nd, err = c3.GetNode()
	if err != nil {
		p.Fail = "clone GetNode after marker: " + err.Error()
		return
	}
	b, err = c10ReadBack(ds, nd)
	if err != nil {
		p.Fail = "read back after marker: " + err.Error()
		return
	}
	p.Wview = c10Syms(b)
	return
}

// c10Do performs one call on the modifier under test.
func c10Do(dm *DagModifier, ds ipld.DAGService, st *c10Step, ctxRead bool) (r c10R) {
	defer func() {
		if e := recover(); e != nil {
			r.Err = true
			r.ErrStr = fmt.Sprintf("panic: %v", e)
		}
	}()
	setErr := func(err error) {
		if err != nil {
			r.Err = true
			r.ErrStr = err.Error()
		}
	}
	switch st.Op {
	case "Write":
		n, err := dm.Write(c10Bytes(st.B))
		r.N = n
		setErr(err)
	case "WriteAt":
		n, err := dm.WriteAt(c10Bytes(st.B), int64(st.O))
		r.N = n
		setErr(err)
	case "Read":
		buf := make([]byte, st.K)
		var n int
		var err error
		if ctxRead {
			n, err = dm.CtxReadFull(context.Background(), buf)
		} else {
			n, err = dm.Read(buf)
		}
		r.N = n
		if n >= 0 && n <= len(buf) {
			r.Data = c10Syms(buf[:n])
		}
		if err == io.EOF {
			r.Eof = true
		} else {
			setErr(err)
		}
	case "Seek":
		ret, err := dm.Seek(int64(st.O), st.W)
		r.Ret = int(ret)
		setErr(err)
	case "Truncate":
		setErr(dm.Truncate(int64(st.O)))
	case "Size":
		n, err := dm.Size()
		r.Ret = int(n)
		setErr(err)
	case "Sync":
		setErr(dm.Sync())
	case "GetNode":
		nd, err := dm.GetNode()
		setErr(err)
		if err == nil {
			r.node = nd
			b, err := c10ReadBack(ds, nd)
			setErr(err)
			r.Data = c10Syms(b)
		}
	default:
		r.Err = true
		r.ErrStr = "unknown op " + st.Op
	}
	return
}

// c10SameR: do the real results equal the expected ones (for this kind of call)?
func c10SameR(op string, real, exp c10R) bool {
	if exp.Any {
		return true
	}
	if real.Err != exp.Err {
		return false
	}
	if exp.Err {
		return true // which error / which value accompanies it is not specified
	}
	switch op {
	case "Write", "WriteAt":
		return real.N == exp.N
	case "Read":
		okEof := false
		for _, e := range exp.Eofs {
			if e == real.Eof {
				okEof = true
			}
		}
		return real.N == exp.N && okEof && c10EqInts(real.Data, exp.Data)
	case "Seek", "Size":
		return real.Ret == exp.Ret
	case "GetNode":
		return c10EqInts(real.Data, exp.Data)
	}
	return true
}

func c10SameP(real, exp c10P) bool {
	return real.Fail == "" && real.Size == exp.Size && real.Cur == exp.Cur &&
		c10EqInts(real.View, exp.View) && c10EqInts(real.Wview, exp.Wview)
}

func c10Desc(st *c10Step) string {
	switch st.Op {
	case "Write":
		return fmt.Sprintf("Write(%v)", st.B)
	case "WriteAt":
		return fmt.Sprintf("WriteAt(%v, %d)", st.B, st.O)
	case "Read":
		return fmt.Sprintf("Read(%d)", st.K)
	case "Seek":
		return fmt.Sprintf("Seek(%d, %d)", st.O, st.W)
	case "Truncate":
		return fmt.Sprintf("Truncate(%d)", st.O)
	}
	return st.Op + "()"
}

func c10FmtR(r c10R) string {
	return fmt.Sprintf("{n=%d err=%v(%s) eof=%v data=%v ret=%d}", r.N, r.Err, r.ErrStr, r.Eof, r.Data, r.Ret)
}
func c10FmtP(p c10P) string {
	if p.Fail != "" {
		return "{probe failed: " + p.Fail + "}"
	}
	return fmt.Sprintf("{size=%d cur=%d view=%v wview=%v}", p.Size, p.Cur, p.View, p.Wview)
}

// c10RdTrack notices a reader (dm.read) that outlives a change of dm.curNode: as built, Truncate and
// expandSparse keep it, and reading through it serves the old DAG -- or never returns, when the old
// root object was re-linked in place under the walker.  The harness therefore does not perform such
// a Read; "the reader survived" is reported as the as-built outcome instead.
type c10RdTrack struct {
	rd  uio.DagReader
	cid cid.Cid
}

func (t *c10RdTrack) after(dm *DagModifier) {
	if dm.read == nil {
		t.rd = nil
	} else if dm.read != t.rd {
		t.rd, t.cid = dm.read, dm.curNode.Cid()
	}
}
func (t *c10RdTrack) stale(dm *DagModifier) bool {
	return dm.read != nil && dm.read == t.rd && dm.wrBuf == nil && !dm.curNode.Cid().Equals(t.cid)
}

// c10Snap: a node returned by GetNode is a value -- it must keep reading back as the content it had
// when it was returned (and keep its CID), whatever is written through the modifier afterwards.
type c10Snap struct {
	nd   ipld.Node
	cid  cid.Cid
	want []int
	step int
}

// c10CheckSnaps re-reads the retained nodes.  Returns ("", false) if all are intact; else a
// description and whether the damage has exactly the as-built shape of Dev_C10_GetNodeAliased:
// modifyDag overwrites through the link objects that the returned copy shares with curNode, so the
// node keeps its length and (cached) CID while bytes inside it become the bytes of a later version.
func c10CheckSnaps(ds ipld.DAGService, snaps []c10Snap, later [][]int) (string, bool) {
	for _, sn := range snaps {
		got, err := c10ReadBack(ds, sn.nd)
		if err == nil && c10EqInts(c10Syms(got), sn.want) && sn.nd.Cid().Equals(sn.cid) {
			continue
		}
		what := fmt.Sprintf("the node returned by GetNode at step %d now reads back %v (err %v, cid unchanged: %v), it held %v",
			sn.step, c10Syms(got), err, sn.nd.Cid().Equals(sn.cid), sn.want)
		asBuilt := err == nil && len(got) == len(sn.want) && sn.nd.Cid().Equals(sn.cid)
		for i := 0; asBuilt && i < len(got); i++ {
			ok := int(got[i]) == sn.want[i]
			for _, v := range later {
				ok = ok || (i < len(v) && v[i] == int(got[i]))
			}
			asBuilt = ok
		}
		return what, asBuilt
	}
	return "", false
}

// c10Found is one disagreement with the file model that is exactly an as-built alternative.
type c10Found struct {
	step int
	what string
	devs []string
}

// as-built failures under an identity-hash prefix: an oversized identity block is added (a), or a
// branch node is linked by its oversized identity CID and cannot be fetched when reading (b)
const c10IdentErr = "digest too large: identity digest"
const c10FetchErr = "failed to fetch all nodes"

// c10RunOne replays one behaviour on one configuration.
// Returns the explained deviations met on the way and, if step != 0, the unexplained disagreement.
func c10RunOne(b *c10Beh, c c10Cfg) (found []c10Found, step int, what string) {
	content := make([]byte, b.Init.Size)
	for i := range content {
		content[i] = byte(i + 1)
	}
	dm, ds, err := c10Start(content, c)
	if err != nil {
		if c.Ident && strings.Contains(err.Error(), c10IdentErr) {
			return nil, 0, "" // the importer itself cannot build this file under an identity prefix: not the modifier's business
		}
		return nil, -1, "setup: " + err.Error()
	}
	// (an empty file is a childless node in every layout; with no inline bytes its kind is immaterial)
	if k := c10RootKind(dm.curNode); b.Init.Size > 0 && (k == "pb") != (b.Init.Root == "pb") {
		return nil, -1, fmt.Sprintf("setup: root kind %s but behaviour wants %s", k, b.Init.Root)
	}
	follow := false // false: expectations of the file model; true: follow track
	var track c10RdTrack
	var snaps []c10Snap
	var later [][]int
	aliasSeen := false
	for i := range b.Steps {
		st := &b.Steps[i]
		track.after(dm)
		expR, expP, alts, amb := st.R, st.P, st.Alts, st.Amb
		if follow {
			if st.Fo.Wild || st.Fo.P.Wild {
				return found, 0, ""
			}
			expR, expP, alts, amb = st.Fo.R, st.Fo.P, st.Fo.Alts, st.Fo.Amb
		}
		if amb {
			return found, 0, ""
		}
		if st.Op == "Read" && track.stale(dm) {
			what := c10Desc(st) + " would go through a reader that was opened before curNode changed (it serves the old DAG or never returns)"
			for _, a := range alts {
				for _, dv := range a.Devs {
					if dv == "Dev_C10_StaleReader" {
						return append(found, c10Found{i + 1, what, []string{dv}}), 0, ""
					}
				}
			}
			return found, i + 1, what
		}
		real := c10Do(dm, ds, st, c.CtxRead)
		sameR := c10SameR(st.Op, real, expR)
		var probe c10P
		probed := false
		doProbe := func() {
			if !probed {
				probe = c10Probe(dm, ds)
				probed = true
			}
		}
		if sameR {
			doProbe()
			if probe.Fail == "" {
				later = append(later, probe.View)
			}
			if !aliasSeen {
				if what, asBuilt := c10CheckSnaps(ds, snaps, later); what != "" {
					if !asBuilt {
						return found, i + 1, "after " + c10Desc(st) + ": " + what
					}
					found = append(found, c10Found{i + 1, "after " + c10Desc(st) + ": " + what, []string{"Dev_C10_GetNodeAliased"}})
					aliasSeen = true
				}
			}
			if st.Op == "GetNode" && real.node != nil && !real.Err {
				snaps = append(snaps, c10Snap{real.node, real.node.Cid(), real.Data, i + 1})
			}
			if c10SameP(probe, expP) {
				continue
			}
		}
		explain := func() string { return c10Explain(st, real, expR, probe, expP, probed) }
		// 1. the unrepaired deviations (follow track): exactly modelled, checking continues there
		if !follow && st.Fo.On && !st.Fo.Wild && !st.Fo.P.Wild && !st.Fo.Amb && c10SameR(st.Op, real, st.Fo.R) {
			doProbe()
			if c10SameP(probe, st.Fo.P) {
				found = append(found, c10Found{i + 1, explain(), st.Fo.Devs})
				follow = true
				continue
			}
		}
		// 2. identity-hash prefix: re-rooting outside Sync adds an oversized identity block
		if c.Ident {
			if sameR {
				doProbe()
			}
			xp := st.Xp || (follow && st.Fo.Xp)
			for _, a := range alts {
				xp = xp || (a.Xp && (c10SameR(st.Op, real, a.R) || strings.Contains(real.ErrStr, c10IdentErr)))
			}
			if (xp && (strings.Contains(real.ErrStr, c10IdentErr) || strings.Contains(probe.Fail, c10IdentErr))) ||
				strings.Contains(real.ErrStr, c10FetchErr) || strings.Contains(probe.Fail, c10FetchErr) {
				return append(found, c10Found{i + 1, explain(), []string{"Dev_C10_IdentityOverflow"}}), 0, ""
			}
		}
		// 3. the other open deviations: exact alternative of this call, checking stops.  Fully modelled
		// alternatives are tried before unmodelled ones, fewer deviations before more.
		alts = append([]c10Alt{}, alts...)
		sort.SliceStable(alts, func(x, y int) bool {
			wx, wy := alts[x].Wild || alts[x].P.Wild, alts[y].Wild || alts[y].P.Wild
			if wx != wy {
				return !wx
			}
			return len(alts[x].Devs) < len(alts[y].Devs)
		})
		for _, a := range alts {
			if !c10SameR(st.Op, real, a.R) {
				continue
			}
			if a.Wild || a.P.Wild {
				return append(found, c10Found{i + 1, explain(), a.Devs}), 0, ""
			}
			doProbe()
			if c10SameP(probe, a.P) {
				return append(found, c10Found{i + 1, explain(), a.Devs}), 0, ""
			}
		}
		doProbe()
		return found, i + 1, explain()
	}
	return found, 0, ""
}

func c10Explain(st *c10Step, real, expR c10R, probe, expP c10P, probed bool) string {
	s := fmt.Sprintf("%s returned %s, model %s", c10Desc(st), c10FmtR(real), c10FmtR(expR))
	if probed {
		s += fmt.Sprintf("; observed %s, model %s", c10FmtP(probe), c10FmtP(expP))
	}
	return s
}

// c10Configs lists the configurations a behaviour with this initial root/size is replayed on.
func c10Configs(root string, size int) []c10Cfg {
	var cs []c10Cfg
	for _, mc := range []int{2, 3} {
		for _, w := range []int{2, 3, 4} {
			for _, v1 := range []bool{false, true} {
				for _, ctxr := range []bool{false, true} {
					if root == "pb" {
						// balanced layout of a file that fits one chunk: a single dag-pb leaf
						ic := size
						if ic == 0 {
							ic = mc
						}
						cs = append(cs, c10Cfg{Layout: "bal", ImpRaw: false, ImpChunk: ic, ModRaw: v1, ModChunk: mc, MaxLinks: w, V1: v1, CtxRead: ctxr})
						if !v1 {
							cs = append(cs, c10Cfg{Layout: "bal", ImpRaw: false, ImpChunk: ic, ModRaw: true, ModChunk: mc, MaxLinks: w, V1: false, CtxRead: ctxr})
						}
						continue
					}
					for _, raw := range []bool{false, true} {
						cs = append(cs, c10Cfg{Layout: "tri", ImpRaw: raw, ImpChunk: mc, ModRaw: raw, ModChunk: mc, MaxLinks: w, V1: v1, CtxRead: ctxr})
						if raw || size > mc {
							// balanced: a tree when size > chunk, else a single raw leaf
							cs = append(cs, c10Cfg{Layout: "bal", ImpRaw: raw, ImpChunk: mc, ModRaw: raw, ModChunk: mc, MaxLinks: w, V1: v1, CtxRead: ctxr})
						}
					}
				}
			}
		}
	}
	if root == "pb" {
		ic := size
		if ic == 0 {
			ic = 3
		}
		cs = append(cs, c10Cfg{Layout: "bal", ImpRaw: false, ImpChunk: ic, ModRaw: true, ModChunk: 3, MaxLinks: 3, Ident: true},
			c10Cfg{Layout: "bal", ImpRaw: false, ImpChunk: ic, ModRaw: false, ModChunk: 2, MaxLinks: 2, Ident: true, CtxRead: true})
	} else {
		// identity-hash prefix (CIDv1): blocks inline in the CID until they outgrow the limit
		cs = append(cs, c10Cfg{Layout: "tri", ImpRaw: true, ImpChunk: 3, ModRaw: true, ModChunk: 3, MaxLinks: 3, Ident: true},
			c10Cfg{Layout: "bal", ImpRaw: true, ImpChunk: 3, ModRaw: true, ModChunk: 3, MaxLinks: 2, Ident: true, CtxRead: true})
	}
	return cs
}

func TestVerifC10(t *testing.T) {
	defer vFlush()
	switch vMode() {
	case "replay":
		c10Replay(t)
	case "record":
		c10Record(t)
	default:
		t.Skip("no VERIF_MODE")
	}
}

func c10Replay(t *testing.T) {
	perBeh := vEnvInt("C10_CFGS", 3) // configurations per behaviour (0 = all)
	raws := vIn()
	type out struct{ recs []M }
	results := make([]out, len(raws))
	var wg sync.WaitGroup
	sem := make(chan struct{}, 8)
	var mu sync.Mutex
	cfgSeen := map[string]bool{}
	for i := range raws {
		wg.Add(1)
		sem <- struct{}{}
		go func(i int) {
			defer wg.Done()
			defer func() { <-sem }()
			var b c10Beh
			if err := json.Unmarshal(raws[i], &b); err != nil {
				results[i].recs = []M{{"i": i, "ok": false, "step": 0, "what": "bad behaviour json: " + err.Error()}}
				return
			}
			all := c10Configs(b.Init.Root, b.Init.Size)
			if flt := vEnv("C10_FILTER"); flt != "" { // debugging aid: only configurations whose name contains flt
				var keep []c10Cfg
				for _, c := range all {
					if strings.Contains(c.String(), flt) {
						keep = append(keep, c)
					}
				}
				all = keep
			}
			var pick []c10Cfg
			if perBeh <= 0 || perBeh >= len(all) {
				pick = all
			} else {
				rng := rand.New(rand.NewSource(vSeed()*1000003 + int64(i)))
				for _, j := range rng.Perm(len(all))[:perBeh] {
					pick = append(pick, all[j])
				}
			}
			var recs []M
			seenDev := map[string]bool{}
			for _, c := range pick {
				found, step, what := c10RunOne(&b, c)
				mu.Lock()
				cfgSeen[c.String()] = true
				mu.Unlock()
				for _, fd := range found {
					sort.Strings(fd.devs)
					key := strings.Join(fd.devs, "+")
					if seenDev[key] {
						continue
					}
					seenDev[key] = true
					for _, dv := range fd.devs {
						recs = append(recs, M{"i": i, "ok": false, "step": fd.step, "what": "[" + c.String() + "] " + fd.what, "dev": dv, "devs": fd.devs})
					}
				}
				if step != 0 {
					recs = append(recs, M{"i": i, "ok": false, "step": step, "what": "[" + c.String() + "] " + what})
					break
				}
			}
			if len(recs) == 0 {
				recs = []M{{"i": i, "ok": true}}
			}
			results[i].recs = recs
		}(i)
	}
	wg.Wait()
	for _, r := range results {
		for _, m := range r.recs {
			vEmit(m)
		}
	}
	vEmit(M{"summary": true, "n": len(raws), "configs": len(cfgSeen)})
}

// ---------------------------------------------------------------------------------------------
// record: random histories on larger files, one NDJSON event per call

func c10RandBytes(rng *rand.Rand, n int) []byte {
	b := make([]byte, n)
	for i := range b {
		b[i] = byte(1 + rng.Intn(250)) // never 0 (zero fill) and never the marker
	}
	return b
}

// c10WPos locates the marker in the read-back of the marker probe and checks that the rest of it
// is the view (zero-extended up to the marker): the projection of "where the next Write lands".
func c10WPos(view, wview []int) (int, bool) {
	pos := -1
	for i, x := range wview {
		if x == c10Marker {
			pos = i
			break
		}
	}
	if pos < 0 {
		return -1, false
	}
	want := append([]int{}, view...)
	for len(want) < pos+1 {
		want = append(want, 0)
	}
	want[pos] = c10Marker
	return pos, c10EqInts(want, wview)
}

func c10Record(t *testing.T) {
	rng := vRand()
	runs, nops := 14, 20
	if !vQuick() {
		runs = 120
	}
	for run := 0; run < runs; run++ {
		var size int
		switch run % 4 {
		case 0:
			size = rng.Intn(40)
		case 1:
			size = rng.Intn(700)
		case 2:
			size = 1000 + rng.Intn(3097)
		default:
			size = rng.Intn(4097)
		}
		chunk := []int{16, 64, 256, 512}[rng.Intn(4)]
		c := c10Cfg{Layout: []string{"bal", "tri"}[rng.Intn(2)], ImpRaw: rng.Intn(2) == 0, ImpChunk: chunk,
			ModChunk: chunk, MaxLinks: 2 + rng.Intn(7), V1: rng.Intn(2) == 0, CtxRead: rng.Intn(2) == 0}
		c.ModRaw = c.ImpRaw
		if rng.Intn(3) == 0 {
			c.ModChunk = []int{16, 64, 256, 512}[rng.Intn(4)]
		}
		if rng.Intn(6) == 0 {
			c.Ident = true
		}
		if rng.Intn(5) == 0 && size > 0 {
			// a single dag-pb leaf carrying the data inline
			c.Layout, c.ImpRaw, c.ImpChunk = "bal", false, size
		}
		content := c10RandBytes(rng, size)
		dm, ds, err := c10Start(content, c)
		if err != nil {
			if !(c.Ident && strings.Contains(err.Error(), c10IdentErr)) { // (importer limit under an identity prefix)
				vEmit(M{"ev": "Broken", "what": "setup " + c.String() + ": " + err.Error()})
			}
			continue
		}
		vEmit(M{"ev": "Reset", "content": c10Syms(content), "root": c10RootKind(dm.curNode), "ident": c.Ident, "cfg": c.String()})
		cur := 0 // only used to aim offsets; the model does not see it
		var track c10RdTrack
		for i := 0; i < nops; i++ {
			track.after(dm)
			sz64, _ := dm.Size()
			sz := int(sz64)
			st := &c10Step{}
			near := func() int { // an offset in [0, size+64], biased to chunk boundaries / the end / the position
				switch rng.Intn(5) {
				case 0:
					return sz + rng.Intn(65)
				case 1:
					return (rng.Intn(sz/chunk+1))*chunk + rng.Intn(3) - 1 + 1
				case 2:
					return cur
				default:
					return rng.Intn(sz + 1)
				}
			}
			switch op := rng.Intn(20); {
			case op < 5:
				st.Op, st.B = "Write", c10Syms(c10RandBytes(rng, rng.Intn(65)))
			case op < 9:
				st.Op, st.B, st.O = "WriteAt", c10Syms(c10RandBytes(rng, rng.Intn(65))), near()
			case op < 13:
				st.Op, st.K = "Read", []int{0, 1, 7, chunk, chunk + 1, 64, 2 * chunk}[rng.Intn(7)]
			case op < 16:
				st.Op, st.W = "Seek", rng.Intn(3)
				tgt := near()
				if rng.Intn(8) == 0 {
					tgt = -1 - rng.Intn(3)
				}
				switch st.W {
				case 0:
					st.O = tgt
				case 1:
					st.O = tgt - cur
				default:
					st.O = tgt - sz
				}
				if rng.Intn(30) == 0 {
					st.W = 3
				}
			case op < 17:
				st.Op, st.O = "Truncate", near()
			case op < 18:
				st.Op = "Size"
			case op < 19:
				st.Op = "Sync"
			default:
				st.Op = "GetNode"
			}
			if st.Op == "Read" && track.stale(dm) {
				// not performed (see c10RdTrack); the rest of this run is not logged
				vEmit(M{"ev": "Read", "b": []int{}, "o": 0, "w": 0, "k": st.K, "stale": true, "r": M{}, "p": M{}})
				break
			}
			r := c10Do(dm, ds, st, c.CtxRead)
			p := c10Probe(dm, ds)
			wpos, wok := c10WPos(p.View, p.Wview)
			if p.Fail == "" {
				cur = p.Cur
			}
			if r.Data == nil {
				r.Data = []int{}
			}
			if st.B == nil {
				st.B = []int{}
			}
			if p.View == nil {
				p.View = []int{}
			}
			vEmit(M{"ev": st.Op, "b": st.B, "o": st.O, "w": st.W, "k": st.K, "stale": false,
				"r": M{"n": r.N, "err": r.Err, "eof": r.Eof, "data": r.Data, "ret": r.Ret, "errstr": r.ErrStr,
					"identerr": strings.Contains(r.ErrStr, c10IdentErr), "fetcherr": strings.Contains(r.ErrStr, c10FetchErr)},
				"p": M{"fail": p.Fail, "size": p.Size, "cur": p.Cur, "view": p.View, "wpos": wpos, "wok": wok,
					"identfail": strings.Contains(p.Fail, c10IdentErr), "fetchfail": strings.Contains(p.Fail, c10FetchErr)}})
		}
	}
}
