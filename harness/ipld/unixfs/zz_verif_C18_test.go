//go:build verif

package unixfs

// C18 harness: FSNode metadata round trips vs. spec/FSNodeMeta.
//
// replay only (the property is input-quantified): TLC emits
//   "case" lines  - 64 permission values each, with the os.FileMode bits Mode() must return, the
//                   wire presence of the mode field, the extended bits and the mtime to read back;
//   "ctor" lines  - one ENTRY POINT that takes (mode, mtime) (stat-taking constructors, plain constructors followed
//                   by the setters on the parsed node; the hamt / uio / importer paths are replayed by the C18 harness
//                   in package ipld/unixfs/io) x one mtime class x a list of os.FileMode arguments, with what must be
//                   read back from the node it produces, right away and after SetExtendedMode + another round trip;
//   "meta"/"size" - mutator sequences of the FSNodeMeta state machine with the observables
//                   after every step.
// Every accessor is compared before AND after GetBytes -> FSNodeFromBytes; the raw protobuf
// struct (in-package field `format`) is inspected for the "unset" rules.
//
// Projection (trusted): os.FileMode <-> sorted list of its set bit positions; time.Time <->
// (sign, magnitude of Unix seconds in base-2^16 limbs, nanoseconds).

import (
	"encoding/json"
	"fmt"
	"os"
	"testing"
	"time"

	dag "github.com/ipfs/boxo/ipld/merkledag"
	pb "github.com/ipfs/boxo/ipld/unixfs/pb"
)

type c18Time struct {
	Neg bool   `json:"neg"`
	Mag [4]int `json:"mag"`
	Ns  int    `json:"ns"`
}

func (t c18Time) time() time.Time {
	s := int64(uint64(t.Mag[0]) | uint64(t.Mag[1])<<16 | uint64(t.Mag[2])<<32 | uint64(t.Mag[3])<<48)
	if t.Neg {
		s = -s
	}
	return time.Unix(s, int64(t.Ns))
}

type c18Wire struct {
	Present bool `json:"present"`
	Nanos   bool `json:"nanos"`
}
type c18Ext struct {
	Lo int  `json:"lo"`
	Hi bool `json:"hi"`
}

func (e c18Ext) arg() uint32 {
	v := uint32(e.Lo)
	if e.Hi {
		v |= 0xA5500000 // bits above the 20 that SetExtendedMode documents as ignored
	}
	return v
}

func c18FromBits(bits []int) os.FileMode {
	var m os.FileMode
	for _, b := range bits {
		m |= 1 << uint(b)
	}
	return m
}
func c18Bits(m os.FileMode) []int {
	r := []int{}
	for b := 0; b < 32; b++ {
		if m&(1<<uint(b)) != 0 {
			r = append(r, b)
		}
	}
	return r
}
func c18SameBits(a, b []int) bool {
	if len(a) != len(b) {
		return false
	}
	for i := range a {
		if a[i] != b[i] {
			return false
		}
	}
	return true
}

var c18Types = map[string]pb.Data_DataType{"Raw": pb.Data_Raw, "Directory": pb.Data_Directory, "File": pb.Data_File,
	"Metadata": pb.Data_Metadata, "Symlink": pb.Data_Symlink, "HAMTShard": pb.Data_HAMTShard}

// round trip through the wire format
func c18RT(n *FSNode) (*FSNode, error) {
	b, err := n.GetBytes()
	if err != nil {
		return nil, err
	}
	return FSNodeFromBytes(b)
}

// mtime observables of a node against the expectation
func c18CheckTime(n *FSNode, exp c18Time, w c18Wire) string {
	got := n.ModTime()
	zero := exp.Neg && exp.Mag == [4]int{63232, 30609, 14, 0} && exp.Ns == 0
	if zero {
		if !got.IsZero() {
			return fmt.Sprintf("ModTime()=%v, spec: unset (zero time)", got)
		}
	} else {
		want := exp.time()
		if got.IsZero() || !got.Equal(want) || got.Unix() != want.Unix() || got.Nanosecond() != want.Nanosecond() {
			return fmt.Sprintf("ModTime()=%v (unix %d ns %d), spec %v (unix %d ns %d)", got, got.Unix(), got.Nanosecond(), want, want.Unix(), want.Nanosecond())
		}
	}
	mt := n.format.Mtime
	if (mt != nil) != w.Present {
		return fmt.Sprintf("mtime field present=%v, spec %v", mt != nil, w.Present)
	}
	if mt != nil && (mt.Nanos != nil) != w.Nanos {
		return fmt.Sprintf("mtime nanos sub-field present=%v, spec %v", mt.Nanos != nil, w.Nanos)
	}
	return ""
}

type c18Row struct {
	P        int   `json:"p"`
	Bits     []int `json:"bits"`
	Osin     []int `json:"osin"`
	Present  bool  `json:"present"`
	Present0 bool  `json:"present0"` // ctor lines: as produced by the entry point
}
type c18Obs struct {
	Mode    []int   `json:"mode"`
	Ext     int     `json:"ext"`
	ModeSet bool    `json:"modeSet"`
	Mt      c18Time `json:"mt"`
	MtWire  c18Wire `json:"mtWire"`
	Fsize   int     `json:"fsize"`
	DsErr   bool    `json:"dsErr"`
	Nblocks int     `json:"nblocks"`
	Dlen    int     `json:"dlen"`
}
type c18Step struct {
	Op   string  `json:"op"`
	Bits []int   `json:"bits"`
	P    int     `json:"p"`
	E    c18Ext  `json:"e"`
	T    c18Time `json:"t"`
	N    int     `json:"n"`
	S    int     `json:"s"`
	I    int     `json:"i"`
	Obs  c18Obs  `json:"obs"`
}
type c18Beh struct {
	K   string `json:"k"`
	Typ string `json:"typ"`
	// ctor
	Entry string `json:"entry"`
	// case
	Ext       c18Ext   `json:"ext"`
	Order     string   `json:"order"`
	Via       string   `json:"via"`
	Junk      []int    `json:"junk"`
	T         c18Time  `json:"t"`
	ExpExt    int      `json:"expExt"`
	ExpMt     c18Time  `json:"expMt"`
	ExpMtWire c18Wire  `json:"expMtWire"`
	Ps        []c18Row `json:"ps"`
	// meta / size
	Steps []c18Step `json:"steps"`
}

func c18CheckMode(n *FSNode, bits []int, ext int, present bool, where string) string {
	if got := c18Bits(n.Mode()); !c18SameBits(got, bits) {
		return fmt.Sprintf("%s: Mode() bits=%v spec %v", where, got, bits)
	}
	if got := n.ExtendedMode(); int(got) != ext {
		return fmt.Sprintf("%s: ExtendedMode()=%#x spec %#x", where, got, ext)
	}
	if (n.format.Mode != nil) != present {
		return fmt.Sprintf("%s: mode field present=%v spec %v", where, n.format.Mode != nil, present)
	}
	return ""
}

func c18Case(b *c18Beh) (int, string) {
	typ, ok := c18Types[b.Typ]
	if !ok {
		return 0, "type " + b.Typ
	}
	junk := c18FromBits(b.Junk)
	for k, row := range b.Ps {
		n := NewFSNode(typ)
		setMode := func() {
			if b.Via == "unix" {
				n.SetModeFromUnixPermissions(uint32(row.P))
			} else {
				n.SetMode(c18FromBits(row.Osin) | junk)
			}
		}
		if b.Order == "me" {
			setMode()
			n.SetExtendedMode(b.Ext.arg())
		} else {
			n.SetExtendedMode(b.Ext.arg())
			setMode()
		}
		n.SetModTime(b.T.time())
		for _, where := range []string{"before serialization", "after FSNodeFromBytes(GetBytes())"} {
			if d := c18CheckMode(n, row.Bits, b.ExpExt, row.Present, where); d != "" {
				return k + 1, fmt.Sprintf("perm %#o: %s", row.P, d)
			}
			if d := c18CheckTime(n, b.ExpMt, b.ExpMtWire); d != "" {
				return k + 1, fmt.Sprintf("perm %#o: %s: %s", row.P, where, d)
			}
			var err error
			if n, err = c18RT(n); err != nil {
				return k + 1, "round trip: " + err.Error()
			}
		}
	}
	return 0, ""
}

// c18Produce: the serialized UnixFS Data of a node made through the entry point with (mode, mtime).
func c18Produce(entry string, mode os.FileMode, mt time.Time) ([]byte, error) {
	setters := func(b []byte, err error) ([]byte, error) { // plain constructor, parse, setters, serialize
		if err != nil {
			return nil, err
		}
		n, err := FSNodeFromBytes(b)
		if err != nil {
			return nil, err
		}
		n.SetMode(mode)
		n.SetModTime(mt)
		return n.GetBytes()
	}
	switch entry {
	case "FilePBDataWithStat":
		return FilePBDataWithStat([]byte("abc"), 3, mode, mt), nil
	case "FolderPBDataWithStat":
		return FolderPBDataWithStat(mode, mt), nil
	case "EmptyDirNodeWithStat":
		nd := EmptyDirNodeWithStat(mode, mt)
		cp, err := dag.DecodeProtobuf(nd.RawData()) // through the dag-pb block, as a reader gets it
		if err != nil {
			return nil, err
		}
		return cp.Data(), nil
	case "HAMTShardDataWithStat":
		return HAMTShardDataWithStat([]byte{0x01}, 256, 0x22, mode, mt)
	case "WrapDataSetters":
		return setters(WrapData([]byte("abc")), nil)
	case "SymlinkDataSetters":
		return setters(SymlinkData("a/b"))
	case "FilePBDataSetters":
		return setters(FilePBData([]byte("abc"), 3), nil)
	case "FolderPBDataSetters":
		return setters(FolderPBData(), nil)
	case "HAMTShardDataSetters":
		return setters(HAMTShardData([]byte{0x01}, 256, 0x22))
	case "NewFSNodeMetadata":
		return setters(NewFSNode(pb.Data_Metadata).GetBytes())
	}
	return nil, fmt.Errorf("unknown entry point %q", entry)
}

func c18Ctor(b *c18Beh) (int, string) {
	typ, ok := c18Types[b.Typ]
	if !ok {
		return 0, "type " + b.Typ
	}
	for k, row := range b.Ps {
		raw, err := c18Produce(b.Entry, c18FromBits(row.Osin), b.T.time())
		if err != nil {
			return k + 1, fmt.Sprintf("%s: %v", b.Entry, err)
		}
		n, err := FSNodeFromBytes(raw)
		if err != nil {
			return k + 1, fmt.Sprintf("%s: FSNodeFromBytes: %v", b.Entry, err)
		}
		if n.Type() != typ {
			return k + 1, fmt.Sprintf("%s: node type %v, spec %s", b.Entry, n.Type(), b.Typ)
		}
		pre := fmt.Sprintf("%s mode arg bits %v (perm %#o)", b.Entry, row.Osin, row.P)
		if d := c18CheckMode(n, row.Bits, 0, row.Present0, "as produced"); d != "" {
			return k + 1, pre + ": " + d
		}
		if d := c18CheckTime(n, b.ExpMt, b.ExpMtWire); d != "" {
			return k + 1, pre + ": as produced: " + d
		}
		n.SetExtendedMode(b.Ext.arg())
		for _, where := range []string{"after SetExtendedMode", "after SetExtendedMode + FSNodeFromBytes(GetBytes())"} {
			if d := c18CheckMode(n, row.Bits, b.ExpExt, row.Present, where); d != "" {
				return k + 1, pre + ": " + d
			}
			if d := c18CheckTime(n, b.ExpMt, b.ExpMtWire); d != "" {
				return k + 1, pre + ": " + where + ": " + d
			}
			if n, err = c18RT(n); err != nil {
				return k + 1, "round trip: " + err.Error()
			}
		}
	}
	return 0, ""
}

func c18CheckObs(n *FSNode, o *c18Obs, where string) string {
	if d := c18CheckMode(n, o.Mode, o.Ext, o.ModeSet, where); d != "" {
		return d
	}
	if d := c18CheckTime(n, o.Mt, o.MtWire); d != "" {
		return where + ": " + d
	}
	if got := n.FileSize(); got != uint64(o.Fsize) {
		return fmt.Sprintf("%s: FileSize()=%d spec %d", where, got, o.Fsize)
	}
	if got := n.NumChildren(); got != o.Nblocks {
		return fmt.Sprintf("%s: NumChildren()=%d spec %d", where, got, o.Nblocks)
	}
	if got := len(n.Data()); got != o.Dlen {
		return fmt.Sprintf("%s: len(Data())=%d spec %d", where, got, o.Dlen)
	}
	raw, err := n.GetBytes()
	if err != nil {
		return where + ": GetBytes: " + err.Error()
	}
	sz, err := DataSize(raw)
	if (err != nil) != o.DsErr {
		return fmt.Sprintf("%s: DataSize error=%v spec error=%v", where, err, o.DsErr)
	}
	if err == nil && sz != uint64(o.Fsize) {
		return fmt.Sprintf("%s: DataSize()=%d spec %d", where, sz, o.Fsize)
	}
	return ""
}

func c18Hist(b *c18Beh) (int, string) {
	typ, ok := c18Types[b.Typ]
	if !ok {
		return 0, "type " + b.Typ
	}
	n := NewFSNode(typ)
	for k, st := range b.Steps {
		switch st.Op {
		case "SetMode":
			n.SetMode(c18FromBits(st.Bits))
		case "SetModeUnix":
			n.SetModeFromUnixPermissions(uint32(st.P))
		case "SetExt":
			n.SetExtendedMode(st.E.arg())
		case "SetModTime":
			n.SetModTime(st.T.time())
		case "RoundTrip":
			var err error
			if n, err = c18RT(n); err != nil {
				return k + 1, "round trip: " + err.Error()
			}
		case "SetData":
			d := make([]byte, st.N)
			for i := range d {
				d[i] = byte('a' + i)
			}
			n.SetData(d)
		case "AddBlockSize":
			n.AddBlockSize(uint64(st.S))
		case "RemoveBlockSize":
			n.RemoveBlockSize(st.I - 1)
		case "RemoveAllBlockSizes":
			n.RemoveAllBlockSizes()
		default:
			return k + 1, "unknown op " + st.Op
		}
		if d := c18CheckObs(n, &st.Obs, "after "+st.Op); d != "" {
			return k + 1, d
		}
		// the same observables must be read from a parsed copy (the property's observation point)
		cp, err := c18RT(n)
		if err != nil {
			return k + 1, "round trip: " + err.Error()
		}
		if d := c18CheckObs(cp, &st.Obs, "after "+st.Op+" + FSNodeFromBytes(GetBytes())"); d != "" {
			return k + 1, d
		}
	}
	return 0, ""
}

func TestVerifC18(t *testing.T) {
	defer vFlush()
	if vMode() != "replay" {
		t.Skip("no VERIF_MODE")
	}
	n, nbad := 0, 0
	for i, raw := range vIn() {
		if nbad >= 25 { // enough evidence: every disagreement is written out as a replay file by the runner
			vEmit(M{"i": i, "ok": true, "skipped": true})
			n++
			continue
		}
		var b c18Beh
		if err := json.Unmarshal(raw, &b); err != nil {
			t.Fatalf("behaviour %d: %v", i, err)
		}
		var step int
		var what string
		switch b.K {
		case "case":
			step, what = c18Case(&b)
		case "ctor":
			step, what = c18Ctor(&b)
		case "meta", "size":
			step, what = c18Hist(&b)
		default:
			t.Fatalf("behaviour %d: kind %q", i, b.K)
		}
		if what == "" {
			vEmit(M{"i": i, "ok": true})
		} else {
			vEmit(M{"i": i, "ok": false, "step": step, "what": what})
			nbad++
		}
		n++
	}
	vEmit(M{"summary": true, "n": n})
}
