//go:build verif

package ipns

// C25 harness.
//  replay: TLC-generated adversary behaviours of spec/IPNS/IPNSValidate (symbolic record + expected
//          verdict per name and API) are realised on real records of real keys: every symbolic step
//          is mapped to a set of concrete protobuf mutations (every byte position of the field,
//          field removal, splicing from other library-made records, re-encodings), each mutated
//          record is projected back to the symbolic record by an independent wire parser and, when the
//          projection equals the record TLC printed, Validate / ValidateWithName / Validator.Validate
//          are run for both names and compared with the spec's verdict; accessors of accepted records
//          are compared with the signed document.
//  record: wire-level mutations of the serialized record (every byte, truncations, structural
//          re-encodings) are projected and logged with the verdicts of the real code; the trace is
//          validated by TraceIPNSValidate.

import (
	"bytes"
	"crypto/rand"
	"encoding/hex"
	"encoding/json"
	"errors"
	"fmt"
	"sort"
	"sync"
	"testing"
	"time"

	ipns_pb "github.com/ipfs/boxo/ipns/pb"
	"github.com/ipfs/boxo/path"
	"github.com/ipfs/boxo/util"
	"github.com/ipld/go-ipld-prime/codec"
	"github.com/ipld/go-ipld-prime/codec/dagcbor"
	ic "github.com/libp2p/go-libp2p/core/crypto"
	"github.com/libp2p/go-libp2p/core/peer"
	"google.golang.org/protobuf/proto"
)

const (
	c25NONE  = 0
	c25JUNK  = 100
	c25EMPTY = 101
	c25MUT   = 102
	c25EXT   = 50 // SigExt(k,d) = 50 + 10k + d
)

// named deviations in the order of DSeq of GenIPNSValidate: {}, {stray}, {trail}, {stray, trail}
var c25DevSets = [][]string{{}, {"Dev_C25_StrayLegacyField"}, {"Dev_C25_EcdsaSigTrailingBytes"},
	{"Dev_C25_StrayLegacyField", "Dev_C25_EcdsaSigTrailingBytes"}}

// ---------------------------------------------------------------- symbolic record (= TLA+ r)
type c25Sym struct {
	Data int    `json:"data"`
	Sig2 int    `json:"sig2"`
	Pk   int    `json:"pk"`
	Val  int    `json:"val"`
	Vdy  int    `json:"vdy"`
	Seq  int    `json:"seq"`
	Ttl  int    `json:"ttl"`
	Vty  string `json:"vty"`
	Sig1 string `json:"sig1"`
	Big  bool   `json:"big"`
}

type c25Step struct {
	Op  string `json:"op"`
	F   string `json:"f"`
	V   int    `json:"v"`
	S   string `json:"s"`
	V1  bool   `json:"v1"`
	Emb bool   `json:"emb"`
}
type c25Beh struct {
	Attr  string    `json:"attr"`
	Steps []c25Step `json:"steps"`
	R     c25Sym    `json:"r"`
	Exp   [][][][3]bool `json:"exp"` // [name][key class][deviation set] -> key, name, book
	Acc   int       `json:"acc"`
}

// ---------------------------------------------------------------- minimal protobuf wire codec (trusted projection)
type c25Ent struct {
	num int
	wt  int
	v   uint64 // wt 0,1,5
	b   []byte // wt 2
	raw []byte // if non-nil: literal encoding of the whole entry (tag included)
}

func c25AppendVarint(b []byte, v uint64) []byte {
	for v >= 0x80 {
		b = append(b, byte(v)|0x80)
		v >>= 7
	}
	return append(b, byte(v))
}

// padded varint: n extra continuation bytes (non-minimal encoding of the same value)
func c25AppendVarintPad(b []byte, v uint64, extra int) []byte {
	var t []byte
	t = c25AppendVarint(t, v)
	for i := 0; i < extra && len(t) < 10; i++ {
		t[len(t)-1] |= 0x80
		t = append(t, 0)
	}
	return append(b, t...)
}

func (e c25Ent) enc(b []byte) []byte {
	if e.raw != nil {
		return append(b, e.raw...)
	}
	b = c25AppendVarint(b, uint64(e.num)<<3|uint64(e.wt))
	switch e.wt {
	case 0:
		b = c25AppendVarint(b, e.v)
	case 1:
		for i := 0; i < 8; i++ {
			b = append(b, byte(e.v>>(8*i)))
		}
	case 5:
		for i := 0; i < 4; i++ {
			b = append(b, byte(e.v>>(8*i)))
		}
	case 2:
		b = c25AppendVarint(b, uint64(len(e.b)))
		b = append(b, e.b...)
	}
	return b
}

func c25Enc(es []c25Ent) []byte {
	var b []byte
	for _, e := range es {
		b = e.enc(b)
	}
	return b
}

func c25Varint(b []byte) (uint64, int) {
	var v uint64
	for i := 0; i < len(b) && i < 10; i++ {
		c := b[i]
		if i == 9 && c > 1 {
			return 0, -1
		}
		v |= uint64(c&0x7f) << (7 * uint(i))
		if c < 0x80 {
			return v, i + 1
		}
	}
	return 0, -1
}

// c25Skip consumes one field value (after the tag); returns length or -1.
func c25Skip(num uint64, wt int, b []byte, depth int) int {
	switch wt {
	case 0:
		_, n := c25Varint(b)
		return n
	case 1:
		if len(b) < 8 {
			return -1
		}
		return 8
	case 5:
		if len(b) < 4 {
			return -1
		}
		return 4
	case 2:
		l, n := c25Varint(b)
		if n < 0 || l > uint64(len(b)-n) {
			return -1
		}
		return n + int(l)
	case 3:
		if depth > 100 {
			return -1
		}
		n0 := len(b)
		for {
			t, n := c25Varint(b)
			if n < 0 {
				return -1
			}
			num2, wt2 := t>>3, int(t&7)
			if num2 < 1 || num2 > 0x7fffffff {
				return -1
			}
			b = b[n:]
			if wt2 == 4 {
				if num2 != num {
					return -1
				}
				return n0 - len(b)
			}
			n = c25Skip(num2, wt2, b, depth+1)
			if n < 0 {
				return -1
			}
			b = b[n:]
		}
	}
	return -1
}

// c25Parse splits a serialized message into entries (protobuf wire rules); ok=false if malformed.
func c25Parse(b []byte) ([]c25Ent, bool) {
	var es []c25Ent
	for len(b) > 0 {
		t, n := c25Varint(b)
		if n < 0 {
			return nil, false
		}
		num, wt := t>>3, int(t&7)
		if num < 1 || num > (1<<29)-1 {
			return nil, false
		}
		if wt == 4 || wt > 5 {
			return nil, false
		}
		m := c25Skip(num, wt, b[n:], 0)
		if m < 0 {
			return nil, false
		}
		e := c25Ent{num: int(num), wt: wt, raw: append([]byte(nil), b[:n+m]...)}
		body := b[n : n+m]
		switch wt {
		case 0:
			e.v, _ = c25Varint(body)
		case 1:
			for i := 0; i < 8; i++ {
				e.v |= uint64(body[i]) << (8 * uint(i))
			}
		case 5:
			for i := 0; i < 4; i++ {
				e.v |= uint64(body[i]) << (8 * uint(i))
			}
		case 2:
			_, k := c25Varint(body)
			e.b = append([]byte{}, body[k:]...)
		}
		es = append(es, e)
		b = b[n+m:]
	}
	return es, true
}

// expected wire type of the known fields of IpnsRecord
var c25FieldWt = map[int]int{1: 2, 2: 2, 3: 0, 4: 2, 5: 0, 6: 0, 7: 2, 8: 2, 9: 2}

const (
	c25FVal = 1
	c25FSig1 = 2
	c25FVty = 3
	c25FVdy = 4
	c25FSeq = 5
	c25FTtl = 6
	c25FPk = 7
	c25FSig2 = 8
	c25FData = 9
)

var c25FieldNum = map[string]int{"val": 1, "sig1": 2, "vty": 3, "vdy": 4, "seq": 5, "ttl": 6, "pk": 7, "sig2": 8, "data": 9, "big": 0}

// last occurrence with the right wire type wins; everything else is an unknown field
func c25Last(es []c25Ent, num int) (c25Ent, bool) {
	for i := len(es) - 1; i >= 0; i-- {
		if es[i].num == num && es[i].wt == c25FieldWt[num] {
			return es[i], true
		}
	}
	return c25Ent{}, false
}

func c25Fresh(e c25Ent) c25Ent { e.raw = nil; return e }

// ---------------------------------------------------------------- universe: keys, documents, library-made records
type c25Doc struct {
	value string
	seq   uint64
	eol   time.Time
	ttl   time.Duration
	md    map[string]any
	cbor  []byte
}

type c25Key struct {
	sk   ic.PrivKey
	pk   ic.PubKey
	pkb  []byte
	name Name
	pid  peer.ID
}

type c25Uni struct {
	kt    string
	inl   bool
	lax   bool // signature decoder of this key type ignores trailing bytes (observed: ECDSA)
	class int  // index into ClassSeq of GenIPNSValidate
	keys  map[int]*c25Key // 1,2 model keys; 3 foreign key of the same type
	other *c25Key         // key of a different type
	kb    *c25KeyBook
	docs  map[string]map[int]*c25Doc            // attr -> d -> doc
	base  map[string][]byte                     // key "attr/k/d/v1/emb" -> serialized library-made record
	sigs  map[string]map[string]int             // attr -> sig bytes -> SigOf(k,d)
	sigOf map[string]map[int][]byte             // attr -> SigOf -> one signature
	sig1  map[string]map[int][]byte             // attr -> d -> a signatureV1 (key 1)
}

type c25KeyBook struct{ m map[peer.ID]ic.PubKey }

func (k *c25KeyBook) PubKey(p peer.ID) ic.PubKey            { return k.m[p] }
func (k *c25KeyBook) AddPubKey(p peer.ID, pk ic.PubKey) error { k.m[p] = pk; return nil }
func (k *c25KeyBook) PrivKey(peer.ID) ic.PrivKey            { return nil }
func (k *c25KeyBook) AddPrivKey(peer.ID, ic.PrivKey) error  { return nil }
func (k *c25KeyBook) PeersWithKeys() peer.IDSlice           { return nil }
func (k *c25KeyBook) RemovePeer(peer.ID)                    {}

var c25KeyTypes = []string{"ed25519", "secp256k1", "ecdsa", "rsa"}

func c25KeyTypeNum(kt string) int {
	switch kt {
	case "ed25519":
		return ic.Ed25519
	case "secp256k1":
		return ic.Secp256k1
	case "ecdsa":
		return ic.ECDSA
	}
	return ic.RSA
}

func c25GenKey(kt string) *c25Key {
	sk, pk, err := ic.GenerateKeyPairWithReader(c25KeyTypeNum(kt), 2048, rand.Reader)
	if err != nil {
		panic(err)
	}
	pid, err := peer.IDFromPublicKey(pk)
	if err != nil {
		panic(err)
	}
	pkb, err := ic.MarshalPublicKey(pk)
	if err != nil {
		panic(err)
	}
	return &c25Key{sk: sk, pk: pk, pkb: pkb, name: NameFromPeer(pid), pid: pid}
}

var c25Attrs = []string{"ok", "expired", "negttl"}

func c25MkDocs(now time.Time) map[string]map[int]*c25Doc {
	res := map[string]map[int]*c25Doc{}
	for _, a := range c25Attrs {
		d1 := &c25Doc{value: "/ipfs/bafybeigdyrzt5sfp7udm7hu76uh7y26nf3efuylqabf3oclgtqy55fbzdi/dir/file.txt",
			seq: 5, eol: now.Add(24*time.Hour + 123456789), ttl: time.Hour,
			md: map[string]any{"_note": "c25", "_n": int64(-7)}}
		switch a {
		case "expired":
			d1.eol = now.Add(-time.Hour - 987654321)
		case "negttl":
			d1.ttl = -5 * time.Second
		}
		d2 := &c25Doc{value: "/ipns/k51qzi5uqu5dgutdk6i1ynyzgkqngpha5xpgia3a5qqp4jsh0u4csozksxel2r",
			seq: 0, eol: now.Add(48 * time.Hour).Truncate(time.Second), ttl: 0}
		res[a] = map[int]*c25Doc{1: d1, 2: d2}
	}
	return res
}

// c25Craft builds a record exactly like newRecord but without the TTL floor (a signer that is not
// this library); only used for the negative-TTL document.
func c25Craft(sk ic.PrivKey, d *c25Doc, v1, emb bool) *Record {
	node, err := createNode([]byte(d.value), d.seq, d.eol, d.ttl, d.md)
	if err != nil {
		panic(err)
	}
	cborData, err := nodeToCBOR(node)
	if err != nil {
		panic(err)
	}
	sd, _ := recordDataForSignatureV2(cborData)
	sig2, err := sk.Sign(sd)
	if err != nil {
		panic(err)
	}
	pb := ipns_pb.IpnsRecord{Data: cborData, SignatureV2: sig2}
	if v1 {
		pb.Value = []byte(d.value)
		typ := ipns_pb.IpnsRecord_EOL
		pb.ValidityType = &typ
		seq := d.seq
		pb.Sequence = &seq
		pb.Validity = []byte(util.FormatRFC3339(d.eol))
		pb.Ttl = proto.Uint64(uint64(d.ttl.Nanoseconds()))
		sig1, err := sk.Sign(recordDataForSignatureV1(&pb))
		if err != nil {
			panic(err)
		}
		pb.SignatureV1 = sig1
	}
	if emb {
		pkb, _ := ic.MarshalPublicKey(sk.GetPublic())
		pb.PubKey = pkb
	}
	return &Record{pb: &pb, node: node}
}

func c25BaseKey(attr string, k, d int, v1, emb bool) string {
	return fmt.Sprintf("%s/%d/%d/%v/%v", attr, k, d, v1, emb)
}

func c25NewUni(kt string, now time.Time) *c25Uni {
	u := &c25Uni{kt: kt, keys: map[int]*c25Key{}, kb: &c25KeyBook{m: map[peer.ID]ic.PubKey{}},
		base: map[string][]byte{}, sigs: map[string]map[string]int{}, sigOf: map[string]map[int][]byte{},
		sig1: map[string]map[int][]byte{}}
	for k := 1; k <= 3; k++ {
		u.keys[k] = c25GenKey(kt)
	}
	if kt == "ed25519" {
		u.other = c25GenKey("secp256k1")
	} else {
		u.other = c25GenKey("ed25519")
	}
	_, err := u.keys[1].pid.ExtractPublicKey()
	u.inl = err == nil
	u.lax = kt == "ecdsa"
	switch {
	case u.inl:
		u.class = 0
	case u.lax:
		u.class = 2
	default:
		u.class = 1
	}
	u.kb.AddPubKey(u.keys[1].pid, u.keys[1].pk)
	u.kb.AddPubKey(u.keys[2].pid, u.keys[2].pk)
	u.docs = c25MkDocs(now)
	for _, a := range c25Attrs {
		u.sigs[a] = map[string]int{}
		u.sigOf[a] = map[int][]byte{}
		u.sig1[a] = map[int][]byte{}
		for k := 1; k <= 2; k++ {
			for d := 1; d <= 2; d++ {
				doc := u.docs[a][d]
				for _, v1 := range []bool{true, false} {
					for _, emb := range []bool{true, false} {
						var rec *Record
						if doc.ttl < 0 {
							rec = c25Craft(u.keys[k].sk, doc, v1, emb)
						} else {
							p, err := path.NewPath(doc.value)
							if err != nil {
								panic(err)
							}
							rec, err = NewRecord(u.keys[k].sk, p, doc.seq, doc.eol, doc.ttl,
								WithV1Compatibility(v1), WithPublicKey(emb), WithMetadata(doc.md))
							if err != nil {
								panic(err)
							}
						}
						b, err := MarshalRecord(rec)
						if err != nil {
							panic(err)
						}
						u.base[c25BaseKey(a, k, d, v1, emb)] = b
						doc.cbor = append([]byte(nil), rec.pb.GetData()...)
						u.sigs[a][string(rec.pb.GetSignatureV2())] = 10*k + d
						u.sigOf[a][10*k+d] = append([]byte(nil), rec.pb.GetSignatureV2()...)
						if v1 && k == 1 {
							u.sig1[a][d] = append([]byte(nil), rec.pb.GetSignatureV1()...)
						}
					}
				}
			}
		}
	}
	return u
}

// ---------------------------------------------------------------- projection: serialized bytes -> symbolic record
func (u *c25Uni) project(attr string, raw []byte) (c25Sym, bool) {
	s := c25Sym{Vty: "none", Sig1: "none"}
	es, ok := c25Parse(raw)
	if !ok {
		return s, false
	}
	s.Big = len(raw) > 10240 // IPNS spec: record size limit 10 KiB
	docs := u.docs[attr]
	if e, ok := c25Last(es, c25FData); ok && len(e.b) > 0 {
		s.Data = c25MUT
		for d, doc := range docs {
			if bytes.Equal(e.b, doc.cbor) {
				s.Data = d
			}
		}
	}
	if e, ok := c25Last(es, c25FSig2); ok && len(e.b) > 0 {
		s.Sig2 = c25JUNK
		if v, ok := u.sigs[attr][string(e.b)]; ok {
			s.Sig2 = v
		} else {
			for g, v := range u.sigs[attr] { // a genuine signature followed by more bytes
				if len(e.b) > len(g) && string(e.b[:len(g)]) == g {
					s.Sig2 = c25EXT + v
				}
			}
		}
	}
	if e, ok := c25Last(es, c25FPk); ok && len(e.b) > 0 {
		s.Pk = c25JUNK
		for k := 1; k <= 2; k++ {
			if bytes.Equal(e.b, u.keys[k].pkb) {
				s.Pk = k
			}
		}
	}
	if e, ok := c25Last(es, c25FVal); ok {
		s.Val = c25JUNK
		if len(e.b) == 0 {
			s.Val = c25EMPTY
		}
		for d, doc := range docs {
			if string(e.b) == doc.value {
				s.Val = d
			}
		}
	}
	if e, ok := c25Last(es, c25FVdy); ok {
		s.Vdy = c25JUNK
		for d, doc := range docs {
			if string(e.b) == doc.eol.UTC().Format(time.RFC3339Nano) {
				s.Vdy = d
			}
		}
	}
	if e, ok := c25Last(es, c25FSeq); ok {
		s.Seq = c25JUNK
		for d, doc := range docs {
			if e.v == doc.seq {
				s.Seq = d
			}
		}
	}
	if e, ok := c25Last(es, c25FTtl); ok {
		s.Ttl = c25JUNK
		for d, doc := range docs {
			if e.v == uint64(doc.ttl) {
				s.Ttl = d
			}
		}
	}
	if e, ok := c25Last(es, c25FVty); ok {
		s.Vty = "junk"
		if int32(e.v) == 0 { // protobuf enums are int32: the varint is truncated
			s.Vty = "eol"
		}
	}
	if e, ok := c25Last(es, c25FSig1); ok {
		s.Sig1 = "some"
		if len(e.b) == 0 {
			s.Sig1 = "empty"
		}
	}
	return s, true
}

// ---------------------------------------------------------------- verdict battery on the real code
type c25Verdict struct {
	Key, Name, Book bool
	Note            string // disagreement between ValidateWithName and Validator{nil}, accessor problems
}

func (u *c25Uni) battery(attr string, raw []byte, n int, sym c25Sym) c25Verdict {
	k := u.keys[n]
	var v c25Verdict
	rec, uerr := UnmarshalRecord(raw)
	if uerr == nil {
		v.Key = Validate(rec, k.pk) == nil
		v.Name = ValidateWithName(rec, k.name) == nil
	}
	v0 := Validator{}.Validate(string(k.name.RoutingKey()), raw) == nil
	if v0 != v.Name {
		v.Note = fmt.Sprintf("ValidateWithName=%v but Validator{nil}.Validate=%v", v.Name, v0)
	}
	v.Book = Validator{KeyBook: u.kb}.Validate(string(k.name.RoutingKey()), raw) == nil
	if (v.Key || v.Name || v.Book) && v.Note == "" {
		v.Note = u.accessors(attr, rec, n, sym, v.Name || v.Book)
	}
	return v
}

// accessors of an accepted record must report the document that key n signed (sym.Sig2 = 10n+d)
func (u *c25Uni) accessors(attr string, rec *Record, n int, sym c25Sym, byName bool) string {
	d := sym.Sig2%c25EXT - 10*n
	doc := u.docs[attr][d]
	if doc == nil {
		return fmt.Sprintf("accepted although the v2 signature is not one made by key %d (sig2=%d)", n, sym.Sig2)
	}
	if p, err := rec.Value(); err != nil || p.String() != doc.value {
		return fmt.Sprintf("accessor Value=%v,%v signed %q", p, err, doc.value)
	}
	if s, err := rec.Sequence(); err != nil || s != doc.seq {
		return fmt.Sprintf("accessor Sequence=%v,%v signed %d", s, err, doc.seq)
	}
	if e, err := rec.Validity(); err != nil || !e.Equal(doc.eol) || e.Nanosecond() != doc.eol.Nanosecond() {
		return fmt.Sprintf("accessor Validity=%v,%v signed %v", e, err, doc.eol)
	}
	if vt, err := rec.ValidityType(); err != nil || vt != ValidityEOL {
		return fmt.Sprintf("accessor ValidityType=%v,%v", vt, err)
	}
	if t, err := rec.TTL(); err != nil || t != doc.ttl {
		return fmt.Sprintf("accessor TTL=%v,%v signed %v", t, err, doc.ttl)
	}
	cnt := 0
	for key, mv := range rec.MetadataEntries() {
		cnt++
		want, ok := doc.md[key]
		if !ok {
			return "accessor MetadataEntries reports unsigned key " + key
		}
		switch w := want.(type) {
		case string:
			if g, err := mv.AsString(); err != nil || g != w {
				return "accessor metadata " + key
			}
		case int64:
			if g, err := mv.AsInt(); err != nil || g != w {
				return "accessor metadata " + key
			}
		}
	}
	if cnt != len(doc.md) {
		return "accessor MetadataEntries count"
	}
	if !byName { // Validate(rec, pk) does not look at the embedded key (documented: step 3 is ValidateWithName's)
		return ""
	}
	pk, err := rec.PubKey()
	if sym.Pk == c25NONE {
		if !errors.Is(err, ErrPublicKeyNotFound) {
			return fmt.Sprintf("accessor PubKey on record without key: %v", err)
		}
	} else if err != nil || !pk.Equals(u.keys[n].pk) {
		return fmt.Sprintf("accessor PubKey does not report the key of the name (%v)", err)
	}
	return ""
}

// ---------------------------------------------------------------- concrete realisations of symbolic steps
type c25Var struct {
	name string
	es   []c25Ent
	mem  []byte // for Pad in-memory variant: unknown bytes to attach after unmarshalling es
}

func c25Clone(es []c25Ent) []c25Ent { return append([]c25Ent(nil), es...) }

func c25DropAll(es []c25Ent, num int) []c25Ent {
	var r []c25Ent
	for _, e := range es {
		if e.num != num {
			r = append(r, e)
		}
	}
	return r
}

// c25Put replaces every occurrence of field num by one entry (kept at the position of the last
// occurrence, or inserted in field-number order).
func c25Put(es []c25Ent, ne c25Ent) []c25Ent {
	pos := -1
	for i, e := range es {
		if e.num == ne.num {
			pos = i
		}
	}
	if pos >= 0 {
		var r []c25Ent
		for i, e := range es {
			if i == pos {
				r = append(r, ne)
			} else if e.num != ne.num {
				r = append(r, e)
			}
		}
		return r
	}
	var r []c25Ent
	done := false
	for _, e := range es {
		if !done && e.num > ne.num {
			r = append(r, ne)
			done = true
		}
		r = append(r, e)
	}
	if !done {
		r = append(r, ne)
	}
	return r
}

func c25Bytes(num int, b []byte) c25Ent { return c25Ent{num: num, wt: 2, b: b} }

// c25PadTo returns an unknown field (number 15, wire type 2) that brings a message of cur bytes to
// exactly target bytes, if one exists.
func c25PadTo(cur, target int) (c25Ent, bool) {
	for _, lenBytes := range []int{1, 2} {
		l := target - cur - 1 - lenBytes
		if (lenBytes == 1 && l >= 0 && l <= 127) || (lenBytes == 2 && l >= 128 && l <= 16383) {
			return c25Bytes(15, bytes.Repeat([]byte{0xaa}, l)), true
		}
	}
	return c25Ent{}, false
}
func c25Int(num int, v uint64) c25Ent   { return c25Ent{num: num, wt: 0, v: v} }

var c25Masks = []byte{0x01, 0x02, 0x04, 0x08, 0x10, 0x20, 0x40, 0x80, 0xff}

// flips: every byte position (at most maxPos sampled positions), nm masks per position, plus
// truncation, extension and zeroing.
func c25Flips(ref []byte, seed int64, maxPos, nm int) (res [][]byte, names []string) {
	n := len(ref)
	pos := make([]int, 0, n)
	if n <= maxPos {
		for i := 0; i < n; i++ {
			pos = append(pos, i)
		}
	} else {
		seen := map[int]bool{0: true, n - 1: true}
		pos = append(pos, 0, n-1)
		x := uint64(seed)*2654435761 + 12345
		for len(pos) < maxPos {
			x = x*6364136223846793005 + 1442695040888963407
			p := int((x >> 33) % uint64(n))
			if !seen[p] {
				seen[p] = true
				pos = append(pos, p)
			}
		}
	}
	for _, p := range pos {
		for j := 0; j < nm; j++ {
			m := c25Masks[(p+int(seed)+j*4)%len(c25Masks)]
			c := append([]byte(nil), ref...)
			c[p] ^= m
			res = append(res, c)
			names = append(names, fmt.Sprintf("flip@%d^%02x", p, m))
		}
	}
	if n > 0 {
		res = append(res, append([]byte(nil), ref[:n-1]...), append(append([]byte(nil), ref...), 0), make([]byte, n))
		names = append(names, "truncate", "extend", "zero")
	}
	return
}

type c25Budget struct {
	maxPos int // positions per long field
	nm     int // masks per position
	seed   int64
}

// c25Realise returns the concrete variants of one symbolic step applied to es.
func (u *c25Uni) realise(attr string, create c25Step, st c25Step, es []c25Ent, bud c25Budget) []c25Var {
	docs := u.docs[attr]
	baseV1 := u.base[c25BaseKey(attr, 1, create.V, true, true)]
	bes, _ := c25Parse(baseV1)
	ref := func(num int) c25Ent { // current value of the field, else the value in the library-made v1 record
		if e, ok := c25Last(es, num); ok && (e.wt != 2 || len(e.b) > 0) {
			return e
		}
		e, _ := c25Last(bes, num)
		return e
	}
	num := c25FieldNum[st.F]
	var vs []c25Var
	add := func(name string, nes []c25Ent) { vs = append(vs, c25Var{name: name, es: nes}) }
	bytesVariants := func(tag string, r []byte) {
		fl, nm := c25Flips(r, bud.seed, bud.maxPos, bud.nm)
		for i, b := range fl {
			add(tag+":"+nm[i], c25Put(es, c25Bytes(num, b)))
		}
	}
	switch st.Op {
	case "TamperData":
		bytesVariants("data", ref(num).b)
		// same logical document, different (non-canonical) DAG-CBOR byte order of the map keys
		if doc := docs[create.V]; doc != nil {
			if node, err := createNode([]byte(doc.value), doc.seq, doc.eol, doc.ttl, doc.md); err == nil {
				var buf bytes.Buffer
				if (dagcbor.EncodeOptions{AllowLinks: true, MapSortMode: codec.MapSortMode_Lexical}).Encode(node, &buf) == nil {
					add("data:cbor-reordered", c25Put(es, c25Bytes(num, buf.Bytes())))
				}
			}
		}
	case "TamperSig":
		bytesVariants("sig2", ref(num).b)
		// a genuine signature by a key outside the model, over the same document
		if sd, err := recordDataForSignatureV2(docs[create.V].cbor); err == nil {
			if sg, err := u.keys[3].sk.Sign(sd); err == nil {
				add("sig2:foreign-key", c25Put(es, c25Bytes(num, sg)))
			}
		}
		// signature by the right key over the bare data without the "ipns-signature:" prefix
		if sg, err := u.keys[1].sk.Sign(docs[create.V].cbor); err == nil {
			add("sig2:no-prefix", c25Put(es, c25Bytes(num, sg)))
		}
		// the record's own signatureV1 in the place of signatureV2
		if s1 := u.sig1[attr][create.V]; s1 != nil {
			add("sig2:sigV1", c25Put(es, c25Bytes(num, s1)))
		}
	case "TamperKey":
		bytesVariants("pk", u.keys[1].pkb)
		add("pk:foreign-same-type", c25Put(es, c25Bytes(num, u.keys[3].pkb)))
		add("pk:foreign-other-type", c25Put(es, c25Bytes(num, u.other.pkb)))
		add("pk:junk", c25Put(es, c25Bytes(num, []byte{0x08, 0x01, 0x12, 0x01, 0x00})))
	case "TamperLegacy":
		switch st.F {
		case "val", "vdy":
			bytesVariants(st.F, ref(num).b)
		default:
			cur := ref(num).v
			for b := 0; b < 64; b++ {
				add(fmt.Sprintf("%s:bit%d", st.F, b), c25Put(es, c25Int(num, cur^(1<<uint(b)))))
			}
			add(st.F+":+1", c25Put(es, c25Int(num, cur+1)))
			add(st.F+":-1", c25Put(es, c25Int(num, cur-1)))
			add(st.F+":0", c25Put(es, c25Int(num, 0)))
			add(st.F+":max", c25Put(es, c25Int(num, ^uint64(0))))
		}
	case "DropData", "DropSig", "DropKey", "DropLegacy":
		add("drop", c25DropAll(es, num))
		if c25FieldWt[num] == 2 && st.F != "val" { // present with zero length = absent for data/sig2/pk; vdy: still "junk"
			if st.Op != "DropLegacy" {
				add("zero-length", c25Put(es, c25Bytes(num, nil)))
			}
		}
	case "SwapData":
		add("swap", c25Put(es, c25Bytes(num, docs[st.V].cbor)))
	case "SwapSig":
		add("swap", c25Put(es, c25Bytes(num, u.sigOf[attr][st.V])))
	case "ExtendSig":
		g := u.sigOf[attr][st.V-c25EXT]
		for _, tail := range [][]byte{{0}, {0xff}, {0x30, 0x00}, bytes.Repeat([]byte{7}, 40)} {
			add(fmt.Sprintf("genuine+%x", tail), c25Put(es, c25Bytes(num, append(append([]byte(nil), g...), tail...))))
		}
	case "SwapKey":
		add("swap", c25Put(es, c25Bytes(num, u.keys[st.V].pkb)))
	case "SwapLegacy":
		doc := docs[st.V]
		switch st.F {
		case "val":
			add("swap", c25Put(es, c25Bytes(num, []byte(doc.value))))
		case "vdy":
			add("swap", c25Put(es, c25Bytes(num, []byte(doc.eol.UTC().Format(time.RFC3339Nano)))))
		case "seq":
			add("swap", c25Put(es, c25Int(num, doc.seq)))
			add("swap-nonminimal", c25Put(es, c25Ent{num: num, wt: 0, v: doc.seq,
				raw: c25AppendVarintPad(c25AppendVarint(nil, uint64(num)<<3), doc.seq, 2)}))
		case "ttl":
			add("swap", c25Put(es, c25Int(num, uint64(doc.ttl))))
		}
	case "EmptyValue":
		add("empty", c25Put(es, c25Bytes(c25FVal, nil)))
	case "SetVty":
		switch st.S {
		case "none":
			add("drop", c25DropAll(es, c25FVty))
		case "eol":
			add("0", c25Put(es, c25Int(c25FVty, 0)))
			add("2^32 (int32 truncation)", c25Put(es, c25Int(c25FVty, 1<<32)))
		case "junk":
			for _, v := range []uint64{1, 2, 0x7fffffff, 0x80000000, 0xffffffff, 1<<32 + 1, ^uint64(0)} {
				add(fmt.Sprintf("%d", v), c25Put(es, c25Int(c25FVty, v)))
			}
		}
	case "SetSig1":
		switch st.S {
		case "none":
			add("drop", c25DropAll(es, c25FSig1))
		case "empty":
			add("empty", c25Put(es, c25Bytes(c25FSig1, nil)))
		case "some":
			s1 := u.sig1[attr][create.V]
			add("genuine", c25Put(es, c25Bytes(c25FSig1, s1)))
			add("one-byte", c25Put(es, c25Bytes(c25FSig1, []byte{0})))
			fl, nm := c25Flips(s1, bud.seed, 12, 1)
			for i, b := range fl {
				if len(b) > 0 {
					add("sig1:"+nm[i], c25Put(es, c25Bytes(c25FSig1, b)))
				}
			}
		}
	case "Pad":
		cur := len(c25Enc(es))
		for _, extra := range []int{1, 1000} {
			pad, ok := c25PadTo(cur, 10240+extra)
			if !ok {
				continue
			}
			add(fmt.Sprintf("unknown-field-to-%d", 10240+extra), append(c25Clone(es), pad))
			if extra == 1 {
				vs = append(vs, c25Var{name: "in-memory-unknown-to-10241", es: es, mem: pad.enc(nil)})
			}
		}
		if e, ok := c25Last(es, c25FSig1); ok && len(e.b) > 0 {
			big := append(append([]byte(nil), e.b...), bytes.Repeat([]byte{0x55}, 10240-cur+1)...)
			add("oversized-sigV1", c25Put(es, c25Bytes(c25FSig1, big)))
		}
	case "ReEncode":
		switch st.S {
		case "unknown":
			unk := []c25Ent{{num: 10, wt: 0, v: 7}, {num: 11, wt: 1, v: 0x1122334455667788}, {num: 15, wt: 2, b: []byte("unknown")},
				{num: 100, wt: 5, v: 0xdeadbeef}, {num: 1<<29 - 1, wt: 2, b: []byte{1, 2, 3}},
				{num: 12, wt: 3, raw: []byte{12<<3 | 3, 0x08, 0x01, 12<<3 | 4}}}
			add("append-unknown", append(c25Clone(es), unk...))
			add("prepend-unknown", append(c25Clone(unk), es...))
			// known field numbers with a foreign wire type are unknown fields, they must not clobber
			wrong := []c25Ent{{num: c25FSeq, wt: 2, b: []byte("x")}, {num: c25FTtl, wt: 5, v: 9}, {num: c25FVty, wt: 1, v: 3},
				{num: c25FData, wt: 0, v: 1}, {num: c25FSig2, wt: 5, v: 1}, {num: c25FPk, wt: 0, v: 1}, {num: c25FVal, wt: 0, v: 0}}
			add("append-wrong-wiretype", append(c25Clone(es), wrong...))
		case "dupJunkFirst":
			for _, e := range es {
				if _, known := c25FieldWt[e.num]; !known || e.wt != c25FieldWt[e.num] {
					continue
				}
				junk := c25Fresh(e)
				if e.wt == 2 {
					junk.b = append([]byte("dup"), e.b...)
				} else {
					junk.v = e.v + 3
				}
				var nes []c25Ent
				nes = append(nes, junk) // junk occurrence first, genuine one later (last wins)
				nes = append(nes, es...)
				add(fmt.Sprintf("dup-field-%d", e.num), nes)
			}
		case "reorder":
			rev := make([]c25Ent, 0, len(es))
			for i := len(es) - 1; i >= 0; i-- {
				rev = append(rev, es[i])
			}
			// descending field numbers, occurrences of one field keep their relative order (last still wins)
			desc := c25Clone(es)
			sort.SliceStable(desc, func(a, b int) bool { return desc[a].num > desc[b].num })
			add("descending-stable", desc)
			// reversing is only a re-encoding if no field is duplicated
			seen := map[int]bool{}
			dup := false
			for _, e := range es {
				dup = dup || seen[e.num]
				seen[e.num] = true
			}
			if !dup {
				add("reverse", rev)
			}
			if len(es) > 1 {
				rot := append(c25Clone(es[1:]), es[0])
				if !dup {
					add("rotate", rot)
				}
			}
		case "nonminimal":
			nes := make([]c25Ent, 0, len(es))
			for _, e := range es {
				ne := e
				tag := c25AppendVarintPad(nil, uint64(e.num)<<3|uint64(e.wt), 1)
				switch e.wt {
				case 0:
					ne.raw = c25AppendVarintPad(tag, e.v, 2)
				case 2:
					ne.raw = append(c25AppendVarintPad(tag, uint64(len(e.b)), 1), e.b...)
				}
				nes = append(nes, ne)
			}
			add("padded-varints", nes)
		case "padToLimit":
			cur := len(c25Enc(es))
			if pad, ok := c25PadTo(cur, 10240); ok {
				add("unknown-field-to-10240", append(c25Clone(es), pad))
				vs = append(vs, c25Var{name: "in-memory-unknown-to-10240", es: es, mem: pad.enc(nil)})
			} else {
				add("already-at-or-over-the-limit", es)
			}
		}
	}
	return vs
}

// ---------------------------------------------------------------- replay
type c25Fail struct {
	what string
	devs map[string]string // named deviation -> first witness (a verdict explained exactly by these deviations)
	harn bool
}

func (f *c25Fail) merge(g *c25Fail) *c25Fail {
	if g == nil {
		return f
	}
	if f == nil {
		return g
	}
	if f.devs == nil || g.devs == nil { // a real disagreement dominates
		if f.devs == nil {
			return f
		}
		return g
	}
	for d, w := range g.devs {
		if _, ok := f.devs[d]; !ok {
			f.devs[d] = w
		}
	}
	return f
}

func (u *c25Uni) checkVariant(b *c25Beh, v c25Var) (matched bool, fail *c25Fail) {
	raw := c25Enc(v.es)
	full := raw
	if v.mem != nil {
		full = append(append([]byte(nil), raw...), v.mem...)
	}
	sym, ok := u.project(b.Attr, full)
	if !ok || sym != b.R {
		return false, nil
	}
	var devs map[string]string
	for n := 1; n <= 2; n++ {
		var got [3]bool
		var note string
		if v.mem != nil {
			// in-memory path: the size check of Validate itself (UnmarshalRecord never sees the padding)
			rec, err := UnmarshalRecord(raw)
			if err != nil {
				return false, nil // this realisation needs a record that unmarshals without the padding
			}
			rec.pb.ProtoReflect().SetUnknown(v.mem)
			if proto.Size(rec.pb) != len(full) {
				return false, nil // non-canonical encoding underneath: in-memory size is not the wire size
			}
			got[0] = Validate(rec, u.keys[n].pk) == nil
			got[1] = ValidateWithName(rec, u.keys[n].name) == nil
			pk, err := Validator{KeyBook: u.kb}.getPublicKey(rec, u.keys[n].name)
			got[2] = err == nil && Validate(rec, pk) == nil
			if got[0] || got[1] || got[2] {
				note = u.accessors(b.Attr, rec, n, sym, got[1] || got[2])
			}
		} else {
			vd := u.battery(b.Attr, raw, n, sym)
			got = [3]bool{vd.Key, vd.Name, vd.Book}
			note = vd.Note
		}
		exp := b.Exp[n-1][u.class] // [deviation set] -> verdicts
		desc := func() string {
			return fmt.Sprintf("kt=%s variant=%s name=%d got[key,name,book]=%v spec=%v record=%s", u.kt, v.name, n, got, exp[0], hex.EncodeToString(full))
		}
		if note != "" {
			return true, &c25Fail{what: note + " | " + desc()}
		}
		j := -1
		for k := range exp { // smallest deviation set that explains the verdict (order: {}, {a}, {b}, {a,b})
			if got == exp[k] {
				j = k
				break
			}
		}
		if j < 0 {
			return true, &c25Fail{what: "verdict differs from the specification: " + desc()}
		}
		for _, d := range c25DevSets[j] {
			if devs == nil {
				devs = map[string]string{}
			}
			if _, ok := devs[d]; !ok {
				devs[d] = "accepted only under " + d + ": " + desc()
			}
		}
	}
	if devs != nil {
		return true, &c25Fail{devs: devs}
	}
	return true, nil
}

func (u *c25Uni) replayOne(b *c25Beh, bud c25Budget, lastAll bool) (evals int, fail *c25Fail) {
	create := b.Steps[0]
	base := u.base[c25BaseKey(b.Attr, 1, create.V, create.V1, create.Emb)]
	es0, ok := c25Parse(base)
	if !ok {
		return 0, &c25Fail{what: "harness: base record does not parse", harn: true}
	}
	for i := range es0 {
		es0[i] = c25Fresh(es0[i])
	}
	if !bytes.Equal(c25Enc(es0), base) {
		return 0, &c25Fail{what: "harness: wire codec does not round-trip the library's encoding", harn: true}
	}
	// the size flag is independent of every other field of the symbolic record, so padding steps
	// commute with the others: apply them last (pad-to-limit before pad-over-limit)
	var steps []c25Step
	for pass := 0; pass < 3; pass++ {
		for _, st := range b.Steps[1:] {
			p := 0
			if st.Op == "ReEncode" && st.S == "padToLimit" {
				p = 1
			} else if st.Op == "Pad" {
				p = 2
			}
			if p == pass {
				steps = append(steps, st)
			}
		}
	}
	if len(steps) == 0 {
		m, f := u.checkVariant(b, c25Var{name: "library-made", es: es0})
		if !m {
			return 0, &c25Fail{what: "harness: projection of the library-made record differs from the model", harn: true}
		}
		return 1, f
	}
	var devFail *c25Fail
	for attempt := 0; attempt < 6; attempt++ {
		es := es0
		okPrefix := true
		for si := 0; si < len(steps)-1; si++ {
			vs := u.realise(b.Attr, create, steps[si], es, bud)
			var cand []c25Var
			for _, v := range vs {
				if v.mem == nil {
					cand = append(cand, v)
				}
			}
			if len(cand) == 0 {
				okPrefix = false
				break
			}
			es = cand[int(uint64(bud.seed+int64(attempt)*7919+int64(si)*104729)%uint64(len(cand)))].es
		}
		if !okPrefix {
			continue
		}
		vs := u.realise(b.Attr, create, steps[len(steps)-1], es, bud)
		if !lastAll && len(vs) > 6 {
			// sample: keep the first, the last three (truncate/extend/zero or special ones) and two pseudo-random ones
			keep := []c25Var{vs[0], vs[len(vs)-1], vs[len(vs)-2], vs[len(vs)-3]}
			x := uint64(bud.seed)*2654435761 + uint64(attempt)
			for j := 0; j < 2; j++ {
				x = x*6364136223846793005 + 1442695040888963407
				keep = append(keep, vs[int((x>>33)%uint64(len(vs)))])
			}
			vs = keep
		}
		matched := 0
		for _, v := range vs {
			m, f := u.checkVariant(b, v)
			if !m {
				continue
			}
			matched++
			evals++
			if f != nil {
				if f.devs != nil {
					devFail = devFail.merge(f)
					continue
				}
				return evals, f
			}
		}
		if matched > 0 {
			return evals, devFail
		}
	}
	return evals, &c25Fail{what: "harness: no concrete realisation of the behaviour projects onto the model record", harn: true}
}

var (
	c25UniMu sync.Mutex
	c25Unis  = map[string]*c25Uni{}
	c25Now   = time.Now()
)

func c25GetUni(kt string) *c25Uni {
	c25UniMu.Lock()
	defer c25UniMu.Unlock()
	if u, ok := c25Unis[kt]; ok {
		return u
	}
	u := c25NewUni(kt, c25Now)
	c25Unis[kt] = u
	return u
}

func TestVerifC25(t *testing.T) {
	defer vFlush()
	switch vMode() {
	case "replay":
		c25Replay(t)
	case "record":
		c25Record(t)
	default:
		t.Skip("no VERIF_MODE")
	}
}

func c25Replay(t *testing.T) {
	in := vIn()
	allKt := vEnvInt("C25_ALLKT", 0) == 1   // every behaviour on all four key types
	lastAll := vEnvInt("C25_LASTALL", 0) == 1 // every concrete realisation of the last step
	bud := c25Budget{maxPos: vEnvInt("C25_MAXPOS", 64), nm: vEnvInt("C25_NMASK", 1), seed: vSeed()}
	for _, kt := range c25KeyTypes {
		c25GetUni(kt)
	}
	type job struct {
		i   int
		raw json.RawMessage
	}
	jobs := make(chan job, 64)
	var wg sync.WaitGroup
	var mu sync.Mutex
	n, bad, evals := 0, 0, 0
	for w := 0; w < vEnvInt("C25_WORKERS", 8); w++ {
		wg.Add(1)
		go func() {
			defer wg.Done()
			for j := range jobs {
				var b c25Beh
				if err := json.Unmarshal(j.raw, &b); err != nil {
					panic(fmt.Sprintf("behaviour %d: %v", j.i, err))
				}
				kts := c25KeyTypes
				if !allKt {
					kts = []string{c25KeyTypes[(j.i+int(bud.seed))%4]}
				}
				res := M{"i": j.i, "ok": true}
				ev := 0
				var devFail *c25Fail
				for _, kt := range kts {
					e, f := c25GetUni(kt).replayOne(&b, bud, lastAll)
					ev += e
					if f == nil {
						continue
					}
					if f.devs != nil {
						devFail = devFail.merge(f)
						continue
					}
					res = M{"i": j.i, "ok": false, "step": len(b.Steps), "what": f.what}
					if f.harn {
						res["harness"] = true
					}
					devFail = nil
					break
				}
				if devFail != nil {
					res = M{"i": j.i, "ok": false, "step": len(b.Steps), "devs": devFail.devs}
				}
				mu.Lock()
				n++
				evals += ev
				if res["ok"] == false {
					bad++
				}
				mu.Unlock()
				vEmit(res)
			}
		}()
	}
	for i, raw := range in {
		jobs <- job{i, raw}
	}
	close(jobs)
	wg.Wait()
	vEmit(M{"summary": true, "n": n, "bad": bad, "evals": evals})
}

// ---------------------------------------------------------------- record (phase T): wire-level mutations
func c25Record(t *testing.T) {
	seed := vSeed()
	maxPos := vEnvInt("C25_MAXPOS", 64)
	nm := vEnvInt("C25_NMASK", 1)
	counts := map[string]int{}
	var order []string
	first := map[string]string{}
	for _, kt := range c25KeyTypes {
		u := c25GetUni(kt)
		attrs := []string{"ok"}
		if !vQuick() {
			attrs = c25Attrs
		}
		for _, attr := range attrs {
			for d := 1; d <= 2; d++ {
				for _, v1 := range []bool{true, false} {
					for _, emb := range []bool{true, false} {
						base := u.base[c25BaseKey(attr, 1, d, v1, emb)]
						var muts [][]byte
						var names []string
						// every byte of the serialized record (long payloads sampled, but every tag/length byte kept)
						es, _ := c25Parse(base)
						off := 0
						var pos []int
						for _, e := range es {
							hdr := len(e.raw) - len(e.b)
							if e.wt != 2 {
								hdr = len(e.raw)
							}
							for i := 0; i < hdr; i++ {
								pos = append(pos, off+i)
							}
							if e.wt == 2 {
								if len(e.b) <= maxPos {
									for i := range e.b {
										pos = append(pos, off+hdr+i)
									}
								} else {
									x := uint64(seed)*2654435761 + uint64(off)
									for j := 0; j < maxPos; j++ {
										x = x*6364136223846793005 + 1442695040888963407
										pos = append(pos, off+hdr+int((x>>33)%uint64(len(e.b))))
									}
								}
							}
							off += len(e.raw)
						}
						for _, p := range pos {
							for j := 0; j < nm; j++ {
								m := c25Masks[(p+int(seed)+j*4)%len(c25Masks)]
								c := append([]byte(nil), base...)
								c[p] ^= m
								muts = append(muts, c)
								names = append(names, fmt.Sprintf("flip@%d^%02x", p, m))
							}
						}
						// truncations at every field boundary and one byte short, extensions
						off = 0
						for _, e := range es {
							off += len(e.raw)
							muts = append(muts, append([]byte(nil), base[:off]...), append([]byte(nil), base[:off-1]...))
							names = append(names, fmt.Sprintf("truncate@%d", off), fmt.Sprintf("truncate@%d", off-1))
						}
						muts = append(muts, append(append([]byte(nil), base...), 0), append(append([]byte(nil), base...), 0x78, 0x00),
							append(append([]byte(nil), base...), base...))
						names = append(names, "extend-00", "extend-unknown", "concatenated-twice")
						// structural re-encodings: duplicates (junk last), swapped neighbours, wrong wire type for a known field
						for i, e := range es {
							if e.wt == 2 {
								j := c25Fresh(e)
								j.b = append([]byte("x"), e.b...)
								muts = append(muts, c25Enc(append(c25Clone(es), j)))
								names = append(names, fmt.Sprintf("dup-junk-last-%d", e.num))
							} else {
								j := c25Fresh(e)
								j.v = e.v + 1
								muts = append(muts, c25Enc(append(c25Clone(es), j)))
								names = append(names, fmt.Sprintf("dup-junk-last-%d", e.num))
							}
							if i+1 < len(es) {
								sw := c25Clone(es)
								sw[i], sw[i+1] = sw[i+1], sw[i]
								muts = append(muts, c25Enc(sw))
								names = append(names, fmt.Sprintf("swap-%d-%d", i, i+1))
							}
							w := c25Fresh(e)
							if e.wt == 2 {
								w.wt, w.v = 0, 1
							} else {
								w.wt, w.b = 2, []byte{byte(e.v)}
							}
							rep := c25Clone(es)
							rep[i] = w
							muts = append(muts, c25Enc(rep))
							names = append(names, fmt.Sprintf("wrong-wiretype-%d", e.num))
						}
						muts = append(muts, base)
						names = append(names, "library-made")
						for mi, raw := range muts {
							sym, ok := u.project(attr, raw)
							acc := [][]bool{}
							accok := true
							note := ""
							for n := 1; n <= 2; n++ {
								vd := u.battery(attr, raw, n, sym)
								acc = append(acc, []bool{vd.Key, vd.Name, vd.Book})
								if vd.Note != "" {
									accok = false
									note = vd.Note
								}
							}
							ev := M{"ev": "Check", "inl": u.inl, "lax": u.lax, "attr": attr, "mal": !ok, "r": sym, "acc": acc, "accok": accok}
							kb, _ := json.Marshal(ev)
							key := string(kb)
							if _, seen := counts[key]; !seen {
								order = append(order, key)
								first[key] = fmt.Sprintf("kt=%s base=%s mutation=%s note=%s record=%s", kt, c25BaseKey(attr, 1, d, v1, emb),
									names[mi], note, hex.EncodeToString(raw))
							}
							counts[key]++
						}
					}
				}
			}
		}
	}
	sort.Strings(order)
	for _, key := range order {
		var ev M
		json.Unmarshal([]byte(key), &ev)
		ev["n"] = counts[key]
		ev["first"] = first[key]
		vEmit(ev)
	}
}
