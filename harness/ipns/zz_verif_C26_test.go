//go:build verif

package ipns

// C26 harness (replay only): every case of the class product printed by GenIPNSRoundTrip is mapped to
// concrete inputs, run through NewRecord -> MarshalRecord -> UnmarshalRecord -> Validate /
// ValidateWithName / Validator.Validate -> accessors, and compared with the observables computed by the
// specification (Expected).
//
// Projection (trusted): class -> concrete value
//   seq   "0","1","2^32","2^63-1","2^63","2^64-1"  -> the uint64 of that name
//   eol   soon = now+90s (odd nanoseconds) | hourNanos = now+1h, nanosecond 123456789 |
//         zoned = now+2h, nanosecond 987654321 in zone +05:30 | y9999 = 9999-12-31T23:59:59.999999999Z
//   ttl   0 | 1ns | 1h | max = 2^63-1 ns
//   val   ipfsV1 = /ipfs/<cidv1> | ipfsV0sub = /ipfs/<cidv0>/a/b c.txt | ipns = /ipns/<libp2p-key cid>/x
//   md    see c26Md
//   sz    small = no padding (natural size, must be < MaxRecordSize-1) | otherwise the encoding is padded until
//         len(MarshalRecord(rec)) is EXACTLY the target length the specification gives (MaxRecordSize-1, MaxRecordSize,
//         MaxRecordSize+1, MaxRecordSize+1024); c26Build searches the padding (signature lengths of ECDSA/secp256k1
//         vary from call to call, CBOR/protobuf length prefixes grow in steps)
//   pad   mdString / mdBytes = one metadata entry "_pad" of that kind | value = a long last path segment of 'p's plus
//         a "_pad" string of 0..20 bytes for the last few bytes (the value is stored twice in v1-compatible records)

import (
	"bytes"
	"crypto/rand"
	"encoding/json"
	"errors"
	"fmt"
	"math"
	"sort"
	"strings"
	"sync"
	"testing"
	"time"

	"github.com/ipfs/boxo/path"
	"github.com/ipfs/boxo/util"
	ic "github.com/libp2p/go-libp2p/core/crypto"
	"github.com/libp2p/go-libp2p/core/peer"
)

type c26Case struct {
	Kt  string    `json:"kt"`
	Sc  [3]string `json:"sc"`
	Md  string    `json:"md"`
	V1  bool      `json:"v1"`
	Emb string    `json:"emb"`
	Val string    `json:"val"`
	Sz  string    `json:"sz"`
	Pad string    `json:"pad"`
}
type c26Exp struct {
	Create       string      `json:"create"`
	Target       int         `json:"target"`
	Within       bool        `json:"within"`
	Unmarshal    string      `json:"unmarshal"`
	Errors       []string    `json:"errors"`
	HasPk        bool        `json:"hasPk"`
	Legacy       bool        `json:"legacy"`
	VKey         bool        `json:"vKey"`
	VName        bool        `json:"vName"`
	VBook        bool        `json:"vBook"`
	Seq          string      `json:"seq"`
	Eol          string      `json:"eol"`
	Ttl          string      `json:"ttl"`
	Val          string      `json:"val"`
	CborSeqMajor int         `json:"cborSeqMajor"`
	Md           [][2]string `json:"md"`
}
type c26Beh struct {
	C   c26Case `json:"c"`
	Exp c26Exp  `json:"exp"`
}

var c26Seq = map[string]uint64{"0": 0, "1": 1, "2^32": 1 << 32, "2^63-1": 1<<63 - 1, "2^63": 1 << 63, "2^64-1": math.MaxUint64}
var c26Ttl = map[string]time.Duration{"0": 0, "1ns": 1, "1h": time.Hour, "max": math.MaxInt64}
var c26Val = map[string]string{
	"ipfsV1":    "/ipfs/bafybeigdyrzt5sfp7udm7hu76uh7y26nf3efuylqabf3oclgtqy55fbzdi",
	"ipfsV0sub": "/ipfs/QmbWqxBEKC3P8tqsKc98xmWNzrzDtRLMiMPL8wBuTGsMnR/a/b c.txt",
	"ipns":      "/ipns/k51qzi5uqu5dgutdk6i1ynyzgkqngpha5xpgia3a5qqp4jsh0u4csozksxel2r/x",
}

func c26Eol(class string, now time.Time) time.Time {
	switch class {
	case "soon":
		t := now.Add(90 * time.Second)
		return time.Unix(t.Unix(), 1)
	case "hourNanos":
		t := now.Add(time.Hour)
		return time.Unix(t.Unix(), 123456789)
	case "zoned":
		t := now.Add(2 * time.Hour)
		return time.Unix(t.Unix(), 987654321).In(time.FixedZone("x", 5*3600+1800))
	case "y9999":
		return time.Date(9999, 12, 31, 23, 59, 59, 999999999, time.UTC)
	}
	panic(class)
}

type c26Struct struct{ A int }

// metadata values by key (the expected kind comes from the specification)
var c26MdVal = map[string]any{
	"_s": "héllo wörld", "_b": []byte{0, 1, 2, 0xff}, "_i": int64(1) << 40, "_n": int(42), "_min": int64(math.MinInt64),
	"_t": true, "_f": false, "a": "", "Sequenc": int64(-1), "ZZZZZZZZZZZZZ": []byte{},
}

func c26Md(class string) map[string]any {
	pick := func(keys ...string) map[string]any {
		m := map[string]any{}
		for _, k := range keys {
			m[k] = c26MdVal[k]
		}
		return m
	}
	switch class {
	case "none":
		return nil
	case "string":
		return pick("_s")
	case "bytes":
		return pick("_b")
	case "int64":
		return pick("_i")
	case "int":
		return pick("_n")
	case "negint":
		return pick("_min")
	case "bool":
		return pick("_t", "_f")
	case "all":
		return pick("_s", "_b", "_i", "_n", "_t", "a", "Sequenc", "ZZZZZZZZZZZZZ")
	case "resValue":
		return map[string]any{"Value": "x"}
	case "resValidity":
		return map[string]any{"Validity": []byte("x")}
	case "resValidityType":
		return map[string]any{"ValidityType": int64(0)}
	case "resSequence":
		return map[string]any{"Sequence": int64(1)}
	case "resTTL":
		return map[string]any{"TTL": int64(1)}
	case "emptyKey":
		return map[string]any{"": "x"}
	case "float":
		return map[string]any{"_x": 1.5}
	case "uint64":
		return map[string]any{"_x": uint64(1)}
	case "struct":
		return map[string]any{"_x": c26Struct{1}}
	case "nil":
		return map[string]any{"_x": nil}
	case "goodAndBad":
		return map[string]any{"_s": "ok", "TTL": int64(5)}
	case "twoBad":
		return map[string]any{"": int64(1), "_x": float32(2)}
	}
	panic(class)
}

var c26Errs = map[string]error{"ErrMetadataConflict": ErrMetadataConflict, "ErrMetadataEmptyKey": ErrMetadataEmptyKey,
	"ErrMetadataUnsupportedType": ErrMetadataUnsupportedType, "ErrInvalidRecord": ErrInvalidRecord}

type c26Key struct {
	sk   ic.PrivKey
	pk   ic.PubKey
	name Name
	kb   *c26KeyBook
}
type c26KeyBook struct{ m map[peer.ID]ic.PubKey }

func (k *c26KeyBook) PubKey(p peer.ID) ic.PubKey              { return k.m[p] }
func (k *c26KeyBook) AddPubKey(p peer.ID, pk ic.PubKey) error { k.m[p] = pk; return nil }
func (k *c26KeyBook) PrivKey(peer.ID) ic.PrivKey              { return nil }
func (k *c26KeyBook) AddPrivKey(peer.ID, ic.PrivKey) error    { return nil }
func (k *c26KeyBook) PeersWithKeys() peer.IDSlice             { return nil }
func (k *c26KeyBook) RemovePeer(peer.ID)                      {}

func c26GenKey(kt string) *c26Key {
	typ := map[string]int{"ed25519": ic.Ed25519, "secp256k1": ic.Secp256k1, "ecdsa": ic.ECDSA, "rsa": ic.RSA}[kt]
	sk, pk, err := ic.GenerateKeyPairWithReader(typ, 2048, rand.Reader)
	if err != nil {
		panic(err)
	}
	pid, err := peer.IDFromPublicKey(pk)
	if err != nil {
		panic(err)
	}
	kb := &c26KeyBook{m: map[peer.ID]ic.PubKey{pid: pk}}
	return &c26Key{sk: sk, pk: pk, name: NameFromPeer(pid), kb: kb}
}

// c26In are the concrete inputs of one case (after padding): value path and metadata map given to NewRecord.
type c26In struct {
	val string
	md  map[string]any
}

// c26Build creates the record of case c with `bulk` bytes of padding at the place c.Pad names and a "_pad" string of
// `fine` bytes when the bulk sits in the value.  The filler letter varies with `salt`: secp256k1 signatures are
// deterministic (RFC 6979) and 70..72 bytes long, so a search that only moves between two lengths would cycle.
func c26Build(c *c26Case, k *c26Key, eol time.Time, bulk, fine, salt int) (*Record, *c26In, error) {
	fill := string(rune('a' + salt%26))
	in := &c26In{val: c26Val[c.Val], md: c26Md(c.Md)}
	if c.Pad != "none" && in.md == nil {
		in.md = map[string]any{}
	}
	switch c.Pad {
	case "mdString":
		in.md["_pad"] = strings.Repeat(fill, bulk)
	case "mdBytes":
		in.md["_pad"] = bytes.Repeat([]byte{0xb5 + byte(salt)}, bulk)
	case "value":
		in.val += "/" + strings.Repeat(fill, bulk)
		in.md["_pad"] = strings.Repeat("f", fine)
	}
	p, err := path.NewPath(in.val)
	if err != nil {
		return nil, nil, fmt.Errorf("harness: bad path: %w", err)
	}
	if p.String() != in.val {
		return nil, nil, fmt.Errorf("harness: path not in normal form")
	}
	opts := []Option{WithV1Compatibility(c.V1)}
	switch c.Emb {
	case "yes":
		opts = append(opts, WithPublicKey(true))
	case "no":
		opts = append(opts, WithPublicKey(false))
	}
	if in.md != nil {
		opts = append(opts, WithMetadata(in.md))
	}
	rec, err := NewRecord(k.sk, p, c26Seq[c.Sc[0]], eol, c26Ttl[c.Sc[2]], opts...)
	return rec, in, err
}

// c26BuildSized searches the padding that makes the encoding exactly target bytes long.
func c26BuildSized(c *c26Case, k *c26Key, eol time.Time, target int) (*Record, *c26In, string) {
	slope := 1
	if c.Pad == "value" && c.V1 {
		slope = 2 // the value is also stored in the legacy Value field
	}
	bulk, fine := target/2, 10
	for try := 0; try < 200; try++ {
		if bulk < 1 {
			return nil, nil, "harness: padding search left the domain"
		}
		rec, in, err := c26Build(c, k, eol, bulk, fine, try)
		if err != nil {
			return nil, nil, "NewRecord (padded): " + err.Error()
		}
		wire, err := MarshalRecord(rec)
		if err != nil {
			return nil, nil, "MarshalRecord (padded): " + err.Error()
		}
		d := target - len(wire)
		switch {
		case d == 0:
			return rec, in, ""
		case c.Pad != "value":
			bulk += d
		case fine+d >= 0 && fine+d <= 20:
			fine += d
		default:
			bulk += (d + fine - 10) / slope
			fine = 10
		}
	}
	return nil, nil, fmt.Sprintf("harness: no padding found for an encoding of exactly %d bytes", target)
}

// c26Accessors compares every accessor of rec with the expected observables; "" if all agree.
func c26Accessors(rec *Record, k *c26Key, exp *c26Exp, eol time.Time, in *c26In) string {
	if s, err := rec.Sequence(); err != nil || s != c26Seq[exp.Seq] {
		return fmt.Sprintf("Sequence()=%d,%v want %d", s, err, c26Seq[exp.Seq])
	}
	if t, err := rec.TTL(); err != nil || t != c26Ttl[exp.Ttl] {
		return fmt.Sprintf("TTL()=%d,%v want %d", t, err, c26Ttl[exp.Ttl])
	}
	if v, err := rec.Validity(); err != nil || !v.Equal(eol) || v.Nanosecond() != eol.Nanosecond() || v.Unix() != eol.Unix() {
		return fmt.Sprintf("Validity()=%v,%v want %v", v, err, eol)
	}
	if vt, err := rec.ValidityType(); err != nil || vt != ValidityEOL {
		return fmt.Sprintf("ValidityType()=%v,%v", vt, err)
	}
	if p, err := rec.Value(); err != nil || p.String() != in.val {
		return fmt.Sprintf("Value()=%.80v,%v want %.80s", p, err, in.val)
	}
	pk, err := rec.PubKey()
	if exp.HasPk {
		if err != nil || !pk.Equals(k.pk) {
			return fmt.Sprintf("PubKey() should return the signer's key: %v", err)
		}
	} else if !errors.Is(err, ErrPublicKeyNotFound) {
		return fmt.Sprintf("PubKey() on a record without embedded key: %v,%v", pk, err)
	}
	want := map[string]string{}
	for _, e := range exp.Md {
		want[e[0]] = e[1]
	}
	seen := map[string]bool{}
	for key, mv := range rec.MetadataEntries() {
		kind, ok := want[key]
		if !ok {
			return "MetadataEntries yields unexpected key " + key
		}
		if seen[key] {
			return "MetadataEntries yields key twice: " + key
		}
		seen[key] = true
		if mv.Kind().String() != kind {
			return fmt.Sprintf("metadata %q kind %s want %s", key, mv.Kind(), kind)
		}
	}
	if len(seen) != len(want) {
		return fmt.Sprintf("MetadataEntries yields %d entries, want %d", len(seen), len(want))
	}
	for key, kind := range want {
		if !rec.MetadataExists(key) {
			return "MetadataExists false for " + key
		}
		mv, err := rec.Metadata(key)
		if err != nil {
			return fmt.Sprintf("Metadata(%q): %v", key, err)
		}
		inv := in.md[key]
		okv := false
		switch kind {
		case "string":
			g, err := mv.AsString()
			okv = err == nil && g == inv.(string)
		case "bytes":
			g, err := mv.AsBytes()
			okv = err == nil && bytes.Equal(g, inv.([]byte))
		case "int":
			g, err := mv.AsInt()
			var w int64
			switch x := inv.(type) {
			case int64:
				w = x
			case int:
				w = int64(x)
			}
			okv = err == nil && g == w
		case "bool":
			g, err := mv.AsBool()
			okv = err == nil && g == inv.(bool)
		}
		if !okv {
			return fmt.Sprintf("metadata %q does not return the input value", key)
		}
	}
	for _, key := range []string{"Value", "TTL", "_absent"} {
		if rec.MetadataExists(key) {
			return "MetadataExists true for " + key
		}
	}
	return ""
}

func c26Run(b *c26Beh, k *c26Key) string {
	c, exp := &b.C, &b.Exp
	now := time.Now()
	eol := c26Eol(c.Sc[1], now)
	if (c.Pad == "none") != (exp.Create == "reject" || exp.Target == 0) {
		return "harness: padding class and target size disagree"
	}
	var rec *Record
	var in *c26In
	var err error
	if c.Pad == "none" {
		rec, in, err = c26Build(c, k, eol, 0, 0, 0)
	}
	if exp.Create == "reject" {
		if err == nil {
			return "NewRecord accepted metadata class " + c.Md
		}
		for _, e := range exp.Errors {
			if errors.Is(err, c26Errs[e]) {
				return ""
			}
		}
		return fmt.Sprintf("NewRecord error %q is none of %v", err, exp.Errors)
	}
	if err != nil {
		return "NewRecord: " + err.Error()
	}
	if rec == nil {
		var d string
		if rec, in, d = c26BuildSized(c, k, eol, exp.Target); d != "" {
			return d
		}
	}
	if exp.Eol != c.Sc[1] || exp.Seq != c.Sc[0] || exp.Ttl != c.Sc[2] || exp.Val != c.Val {
		// the specification demands identity; a different class would need a second projection
		eol = c26Eol(exp.Eol, now)
	}
	wire, err := MarshalRecord(rec)
	if err != nil {
		return "MarshalRecord: " + err.Error()
	}
	if exp.Target == 0 && len(wire) >= MaxRecordSize-1 {
		return fmt.Sprintf("harness: unpadded record has %d bytes, not in the small class", len(wire))
	}
	if exp.Target != 0 && len(wire) != exp.Target {
		return fmt.Sprintf("harness: encoding has %d bytes, want %d", len(wire), exp.Target)
	}
	sizeTag := fmt.Sprintf("encoding of %d bytes (MaxRecordSize%+d)", len(wire), len(wire)-MaxRecordSize)
	rkey := string(k.name.RoutingKey())
	if exp.Within != (exp.Unmarshal == "ok") {
		return "harness: specification inconsistent (within / unmarshal)"
	}
	rec2, err := UnmarshalRecord(wire)
	if !exp.Within {
		// over the limit: every entry point that looks at the size refuses with ErrRecordSize; the record the creator
		// holds still answers the accessors with the inputs
		if !errors.Is(err, ErrRecordSize) {
			return fmt.Sprintf("%s: UnmarshalRecord error=%v want ErrRecordSize", sizeTag, err)
		}
		if err := Validate(rec, k.pk); !errors.Is(err, ErrRecordSize) || exp.VKey {
			return fmt.Sprintf("%s: Validate on the created record: %v want ErrRecordSize", sizeTag, err)
		}
		if err := ValidateWithName(rec, k.name); err == nil || exp.VName {
			return sizeTag + ": ValidateWithName accepts the created record"
		}
		if err := (Validator{KeyBook: k.kb}).Validate(rkey, wire); !errors.Is(err, ErrRecordSize) || exp.VBook {
			return fmt.Sprintf("%s: Validator{KeyBook}.Validate: %v want ErrRecordSize", sizeTag, err)
		}
		if err := (Validator{}).Validate(rkey, wire); !errors.Is(err, ErrRecordSize) {
			return fmt.Sprintf("%s: Validator{}.Validate: %v want ErrRecordSize", sizeTag, err)
		}
		if d := c26Accessors(rec, k, exp, eol, in); d != "" {
			return sizeTag + ": created record: " + d
		}
		return ""
	}
	if err != nil {
		return fmt.Sprintf("UnmarshalRecord of an %s: %v", sizeTag, err)
	}
	wire2, err := MarshalRecord(rec2)
	if err != nil || !bytes.Equal(wire, wire2) {
		return "marshal(unmarshal(bytes)) differs from bytes"
	}
	for which, r := range map[string]*Record{"created": rec, "decoded": rec2} {
		if got := Validate(r, k.pk) == nil; got != exp.VKey {
			return fmt.Sprintf("%s record, %s: Validate=%v want %v (%v)", which, sizeTag, got, exp.VKey, Validate(r, k.pk))
		}
		if got := ValidateWithName(r, k.name) == nil; got != exp.VName {
			return fmt.Sprintf("%s record, %s: ValidateWithName=%v want %v (%v)", which, sizeTag, got, exp.VName, ValidateWithName(r, k.name))
		}
		if d := c26Accessors(r, k, exp, eol, in); d != "" {
			return which + " record: " + d
		}
	}
	if err := (Validator{KeyBook: k.kb}).Validate(rkey, wire); (err == nil) != exp.VBook {
		return fmt.Sprintf("%s: Validator{KeyBook}.Validate=%v want %v", sizeTag, err, exp.VBook)
	}
	if err := (Validator{}).Validate(rkey, wire); (err == nil) != exp.VName {
		return fmt.Sprintf("%s: Validator{}.Validate=%v want %v", sizeTag, err, exp.VName)
	}
	// legacy protobuf fields: all six present with the input values iff v1-compatible
	pb := rec2.pb
	present := []bool{pb.Value != nil, pb.SignatureV1 != nil, pb.ValidityType != nil, pb.Validity != nil, pb.Sequence != nil, pb.Ttl != nil}
	for i, pr := range present {
		if pr != exp.Legacy {
			return fmt.Sprintf("legacy field #%d present=%v want %v", i+1, pr, exp.Legacy)
		}
	}
	if exp.Legacy {
		if string(pb.GetValue()) != in.val || pb.GetSequence() != c26Seq[exp.Seq] || pb.GetTtl() != uint64(c26Ttl[exp.Ttl]) ||
			string(pb.GetValidity()) != util.FormatRFC3339(eol) || pb.GetValidityType() != 0 {
			return "legacy fields do not carry the inputs"
		}
	}
	if len(pb.GetSignatureV2()) == 0 || len(pb.GetData()) == 0 {
		return "record without signatureV2/data"
	}
	// representation of the sequence number in the signed DAG-CBOR document
	i := bytes.Index(pb.GetData(), append([]byte{0x68}, "Sequence"...))
	if i < 0 || i+9 >= len(pb.GetData()) {
		return "harness: Sequence key not found in DAG-CBOR"
	}
	if mj := int(pb.GetData()[i+9] >> 5); mj != exp.CborSeqMajor {
		return fmt.Sprintf("DAG-CBOR major type of Sequence is %d, specification says %d", mj, exp.CborSeqMajor)
	}
	// DAG-CBOR map keys must be in canonical (length-first) order: re-encoding the decoded node is byte-identical
	if re, err := nodeToCBOR(rec2.node); err != nil || !bytes.Equal(re, pb.GetData()) {
		return "signed DAG-CBOR document is not in canonical form"
	}
	return ""
}

func TestVerifC26(t *testing.T) {
	defer vFlush()
	if vMode() != "replay" {
		t.Skip("no VERIF_MODE")
	}
	keys := map[string]*c26Key{}
	for _, kt := range []string{"ed25519", "secp256k1", "ecdsa", "rsa"} {
		keys[kt] = c26GenKey(kt)
	}
	in := vIn()
	type job struct {
		i   int
		raw json.RawMessage
	}
	jobs := make(chan job, 64)
	var wg sync.WaitGroup
	var mu sync.Mutex
	n, bad := 0, 0
	var slow []string
	for w := 0; w < vEnvInt("C26_WORKERS", 8); w++ {
		wg.Add(1)
		go func() {
			defer wg.Done()
			for jb := range jobs {
				var b c26Beh
				if err := json.Unmarshal(jb.raw, &b); err != nil {
					panic(err)
				}
				t0 := time.Now()
				d := c26Run(&b, keys[b.C.Kt])
				res := M{"i": jb.i, "ok": true}
				if d != "" {
					res = M{"i": jb.i, "ok": false, "step": 1, "what": d}
				if strings.HasPrefix(d, "harness:") {
					res["harness"] = true // the projection failed, not the code under test
				}
					if el := time.Since(t0); el > 60*time.Second {
						// the "soon" expiry class allows 90 s for one case; a stalled machine is not a defect
						res["harness"] = true
						res["what"] = fmt.Sprintf("case took %v (machine stalled?): %s", el, d)
					}
				}
				mu.Lock()
				n++
				if d != "" {
					bad++
				}
				mu.Unlock()
				vEmit(res)
			}
		}()
	}
	for i, raw := range in {
		jobs <- job{i, raw}
	}
	close(jobs)
	wg.Wait()
	sort.Strings(slow)
	vEmit(M{"summary": true, "n": n, "bad": bad})
}
