//go:build verif

package ipns

// C27 harness (replay only): every multiset of abstract records printed by GenIPNSSelect is built
// from real records; every permutation (or a sample for long lists) of the list is given to
// Validator.Select and to selectRecord, and the BYTES of the selected record are compared with the
// bytes of the record the specification designates (Best).
//
// Projection (trusted): abstract [v2, seq, eol, var] -> real record
//   seq index  1..S -> 7, 2^63+5, 2^64-1        (ascending, crosses the int64 sign boundary)
//   eol index  1..E -> T, T+1ns, T+1h           (ascending, nanosecond apart)
//   var        1..V -> the V records of that class (they differ in TTL, value and v1-compatibility)
//                      sorted by bytes.Compare: var 1 has the smallest bytes
//   v2 = 0          -> signatureV2 stripped from the protobuf

import (
	"bytes"
	"crypto/rand"
	"encoding/hex"
	"encoding/json"
	"fmt"
	"sort"
	"sync"
	"testing"
	"time"

	"github.com/ipfs/boxo/path"
	ic "github.com/libp2p/go-libp2p/core/crypto"
)

type c27Beh struct {
	Ms   [][4]int `json:"ms"`
	Best [4]int   `json:"best"`
}

type c27Uni struct {
	recs map[[4]int][]byte
}

func c27Build(kt int, s, e, v int) *c27Uni {
	sk, _, err := ic.GenerateKeyPairWithReader(kt, 2048, rand.Reader)
	if err != nil {
		panic(err)
	}
	seqs := []uint64{7, 1<<63 + 5, ^uint64(0)}
	base := time.Now().Add(24 * time.Hour).Truncate(time.Second)
	eols := []time.Time{base, base.Add(1), base.Add(time.Hour)}
	vals := []string{"/ipfs/bafkqac3jobxhgidsn5rww4yk", "/ipfs/bafybeigdyrzt5sfp7udm7hu76uh7y26nf3efuylqabf3oclgtqy55fbzdi",
		"/ipns/k51qzi5uqu5dgutdk6i1ynyzgkqngpha5xpgia3a5qqp4jsh0u4csozksxel2r"}
	u := &c27Uni{recs: map[[4]int][]byte{}}
	for v2 := 0; v2 <= 1; v2++ {
		for si := 1; si <= s; si++ {
			for ei := 1; ei <= e; ei++ {
				var class [][]byte
				for vi := 1; vi <= v; vi++ {
					p, err := path.NewPath(vals[vi%len(vals)])
					if err != nil {
						panic(err)
					}
					rec, err := NewRecord(sk, p, seqs[si-1], eols[ei-1], time.Duration(vi)*time.Minute,
						WithV1Compatibility(vi%2 == 1))
					if err != nil {
						panic(err)
					}
					if v2 == 0 {
						rec.pb.SignatureV2 = nil
					}
					b, err := MarshalRecord(rec)
					if err != nil {
						panic(err)
					}
					class = append(class, b)
				}
				sort.Slice(class, func(a, b int) bool { return bytes.Compare(class[a], class[b]) < 0 })
				for vi := 1; vi <= v; vi++ {
					if vi > 1 && bytes.Equal(class[vi-1], class[vi-2]) {
						panic("variants of one class are not byte-distinct")
					}
					u.recs[[4]int{v2, si, ei, vi}] = class[vi-1]
				}
			}
		}
	}
	return u
}

// c27Perms calls f with every permutation of 0..n-1 (Heap's algorithm), or with `sample`
// pseudo-random ones when sample > 0; stops when f returns false.
func c27Perms(n int, sample int, seed int64, f func([]int) bool) {
	idx := make([]int, n)
	for i := range idx {
		idx[i] = i
	}
	if sample > 0 {
		x := uint64(seed)*2654435761 + 99
		if !f(idx) {
			return
		}
		// reversed order as well
		rev := make([]int, n)
		for i := range rev {
			rev[i] = n - 1 - i
		}
		if !f(rev) {
			return
		}
		for k := 0; k < sample; k++ {
			for i := n - 1; i > 0; i-- {
				x = x*6364136223846793005 + 1442695040888963407
				j := int((x >> 33) % uint64(i+1))
				idx[i], idx[j] = idx[j], idx[i]
			}
			if !f(idx) {
				return
			}
		}
		return
	}
	c := make([]int, n)
	if !f(idx) {
		return
	}
	for i := 0; i < n; {
		if c[i] < i {
			if i%2 == 0 {
				idx[0], idx[i] = idx[i], idx[0]
			} else {
				idx[c[i]], idx[i] = idx[i], idx[c[i]]
			}
			if !f(idx) {
				return
			}
			c[i]++
			i = 0
		} else {
			c[i] = 0
			i++
		}
	}
}

func TestVerifC27(t *testing.T) {
	defer vFlush()
	if vMode() != "replay" {
		t.Skip("no VERIF_MODE")
	}
	s, e, v := vEnvInt("C27_S", 2), vEnvInt("C27_E", 2), vEnvInt("C27_V", 2)
	sample := vEnvInt("C27_SAMPLE", 0) // 0 = all permutations
	kts := []int{ic.Ed25519, ic.Secp256k1, ic.ECDSA, ic.RSA}
	u := c27Build(kts[int(vSeed())%4], s, e, v)
	in := vIn()
	type job struct {
		i   int
		raw json.RawMessage
	}
	jobs := make(chan job, 64)
	var wg sync.WaitGroup
	var mu sync.Mutex
	n, bad, evals := 0, 0, 0
	for w := 0; w < vEnvInt("C27_WORKERS", 8); w++ {
		wg.Add(1)
		go func() {
			defer wg.Done()
			for jb := range jobs {
				var b c27Beh
				if err := json.Unmarshal(jb.raw, &b); err != nil {
					panic(err)
				}
				vals := make([][]byte, len(b.Ms))
				for k, m := range b.Ms {
					vals[k] = u.recs[m]
					if vals[k] == nil {
						panic(fmt.Sprintf("no record for %v", m))
					}
				}
				want := u.recs[b.Best]
				res := M{"i": jb.i, "ok": true}
				cnt := 0
				pv := make([][]byte, len(vals))
				c27Perms(len(vals), sample, vSeed()+int64(jb.i), func(p []int) bool {
					cnt++
					for k, q := range p {
						pv[k] = vals[q]
					}
					idx, err := Validator{}.Select("", pv)
					what := ""
					switch {
					case err != nil:
						what = "Select error: " + err.Error()
					case idx < 0 || idx >= len(pv):
						what = fmt.Sprintf("Select index %d out of range", idx)
					case !bytes.Equal(pv[idx], want):
						got := "?"
						for key, rb := range u.recs {
							if bytes.Equal(rb, pv[idx]) {
								got = fmt.Sprint(key)
							}
						}
						what = fmt.Sprintf("order %v of %v: selected %s (bytes %s...), specification selects %v", p, b.Ms, got,
							hex.EncodeToString(pv[idx][:16]), b.Best)
					}
					if what == "" {
						// the internal entry point with pre-parsed records must agree
						recs := make([]*Record, len(pv))
						for k := range pv {
							r, err := UnmarshalRecord(pv[k])
							if err != nil {
								what = "UnmarshalRecord: " + err.Error()
								break
							}
							recs[k] = r
						}
						if what == "" {
							i2, err := selectRecord(recs, pv)
							if err != nil || i2 != idx {
								what = fmt.Sprintf("selectRecord=%d,%v but Select=%d", i2, err, idx)
							}
						}
					}
					if what != "" {
						res = M{"i": jb.i, "ok": false, "step": cnt, "what": what}
						return false
					}
					return true
				})
				mu.Lock()
				n++
				evals += cnt
				if res["ok"] == false {
					bad++
				}
				mu.Unlock()
				vEmit(res)
			}
		}()
	}
	for i, raw := range in {
		jobs <- job{i, raw}
	}
	close(jobs)
	wg.Wait()
	vEmit(M{"summary": true, "n": n, "bad": bad, "evals": evals})
}
