//go:build verif

package ipns

// C28 harness: every case enumerated by spec/PathSyntax (token sequence / URI / name
// conversion path / rejected name form) is turned into concrete text and pushed through the
// real path.NewPath, path.NewPathFromURI, path.StringToSegments and the ipns.Name
// conversions; the observable is compared with the expectation computed by the TLA+ rule
// (replay mode).  Record mode logs long random token sequences for TracePathSyntax.

import (
	"bytes"
	"crypto/rand"
	"crypto/sha256"
	"encoding/binary"
	"encoding/json"
	"errors"
	"fmt"
	mrand "math/rand"
	"strings"
	"testing"

	"github.com/ipfs/boxo/path"
	"github.com/ipfs/go-cid"
	ic "github.com/libp2p/go-libp2p/core/crypto"
	"github.com/libp2p/go-libp2p/core/peer"
	mb "github.com/multiformats/go-multibase"
	mh "github.com/multiformats/go-multihash"
)

// ---- projection: token <-> text, model CID <-> real CID (trusted, self-checked) ----------

type c28Tab struct {
	text   map[string]string  // token -> concrete segment text
	token  map[string]string  // reverse
	cids   map[string]cid.Cid // "v0-dagpb:1" -> real CID
	tokCid map[string]string  // token -> model cid key ("" = does not decode)
	keys   map[string]peer.ID // key class (kt/fst/lst) -> peer id, built on demand by keyFor
	t      *testing.T
}

func c28MkTab(t *testing.T) *c28Tab {
	tb := &c28Tab{text: map[string]string{}, token: map[string]string{}, cids: map[string]cid.Cid{},
		tokCid: map[string]string{}, keys: map[string]peer.ID{}, t: t}
	h1, _ := mh.Sum([]byte("c28-block-1"), mh.SHA2_256, -1)
	h2, _ := mh.Sum([]byte("c28-some-rsa-public-key"), mh.SHA2_256, -1) // textual class of an RSA peer id
	v0 := cid.NewCidV0(h1)
	v1 := cid.NewCidV1(cid.DagProtobuf, h1)
	// ed25519 key from a fixed seed: identity-multihash peer id "12D3KooW..."
	edPriv, _, err := ic.GenerateEd25519Key(bytes.NewReader(bytes.Repeat([]byte{0x28}, 64)))
	if err != nil {
		t.Fatal(err)
	}
	edPid, _ := peer.IDFromPrivateKey(edPriv)
	sb := func(c cid.Cid, b mb.Encoding) string {
		s, err := c.StringOfBase(b)
		if err != nil {
			t.Fatal(err)
		}
		return s
	}
	add := func(tok, txt, ck string) {
		tb.text[tok] = txt
		if _, dup := tb.token[txt]; dup {
			t.Fatalf("token text collision %q", txt)
		}
		tb.token[txt] = tok
		tb.tokCid[tok] = ck
	}
	add("e", "", "")
	add("dot", ".", "")
	add("dd", "..", "")
	add("ipfs", "ipfs", "")
	add("ipns", "ipns", "")
	add("ipld", "ipld", "")
	add("IPFS", "IPFS", "")
	add("cidV0", v0.String(), "v0-dagpb:1")
	add("cidV1b32", v1.String(), "v1-dagpb:1")
	add("cidV1b36", sb(v1, mb.Base36), "v1-dagpb:1")
	add("cidV1b58", sb(v1, mb.Base58BTC), "v1-dagpb:1")
	add("pidRsaB58", peer.ID(h2).String(), "v0-dagpb:2")
	add("pidEdB58", edPid.String(), "")
	add("pidCidB36", NameFromPeer(edPid).String(), "v1-key:3")
	add("a", "a", "")
	add("uni", "é世é", "")
	add("sp", "a b", "")
	add("dots3", "...", "")
	add("badcid", "bafybeibadbadbadbad", "")
	tb.cids["v0-dagpb:1"] = v0
	tb.cids["v1-dagpb:1"] = v1
	tb.cids["v0-dagpb:2"] = cid.NewCidV0(h2)
	tb.cids["v1-key:3"] = NameFromPeer(edPid).Cid()
	// self-check of the class facts the spec assumes (a failure here is a broken check, not a finding)
	for tok, ck := range tb.tokCid {
		c, err := cid.Decode(tb.text[tok])
		if ck == "" {
			if err == nil && tok != "e" {
				t.Fatalf("projection: token %s (%q) unexpectedly decodes as a CID", tok, tb.text[tok])
			}
			continue
		}
		if err != nil || !c.Equals(tb.cids[ck]) {
			t.Fatalf("projection: token %s (%q) does not decode to %s: %v", tok, tb.text[tok], ck, err)
		}
	}
	if !strings.HasPrefix(tb.text["pidRsaB58"], "Qm") || !strings.HasPrefix(tb.text["pidEdB58"], "12D3KooW") ||
		!strings.HasPrefix(tb.text["pidCidB36"], "k51") || !strings.HasPrefix(tb.text["cidV1b58"], "z") {
		t.Fatalf("projection: unexpected token texts %v", tb.text)
	}
	return tb
}

func (tb *c28Tab) join(toks []string) string {
	out := make([]string, len(toks))
	for i, k := range toks {
		s, ok := tb.text[k]
		if !ok {
			panic("unknown token " + k)
		}
		out[i] = s
	}
	return strings.Join(out, "/")
}
func (tb *c28Tab) texts(toks []string) []string {
	out := make([]string, len(toks))
	for i, k := range toks {
		out[i] = tb.text[k]
	}
	return out
}
func (tb *c28Tab) toTokens(segs []string) []string {
	out := make([]string, len(segs))
	for i, s := range segs {
		if k, ok := tb.token[s]; ok {
			out[i] = k
		} else {
			out[i] = "?" + s
		}
	}
	return out
}
func (tb *c28Tab) cidKey(c cid.Cid) string {
	for k, v := range tb.cids {
		if v.Equals(c) {
			return k
		}
	}
	return "?" + c.String()
}

// ---- binary key classes (spec: KeyClasses / Hdr / PLen / Lead / InClass) ------------------------
// The spec describes a key by the framing of its multihash (kt) and the byte-value class of the first
// and last payload bytes.  keyFor finds or constructs a real peer ID for the class; phase T logs the
// concrete bytes and the spec re-checks InClass on them, so this code is checked, not trusted.

type c28Key struct {
	Kt  string `json:"kt"`
	Fst string `json:"fst"`
	Lst string `json:"lst"`
}

func (k c28Key) id() string { return k.Kt + "/" + k.Fst + "/" + k.Lst }

var c28Prefix = []byte(NamespacePrefix)

func c28ClassBytes(cl string) []byte {
	switch cl {
	case "sl":
		return []byte{0x2f}
	case "z":
		return []byte{0x00}
	case "ff":
		return []byte{0xff}
	case "ipns":
		return c28Prefix
	case "any":
		return nil
	}
	panic("byte class " + cl)
}

func c28Special(b byte) bool { return b == 0x2f || b == 0x00 || b == 0xff }

func (k c28Key) hdr() ([]byte, int) {
	switch k.Kt {
	case "ed25519":
		return []byte{0x00, 0x24, 0x08, 0x01, 0x12, 0x20}, 32
	case "secp256k1":
		return []byte{0x00, 0x25, 0x08, 0x02, 0x12, 0x21}, 33
	case "rawmh":
		if k.Fst == "ipns" {
			return []byte{0x2f, 0x69}, 105
		}
		return []byte{0x2f, 40}, 40
	case "ecdsa", "rsa2048", "sha256":
		return []byte{0x12, 0x20}, 32
	}
	panic("key type " + k.Kt)
}

func (k c28Key) lead() []byte {
	if k.Kt == "rawmh" {
		if k.Fst == "ipns" {
			return []byte("pns/")
		}
		return nil
	}
	return c28ClassBytes(k.Fst)
}

// inClass: are the raw multihash bytes b a member of class k?
func (k c28Key) inClass(b []byte) bool {
	h, pl := k.hdr()
	n := len(h) + pl
	ld, tr := k.lead(), c28ClassBytes(k.Lst)
	if len(b) != n || !bytes.HasPrefix(b, h) || !bytes.HasPrefix(b[len(h):], ld) || !bytes.HasSuffix(b, tr) {
		return false
	}
	if k.Fst == "any" && c28Special(b[len(h)]) {
		return false
	}
	if k.Lst == "any" && c28Special(b[n-1]) {
		return false
	}
	if k.Kt == "secp256k1" && b[len(h)] != 2 && b[len(h)] != 3 {
		return false
	}
	return true
}

// payload with the class bytes at both ends and random filler (below 0x80 and never '/' when small is set)
func (k c28Key) payload(small bool) []byte {
	_, pl := k.hdr()
	p := make([]byte, pl)
	rand.Read(p)
	for i := range p {
		if small {
			p[i] = 1 + p[i]%126
		}
		for (i == 0 || i == pl-1 || small) && c28Special(p[i]) {
			p[i] = p[i]/2 + 3
		}
	}
	copy(p, k.lead())
	tr := c28ClassBytes(k.Lst)
	copy(p[pl-len(tr):], tr)
	return p
}

func (tb *c28Tab) keyFor(k c28Key) peer.ID {
	if pid, ok := tb.keys[k.id()]; ok {
		return pid
	}
	t := tb.t
	var pid peer.ID
	found := false
	switch k.Kt {
	case "ed25519": // identity multihash of chosen public-key bytes (any 32 bytes are a valid ed25519 key encoding)
		pub, err := ic.UnmarshalEd25519PublicKey(k.payload(false))
		if err != nil {
			t.Fatal(err)
		}
		if pid, err = peer.IDFromPublicKey(pub); err != nil {
			t.Fatal(err)
		}
		found = true
	case "rawmh": // a well-framed multihash that is not the hash of a key: hash code 0x2f
		h, _ := k.hdr()
		id, err := peer.IDFromBytes(append(append([]byte{}, h...), k.payload(true)...))
		if err != nil {
			t.Fatalf("projection: raw multihash rejected by peer.IDFromBytes: %v", err)
		}
		pid, found = id, true
	case "sha256": // sha2-256 multihash (the shape of RSA / ECDSA peer IDs) found by search
		var pre [16]byte
		binary.LittleEndian.PutUint64(pre[:], uint64(vSeed()))
		for i := uint64(0); i < 1<<24 && !found; i++ {
			binary.LittleEndian.PutUint64(pre[8:], i)
			d := sha256.Sum256(pre[:])
			if b := append([]byte{0x12, 0x20}, d[:]...); k.inClass(b) {
				pid, found = peer.ID(b), true
			}
		}
	case "secp256k1", "ecdsa", "rsa2048": // real key pairs, brute-forced until the peer ID is in the class
		typ, bits := map[string]int{"secp256k1": ic.Secp256k1, "ecdsa": ic.ECDSA, "rsa2048": ic.RSA}[k.Kt], 0
		if k.Kt == "rsa2048" {
			bits = 2048
		}
		for i := 0; i < 1<<14 && !found; i++ {
			priv, _, err := ic.GenerateKeyPairWithReader(typ, bits, rand.Reader)
			if err != nil {
				t.Fatal(err)
			}
			id, err := peer.IDFromPrivateKey(priv)
			if err != nil {
				t.Fatal(err)
			}
			if k.inClass([]byte(id)) {
				pid, found = id, true
			}
		}
	default:
		t.Fatalf("projection: unknown key type %q", k.Kt)
	}
	if !found || !k.inClass([]byte(pid)) {
		t.Fatalf("projection: no peer ID of class %s (got %x)", k.id(), []byte(pid))
	}
	tb.keys[k.id()] = pid
	return pid
}

func c28Ints(b []byte) []int {
	out := make([]int, len(b))
	for i, x := range b {
		out[i] = int(x)
	}
	return out
}

// ---- model-side records ---------------------------------------------------------------------

type c28Cid struct {
	Kind string
	N    int
}

func (c *c28Cid) UnmarshalJSON(b []byte) error {
	var raw []any
	if err := json.Unmarshal(b, &raw); err != nil {
		return err
	}
	c.Kind, c.N = raw[0].(string), int(raw[1].(float64))
	return nil
}
func (c c28Cid) MarshalJSON() ([]byte, error) { return json.Marshal([]any{c.Kind, c.N}) }
func (c c28Cid) key() string {
	if c.Kind == "none" {
		return ""
	}
	return fmt.Sprintf("%s:%d", c.Kind, c.N)
}

type c28Parsed struct {
	Ok   bool     `json:"ok"`
	Err  string   `json:"err"`
	Ns   string   `json:"ns"`
	Segs []string `json:"segs"`
	Tr   bool     `json:"tr"`
	Mut  bool     `json:"mut"`
	Cid  c28Cid   `json:"cid"`
}
type c28Case struct {
	K    string     `json:"k"`
	T    []string   `json:"t"`
	P    *c28Parsed `json:"p"`
	Sg   []string   `json:"sg"`
	Sch  string     `json:"sch"`
	Sep  string     `json:"sep"`
	Key  json.RawMessage `json:"key"` // "n": key class record, "x": key type
	Es   []string   `json:"es"`
	Form string     `json:"form"`
	Same bool       `json:"same"`
	Ops  []c28Op           `json:"ops"` // "v" / "w": the calls of a value session ...
	Res  []json.RawMessage `json:"res"` // ... and the result the spec gives for each
	Mh   []int             `json:"mh"`  // "w": the binary name
}

// one call of a value session (spec: Call / Scribble)
type c28Op struct {
	Op string `json:"op"`
	Of int    `json:"of"`
}

// ---- observation of the real parser ------------------------------------------------------------

func c28ErrClass(err error) string {
	var ip *path.ErrInvalidPath
	if !errors.As(err, &ip) {
		return "not-ErrInvalidPath:" + err.Error()
	}
	switch {
	case errors.Is(err, path.ErrInsufficientComponents):
		return "insufficient"
	case errors.Is(err, path.ErrUnknownNamespace):
		return "namespace"
	default:
		return "cid"
	}
}

// c28Observe projects the result of a parser call back into the model vocabulary, and checks on
// the real objects the parts of the property that need no model (re-parse, no dots, RootCid).
func (tb *c28Tab) observe(p path.Path, err error) (c28Parsed, string) {
	if err != nil {
		if p != nil {
			return c28Parsed{}, "error with non-nil path"
		}
		return c28Parsed{Err: c28ErrClass(err), Segs: []string{}, Cid: c28Cid{"none", 0}}, ""
	}
	str := p.String()
	segs := p.Segments()
	o := c28Parsed{Ok: true, Ns: p.Namespace(), Segs: tb.toTokens(segs), Mut: p.Mutable(),
		Tr: strings.HasSuffix(str, "/"), Cid: c28Cid{"none", 0}}
	want := "/" + strings.Join(segs, "/")
	if o.Tr {
		want += "/"
	}
	if str != want {
		return o, fmt.Sprintf("String()=%q is not '/'+join(Segments())(+'/')=%q", str, want)
	}
	for _, s := range segs {
		if s == "" || s == "." || s == ".." {
			return o, fmt.Sprintf("printed form %q has an empty or dot segment", str)
		}
	}
	if len(segs) < 2 || segs[0] != p.Namespace() {
		return o, fmt.Sprintf("Segments()=%q inconsistent with Namespace()=%q", segs, p.Namespace())
	}
	var root cid.Cid
	ip, isImm := p.(path.ImmutablePath)
	ip2, ierr := path.NewImmutablePath(p)
	if o.Mut {
		if isImm || ierr == nil || !errors.Is(ierr, path.ErrExpectedImmutable) {
			return o, fmt.Sprintf("mutable path %q: ImmutablePath=%v NewImmutablePath err=%v", str, isImm, ierr)
		}
	} else {
		if !isImm || ierr != nil {
			return o, fmt.Sprintf("immutable path %q: ImmutablePath=%v NewImmutablePath err=%v", str, isImm, ierr)
		}
		root = ip.RootCid()
		if !ip2.RootCid().Equals(root) || ip2.String() != str {
			return o, fmt.Sprintf("NewImmutablePath(%q) differs: %q root %s vs %s", str, ip2.String(), ip2.RootCid(), root)
		}
		dc, derr := cid.Decode(segs[1])
		if derr != nil || !dc.Equals(root) {
			return o, fmt.Sprintf("RootCid %s is not the CID of segment %q (%v)", root, segs[1], derr)
		}
		k := tb.cidKey(root)
		if i := strings.LastIndexByte(k, ':'); i > 0 && k[0] != '?' {
			var n int
			fmt.Sscanf(k[i+1:], "%d", &n)
			o.Cid = c28Cid{k[:i], n}
		} else {
			o.Cid = c28Cid{k, -1}
		}
	}
	// the property on the real objects: re-parsing the printed form gives the same path
	q, qerr := path.NewPath(str)
	if qerr != nil {
		return o, fmt.Sprintf("printed form %q does not re-parse: %v", str, qerr)
	}
	if q.String() != str || q.Namespace() != p.Namespace() || q.Mutable() != p.Mutable() ||
		strings.Join(q.Segments(), "\x00") != strings.Join(segs, "\x00") {
		return o, fmt.Sprintf("re-parse of %q differs: %q ns=%q segs=%q", str, q.String(), q.Namespace(), q.Segments())
	}
	if !o.Mut {
		qi, ok := q.(path.ImmutablePath)
		if !ok || !qi.RootCid().Equals(root) {
			return o, fmt.Sprintf("re-parse of %q has a different root CID", str)
		}
	}
	// NewPathFromSegments(Segments()) is the same path without the trailing slash
	r, rerr := path.NewPathFromSegments(segs...)
	if rerr != nil || r.String() != strings.TrimSuffix(str, "/") {
		return o, fmt.Sprintf("NewPathFromSegments(%q) = %v, %v", segs, r, rerr)
	}
	return o, ""
}

func c28EqParsed(a, b c28Parsed) bool {
	if a.Ok != b.Ok || a.Err != b.Err {
		return false
	}
	if !a.Ok {
		return true
	}
	return a.Ns == b.Ns && a.Tr == b.Tr && a.Mut == b.Mut && a.Cid == b.Cid &&
		strings.Join(a.Segs, "\x00") == strings.Join(b.Segs, "\x00")
}

func (tb *c28Tab) checkPath(c *c28Case) string {
	s := tb.join(c.T)
	p, err := path.NewPath(s)
	o, detail := tb.observe(p, err)
	if detail != "" {
		return fmt.Sprintf("NewPath(%q): %s", s, detail)
	}
	if !c28EqParsed(o, *c.P) {
		return fmt.Sprintf("NewPath(%q) = %+v, spec expects %+v", s, o, *c.P)
	}
	if got := tb.toTokens(path.StringToSegments(s)); strings.Join(got, "/") != strings.Join(c.Sg, "/") {
		return fmt.Sprintf("StringToSegments(%q) = %v, spec expects %v", s, got, c.Sg)
	}
	// a content path handed to NewPathFromURI is parsed exactly as by NewPath
	p2, err2 := path.NewPathFromURI(s)
	o2, d2 := tb.observe(p2, err2)
	if d2 != "" || !c28EqParsed(o, o2) {
		return fmt.Sprintf("NewPathFromURI(%q) = %+v (%s) differs from NewPath = %+v", s, o2, d2, o)
	}
	return ""
}

func (tb *c28Tab) checkURI(c *c28Case) string {
	rest := tb.join(c.T)
	s := c.Sch + ":" + c.Sep + rest
	p, err := path.NewPathFromURI(s)
	o, detail := tb.observe(p, err)
	if detail != "" {
		return fmt.Sprintf("NewPathFromURI(%q): %s", s, detail)
	}
	if !c28EqParsed(o, *c.P) {
		return fmt.Sprintf("NewPathFromURI(%q) = %+v, spec expects %+v", s, o, *c.P)
	}
	// the strict parser never accepts a URI
	if q, qerr := path.NewPath(s); qerr == nil {
		return fmt.Sprintf("NewPath(%q) accepted a URI: %q", s, q.String())
	}
	// UriEqualsPath on the real objects
	ns := strings.ToLower(c.Sch)
	if ns == "ipfs" || ns == "ipns" || ns == "ipld" {
		canon := "/" + ns + "/" + rest
		q, qerr := path.NewPath(canon)
		oq, dq := tb.observe(q, qerr)
		if dq != "" || !c28EqParsed(o, oq) || (qerr == nil && q.String() != p.String()) {
			return fmt.Sprintf("NewPathFromURI(%q) = %+v differs from NewPath(%q) = %+v %s", s, o, canon, oq, dq)
		}
	}
	return ""
}

// c28Edge renders name n in the given form and parses it back.
func c28Edge(edge string, n Name) (Name, error) {
	switch edge {
	case "String":
		return NameFromString(n.String())
	case "StringNs":
		return NameFromString(NamespacePrefix + n.String())
	case "B58":
		return NameFromString(n.Peer().String())
	case "CidB32":
		return NameFromString(n.Cid().String())
	case "CidB58":
		s, err := n.Cid().StringOfBase(mb.Base58BTC)
		if err != nil {
			return Name{}, err
		}
		return NameFromString(s)
	case "CidB36U":
		s, err := n.Cid().StringOfBase(mb.Base36Upper)
		if err != nil {
			return Name{}, err
		}
		return NameFromString(s)
	case "Cid":
		return NameFromCid(n.Cid())
	case "RoutingKey":
		return NameFromRoutingKey(n.RoutingKey())
	case "Peer":
		return NameFromPeer(n.Peer()), nil
	case "Path":
		return NameFromString(n.AsPath().String())
	case "PathSeg":
		p, err := path.NewPath("/ipns/" + n.Peer().String())
		if err != nil {
			return Name{}, err
		}
		return NameFromString(p.Segments()[1])
	case "JSON":
		b, err := json.Marshal(n)
		if err != nil {
			return Name{}, err
		}
		var m Name
		err = json.Unmarshal(b, &m)
		return m, err
	}
	panic("edge " + edge)
}

func (tb *c28Tab) checkName(c *c28Case) string {
	var kc c28Key
	if err := json.Unmarshal(c.Key, &kc); err != nil {
		tb.t.Fatalf("key class %s: %v", c.Key, err)
	}
	pid := tb.keyFor(kc)
	n0 := NameFromPeer(pid)
	canon := n0.String()
	if !strings.HasPrefix(canon, "k") || canon != strings.ToLower(canon) {
		return fmt.Sprintf("Name.String() %q is not a base36 CID", canon)
	}
	if ap := n0.AsPath(); ap.String() != "/ipns/"+canon || !ap.Mutable() {
		return fmt.Sprintf("AsPath()=%q", ap.String())
	}
	n := n0
	for i, e := range c.Es {
		m, err := c28Edge(e, n)
		if err != nil {
			return fmt.Sprintf("key %s (multihash %x): conversion %d (%s) failed: %v", kc.id(), []byte(pid), i+1, e, err)
		}
		same := m.Equal(n0) && m.String() == canon && m.Peer() == pid && bytes.Equal(m.RoutingKey(), n0.RoutingKey()) &&
			m.Cid().Equals(n0.Cid())
		if same != c.Same {
			return fmt.Sprintf("key %s (multihash %x): after %v the name is %s, started from %s", kc.id(), []byte(pid), c.Es[:i+1], m.String(), canon)
		}
		n = m
	}
	return ""
}

func (tb *c28Tab) checkBad(c *c28Case) string {
	var kt string
	if err := json.Unmarshal(c.Key, &kt); err != nil {
		tb.t.Fatalf("key type %s: %v", c.Key, err)
	}
	n := NameFromPeer(tb.keyFor(c28Key{kt, "any", "any"}))
	rej := func(what string, err error) string {
		if err == nil {
			return fmt.Sprintf("key %s: %s accepted, spec expects rejection (form %s)", kt, what, c.Form)
		}
		return ""
	}
	first := func(ds ...string) string {
		for _, d := range ds {
			if d != "" {
				return d
			}
		}
		return ""
	}
	switch c.Form {
	case "CidDagPb":
		w := cid.NewCidV1(cid.DagProtobuf, n.Cid().Hash())
		_, e1 := NameFromCid(w)
		_, e2 := NameFromString(w.String())
		_, e3 := NameFromCid(cid.NewCidV1(cid.Raw, n.Cid().Hash()))
		return first(rej("NameFromCid(dag-pb)", e1), rej("NameFromString(dag-pb cid)", e2), rej("NameFromCid(raw)", e3))
	case "RoutingKeyBare":
		_, e := NameFromRoutingKey([]byte(n.Peer()))
		return rej("NameFromRoutingKey(bare multihash)", e)
	case "RoutingKeyPk":
		_, e := NameFromRoutingKey(append([]byte("/pk/"), []byte(n.Peer())...))
		return rej("NameFromRoutingKey(/pk/..)", e)
	case "Garbage":
		_, e1 := NameFromString("not-a-name")
		_, e2 := NameFromRoutingKey([]byte("/ipns/garbage"))
		_, e3 := NameFromString(n.String()[:len(n.String())-3])
		return first(rej("NameFromString(garbage)", e1), rej("NameFromRoutingKey(garbage)", e2), rej("NameFromString(truncated)", e3))
	case "Empty":
		_, e1 := NameFromString("")
		_, e2 := NameFromString(NamespacePrefix)
		_, e3 := NameFromRoutingKey([]byte(NamespacePrefix))
		_, e4 := NameFromRoutingKey(nil)
		return first(rej("NameFromString(\"\")", e1), rej("NameFromString(/ipns/)", e2), rej("NameFromRoutingKey(/ipns/)", e3), rej("NameFromRoutingKey(nil)", e4))
	case "IpfsPrefixed":
		_, e := NameFromString("/ipfs/" + n.String())
		return rej("NameFromString(/ipfs/..)", e)
	}
	panic("form " + c.Form)
}

// ---- value sessions (spec: PathOps / NameOps / Scribble, SStep) ---------------------------------------
// A session holds the value through several handles (the original, copies taken before and after every
// scribble, wrappers), every value derived by an earlier call and every slice the calls left with the
// caller.  Scribble(i) overwrites the slice of call i (index-assign over the whole backing array, then
// append into re-slices of it).  After EVERY step all handles, all derived values and all still untouched
// slices are observed again and compared with what the spec gave.

const c28Junk = "zz-scribbled"

func c28ScribbleStrings(r []string) {
	for i := range r {
		r[i] = fmt.Sprintf("%s%d", c28Junk, i)
	}
	full := r[:cap(r)]
	for i := range full {
		full[i] = fmt.Sprintf("%s%d", c28Junk, i)
	}
	if len(r) > 0 {
		r[0] = ".."
	}
	for k := 0; k <= len(r) && k <= 2; k++ { // append into re-slices: writes in place while capacity lasts
		_ = append(r[:k], "ipfs", c28Junk, "..", "")
	}
}

func c28ScribbleBytes(r []byte) {
	full := r[:cap(r)]
	for i := range full {
		full[i] ^= 0xa5
	}
	for i := range r {
		r[i] = '/'
	}
	for k := 0; k <= len(r) && k <= 2; k++ {
		_ = append(r[:k], "/ipns/zz"...)
	}
}

type c28Der struct {
	of  int
	p   path.Path
	exp c28Parsed
}
type c28StrSlice struct {
	of        int
	s         []string
	exp       []string // tokens the spec gave (nil for argument slices: nothing to re-check)
	scribbled bool
}

type c28PathSess struct {
	tb      *c28Tab
	val     c28Parsed // the spec's value
	handles []path.Path
	ders    []c28Der
	slices  []*c28StrSlice
}

func c28EqToks(a, b []string) bool { return strings.Join(a, "\x00") == strings.Join(b, "\x00") }

func (tb *c28Tab) openPath(toks []string) (*c28PathSess, c28Parsed, string) {
	p, err := path.NewPath(tb.join(toks))
	o, d := tb.observe(p, err)
	if d != "" || err != nil {
		return nil, o, d
	}
	s := &c28PathSess{tb: tb, val: o}
	s.handles = append(s.handles, p)
	q := p // a copy of the value taken before any call
	s.handles = append(s.handles, q)
	if ip, ok := p.(path.ImmutablePath); ok {
		cp := ip // copy of the concrete struct
		s.handles = append(s.handles, cp)
		if w, err := path.NewImmutablePath(p); err == nil {
			s.handles = append(s.handles, w) // wrapper around the same value
		}
	}
	return s, o, ""
}

// call performs one step; res = what the real code returned, projected into the model vocabulary
func (s *c28PathSess) call(i int, op c28Op) (res any, detail string) {
	tb, p := s.tb, s.handles[0]
	der := func(q path.Path, err error) (any, string) {
		o, d := tb.observe(q, err)
		if d == "" && err == nil {
			s.ders = append(s.ders, c28Der{of: i, p: q, exp: o}) // i = 1-based index of the call
		}
		return o, d
	}
	switch op.Op {
	case "Segments": // taken from every handle held; all the returned slices belong to the caller
		var first []string
		for hi, h := range s.handles {
			r := h.Segments()
			toks := tb.toTokens(r)
			s.slices = append(s.slices, &c28StrSlice{of: i, s: r, exp: toks})
			if hi == 0 {
				first = toks
			} else if !c28EqToks(first, toks) {
				return first, fmt.Sprintf("Segments() of handle %d = %v, of handle 0 = %v", hi, toks, first)
			}
		}
		return first, ""
	case "String":
		return tb.toTokens(strings.Split(p.String(), "/")), ""
	case "Reparse":
		return der(path.NewPath(p.String()))
	case "Join":
		arg := []string{tb.text["a"]}
		s.slices = append(s.slices, &c28StrSlice{of: i, s: arg})
		return der(path.Join(p, arg...))
	case "FromSegs":
		arg := append(make([]string, 0, len(s.val.Segs)+3), tb.texts(s.val.Segs)...) // caller's slice, spare capacity
		s.slices = append(s.slices, &c28StrSlice{of: i, s: arg})
		return der(path.NewPathFromSegments(arg...))
	case "Immutable":
		w, err := path.NewImmutablePath(p)
		if err != nil {
			return M{"ok": false, "cid": c28Cid{"none", 0}}, ""
		}
		s.handles = append(s.handles, w)
		o, d := tb.observe(w, nil)
		return M{"ok": true, "cid": o.Cid}, d
	case "Scribble":
		n := 0
		for _, sl := range s.slices {
			if sl.of == op.Of && !sl.scribbled {
				c28ScribbleStrings(sl.s)
				sl.scribbled = true
				n++
			}
		}
		if n == 0 {
			tb.t.Fatalf("session: Scribble(%d) has no open slice", op.Of)
		}
		var cp path.Path = s.handles[0] // and a copy taken after the scribble
		s.handles = append(s.handles, cp)
		return "none", ""
	}
	tb.t.Fatalf("session: unknown path call %q", op.Op)
	return nil, ""
}

// reobserve: every handle, every derived value, every untouched slice -- after a step
func (s *c28PathSess) reobserve() (vals []c28Parsed, ders []M, open []M, detail string) {
	ders, open = []M{}, []M{}
	for hi, h := range s.handles {
		o, d := s.tb.observe(h, nil)
		if d != "" && detail == "" {
			detail = fmt.Sprintf("handle %d: %s", hi, d)
		}
		vals = append(vals, o)
	}
	for _, dv := range s.ders {
		o, d := s.tb.observe(dv.p, nil)
		if d != "" && detail == "" {
			detail = fmt.Sprintf("value derived by call %d: %s", dv.of, d)
		}
		ders = append(ders, M{"of": dv.of, "p": o})
	}
	for _, sl := range s.slices {
		if !sl.scribbled && sl.exp != nil {
			open = append(open, M{"of": sl.of, "sg": s.tb.toTokens(sl.s)})
		}
	}
	return
}

func c28JSON(v any) string { b, _ := json.Marshal(v); return string(b) }

// c28Distinct: the distinct observations (the spec demands that ALL of them are the session's value, so
// logging each different one once loses nothing and keeps the trace small)
func c28Distinct[T any](xs []T) []T {
	seen, out := map[string]bool{}, []T{}
	for _, x := range xs {
		if k := c28JSON(x); !seen[k] {
			seen[k] = true
			out = append(out, x)
		}
	}
	return out
}

// same JSON value?  (the spec's result vs the projected real one)
func c28SameJSON(want json.RawMessage, got any) bool {
	var a, b any
	if json.Unmarshal(want, &a) != nil || json.Unmarshal([]byte(c28JSON(got)), &b) != nil {
		return false
	}
	return c28JSON(a) == c28JSON(b)
}

func (tb *c28Tab) checkPathSession(c *c28Case) string {
	s, o, d := tb.openPath(c.T)
	if d != "" {
		return fmt.Sprintf("NewPath(%q): %s", tb.join(c.T), d)
	}
	if s == nil || !c28EqParsed(o, *c.P) {
		return fmt.Sprintf("NewPath(%q) = %+v, spec expects %+v", tb.join(c.T), o, *c.P)
	}
	if len(c.Res) != len(c.Ops) {
		tb.t.Fatalf("session case: %d calls, %d results", len(c.Ops), len(c.Res))
	}
	exp := map[int]json.RawMessage{}
	for i, op := range c.Ops {
		res, d := s.call(i+1, op)
		hist := fmt.Sprintf("%q after %s", tb.join(c.T), c28JSON(c.Ops[:i+1]))
		if d != "" {
			return fmt.Sprintf("%s: %s", hist, d)
		}
		if !c28SameJSON(c.Res[i], res) {
			return fmt.Sprintf("%s: call returned %s, spec expects %s", hist, c28JSON(res), c.Res[i])
		}
		exp[i+1] = c.Res[i]
		vals, ders, open, d := s.reobserve()
		if d != "" {
			return fmt.Sprintf("%s: %s", hist, d)
		}
		for hi, v := range vals {
			if !c28EqParsed(v, *c.P) {
				return fmt.Sprintf("%s: handle %d of the path now reads %+v, spec: still %+v", hist, hi, v, *c.P)
			}
		}
		for _, dv := range ders {
			if !c28SameJSON(exp[dv["of"].(int)], dv["p"]) {
				return fmt.Sprintf("%s: the value derived by call %d now reads %s, spec: still %s", hist, dv["of"], c28JSON(dv["p"]), exp[dv["of"].(int)])
			}
		}
		for _, sl := range open {
			if !c28SameJSON(exp[sl["of"].(int)], sl["sg"]) {
				return fmt.Sprintf("%s: the untouched slice returned by call %d now reads %s, spec: still %s", hist, sl["of"], c28JSON(sl["sg"]), exp[sl["of"].(int)])
			}
		}
	}
	return ""
}

// ---- name sessions ----

type c28ByteSlice struct {
	of        int
	b         []byte
	exp       []byte
	scribbled bool
}
type c28NameSess struct {
	t       *testing.T
	handles []Name
	slices  []*c28ByteSlice
}

// c28TextOf: projection of a text form back to the spec's ToText record (ns, of): the text must be EXACTLY the
// canonical base36 libp2p-key CID of the bytes it decodes to (else of = the text itself, which matches nothing)
func c28TextOf(txt string) M {
	ns := strings.HasPrefix(txt, NamespacePrefix)
	body := strings.TrimPrefix(txt, NamespacePrefix)
	c, err := cid.Decode(body)
	if err == nil && c.Type() == cid.Libp2pKey {
		if back, err := cid.NewCidV1(cid.Libp2pKey, c.Hash()).StringOfBase(mb.Base36); err == nil && back == body {
			return M{"ns": ns, "of": c28Ints([]byte(c.Hash()))}
		}
	}
	return M{"ns": ns, "of": "?" + txt}
}

func c28OpenName(t *testing.T, pid peer.ID) *c28NameSess {
	n := NameFromPeer(pid)
	return &c28NameSess{t: t, handles: []Name{n, n}}
}

func (s *c28NameSess) call(i int, op c28Op) (any, string) {
	n := s.handles[0]
	nameRes := func(m Name, err error) any {
		if err != nil {
			return M{"ok": false, "mh": []int{}}
		}
		s.handles = append(s.handles, m)
		return M{"ok": true, "mh": c28Ints([]byte(m.Peer()))}
	}
	switch op.Op {
	case "RoutingKey": // taken from every handle held
		var first []byte
		for hi, h := range s.handles {
			r := h.RoutingKey()
			s.slices = append(s.slices, &c28ByteSlice{of: i, b: r, exp: append([]byte{}, r...)})
			if hi == 0 {
				first = append([]byte{}, r...)
			} else if !bytes.Equal(first, r) {
				return c28Ints(first), fmt.Sprintf("RoutingKey() of handle %d = %x, of handle 0 = %x", hi, r, first)
			}
		}
		return c28Ints(first), ""
	case "JSON":
		r, err := n.MarshalJSON()
		if err != nil {
			return nil, "MarshalJSON: " + err.Error()
		}
		var txt string
		if err := json.Unmarshal(r, &txt); err != nil {
			return nil, fmt.Sprintf("MarshalJSON gave %q: %v", r, err)
		}
		s.slices = append(s.slices, &c28ByteSlice{of: i, b: r})
		return c28TextOf(txt), ""
	case "FromRK":
		buf := append(make([]byte, 0, 160), c28Prefix...) // caller's buffer, spare capacity
		buf = append(buf, []byte(n.Peer())...)
		s.slices = append(s.slices, &c28ByteSlice{of: i, b: buf})
		return nameRes(NameFromRoutingKey(buf)), ""
	case "FromJSON":
		buf := append(make([]byte, 0, 160), '"')
		buf = append(append(buf, n.String()...), '"')
		s.slices = append(s.slices, &c28ByteSlice{of: i, b: buf})
		var m Name
		err := m.UnmarshalJSON(buf)
		return nameRes(m, err), ""
	case "Peer":
		return c28Ints([]byte(n.Peer())), ""
	case "Text":
		return c28TextOf(n.String()), ""
	case "Scribble":
		k := 0
		for _, sl := range s.slices {
			if sl.of == op.Of && !sl.scribbled {
				c28ScribbleBytes(sl.b)
				sl.scribbled = true
				k++
			}
		}
		if k == 0 {
			s.t.Fatalf("session: Scribble(%d) has no open slice", op.Of)
		}
		s.handles = append(s.handles, s.handles[0])
		return "none", ""
	}
	s.t.Fatalf("session: unknown name call %q", op.Op)
	return nil, ""
}

func (s *c28NameSess) reobserve() (vals []M, open []M, detail string) {
	open = []M{}
	for hi, h := range s.handles {
		mhb := []byte(h.Peer())
		if !h.Equal(s.handles[0]) || !bytes.Equal([]byte(h.Cid().Hash()), mhb) || c28JSON(c28TextOf(h.String())["of"]) != c28JSON(c28Ints(mhb)) ||
			h.AsPath().String() != NamespacePrefix+h.String() {
			detail = fmt.Sprintf("handle %d: Equal / Cid / String / AsPath disagree with Peer() %x", hi, mhb)
		}
		vals = append(vals, M{"mh": c28Ints(mhb), "rk": c28Ints(h.RoutingKey())})
	}
	for _, sl := range s.slices {
		if !sl.scribbled && sl.exp != nil {
			open = append(open, M{"of": sl.of, "b": c28Ints(sl.b)})
		}
	}
	return
}

func (tb *c28Tab) checkNameSession(c *c28Case) string {
	b := make([]byte, len(c.Mh))
	for i, x := range c.Mh {
		b[i] = byte(x)
	}
	pid, err := peer.IDFromBytes(b)
	if err != nil {
		tb.t.Fatalf("projection: the spec's representative %x is not a multihash: %v", b, err)
	}
	s := c28OpenName(tb.t, pid)
	wantVal := c28JSON(M{"mh": c28Ints(b), "rk": c28Ints(append(append([]byte{}, c28Prefix...), b...))})
	exp := map[int]json.RawMessage{}
	for i, op := range c.Ops {
		res, d := s.call(i+1, op)
		hist := fmt.Sprintf("name %x after %s", b, c28JSON(c.Ops[:i+1]))
		if d != "" {
			return hist + ": " + d
		}
		if !c28SameJSON(c.Res[i], res) {
			return fmt.Sprintf("%s: call returned %s, spec expects %s", hist, c28JSON(res), c.Res[i])
		}
		exp[i+1] = c.Res[i]
		vals, open, d := s.reobserve()
		if d != "" {
			return hist + ": " + d
		}
		for hi, v := range vals {
			if c28JSON(v) != wantVal {
				return fmt.Sprintf("%s: handle %d of the name now reads %s, spec: still %s", hist, hi, c28JSON(v), wantVal)
			}
		}
		for _, sl := range open {
			if !c28SameJSON(exp[sl["of"].(int)], sl["b"]) {
				return fmt.Sprintf("%s: the untouched bytes returned by call %d now read %s", hist, sl["of"], c28JSON(sl["b"]))
			}
		}
	}
	return ""
}

func TestVerifC28(t *testing.T) {
	defer vFlush()
	switch vMode() {
	case "replay":
		c28Replay(t)
	case "record":
		c28Record(t)
	default:
		t.Skip("no VERIF_MODE")
	}
}

func c28Replay(t *testing.T) {
	tb := c28MkTab(t)
	n := 0
	for i, raw := range vIn() {
		var c c28Case
		if err := json.Unmarshal(raw, &c); err != nil {
			t.Fatalf("case %d: %v", i, err)
		}
		var d string
		switch c.K {
		case "p":
			d = tb.checkPath(&c)
		case "u":
			d = tb.checkURI(&c)
		case "n":
			d = tb.checkName(&c)
		case "x":
			d = tb.checkBad(&c)
		case "v":
			d = tb.checkPathSession(&c)
		case "w":
			d = tb.checkNameSession(&c)
		default:
			t.Fatalf("case %d: kind %q", i, c.K)
		}
		if d == "" {
			vEmit(M{"i": i, "ok": true})
		} else {
			vEmit(M{"i": i, "ok": false, "step": 0, "what": d})
		}
		n++
	}
	vEmit(M{"summary": true, "n": n})
}

// c28Record: long random token sequences (beyond the exhaustive bound), one event per parser call.
// c28RkInput: the byte strings handed to NameFromRoutingKey (spec: RkInput)
var c28RkVariants = []string{"exact", "plusSlash", "minusLast", "doublePrefix", "slashFirst", "bare", "pk", "upper", "noSlash"}

func c28RkInput(v string, b []byte) []byte {
	cat := func(parts ...[]byte) []byte { return bytes.Join(parts, nil) }
	switch v {
	case "exact":
		return cat(c28Prefix, b)
	case "plusSlash":
		return cat(c28Prefix, b, []byte("/"))
	case "minusLast":
		return cat(c28Prefix, b[:len(b)-1])
	case "doublePrefix":
		return cat(c28Prefix, c28Prefix, b)
	case "slashFirst":
		return cat([]byte("/"), c28Prefix, b)
	case "bare":
		return cat(b)
	case "pk":
		return cat([]byte("/pk/"), b)
	case "upper":
		return cat([]byte("/IPNS/"), b)
	case "noSlash":
		return cat([]byte("/ipns"), b)
	}
	panic("variant " + v)
}


// c28NextCall: a random call the spec's NextCalls allows (first call yields a slice; Scribble needs an open slice)
func c28NextCall(r *mrand.Rand, alphabet []string, yielding map[string]bool, ops []c28Op) c28Op {
	var open []int
	done := map[int]bool{}
	for _, o := range ops {
		if o.Op == "Scribble" {
			done[o.Of] = true
		}
	}
	for i, o := range ops {
		if yielding[o.Op] && !done[i+1] {
			open = append(open, i+1)
		}
	}
	if len(open) > 0 && r.Intn(5) < 2 {
		return c28Op{"Scribble", open[r.Intn(len(open))]}
	}
	for {
		o := alphabet[r.Intn(len(alphabet))]
		if len(ops) > 0 || yielding[o] {
			return c28Op{o, 0}
		}
	}
}

var c28Yielding = map[string]bool{"Segments": true, "Join": true, "FromSegs": true, "RoutingKey": true, "JSON": true, "FromRK": true, "FromJSON": true}
var c28PathOps = []string{"Segments", "Segments", "String", "Reparse", "Join", "FromSegs", "Immutable"}
var c28NameOps = []string{"RoutingKey", "RoutingKey", "JSON", "FromRK", "FromJSON", "Peer", "Text"}

// c28RecordPathSession: a value session on the path parsed from toks (already known to be accepted)
func c28RecordPathSession(tb *c28Tab, r *mrand.Rand, toks []string) {
	s, o, d := tb.openPath(toks)
	vEmit(M{"ev": "VOpen", "t": toks, "p": o, "detail": d})
	if s == nil {
		return
	}
	var ops []c28Op
	for n := 3 + r.Intn(5); n > 0; n-- {
		op := c28NextCall(r, c28PathOps, c28Yielding, ops)
		ops = append(ops, op)
		res, d := s.call(len(ops), op)
		vals, ders, open, d2 := s.reobserve()
		if d == "" {
			d = d2
		}
		vEmit(M{"ev": "VCall", "op": op.Op, "of": op.Of, "r": res, "vals": c28Distinct(vals), "ders": c28Distinct(ders), "open": c28Distinct(open), "detail": d})
	}
}

func c28RecordNameSession(t *testing.T, r *mrand.Rand, pid peer.ID) {
	s := c28OpenName(t, pid)
	var ops []c28Op
	for n := 3 + r.Intn(4); n > 0; n-- {
		op := c28NextCall(r, c28NameOps, c28Yielding, ops)
		ops = append(ops, op)
		res, d := s.call(len(ops), op)
		vals, open, d2 := s.reobserve()
		if d == "" {
			d = d2
		}
		vEmit(M{"ev": "NCall", "op": op.Op, "of": op.Of, "r": res, "vals": c28Distinct(vals), "open": c28Distinct(open), "detail": d})
	}
}

// c28RecordNames: for every binary key class of the spec (VERIF_IN) log the concrete multihash used, its
// routing key, and the result of NameFromRoutingKey on every derived byte string.
func c28RecordNames(t *testing.T, tb *c28Tab, rng *mrand.Rand) {
	in := vIn()
	if len(in) == 0 {
		t.Fatalf("record mode needs the key classes of the spec in VERIF_IN")
	}
	for ki, raw := range in {
		var kc c28Key
		if err := json.Unmarshal(raw, &kc); err != nil {
			t.Fatal(err)
		}
		pid := tb.keyFor(kc)
		b := []byte(pid)
		n := NameFromPeer(pid)
		vEmit(M{"ev": "NameKey", "key": kc, "mh": c28Ints(b), "rk": c28Ints(n.RoutingKey())})
		for _, v := range c28RkVariants {
			d := c28RkInput(v, b)
			// the spec models one-byte varints only: never hand it anything else (broken check, not a finding)
			if rest := d[len(c28Prefix):]; bytes.HasPrefix(d, c28Prefix) && len(rest) >= 2 && (rest[0] >= 0x80 || rest[1] >= 0x80) {
				t.Fatalf("projection: variant %s of key %s needs multi-byte varints (%x)", v, kc.id(), d)
			}
			m, err := NameFromRoutingKey(append([]byte{}, d...))
			r := M{"ok": err == nil, "mh": []int{}}
			if err == nil {
				r["mh"] = c28Ints([]byte(m.Peer()))
			}
			vEmit(M{"ev": "NameRK", "v": v, "d": c28Ints(d), "r": r})
		}
		// a value session on the concrete name (quick: every fourth class, rotating with the seed)
		if !vQuick() || (ki+int(vSeed()))%4 == 0 {
			c28RecordNameSession(t, rng, pid)
		}
	}
}

func c28Record(t *testing.T) {
	tb := c28MkTab(t)
	r := mrand.New(mrand.NewSource(vSeed()))
	c28RecordNames(t, tb, r)
	all := []string{"e", "dot", "dd", "ipfs", "ipns", "ipld", "IPFS", "cidV0", "cidV1b32", "cidV1b36", "cidV1b58",
		"pidRsaB58", "pidEdB58", "pidCidB36", "a", "uni", "sp", "dots3", "badcid"}
	struct_ := []string{"e", "dot", "dd", "dd", "e", "a"}
	schemes := []string{"ipfs", "IPFS", "IpFs", "ipns", "IPNS", "ipld", "iPLD", "http", "ipfsx", "ipf"}
	N, maxSess, nsess := 1200, 50, 0
	if !vQuick() {
		N, maxSess = 12000, 700
	}
	for i := 0; i < N; i++ {
		var toks []string
		if r.Intn(4) > 0 { // plausible prefix so that many sequences are accepted
			toks = append(toks, "e")
			for r.Intn(3) == 0 {
				toks = append(toks, struct_[r.Intn(len(struct_))])
			}
			toks = append(toks, []string{"ipfs", "ipns", "ipld", "IPFS"}[r.Intn(4)])
			for r.Intn(4) == 0 {
				toks = append(toks, struct_[r.Intn(3)])
			}
			toks = append(toks, all[7+r.Intn(len(all)-7)])
		}
		for k := r.Intn(9); k > 0; k-- {
			if r.Intn(2) == 0 {
				toks = append(toks, struct_[r.Intn(len(struct_))])
			} else {
				toks = append(toks, all[r.Intn(len(all))])
			}
		}
		if len(toks) == 0 {
			toks = []string{"e"}
		}
		if r.Intn(5) == 0 {
			// URI event: the rest must not repeat the "/{ns}" prefix
			rest := toks
			if len(rest) >= 2 && rest[0] == "e" {
				rest = rest[2:]
			}
			if len(rest) == 0 {
				rest = []string{"e"}
			}
			sch, sep := schemes[r.Intn(len(schemes))], []string{"", "//"}[r.Intn(2)]
			s := sch + ":" + sep + tb.join(rest)
			p, err := path.NewPathFromURI(s)
			o, d := tb.observe(p, err)
			vEmit(M{"ev": "ParseURI", "sch": sch, "sep": sep, "t": rest, "p": o, "detail": d})
			continue
		}
		s := tb.join(toks)
		p, err := path.NewPath(s)
		o, d := tb.observe(p, err)
		vEmit(M{"ev": "Parse", "t": toks, "p": o, "sg": tb.toTokens(path.StringToSegments(s)), "detail": d})
		if err == nil && d == "" && nsess < maxSess && r.Intn(3) == 0 {
			nsess++
			c28RecordPathSession(tb, r, toks)
		}
	}
}
