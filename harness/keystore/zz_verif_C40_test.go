//go:build verif

package keystore

// C40 harness: the FSKeystore and the MemKeystore are driven in lock-step.
//   replay: TLC-generated mutator histories of spec/Keystore (GenKeystore) are applied to both; after
//           every step the full query battery (Has/Get per name, List, listing of the keystore
//           directory and of its parent incl. decoy files) is compared with the model map.
//   record: random histories are logged, one event per call, for TraceKeystore.
// Projection (trusted): model name <-> real name tables below; key id <-> generated key; file name
// inside the directory <-> model name by an independent RFC 4648 base32 encoder; "outside" =
// snapshot (name, kind, size, mode, mtime, atime) of everything around the keystore directory.

import (
	"bytes"
	"encoding/json"
	"errors"
	"fmt"
	"io/fs"
	"math/rand"
	"os"
	"path/filepath"
	"sort"
	"strings"
	"sync"
	"syscall"
	"testing"

	ci "github.com/libp2p/go-libp2p/core/crypto"
)

// ---- universe ---------------------------------------------------------------------------------

const c40DecoyID = 99

// c40BadID is the model's bad key: a ci.PrivKey whose serialisation fails (Raw() errors). Every Put of
// it must be refused (class "invalid" = any error but exists / not-found) and leave both keystores and the directory as they were. The
// MemKeystore keeps Go values and never serialises: not driven with it ("skip"), like over-long names.
const c40BadID = 7

var c40ErrBadKey = errors.New("c40: key cannot be serialised")

type c40BadKey struct{ ci.PrivKey }

func (c40BadKey) Raw() ([]byte, error) { return nil, c40ErrBadKey }

var c40Keys = map[int]ci.PrivKey{} // 1..3 real keys, 99 the decoy
var c40KeyBytes = map[int][]byte{}

var c40KeysOnce sync.Once

func c40InitKeys() { c40KeysOnce.Do(c40InitKeysOnce) }

func c40InitKeysOnce() {
	r := rand.New(rand.NewSource(4040))
	for _, id := range []int{1, 2, 3, c40DecoyID} {
		k, _, err := ci.GenerateEd25519Key(r)
		if err != nil {
			panic(err)
		}
		b, err := ci.MarshalPrivateKey(k)
		if err != nil {
			panic(err)
		}
		c40Keys[id], c40KeyBytes[id] = k, b
	}
	k, _, err := ci.GenerateEd25519Key(r)
	if err != nil {
		panic(err)
	}
	c40Keys[c40BadID] = c40BadKey{k}
}

func c40KeyID(k ci.PrivKey) int {
	if k == nil {
		return 0
	}
	b, err := ci.MarshalPrivateKey(k)
	if err != nil {
		return 97
	}
	for id, kb := range c40KeyBytes {
		if bytes.Equal(b, kb) {
			return id
		}
	}
	return 97
}

var (
	c40Max  = strings.Repeat("m", 156) // longest name whose encoded file name fits NAME_MAX (4+250 = 254)
	c40Long = strings.Repeat("x", 157) // 4 + 252 = 256 > 255
)

// tables for the exhaustive generator (model names n1, n2[, n3])
var c40Tables = [][]string{
	{"a", "A", "b"},
	{"../x", "a/b", ".."},
	{"a\x00b", "é世", "."},
	{"key_a", c40Max, "/abs"},
	{"a ", "a", "a/"},
	{"aaaa", "AAAA", "\xff\xfe"},
}

// table for simulated / recorded histories (model names n1..n12)
var c40Wide = []string{"a", "A", "../x", "a/b", "a\x00b", "é世", ".", "..", "key_a", c40Max, "/abs", "a "}

type c40Names struct {
	real  map[string]string // model -> real
	model map[string]string // real -> model
	order []string          // model names, queries run in this order
}

func c40MkNames(normal []string) *c40Names {
	n := &c40Names{real: map[string]string{}, model: map[string]string{}}
	for i, r := range normal {
		mn := fmt.Sprintf("n%d", i+1)
		n.real[mn], n.model[r] = r, mn
		n.order = append(n.order, mn)
	}
	n.real["nL"], n.model[c40Long] = c40Long, "nL"
	n.real["nE"] = ""
	n.order = append(n.order, "nL")
	return n
}

// independent statement of the documented on-disk name: "key_" + lower-case RFC 4648 base32 without padding
func c40FileName(name string) string {
	const alpha = "abcdefghijklmnopqrstuvwxyz234567"
	var sb strings.Builder
	sb.WriteString("key_")
	var acc uint
	bits := 0
	for i := 0; i < len(name); i++ {
		acc = acc<<8 | uint(name[i])
		bits += 8
		for bits >= 5 {
			sb.WriteByte(alpha[(acc>>(uint(bits)-5))&31])
			bits -= 5
		}
		acc &= (1 << uint(bits)) - 1
	}
	if bits > 0 {
		sb.WriteByte(alpha[(acc<<(5-uint(bits)))&31])
	}
	return sb.String()
}

// ---- system under test ----------------------------------------------------------------------------

type c40Sys struct {
	names  *c40Names
	parent string
	dir    string
	fsk    *FSKeystore
	mem    *MemKeystore
	snap   string // snapshot of the parent directory (without the content of dir)
}

func c40Snapshot(parent, skip string) string {
	var lines []string
	filepath.WalkDir(parent, func(p string, d fs.DirEntry, err error) error {
		if err != nil {
			lines = append(lines, "ERR "+p+" "+err.Error())
			return nil
		}
		if p == skip {
			lines = append(lines, "D "+p)
			return filepath.SkipDir
		}
		if d.IsDir() {
			lines = append(lines, "D "+p)
			return nil
		}
		fi, err := d.Info()
		if err != nil {
			lines = append(lines, "ERR "+p+" "+err.Error())
			return nil
		}
		atime := int64(0) // relatime: the first read of a freshly written decoy moves its atime
		if st, ok := fi.Sys().(*syscall.Stat_t); ok {
			atime = st.Atim.Nano()
		}
		lines = append(lines, fmt.Sprintf("F %s %d %v m%d a%d", p, fi.Size(), fi.Mode(), fi.ModTime().UnixNano(), atime))
		return nil
	})
	return strings.Join(lines, "\n")
}

func c40New(names *c40Names) *c40Sys {
	c40InitKeys()
	root, err := os.MkdirTemp("", "c40-")
	if err != nil {
		panic(err)
	}
	// root/p/ks is the keystore directory; root/p (the parent) and root hold decoys
	parent := filepath.Join(root, "p")
	if err := os.Mkdir(parent, 0o755); err != nil {
		panic(err)
	}
	dir := filepath.Join(parent, "ks")
	s := &c40Sys{names: names, parent: root, dir: dir, mem: NewMemKeystore()}
	decoy := c40KeyBytes[c40DecoyID]
	put := func(p string) {
		if strings.ContainsRune(p, 0) {
			return
		}
		rel, err := filepath.Rel(dir, p)
		if err != nil || !strings.HasPrefix(rel, "..") {
			return // would be inside the keystore directory
		}
		if fi, err := os.Lstat(p); err == nil && fi != nil {
			return
		}
		_ = os.WriteFile(p, decoy, 0o644)
	}
	for _, mn := range names.order {
		rn := names.real[mn]
		put(filepath.Join(dir, rn))                    // where the RAW name would land
		put(filepath.Join(parent, c40FileName(rn)))    // the encoded name, one level up
		put(filepath.Join(parent, rn))                 // the raw name, one level up
		put(filepath.Join(root, c40FileName(rn)))      // two levels up
		put(filepath.Join(parent, "ks"+c40FileName(rn))) // sibling with the directory name as prefix
	}
	fsk, err := NewFSKeystore(dir)
	if err != nil {
		panic(err)
	}
	s.fsk = fsk
	s.snap = c40Snapshot(root, dir)
	return s
}

func (s *c40Sys) close() { os.RemoveAll(s.parent) }

func c40Class(err error) string {
	switch {
	case err == nil:
		return "ok"
	case errors.Is(err, ErrKeyExists):
		return "exists"
	case errors.Is(err, ErrNoSuchKey), errors.Is(err, fs.ErrNotExist):
		return "nf"
	}
	return "invalid"
}

// dirFiles: model names of the files in the keystore directory ("?<file>" for anything else)
func (s *c40Sys) dirFiles() []string {
	es, err := os.ReadDir(s.dir)
	if err != nil {
		return []string{"?readdir:" + err.Error()}
	}
	byFile := map[string]string{}
	for mn, rn := range s.names.real {
		if mn != "nE" {
			byFile[c40FileName(rn)] = mn
		}
	}
	out := []string{}
	for _, e := range es {
		if mn, ok := byFile[e.Name()]; ok && e.Type().IsRegular() {
			out = append(out, mn)
		} else {
			out = append(out, "?"+e.Name())
		}
	}
	sort.Strings(out)
	return out
}

func (s *c40Sys) outside() string {
	if now := c40Snapshot(s.parent, s.dir); now != s.snap {
		return "changed: " + c40Diff(s.snap, now)
	}
	return "same"
}

func c40Diff(a, b string) string {
	am := map[string]bool{}
	for _, l := range strings.Split(a, "\n") {
		am[l] = true
	}
	var d []string
	for _, l := range strings.Split(b, "\n") {
		if !am[l] {
			d = append(d, "+"+l)
		}
		delete(am, l)
	}
	for l := range am {
		d = append(d, "-"+l)
	}
	sort.Strings(d)
	return fmt.Sprintf("%.300q", strings.Join(d, ";"))
}

func (s *c40Sys) modelNames(real []string) []string {
	out := []string{}
	for _, r := range real {
		if mn, ok := s.names.model[r]; ok {
			out = append(out, mn)
		} else {
			out = append(out, fmt.Sprintf("?%q", r))
		}
	}
	sort.Strings(out)
	return out
}

// one call on both keystores; returns the event (also used as the replay observation)
func (s *c40Sys) call(op, mn string, k int) M {
	ev := s.call0(op, mn, k)
	ev["dir"] = s.dirFiles()
	ev["outside"] = s.outside()
	return ev
}

func (s *c40Sys) call0(op, mn string, k int) M {
	rn := s.names.real[mn]
	skipMem := mn == "nL"
	ev := M{"ev": op, "n": mn, "k": k, "fs": "ok", "mem": "ok"}
	if skipMem {
		ev["mem"] = "skip"
	}
	switch op {
	case "Put":
		if k == c40BadID {
			skipMem = true
			ev["mem"] = "skip"
		}
		ev["fs"] = c40Class(s.fsk.Put(rn, c40Keys[k]))
		if !skipMem {
			ev["mem"] = c40Class(s.mem.Put(rn, c40Keys[k]))
		}
	case "Get":
		key, err := s.fsk.Get(rn)
		ev["fs"], ev["key"], ev["mkey"] = c40Class(err), 0, 0
		if err == nil {
			ev["key"] = c40KeyID(key)
		}
		if !skipMem {
			mk, err := s.mem.Get(rn)
			ev["mem"] = c40Class(err)
			if err == nil {
				ev["mkey"] = c40KeyID(mk)
			}
		}
	case "Has":
		b, err := s.fsk.Has(rn)
		if err != nil {
			ev["fs"] = "invalid"
		} else {
			ev["fs"] = fmt.Sprint(b)
		}
		if !skipMem {
			b, err := s.mem.Has(rn)
			if err != nil {
				ev["mem"] = "invalid"
			} else {
				ev["mem"] = fmt.Sprint(b)
			}
		}
	case "Delete":
		ev["fs"] = c40Class(s.fsk.Delete(rn))
		if !skipMem {
			ev["mem"] = c40Class(s.mem.Delete(rn))
		}
	case "List":
		l, err := s.fsk.List()
		ev["fs"], ev["list"] = c40Class(err), s.modelNames(l)
		ml, err := s.mem.List()
		ev["mem"], ev["mlist"] = c40Class(err), s.modelNames(ml)
	case "Reopen":
		fsk, err := NewFSKeystore(s.dir)
		ev["fs"] = c40Class(err)
		if err == nil {
			s.fsk = fsk
		}
	default:
		panic(op)
	}
	return ev
}

// battery compares every observable of both keystores with the model map; "" or a description
func (s *c40Sys) battery(m map[string]int) string {
	want := []string{}
	for mn, k := range m {
		if k != 0 {
			want = append(want, mn)
		}
	}
	sort.Strings(want)
	ws := strings.Join(want, ",")
	for _, mn := range s.names.order {
		k := m[mn]
		h := s.call0("Has", mn, 0)
		g := s.call0("Get", mn, 0)
		wantHas, wantGet := fmt.Sprint(k != 0), "ok"
		if k == 0 {
			wantGet = "nf"
		}
		wantMemHas, wantMemGet := wantHas, wantGet
		if mn == "nL" {
			wantHas, wantGet, wantMemHas, wantMemGet = "invalid", "invalid", "skip", "skip"
		}
		if h["fs"] != wantHas || h["mem"] != wantMemHas {
			return fmt.Sprintf("Has(%s): fs=%v mem=%v, map says %s", mn, h["fs"], h["mem"], wantHas)
		}
		if g["fs"] != wantGet || g["mem"] != wantMemGet {
			return fmt.Sprintf("Get(%s): fs=%v mem=%v, map says %s", mn, g["fs"], g["mem"], wantGet)
		}
		if wantGet == "ok" && (g["key"] != k || g["mkey"] != k) {
			return fmt.Sprintf("Get(%s): returned key fs=%v mem=%v, map says %d", mn, g["key"], g["mkey"], k)
		}
	}
	l := s.call("List", "", 0)
	if l["fs"] != "ok" || l["mem"] != "ok" {
		return fmt.Sprintf("List: fs=%v mem=%v", l["fs"], l["mem"])
	}
	if got := strings.Join(l["list"].([]string), ","); got != ws {
		return fmt.Sprintf("FSKeystore.List=[%s], map says [%s]", got, ws)
	}
	if got := strings.Join(l["mlist"].([]string), ","); got != ws {
		return fmt.Sprintf("MemKeystore.List=[%s], map says [%s]", got, ws)
	}
	if got := strings.Join(l["dir"].([]string), ","); got != ws {
		return fmt.Sprintf("files in the keystore directory=[%s], map says [%s]", got, ws)
	}
	if l["outside"] != "same" {
		return fmt.Sprintf("outside of the keystore directory %v", l["outside"])
	}
	return ""
}

// ---- replay ------------------------------------------------------------------------------------------

type c40Step struct {
	Op     string         `json:"op"`
	N      string         `json:"n"`
	K      int            `json:"k"`
	Fs     string         `json:"fs"`
	FsOk   []string       `json:"fsok"`
	Mem    string         `json:"mem"`
	MemDev string         `json:"memdev"`
	M      map[string]int `json:"m"`
}
type c40Beh struct {
	Steps []c40Step `json:"steps"`
}

const c40DevMemDelete = "Dev_C40_MemDeleteMissingOk"

// returns ok, step, what, dev
func c40ReplayOne(b *c40Beh, names *c40Names) (bool, int, string, string) {
	s := c40New(names)
	defer s.close()
	init := map[string]int{}
	if d := s.battery(init); d != "" {
		return false, 0, "initial: " + d, ""
	}
	devStep, devWhat := 0, ""
	for i, st := range b.Steps {
		ev := s.call(st.Op, st.N, st.K)
		desc := fmt.Sprintf("%s(%q)", st.Op, names.real[st.N])
		fsOK := ev["fs"] == st.Fs
		for _, c := range st.FsOk {
			fsOK = fsOK || ev["fs"] == c
		}
		if !fsOK {
			return false, i + 1, fmt.Sprintf("%s: FSKeystore answered %v, spec %s", desc, ev["fs"], st.Fs), ""
		}
		if ev["mem"] != st.Mem {
			if st.MemDev != "" && ev["mem"] == st.MemDev {
				if devStep == 0 {
					devStep, devWhat = i+1, fmt.Sprintf("%s on a missing key: MemKeystore answered %v, FSKeystore %v, spec %s", desc, ev["mem"], ev["fs"], st.Mem)
				}
			} else {
				return false, i + 1, fmt.Sprintf("%s: MemKeystore answered %v, spec %s", desc, ev["mem"], st.Mem), ""
			}
		}
		if ev["outside"] != "same" {
			return false, i + 1, fmt.Sprintf("%s: outside of the keystore directory %v", desc, ev["outside"]), ""
		}
		if d := s.battery(st.M); d != "" {
			return false, i + 1, "after " + desc + ": " + d, ""
		}
	}
	if devStep != 0 {
		return false, devStep, devWhat, c40DevMemDelete
	}
	return true, 0, "", ""
}

func c40Replay(t *testing.T) {
	wide := vEnvInt("C40_WIDE", 0) == 1
	var tables []*c40Names
	if wide {
		tables = []*c40Names{c40MkNames(c40Wide)}
	} else {
		nn := vEnvInt("C40_NORMAL", 2)
		for _, tb := range c40Tables {
			tables = append(tables, c40MkNames(tb[:nn]))
		}
	}
	per := vEnvInt("C40_TABLES", len(tables)) // tables per behaviour (rotating); all in the thorough tier
	in := vIn()
	results := make([]M, len(in))
	var wg sync.WaitGroup
	jobs := make(chan int)
	for w := 0; w < 8; w++ {
		wg.Add(1)
		go func() {
			defer wg.Done()
			for i := range jobs {
				var b c40Beh
				if err := json.Unmarshal(in[i], &b); err != nil {
					results[i] = M{"i": i, "ok": false, "step": 0, "what": "unparsable behaviour: " + err.Error()}
					continue
				}
				res := M{"i": i, "ok": true}
				var devRes M
				for x := 0; x < per && x < len(tables); x++ {
					ti := (i + x) % len(tables)
					ok, step, what, dev := c40ReplayOne(&b, tables[ti])
					if ok {
						continue
					}
					r := M{"i": i, "ok": false, "step": step, "what": fmt.Sprintf("[name table %d] %s", ti, what)}
					if dev != "" {
						r["dev"] = dev
						if devRes == nil {
							devRes = r
						}
						continue
					}
					res = r
					break
				}
				if res["ok"] == true && devRes != nil {
					res = devRes
				}
				results[i] = res
			}
		}()
	}
	for i := range in {
		jobs <- i
	}
	close(jobs)
	wg.Wait()
	// the runner writes one replay file per disagreement: report the first 25 genuine ones, count the rest
	nbad, suppressed := 0, 0
	for _, r := range results {
		if r["ok"] == false && r["dev"] == nil {
			if nbad++; nbad > 25 {
				suppressed++
				r = M{"i": r["i"], "ok": true, "suppressed": true}
			}
		}
		vEmit(r)
	}
	vEmit(M{"summary": true, "n": len(results), "suppressed": suppressed})
}

// ---- record ------------------------------------------------------------------------------------------

func c40Record(t *testing.T) {
	rng := vRand()
	runs, steps := 6, 250
	if !vQuick() {
		runs, steps = 30, 500
	}
	names := c40MkNames(c40Wide)
	all := append(append([]string{}, names.order...), "nE")
	for r := 0; r < runs; r++ {
		s := c40New(names)
		vEmit(M{"ev": "Reset"})
		// a few hot names per run so that exists / overwrite / delete-missing paths are all frequent
		hot := []string{all[rng.Intn(len(all))], all[rng.Intn(len(all))], all[rng.Intn(len(all))]}
		pick := func(allowEmpty bool) string {
			for {
				var mn string
				if rng.Intn(3) > 0 {
					mn = hot[rng.Intn(len(hot))]
				} else {
					mn = all[rng.Intn(len(all))]
				}
				if mn != "nE" || allowEmpty {
					return mn
				}
			}
		}
		for i := 0; i < steps; i++ {
			var ev M
			switch x := rng.Intn(20); {
			case x < 7:
				k := 1 + rng.Intn(3)
				if rng.Intn(5) == 0 {
					k = c40BadID
				}
				ev = s.call("Put", pick(true), k)
			case x < 10:
				ev = s.call("Get", pick(false), 0)
			case x < 12:
				ev = s.call("Has", pick(false), 0)
			case x < 17:
				ev = s.call("Delete", pick(false), 0)
			case x < 19:
				ev = s.call("List", "", 0)
			default:
				ev = s.call("Reopen", "", 0)
			}
			vEmit(ev)
		}
		s.close()
	}
}

func TestVerifC40(t *testing.T) {
	defer vFlush()
	switch vMode() {
	case "replay":
		c40Replay(t)
	case "record":
		c40Record(t)
	default:
		t.Skip("no VERIF_MODE")
	}
}
