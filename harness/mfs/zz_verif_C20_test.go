//go:build verif

package mfs

// C20 harness (spec/MFSLocks).  The mfs sources are compiled from a mechanically rewritten copy
// (checks/C20.py) in which every Lock/RLock/Unlock/RUnlock call and every access of File.node
// calls c20Hook.  The hook (a) records the event with the calling goroutine's thread number and
// the lock's identity, and (b) in gated mode blocks the goroutine before the call until the
// scheduler releases it, so that a TLC-generated schedule is executed step by step.
//
// Projection (trusted): lock pointer -> <<class, id>> (registered at setup; an unregistered
// *sync.Mutex is the mutex of the calling thread's own descriptor), goroutine id -> thread number,
// file bytes -> set of ints ("tokens").

import (
	"context"
	"encoding/json"
	"fmt"
	"io"
	"math/rand"
	"os"
	"runtime"
	"sort"
	"strconv"
	"strings"
	"sync"
	"sync/atomic"
	"testing"
	"time"

	bserv "github.com/ipfs/boxo/blockservice"
	bstore "github.com/ipfs/boxo/blockstore"
	offline "github.com/ipfs/boxo/exchange/offline"
	dag "github.com/ipfs/boxo/ipld/merkledag"
	ft "github.com/ipfs/boxo/ipld/unixfs"
	uio "github.com/ipfs/boxo/ipld/unixfs/io"
	ds "github.com/ipfs/go-datastore"
	dssync "github.com/ipfs/go-datastore/sync"
	ipld "github.com/ipfs/go-ipld-format"
)

type c20Thread struct {
	idx  int
	sess [][2]string
	fd   FileDescriptor
	gate chan struct{}
	rnd  *rand.Rand
	wtok int
	nnew int
	// position, guarded by run.mu
	opi   int    // 1-based index of the current operation
	arr   int    // number of hook arrivals in the current operation (= pc of the instruction)
	state string // "start" "gate" "in" "done"
	acq   bool   // post hook of the current L/R instruction seen
	cur   [3]string
	site  string
}

type c20Run struct {
	mu     sync.Mutex
	gated  bool
	openCh chan struct{} // closed: all gates open
	ctx    context.Context
	dserv  ipld.DAGService
	rt     *Root
	root   *Directory
	sub    *Directory // "/d": holds f3 (child->parent propagation through two directory levels)
	files  map[string]*File
	locks  map[any][2]string
	objs   map[[2]string]any
	fname  map[*File]string
	thr    sync.Map // goroutine id -> *c20Thread
	ths    []*c20Thread
	events []M
	yield  bool
}

var c20Cur atomic.Pointer[c20Run]

func c20Goid() uint64 {
	var b [64]byte
	n := runtime.Stack(b[:], false)
	f := strings.Fields(string(b[:n]))
	id, _ := strconv.ParseUint(f[1], 10, 64)
	return id
}

func c20Toks(ctx context.Context, dserv ipld.DAGService, nd ipld.Node) []int {
	if nd == nil {
		return []int{-1}
	}
	r, err := uio.NewDagReader(ctx, nd, dserv)
	if err != nil {
		return []int{-2}
	}
	b, err := io.ReadAll(r)
	if err != nil {
		return []int{-3}
	}
	return c20Set(b)
}

func c20Set(b []byte) []int {
	seen := map[int]bool{}
	out := []int{}
	for _, x := range b {
		if !seen[int(x)] {
			seen[int(x)] = true
			out = append(out, int(x))
		}
	}
	sort.Ints(out)
	return out
}

func c20NewRun(gated, yield bool) *c20Run {
	ctx := context.Background()
	bs := bstore.NewBlockstore(dssync.MutexWrap(ds.NewMapDatastore()))
	dserv := dag.NewDAGService(bserv.New(bs, offline.Exchange(bs)))
	rt, err := NewEmptyRoot(ctx, dserv, nil, nil)
	if err != nil {
		panic(err)
	}
	r := &c20Run{gated: gated, yield: yield, openCh: make(chan struct{}), ctx: ctx, dserv: dserv, rt: rt,
		root: rt.GetDirectory(), files: map[string]*File{}, locks: map[any][2]string{},
		objs: map[[2]string]any{}, fname: map[*File]string{}}
	if _, err := r.root.Mkdir("d"); err != nil {
		panic(err)
	}
	sub, err := r.root.Child("d")
	if err != nil {
		panic(err)
	}
	r.sub = sub.(*Directory)
	for _, n := range c20Files {
		dir := r.root
		if n == "f3" { // the file inside the sub-directory
			dir = r.sub
		}
		if err := dir.AddChild(n, dag.NodeWithData(ft.FilePBData(nil, 0))); err != nil {
			panic(err)
		}
		c, err := dir.Child(n)
		if err != nil {
			panic(err)
		}
		f := c.(*File)
		r.files[n], r.fname[f] = f, n
		r.reg(&f.desclock, "desc", n)
		r.reg(&f.nodeLock, "node", n)
	}
	r.reg(&r.root.lock, "dir", "root")
	r.reg(&r.sub.lock, "dir", "sub")
	return r
}

var c20Files = []string{"f1", "f2", "f3"}

func (r *c20Run) reg(p any, c, id string) {
	r.locks[p] = [2]string{c, id}
	r.objs[[2]string{c, id}] = p
}

// lockName is the projection of a hooked object.  Must be called with r.mu held.
func (r *c20Run) lockName(obj any, th *c20Thread, site string) [2]string {
	if f, ok := obj.(*File); ok {
		if n, ok := r.fname[f]; ok {
			return [2]string{"val", n}
		}
		return [2]string{"val", "?"}
	}
	if n, ok := r.locks[obj]; ok {
		return n
	}
	if _, ok := obj.(*sync.Mutex); ok {
		// an unregistered mutex locked in fd.go is the mutex of the calling thread's own descriptor (descriptors
		// are never shared between threads); one locked in dir.go is the lock of a Directory object the thread
		// has just created itself (Mkdir of a new name)
		n := [2]string{"mu", "t" + strconv.Itoa(th.idx)}
		if strings.Contains(site, ":dir.go:") {
			n = [2]string{"dir", "n" + strconv.Itoa(th.idx)}
		} else if !strings.Contains(site, ":fd.go:") {
			return [2]string{"?", fmt.Sprintf("%p", obj)}
		}
		r.locks[obj], r.objs[n] = n, obj
		return n
	}
	return [2]string{"?", fmt.Sprintf("%p", obj)}
}

func c20HookFn(phase, kind string, obj any, site string, val ipld.Node) {
	r := c20Cur.Load()
	if r == nil {
		return
	}
	v, ok := r.thr.Load(c20Goid())
	if !ok {
		return
	}
	th := v.(*c20Thread)
	fn := site
	if i := strings.IndexByte(site, ':'); i > 0 {
		fn = site[:i]
	}
	if phase == "pre" {
		r.mu.Lock()
		n := r.lockName(obj, th, site)
		th.arr++
		th.state, th.acq, th.cur, th.site = "gate", false, [3]string{kind, n[0], n[1]}, site
		if !r.gated {
			r.events = append(r.events, M{"ev": "pre", "t": th.idx, "k": kind, "c": n[0], "id": n[1], "fn": fn})
			th.state = "in"
		}
		r.mu.Unlock()
		if r.gated {
			select {
			case <-th.gate:
			case <-r.openCh:
			}
			r.mu.Lock()
			th.state = "in"
			r.mu.Unlock()
		} else if r.yield {
			switch th.rnd.Intn(8) {
			case 0, 1, 2:
				runtime.Gosched()
			case 3:
				time.Sleep(time.Duration(20+th.rnd.Intn(80)) * time.Microsecond)
			}
		}
		return
	}
	// post
	var toks []int
	if kind == "rd" || kind == "wr" {
		toks = c20Toks(r.ctx, r.dserv, val)
	}
	r.mu.Lock()
	th.acq = true
	if !r.gated {
		e := M{"ev": "post", "t": th.idx, "k": kind, "c": th.cur[1], "id": th.cur[2], "fn": fn}
		if toks != nil {
			e["toks"] = toks
		}
		r.events = append(r.events, e)
	}
	r.mu.Unlock()
}

// exec runs one MFS operation of a session; returns error text and (for Read) the tokens read.
func (r *c20Run) exec(th *c20Thread, op, fn string) (string, []int) {
	f := r.files[fn]
	es := func(err error) string {
		if err != nil {
			return err.Error()
		}
		return ""
	}
	open := func(fl Flags) string {
		fd, err := f.Open(r.ctx, fl)
		th.fd = fd
		return es(err)
	}
	switch op {
	case "OpenW":
		return open(Flags{Write: true, Sync: true}), nil
	case "OpenWn":
		return open(Flags{Write: true}), nil
	case "OpenR":
		return open(Flags{Read: true}), nil
	case "Write":
		if _, err := th.fd.Seek(0, io.SeekEnd); err != nil {
			return err.Error(), nil
		}
		th.wtok++
		_, err := th.fd.Write([]byte{byte(th.idx*10 + th.wtok)})
		return es(err), nil
	case "WriteAt": // the positional write API: same token, at the end of the descriptor's view
		sz, err := th.fd.Size()
		if err != nil {
			return err.Error(), nil
		}
		th.wtok++
		_, err = th.fd.WriteAt([]byte{byte(th.idx*10 + th.wtok)}, sz)
		return es(err), nil
	case "Trunc": // Truncate as a modifying call: one more (zero) byte = token 0
		sz, err := th.fd.Size()
		if err != nil {
			return err.Error(), nil
		}
		return es(th.fd.Truncate(sz + 1)), nil
	case "Read":
		b := make([]byte, 64)
		n, err := th.fd.CtxReadFull(r.ctx, b)
		if err == io.EOF || err == io.ErrUnexpectedEOF {
			err = nil
		}
		return es(err), c20Set(b[:n])
	case "ReadP": // the io.Reader method (single-chunk file: one call returns everything)
		b := make([]byte, 64)
		n, err := th.fd.Read(b)
		if err == io.EOF || err == io.ErrUnexpectedEOF {
			err = nil
		}
		return es(err), c20Set(b[:n])
	case "FdFlush":
		return es(th.fd.Flush()), nil
	case "Close":
		err := th.fd.Close()
		th.fd = nil
		return es(err), nil
	case "FileFlush":
		return es(f.Flush()), nil
	case "FileSync":
		return es(f.Sync()), nil
	case "Size":
		_, err := f.Size()
		return es(err), nil
	case "GetNode":
		_, err := f.GetNode()
		return es(err), nil
	case "Mode":
		_, err := f.Mode()
		return es(err), nil
	case "ModTime":
		_, err := f.ModTime()
		return es(err), nil
	case "SetMode":
		return es(f.SetMode(os.FileMode(0o600 + th.idx))), nil
	case "SetModTime":
		return es(f.SetModTime(time.Unix(int64(1000+th.idx), 0))), nil
	case "List":
		return es(r.root.ForEachEntry(r.ctx, func(NodeListing) error { return nil })), nil
	case "ListNames":
		_, err := r.root.ListNames(r.ctx)
		return es(err), nil
	case "Lookup":
		_, err := r.root.Child(fn)
		return es(err), nil
	case "Mkdir": // the directory exists: same critical section, no change of the listing
		_, err := r.root.Mkdir("d")
		if err == os.ErrExist {
			err = nil
		}
		return es(err), nil
	case "Unlink": // a missing name: same critical section
		err := r.root.Unlink("zz")
		if err == os.ErrNotExist {
			err = nil
		}
		return es(err), nil
	case "Uncache0":
		r.root.Uncache("zz")
		return "", nil
	case "DirGetNode":
		_, err := r.root.GetNode()
		return es(err), nil
	case "DirFlush":
		return es(r.root.Flush()), nil
	case "Mv":
		return es(Mv(r.rt, "/"+fn, "/f9")), nil
	case "MvSub":
		return es(Mv(r.rt, "/d", "/e")), nil
	case "RootFlush":
		return es(r.rt.Flush()), nil
	case "RootClose":
		return es(r.rt.Close()), nil
	case "FlushMemFree":
		return es(r.rt.FlushMemFree(r.ctx)), nil
	case "PutNodeSub":
		th.nnew++
		return es(PutNode(r.rt, fmt.Sprintf("/d/p%d_%d", th.idx, th.nnew), dag.NodeWithData(ft.FilePBData(nil, 0)))), nil
	case "MkdirOps":
		th.nnew++
		return es(Mkdir(r.rt, fmt.Sprintf("/d/k%d_%d", th.idx, th.nnew), MkdirOpts{Flush: true})), nil
	case "RootSetMode":
		return es(r.root.SetMode(os.FileMode(0o700 + th.idx))), nil
	case "AddChild", "SubAddChild": // a new name: state-changing (program level only)
		th.nnew++
		dir := r.root
		if op == "SubAddChild" {
			dir = r.sub
		}
		return es(dir.AddChild(fmt.Sprintf("a%d_%d", th.idx, th.nnew), dag.NodeWithData(ft.FilePBData(nil, 0)))), nil
	case "MkdirNew":
		th.nnew++
		_, err := r.root.Mkdir(fmt.Sprintf("m%d_%d", th.idx, th.nnew))
		return es(err), nil
	// ---- the sub-directory d (its parent is the root directory)
	case "SubSetMode":
		return es(r.sub.SetMode(os.FileMode(0o700 + th.idx))), nil
	case "SubSetModTime":
		return es(r.sub.SetModTime(time.Unix(int64(2000+th.idx), 0))), nil
	case "ChmodSub":
		return es(Chmod(r.rt, "/d", os.FileMode(0o710+th.idx))), nil
	case "TouchSub":
		return es(Touch(r.rt, "/d", time.Unix(int64(3000+th.idx), 0))), nil
	case "SubMode":
		_, err := r.sub.Mode()
		return es(err), nil
	case "SubModTime":
		_, err := r.sub.ModTime()
		return es(err), nil
	case "SubGetNode":
		_, err := r.sub.GetNode()
		return es(err), nil
	case "SubFlush":
		return es(r.sub.Flush()), nil
	case "SubList":
		_, err := r.sub.List(r.ctx)
		return es(err), nil
	case "SubListNames":
		_, err := r.sub.ListNames(r.ctx)
		return es(err), nil
	case "SubLookup":
		_, err := r.sub.Child("f3")
		return es(err), nil
	case "SubUnlink": // a missing name: same critical section
		err := r.sub.Unlink("zz")
		if err == os.ErrNotExist {
			err = nil
		}
		return es(err), nil
	}
	return "unknown op " + op, nil
}

// start launches one goroutine per session; returns a channel closed when all have finished.
func (r *c20Run) start(scen [][][2]string, seed int64) chan struct{} {
	var wg sync.WaitGroup
	reg := make(chan struct{})
	for i, s := range scen {
		th := &c20Thread{idx: i + 1, sess: s, gate: make(chan struct{}, 1), state: "start", opi: 1,
			rnd: rand.New(rand.NewSource(seed*7919 + int64(i)))}
		r.ths = append(r.ths, th)
		wg.Add(1)
		go func() {
			defer wg.Done()
			r.thr.Store(c20Goid(), th)
			<-reg
			for j, o := range th.sess {
				r.mu.Lock()
				th.opi, th.arr = j+1, 0
				if !r.gated {
					r.events = append(r.events, M{"ev": "op", "t": th.idx, "op": o[0], "f": o[1]})
				}
				r.mu.Unlock()
				es, toks := r.exec(th, o[0], o[1])
				r.mu.Lock()
				e := M{"ev": "ret", "t": th.idx, "op": o[0], "f": o[1], "err": es}
				if toks != nil {
					e["toks"] = toks
				}
				r.events = append(r.events, e)
				r.mu.Unlock()
			}
			r.mu.Lock()
			th.opi, th.arr, th.state = len(th.sess)+1, 0, "done"
			r.mu.Unlock()
		}()
	}
	// every goroutine must be registered before any of them runs an operation
	for {
		n := 0
		r.thr.Range(func(_, _ any) bool { n++; return true })
		if n == len(scen) {
			break
		}
		time.Sleep(50 * time.Microsecond)
	}
	close(reg)
	done := make(chan struct{})
	go func() { wg.Wait(); close(done) }()
	return done
}

// finalState reads the files back: File.node of the live objects, and a fresh Root built from the
// flushed root node (what a restart / a reader of the published root sees).
func (r *c20Run) finalState() M {
	res := M{}
	for _, n := range c20Files {
		res[n] = c20Toks(r.ctx, r.dserv, r.files[n].node)
	}
	rn, err := r.root.GetNode()
	if err != nil {
		res["rooterr"] = err.Error()
		return res
	}
	rt2, err := NewRoot(r.ctx, r.dserv, rn.(*dag.ProtoNode), nil, nil)
	if err != nil {
		res["rooterr"] = err.Error()
		return res
	}
	for _, n := range c20Files {
		key := "root_" + n
		pth, alt := "/"+n, "/f9" // the Mv run moved f2 to f9
		if n == "f3" {
			pth, alt = "/d/f3", "/e/f3" // the MvSub run moved d to e
		}
		fsn, err := Lookup(rt2, pth)
		if err != nil {
			fsn, err = Lookup(rt2, alt)
		}
		if err != nil {
			res[key] = []int{-4}
			continue
		}
		nd, _ := fsn.GetNode()
		res[key] = c20Toks(r.ctx, r.dserv, nd)
	}
	return res
}

func (r *c20Run) blockedInfo() []M {
	r.mu.Lock()
	defer r.mu.Unlock()
	var out []M
	for _, th := range r.ths {
		if th.state != "done" {
			op := [2]string{"?", "?"}
			if th.opi >= 1 && th.opi <= len(th.sess) {
				op = th.sess[th.opi-1]
			}
			out = append(out, M{"t": th.idx, "op": op[0], "f": op[1], "pc": th.arr, "k": th.cur[0], "c": th.cur[1],
				"id": th.cur[2], "acq": th.acq, "state": th.state, "site": th.site})
		}
	}
	return out
}


// ---------------------------------------------------------------------------------------------
// sessions (same catalogue as spec/MFSLocks/MCMFSLocks.tla)

func c20Sess(name, f string) [][2]string {
	switch name {
	case "W":
		return [][2]string{{"OpenW", f}, {"Write", f}, {"FdFlush", f}, {"Write", f}, {"Close", f}}
	case "W2": // every descriptor state of Flush/Close
		return [][2]string{{"OpenW", f}, {"FdFlush", f}, {"FdFlush", f}, {"Write", f}, {"FdFlush", f}, {"Close", f}}
	case "W0":
		return [][2]string{{"OpenW", f}, {"Close", f}}
	case "Wn":
		return [][2]string{{"OpenWn", f}, {"Write", f}, {"Close", f}}
	case "Wn0":
		return [][2]string{{"OpenWn", f}, {"Close", f}}
	case "Wnf":
		return [][2]string{{"OpenWn", f}, {"FdFlush", f}, {"Write", f}, {"Close", f}, {"OpenWn", f}, {"FdFlush", f}, {"Close", f}}
	case "R":
		return [][2]string{{"OpenR", f}, {"Read", f}, {"Close", f}}
	case "Rp":
		return [][2]string{{"OpenR", f}, {"ReadP", f}, {"Close", f}}
	case "Wa": // the other write APIs, each one in the descriptor state "flushed"
		return [][2]string{{"OpenW", f}, {"WriteAt", f}, {"FdFlush", f}, {"Trunc", f}, {"FdFlush", f}, {"WriteAt", f}, {"Close", f}}
	}
	return [][2]string{{name, f}}
}

var c20Singles = []string{"FileFlush", "FileSync", "Size", "GetNode", "Mode", "ModTime", "SetMode", "SetModTime"}
var c20DirOps = []string{"List", "ListNames", "Lookup", "Mkdir", "Unlink", "DirGetNode"}

// operations of the sub-directory d that do not change any other operation's program
var c20SubOps = []string{"SubSetMode", "SubSetModTime", "ChmodSub", "TouchSub", "SubMode", "SubModTime", "SubGetNode",
	"SubList", "SubListNames", "SubLookup", "SubUnlink"}

// state-changing directory operations: recorded alone, model-checked at program level only
var c20ProgOnly = []string{"DirFlush", "Uncache0", "RootFlush", "RootClose", "FlushMemFree", "AddChild", "SubAddChild",
	"PutNodeSub", "MkdirNew", "MkdirOps", "SubFlush", "MvSub"}

// c20FdSessions = spec FdAll(f): Open (sync | not sync), every sequence of at most depth calls out of
// Write / WriteAt / Trunc / FdFlush, Close.
func c20FdSessions(f string, depth int) [][][2]string {
	calls := []string{"Write", "WriteAt", "Trunc", "FdFlush"}
	bodies := [][]string{{}}
	last := bodies
	for k := 0; k < depth; k++ {
		var next [][]string
		for _, b := range last {
			for _, c := range calls {
				next = append(next, append(append([]string{}, b...), c))
			}
		}
		bodies = append(bodies, next...)
		last = next
	}
	var out [][][2]string
	for _, o := range []string{"OpenW", "OpenWn"} {
		for _, b := range bodies {
			s := [][2]string{{o, f}}
			for _, c := range b {
				s = append(s, [2]string{c, f})
			}
			out = append(out, append(s, [2]string{"Close", f}))
		}
	}
	return out
}

func c20ScenJSON(scen [][][2]string) [][][]string {
	out := make([][][]string, len(scen))
	for i, s := range scen {
		out[i] = [][]string{}
		for _, o := range s {
			out[i] = append(out[i], []string{o[0], o[1]})
		}
	}
	return out
}

// recordRun executes a scenario free-running with the hooks recording; returns false on a hang.
func c20RecordRun(scen [][][2]string, seed int64, yield bool, watchdog time.Duration) bool {
	return c20RecordRunOnce(scen, seed, yield, watchdog, nil)
}

// With seen != nil a run whose sequence of lock/access events was already recorded is not emitted again
// (used for the operations whose program depends on Go's map iteration order: run them often, keep one
// recording per order).
func c20RecordRunOnce(scen [][][2]string, seed int64, yield bool, watchdog time.Duration, seen map[string]bool) bool {
	r := c20NewRun(false, yield)
	c20Cur.Store(r)
	defer c20Cur.Store(nil)
	done := r.start(scen, seed)
	hung := false
	select {
	case <-done:
	case <-time.After(watchdog):
		hung = true
	}
	r.mu.Lock()
	evs := r.events
	r.events = nil
	r.mu.Unlock()
	if seen != nil && !hung {
		var sig strings.Builder
		for _, e := range evs {
			if e["ev"] == "pre" {
				fmt.Fprintf(&sig, "%v %v %v;", e["k"], e["c"], e["id"])
			}
		}
		if seen[sig.String()] {
			return true
		}
		seen[sig.String()] = true
	}
	vEmit(M{"ev": "Reset", "scen": c20ScenJSON(scen)})
	for _, e := range evs {
		vEmit(e)
	}
	if hung {
		vEmit(M{"ev": "hang", "blocked": r.blockedInfo()})
		return false
	}
	fs := r.finalState()
	fs["ev"] = "final"
	vEmit(fs)
	return true
}

func c20Record(t *testing.T) {
	what := vEnv("C20_RECORD")
	rnd := vRand()
	if what == "single" {
		// every operation (and every descriptor state of Flush/Close) alone on a fresh root
		var list [][][2]string
		for _, f := range c20Files {
			for _, n := range []string{"W", "W2", "W0", "Wn", "Wn0", "Wnf", "R", "Rp", "Wa"} {
				list = append(list, c20Sess(n, f))
			}
			for _, n := range c20Singles {
				list = append(list, c20Sess(n, f))
			}
		}
		for _, n := range append(append(append([]string{}, c20DirOps...), c20SubOps...), c20ProgOnly...) {
			list = append(list, c20Sess(n, "f1"))
		}
		// every descriptor state sequence of the write APIs
		list = append(list, c20FdSessions("f1", vEnvInt("C20_FDDEPTH", 2))...)
		// cacheSync walks a Go map: collect the orders it really takes (the rarest one has probability 1/8 with
		// 3 entries in one map group: 150 runs miss it with probability 2e-9; one recording per order is kept)
		for _, n := range []string{"DirGetNode", "RootSetMode"} {
			seen := map[string]bool{}
			for i := 0; i < 150; i++ {
				if !c20RecordRunOnce([][][2]string{c20Sess(n, "f1")}, 1, false, 5*time.Second, seen) {
					return
				}
			}
		}
		list = append(list, c20Sess("Mv", "f2"))
		// sequential composition in one goroutine: a writer session followed by attribute updates
		list = append(list, append(append(c20Sess("W", "f1"), c20Sess("SetMode", "f1")...), c20Sess("R", "f1")...))
		for _, s := range list {
			if !c20RecordRun([][][2]string{s}, 1, false, 5*time.Second) {
				return
			}
		}
		return
	}
	// free-running multi-goroutine runs
	n := vEnvInt("C20_RUNS", 30)
	pick := func() [][2]string {
		f := "f1"
		switch rnd.Intn(6) {
		case 0:
			f = "f2"
		case 1, 2:
			f = "f3" // inside the sub-directory: updates propagate through d to the root
		}
		switch k := rnd.Intn(10); {
		case k < 3:
			return c20Sess([]string{"W", "Wn", "R", "Wa", "Rp"}[rnd.Intn(5)], f)
		case k < 7:
			return c20Sess(c20Singles[rnd.Intn(len(c20Singles))], f)
		case k < 8:
			return c20Sess(c20SubOps[rnd.Intn(len(c20SubOps))], "f1")
		default:
			return c20Sess(c20DirOps[rnd.Intn(len(c20DirOps))], "f1")
		}
	}
	for i := 0; i < n; i++ {
		nt := 2 + rnd.Intn(3)
		var scen [][][2]string
		for j := 0; j < nt; j++ {
			s := pick()
			if rnd.Intn(3) == 0 { // two sessions in a row
				s = append(append([][2]string{}, s...), pick()...)
			}
			scen = append(scen, s)
		}
		c20RecordRun(scen, vSeed()*100003+int64(i), true, time.Duration(vEnvInt("C20_WATCHDOG_MS", 2000))*time.Millisecond)
	}
}

// ---------------------------------------------------------------------------------------------
// gated replay of a TLC-generated schedule

type c20Step struct {
	T    int                 `json:"t"`
	Ins  []string            `json:"ins"` // the model's instruction of this step: kind, class, id
	Pos  [][]json.RawMessage `json:"pos"`
	Wown [][]string          `json:"wown"`
	Node map[string][]int    `json:"node"`
	Rb   [][]int             `json:"rb"`
}
type c20Beh struct {
	Kind  string       `json:"kind"`
	Dev   string       `json:"dev"`
	Scen  [][][]string `json:"scen"`
	Steps []c20Step    `json:"steps"`
	Acked map[string][]int `json:"acked"`
	// operations of the scenario whose program depends on Go's map iteration order (Directory.cacheSync), and how
	// often the schedule may be replayed until the real visit order is the one the model chose
	OrderOps []string `json:"order_ops"`
	Tries    int      `json:"tries"`
}

// c20ReplayOrders replays b; when the replay ends because a thread inside a map-order dependent operation arrives
// at another instruction than the model's program has there (cacheSync visited the children in another order),
// the schedule says nothing yet: it is replayed again on a fresh root, up to b.Tries times.  The visit orders met
// are reported.
func c20ReplayOrders(b c20Beh, stepTimeout, hangWait time.Duration) M {
	tries := b.Tries
	if tries < 1 {
		tries = 1
	}
	var res M
	other := map[string]int{}
	k := 0
	for k < tries {
		k++
		res = c20Replay(b, stepTimeout, hangWait)
		if res["orderdiff"] != true {
			break
		}
		other[fmt.Sprint(res["realins"])]++
	}
	if k > 1 || len(other) > 0 {
		res["attempts"] = k
		res["other_orders"] = other
	}
	return res
}

func c20Eq(a, b []int) bool {
	if len(a) != len(b) {
		return false
	}
	for i := range a {
		if a[i] != b[i] {
			return false
		}
	}
	return true
}

func c20Sorted(a []int) []int {
	b := append([]int{}, a...)
	sort.Ints(b)
	return b
}

type c20Pos struct {
	opi, pc int
	st      string
}

func c20ParsePos(p []json.RawMessage) c20Pos {
	var r c20Pos
	json.Unmarshal(p[0], &r.opi)
	json.Unmarshal(p[1], &r.pc)
	json.Unmarshal(p[2], &r.st)
	return r
}

// snapshot compares the real thread positions with the model's; returns "" when equal.
func (r *c20Run) posDiff(want []c20Pos) string {
	r.mu.Lock()
	defer r.mu.Unlock()
	for i, th := range r.ths {
		w := want[i]
		var ok bool
		switch {
		case w.opi > len(th.sess):
			ok = th.state == "done"
		case w.st == "run":
			ok = th.state == "gate" && th.opi == w.opi && th.arr == w.pc
		default:
			ok = th.state == "in" && !th.acq && th.opi == w.opi && th.arr == w.pc && (th.cur[0] == "L" || th.cur[0] == "R")
		}
		if !ok {
			return fmt.Sprintf("thread t%d: model (op %d, pc %d, %s) real (op %d, pc %d, %s, acquired=%v, %v at %s)",
				th.idx, w.opi, w.pc, w.st, th.opi, th.arr, th.state, th.acq, th.cur, th.site)
		}
	}
	return ""
}

// probeOwned waits until the lock is observably write-announced/held (TryRLock/TryLock fails).
func (r *c20Run) probeOwned(n [2]string, deadline time.Time) bool {
	r.mu.Lock()
	obj := r.objs[n]
	r.mu.Unlock()
	for {
		busy := true
		switch l := obj.(type) {
		case *sync.RWMutex:
			if l.TryRLock() {
				l.RUnlock()
				busy = false
			}
		case *sync.Mutex:
			if l.TryLock() {
				l.Unlock()
				busy = false
			}
		default:
			return false
		}
		if busy {
			return true
		}
		if time.Now().After(deadline) {
			return false
		}
		time.Sleep(30 * time.Microsecond)
	}
}

func c20Replay(b c20Beh, stepTimeout, hangWait time.Duration) M {
	scen := make([][][2]string, len(b.Scen))
	for i, s := range b.Scen {
		for _, o := range s {
			scen[i] = append(scen[i], [2]string{o[0], o[1]})
		}
	}
	r := c20NewRun(true, false)
	c20Cur.Store(r)
	defer c20Cur.Store(nil)
	done := r.start(scen, 1)
	fail := func(k int, what string, extra M) M {
		res := M{"ok": false, "step": k, "what": what, "blocked": r.blockedInfo()}
		for kk, v := range extra {
			res[kk] = v
		}
		close(r.openCh) // let everything that can still run finish
		select {
		case <-done:
		case <-time.After(300 * time.Millisecond):
		}
		return res
	}
	want := make([]c20Pos, len(scen))
	for i := range want {
		want[i] = c20Pos{1, 1, "run"}
	}
	waitPos := func(wown [][]string) string {
		deadline := time.Now().Add(stepTimeout)
		for {
			d := r.posDiff(want)
			if d == "" {
				okp := true
				for _, l := range wown {
					if !r.probeOwned([2]string{l[0], l[1]}, deadline) {
						okp = false
						d = fmt.Sprintf("lock %v: model has an announced/holding writer, real lock is free", l)
					}
				}
				if okp {
					time.Sleep(150 * time.Microsecond) // settle, then look again
					if d = r.posDiff(want); d == "" {
						return ""
					}
				}
			}
			if time.Now().After(deadline) {
				return d
			}
			time.Sleep(25 * time.Microsecond)
		}
	}
	if d := waitPos(nil); d != "" {
		return fail(0, "threads did not reach their first gate: "+d, nil)
	}
	for k, s := range b.Steps {
		th := r.ths[s.T-1]
		if len(s.Ins) == 3 {
			// the thread waits at its gate (checked after the previous step): it must be about to execute the
			// instruction the model's program has at this position
			r.mu.Lock()
			cur, site, opi := th.cur, th.site, th.opi
			r.mu.Unlock()
			if cur != [3]string{s.Ins[0], s.Ins[1], s.Ins[2]} {
				order := false
				if opi >= 1 && opi <= len(th.sess) {
					for _, o := range b.OrderOps {
						order = order || o == th.sess[opi-1][0]
					}
				}
				return fail(k, fmt.Sprintf("before step %d: thread t%d is about to execute %v at %s, the model's program has %v there",
					k+1, s.T, cur, site, s.Ins), M{"insdiff": true, "orderdiff": order, "realins": cur})
			}
		}
		th.gate <- struct{}{}
		for i := range want {
			want[i] = c20ParsePos(s.Pos[i])
		}
		if d := waitPos(s.Wown); d != "" {
			// which kind of disagreement: a thread that the model lets proceed is blocked in a lock call
			hang := false
			for _, bi := range r.blockedInfo() {
				i := bi["t"].(int) - 1
				if bi["state"] == "in" && bi["acq"] == false && (bi["k"] == "L" || bi["k"] == "R") && want[i].st == "run" {
					hang = true
				}
			}
			return fail(k+1, "after step "+strconv.Itoa(k+1)+" (t"+strconv.Itoa(s.T)+"): "+d, M{"hang": hang})
		}
		for f, wantToks := range s.Node {
			got := c20Toks(r.ctx, r.dserv, r.files[f].node)
			if !c20Eq(got, c20Sorted(wantToks)) {
				return fail(k+1, fmt.Sprintf("File.node of %s holds tokens %v, model %v", f, got, c20Sorted(wantToks)), M{"data": true})
			}
		}
		if len(s.Rb) == 1 { // the step completed a Read: compare what it returned
			var got []int
			r.mu.Lock()
			for _, e := range r.events {
				if e["ev"] == "ret" && e["t"] == s.T && (e["op"] == "Read" || e["op"] == "ReadP") {
					got, _ = e["toks"].([]int)
				}
			}
			r.mu.Unlock()
			if !c20Eq(got, c20Sorted(s.Rb[0])) {
				return fail(k+1, fmt.Sprintf("Read by t%d returned %v, model %v", s.T, got, c20Sorted(s.Rb[0])), M{"data": true})
			}
		}
	}
	switch b.Kind {
	case "stuck":
		// the model cannot move; the real goroutines must not either
		time.Sleep(hangWait)
		if d := r.posDiff(want); d != "" {
			return fail(len(b.Steps), "model is stuck but the real goroutines moved on: "+d, M{"unreproduced": true})
		}
		var desc []string
		for _, bi := range r.blockedInfo() {
			desc = append(desc, fmt.Sprintf("t%v in %v(%v) blocked in %v %v.%v at %v", bi["t"], bi["op"], bi["f"], bi["k"], bi["c"], bi["id"], bi["site"]))
		}
		return M{"ok": false, "step": len(b.Steps), "hang": true, "dev": b.Dev, "blocked": r.blockedInfo(),
			"what": fmt.Sprintf("real goroutines dead-locked for %v under the replayed schedule: %s", hangWait, strings.Join(desc, "; "))}
	case "lost":
		var miss []string
		for f, ack := range b.Acked {
			got := c20Toks(r.ctx, r.dserv, r.files[f].node)
			for _, a := range ack {
				if sort.SearchInts(got, a) >= len(got) || got[sort.SearchInts(got, a)] != a {
					miss = append(miss, fmt.Sprintf("token %d of %s (File.node has %v)", a, f, got))
				}
			}
		}
		if len(miss) == 0 {
			return fail(len(b.Steps), "model lost an acknowledged write but the real File.node has it", M{"unreproduced": true})
		}
		return fail(len(b.Steps), "acknowledged (flushed/closed) write missing from File.node: "+strings.Join(miss, ", "), M{"dev": b.Dev, "lost": true})
	}
	// complete: everything has finished; read back through the API and through the flushed root
	select {
	case <-done:
	case <-time.After(stepTimeout):
		return fail(len(b.Steps), "sessions did not finish", M{"hang": true})
	}
	for _, e := range r.events {
		if e["ev"] == "ret" && e["err"] != "" {
			return M{"ok": false, "step": len(b.Steps), "what": fmt.Sprintf("operation failed: %v", e)}
		}
	}
	fs := r.finalState()
	for f, ack := range b.Acked {
		for _, key := range []string{f, "root_" + f} {
			got, _ := fs[key].([]int)
			for _, a := range ack {
				i := sort.SearchInts(got, a)
				if i >= len(got) || got[i] != a {
					return M{"ok": false, "step": len(b.Steps), "data": true, "ackedlost": true,
						"what": fmt.Sprintf("acknowledged token %d missing from %s after all sessions finished (has %v)", a, key, got)}
				}
			}
		}
	}
	return M{"ok": true}
}

func TestVerifC20(t *testing.T) {
	defer vFlush()
	c20Hook = c20HookFn
	stepTO := time.Duration(vEnvInt("C20_STEP_MS", 5000)) * time.Millisecond
	hangW := time.Duration(vEnvInt("C20_HANG_MS", 1000)) * time.Millisecond
	if pl, ok := vChildPayload(); ok {
		var b c20Beh
		if err := json.Unmarshal([]byte(pl), &b); err != nil {
			t.Fatal(err)
		}
		out, _ := json.Marshal(c20ReplayOrders(b, stepTO, hangW))
		fmt.Printf("\nC20RESULT %s\n", out)
		return
	}
	switch vMode() {
	case "record":
		c20Record(t)
	case "replay":
		n := 0
		for i, raw := range vIn() {
			var b c20Beh
			if err := json.Unmarshal(raw, &b); err != nil {
				t.Fatalf("input %d: %v", i, err)
			}
			var res M
			if b.Kind == "stuck" { // may leave goroutines dead-locked: isolate in a child process
				out, outcome := vChild("TestVerifC20", string(raw), stepTO*4+hangW+20*time.Second+time.Duration(b.Tries)*time.Second)
				res = nil
				for _, ln := range strings.Split(out, "\n") {
					if strings.HasPrefix(ln, "C20RESULT ") {
						json.Unmarshal([]byte(ln[len("C20RESULT "):]), &res)
					}
				}
				if res == nil {
					res = M{"ok": false, "step": -1, "childdied": true, "what": "child " + outcome + ": " + out[max(0, len(out)-400):]}
				}
			} else {
				res = c20ReplayOrders(b, stepTO, hangW)
			}
			res["i"] = i
			vEmit(res)
			n++
		}
		vEmit(M{"summary": true, "n": n})
	default:
		t.Skip()
	}
}
