//go:build verif

package mfs

// C21 harness (phase T): drives the real Republisher (tshort = 1 ms, tlong = 4 ms) from several client
// goroutines with a gated PubFunc and records call/return of Update/WaitPub/Close, every PubFunc
// invocation and every gate command as NDJSON events for spec/Republisher/TraceRepublisher.tla.
// Timer firings and the steps inside Update/run are NOT logged: they are silent spec actions.
//
// Projection (trusted): value v <-> CID of the bytes "c21-<v>" (0 <-> cid.Undef); thread number;
// result class "ok"/"timeout".  Event order = order of vEmit calls (call events are emitted before the
// call, return events after it, so "returned before called" in the trace implies it in real time).

import (
	"context"
	"errors"
	"fmt"
	"math/rand"
	"runtime"
	"sync"
	"sync/atomic"
	"testing"
	"time"

	cid "github.com/ipfs/go-cid"
	mh "github.com/multiformats/go-multihash"
)

const (
	c21Short    = 1 * time.Millisecond
	c21Long     = 4 * time.Millisecond
	c21WaitLive = 3 * time.Second       // ">> timers + bounded failures": may only expire when the wait cannot complete
	c21WaitDead = 30 * time.Millisecond // after Close has returned nothing serves WaitPub any more
	c21Watchdog = 20 * time.Second
	c21MaxSlow  = 6 // expiries of long contexts after which a scenario stops (they are in the trace; TLC decides)
)

func c21Cid(v int) cid.Cid {
	if v == 0 {
		return cid.Undef
	}
	h, err := mh.Sum([]byte(fmt.Sprintf("c21-%d", v)), mh.SHA2_256, -1)
	if err != nil {
		panic(err)
	}
	return cid.NewCidV1(cid.Raw, h)
}

type c21Op struct {
	kind string // "U" update, "W" waitpub, "C" close, "F" failnext, "S" sleep, "Y" yield
	v    int
	d    time.Duration
}

type c21Sys struct {
	mu       sync.Mutex // orders gate commands, Pub decisions and all event recording of this run
	events   []M        // recorded in memory (cheap, keeps the race windows open), written by flush
	lastPubV atomic.Int64
	hold     atomic.Bool // stress: the next PubFunc call spins until release is set
	inPub    atomic.Bool
	release  atomic.Bool
	dead     bool // run abandoned by the watchdog: record nothing more
	budget   int  // the next `budget` publishes fail
	rp       *Republisher
	vals     map[string]int
	closed   atomic.Bool // a Close call has returned
	rng      *rand.Rand  // used under mu (PubFunc jitter)
	jitter   bool
	fails    atomic.Int32 // Pub failures seen and not yet followed by a success
	timeouts *atomic.Int32
}

func (s *c21Sys) emit(m M) {
	s.mu.Lock()
	if !s.dead {
		s.events = append(s.events, m)
	}
	s.mu.Unlock()
}

// flush writes the run to the trace (keep = false: the run is not part of the sample).
func (s *c21Sys) flush(keep bool) {
	s.mu.Lock()
	defer s.mu.Unlock()
	if keep {
		for _, m := range s.events {
			vEmit(m)
		}
	}
	s.events = nil
}

func c21New(init int, nvals int, jitter bool, seed int64, timeouts *atomic.Int32) *c21Sys {
	s := &c21Sys{vals: map[string]int{}, rng: rand.New(rand.NewSource(seed)), jitter: jitter, timeouts: timeouts}
	for v := 1; v <= nvals; v++ {
		s.vals[c21Cid(v).KeyString()] = v
	}
	s.events = append(make([]M, 0, 256), M{"ev": "Reset", "init": init})
	s.lastPubV.Store(int64(init))
	s.rp = NewRepublisher(s.pub, c21Short, c21Long, c21Cid(init))
	return s
}

// pub is the PubFunc: the gate decides the result; the event is emitted at the decision point, i.e.
// before run() can act on the result (close the waiter / re-arm the retry timer).
func (s *c21Sys) pub(_ context.Context, c cid.Cid) error {
	if s.jitter {
		s.mu.Lock()
		j := s.rng.Intn(6)
		s.mu.Unlock()
		switch j {
		case 0:
			time.Sleep(time.Duration(50+j*40) * time.Microsecond)
		case 1, 2:
			runtime.Gosched()
		}
	}
	if s.hold.CompareAndSwap(true, false) {
		// keep the run goroutine on the CPU inside pubfunc until the updater releases it
		s.inPub.Store(true)
		for dl := time.Now().Add(time.Second); !s.release.Load() && time.Now().Before(dl); {
		}
	}
	s.mu.Lock()
	defer s.mu.Unlock()
	v, known := s.vals[c.KeyString()]
	if !known {
		v = -1
	}
	ok := s.budget == 0
	if !ok {
		s.budget--
		s.fails.Add(1)
	} else {
		s.fails.Store(0)
	}
	if !s.dead {
		s.events = append(s.events, M{"ev": "Pub", "v": v, "ok": ok})
	}
	if ok {
		s.lastPubV.Store(int64(v))
	}
	if !ok {
		return errors.New("c21: publish failed on command")
	}
	return nil
}

func (s *c21Sys) do(t int, op c21Op) {
	switch op.kind {
	case "U":
		s.emit(M{"ev": "UpdCall", "t": t, "v": op.v})
		s.rp.Update(c21Cid(op.v))
		s.emit(M{"ev": "UpdRet", "t": t})
	case "W":
		d := c21WaitLive
		if s.closed.Load() {
			d = c21WaitDead
		}
		ctx, cancel := context.WithTimeout(context.Background(), d)
		s.emit(M{"ev": "WaitCall", "t": t})
		err := s.rp.WaitPub(ctx)
		cancel()
		res := "ok"
		if err != nil {
			res = "timeout"
			if d == c21WaitLive {
				s.timeouts.Add(1)
			}
		}
		s.emit(M{"ev": "WaitRet", "t": t, "res": res})
	case "C":
		s.emit(M{"ev": "CloseCall", "t": t})
		err := s.rp.Close()
		s.closed.Store(true)
		res := "ok"
		if err != nil {
			res = "timeout"
			s.timeouts.Add(1)
		}
		s.emit(M{"ev": "CloseRet", "t": t, "res": res})
	case "F":
		s.mu.Lock()
		if s.budget == 0 && !s.dead {
			s.budget = op.v
			s.events = append(s.events, M{"ev": "FailNext", "k": op.v})
		}
		s.mu.Unlock()
	case "S":
		time.Sleep(op.d)
	case "Y":
		runtime.Gosched()
	}
}

// waitPubs spins until n Pub events with the given outcome have been seen since the mark (directed scenarios).
func (s *c21Sys) waitFails(n int32, max time.Duration) {
	dl := time.Now().Add(max)
	for s.fails.Load() < n && time.Now().Before(dl) {
		time.Sleep(200 * time.Microsecond)
	}
}

// runThreads executes the scripts concurrently under the watchdog; false = a call never returned.
func (s *c21Sys) runThreads(scripts [][]c21Op) bool {
	var wg sync.WaitGroup
	for i, sc := range scripts {
		wg.Add(1)
		go func(t int, sc []c21Op) {
			defer wg.Done()
			for _, op := range sc {
				s.do(t, op)
			}
		}(i+1, sc)
	}
	done := make(chan struct{})
	go func() { wg.Wait(); close(done) }()
	select {
	case <-done:
		return true
	case <-time.After(c21Watchdog):
		s.mu.Lock()
		s.events = append(s.events, M{"ev": "Hang", "what": "a republisher call did not return within the watchdog"})
		s.dead = true
		s.mu.Unlock()
		s.flush(true)
		return false
	}
}

// finish closes the republisher if the scripts did not (so the run goroutine exits).
func (s *c21Sys) finish(t int) bool {
	if s.closed.Load() {
		return true
	}
	return s.runThreads(append(make([][]c21Op, t-1), []c21Op{{kind: "C"}}))
}

func TestVerifC21(t *testing.T) {
	defer vFlush()
	if vMode() != "record" {
		t.Skip("C21 has a record mode only")
	}
	var timeouts atomic.Int32
	switch vEnv("C21_SCEN") {
	case "dev1":
		c21Directed(&timeouts)
	case "stress":
		c21Stress(&timeouts)
	default:
		c21Random(&timeouts)
	}
}

// Directed history for the already reproduced defect: failing publish, then an update equal to
// lastPublished, then WaitPub with nothing pending.
func c21Directed(to *atomic.Int32) {
	for _, viaWaiter := range []bool{false, true} {
		s := c21New(1, 4, false, vSeed(), to)
		s.do(1, c21Op{kind: "F", v: 1})
		t2 := make(chan bool, 1)
		if viaWaiter {
			// thread 2: the failing publish is triggered by its WaitPub, which keeps waiting through the retry
			go func() { t2 <- s.runThreads([][]c21Op{nil, {{kind: "U", v: 2}, {kind: "W"}}}) }()
		} else {
			s.do(1, c21Op{kind: "U", v: 2}) // published by the quick timer: fails, retry mode
			t2 <- true
		}
		s.waitFails(1, 2*time.Second)
		s.do(1, c21Op{kind: "U", v: 1}) // equals lastPublished: nothing left to publish
		if !<-t2 {
			return
		}
		time.Sleep(3 * c21Long)
		s.do(1, c21Op{kind: "W"}) // ideal: returns at once
		s.do(1, c21Op{kind: "U", v: 3})
		s.do(1, c21Op{kind: "W"})
		if !s.runThreads([][]c21Op{{{kind: "C"}}}) {
			return
		}
		s.flush(true)
	}
}

// Stress for the hand-over window of Update (no hooks, so the window is hit by synchronising around it):
//
//	thread 1: Update(2);  thread 2: WaitPub -> the loop calls pubfunc(2), which spins (hold);
//	thread 1: Update(3) returns;  thread 3: WaitPub (even runs) or Close (odd runs) blocks, the loop is busy;
//	thread 1: Update(4), Update(5), ... in a tight loop, releasing pubfunc after a random one of them.
//
// The loop returns from pubfunc, serves thread 3 and runs its "grab the latest value" select while thread 1
// is, with some probability, between the two selects of Update.  Only a sample of the runs is written to
// the trace: the first c21Flagged runs a cheap heuristic flags ("thread 3 returned and nothing newer than 2
// was published") plus every 200th run.  The heuristic only selects; TraceRepublisher decides.
const c21Flagged = 2

func c21Stress(to *atomic.Int32) {
	rng := vRand()
	runs := 400
	if !vQuick() {
		runs = 2500
	}
	flagged, nsusp := 0, 0
	for r := 0; r < runs; r++ {
		s := c21New(1, 40, false, vSeed()+int64(r), to)
		n := 4 + rng.Intn(8)
		relAt := rng.Intn(n)
		s.hold.Store(true)
		s.do(1, c21Op{kind: "U", v: 2})
		var wg sync.WaitGroup
		wg.Add(2)
		go func() { defer wg.Done(); s.do(2, c21Op{kind: "W"}) }()
		for dl := time.Now().Add(time.Second); !s.inPub.Load() && time.Now().Before(dl); {
			runtime.Gosched()
		}
		s.do(1, c21Op{kind: "U", v: 3})
		suspicious := false
		go func() {
			defer wg.Done()
			if r%2 == 0 {
				s.do(3, c21Op{kind: "W"})
			} else {
				s.do(3, c21Op{kind: "C"})
			}
			suspicious = s.lastPubV.Load() < 3
		}()
		time.Sleep(time.Duration(20+rng.Intn(80)) * time.Microsecond) // let thread 3 block on immediatePublish
		for i := 0; i < n; i++ {
			s.do(1, c21Op{kind: "U", v: 4 + i})
			if i == relAt {
				s.release.Store(true)
			}
		}
		done := make(chan struct{})
		go func() { wg.Wait(); close(done) }()
		select {
		case <-done:
		case <-time.After(c21Watchdog):
			s.mu.Lock()
			s.events = append(s.events, M{"ev": "Hang", "what": "a republisher call did not return within the watchdog"})
			s.dead = true
			s.mu.Unlock()
			s.flush(true)
			return
		}
		if !s.finish(4) {
			return
		}
		keep := r%200 == 0
		if suspicious {
			nsusp++
			if flagged < c21Flagged {
				flagged++
				keep = true
			}
		}
		s.flush(keep || to.Load() >= c21MaxSlow)
		if to.Load() >= c21MaxSlow {
			break
		}
	}
	fmt.Printf("c21 stress: %d runs, %d flagged by the heuristic, %d of them recorded\n", runs, nsusp, flagged)
}

// Random schedules.
func c21Random(to *atomic.Int32) {
	rng := vRand()
	runs := 40
	if !vQuick() {
		runs = 250
	}
	if n := vEnvInt("C21_RUNS", 0); n > 0 {
		runs = n
	}
	for r := 0; r < runs; r++ {
		nvals := 2 + rng.Intn(3)
		s := c21New(rng.Intn(2), nvals, true, vSeed()*7919+int64(r), to)
		nt := 2 + rng.Intn(3)
		closer := -1
		if rng.Intn(3) > 0 {
			closer = rng.Intn(nt)
		}
		// once two long expiries have been paid for (known stuck state) no more failures are ordered:
		// the stuck state needs a failed publish
		failing := rng.Intn(2) == 0 && to.Load() < 2
		scripts := make([][]c21Op, nt)
		for i := range scripts {
			n := 2 + rng.Intn(5)
			for k := 0; k < n; k++ {
				switch x := rng.Intn(20); {
				case x < 9:
					scripts[i] = append(scripts[i], c21Op{kind: "U", v: 1 + rng.Intn(nvals)})
				case x < 13:
					scripts[i] = append(scripts[i], c21Op{kind: "W"})
				case x < 15 && failing:
					scripts[i] = append(scripts[i], c21Op{kind: "F", v: 1 + rng.Intn(2)})
				case x < 18:
					scripts[i] = append(scripts[i], c21Op{kind: "S", d: time.Duration(200+rng.Intn(6000)) * time.Microsecond})
				default:
					scripts[i] = append(scripts[i], c21Op{kind: "Y"})
				}
			}
			if i == closer {
				scripts[i] = append(scripts[i], c21Op{kind: "C"})
				if rng.Intn(4) == 0 {
					scripts[i] = append(scripts[i], c21Op{kind: "W"}, c21Op{kind: "U", v: 1})
				}
			} else if closer >= 0 && rng.Intn(4) == 0 {
				scripts[i] = append(scripts[i], c21Op{kind: "C"})
			}
		}
		if !s.runThreads(scripts) || !s.finish(nt) {
			return
		}
		s.flush(true)
		if to.Load() >= c21MaxSlow {
			break
		}
	}
}
