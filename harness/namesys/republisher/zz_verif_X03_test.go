//go:build verif

package republisher

// X03 harness -- the IPNS record republisher (repub.go) driving the real namesys.IPNSPublisher.
//
// Everything runs inside testing/synctest bubbles: time.Now / timers are the bubble's fake clock (epoch
// 2000-01-01T00:00:00Z, advanced only by the harness's Sleep), so EOLs and Run's timer schedule are exact.
//
//   replay (phase G): TLC-generated sequential histories (spec/IPNSRepublisher/GenIPNSRepublisher) of
//       Pub / Round (direct republishEntries) / Corrupt / RFail / KsBad / Start (Run) / Wait / Stop
//     are executed on a fresh world; after every step the projected datastore + routing contents, the
//     Publish calls of each round and the times at which rounds started are compared with the spec's ideal
//     world and with its as-built alternative worlds (subsets of {Dev_X03_ErrStop, Dev_X03_TTLReset}).
//   record (phase T): real goroutines (user Publish threads racing republishEntries rounds; gated and
//     free-running schedules) log every critical section under the world mutex; the log is validated by
//     spec/IPNSRepublisher/TraceIPNSRepublisher.
//
// Trusted: the projection (fixed ed25519 keys k0..k2, fixed CIDs A..C, durations in units of 30 s), the
// in-memory routing fake (keeps the better record: sequence, then EOL; honours the context; injected
// per-key failure), the keystore fake (sorted List, injected per-key Get failure), MapDatastore.

import (
	"bytes"
	"context"
	"encoding/json"
	"errors"
	"fmt"
	"math/rand"
	"os"
	"sort"
	"sync"
	"testing"
	"testing/synctest"
	"time"

	"github.com/ipfs/boxo/ipns"
	ipns_pb "github.com/ipfs/boxo/ipns/pb"
	"github.com/ipfs/boxo/namesys"
	"github.com/ipfs/boxo/path"
	"github.com/ipfs/go-cid"
	ds "github.com/ipfs/go-datastore"
	dssync "github.com/ipfs/go-datastore/sync"
	ci "github.com/libp2p/go-libp2p/core/crypto"
	"github.com/libp2p/go-libp2p/core/peer"
	"github.com/libp2p/go-libp2p/core/routing"
	mh "github.com/multiformats/go-multihash"
	"google.golang.org/protobuf/proto"
)

const c03Unit = 30 * time.Second

var c03Keys = []string{"k0", "k1", "k2"}

type c03WhoKey struct{}

func c03Who(ctx context.Context) string {
	if s, ok := ctx.Value(c03WhoKey{}).(string); ok {
		return s
	}
	return "?"
}

type c03Round struct {
	T    int
	Pubs [][]any
}

type c03World struct {
	mu      sync.Mutex // world mutex: an operation and its log line are one atomic step
	epoch   time.Time
	record  bool
	keys    []string
	store   ds.Datastore
	priv    map[string]ci.PrivKey
	keyOfID map[peer.ID]string
	dsKey   map[string]ds.Key
	keyOfDs map[string]string
	keyOfRt map[string]string
	vals    map[string]path.Path
	valOf   map[string]string
	rt      map[string][]byte
	rfail   map[string]bool
	ksbad   map[string]bool
	pub     *namesys.IPNSPublisher
	rp      *Republisher
	rounds  []c03Round
	// gates (record mode): park the republisher after its datastore Get of a key / before its routing put
	gateRGet string
	gateRt   string
	parked   chan struct{}
	release  chan struct{}
}

func (w *c03World) emit(m M) {
	if w.record {
		vEmit(m)
	}
}

func (w *c03World) units(d time.Duration) int {
	if d%c03Unit != 0 {
		return -1
	}
	return int(d / c03Unit)
}

func (w *c03World) now() int { return w.units(time.Since(w.epoch)) }

// project maps stored bytes to the model record: ["none"] | ["bad"] | [val, seq, eol, ttl]
func (w *c03World) project(b []byte, found bool) []any {
	if !found {
		return []any{"none"}
	}
	rec, err := ipns.UnmarshalRecord(b)
	if err != nil {
		return []any{"bad"}
	}
	p, err := rec.Value()
	if err != nil {
		return []any{"bad"}
	}
	v, ok := w.valOf[p.String()]
	if !ok {
		v = "?" + p.String()
	}
	seq, err1 := rec.Sequence()
	eol, err2 := rec.Validity()
	ttl, err3 := rec.TTL()
	if err1 != nil || err2 != nil || err3 != nil {
		return []any{"bad"}
	}
	return []any{v, int(seq), w.units(eol.Sub(w.epoch)), w.units(ttl)}
}

func (w *c03World) projDs(k string) []any {
	b, err := w.store.Get(context.Background(), w.dsKey[k])
	return w.project(b, err == nil)
}
func (w *c03World) projRt(k string) []any {
	b, ok := w.rt[k]
	return w.project(b, ok)
}

func (w *c03World) park() {
	w.parked <- struct{}{}
	<-w.release
}

// ---- datastore wrapper ---------------------------------------------------------------------------
type c03DS struct {
	ds.Datastore
	w    *c03World
	role string // "r": the Republisher's datastore, "p": the IPNSPublisher's datastore
}

func (d *c03DS) Get(ctx context.Context, key ds.Key) ([]byte, error) {
	w := d.w
	w.mu.Lock()
	v, err := d.Datastore.Get(ctx, key)
	k, known := w.keyOfDs[key.String()]
	gate := false
	if known {
		pr := w.project(v, err == nil)
		if d.role == "r" {
			if k == w.keys[0] {
				w.rounds = append(w.rounds, c03Round{T: w.now(), Pubs: [][]any{}})
			}
			w.emit(M{"ev": "RGet", "k": k, "rec": pr})
			if w.gateRGet == k {
				w.gateRGet = ""
				gate = true
			}
		} else {
			w.emit(M{"ev": "PGet", "who": c03Who(ctx), "k": k, "rec": pr})
		}
	}
	w.mu.Unlock()
	if gate {
		w.park()
	}
	return v, err
}

func (d *c03DS) Put(ctx context.Context, key ds.Key, value []byte) error {
	w := d.w
	w.mu.Lock()
	defer w.mu.Unlock()
	err := d.Datastore.Put(ctx, key, value)
	if k, known := w.keyOfDs[key.String()]; known && err == nil {
		w.emit(M{"ev": "PPut", "who": c03Who(ctx), "k": k, "rec": w.project(value, true)})
	}
	return err
}

// ---- routing fake ----------------------------------------------------------------------------------
type c03Rt struct{ w *c03World }

func c03SeqEol(b []byte) (uint64, time.Time, bool) {
	r, err := ipns.UnmarshalRecord(b)
	if err != nil {
		return 0, time.Time{}, false
	}
	s, err1 := r.Sequence()
	e, err2 := r.Validity()
	return s, e, err1 == nil && err2 == nil
}

func (r *c03Rt) PutValue(ctx context.Context, key string, val []byte, _ ...routing.Option) error {
	w := r.w
	k, known := w.keyOfRt[key]
	if !known {
		return nil
	}
	who := c03Who(ctx)
	w.mu.Lock()
	gate := who == "rp" && w.gateRt == k
	if gate {
		w.gateRt = ""
	}
	w.mu.Unlock()
	if gate {
		w.park()
	}
	w.mu.Lock()
	defer w.mu.Unlock()
	if ctx.Err() != nil {
		return ctx.Err() // a real routing system aborts; nothing is stored, nothing logged
	}
	pr := w.project(val, true)
	if w.rfail[k] {
		w.emit(M{"ev": "RtPut", "who": who, "k": k, "rec": pr, "ok": false})
		return errors.New("c03: injected routing failure")
	}
	if old, ok := w.rt[k]; ok {
		os_, oe, ok1 := c03SeqEol(old)
		ns, ne, ok2 := c03SeqEol(val)
		if !ok2 {
			return errors.New("c03: unparsable record put to routing")
		}
		if !ok1 || ns > os_ || (ns == os_ && !ne.Before(oe)) {
			w.rt[k] = val
		}
	} else {
		w.rt[k] = val
	}
	w.emit(M{"ev": "RtPut", "who": who, "k": k, "rec": pr, "ok": true})
	return nil
}

func (r *c03Rt) GetValue(ctx context.Context, key string, _ ...routing.Option) ([]byte, error) {
	w := r.w
	w.mu.Lock()
	defer w.mu.Unlock()
	if k, known := w.keyOfRt[key]; known {
		if b, ok := w.rt[k]; ok {
			return b, nil
		}
	}
	return nil, routing.ErrNotFound
}

func (r *c03Rt) SearchValue(ctx context.Context, key string, _ ...routing.Option) (<-chan []byte, error) {
	return nil, routing.ErrNotSupported
}

// ---- keystore fake ---------------------------------------------------------------------------------
type c03KS struct{ w *c03World }

func (s *c03KS) Has(n string) (bool, error) { _, ok := s.w.priv[n]; return ok && n != s.w.keys[0], nil }
func (s *c03KS) Put(string, ci.PrivKey) error { return errors.New("c03: read-only keystore") }
func (s *c03KS) Delete(string) error         { return errors.New("c03: read-only keystore") }
func (s *c03KS) List() ([]string, error) {
	out := append([]string{}, s.w.keys[1:]...)
	sort.Strings(out)
	return out, nil
}
func (s *c03KS) Get(n string) (ci.PrivKey, error) {
	w := s.w
	w.mu.Lock()
	defer w.mu.Unlock()
	if w.ksbad[n] {
		w.emit(M{"ev": "KsGet", "k": n, "ok": false})
		return nil, errors.New("c03: injected keystore failure")
	}
	w.emit(M{"ev": "KsGet", "k": n, "ok": true})
	return w.priv[n], nil
}

// ---- the namesys.Publisher the republisher is given: the real IPNSPublisher, calls observed -------------
type c03NS struct{ w *c03World }

func (n *c03NS) Publish(ctx context.Context, sk ci.PrivKey, value path.Path, opts ...namesys.PublishOption) error {
	w := n.w
	err := w.pub.Publish(ctx, sk, value, opts...)
	id, _ := peer.IDFromPrivateKey(sk)
	k := w.keyOfID[id]
	w.mu.Lock()
	if len(w.rounds) > 0 {
		r := &w.rounds[len(w.rounds)-1]
		r.Pubs = append(r.Pubs, []any{k, err == nil})
	}
	w.emit(M{"ev": "RpRet", "k": k, "ok": err == nil})
	w.mu.Unlock()
	return err
}

// ---- world construction (call inside a synctest bubble) -------------------------------------------------
func c03NewWorld(t *testing.T, nkeys int, lifetime int, record bool) *c03World {
	w := &c03World{epoch: time.Now(), record: record, keys: c03Keys[:nkeys],
		priv: map[string]ci.PrivKey{}, keyOfID: map[peer.ID]string{}, dsKey: map[string]ds.Key{},
		keyOfDs: map[string]string{}, keyOfRt: map[string]string{}, vals: map[string]path.Path{},
		valOf: map[string]string{}, rt: map[string][]byte{}, rfail: map[string]bool{}, ksbad: map[string]bool{},
		parked: make(chan struct{}), release: make(chan struct{})}
	w.store = dssync.MutexWrap(ds.NewMapDatastore())
	for i, k := range w.keys {
		priv, _, err := ci.GenerateEd25519Key(bytes.NewReader(bytes.Repeat([]byte{byte(0x53 + i)}, 64)))
		if err != nil {
			t.Fatal(err)
		}
		id, err := peer.IDFromPrivateKey(priv)
		if err != nil {
			t.Fatal(err)
		}
		name := ipns.NameFromPeer(id)
		w.priv[k], w.keyOfID[id] = priv, k
		w.dsKey[k] = namesys.IpnsDsKey(name)
		w.keyOfDs[w.dsKey[k].String()] = k
		w.keyOfRt[string(name.RoutingKey())] = k
	}
	for _, v := range []string{"A", "B", "C"} {
		h, _ := mh.Sum([]byte("x03-"+v), mh.SHA2_256, -1)
		p := path.FromCid(cid.NewCidV1(cid.Raw, h))
		w.vals[v], w.valOf[p.String()] = p, v
	}
	w.pub = namesys.NewIPNSPublisher(&c03Rt{w}, &c03DS{Datastore: w.store, w: w, role: "p"})
	w.rp = NewRepublisher(&c03NS{w}, &c03DS{Datastore: w.store, w: w, role: "r"}, w.priv[w.keys[0]], &c03KS{w})
	w.rp.RecordLifetime = time.Duration(lifetime) * c03Unit
	if ipns.DefaultRecordTTL != 10*c03Unit || InitialRebroadcastDelay != 2*c03Unit || FailureRetryInterval != 10*c03Unit {
		t.Fatalf("model constants out of date: DefaultRecordTTL=%v InitialRebroadcastDelay=%v FailureRetryInterval=%v",
			ipns.DefaultRecordTTL, InitialRebroadcastDelay, FailureRetryInterval)
	}
	return w
}

// userPub: one IPNSPublisher.Publish by user thread u
func (w *c03World) userPub(u, k, v string, life, ttl int) bool {
	ctx := context.WithValue(context.Background(), c03WhoKey{}, u)
	w.mu.Lock()
	eol := time.Now().Add(time.Duration(life) * c03Unit)
	w.emit(M{"ev": "UCall", "u": u, "k": k, "v": v, "life": life, "ttl": ttl})
	w.mu.Unlock()
	err := w.pub.Publish(ctx, w.priv[k], w.vals[v], namesys.PublishWithEOL(eol), namesys.PublishWithTTL(time.Duration(ttl)*c03Unit))
	w.mu.Lock()
	w.emit(M{"ev": "URet", "u": u, "ok": err == nil})
	w.mu.Unlock()
	return err == nil
}

func (w *c03World) corrupt(k string, kind int) {
	w.mu.Lock()
	defer w.mu.Unlock()
	var blob []byte
	switch kind % 3 {
	case 0:
		blob = []byte("this is not an IPNS record")
	case 1: // a protobuf IPNS record without the mandatory DAG-CBOR data
		blob, _ = proto.Marshal(&ipns_pb.IpnsRecord{Value: []byte("/ipfs/bafkqaaa"), Sequence: proto.Uint64(7)})
	default: // a truncated copy of what was stored
		old, _ := w.store.Get(context.Background(), w.dsKey[k])
		blob = append([]byte{}, old[:len(old)/2]...)
	}
	if err := w.store.Put(context.Background(), w.dsKey[k], blob); err != nil {
		panic(err)
	}
	w.emit(M{"ev": "UCorrupt", "k": k})
}

func (w *c03World) setRFail(k string, on bool) {
	w.mu.Lock()
	w.rfail[k] = on
	w.emit(M{"ev": "SetRFail", "k": k, "on": on})
	w.mu.Unlock()
}
func (w *c03World) setKsBad(k string, on bool) {
	w.mu.Lock()
	w.ksbad[k] = on
	w.emit(M{"ev": "SetKsBad", "k": k, "on": on})
	w.mu.Unlock()
}

func (w *c03World) round(ctx context.Context) error {
	ctx = context.WithValue(ctx, c03WhoKey{}, "rp")
	w.mu.Lock()
	w.emit(M{"ev": "RoundStart"})
	w.mu.Unlock()
	err := w.rp.republishEntries(ctx)
	w.mu.Lock()
	w.emit(M{"ev": "RoundRet", "err": err != nil})
	w.mu.Unlock()
	return err
}

func (w *c03World) obs() (string, string) {
	w.mu.Lock()
	defer w.mu.Unlock()
	dsl, rtl := [][]any{}, [][]any{}
	for _, k := range w.keys {
		dsl = append(dsl, w.projDs(k))
		rtl = append(rtl, w.projRt(k))
	}
	return c03J(dsl), c03J(rtl)
}

func c03J(v any) string {
	b, err := json.Marshal(v)
	if err != nil {
		panic(err)
	}
	return string(b)
}

// ====================================================================================================
// phase G: replay
// ====================================================================================================
type c03WJ struct {
	Ds json.RawMessage `json:"ds"`
	Rt json.RawMessage `json:"rt"`
}
type c03Fired struct {
	T    int               `json:"t"`
	Pubs []json.RawMessage `json:"pubs"`
}
type c03Step struct {
	Op string `json:"op"`
	X  struct {
		K     string            `json:"k"`
		V     string            `json:"v"`
		Life  int               `json:"life"`
		TTL   int               `json:"ttl"`
		Ok    bool              `json:"ok"`
		Err   bool              `json:"err"`
		On    bool              `json:"on"`
		Iv    int               `json:"iv"`
		D     int               `json:"d"`
		Pubs  []json.RawMessage `json:"pubs"`
		Fired []c03Fired        `json:"fired"`
	} `json:"x"`
	Now int `json:"now"`
	Obs struct {
		W   c03WJ              `json:"w"`
		Alt map[string][]c03WJ `json:"alt"`
	} `json:"obs"`
}
type c03Beh struct {
	Keys  []string  `json:"keys"`
	L     int       `json:"L"`
	Steps []c03Step `json:"steps"`
}

var c03DevOf = [][]string{{}, {"Dev_X03_ErrStop"}, {"Dev_X03_TTLReset"}, {"Dev_X03_ErrStop", "Dev_X03_TTLReset"}}

func c03Canon(r json.RawMessage) string {
	var v any
	if err := json.Unmarshal(r, &v); err != nil {
		return "unparsable:" + string(r)
	}
	return c03J(v)
}

type c03Result struct {
	cand   [4]bool
	first  string // first disagreement with the ideal world
	fstep  int
	fatal  string // disagreement no world explains
	leaked bool
}

func c03RunBehaviour(t *testing.T, b *c03Beh, onLeak func(c03Result)) (res c03Result) {
	res.cand = [4]bool{true, true, true, true}
	res.fstep = -1
	synctest.Test(t, func(t *testing.T) {
		w := c03NewWorld(t, len(b.Keys), b.L, false)
		ctx := context.Background()
		var stop func()
		running, stopped := false, false
		kill := func(i int, step int, what string) {
			if res.cand[i] {
				res.cand[i] = false
				if i == 0 && res.first == "" {
					res.first, res.fstep = what, step
				}
			}
		}
		killAll := func(step int, what string) {
			for i := range res.cand {
				kill(i, step, what)
			}
		}
		for si := range b.Steps {
			s := &b.Steps[si]
			w.mu.Lock()
			w.rounds = nil
			w.mu.Unlock()
			switch s.Op {
			case "Pub":
				ok := w.userPub("u1", s.X.K, s.X.V, s.X.Life, s.X.TTL)
				if ok != s.X.Ok {
					killAll(si, fmt.Sprintf("Publish(%s,%s) ok=%v, spec %v", s.X.K, s.X.V, ok, s.X.Ok))
				}
			case "Round":
				err := w.round(ctx)
				if (err != nil) != s.X.Err {
					killAll(si, fmt.Sprintf("republishEntries returned %v, spec err=%v", err, s.X.Err))
				}
				var got any = [][]any{}
				w.mu.Lock()
				if len(w.rounds) > 1 {
					killAll(si, "more than one pass over the keys in one republishEntries call")
				} else if len(w.rounds) == 1 {
					got = w.rounds[0].Pubs
				}
				w.mu.Unlock()
				for i := range res.cand {
					if want := c03Canon(s.X.Pubs[i]); c03J(got) != want {
						kill(i, si, fmt.Sprintf("round called Publish for %s, spec %s", c03J(got), want))
					}
				}
			case "Corrupt":
				w.corrupt(s.X.K, si)
			case "RFail":
				w.setRFail(s.X.K, s.X.On)
			case "KsBad":
				w.setKsBad(s.X.K, s.X.On)
			case "Start":
				w.rp.Interval = time.Duration(s.X.Iv) * c03Unit
				stop = w.rp.Run()
				running = true
				synctest.Wait()
			case "Wait":
				time.Sleep(time.Duration(s.X.D) * c03Unit)
				synctest.Wait()
				w.mu.Lock()
				got := append([]c03Round{}, w.rounds...)
				w.mu.Unlock()
				for i := range res.cand {
					ok := len(got) == len(s.X.Fired)
					for j := 0; ok && j < len(got); j++ {
						ok = got[j].T == s.X.Fired[j].T && c03J(got[j].Pubs) == c03Canon(s.X.Fired[j].Pubs[i])
					}
					if !ok {
						want, _ := json.Marshal(s.X.Fired)
						kill(i, si, fmt.Sprintf("rounds during Wait(%d) ending at t=%d: %s, spec (world %d) %s", s.X.D, s.Now, c03J(got), i, want))
					}
				}
			case "Stop":
				stop()
				stopped = true
				synctest.Wait()
			default:
				t.Fatalf("unknown op %q", s.Op)
			}
			if n := w.now(); n != s.Now {
				killAll(si, fmt.Sprintf("clock at %d units, spec %d", n, s.Now))
			}
			gds, grt := w.obs()
			for i := range res.cand {
				wj := s.Obs.W
				if i > 0 {
					if a := s.Obs.Alt[fmt.Sprint(i+1)]; len(a) == 1 {
						wj = a[0]
					}
				}
				if wds, wrt := c03Canon(wj.Ds), c03Canon(wj.Rt); gds != wds || grt != wrt {
					kill(i, si, fmt.Sprintf("after %s: datastore %s routing %s, spec datastore %s routing %s", s.Op, gds, grt, wds, wrt))
				}
			}
		}
		// Run must be stoppable: after the stop function no further round may ever start
		if running {
			if !stopped {
				stop()
				synctest.Wait()
			}
			w.mu.Lock()
			w.rounds = nil
			w.mu.Unlock()
			time.Sleep(3 * (w.rp.Interval + FailureRetryInterval))
			synctest.Wait()
			w.mu.Lock()
			n := len(w.rounds)
			w.mu.Unlock()
			if n > 0 {
				res.fatal = fmt.Sprintf("%d republish rounds started after the function returned by Run was called", n)
				res.leaked = true
				onLeak(res) // the run loop never exits, so this bubble can never be left: report and leave the process
			}
		}
	})
	return res
}

func c03Replay(t *testing.T) {
	in := vIn()
	n, fails, capped := 0, 0, 0
	report := func(i int, res c03Result) {
		switch {
		case res.fatal != "":
			vEmit(M{"i": i, "ok": false, "step": len(in), "what": res.fatal})
		case res.cand[0]:
			vEmit(M{"i": i, "ok": true})
		default:
			w := -1
			for j := 1; j < 4; j++ {
				if res.cand[j] {
					w = j
					break
				}
			}
			if w < 0 {
				fails++
				if fails <= 25 {
					vEmit(M{"i": i, "ok": false, "step": res.fstep, "what": res.first})
				} else { // the verdict is established; do not write thousands of replay files
					capped++
					vEmit(M{"i": i, "ok": true, "capped": true})
				}
				return
			}
			for _, d := range c03DevOf[w] {
				vEmit(M{"i": i, "ok": false, "step": res.fstep, "dev": d,
					"what": "behaves exactly as the as-built world " + fmt.Sprint(c03DevOf[w]) + "; ideal: " + res.first})
			}
		}
	}
	for i, raw := range in {
		var b c03Beh
		if err := json.Unmarshal(raw, &b); err != nil {
			t.Fatalf("behaviour %d: %v", i, err)
		}
		res := c03RunBehaviour(t, &b, func(res c03Result) {
			report(i, res)
			vEmit(M{"summary": true, "n": len(in), "aborted_after": i})
			vFlush()
			os.Exit(0)
		})
		report(i, res)
		n++
	}
	vEmit(M{"summary": true, "n": n, "capped": capped})
}

// ====================================================================================================
// phase T: record
// ====================================================================================================
type c03Scn struct {
	w   *c03World
	rnd *rand.Rand
}

func (s *c03Scn) pick(xs ...string) string { return xs[s.rnd.Intn(len(xs))] }
func (s *c03Scn) tick(d int) {
	time.Sleep(time.Duration(d) * c03Unit)
	synctest.Wait()
	s.w.mu.Lock()
	s.w.emit(M{"ev": "Tick", "d": d})
	s.w.mu.Unlock()
}
func (s *c03Scn) randPub(u string, keys []string) {
	life := []int{3, 12, 50}[s.rnd.Intn(3)]
	ttl := []int{2, 10}[s.rnd.Intn(2)]
	s.w.userPub(u, keys[s.rnd.Intn(len(keys))], s.pick("A", "B", "C"), life, ttl)
}

// one scenario = one Reset-delimited run inside its own bubble
func c03Scenario(t *testing.T, seed int64, kind string) {
	synctest.Test(t, func(t *testing.T) {
		w := c03NewWorld(t, 3, 8, true)
		s := &c03Scn{w: w, rnd: rand.New(rand.NewSource(seed))}
		vEmit(M{"ev": "Reset", "kind": kind, "seed": seed})
		ctx, cancel := context.WithCancel(context.Background())
		defer cancel()
		// some published state to start from
		for _, k := range w.keys {
			if s.rnd.Intn(4) > 0 {
				s.randPub("u1", []string{k})
			}
		}
		if s.rnd.Intn(2) == 0 {
			s.tick(1 + s.rnd.Intn(6))
		}
		gated := func(arm func(k string), during func(k string)) {
			k := s.pick(w.keys...)
			w.mu.Lock()
			arm(k)
			w.mu.Unlock()
			done := make(chan struct{})
			go func() { w.round(ctx); close(done) }()
			select {
			case <-w.parked:
				during(k)
				w.release <- struct{}{}
			case <-done: // the gate was not reached (no record for k / an earlier key failed)
				w.mu.Lock()
				w.gateRGet, w.gateRt = "", ""
				w.mu.Unlock()
				return
			}
			<-done
		}
		switch kind {
		case "stale": // a user Publish lands between the republisher's read and its Publish
			gated(func(k string) { w.gateRGet = k }, func(k string) {
				for n := 1 + s.rnd.Intn(2); n > 0; n-- {
					switch s.rnd.Intn(6) {
					case 0:
						s.randPub("u1", w.keys)
					case 1:
						s.tick(1 + s.rnd.Intn(9))
					default:
						s.randPub("u2", []string{k})
					}
				}
			})
		case "corruptmid": // the record is destroyed between the read and the Publish
			gated(func(k string) { w.gateRGet = k }, func(k string) { w.corrupt(k, s.rnd.Intn(3)) })
		case "routegate": // the republisher's routing put is overtaken by a newer user record
			gated(func(k string) { w.gateRt = k }, func(k string) { s.randPub("u2", []string{k}); s.randPub("u1", w.keys) })
		case "cancel": // the context is cancelled in the middle of a round
			gated(func(k string) {
				if s.rnd.Intn(2) == 0 {
					w.gateRGet = k
				} else {
					w.gateRt = k
				}
			}, func(k string) {
				w.mu.Lock()
				cancel()
				w.emit(M{"ev": "Cancel"})
				w.mu.Unlock()
			})
		case "faults": // unparsable records, failing keystore / routing for some keys; rounds in between
			for n := 0; n < 4; n++ {
				k := s.pick(w.keys...)
				switch s.rnd.Intn(4) {
				case 0:
					if w.projDs(k)[0] != "none" {
						w.corrupt(k, s.rnd.Intn(3))
					}
				case 1:
					w.setRFail(k, !w.rfail[k])
				case 2:
					if k != w.keys[0] {
						w.setKsBad(k, !w.ksbad[k])
					}
				default:
					s.randPub("u1", w.keys)
				}
				if s.rnd.Intn(2) == 0 {
					w.round(ctx)
					s.tick(1 + s.rnd.Intn(12))
				}
			}
			w.round(ctx)
		case "free": // two user threads and the republisher run freely (real scheduling)
			var wg sync.WaitGroup
			nops, nrounds := 25, 12
			for _, u := range []string{"u1", "u2"} {
				wg.Add(1)
				go func(u string, r *rand.Rand) {
					defer wg.Done()
					us := &c03Scn{w: w, rnd: r}
					for i := 0; i < nops; i++ {
						if r.Intn(12) == 0 {
							k := us.pick(w.keys...)
							w.mu.Lock()
							on := !w.rfail[k]
							w.mu.Unlock()
							w.setRFail(k, on)
						} else {
							us.randPub(u, w.keys)
						}
					}
				}(u, rand.New(rand.NewSource(seed*7+int64(len(u))+int64(u[1]))))
			}
			wg.Add(1)
			go func() {
				defer wg.Done()
				for i := 0; i < nrounds; i++ {
					w.round(ctx)
				}
			}()
			wg.Wait()
		}
		// a final undisturbed round
		if kind != "cancel" {
			s.tick(1 + s.rnd.Intn(5))
			w.round(ctx)
		}
		synctest.Wait()
	})
}

func c03Record(t *testing.T) {
	seed := vSeed()
	kinds := []string{"stale", "stale", "stale", "corruptmid", "routegate", "cancel", "cancel", "faults", "faults", "free"}
	reps := 3
	if !vQuick() {
		reps = 12
	}
	n := int64(0)
	for r := 0; r < reps; r++ {
		for _, k := range kinds {
			n++
			c03Scenario(t, seed*1000+n, k)
		}
	}
}

func TestVerifX03(t *testing.T) {
	defer vFlush()
	switch vMode() {
	case "replay":
		c03Replay(t)
	case "record":
		c03Record(t)
	default:
		t.Skip("no VERIF_MODE")
	}
}
