//go:build verif

package resolver

// C33 harness: path resolution over real UnixFS DAGs vs. spec/PathResolve.
//
//	replay: TLC-generated trees (basic / HAMT directories, files, filler entries) are built with
//	        boxo's unixfs/io directories and stored in a blockservice; every query of the tree is
//	        resolved with the real basicResolver (ResolveToLastNode, ResolvePath,
//	        ResolvePathComponents) over a blockservice fetcher with the go-unixfsnode reifier and
//	        compared with the result ResolveTree dictates.
//	record: random larger and wider trees are generated here, logged once ("Tree") followed by
//	        one "Resolve" event per query and API; validated by TracePathResolve.
//
// Two things the property implies and the first version did not exercise (seeded change C33-1):
//   - the block source honours context cancellation (c33CtxBS: every blockstore / exchange call
//     with a finished context fails with ctx.Err(), as a network exchange or remote store does);
//     every resolver call gets its own context, cancelled only after the caller is done;
//   - what a resolution RETURNS is USED after the call has returned: a returned directory node
//     (ResolvePath, every component of ResolvePathComponents) is listed with its MapIterator and
//     looked up by name, a file node is read to the end, and the observation is compared with the
//     spec's Use(tree, node) -- entries of multi-block HAMT directories live in child shards
//     that are only loaded at that moment.  Files with an odd id span several blocks.
//
// Projection (trusted): name token -> real name (positive: pool of names that collide in the
// first HAMT levels for the chosen fanout plus "0", "Links", ...; negative: "fill-%04d");
// node id <-> CID (made unique per node: directories carry mtime = 1000+id, files "file-<id>").

import (
	"context"
	"encoding/json"
	"errors"
	"fmt"
	"io"
	"sort"
	"strconv"
	"strings"
	"testing"
	"time"

	"github.com/ipfs/boxo/blockservice"
	"github.com/ipfs/boxo/blockstore"
	chunker "github.com/ipfs/boxo/chunker"
	offline "github.com/ipfs/boxo/exchange/offline"
	bsfetcher "github.com/ipfs/boxo/fetcher/impl/blockservice"
	merkledag "github.com/ipfs/boxo/ipld/merkledag"
	ft "github.com/ipfs/boxo/ipld/unixfs"
	importer "github.com/ipfs/boxo/ipld/unixfs/importer"
	uio "github.com/ipfs/boxo/ipld/unixfs/io"
	"github.com/ipfs/boxo/path"
	blocks "github.com/ipfs/go-block-format"
	cid "github.com/ipfs/go-cid"
	datastore "github.com/ipfs/go-datastore"
	dssync "github.com/ipfs/go-datastore/sync"
	format "github.com/ipfs/go-ipld-format"
	"github.com/ipfs/go-unixfsnode"
	dagpb "github.com/ipld/go-codec-dagpb"
	"github.com/ipld/go-ipld-prime"
	cidlink "github.com/ipld/go-ipld-prime/linking/cid"
	basicnode "github.com/ipld/go-ipld-prime/node/basic"
	"github.com/ipld/go-ipld-prime/schema"
	"github.com/spaolacci/murmur3"
)

// ---------------------------------------------------------------- name pool

// c33Hash: the HAMT key of a name (murmur3 x64, first 8 bytes big endian), as boxo's hamt uses it
func c33Hash(s string) uint64 {
	h := murmur3.New64()
	h.Write([]byte(s))
	b := h.Sum(nil)
	var v uint64
	for i := 0; i < 8; i++ {
		v = v<<8 | uint64(b[i])
	}
	return v
}

// c33Collide searches a name whose hash shares the top `bits` bits with `with` (brute force).
func c33Collide(prefix string, with uint64, bits uint, skip map[string]bool) string {
	for i := 0; ; i++ {
		s := fmt.Sprintf("%s%d", prefix, i)
		if !skip[s] && c33Hash(s)>>(64-bits) == with>>(64-bits) {
			return s
		}
	}
}

var c33PoolCache []string

// pool[1..]: names 1,2,3 share the first 16 hash bits (5 levels at fanout 8, 4 at 16, 2 at 256);
// name 4 shares 8 bits with them; 5 = "0" (parses as a list index), 6 = "Links" (a dag-pb field
// name), 7 = "Data", 8.. plain names.
func c33Pool() []string {
	if c33PoolCache != nil {
		return c33PoolCache
	}
	base := "alpha"
	h := c33Hash(base)
	skip := map[string]bool{base: true}
	n2 := c33Collide("beta", h, 16, skip)
	skip[n2] = true
	n3 := c33Collide("gamma", h, 16, skip)
	skip[n3] = true
	n4 := c33Collide("delta", h, 8, skip)
	c33PoolCache = []string{"", base, n2, n3, n4, "0", "Links", "Data", "x y", "zeta", "eta"}
	return c33PoolCache
}

const c33Never = "no-such-entry"

func c33Name(tok int, k int) string {
	if tok < 0 {
		return fmt.Sprintf("fill-%04d", -tok)
	}
	p := c33Pool()
	if tok > k || tok >= len(p) {
		return c33Never // token K+1: a name that never exists
	}
	return p[tok]
}

// ---------------------------------------------------------------- model tree

type c33Node struct {
	P      int    `json:"p"`
	Nm     int    `json:"nm"`
	K      string `json:"k"`
	Filled bool   `json:"filled"`
}
type c33Tree struct {
	Rootk      string    `json:"rootk"`
	RootFilled bool      `json:"rootFilled"`
	Fill       int       `json:"fill"`
	Nodes      []c33Node `json:"nodes"`
}
type c33Res struct {
	St   string `json:"st"`
	At   int    `json:"at"`
	Idx  int    `json:"idx"`
	Name int    `json:"name"`
}

// c33Use: what a returned node gives when it is used (spec: Use(t, d, probe)); also the projection of
// the real observation.  Ents / Look are [name token, node id] pairs; Fill = count, lowest, highest
// filler number of the entries named fill-NNNN that link to the filler file.
type c33Use struct {
	Kind    string   `json:"kind"` // "dir" | "file" | "err"
	Ents    [][2]int `json:"ents"`
	Fill    [3]int   `json:"fill"`
	Look    [][2]int `json:"look"`
	Content int      `json:"content"`
	Msg     string   `json:"msg,omitempty"`
}
type c33Query struct {
	Segs   []int  `json:"segs"`
	R      c33Res `json:"r"`
	Via    []int  `json:"via"`    // ok: the node ids of root, first segment's target, ... (one per component)
	EhLast bool   `json:"ehLast"` // open finding Dev_C33_EmptyHamtUnreadable applies to ResolveToLastNode
	EhPath bool   `json:"ehPath"` // ... to ResolvePath / ResolvePathComponents
}
type c33Beh struct {
	K       string     `json:"k"`
	Fan     int        `json:"fan"`
	Kpool   int        `json:"kpool"`
	Tree    c33Tree    `json:"tree"`
	Uses    []c33Use   `json:"uses"` // Uses[d] for node id d = 0..n
	Fuse    c33Use     `json:"fuse"` // the shared filler file (node -1)
	Queries []c33Query `json:"queries"`
}

// ---------------------------------------------------------------- real DAG

// c33CtxBS is a blockstore that honours the request context, as any remote / network block source
// does: once the context is done every call fails with ctx.Err().
type c33CtxBS struct {
	blockstore.Blockstore
}

func (b c33CtxBS) Get(ctx context.Context, c cid.Cid) (blocks.Block, error) {
	if err := ctx.Err(); err != nil {
		return nil, err
	}
	return b.Blockstore.Get(ctx, c)
}
func (b c33CtxBS) Has(ctx context.Context, c cid.Cid) (bool, error) {
	if err := ctx.Err(); err != nil {
		return false, err
	}
	return b.Blockstore.Has(ctx, c)
}
func (b c33CtxBS) GetSize(ctx context.Context, c cid.Cid) (int, error) {
	if err := ctx.Err(); err != nil {
		return 0, err
	}
	return b.Blockstore.GetSize(ctx, c)
}
func (b c33CtxBS) Put(ctx context.Context, blk blocks.Block) error {
	if err := ctx.Err(); err != nil {
		return err
	}
	return b.Blockstore.Put(ctx, blk)
}
func (b c33CtxBS) PutMany(ctx context.Context, blks []blocks.Block) error {
	if err := ctx.Err(); err != nil {
		return err
	}
	return b.Blockstore.PutMany(ctx, blks)
}

type c33Sys struct {
	ctx  context.Context
	ds   format.DAGService
	tr   *c33Tree
	rev  map[string]int // real name -> token
	res  Resolver
	cids map[int]cid.Cid // node id -> CID  (0 root, -1 filler file)
	ids  map[string]int  // CID -> node id
	k    int
}

func c33Build(t *c33Tree, fan, k int) (*c33Sys, error) {
	ctx := context.Background()
	bstore := c33CtxBS{blockstore.NewBlockstore(dssync.MutexWrap(datastore.NewMapDatastore()))}
	bsrv := blockservice.New(bstore, offline.Exchange(bstore))
	ds := merkledag.NewDAGService(bsrv)
	s := &c33Sys{ctx: ctx, ds: ds, tr: t, cids: map[int]cid.Cid{}, ids: map[string]int{}, k: k,
		rev: map[string]int{c33Never: k + 1}}
	for i := 1; i <= k && i < len(c33Pool()); i++ {
		s.rev[c33Name(i, k)] = i
	}

	filler := merkledag.NodeWithData(ft.FilePBData([]byte("filler"), 6))
	if err := ds.Add(ctx, filler); err != nil {
		return nil, err
	}
	s.cids[-1] = filler.Cid()
	built := map[int]format.Node{}
	kind := func(id int) (string, bool) {
		if id == 0 {
			return t.Rootk, t.RootFilled
		}
		return t.Nodes[id-1].K, t.Nodes[id-1].Filled
	}
	// children have larger ids than their parent: build from the highest id down to the root
	for id := len(t.Nodes); id >= 0; id-- {
		kd, filled := kind(id)
		if kd == "f" {
			data := []byte(fmt.Sprintf("file-%d", id))
			if id%2 == 1 { // physical layout only: a file spanning several blocks (root + 4-byte leaves)
				data = []byte(fmt.Sprintf("file-%d;%s", id, strings.Repeat("0123456789", id)))
				nd, err := importer.BuildDagFromReader(ds, chunker.NewSizeSplitter(strings.NewReader(string(data)), 4))
				if err != nil {
					return nil, err
				}
				built[id] = nd
				continue
			}
			nd := merkledag.NodeWithData(ft.FilePBData(data, uint64(len(data))))
			if err := ds.Add(ctx, nd); err != nil {
				return nil, err
			}
			built[id] = nd
			continue
		}
		var dir uio.Directory
		var err error
		stat := uio.WithStat(0, time.Unix(int64(1000+id), 0)) // unique CID per directory
		if kd == "h" {
			dir, err = uio.NewHAMTDirectory(ds, 0, uio.WithMaxHAMTFanout(fan), stat)
		} else {
			dir, err = uio.NewBasicDirectory(ds, stat)
		}
		if err != nil {
			return nil, err
		}
		for j, c := range t.Nodes {
			if c.P == id {
				if err := dir.AddChild(ctx, c33Name(c.Nm, k), built[j+1]); err != nil {
					return nil, fmt.Errorf("AddChild(%q): %w", c33Name(c.Nm, k), err)
				}
			}
		}
		if filled {
			for f := 1; f <= t.Fill; f++ {
				if err := dir.AddChild(ctx, c33Name(-f, k), filler); err != nil {
					return nil, err
				}
			}
		}
		nd, err := dir.GetNode()
		if err != nil {
			return nil, err
		}
		if err := ds.Add(ctx, nd); err != nil {
			return nil, err
		}
		built[id] = nd
	}
	for id, nd := range built {
		s.cids[id] = nd.Cid()
	}
	for id, c := range s.cids {
		if old, dup := s.ids[c.KeyString()]; dup {
			return nil, fmt.Errorf("projection: nodes %d and %d have the same CID", old, id)
		}
		s.ids[c.KeyString()] = id
	}
	ff := bsfetcher.NewFetcherConfig(bsrv)
	ff.NodeReifier = unixfsnode.Reify
	ff.PrototypeChooser = dagpb.AddSupportToChooser(func(lnk ipld.Link, lnkCtx ipld.LinkContext) (ipld.NodePrototype, error) {
		if tlnkNd, ok := lnkCtx.LinkNode.(schema.TypedLinkNode); ok {
			return tlnkNd.LinkTargetNodePrototype(), nil
		}
		return basicnode.Prototype.Any, nil
	})
	s.res = NewBasicResolver(ff)
	return s, nil
}

func (s *c33Sys) path(segs []int) (path.ImmutablePath, error) {
	names := make([]string, len(segs))
	for i, t := range segs {
		names[i] = c33Name(t, s.k)
	}
	p, err := path.Join(path.FromCid(s.cids[0]), names...)
	if err != nil {
		return path.ImmutablePath{}, err
	}
	return path.NewImmutablePath(p)
}

// c33Out is the projected result of one resolver call.
type c33Out struct {
	OK     bool   // no error
	Target int    // node id of the returned CID (-99: unknown CID)
	Rem    int    // length of the returned remainder (ResolveToLastNode)
	Err    string // "" | "nolink" | "other"
	Name   string // ErrNoLink.Name
	Msg    string
	N      int      // ResolvePathComponents: number of nodes
	Uses   []c33Use // the returned node(s), used after the call returned (path: 1, comps: N)
}

func (s *c33Sys) id(c cid.Cid) int {
	if id, ok := s.ids[c.KeyString()]; ok {
		return id
	}
	return -99
}
func c33Err(err error, o *c33Out) {
	o.Msg = err.Error()
	var nl *ErrNoLink
	if errors.As(err, &nl) {
		o.Err, o.Name = "nolink", nl.Name
	} else {
		o.Err = "other"
	}
}

// tok: real entry name -> token (0 = a name the model does not know); filler names -> -number
func (s *c33Sys) tok(name string) int {
	if v, ok := s.rev[name]; ok {
		return v
	}
	var n int
	if len(name) == 9 && strings.HasPrefix(name, "fill-") {
		if _, err := fmt.Sscanf(name[5:], "%d", &n); err == nil && n > 0 && c33Name(-n, s.k) == name {
			return -n
		}
	}
	return 0
}

const (
	c33NoEntry = -2  // spec NoEntry
	c33Unknown = -99 // a CID that is no node of the tree
	c33Failed  = -97 // the operation on the node failed
)

func (s *c33Sys) linkID(n ipld.Node) int {
	if n == nil {
		return c33Failed
	}
	l, err := n.AsLink()
	if err != nil {
		return c33Failed
	}
	cl, ok := l.(cidlink.Link)
	if !ok {
		return c33Unknown
	}
	return s.id(cl.Cid)
}

// use does with a returned node what a caller does with it: a map-kinded node (directory) is listed
// and looked up by the probe names, a bytes-kinded node (file) is read to the end.
func (s *c33Sys) use(nd ipld.Node, probe []int) c33Use {
	u := c33Use{Ents: [][2]int{}, Look: [][2]int{}}
	fail := func(what string, err error) c33Use {
		u.Kind, u.Msg = "err", what+": "+err.Error()
		return u
	}
	switch nd.Kind() {
	case ipld.Kind_Map:
		u.Kind = "dir"
		seen := map[int]bool{}
		for it := nd.MapIterator(); !it.Done(); {
			kn, vn, err := it.Next()
			if err != nil {
				return fail("listing the returned directory", err)
			}
			name, err := kn.AsString()
			if err != nil {
				return fail("entry name", err)
			}
			tk, id := s.tok(name), s.linkID(vn)
			if tk < 0 && id == -1 && !seen[tk] { // a filler entry: summarized
				seen[tk] = true
				if u.Fill[0] == 0 || -tk < u.Fill[1] {
					u.Fill[1] = -tk
				}
				if -tk > u.Fill[2] {
					u.Fill[2] = -tk
				}
				u.Fill[0]++
				continue
			}
			u.Ents = append(u.Ents, [2]int{tk, id})
		}
		for _, p := range probe {
			v, err := nd.LookupByString(c33Name(p, s.k))
			var nsf schema.ErrNoSuchField
			switch {
			case err == nil:
				u.Look = append(u.Look, [2]int{p, s.linkID(v)})
			case errors.As(err, &nsf):
				u.Look = append(u.Look, [2]int{p, c33NoEntry})
			default:
				return fail(fmt.Sprintf("looking up %q in the returned directory", c33Name(p, s.k)), err)
			}
		}
	case ipld.Kind_Bytes:
		u.Kind = "file"
		var data []byte
		var err error
		if lb, ok := nd.(interface {
			AsLargeBytes() (io.ReadSeeker, error)
		}); ok {
			var r io.ReadSeeker
			if r, err = lb.AsLargeBytes(); err == nil {
				data, err = io.ReadAll(r)
			}
		} else {
			data, err = nd.AsBytes()
		}
		if err != nil {
			return fail("reading the returned file", err)
		}
		u.Content = c33Unknown
		str := string(data)
		var id int
		if str == "filler" {
			u.Content = -1
		} else if _, e := fmt.Sscanf(str, "file-%d", &id); e == nil &&
			(str == fmt.Sprintf("file-%d", id) || str == fmt.Sprintf("file-%d;%s", id, strings.Repeat("0123456789", id))) {
			u.Content = id
		}
	default:
		u.Kind, u.Msg = "err", "returned node has kind "+nd.Kind().String()
	}
	sort.Slice(u.Ents, func(i, j int) bool {
		return u.Ents[i][0] < u.Ents[j][0] || (u.Ents[i][0] == u.Ents[j][0] && u.Ents[i][1] < u.Ents[j][1])
	})
	sort.Slice(u.Look, func(i, j int) bool { return u.Look[i][0] < u.Look[j][0] })
	return u
}

// c33UseDiff compares an observation with the spec's Use record ("" = agree).
func c33UseDiff(got, want *c33Use) string {
	if got.Kind != want.Kind {
		return fmt.Sprintf("is a %q (%s), spec: a %q", got.Kind, got.Msg, want.Kind)
	}
	if want.Kind == "file" {
		if got.Content != want.Content {
			return fmt.Sprintf("reads as the bytes of file %d (-99 = of no file of the tree), spec: file %d", got.Content, want.Content)
		}
		return ""
	}
	w := append([][2]int{}, want.Ents...)
	sort.Slice(w, func(i, j int) bool { return w[i][0] < w[j][0] })
	if fmt.Sprint(got.Ents) != fmt.Sprint(w) {
		return fmt.Sprintf("lists entries [name token, node] %v, spec %v", got.Ents, w)
	}
	if got.Fill != want.Fill {
		return fmt.Sprintf("lists filler entries [count lowest highest] %v, spec %v", got.Fill, want.Fill)
	}
	l := append([][2]int{}, want.Look...)
	sort.Slice(l, func(i, j int) bool { return l[i][0] < l[j][0] })
	if fmt.Sprint(got.Look) != fmt.Sprint(l) {
		return fmt.Sprintf("lookups [name token, node; -2 = no entry] %v, spec %v", got.Look, l)
	}
	return ""
}

// call runs one resolver API with a context of its own that is cancelled only when the caller is
// done with what the call returned (probe: the names looked up on returned directory nodes).
func (s *c33Sys) call(api string, segs []int, probe []int) c33Out {
	var o c33Out
	ip, err := s.path(segs)
	if err != nil {
		o.Err, o.Msg = "other", "path: "+err.Error()
		return o
	}
	ctx, cancel := context.WithCancel(s.ctx)
	defer cancel()
	switch api {
	case "last":
		c, rem, err := s.res.ResolveToLastNode(ctx, ip)
		if err != nil {
			c33Err(err, &o)
			return o
		}
		o.OK, o.Target, o.Rem = true, s.id(c), len(rem)
	case "path":
		nd, lnk, err := s.res.ResolvePath(ctx, ip)
		if err != nil {
			c33Err(err, &o)
			return o
		}
		o.OK = true
		o.Target = -99
		if cl, ok := lnk.(cidlink.Link); ok && nd != nil {
			o.Target = s.id(cl.Cid)
			o.Uses = []c33Use{s.use(nd, probe)}
		}
	case "comps":
		nds, err := s.res.ResolvePathComponents(ctx, ip)
		if err != nil {
			c33Err(err, &o)
			return o
		}
		o.OK, o.N = true, len(nds)
		for _, nd := range nds {
			o.Uses = append(o.Uses, s.use(nd, probe))
		}
	}
	return o
}

const c33DevPath = "Dev_C33_ResolvePathNoLinkError"
const c33DevEmpty = "Dev_C33_EmptyHamtUnreadable"
const c33EmptyMsg = "'Data' field not present"

// compare one query; returns ("", "") when the real results agree with the spec
func (s *c33Sys) check(b *c33Beh, q *c33Query) (what string, dev string) {
	segs := fmt.Sprint(q.Segs)
	var probe []int // the names the spec's Use records answer for
	for _, l := range b.Uses[0].Look {
		probe = append(probe, l[0])
	}
	want := func(id int) *c33Use {
		if id == -1 {
			return &b.Fuse
		}
		return &b.Uses[id]
	}
	for _, api := range []string{"last", "path", "comps"} {
		o := s.call(api, q.Segs, probe)
		// as built: a block of an entry-less HAMT directory cannot be decoded by the pathing reifier
		if eh := (api == "last" && q.EhLast) || (api != "last" && q.EhPath); eh && !o.OK && o.Err == "other" && strings.Contains(o.Msg, c33EmptyMsg) {
			if dev == "" {
				dev = c33DevEmpty
				what = fmt.Sprintf("%s%s: error %q, spec %s (the walk decodes an entry-less HAMT directory)", api, segs, o.Msg, q.R.St)
			}
			continue
		}
		switch q.R.St {
		case "ok":
			if !o.OK {
				return fmt.Sprintf("%s%s: error %q, spec: resolves to node %d", api, segs, o.Msg, q.R.At), ""
			}
			if api == "comps" {
				if o.N != len(q.Segs)+1 || len(q.Via) != o.N {
					return fmt.Sprintf("comps%s: %d nodes, spec %d", segs, o.N, len(q.Via)), ""
				}
				for j := range o.Uses { // every returned component is the node its prefix names
					if d := c33UseDiff(&o.Uses[j], want(q.Via[j])); d != "" {
						return fmt.Sprintf("comps%s: component %d, used after the call returned, %s (node %d)", segs, j, d, q.Via[j]), ""
					}
				}
				continue
			}
			if o.Target != q.R.At || o.Rem != 0 {
				return fmt.Sprintf("%s%s: node %d (cid of another node = -99 unknown) remainder %d, spec node %d remainder 0", api, segs, o.Target, o.Rem, q.R.At), ""
			}
			if api == "path" {
				if len(o.Uses) != 1 {
					return fmt.Sprintf("path%s: no node returned", segs), ""
				}
				if d := c33UseDiff(&o.Uses[0], want(q.R.At)); d != "" {
					return fmt.Sprintf("path%s: the returned node, used after the call returned, %s (node %d)", segs, d, q.R.At), ""
				}
			}
		case "nolink":
			want := c33Name(q.R.Name, s.k)
			if api == "comps" {
				continue // ResolvePathComponents reports a missing name by a shorter result (not part of the property)
			}
			if o.OK {
				return fmt.Sprintf("%s%s: resolved to node %d, spec: no link named %q (segment %d)", api, segs, o.Target, want, q.R.Idx), ""
			}
			if o.Err == "nolink" && o.Name == want {
				continue
			}
			if api == "path" && o.Err == "other" && strings.Contains(o.Msg, "did not resolve to a node") {
				if dev == "" {
					dev = c33DevPath
					what = fmt.Sprintf("path%s: error %q is not an ErrNoLink naming %q", segs, o.Msg, want)
				}
				continue // keep checking the other APIs; report the deviation unless a real disagreement shows up
			}
			return fmt.Sprintf("%s%s: error kind %s name %q (%s), spec: no link named %q (segment %d)", api, segs, o.Err, o.Name, o.Msg, want, q.R.Idx), ""
		case "notdir":
			if api != "comps" && o.OK {
				return fmt.Sprintf("%s%s: resolved to node %d, spec: error (path continues below a file)", api, segs, o.Target), ""
			}
		}
	}
	return what, dev
}

// c33ReplayOne builds one tree and checks all its queries.
func c33ReplayOne(i int, raw json.RawMessage) M {
	var b c33Beh
	if err := json.Unmarshal(raw, &b); err != nil {
		return M{"i": i, "ok": false, "step": 0, "what": "harness: cannot parse behaviour: " + err.Error()}
	}
	s, err := c33Build(&b.Tree, b.Fan, b.Kpool)
	if err != nil {
		return M{"i": i, "ok": false, "step": 0, "what": "building the DAG: " + err.Error()}
	}
	// one reported deviation per tree: the entry-less HAMT finding first (rarer), else the ResolvePath one
	if len(b.Uses) != len(b.Tree.Nodes)+1 || len(b.Uses[0].Look) == 0 {
		return M{"i": i, "ok": false, "step": 0, "what": "harness: behaviour without the spec's Use records"}
	}
	devs := map[string][2]interface{}{}
	for k := range b.Queries {
		what, dev := s.check(&b, &b.Queries[k])
		if what != "" && dev == "" {
			return M{"i": i, "ok": false, "step": k + 1, "what": what}
		}
		if _, seen := devs[dev]; dev != "" && !seen {
			devs[dev] = [2]interface{}{what, k + 1}
		}
	}
	res := M{"i": i, "ok": true}
	for _, d := range []string{c33DevPath, c33DevEmpty} {
		if v, ok := devs[d]; ok {
			res = M{"i": i, "ok": false, "step": v[1], "what": v[0], "dev": d}
		}
	}
	return res
}

const c33ResTag = "C33RES "

// The replay runs in a child process: a defect in the HAMT code can overflow the stack or loop
// while a tree is built, which is fatal in Go.  The child prints one result line per tree; when
// it dies, the tree after the last reported one is recorded as crashed and a new child continues.
func c33ReplayChild(payload string) {
	var start, end int
	fmt.Sscanf(payload, "%d,%d", &start, &end)
	for i, raw := range vIn() {
		if i < start || i >= end {
			continue
		}
		b, _ := json.Marshal(c33ReplayOne(i, raw))
		fmt.Println(c33ResTag + string(b))
	}
}

func c33Replay(t *testing.T) {
	if payload, ok := vChildPayload(); ok {
		c33ReplayChild(payload)
		return
	}
	total := len(vIn())
	next, crashes := 0, 0
	reported := 0 // disagreements passed on (the runner writes one replay file each): the first 25 only
	for next < total {
		if crashes >= 10 {
			vEmit(M{"i": next, "ok": false, "step": 0, "what": "not executed: 10 earlier trees crashed the real code"})
			next++
			continue
		}
		// chunks of 150 trees keep a child far below the test binary's default 10 min timeout
		end := next + 150
		if end > total {
			end = total
		}
		out, outcome := vChild("TestVerifC33", strconv.Itoa(next)+","+strconv.Itoa(end), 9*time.Minute)
		tail := ""
		for _, line := range strings.Split(out, "\n") {
			if strings.HasPrefix(line, c33ResTag) {
				var r M
				if json.Unmarshal([]byte(line[len(c33ResTag):]), &r) == nil {
					if ok, _ := r["ok"].(bool); !ok && r["dev"] == nil {
						if reported++; reported > 25 { // a broken tree fails hundreds of trees the same way
							r = M{"i": r["i"], "ok": true, "suppressed": r["what"]}
						}
					}
					vEmit(r)
					next++
				}
			} else if len(tail) < 600 && strings.TrimSpace(line) != "" && !strings.HasPrefix(line, "=== ") {
				tail += strings.TrimSpace(line) + " | "
			}
		}
		if next < end {
			crashes++
			vEmit(M{"i": next, "ok": false, "step": 0,
				"what": "the real code did not survive this tree (child " + outcome + "): " + tail})
			next++
		}
	}
	vEmit(M{"summary": true, "n": total})
}

// ---------------------------------------------------------------- record

func c33Record(t *testing.T) {
	rng := vRand()
	runs := 4
	if !vQuick() {
		runs = 40
	}
	const k = 8 // pool names 1..8
	for r := 0; r < runs; r++ {
		fan := []int{8, 16, 256}[rng.Intn(3)]
		fill := []int{0, 30, 300, 700}[rng.Intn(4)]
		kinds := []string{"b", "h", "f"}
		tr := c33Tree{Rootk: kinds[rng.Intn(2)], RootFilled: fill > 0 && rng.Intn(2) == 0, Fill: fill}
		depth := map[int]int{0: 0}
		nn := 3 + rng.Intn(10)
		for len(tr.Nodes) < nn {
			// parent: a directory of depth < 4
			var dirs []int
			for id := 0; id <= len(tr.Nodes); id++ {
				isDir := id == 0 || tr.Nodes[id-1].K != "f"
				if isDir && depth[id] < 4 {
					dirs = append(dirs, id)
				}
			}
			p := dirs[rng.Intn(len(dirs))]
			nm := 1 + rng.Intn(k)
			dup := false
			for _, c := range tr.Nodes {
				if c.P == p && c.Nm == nm {
					dup = true
				}
			}
			if dup {
				continue
			}
			kd := kinds[rng.Intn(3)]
			tr.Nodes = append(tr.Nodes, c33Node{P: p, Nm: nm, K: kd, Filled: kd != "f" && fill > 0 && rng.Intn(3) == 0})
			depth[len(tr.Nodes)] = depth[p] + 1
		}
		// entry-less HAMT directories are an open finding of their own: keep only a quarter of them
		for i := range tr.Nodes {
			hasChild := false
			for _, c := range tr.Nodes {
				hasChild = hasChild || c.P == i+1
			}
			if tr.Nodes[i].K == "h" && !hasChild && !tr.Nodes[i].Filled && rng.Intn(4) > 0 {
				tr.Nodes[i].K = "b"
			}
		}
		s, err := c33Build(&tr, fan, k)
		if err != nil {
			t.Fatal(err)
		}
		vEmit(M{"ev": "Tree", "fan": fan, "tree": tr})
		// queries: the path of every node, every (directory, name) pair with 0..2 more segments
		pathTo := func(id int) []int {
			var rev []int
			for id != 0 {
				rev = append(rev, tr.Nodes[id-1].Nm)
				id = tr.Nodes[id-1].P
			}
			out := make([]int, len(rev))
			for i := range rev {
				out[i] = rev[len(rev)-1-i]
			}
			return out
		}
		var qs [][]int
		for id := 0; id <= len(tr.Nodes); id++ {
			base := pathTo(id)
			qs = append(qs, base)
			for _, m := range []int{1 + rng.Intn(k), 1 + rng.Intn(k), k + 1, -1, -fill, -(fill + 1)} {
				if m == 0 {
					continue
				}
				q := append(append([]int{}, base...), m)
				qs = append(qs, q)
				if rng.Intn(2) == 0 {
					qs = append(qs, append(append([]int{}, q...), 1+rng.Intn(k)))
				}
				if rng.Intn(4) == 0 {
					qs = append(qs, append(append([]int{}, q...), 1+rng.Intn(k), 1+rng.Intn(k)))
				}
			}
		}
		for _, q := range qs {
			// names looked up on a returned directory: three pool names, the never-existing one, filler bounds
			probe := []int{1 + rng.Intn(k), 1 + rng.Intn(k), 1 + rng.Intn(k), k + 1, -1, -(fill + 1)}
			if fill > 0 {
				probe = append(probe, -fill)
			}
			sort.Ints(probe)
			uniq := probe[:1]
			for _, p := range probe[1:] {
				if p != uniq[len(uniq)-1] {
					uniq = append(uniq, p)
				}
			}
			probe = uniq
			for _, api := range []string{"last", "path"} {
				o := s.call(api, q, probe)
				name := 0
				if o.Err == "nolink" {
					name = s.tok(o.Name)
				}
				ev := M{"ev": "Resolve", "api": api, "segs": q, "ok": o.OK, "target": o.Target, "rem": o.Rem,
					"err": o.Err, "name": name, "generic": strings.Contains(o.Msg, "did not resolve to a node"), "nodata": strings.Contains(o.Msg, c33EmptyMsg)}
				if len(o.Uses) == 1 { // ResolvePath: what the returned node gave when used after the call
					ev["use"] = o.Uses[0]
				}
				vEmit(ev)
			}
		}
	}
}

func TestVerifC33(t *testing.T) {
	defer vFlush()
	switch vMode() {
	case "replay":
		c33Replay(t)
	case "record":
		c33Record(t)
	default:
		t.Skip("no VERIF_MODE")
	}
}
