//go:build verif

package peering

// C46 harness (phase T): drives the real PeeringService against a fake host.Host / network.Network and
// records every critical section as an NDJSON event for spec/Peering/TracePeering.tla.
//
//   * The fake network answers Connectedness from a scripted table, records who asks (the caller is inside
//     the handler's critical section: kind from the call stack, handler = the one whose mutex is held), and
//     delivers Connected/Disconnected notifications to the registered notifee.
//   * The fake host's Connect records the call and blocks until the harness decides the outcome (or the
//     handler's context is cancelled).
//   * The harness is the clock: initialDelay is 5 s, so no timer fires by itself during a run; "fire" resets an
//     armed reconnectTimer to 1 ns under the handler's mutex (= spec action TimerFire).
//   * The run executes with GOMAXPROCS(1): goroutines spawned by the service (go startIfDisconnected, ...) do
//     not run before the harness yields ("settle"), which is how a notification goroutine is made to run after
//     Stop()/RemovePeer().  The order is never assumed, only observed: the spec validates what happened.
//   * handler.stop() is observed and gated at its sub-steps: every handler's ph.cancel is replaced by a wrapper that
//     logs HCancel (with what it sees of the timer) at the moment of the real cancel and, when the script asks for it
//     ("stop pre|post|both", "remove p pre|post|both"), lets all pending goroutines of the service run before and/or
//     after the real cancel, i.e. between the sub-steps of stop() in whatever order the code has them.
//   * nextBackoff itself is driven directly (sequences of 100 consecutive failures) for spec/Peering/TraceBackoff.
//
// Projection (trusted): peer <-> "a"/"b", handler <-> creation number, timer state none/armed/fired
// (reconnectTimer == nil / Stop() reports active / not), delay class init/grown/bad, ctx cancelled.

import (
	"context"
	"errors"
	"fmt"
	"math/rand"
	"runtime"
	"strings"
	"sync"
	"testing"
	"time"

	"github.com/libp2p/go-libp2p/core/connmgr"
	"github.com/libp2p/go-libp2p/core/host"
	"github.com/libp2p/go-libp2p/core/network"
	"github.com/libp2p/go-libp2p/core/peer"
)

type c46Handler struct {
	id   int
	name string
	ph   *peerHandler
}

type c46Gate struct {
	h       int
	ph      *peerHandler
	decided string // "" | "ok" | "fail" | "cancel"
	cmd     chan struct{}
}

type c46Sys struct {
	mu        sync.Mutex
	dead      bool
	events    []M
	connected map[string]bool
	notifees  []network.Notifiee
	handlers  []*c46Handler
	gates     []*c46Gate // Connect calls waiting for a decision
	ps        *PeeringService
	host      *c46Host
	net       *c46Net
	ids       map[string]peer.ID
	names     map[peer.ID]string
	gate      string // "" | "pre" | "post" | "both": where the cancel wrapper yields during the API call in progress
}

// goroutines of the test process before the first run (a leftover goroutine of an earlier run then only
// prevents Quiet events, it can never produce a wrong one)
var c46Base int

type c46Host struct {
	host.Host
	s *c46Sys
}

func (h *c46Host) Network() network.Network         { return h.s.net }
func (h *c46Host) ConnManager() connmgr.ConnManager { return connmgr.NullConnMgr{} }
func (h *c46Host) ID() peer.ID                      { return peer.ID("c46-self") }
func (h *c46Host) Connect(ctx context.Context, pi peer.AddrInfo) error {
	return h.s.connect(ctx, pi)
}

type c46Net struct {
	network.Network
	s *c46Sys
}

type c46Conn struct {
	network.Conn
	p peer.ID
}

func (c *c46Conn) RemotePeer() peer.ID { return c.p }

func (n *c46Net) Notify(f network.Notifiee) {
	n.s.mu.Lock()
	n.s.notifees = append(n.s.notifees, f)
	n.s.mu.Unlock()
}

func (n *c46Net) StopNotify(f network.Notifiee) {
	n.s.mu.Lock()
	for i, g := range n.s.notifees {
		if g == f {
			n.s.notifees = append(n.s.notifees[:i:i], n.s.notifees[i+1:]...)
			break
		}
	}
	n.s.mu.Unlock()
}

func c46Class(d time.Duration) string {
	switch {
	case d == initialDelay:
		return "init"
	case d > initialDelay && d <= maxBackoff:
		return "grown"
	}
	return "bad"
}

// Connectedness is called by startIfDisconnected / stopIfConnected inside the handler's critical section.
func (n *c46Net) Connectedness(p peer.ID) network.Connectedness {
	s := n.s
	kind := "stopc"
	pcs := make([]uintptr, 16)
	fr := runtime.CallersFrames(pcs[:runtime.Callers(2, pcs)])
	for {
		f, more := fr.Next()
		if strings.HasSuffix(f.Function, ".startIfDisconnected") {
			kind = "start"
		}
		if strings.HasSuffix(f.Function, ".reconnect") {
			kind = "rstopc"
		}
		if !more {
			break
		}
	}
	s.mu.Lock()
	defer s.mu.Unlock()
	name := s.names[p]
	conn := s.connected[name]
	if !s.dead {
		// the handler whose mutex is held is the caller
		h := 0
		for _, hd := range s.handlers {
			if hd.name != name {
				continue
			}
			if hd.ph.mu.TryLock() {
				hd.ph.mu.Unlock()
			} else if h == 0 {
				h = hd.id
			} else {
				h = -1 // ambiguous
			}
		}
		if h < 0 {
			h = 0
		}
		s.events = append(s.events, M{"ev": "Run", "kind": kind, "h": h, "p": name, "conn": conn})
	}
	if conn {
		return network.Connected
	}
	return network.NotConnected
}

func (s *c46Sys) emit(m M) {
	s.mu.Lock()
	if !s.dead {
		s.events = append(s.events, m)
	}
	s.mu.Unlock()
}

func (s *c46Sys) connect(ctx context.Context, pi peer.AddrInfo) error {
	s.mu.Lock()
	var hd *c46Handler
	for _, x := range s.handlers {
		if x.ph.ctx == ctx {
			hd = x
		}
	}
	if hd == nil || s.dead {
		s.mu.Unlock()
		return errors.New("c46: run is over")
	}
	canc := ctx.Err() != nil
	s.events = append(s.events, M{"ev": "DialStart", "h": hd.id, "cancelled": canc})
	if canc {
		s.events = append(s.events, M{"ev": "DialRet", "h": hd.id, "res": "cancel"})
		s.mu.Unlock()
		return ctx.Err()
	}
	g := &c46Gate{h: hd.id, ph: hd.ph, cmd: make(chan struct{})}
	s.gates = append(s.gates, g)
	s.mu.Unlock()
	select {
	case <-g.cmd:
	case <-ctx.Done():
	}
	s.mu.Lock()
	defer s.mu.Unlock()
	if g.decided == "" { // cancelled while in flight
		g.decided = "cancel"
		s.dropGate(g)
		if !s.dead {
			s.events = append(s.events, M{"ev": "DialRet", "h": hd.id, "res": "cancel"})
		}
	}
	if g.decided == "ok" {
		return nil
	}
	return errors.New("c46: dial " + g.decided)
}

func (s *c46Sys) dropGate(g *c46Gate) {
	for i, x := range s.gates {
		if x == g {
			s.gates = append(s.gates[:i:i], s.gates[i+1:]...)
			return
		}
	}
}

func c46New(connA, connB bool) *c46Sys {
	s := &c46Sys{connected: map[string]bool{"a": connA, "b": connB}, ids: map[string]peer.ID{}, names: map[peer.ID]string{}}
	for _, n := range []string{"a", "b"} {
		id := peer.ID("c46-peer-" + n)
		s.ids[n], s.names[id] = id, n
	}
	s.host = &c46Host{s: s}
	s.net = &c46Net{s: s}
	s.ps = NewPeeringService(s.host)
	s.events = append(s.events, M{"ev": "Reset", "conn": M{"a": connA, "b": connB}})
	return s
}

// ---- harness commands -------------------------------------------------------------------------

func (s *c46Sys) add(p string) {
	s.ps.mu.RLock()
	_, had := s.ps.peers[s.ids[p]]
	s.ps.mu.RUnlock()
	h := 0
	if !had {
		h = len(s.handlers) + 1
	}
	s.emit(M{"ev": "AddPeer", "p": p, "h": h})
	// the handler must be known before its goroutine can call the fake: register right after AddPeer
	// returns (GOMAXPROCS(1): the spawned goroutine has not run yet; if it has, Run carries h = 0)
	s.ps.AddPeer(peer.AddrInfo{ID: s.ids[p]})
	if !had {
		s.ps.mu.RLock()
		ph := s.ps.peers[s.ids[p]]
		s.ps.mu.RUnlock()
		hd := &c46Handler{id: h, name: p, ph: ph}
		s.mu.Lock()
		s.handlers = append(s.handlers, hd)
		s.mu.Unlock()
		s.wrapCancel(hd)
	}
}

// wrapCancel replaces ph.cancel (called by handler.stop() only, under ps.mu, hence never concurrently with this
// write) by a wrapper that logs the sub-step and can let the pending goroutines run around it.
func (s *c46Sys) wrapCancel(hd *c46Handler) {
	orig := hd.ph.cancel
	hd.ph.cancel = func() {
		s.mu.Lock()
		dead, gate := s.dead, s.gate
		s.mu.Unlock()
		if dead {
			orig()
			return
		}
		if gate == "pre" || gate == "both" {
			s.yield()
		}
		s.mu.Lock()
		tm := "locked"
		if hd.ph.mu.TryLock() {
			tm = "none"
			if hd.ph.reconnectTimer != nil {
				tm = "set"
			}
			hd.ph.mu.Unlock()
		}
		if !s.dead {
			s.events = append(s.events, M{"ev": "HCancel", "h": hd.id, "tm": tm})
		}
		orig()
		s.mu.Unlock()
		if gate == "post" || gate == "both" {
			s.yield()
		}
	}
}

func (s *c46Sys) setGate(g string) {
	s.mu.Lock()
	s.gate = g
	s.mu.Unlock()
}

func (s *c46Sys) remove(p, gate string) {
	s.emit(M{"ev": "RemoveCall", "p": p})
	s.setGate(gate)
	s.ps.RemovePeer(s.ids[p])
	s.setGate("")
	s.emit(M{"ev": "RemoveRet"})
}

func (s *c46Sys) start() {
	s.emit(M{"ev": "StartCall"})
	err := s.ps.Start()
	s.emit(M{"ev": "StartRet", "err": err != nil})
}

func (s *c46Sys) stop(gate string) {
	s.emit(M{"ev": "StopCall"})
	s.setGate(gate)
	s.ps.Stop()
	s.setGate("")
	s.emit(M{"ev": "StopRet"})
}

// env changes the connectedness the network reports and notifies like the swarm does.
func (s *c46Sys) env(p string, up bool) {
	s.mu.Lock()
	if s.connected[p] == up {
		s.mu.Unlock()
		return
	}
	s.connected[p] = up
	ns := append([]network.Notifiee{}, s.notifees...)
	ev := "EnvDisc"
	if up {
		ev = "EnvConn"
	}
	s.events = append(s.events, M{"ev": ev, "p": p, "reg": len(ns) > 0})
	s.mu.Unlock()
	for _, n := range ns {
		if up {
			n.Connected(s.net, &c46Conn{p: s.ids[p]})
		} else {
			n.Disconnected(s.net, &c46Conn{p: s.ids[p]})
		}
	}
}

// obs reads a handler's state under its mutex; an armed timer is re-armed far in the future.
func (s *c46Sys) obs(hd *c46Handler) string {
	hd.ph.mu.Lock()
	defer hd.ph.mu.Unlock()
	st := "none"
	if t := hd.ph.reconnectTimer; t != nil {
		if t.Stop() {
			st = "armed"
			t.Reset(time.Hour)
		} else {
			st = "fired"
		}
	}
	s.emit(M{"ev": "Obs", "h": hd.id, "timer": st, "delay": c46Class(hd.ph.nextDelay), "cancelled": hd.ph.ctx.Err() != nil})
	return st
}

func (s *c46Sys) obsAll() {
	s.mu.Lock()
	hs := append([]*c46Handler{}, s.handlers...)
	s.mu.Unlock()
	for _, hd := range hs {
		s.obs(hd)
	}
}

// fire makes an armed timer of handler hd expire now; false if it is not armed.
func (s *c46Sys) fire(hd *c46Handler) bool {
	hd.ph.mu.Lock()
	t := hd.ph.reconnectTimer
	if t == nil || !t.Stop() {
		hd.ph.mu.Unlock()
		return false
	}
	s.emit(M{"ev": "TimerFire", "h": hd.id})
	t.Reset(time.Nanosecond)
	hd.ph.mu.Unlock()
	return true
}

// decide resolves the oldest waiting Connect call.
func (s *c46Sys) decide(ok bool) bool {
	s.mu.Lock()
	if len(s.gates) == 0 {
		s.mu.Unlock()
		return false
	}
	g := s.gates[0]
	if ok && g.ph.ctx.Err() != nil {
		ok = false // a cancelled context never connects (the goroutine will report "cancel" itself)
		s.mu.Unlock()
		return false
	}
	s.dropGate(g)
	var ns []network.Notifiee
	name := ""
	if ok {
		g.decided = "ok"
		for _, hd := range s.handlers {
			if hd.id == g.h {
				name = hd.name
			}
		}
		if !s.connected[name] {
			s.connected[name] = true
			ns = append(ns, s.notifees...)
		}
		s.events = append(s.events, M{"ev": "DialRet", "h": g.h, "res": "ok"})
	} else {
		g.decided = "fail"
		s.events = append(s.events, M{"ev": "DialRet", "h": g.h, "res": "fail"})
	}
	s.mu.Unlock()
	for _, n := range ns { // the network notifies before Connect returns
		n.Connected(s.net, &c46Conn{p: s.ids[name]})
	}
	close(g.cmd)
	return true
}

// settle yields until every goroutine of the service has finished or waits in Connect; then Quiet is logged.
func (s *c46Sys) settle() bool { return s.yieldUntilQuiet(true) }

// yield does the same from inside an API call (between the sub-steps of handler.stop()): nothing is logged, and
// goroutines that wait for a mutex held by the call simply stay pending.
func (s *c46Sys) yield() { s.yieldUntilQuiet(false) }

func (s *c46Sys) yieldUntilQuiet(log bool) bool {
	for i := 0; i < 400; i++ {
		runtime.Gosched()
		s.mu.Lock()
		waiting := len(s.gates)
		s.mu.Unlock()
		if runtime.NumGoroutine() <= c46Base+waiting {
			if log {
				s.emit(M{"ev": "Quiet", "dials": waiting})
			}
			return true
		}
		if i > 20 {
			time.Sleep(50 * time.Microsecond)
		}
	}
	return false
}

// finish ends the run: no more events, timers stopped, waiting dials released.
func (s *c46Sys) finish(keep bool) {
	s.mu.Lock()
	s.dead = true
	gs := append([]*c46Gate{}, s.gates...)
	s.gates = nil
	hs := append([]*c46Handler{}, s.handlers...)
	evs := s.events
	s.mu.Unlock()
	for _, g := range gs {
		s.mu.Lock()
		g.decided = "fail"
		s.mu.Unlock()
		close(g.cmd)
	}
	s.ps.Stop()
	for k := 0; k < 3; k++ {
		for _, hd := range hs {
			hd.ph.mu.Lock()
			if hd.ph.reconnectTimer != nil {
				hd.ph.reconnectTimer.Stop()
			}
			hd.ph.mu.Unlock()
		}
		for i := 0; i < 50 && runtime.NumGoroutine() > c46Base; i++ {
			runtime.Gosched()
			time.Sleep(20 * time.Microsecond)
		}
	}
	if keep {
		for _, m := range evs {
			vEmit(m)
		}
	}
}

// exec runs one script; commands that do not apply in the current state are skipped.
func (s *c46Sys) exec(script []string) {
	for _, c := range script {
		f := strings.Fields(c)
		switch f[0] {
		case "add":
			s.add(f[1])
		case "remove":
			s.remove(f[1], append(f, "")[2])
		case "start":
			s.start()
		case "stop":
			s.stop(append(f, "")[1])
		case "conn":
			s.env(f[1], true)
		case "disc":
			s.env(f[1], false)
		case "settle":
			if s.settle() {
				s.obsAll()
			}
		case "obs":
			s.obsAll()
		case "fire": // the first armed timer (optionally of handler number f[1])
			s.mu.Lock()
			hs := append([]*c46Handler{}, s.handlers...)
			s.mu.Unlock()
			for _, hd := range hs {
				if len(f) > 1 && fmt.Sprint(hd.id) != f[1] {
					continue
				}
				if s.fire(hd) {
					// let the callback reach Connect
					for i := 0; i < 200; i++ {
						runtime.Gosched()
						s.mu.Lock()
						n := len(s.events)
						last := s.events[n-1]
						s.mu.Unlock()
						if last["ev"] != "TimerFire" {
							break
						}
						time.Sleep(20 * time.Microsecond)
					}
					break
				}
			}
		case "dialok":
			s.decide(true)
		case "dialfail":
			s.decide(false)
		}
	}
	s.settle()
	s.obsAll()
}

func TestVerifC46(t *testing.T) {
	defer vFlush()
	if vMode() != "record" {
		t.Skip("C46 has a record mode only")
	}
	if vEnv("C46_SCEN") == "backoff" {
		c46Backoff()
		return
	}
	defer runtime.GOMAXPROCS(runtime.GOMAXPROCS(1))
	c46Base = runtime.NumGoroutine()
	switch vEnv("C46_SCEN") {
	case "directed":
		for _, sc := range c46Directed() {
			s := c46New(false, false)
			s.exec(sc)
			s.finish(true)
		}
	default:
		c46Random()
	}
}

// Directed histories for the two suspected defects (each in a Stop and a RemovePeer / first-attempt variant)
// and for the windows between the sub-steps of handler.stop().
func c46Directed() [][]string {
	return [][]string{
		// a Disconnected notification's goroutine runs after Stop()
		{"add a", "start", "settle", "conn a", "settle", "disc a", "stop", "settle", "fire", "settle", "fire", "settle"},
		// AddPeer's goroutine runs after RemovePeer()
		{"start", "add a", "remove a", "settle", "fire", "settle"},
		// Start's goroutine runs after RemovePeer(), the peer is added again
		{"add a", "add b", "start", "remove a", "add a", "settle", "fire 1", "settle", "fire 3", "dialfail", "settle"},
		// Connect succeeds but the connection is gone before anybody looks
		{"add a", "start", "settle", "fire", "dialok", "disc a", "settle", "conn a", "settle", "disc a", "settle"},
		// ... the same after one failed attempt
		{"add a", "start", "settle", "fire", "dialfail", "settle", "fire", "dialok", "disc a", "settle"},
		// handler goroutines run BETWEEN the sub-steps of handler.stop() (around its ph.cancel()):
		// a Disconnected notification's goroutine inside Stop()
		{"add a", "start", "settle", "conn a", "settle", "disc a", "stop pre", "settle", "fire", "settle", "fire", "settle"},
		// AddPeer's goroutine inside RemovePeer()
		{"start", "add a", "remove a pre", "settle", "fire", "settle"},
		// Start's goroutines of two handlers inside Stop()
		{"add a", "add b", "start", "stop both", "settle", "fire", "settle"},
		// a notification goroutine right after the cancel, the peer is added again
		{"add a", "start", "settle", "conn a", "settle", "disc a", "remove a post", "add a", "settle", "fire 1", "fire 2", "settle"},
		// a Connect in flight is cancelled and its reconnect finishes inside RemovePeer() / Stop()
		{"add a", "start", "settle", "fire", "remove a post", "settle", "fire", "settle"},
		{"add a", "start", "settle", "fire", "disc a", "stop both", "settle", "fire", "settle"},
		// an armed timer and a pending notification goroutine
		{"add a", "start", "settle", "conn a", "disc a", "remove a both", "settle", "fire", "settle"},
	}
}

func c46Random() {
	rng := vRand()
	runs := 120
	if !vQuick() {
		runs = 800
	}
	if n := vEnvInt("C46_RUNS", 0); n > 0 {
		runs = n
	}
	for r := 0; r < runs; r++ {
		s := c46New(rng.Intn(3) == 0, rng.Intn(3) == 0)
		n := 6 + rng.Intn(12)
		var sc []string
		started := false
		for i := 0; i < n; i++ {
			p := []string{"a", "b"}[rng.Intn(2)]
			if rng.Intn(4) == 0 {
				p = "a"
			}
			switch x := rng.Intn(100); {
			case x < 12:
				sc = append(sc, "add "+p)
			case x < 18:
				sc = append(sc, "remove "+p+[]string{"", " pre", " post", " both"}[rng.Intn(4)])
			case x < 26 && !started || x < 19:
				sc = append(sc, "start")
				started = true
			case x < 30:
				sc = append(sc, "stop"+[]string{"", " pre", " post", " both"}[rng.Intn(4)])
			case x < 42:
				sc = append(sc, "conn "+p)
			case x < 54:
				sc = append(sc, "disc "+p)
			case x < 72:
				sc = append(sc, "settle")
			case x < 86:
				sc = append(sc, "fire")
			case x < 93:
				sc = append(sc, "dialfail")
			default:
				sc = append(sc, "dialok")
			}
		}
		if r%3 == 0 { // bias towards a running service with a peer
			sc = append([]string{"add a", "start"}, sc...)
		}
		s.exec(sc)
		s.finish(true)
	}
}

// c46Backoff drives nextBackoff directly: sequences of 100 consecutive failures from initialDelay.
func c46Backoff() {
	seqs := 12
	if !vQuick() {
		seqs = 150
	}
	for k := 0; k < seqs; k++ {
		ph := &peerHandler{nextDelay: initialDelay}
		vEmit(M{"ev": "BackoffReset", "d": int64(ph.nextDelay / time.Millisecond)})
		for i := 0; i < 100; i++ {
			prev := ph.nextDelay
			next := ph.nextBackoff()
			vEmit(M{"ev": "Backoff", "prev": int64(prev / time.Millisecond), "next": int64(next / time.Millisecond),
				"same": next == ph.nextDelay, "pos": next > 0 && next <= maxBackoff})
		}
	}
}

var _ = rand.Int
