//go:build verif

package dsindex

// C24 harness: replays TLC-generated behaviours of spec/PinIndex into the real indexer
// (phase G) and records random histories over random byte strings (phase T).
//
// Projection (trusted): model key/value i  <->  byte string table[i]; 0 <-> "".  The tables are
// chosen so that, if anything but string equality mattered to the implementation, results
// would differ from the multimap model: keys that are prefixes of each other, keys whose
// base64url encodings are prefixes of each other, "/", NUL, non-UTF-8, length 1 and 1000,
// strings that look like encoded keys.

import (
	"context"
	"encoding/json"
	"fmt"
	"sort"
	"strings"
	"testing"

	ds "github.com/ipfs/go-datastore"
	dsq "github.com/ipfs/go-datastore/query"
	dssync "github.com/ipfs/go-datastore/sync"
)

type c24Table struct {
	name string
	keys []string // index 0 = model key 1
	vals []string
}

func c24Rep(s string, n int) string { return strings.Repeat(s, n) }

// c24Tables: every table has >= 3 keys and >= 3 values.
func c24Tables() []c24Table {
	long := c24Rep("x", 1000)
	return []c24Table{
		{"plain-prefix", []string{"a", "ab", "abc"}, []string{"v", "vv", "vvv"}},
		// 3-byte aligned strings: base64url(no padding) encodings are prefixes of each other
		{"encoding-prefix", []string{"abc", "abcabc", "abcabcabc"}, []string{"xyz", "xyzxyz", "xyzxyzxyz"}},
		{"slashes", []string{"a/b", "a", "a/b/c"}, []string{"/", "//", "p/q"}},
		{"nul", []string{"\x00", "\x00\x00", "a\x00"}, []string{"\x00", "v\x00", "\x00v"}},
		{"non-utf8", []string{"\xff", "\xff\xfe", "\xc3\x28"}, []string{"\x80", "\xfe\xff", "\xed\xa0\x80"}},
		{"len-1-1000", []string{"x", long, long[:999] + "y"}, []string{"y", long, long[:999]}},
		// strings that look like the encoded form of another key ("uYQ" = encode("a")) and the multibase prefix alone
		{"encoded-lookalike", []string{"a", "uYQ", "u"}, []string{"uYQ", "a", "uYWJj"}},
		// key i equals value i; dots and dot-dot (path.Clean material)
		{"dots-and-same", []string{".", "..", "a/../b"}, []string{".", "..", "a/../b"}},
		{"space-and-case", []string{"K", "k", " k"}, []string{"k ", "K", "k"}},
	}
}

type c24Sys struct {
	d     ds.Datastore
	x     Indexer
	nb    Indexer // neighbour index whose name has the tested index' name as a string prefix
	keys  []string
	vals  []string
	kRev  map[string]int
	vRev  map[string]int
	label string
}

func c24New(keys, vals []string, label string) *c24Sys {
	d := dssync.MutexWrap(ds.NewMapDatastore())
	s := &c24Sys{d: d, x: New(d, ds.NewKey("/ix")), nb: New(d, ds.NewKey("/ixx")), keys: keys, vals: vals,
		kRev: map[string]int{}, vRev: map[string]int{}, label: label}
	for i, k := range keys {
		s.kRev[k] = i + 1
	}
	for i, v := range vals {
		s.vRev[v] = i + 1
	}
	// the neighbour holds one entry for ever
	if err := s.nb.Add(context.Background(), keys[0], vals[0]); err != nil {
		panic(err)
	}
	return s
}

func (s *c24Sys) k(i int) string {
	if i == 0 {
		return ""
	}
	return s.keys[i-1]
}
func (s *c24Sys) v(i int) string {
	if i == 0 {
		return ""
	}
	return s.vals[i-1]
}
func (s *c24Sys) kp(str string) int {
	if i, ok := s.kRev[str]; ok {
		return i
	}
	return -1
}
func (s *c24Sys) vp(str string) int {
	if i, ok := s.vRev[str]; ok {
		return i
	}
	return -1
}

func c24Err(err error) string {
	switch err {
	case nil:
		return "ok"
	case ErrEmptyKey:
		return "ErrEmptyKey"
	case ErrEmptyValue:
		return "ErrEmptyValue"
	}
	return "err:" + err.Error()
}

// mutate applies one call, returns (err, count)
func (s *c24Sys) mutate(op string, k, v int) (string, int) {
	ctx := context.Background()
	switch op {
	case "Add":
		return c24Err(s.x.Add(ctx, s.k(k), s.v(v))), 0
	case "Delete":
		return c24Err(s.x.Delete(ctx, s.k(k), s.v(v))), 0
	case "DeleteKey":
		n, err := s.x.DeleteKey(ctx, s.k(k))
		return c24Err(err), n
	case "DeleteAll":
		n, err := s.x.DeleteAll(ctx)
		return c24Err(err), n
	}
	panic(op)
}

// queries, projected -------------------------------------------------------------------------
func (s *c24Sys) search(k int) (string, []int, string) {
	vals, err := s.x.Search(context.Background(), s.k(k))
	if err != nil {
		return c24Err(err), []int{}, ""
	}
	res := []int{}
	seen := map[int]bool{}
	for _, v := range vals {
		p := s.vp(v)
		if seen[p] {
			return "ok", res, fmt.Sprintf("duplicate value %q", v)
		}
		seen[p] = true
		res = append(res, p)
	}
	sort.Ints(res)
	return "ok", res, ""
}

func (s *c24Sys) forEach(k int) ([][2]int, string) {
	res := [][2]int{}
	seen := map[[2]int]bool{}
	detail := ""
	err := s.x.ForEach(context.Background(), s.k(k), func(key, value string) bool {
		p := [2]int{s.kp(key), s.vp(value)}
		if seen[p] {
			detail = fmt.Sprintf("duplicate pair %q/%q", key, value)
		}
		seen[p] = true
		res = append(res, p)
		return true
	})
	if err != nil {
		return res, "err:" + err.Error()
	}
	sort.Slice(res, func(i, j int) bool {
		if res[i][0] != res[j][0] {
			return res[i][0] < res[j][0]
		}
		return res[i][1] < res[j][1]
	})
	return res, detail
}

// forEachStop: callback returns false at once; number of callbacks and the pair seen.
func (s *c24Sys) forEachStop(k int) (int, [2]int, string) {
	n := 0
	var p [2]int
	err := s.x.ForEach(context.Background(), s.k(k), func(key, value string) bool {
		n++
		p = [2]int{s.kp(key), s.vp(value)}
		return false
	})
	if err != nil {
		return n, p, "err:" + err.Error()
	}
	return n, p, ""
}

func (s *c24Sys) hasAny(k int) (bool, string) {
	b, err := s.x.HasAny(context.Background(), s.k(k))
	if err != nil {
		return b, "err:" + err.Error()
	}
	return b, ""
}

func (s *c24Sys) hasValue(k, v int) string {
	b, err := s.x.HasValue(context.Background(), s.k(k), s.v(v))
	if err != nil {
		return c24Err(err)
	}
	if b {
		return "true"
	}
	return "false"
}

// rawCount: datastore keys under /ix/ (the tested index) and whether the neighbour is intact.
func (s *c24Sys) rawCount() (int, string) {
	res, err := s.d.Query(context.Background(), dsq.Query{KeysOnly: true})
	if err != nil {
		return 0, "err:" + err.Error()
	}
	es, _ := res.Rest()
	n, nb := 0, 0
	for _, e := range es {
		switch {
		case strings.HasPrefix(e.Key, "/ix/"):
			n++
		case strings.HasPrefix(e.Key, "/ixx/"):
			nb++
		default:
			return 0, "stray datastore key " + e.Key
		}
	}
	if nb != 1 {
		return n, fmt.Sprintf("neighbour index /ixx has %d raw entries, want 1", nb)
	}
	vals, err := s.nb.Search(context.Background(), s.keys[0])
	if err != nil || len(vals) != 1 || vals[0] != s.vals[0] {
		return n, fmt.Sprintf("neighbour index damaged: %q %v", vals, err)
	}
	return n, ""
}

// ---- replay --------------------------------------------------------------------------------
type c24Q struct {
	Search []struct {
		Err  string `json:"err"`
		Vals []int  `json:"vals"`
	} `json:"search"`
	HasAny   []bool     `json:"hasany"`
	ForEach  [][][2]int `json:"foreach"`
	HasValue [][]string `json:"hasvalue"`
}
type c24Step struct {
	Op  string   `json:"op"`
	K   int      `json:"k"`
	V   int      `json:"v"`
	Err string   `json:"err"`
	N   int      `json:"n"`
	Idx [][2]int `json:"idx"`
	Q   c24Q     `json:"q"`
}
type c24Beh struct {
	Steps []c24Step `json:"steps"`
}

func c24J(v any) string { b, _ := json.Marshal(v); return string(b) }

// battery compares every query with the expectation computed by the spec.
func (s *c24Sys) battery(st *c24Step) string {
	q := &st.Q
	for i := range q.Search {
		e, vals, detail := s.search(i)
		if detail != "" {
			return fmt.Sprintf("Search(%d): %s", i, detail)
		}
		want := q.Search[i].Vals
		if want == nil {
			want = []int{}
		}
		if e != q.Search[i].Err || c24J(vals) != c24J(want) {
			return fmt.Sprintf("Search(key %d): got %s %v, spec %s %v", i, e, vals, q.Search[i].Err, want)
		}
		b, detail := s.hasAny(i)
		if detail != "" || b != q.HasAny[i] {
			return fmt.Sprintf("HasAny(key %d): got %v %s, spec %v", i, b, detail, q.HasAny[i])
		}
		fe, detail := s.forEach(i)
		wfe := q.ForEach[i]
		if wfe == nil {
			wfe = [][2]int{}
		}
		if detail != "" || c24J(fe) != c24J(wfe) {
			return fmt.Sprintf("ForEach(key %d): got %v %s, spec %v", i, fe, detail, wfe)
		}
		n, p, detail := s.forEachStop(i)
		if detail != "" {
			return fmt.Sprintf("ForEach-stop(key %d): %s", i, detail)
		}
		if len(wfe) == 0 && n != 0 || len(wfe) > 0 && n != 1 {
			return fmt.Sprintf("ForEach-stop(key %d): %d callbacks for %d entries", i, n, len(wfe))
		}
		if n == 1 {
			ok := false
			for _, w := range wfe {
				ok = ok || w == p
			}
			if !ok {
				return fmt.Sprintf("ForEach-stop(key %d): pair %v not in spec %v", i, p, wfe)
			}
		}
		for j := range q.HasValue[i] {
			if got := s.hasValue(i, j); got != q.HasValue[i][j] {
				return fmt.Sprintf("HasValue(key %d, value %d): got %s, spec %s", i, j, got, q.HasValue[i][j])
			}
		}
	}
	n, detail := s.rawCount()
	if detail != "" {
		return detail
	}
	if n != len(st.Idx) {
		return fmt.Sprintf("raw datastore has %d entries under the index, spec has %d pairs", n, len(st.Idx))
	}
	return ""
}

func TestVerifC24(t *testing.T) {
	defer vFlush()
	switch vMode() {
	case "replay":
		c24Replay(t)
	case "record":
		c24Record(t)
	default:
		t.Skip("no VERIF_MODE")
	}
}

func c24Replay(t *testing.T) {
	tabs := c24Tables()
	fixed := vEnvInt("C24_SET", -1)
	last := vEnvInt("C24_BATTERY_LAST", 0) // >0: run the battery only after the last N steps
	n := 0
	for i, raw := range vIn() {
		var b c24Beh
		if err := json.Unmarshal(raw, &b); err != nil {
			t.Fatalf("behaviour %d: %v", i, err)
		}
		ti := fixed
		if ti < 0 {
			ti = (i + int(vSeed())) % len(tabs)
		}
		tab := tabs[ti%len(tabs)]
		s := c24New(tab.keys, tab.vals, tab.name)
		res := M{"i": i, "ok": true}
		for k := range b.Steps {
			st := &b.Steps[k]
			e, cnt := s.mutate(st.Op, st.K, st.V)
			if e != st.Err || cnt != st.N {
				res = M{"i": i, "ok": false, "step": k + 1, "what": fmt.Sprintf("[%s] %s(%d,%d): got %s n=%d, spec %s n=%d",
					tab.name, st.Op, st.K, st.V, e, cnt, st.Err, st.N)}
				break
			}
			if last > 0 && k < len(b.Steps)-last {
				continue
			}
			if d := s.battery(st); d != "" {
				res = M{"i": i, "ok": false, "step": k + 1, "what": fmt.Sprintf("[%s] after %s(%d,%d): %s", tab.name, st.Op, st.K, st.V, d)}
				break
			}
		}
		n++
		vEmit(res)
	}
	vEmit(M{"summary": true, "n": n})
}

// ---- record --------------------------------------------------------------------------------
// c24Pool: n distinct random byte strings with structural relations (prefixes, extensions by
// whole 3-byte groups, embedded "/" and NUL, long strings).
func c24Pool(rng interface{ Intn(int) int }, n int) []string {
	rb := func(l int) string {
		b := make([]byte, l)
		for i := range b {
			switch rng.Intn(8) {
			case 0:
				b[i] = '/'
			case 1:
				b[i] = 0
			case 2:
				b[i] = byte(0x80 + rng.Intn(0x80))
			default:
				b[i] = byte(rng.Intn(256))
			}
		}
		return string(b)
	}
	seen := map[string]bool{"": true}
	var pool []string
	add := func(s string) {
		if !seen[s] && len(pool) < n {
			seen[s] = true
			pool = append(pool, s)
		}
	}
	for len(pool) < n {
		base := rb(1 + rng.Intn(9))
		add(base)
		switch rng.Intn(6) {
		case 0:
			add(base[:1+rng.Intn(len(base))]) // prefix
		case 1:
			add(base + rb(1+rng.Intn(3))) // extension
		case 2:
			b3 := rb(3 * (1 + rng.Intn(3)))
			add(b3)
			add(b3 + rb(3)) // encoding is a prefix of the other's encoding
		case 3:
			add(base + "/" + base)
		case 4:
			add(base + rb(200+rng.Intn(800)))
		default:
			add(rb(1))
		}
	}
	return pool
}

func c24Record(t *testing.T) {
	rng := vRand()
	runs, length := 6, 150
	if !vQuick() {
		runs, length = 40, 400
	}
	nk, nv := vEnvInt("C24_NK", 6), vEnvInt("C24_NV", 6)
	for r := 0; r < runs; r++ {
		keys, vals := c24Pool(rng, nk), c24Pool(rng, nv)
		if r%2 == 1 { // keys and values share strings
			copy(vals, keys[:nv/2])
		}
		s := c24New(keys, vals, "random")
		vEmit(M{"ev": "Reset"})
		for i := 0; i < length; i++ {
			k, v := rng.Intn(nk+1), rng.Intn(nv+1)
			if rng.Intn(4) > 0 && k == 0 {
				k = 1 + rng.Intn(nk)
			}
			if rng.Intn(4) > 0 && v == 0 {
				v = 1 + rng.Intn(nv)
			}
			switch op := rng.Intn(20); {
			case op < 6:
				e, _ := s.mutate("Add", k, v)
				vEmit(M{"ev": "Add", "k": k, "v": v, "err": e})
			case op < 8:
				e, _ := s.mutate("Delete", k, v)
				vEmit(M{"ev": "Delete", "k": k, "v": v, "err": e})
			case op < 9:
				e, n := s.mutate("DeleteKey", k, 0)
				vEmit(M{"ev": "DeleteKey", "k": k, "err": e, "n": n})
			case op == 9 && rng.Intn(4) == 0:
				e, n := s.mutate("DeleteAll", 0, 0)
				vEmit(M{"ev": "DeleteAll", "err": e, "n": n})
			case op < 13:
				e, vs, detail := s.search(k)
				vEmit(M{"ev": "Search", "k": k, "err": e, "vals": vs, "detail": detail})
			case op < 15:
				vEmit(M{"ev": "HasValue", "k": k, "v": v, "res": s.hasValue(k, v)})
			case op < 17:
				b, detail := s.hasAny(k)
				vEmit(M{"ev": "HasAny", "k": k, "has": b, "detail": detail})
			case op < 19:
				fe, detail := s.forEach(k)
				n, d2 := s.rawCount()
				vEmit(M{"ev": "ForEach", "k": k, "pairs": fe, "detail": detail + d2, "raw": n})
			default:
				n, p, detail := s.forEachStop(k)
				vEmit(M{"ev": "ForEachStop", "k": k, "n": n, "pair": p, "detail": detail})
			}
		}
	}
}
