//go:build verif

package dspinner

// C22 harness: replays TLC-generated behaviours of spec/Pinner (GenPinner) into a real
// dspinner over MapDatastore + merkledag DAGService (phase G).  After every call the whole
// query battery runs and every answer must be one of the outcomes the spec allows.
//
// Projection (trusted): model node n <-> the CID of ProtoNode("c22-node-n" + links to its
// children); pin modes <-> the Mode constants; results <-> "tag:x" strings.

import (
	"context"
	"encoding/json"
	"fmt"
	"sort"
	"strings"
	"testing"

	bs "github.com/ipfs/boxo/blockservice"
	blockstore "github.com/ipfs/boxo/blockstore"
	offline "github.com/ipfs/boxo/exchange/offline"
	mdag "github.com/ipfs/boxo/ipld/merkledag"
	ipfspin "github.com/ipfs/boxo/pinning/pinner"
	cid "github.com/ipfs/go-cid"
	ds "github.com/ipfs/go-datastore"
	dssync "github.com/ipfs/go-datastore/sync"
	ipld "github.com/ipfs/go-ipld-format"
)

// ---- DAG service wrapper: fault injection at the first block read of a call ----------------
type c22Dag struct {
	ipld.DAGService
	onGet func() // one-shot hook
}

func (d *c22Dag) fire() {
	if f := d.onGet; f != nil {
		d.onGet = nil
		f()
	}
}
func (d *c22Dag) Get(ctx context.Context, c cid.Cid) (ipld.Node, error) {
	d.fire()
	if err := ctx.Err(); err != nil {
		return nil, err
	}
	return d.DAGService.Get(ctx, c)
}
func (d *c22Dag) GetMany(ctx context.Context, cs []cid.Cid) <-chan *ipld.NodeOption {
	d.fire()
	if err := ctx.Err(); err != nil {
		ch := make(chan *ipld.NodeOption, 1)
		ch <- &ipld.NodeOption{Err: err}
		close(ch)
		return ch
	}
	return d.DAGService.GetMany(ctx, cs)
}

// ---- behaviour format -----------------------------------------------------------------------
type c22Ans [][]any // a set of allowed <<tag, x>> outcomes

func (a c22Ans) set(blankNames bool) map[string]bool {
	m := map[string]bool{}
	for _, t := range a {
		tag := fmt.Sprint(t[0])
		x := fmt.Sprint(t[1])
		if blankNames && (tag == "recursive" || tag == "direct") {
			x = ""
		}
		m[tag+":"+x] = true
	}
	return m
}
func (a c22Ans) String() string {
	var l []string
	for k := range a.set(false) {
		l = append(l, k)
	}
	sort.Strings(l)
	return "{" + strings.Join(l, ", ") + "}"
}

type c22Chk struct {
	Err string `json:"err"` // no | may | must
	Out c22Ans `json:"out"`
}
type c22All struct {
	Err string   `json:"err"`
	Per []c22Ans `json:"per"`
}
type c22Obs struct {
	Isp [][]c22Ans `json:"isp"` // nil in slim steps
	Chk [][]c22Chk `json:"chk"`
	All struct {
		Ind c22All `json:"ind"`
		Any c22All `json:"any"`
	} `json:"all"`
	Rkeys   [][]any `json:"rkeys"`
	Dkeys   [][]any `json:"dkeys"`
	Present []int   `json:"present"`
}
type c22Exp struct {
	Res string `json:"res"`
	Obs c22Obs `json:"obs"`
}
type c22Op struct {
	Op    string `json:"op"`
	C     int    `json:"c"`
	C2    int    `json:"c2"`
	Flag  bool   `json:"flag"`
	Name  string `json:"name"`
	Mode  int    `json:"mode"`
	Fault string `json:"fault"`
}
type c22Alt struct {
	Devs      []string `json:"devs"`
	Exp       c22Exp   `json:"exp"`
	SameState bool     `json:"samestate"`
}
type c22Step struct {
	O    c22Op    `json:"o"`
	Exp  c22Exp   `json:"exp"`
	Alts []c22Alt `json:"alts"`
}
type c22Beh struct {
	N       int       `json:"n"`
	Links   [][]int   `json:"links"`
	Present []int     `json:"present"`
	Steps   []c22Step `json:"steps"`
}

// mode index of the spec (ModeNames) -> API value
var c22Modes = []ipfspin.Mode{0, ipfspin.Recursive, ipfspin.Direct, ipfspin.Indirect, ipfspin.Internal, ipfspin.Any, ipfspin.NotPinned, ipfspin.Mode(99)}

// ---- system under test ------------------------------------------------------------------------
type c22Sys struct {
	n     int
	nodes []ipld.Node // 1..n
	cids  []cid.Cid
	rev   map[string]int // cid string / key string -> node
	bst   blockstore.Blockstore
	dag   *c22Dag
	p     *pinner
	dst   ds.Datastore
}

func c22New(b *c22Beh) *c22Sys {
	ctx := context.Background()
	s := &c22Sys{n: b.N, nodes: make([]ipld.Node, b.N+1), cids: make([]cid.Cid, b.N+1), rev: map[string]int{}}
	for i := b.N; i >= 1; i-- { // children have higher numbers
		nd := mdag.NodeWithData([]byte(fmt.Sprintf("c22-node-%d", i)))
		for _, ch := range b.Links[i-1] {
			if err := nd.AddNodeLink(fmt.Sprintf("l%d", ch), s.nodes[ch]); err != nil {
				panic(err)
			}
		}
		s.nodes[i] = nd
		s.cids[i] = nd.Cid()
		s.rev[nd.Cid().String()] = i
		s.rev[nd.Cid().KeyString()] = i
	}
	s.dst = dssync.MutexWrap(ds.NewMapDatastore())
	s.bst = blockstore.NewBlockstore(dssync.MutexWrap(ds.NewMapDatastore()))
	s.dag = &c22Dag{DAGService: mdag.NewDAGService(bs.New(s.bst, offline.Exchange(s.bst)))}
	for _, i := range b.Present {
		if err := s.dag.Add(ctx, s.nodes[i]); err != nil {
			panic(err)
		}
	}
	p, err := New(ctx, s.dst, s.dag)
	if err != nil {
		panic(err)
	}
	s.p = p
	return s
}

func (s *c22Sys) apply(o c22Op) string {
	ctx, cancel := context.WithCancel(context.Background())
	defer cancel()
	switch o.Fault {
	case "cancelled":
		cancel()
	case "cancelFetch":
		s.dag.onGet = cancel
	}
	defer func() { s.dag.onGet = nil }()
	var err error
	switch o.Op {
	case "Pin":
		err = s.p.Pin(ctx, s.nodes[o.C], o.Flag, o.Name)
	case "PinMode":
		err = s.p.PinWithMode(ctx, s.cids[o.C], c22Modes[o.Mode], o.Name)
	case "Unpin":
		err = s.p.Unpin(ctx, s.cids[o.C], o.Flag)
	case "Update":
		err = s.p.Update(ctx, s.cids[o.C], s.cids[o.C2], o.Flag)
	default:
		panic(o.Op)
	}
	if err != nil {
		return "err"
	}
	return "ok"
}

func (s *c22Sys) node(c cid.Cid) string {
	if i, ok := s.rev[c.String()]; ok {
		return fmt.Sprint(i)
	}
	return "?" + c.String()
}

// isPinned outcome of (reason, pinned, err)
func (s *c22Sys) ispOutcome(reason string, pinned bool, err error) string {
	switch {
	case err != nil:
		return "err:0"
	case !pinned:
		if reason != "" {
			return "no-with-reason:" + reason
		}
		return "no:0"
	case reason == "recursive" || reason == "direct":
		return reason + ":0"
	}
	if i, ok := s.rev[reason]; ok {
		return fmt.Sprintf("via:%d", i)
	}
	return "via:?" + reason
}

func (s *c22Sys) pinnedOutcome(p ipfspin.Pinned) string {
	switch p.Mode {
	case ipfspin.Recursive:
		return "recursive:" + p.Name
	case ipfspin.Direct:
		return "direct:" + p.Name
	case ipfspin.Indirect:
		return "indirect:" + s.node(p.Via)
	case ipfspin.NotPinned:
		return "notpinned:" + p.Name
	}
	return fmt.Sprintf("mode%d:%s", p.Mode, p.Name)
}

// checkOne compares one CheckIfPinned* call on the single cid c
func (s *c22Sys) checkOne(what string, res []ipfspin.Pinned, err error, c int, e c22Chk, blank bool) string {
	if err != nil {
		if e.Err == "no" {
			return fmt.Sprintf("%s: error %v, spec allows %v", what, err, e.Out)
		}
		return ""
	}
	if e.Err == "must" {
		return fmt.Sprintf("%s: succeeded with %v, spec requires an error", what, res)
	}
	if len(res) != 1 || !res[0].Key.Equals(s.cids[c]) {
		return fmt.Sprintf("%s: %d results / wrong key", what, len(res))
	}
	out := s.pinnedOutcome(res[0])
	if blank && (res[0].Mode == ipfspin.Recursive || res[0].Mode == ipfspin.Direct) {
		if res[0].Name != "" {
			return fmt.Sprintf("%s: name %q reported although names were not requested", what, res[0].Name)
		}
	}
	if !e.Out.set(blank)[out] {
		return fmt.Sprintf("%s: got %s, spec allows %v", what, out, e.Out)
	}
	return ""
}

func (s *c22Sys) checkAll(what string, mode ipfspin.Mode, e c22All) string {
	res, err := s.p.CheckIfPinnedWithType(context.Background(), mode, true, s.cids[1:]...)
	if err != nil {
		if e.Err == "no" {
			return fmt.Sprintf("%s: error %v, spec allows none", what, err)
		}
		return ""
	}
	if e.Err == "must" {
		return fmt.Sprintf("%s: succeeded, spec requires an error", what)
	}
	if len(res) != s.n {
		return fmt.Sprintf("%s: %d results for %d cids", what, len(res), s.n)
	}
	seen := map[int]bool{}
	for _, r := range res {
		i, ok := s.rev[r.Key.String()]
		if !ok || seen[i] {
			return fmt.Sprintf("%s: unknown or duplicate key %s", what, r.Key)
		}
		seen[i] = true
		if out := s.pinnedOutcome(r); !e.Per[i-1].set(false)[out] {
			return fmt.Sprintf("%s: node %d got %s, spec allows %v", what, i, out, e.Per[i-1])
		}
	}
	return ""
}

func c22KeySet(l [][]any, withName bool) string {
	var r []string
	for _, t := range l {
		if withName {
			r = append(r, fmt.Sprintf("%v:%v", t[0], t[1]))
		} else {
			r = append(r, fmt.Sprintf("%v", t[0]))
		}
	}
	sort.Strings(r)
	return strings.Join(r, ",")
}

func (s *c22Sys) keys(ch <-chan ipfspin.StreamedPin, detailed bool, want ipfspin.Mode) string {
	var r []string
	for sp := range ch {
		if sp.Err != nil {
			return "err:" + sp.Err.Error()
		}
		if detailed {
			if sp.Pin.Mode != want {
				return fmt.Sprintf("wrong-mode-%d", sp.Pin.Mode)
			}
			r = append(r, s.node(sp.Pin.Key)+":"+sp.Pin.Name)
		} else {
			r = append(r, s.node(sp.Pin.Key))
		}
	}
	sort.Strings(r)
	return strings.Join(r, ",")
}

// compare runs the battery against one expectation; "" = agrees.
func (s *c22Sys) compare(res string, e *c22Exp) string {
	ctx := context.Background()
	if res != e.Res {
		return fmt.Sprintf("call returned %s, spec %s", res, e.Res)
	}
	o := &e.Obs
	// pin sets (all four listings)
	if got, want := s.keys(s.p.RecursiveKeys(ctx, true), true, ipfspin.Recursive), c22KeySet(o.Rkeys, true); got != want {
		return fmt.Sprintf("RecursiveKeys(detailed) = [%s], spec [%s]", got, want)
	}
	if got, want := s.keys(s.p.RecursiveKeys(ctx, false), false, 0), c22KeySet(o.Rkeys, false); got != want {
		return fmt.Sprintf("RecursiveKeys = [%s], spec [%s]", got, want)
	}
	if got, want := s.keys(s.p.DirectKeys(ctx, true), true, ipfspin.Direct), c22KeySet(o.Dkeys, true); got != want {
		return fmt.Sprintf("DirectKeys(detailed) = [%s], spec [%s]", got, want)
	}
	if got, want := s.keys(s.p.DirectKeys(ctx, false), false, 0), c22KeySet(o.Dkeys, false); got != want {
		return fmt.Sprintf("DirectKeys = [%s], spec [%s]", got, want)
	}
	pres := map[int]bool{}
	for _, i := range o.Present {
		pres[i] = true
	}
	for i := 1; i <= s.n; i++ {
		has, err := s.bst.Has(ctx, s.cids[i])
		if err != nil || has != pres[i] {
			return fmt.Sprintf("block %d present=%v, spec %v", i, has, pres[i])
		}
	}
	if o.Isp == nil {
		return "" // slim step: state only
	}
	for c := 1; c <= s.n; c++ {
		for m := 1; m <= 7; m++ {
			mode := c22Modes[m]
			allowed := o.Isp[c-1][m-1]
			reason, pinned, err := s.p.IsPinnedWithType(ctx, s.cids[c], mode)
			if out := s.ispOutcome(reason, pinned, err); !allowed.set(false)[out] {
				return fmt.Sprintf("IsPinnedWithType(node %d, mode %d) = %s, spec allows %v", c, mode, out, allowed)
			}
			if mode == ipfspin.Any {
				reason, pinned, err = s.p.IsPinned(ctx, s.cids[c])
				if out := s.ispOutcome(reason, pinned, err); !allowed.set(false)[out] {
					return fmt.Sprintf("IsPinned(node %d) = %s, spec allows %v", c, out, allowed)
				}
			}
			e := o.Chk[c-1][m-1]
			r, err := s.p.CheckIfPinnedWithType(ctx, mode, true, s.cids[c])
			if d := s.checkOne(fmt.Sprintf("CheckIfPinnedWithType(mode %d, names, node %d)", mode, c), r, err, c, e, false); d != "" {
				return d
			}
			r, err = s.p.CheckIfPinnedWithType(ctx, mode, false, s.cids[c])
			if d := s.checkOne(fmt.Sprintf("CheckIfPinnedWithType(mode %d, no names, node %d)", mode, c), r, err, c, e, true); d != "" {
				return d
			}
			if mode == ipfspin.Any {
				r, err = s.p.CheckIfPinned(ctx, s.cids[c])
				if d := s.checkOne(fmt.Sprintf("CheckIfPinned(node %d)", c), r, err, c, e, true); d != "" {
					return d
				}
			}
		}
	}
	if d := s.checkAll("CheckIfPinnedWithType(Indirect, all nodes)", ipfspin.Indirect, o.All.Ind); d != "" {
		return d
	}
	if d := s.checkAll("CheckIfPinnedWithType(Any, all nodes)", ipfspin.Any, o.All.Any); d != "" {
		return d
	}
	return ""
}

func TestVerifC22(t *testing.T) {
	defer vFlush()
	switch vMode() {
	case "replay":
		c22Replay(t)
	default:
		t.Skip("no VERIF_MODE")
	}
}

func c22Replay(t *testing.T) {
	n := 0
	for i, raw := range vIn() {
		var b c22Beh
		if err := json.Unmarshal(raw, &b); err != nil {
			t.Fatalf("behaviour %d: %v", i, err)
		}
		s := c22New(&b)
		reported := map[string]bool{}
		bad := false
	steps:
		for k := range b.Steps {
			st := &b.Steps[k]
			res := s.apply(st.O)
			d0 := s.compare(res, &st.Exp)
			if d0 == "" {
				continue
			}
			// as-built alternatives, fewest deviations first
			sort.SliceStable(st.Alts, func(x, y int) bool { return len(st.Alts[x].Devs) < len(st.Alts[y].Devs) })
			for ai := range st.Alts {
				a := &st.Alts[ai]
				if s.compare(res, &a.Exp) != "" {
					continue
				}
				for _, dv := range a.Devs {
					if !reported[dv] {
						reported[dv] = true
						vEmit(M{"i": i, "ok": false, "step": k + 1, "dev": dv,
							"what": fmt.Sprintf("%s(%+v): %s", st.O.Op, st.O, d0)})
					}
				}
				bad = true
				if a.SameState {
					continue steps
				}
				break steps // the real state left the ideal history
			}
			vEmit(M{"i": i, "ok": false, "step": k + 1, "what": fmt.Sprintf("%s(%+v): %s", st.O.Op, st.O, d0)})
			bad = true
			break
		}
		s.p.Close()
		if !bad {
			vEmit(M{"i": i, "ok": true})
		}
		n++
	}
	vEmit(M{"summary": true, "n": n})
}
