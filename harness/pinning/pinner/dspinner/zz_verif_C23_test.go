//go:build verif

package dspinner

// C23 harness: crash-point enumeration on the real dspinner (phase T of spec/Pinner/PinnerWrites).
//
// A recording datastore wraps a MapDatastore: every Put/Delete that reaches the map is logged as
// one spec-level write; with a write budget it stops accepting writes after exactly k writes (the
// crash: nothing later is persisted).  For every call of a random history and every k smaller than
// the number of writes of that call, the history is re-run on a fresh pinner, the call is cut after
// k writes, a real pinner is re-opened on the map (New -> rebuildIndexes, its writes are logged too,
// optionally cut again) and the raw /pins keys plus the answers of the reopened pinner are logged.
//
// Projection (trusted): key/value of a write -> (kind, pin id number, cid number, mode, name);
// pin ids are numbered in order of their first PutRecord within a run.

import (
	"context"
	"encoding/json"
	"errors"
	"fmt"
	"sort"
	"strings"
	"testing"

	bs "github.com/ipfs/boxo/blockservice"
	blockstore "github.com/ipfs/boxo/blockstore"
	offline "github.com/ipfs/boxo/exchange/offline"
	mdag "github.com/ipfs/boxo/ipld/merkledag"
	ipfspin "github.com/ipfs/boxo/pinning/pinner"
	"github.com/ipfs/boxo/pinning/pinner/dsindex"
	cid "github.com/ipfs/go-cid"
	ds "github.com/ipfs/go-datastore"
	dsq "github.com/ipfs/go-datastore/query"
	dssync "github.com/ipfs/go-datastore/sync"
	ipld "github.com/ipfs/go-ipld-format"
	logging "github.com/ipfs/go-log/v2"
	"github.com/multiformats/go-multibase"
)

var errC23Crashed = errors.New("c23: datastore is down (crash point reached)")

// quiet logger: the pinner logs every refused write and every rebuild at error level
type c23Quiet struct{ logging.StandardLogger }

func (c23Quiet) Error(args ...any)                 {}
func (c23Quiet) Errorf(format string, args ...any) {}
func (c23Quiet) Warn(args ...any)                  {}
func (c23Quiet) Warnf(format string, args ...any)  {}

// ---- recording / crashing datastore ---------------------------------------------------------
type c23DS struct {
	inner     ds.Datastore
	remaining int // writes still accepted; < 0 = unlimited
	dead      bool
	onWrite   func(put bool, k ds.Key, v []byte)
	writes    int
}

func (d *c23DS) admit() error {
	if d.dead {
		return errC23Crashed
	}
	if d.remaining == 0 {
		d.dead = true
		return errC23Crashed
	}
	if d.remaining > 0 {
		d.remaining--
	}
	return nil
}
func (d *c23DS) Put(ctx context.Context, k ds.Key, v []byte) error {
	if err := d.admit(); err != nil {
		return err
	}
	if err := d.inner.Put(ctx, k, v); err != nil {
		return err
	}
	d.writes++
	if d.onWrite != nil {
		d.onWrite(true, k, v)
	}
	return nil
}
func (d *c23DS) Delete(ctx context.Context, k ds.Key) error {
	if err := d.admit(); err != nil {
		return err
	}
	if err := d.inner.Delete(ctx, k); err != nil {
		return err
	}
	d.writes++
	if d.onWrite != nil {
		d.onWrite(false, k, nil)
	}
	return nil
}
func (d *c23DS) Get(ctx context.Context, k ds.Key) ([]byte, error) { return d.inner.Get(ctx, k) }
func (d *c23DS) Has(ctx context.Context, k ds.Key) (bool, error)   { return d.inner.Has(ctx, k) }
func (d *c23DS) GetSize(ctx context.Context, k ds.Key) (int, error) {
	return d.inner.GetSize(ctx, k)
}
func (d *c23DS) Query(ctx context.Context, q dsq.Query) (dsq.Results, error) {
	return d.inner.Query(ctx, q)
}
func (d *c23DS) Sync(ctx context.Context, k ds.Key) error {
	if d.dead {
		return errC23Crashed
	}
	return d.inner.Sync(ctx, k)
}
func (d *c23DS) Close() error { return nil }

// ---- one run ------------------------------------------------------------------------------------
type c23Op struct {
	Op   string // PinRec | PinDir | Unpin | Update
	C    int
	C2   int
	Flag bool
	Name string
	Via  int // PinRec/PinDir: 0 = Pin(node), 1 = PinWithMode
}

type c23Run struct {
	nc    int
	nodes []ipld.Node
	cids  []cid.Cid
	rev   map[string]int // cid KeyString -> number
	dag   ipld.DAGService
	d     *c23DS
	p     *pinner
	ids   map[string]int
	quiet bool // no State event after complete calls (large runs)
	stale int  // >= 0: plant a stale cross-mode cid index entry (fault Stale) at the next crash, record chosen by this number
}

func c23NewRun(nc int) *c23Run {
	ctx := context.Background()
	r := &c23Run{nc: nc, nodes: make([]ipld.Node, nc+1), cids: make([]cid.Cid, nc+1), rev: map[string]int{}, ids: map[string]int{}, stale: -1}
	bst := blockstore.NewBlockstore(dssync.MutexWrap(ds.NewMapDatastore()))
	r.dag = mdag.NewDAGService(bs.New(bst, offline.Exchange(bst)))
	for i := 1; i <= nc; i++ {
		nd := mdag.NodeWithData([]byte(fmt.Sprintf("c23-leaf-%d", i)))
		r.nodes[i], r.cids[i] = nd, nd.Cid()
		r.rev[nd.Cid().KeyString()] = i
		if err := r.dag.Add(ctx, nd); err != nil {
			panic(err)
		}
	}
	r.d = &c23DS{inner: dssync.MutexWrap(ds.NewMapDatastore()), remaining: -1}
	r.d.onWrite = r.logWrite
	vEmit(M{"ev": "Reset"})
	p, err := New(ctx, r.d, r.dag)
	if err != nil {
		panic(err)
	}
	r.p = p
	return r
}

func c23Dec(s string) (string, bool) {
	_, b, err := multibase.Decode(s)
	if err != nil {
		return "", false
	}
	return string(b), true
}

func (r *c23Run) cidNum(keyString string) int {
	if i, ok := r.rev[keyString]; ok {
		return i
	}
	return -1
}
func (r *c23Run) idNum(id string, create bool) int {
	if n, ok := r.ids[id]; ok {
		return n
	}
	if !create {
		return -1
	}
	r.ids[id] = len(r.ids) + 1
	return r.ids[id]
}
func c23Mode(m ipfspin.Mode) string {
	switch m {
	case ipfspin.Recursive:
		return "r"
	case ipfspin.Direct:
		return "d"
	}
	return fmt.Sprintf("mode%d", m)
}

// project one datastore key (+ value) to a spec-level item
type c23Item struct {
	kind       string // dirty | rec | ixR | ixD | ixN | stray
	id, c      int
	mode, name string
}

func (r *c23Run) project(k ds.Key, v []byte, createID bool) c23Item {
	parts := strings.Split(strings.TrimPrefix(k.String(), "/"), "/")
	switch {
	case k.String() == dirtyKeyPath:
		return c23Item{kind: "dirty"}
	case len(parts) == 3 && parts[0] == "pins" && parts[1] == "pin":
		it := c23Item{kind: "rec", id: r.idNum(parts[2], createID)}
		if v != nil {
			pp, err := decodePin(parts[2], v)
			if err != nil {
				return c23Item{kind: "stray"}
			}
			it.c, it.mode, it.name = r.cidNum(pp.Cid.KeyString()), c23Mode(pp.Mode), pp.Name
		}
		return it
	case len(parts) == 5 && parts[0] == "pins" && parts[1] == "index":
		key, ok1 := c23Dec(parts[3])
		val, ok2 := c23Dec(parts[4])
		if !ok1 || !ok2 {
			return c23Item{kind: "stray"}
		}
		switch parts[2] {
		case "cidRindex":
			return c23Item{kind: "ixR", id: r.idNum(val, false), c: r.cidNum(key), mode: "r"}
		case "cidDindex":
			return c23Item{kind: "ixD", id: r.idNum(val, false), c: r.cidNum(key), mode: "d"}
		case "nameIndex":
			return c23Item{kind: "ixN", id: r.idNum(val, false), name: key}
		}
	}
	return c23Item{kind: "stray"}
}

func (r *c23Run) logWrite(put bool, k ds.Key, v []byte) {
	it := r.project(k, v, put)
	e := M{"ev": "W", "id": it.id, "c": it.c, "mode": it.mode, "name": it.name}
	switch it.kind {
	case "dirty":
		e["k"] = "Stray"
		if put && len(v) == 1 && v[0] == 1 {
			e["k"] = "SetDirty"
		} else if put && len(v) == 1 && v[0] == 0 {
			e["k"] = "SetClean"
		}
	case "rec":
		if put {
			e["k"] = "PutRecord"
		} else {
			e["k"], e["c"], e["mode"], e["name"] = "DelRecord", 0, "", ""
		}
	case "ixR", "ixD":
		if put {
			e["k"] = "AddCidIndex"
		} else {
			e["k"] = "DelCidIndex"
		}
	case "ixN":
		e["c"], e["mode"] = 0, ""
		if put {
			e["k"] = "AddNameIndex"
		} else {
			e["k"] = "DelNameIndex"
		}
	default:
		e["k"] = "Stray:" + k.String()
	}
	vEmit(e)
}

// exec runs one call; returns "ok"/"err"
func (r *c23Run) exec(o c23Op) string {
	ctx := context.Background()
	var err error
	switch o.Op {
	case "PinRec":
		if o.Via == 0 {
			err = r.p.Pin(ctx, r.nodes[o.C], true, o.Name)
		} else {
			err = r.p.PinWithMode(ctx, r.cids[o.C], ipfspin.Recursive, o.Name)
		}
	case "PinDir":
		if o.Via == 0 {
			err = r.p.Pin(ctx, r.nodes[o.C], false, o.Name)
		} else {
			err = r.p.PinWithMode(ctx, r.cids[o.C], ipfspin.Direct, o.Name)
		}
	case "Unpin":
		err = r.p.Unpin(ctx, r.cids[o.C], o.Flag)
	case "Update":
		err = r.p.Update(ctx, r.cids[o.C], r.cids[o.C2], o.Flag)
	default:
		panic(o.Op)
	}
	if err != nil {
		return "err"
	}
	return "ok"
}

func (r *c23Run) begin(o c23Op) {
	vEmit(M{"ev": "Begin", "op": o.Op, "c": o.C, "c2": o.C2, "flag": o.Flag, "name": o.Name})
}

// full runs a call to completion and logs End + State; returns the number of writes it issued
func (r *c23Run) full(o c23Op) int {
	w0 := r.d.writes
	r.begin(o)
	res := r.exec(o)
	vEmit(M{"ev": "End", "res": res})
	if !r.quiet {
		r.state()
	}
	return r.d.writes - w0
}

// state logs the raw /pins keys and the answers of the current pinner
func (r *c23Run) state() {
	ctx := context.Background()
	res, err := r.d.inner.Query(ctx, dsq.Query{})
	if err != nil {
		panic(err)
	}
	es, _ := res.Rest()
	recs, ixR, ixD, ixN := [][]any{}, [][]any{}, [][]any{}, [][]any{}
	flag, stray := "none", 0
	for _, e := range es {
		it := r.project(ds.NewKey(e.Key), e.Value, false)
		switch it.kind {
		case "dirty":
			if len(e.Value) == 1 && e.Value[0] <= 1 {
				flag = fmt.Sprint(e.Value[0])
			} else {
				stray++
			}
		case "rec":
			recs = append(recs, []any{it.id, it.c, it.mode, it.name})
		case "ixR":
			ixR = append(ixR, []any{it.c, it.id})
		case "ixD":
			ixD = append(ixD, []any{it.c, it.id})
		case "ixN":
			ixN = append(ixN, []any{it.name, it.id})
		default:
			stray++
		}
	}
	pinned := []int{}
	for i := 1; i <= r.nc; i++ {
		_, ok, err := r.p.IsPinned(ctx, r.cids[i])
		if err != nil {
			stray += 100
		}
		if ok {
			pinned = append(pinned, i)
		}
	}
	keys := func(ch <-chan ipfspin.StreamedPin, want ipfspin.Mode) [][]any {
		out := [][]any{}
		for sp := range ch {
			if sp.Err != nil || sp.Pin.Mode != want {
				stray += 1000
				continue
			}
			out = append(out, []any{r.cidNum(sp.Pin.Key.KeyString()), sp.Pin.Name})
		}
		sort.Slice(out, func(i, j int) bool { return fmt.Sprint(out[i]) < fmt.Sprint(out[j]) })
		return out
	}
	vEmit(M{"ev": "State", "recs": recs, "ixR": ixR, "ixD": ixD, "ixN": ixN, "flag": flag, "stray": stray,
		"pinned": pinned, "rkeys": keys(r.p.RecursiveKeys(ctx, true), ipfspin.Recursive),
		"dkeys": keys(r.p.DirectKeys(ctx, true), ipfspin.Direct)})
}

// crashAndReopen: the process is gone; reopen a real pinner on what was persisted.  If k2 >= 0 the
// recovery itself is cut after k2 writes and the pinner is reopened once more.  Returns the number
// of writes of the (uncut) recovery, or -1 if it was cut.
func (r *c23Run) crashAndReopen(k2 int) int {
	ctx := context.Background()
	vEmit(M{"ev": "Crash"})
	r.p.Close()
	if r.stale >= 0 {
		r.plantStale(r.stale)
		r.stale = -1
	}
	n := -1
	for {
		r.d.dead, r.d.remaining = false, k2
		w0 := r.d.writes
		vEmit(M{"ev": "Reopen"})
		p, err := New(ctx, r.d, r.dag)
		if err == nil && !r.d.dead {
			r.p = p
			n = r.d.writes - w0
			if k2 >= 0 {
				n = -1
			}
			break
		}
		if k2 < 0 {
			panic(fmt.Sprintf("reopen failed without a crash: %v", err))
		}
		// crashed inside the recovery
		vEmit(M{"ev": "Crash"})
		k2 = -1
	}
	r.d.remaining = -1
	r.state()
	return n
}

// plantStale (fault Stale of the spec): while the pinner is down with the dirty flag set, the datastore
// also holds an entry of the OTHER mode's cid index for one existing pin record (same cid, same pin id).
func (r *c23Run) plantStale(sel int) {
	ctx := context.Background()
	if v, err := r.d.inner.Get(ctx, dirtyKey); err != nil || len(v) != 1 || v[0] != 1 {
		return
	}
	res, err := r.d.inner.Query(ctx, dsq.Query{Prefix: pinKeyPath})
	if err != nil {
		panic(err)
	}
	es, _ := res.Rest()
	var pins []*pin
	for _, e := range es {
		pp, err := decodePin(ds.NewKey(e.Key).BaseNamespace(), e.Value)
		if err != nil || r.idNum(pp.Id, false) < 0 {
			continue
		}
		pins = append(pins, pp)
	}
	if len(pins) == 0 {
		return
	}
	sort.Slice(pins, func(i, j int) bool { return r.idNum(pins[i].Id, false) < r.idNum(pins[j].Id, false) })
	pp := pins[sel%len(pins)]
	other := pinCidDIndexPath
	if pp.Mode == ipfspin.Direct {
		other = pinCidRIndexPath
	}
	if err := dsindex.New(r.d.inner, ds.NewKey(other)).Add(ctx, pp.Cid.KeyString(), pp.Id); err != nil {
		panic(err)
	}
	vEmit(M{"ev": "Stale", "id": r.idNum(pp.Id, false)})
}

// c23Directed: call histories chosen by the generator spec GenPinnerWrites (their last call can be stopped
// while one cid has two pin records, or is an Update refused on a recursively pinned target).  Setup calls run
// to completion; the last call is stopped after every one of its writes (k = 0..#writes-1; a call without
// writes: crash when idle); reopen, optionally with a planted stale entry, optionally every cut of the recovery.
type c23Dir struct {
	H []c23Op `json:"h"`
}

func c23Directed(in []json.RawMessage, nc, staleEvery, second int) {
	for hi, raw := range in {
		var d c23Dir
		if err := json.Unmarshal(raw, &d); err != nil || len(d.H) == 0 {
			panic(fmt.Sprintf("bad directed history %s: %v", raw, err))
		}
		last := d.H[len(d.H)-1]
		ref := c23NewRun(nc)
		ref.quiet = true
		wn := 0
		for _, o := range d.H {
			wn = ref.full(o)
		}
		ref.p.Close()
		target := last.C
		if last.Op == "Update" {
			target = last.C2
		}
		follow := []c23Op{{Op: "Unpin", C: target, Flag: true}, {Op: "PinRec", C: target, Name: "b", Via: 1}, {Op: "PinDir", C: target, Name: ""},
			{Op: "Update", C: target, C2: 3, Flag: true}}
		nk := wn
		if nk == 0 {
			nk = 1
		}
		for k := 0; k < nk; k++ {
			for _, stale := range []bool{false, true} {
				if stale && (staleEvery <= 0 || (k+hi)%staleEvery != 0 || k < 1) {
					continue // k = 0: nothing written, the dirty flag is not set
				}
				k2s := []int{-1}
				for len(k2s) > 0 {
					k2 := k2s[0]
					k2s = k2s[1:]
					r := c23NewRun(nc)
					r.quiet = true
					for _, o := range d.H[:len(d.H)-1] {
						r.full(o)
					}
					if wn > 0 {
						r.d.remaining = k
						r.begin(last)
						r.exec(last)
					} else {
						r.full(last)
					}
					if stale {
						r.stale = k + hi
					}
					n := r.crashAndReopen(k2)
					if second > 0 && (k+hi)%2 == 0 && k2 == -1 && n > 1 { // every cut of the recovery, for every other k
						for x := 0; x < n; x++ {
							k2s = append(k2s, x)
						}
					}
					r.quiet = false
					r.full(follow[(k+hi+len(k2s))%len(follow)])
					r.p.Close()
				}
			}
		}
	}
}

func c23RandOp(rng interface{ Intn(int) int }, nc int) c23Op {
	names := []string{"", "a", "b"}
	c, c2 := 1+rng.Intn(nc), 1+rng.Intn(nc)
	switch x := rng.Intn(20); {
	case x < 8:
		return c23Op{Op: "PinRec", C: c, Name: names[rng.Intn(3)], Via: rng.Intn(2)}
	case x < 13:
		return c23Op{Op: "PinDir", C: c, Name: names[rng.Intn(3)], Via: rng.Intn(2)}
	case x < 16:
		return c23Op{Op: "Unpin", C: c, Flag: rng.Intn(4) > 0}
	default:
		return c23Op{Op: "Update", C: c, C2: c2, Flag: rng.Intn(2) == 0}
	}
}

// c23Big: more pin records than rebuildIndexes checks between two flushes (syncRepairFrequency = 50).
// npins complete pins, one more pin cut after its record was written (k writes), then the recovery,
// uncut and cut after each of its writes.  Which records the datastore query returns first is up to
// the map, hence several attempts.
func c23Big(npins, attempts int) {
	for a := 0; a < attempts; a++ {
		for _, k := range []int{2, 3} {
			for _, k2 := range []int{-1, 0, 1} {
				r := c23NewRun(npins + 1)
				r.quiet = true
				for i := 1; i <= npins; i++ {
					r.full(c23Op{Op: "PinRec", C: i, Name: "", Via: 1})
				}
				o := c23Op{Op: "PinRec", C: npins + 1, Name: "a", Via: 1}
				r.d.remaining = k
				r.begin(o)
				r.exec(o)
				r.crashAndReopen(k2)
				r.quiet = false
				r.full(c23Op{Op: "Unpin", C: 1, Flag: true})
				r.p.Close()
			}
		}
	}
}

func TestVerifC23(t *testing.T) {
	defer vFlush()
	if vMode() != "record" {
		t.Skip("no VERIF_MODE")
	}
	log = c23Quiet{log}
	rng := vRand()
	nc := 3
	nhist, hlen, second := vEnvInt("C23_HIST", 3), vEnvInt("C23_LEN", 6), vEnvInt("C23_SECOND", 0)
	if vEnvInt("C23_DIRECTED", 0) > 0 {
		c23Directed(vIn(), nc, vEnvInt("C23_STALE_EVERY", 2), second)
		return
	}
	if n := vEnvInt("C23_BIG", 0); n > 0 {
		c23Big(vEnvInt("C23_BIGPINS", 100), n)
		return
	}
	for h := 0; h < nhist; h++ {
		hist := make([]c23Op, hlen)
		for i := range hist {
			hist[i] = c23RandOp(rng, nc)
		}
		// reference run: number of writes of every call
		ref := c23NewRun(nc)
		wn := make([]int, hlen)
		for i, o := range hist {
			wn[i] = ref.full(o)
		}
		ref.p.Close()
		for j, o := range hist {
			for k := 0; k <= wn[j]; k++ {
				if k == wn[j] && wn[j] > 0 && rng.Intn(3) > 0 {
					continue // crash right after a completed call: keep a third of them
				}
				k2s := []int{-1}
				for len(k2s) > 0 {
					k2 := k2s[0]
					k2s = k2s[1:]
					r := c23NewRun(nc)
					for i := 0; i < j; i++ {
						r.full(hist[i])
					}
					if k < wn[j] {
						r.d.remaining = k
						r.begin(o)
						r.exec(o)
					} else {
						r.full(o)
					}
					n := r.crashAndReopen(k2)
					if second > 0 && k2 == -1 && n > 1 {
						for x := 0; x < n; x++ { // every cut of the recovery
							k2s = append(k2s, x)
						}
					}
					// the recovered pinner must be usable: two more calls
					r.full(c23RandOp(rng, nc))
					if j+1 < hlen {
						r.full(hist[j+1])
					}
					r.p.Close()
				}
			}
		}
	}
}
