//go:build verif

package provider

// C44 harness: replays spec/Reprovider + spec/Reprovider/PrioProvider cases on the real
// provider.New / NewPrioritizedProvider and records random passes for trace validation.

import (
	"context"
	"encoding/json"
	"errors"
	"fmt"
	"sort"
	"sync"
	"testing"
	"time"

	"github.com/ipfs/go-cid"
	"github.com/ipfs/go-datastore"
	dssync "github.com/ipfs/go-datastore/sync"
	mh "github.com/multiformats/go-multihash"
)

type c44Cfg struct {
	Batch  uint  `json:"batch"`
	Many   bool  `json:"many"`
	HasThr bool  `json:"hasThr"`
	Thr    uint  `json:"thr"`
	CbStop bool  `json:"cbStop"`
	Bad    []int `json:"bad"`
}
type c44Cb struct {
	N        uint `json:"n"`
	Complete bool `json:"complete"`
}
type c44Case struct {
	Stream  []int   `json:"stream"`
	Cfg     c44Cfg  `json:"cfg"`
	Batches [][]int `json:"batches"`
	Cb      []c44Cb `json:"cb"`
}

const c44Unlimited = 9999

// key k -> real CID.  Rejected keys use a hash outside the default allowlist (murmur3) or a
// sha2-256 digest truncated below the minimum length; allowed keys alternate CIDv0 / CIDv1.
func c44Cid(k int, bad bool) cid.Cid {
	data := []byte(fmt.Sprintf("c44-key-%d", k))
	if bad {
		if k%2 == 1 {
			m, err := mh.Sum(data, mh.MURMUR3X64_64, -1)
			if err != nil {
				panic(err)
			}
			return cid.NewCidV1(cid.Raw, m)
		}
		m, err := mh.Sum(data, mh.SHA2_256, 10)
		if err != nil {
			panic(err)
		}
		return cid.NewCidV1(cid.Raw, m)
	}
	m, _ := mh.Sum(data, mh.SHA2_256, -1)
	if k%3 == 0 {
		return cid.NewCidV0(m)
	}
	return cid.NewCidV1(cid.DagCBOR, m)
}

type c44Recorder struct {
	mu      sync.Mutex
	byMh    map[string]int
	batches [][]int
	unknown int
	notRaw  int
	emit    bool
}

func (r *c44Recorder) keyOf(m mh.Multihash) int {
	k, ok := r.byMh[string(m)]
	if !ok {
		r.unknown++
		return -1
	}
	return k
}

type c44Many struct{ *c44Recorder }

func (r c44Many) Provide(ctx context.Context, c cid.Cid, b bool) error {
	return errors.New("c44: Provide called on a ProvideMany router during reprovide")
}
func (r c44Many) ProvideMany(ctx context.Context, keys []mh.Multihash) error {
	r.mu.Lock()
	defer r.mu.Unlock()
	var b []int
	for _, m := range keys {
		b = append(b, r.keyOf(m))
	}
	sort.Ints(b)
	r.batches = append(r.batches, b)
	if r.emit {
		vEmit(M{"ev": "Batch", "keys": b})
	}
	return nil
}

type c44Single struct{ *c44Recorder }

func (r c44Single) Provide(ctx context.Context, c cid.Cid, b bool) error {
	r.mu.Lock()
	defer r.mu.Unlock()
	if c.Version() != 1 || c.Type() != cid.Raw {
		r.notRaw++
	}
	k := r.keyOf(c.Hash())
	r.batches = append(r.batches, []int{k})
	if r.emit {
		vEmit(M{"ev": "Batch", "keys": []int{k}})
	}
	return nil
}

type c44Result struct {
	outcome string // "ok" | "hang" | "err:..."
	batches [][]int
	cbs     []c44Cb
	detail  string
}

func c44Run(stream []int, cfg c44Cfg, emit bool, watchdog time.Duration) c44Result {
	bad := map[int]bool{}
	for _, k := range cfg.Bad {
		bad[k] = true
	}
	rec := &c44Recorder{byMh: map[string]int{}, emit: emit}
	var cids []cid.Cid
	for _, k := range stream {
		c := c44Cid(k, bad[k])
		rec.byMh[string(c.Hash())] = k
		cids = append(cids, c)
	}
	kp := func(ctx context.Context) (<-chan cid.Cid, error) {
		ch := make(chan cid.Cid)
		go func() {
			defer close(ch)
			for _, c := range cids {
				select {
				case ch <- c:
				case <-ctx.Done():
					return
				}
			}
		}()
		return ch, nil
	}
	var cbs []c44Cb
	var cbMu sync.Mutex
	opts := []Option{ReproviderInterval(0), KeyProvider(kp)}
	if cfg.Many {
		opts = append(opts, Online(c44Many{rec}))
	} else {
		opts = append(opts, Online(c44Single{rec}))
	}
	if cfg.Batch != c44Unlimited {
		opts = append(opts, MaxBatchSize(cfg.Batch))
	}
	if cfg.HasThr {
		opts = append(opts, ThroughputReport(func(reprovide, complete bool, n uint, d time.Duration) bool {
			cbMu.Lock()
			cbs = append(cbs, c44Cb{n, complete})
			cbMu.Unlock()
			if emit {
				vEmit(M{"ev": "Callback", "n": n, "complete": complete, "reprovide": reprovide})
			}
			return !cfg.CbStop
		}, cfg.Thr))
	}
	sys, err := New(dssync.MutexWrap(datastore.NewMapDatastore()), opts...)
	if err != nil {
		return c44Result{outcome: "err:new:" + err.Error()}
	}
	defer sys.Close()
	ctx, cancel := context.WithCancel(context.Background())
	defer cancel()
	done := make(chan error, 1)
	go func() { done <- sys.Reprovide(ctx) }()
	res := c44Result{}
	select {
	case err := <-done:
		if err != nil {
			res.outcome = "err:" + err.Error()
		} else {
			res.outcome = "ok"
		}
	case <-time.After(watchdog):
		res.outcome = "hang"
		cancel()
		select {
		case <-done:
		case <-time.After(5 * time.Second):
			panic("c44: Reprovide neither terminates nor honours context cancellation")
		}
	}
	rec.mu.Lock()
	res.batches = rec.batches
	if rec.unknown > 0 {
		res.detail = fmt.Sprintf("%d announced multihashes are not keys of the stream", rec.unknown)
	}
	if rec.notRaw > 0 {
		res.detail = "single Provide not called with a CIDv1-raw of the multihash"
	}
	rec.mu.Unlock()
	cbMu.Lock()
	res.cbs = cbs
	cbMu.Unlock()
	return res
}

func c44Norm(b [][]int) string {
	var c [][]int
	for _, x := range b {
		y := append([]int{}, x...)
		sort.Ints(y)
		c = append(c, y)
	}
	s, _ := json.Marshal(c)
	return string(s)
}

func TestVerifC44(t *testing.T) {
	defer vFlush()
	switch vMode() {
	case "replay":
		c44Replay(t)
	case "replayprio":
		c44ReplayPrio(t)
	case "record":
		c44Record(t)
	default:
		t.Skip("no VERIF_MODE")
	}
}

func c44Replay(t *testing.T) {
	n, hangs := 0, 0
	for i, raw := range vIn() {
		var c c44Case
		if err := json.Unmarshal(raw, &c); err != nil {
			t.Fatalf("case %d: %v", i, err)
		}
		wd := 3 * time.Second
		if hangs >= 3 {
			wd = 300 * time.Millisecond // the defect is established; do not spend 3 s on each further case
		}
		r := c44Run(c.Stream, c.Cfg, false, wd)
		res := M{"i": i, "ok": true}
		fail := func(what string) { res = M{"i": i, "ok": false, "step": 0, "what": what} }
		switch {
		case r.outcome == "hang":
			hangs++
			fail(fmt.Sprintf("Reprovide did not return within %v (spec: terminates with %d batches); batches so far %s", wd, len(c.Batches), c44Norm(r.batches)))
		case r.outcome != "ok":
			fail("Reprovide returned " + r.outcome)
		case r.detail != "":
			fail(r.detail)
		case c44Norm(r.batches) != c44Norm(c.Batches):
			fail(fmt.Sprintf("router batches %s, spec expects %s", c44Norm(r.batches), c44Norm(c.Batches)))
		default:
			got, _ := json.Marshal(r.cbs)
			want, _ := json.Marshal(c.Cb)
			if len(r.cbs) == 0 && len(c.Cb) == 0 {
				got, want = nil, nil
			}
			if string(got) != string(want) {
				fail(fmt.Sprintf("throughput callbacks %s, spec expects %s", got, want))
			}
		}
		vEmit(res)
		n++
	}
	vEmit(M{"summary": true, "n": n})
}

type c44PrioCase struct {
	Streams [][]int `json:"streams"`
	Errs    []int   `json:"errs"`
	Out     []int   `json:"out"`
}

func c44ReplayPrio(t *testing.T) {
	n := 0
	for i, raw := range vIn() {
		var c c44PrioCase
		if err := json.Unmarshal(raw, &c); err != nil {
			t.Fatalf("case %d: %v", i, err)
		}
		byCid := map[cid.Cid]int{}
		var fns []KeyChanFunc
		for si, s := range c.Streams {
			isErr := false
			for _, e := range c.Errs {
				if e == si+1 {
					isErr = true
				}
			}
			var cs []cid.Cid
			for _, k := range s {
				cc := c44Cid(k, false)
				byCid[cc] = k
				cs = append(cs, cc)
			}
			fns = append(fns, func(ctx context.Context) (<-chan cid.Cid, error) {
				if isErr {
					return nil, errors.New("stream failed")
				}
				ch := make(chan cid.Cid)
				go func() {
					defer close(ch)
					for _, x := range cs {
						select {
						case ch <- x:
						case <-ctx.Done():
							return
						}
					}
				}()
				return ch, nil
			})
		}
		ctx, cancel := context.WithTimeout(context.Background(), 10*time.Second)
		ch, err := NewPrioritizedProvider(fns...)(ctx)
		res := M{"i": i, "ok": true}
		if err != nil {
			res = M{"i": i, "ok": false, "step": 0, "what": "error " + err.Error()}
		} else {
			got := []int{}
			for x := range ch {
				got = append(got, byCid[x])
			}
			if ctx.Err() != nil {
				res = M{"i": i, "ok": false, "step": 0, "what": "prioritized provider did not finish within 10s"}
			} else if fmt.Sprint(got) != fmt.Sprint(c.Out) {
				res = M{"i": i, "ok": false, "step": 0, "what": fmt.Sprintf("emitted %v, spec expects %v", got, c.Out)}
			}
		}
		cancel()
		vEmit(res)
		n++
	}
	vEmit(M{"summary": true, "n": n})
}

func c44Record(t *testing.T) {
	rng := vRand()
	runs := 40
	if !vQuick() {
		runs = 400
	}
	for r := 0; r < runs; r++ {
		nk := 1 + rng.Intn(20)
		ln := rng.Intn(201)
		if r%5 == 0 {
			ln = rng.Intn(6)
		}
		stream := make([]int, ln)
		for i := range stream {
			stream[i] = 1 + rng.Intn(nk)
		}
		cfg := c44Cfg{Many: rng.Intn(3) != 0, HasThr: rng.Intn(2) == 0, CbStop: rng.Intn(4) == 0, Bad: []int{}}
		switch rng.Intn(4) {
		case 0:
			cfg.Batch = c44Unlimited
		case 1:
			cfg.Batch = uint(rng.Intn(3))
		default:
			cfg.Batch = uint(rng.Intn(40))
		}
		if cfg.HasThr {
			cfg.Thr = uint(rng.Intn(30))
			if rng.Intn(4) == 0 {
				cfg.Thr = uint(rng.Intn(2))
			}
		}
		for k := 1; k <= nk; k++ {
			if rng.Intn(5) == 0 {
				cfg.Bad = append(cfg.Bad, k)
			}
		}
		vEmit(M{"ev": "Reset", "stream": stream, "batch": cfg.Batch, "many": cfg.Many, "hasThr": cfg.HasThr,
			"thr": cfg.Thr, "cbStop": cfg.CbStop, "bad": cfg.Bad})
		res := c44Run(stream, cfg, true, 5*time.Second)
		e := ""
		if res.outcome != "ok" {
			e = res.outcome
		} else if res.detail != "" {
			e = res.detail
		}
		vEmit(M{"ev": "Done", "err": e})
		if res.outcome == "hang" {
			// the rest of the pass never happened; later runs would only repeat the same defect
			continue
		}
	}
}
