//go:build verif

package provider

// C44 harness: replays spec/Reprovider + spec/Reprovider/PrioProvider cases on the real
// provider.New / NewPrioritizedProvider / NewConcatProvider / NewBufferedProvider and records
// random passes for trace validation.  Everything is driven over SEVERAL passes: one System
// runs consecutive Reprovide calls (with SetKeyProvider in between), one KeyChanFunc returned
// by a combinator is invoked repeatedly.

import (
	"context"
	"encoding/json"
	"errors"
	"fmt"
	"sort"
	"sync"
	"testing"
	"time"

	"github.com/ipfs/go-cid"
	"github.com/ipfs/go-datastore"
	dssync "github.com/ipfs/go-datastore/sync"
	logging "github.com/ipfs/go-log/v2"
	mh "github.com/multiformats/go-multihash"
)

type c44Cfg struct {
	Batch  uint  `json:"batch"`
	Many   bool  `json:"many"`
	HasThr bool  `json:"hasThr"`
	Thr    uint  `json:"thr"`
	CbStop bool  `json:"cbStop"`
	Bad    []int `json:"bad"`
}
type c44Cb struct {
	N        uint `json:"n"`
	Complete bool `json:"complete"`
}
type c44PlanStep struct {
	How string `json:"how"` // "same" | "set" | "setnil"
	Arg []int  `json:"arg"`
}
type c44Pass struct {
	Stream  []int   `json:"stream"`
	Batches [][]int `json:"batches"`
	Cb      []c44Cb `json:"cb"`
}

// one system, len(Passes) consecutive Reprovide passes; Plan[p-1] says what happens between
// pass p and pass p+1 (nothing / SetKeyProvider(Arg) / SetKeyProvider(nil))
type c44Case struct {
	Cfg    c44Cfg        `json:"cfg"`
	Plan   []c44PlanStep `json:"plan"`
	Passes []c44Pass     `json:"passes"`
}

const c44Unlimited = 9999

// key k -> real CID.  Rejected keys use a hash outside the default allowlist (murmur3) or a
// sha2-256 digest truncated below the minimum length; allowed keys alternate CIDv0 / CIDv1.
func c44Cid(k int, bad bool) cid.Cid {
	data := []byte(fmt.Sprintf("c44-key-%d", k))
	if bad {
		if k%2 == 1 {
			m, err := mh.Sum(data, mh.MURMUR3X64_64, -1)
			if err != nil {
				panic(err)
			}
			return cid.NewCidV1(cid.Raw, m)
		}
		m, err := mh.Sum(data, mh.SHA2_256, 10)
		if err != nil {
			panic(err)
		}
		return cid.NewCidV1(cid.Raw, m)
	}
	m, _ := mh.Sum(data, mh.SHA2_256, -1)
	if k%3 == 0 {
		return cid.NewCidV0(m)
	}
	return cid.NewCidV1(cid.DagCBOR, m)
}

type c44Recorder struct {
	mu      sync.Mutex
	byMh    map[string]int
	batches [][]int
	unknown int
	notRaw  int
	emit    bool
}

func (r *c44Recorder) keyOf(m mh.Multihash) int {
	k, ok := r.byMh[string(m)]
	if !ok {
		r.unknown++
		return -1
	}
	return k
}

type c44Many struct{ *c44Recorder }

func (r c44Many) Provide(ctx context.Context, c cid.Cid, b bool) error {
	return errors.New("c44: Provide called on a ProvideMany router during reprovide")
}
func (r c44Many) ProvideMany(ctx context.Context, keys []mh.Multihash) error {
	r.mu.Lock()
	defer r.mu.Unlock()
	var b []int
	for _, m := range keys {
		b = append(b, r.keyOf(m))
	}
	sort.Ints(b)
	r.batches = append(r.batches, b)
	if r.emit {
		vEmit(M{"ev": "Batch", "keys": b})
	}
	return nil
}

type c44Single struct{ *c44Recorder }

func (r c44Single) Provide(ctx context.Context, c cid.Cid, b bool) error {
	r.mu.Lock()
	defer r.mu.Unlock()
	if c.Version() != 1 || c.Type() != cid.Raw {
		r.notRaw++
	}
	k := r.keyOf(c.Hash())
	r.batches = append(r.batches, []int{k})
	if r.emit {
		vEmit(M{"ev": "Batch", "keys": []int{k}})
	}
	return nil
}

type c44Result struct {
	outcome string // "ok" | "hang" | "err:..."
	batches [][]int
	cbs     []c44Cb
	detail  string
}

// c44Sys is one real provider.System with fake router + recorded callbacks, on which several
// reprovide passes are run.
type c44Sys struct {
	sys  System
	rec  *c44Recorder
	bad  map[int]bool
	emit bool
	cbMu sync.Mutex
	cbs  []c44Cb
}

// key provider over a fixed key stream; every invocation streams all of it again
func (s *c44Sys) kpFor(stream []int) KeyChanFunc {
	var cids []cid.Cid
	s.rec.mu.Lock()
	for _, k := range stream {
		c := c44Cid(k, s.bad[k])
		s.rec.byMh[string(c.Hash())] = k
		cids = append(cids, c)
	}
	s.rec.mu.Unlock()
	return func(ctx context.Context) (<-chan cid.Cid, error) {
		ch := make(chan cid.Cid)
		go func() {
			defer close(ch)
			for _, c := range cids {
				select {
				case ch <- c:
				case <-ctx.Done():
					return
				}
			}
		}()
		return ch, nil
	}
}

// wrap: "" | "buf" | "prio1" | "concat1" -- combinators that are identities on one stream
func c44Wrap(kp KeyChanFunc, wrap string) KeyChanFunc {
	switch wrap {
	case "buf":
		return NewBufferedProvider(kp)
	case "prio1":
		return NewPrioritizedProvider(kp)
	case "concat1":
		return NewConcatProvider(kp)
	}
	return kp
}

func c44NewSys(stream []int, cfg c44Cfg, emit bool, wrap string) (*c44Sys, error) {
	s := &c44Sys{bad: map[int]bool{}, emit: emit}
	for _, k := range cfg.Bad {
		s.bad[k] = true
	}
	s.rec = &c44Recorder{byMh: map[string]int{}, emit: emit}
	opts := []Option{ReproviderInterval(0), KeyProvider(c44Wrap(s.kpFor(stream), wrap))}
	if cfg.Many {
		opts = append(opts, Online(c44Many{s.rec}))
	} else {
		opts = append(opts, Online(c44Single{s.rec}))
	}
	if cfg.Batch != c44Unlimited {
		opts = append(opts, MaxBatchSize(cfg.Batch))
	}
	if cfg.HasThr {
		opts = append(opts, ThroughputReport(func(reprovide, complete bool, n uint, d time.Duration) bool {
			s.cbMu.Lock()
			s.cbs = append(s.cbs, c44Cb{n, complete})
			s.cbMu.Unlock()
			if emit {
				vEmit(M{"ev": "Callback", "n": n, "complete": complete, "reprovide": reprovide})
			}
			return !cfg.CbStop
		}, cfg.Thr))
	}
	sys, err := New(dssync.MutexWrap(datastore.NewMapDatastore()), opts...)
	if err != nil {
		return nil, err
	}
	s.sys = sys
	return s, nil
}

// pass runs ONE Reprovide on the system and returns what the router / callback saw during it.
func (s *c44Sys) pass(watchdog time.Duration) c44Result {
	s.rec.mu.Lock()
	s.rec.batches, s.rec.unknown, s.rec.notRaw = nil, 0, 0
	s.rec.mu.Unlock()
	s.cbMu.Lock()
	s.cbs = nil
	s.cbMu.Unlock()
	ctx, cancel := context.WithCancel(context.Background())
	defer cancel()
	done := make(chan error, 1)
	go func() { done <- s.sys.Reprovide(ctx) }()
	res := c44Result{}
	select {
	case err := <-done:
		if err != nil {
			res.outcome = "err:" + err.Error()
		} else {
			res.outcome = "ok"
		}
	case <-time.After(watchdog):
		res.outcome = "hang"
		cancel()
		select {
		case <-done:
		case <-time.After(5 * time.Second):
			panic("c44: Reprovide neither terminates nor honours context cancellation")
		}
	}
	s.rec.mu.Lock()
	res.batches = s.rec.batches
	if s.rec.unknown > 0 {
		res.detail = fmt.Sprintf("%d announced multihashes are not keys of the stream", s.rec.unknown)
	}
	if s.rec.notRaw > 0 {
		res.detail = "single Provide not called with a CIDv1-raw of the multihash"
	}
	s.rec.mu.Unlock()
	s.cbMu.Lock()
	res.cbs = s.cbs
	s.cbMu.Unlock()
	return res
}

// between applies one plan step (what happens between two passes)
func (s *c44Sys) between(how string, arg []int, wrap string) {
	switch how {
	case "set":
		s.sys.SetKeyProvider(c44Wrap(s.kpFor(arg), wrap))
	case "setnil":
		s.sys.SetKeyProvider(nil)
	}
}

func c44Norm(b [][]int) string {
	var c [][]int
	for _, x := range b {
		y := append([]int{}, x...)
		sort.Ints(y)
		c = append(c, y)
	}
	s, _ := json.Marshal(c)
	return string(s)
}

func TestVerifC44(t *testing.T) {
	defer vFlush()
	// a pass that spins (non-terminating loop over rejected keys) logs an error per iteration: gigabytes of
	// captured output within the watchdog time on a fast machine
	logging.SetAllLoggers(logging.LevelFatal)
	switch vMode() {
	case "replay":
		c44Replay(t)
	case "replayprio":
		c44ReplayPrio(t)
	case "record":
		c44Record(t)
	default:
		t.Skip("no VERIF_MODE")
	}
}

func c44Replay(t *testing.T) {
	n, hangs, nfail := 0, 0, 0
	for i, raw := range vIn() {
		var c c44Case
		if err := json.Unmarshal(raw, &c); err != nil {
			t.Fatalf("case %d: %v", i, err)
		}
		wd := 3 * time.Second
		if hangs >= 3 {
			wd = 300 * time.Millisecond // the defect is established; do not spend 3 s on each further case
		}
		res := M{"i": i, "ok": true}
		if len(c.Passes) == 0 || len(c.Plan) != len(c.Passes)-1 {
			t.Fatalf("case %d: malformed plan/passes", i)
		}
		if nfail > 25 { // defect established and reported 25 times: do not spend a watchdog on every further case
			vEmit(M{"i": i, "ok": true, "capped": true})
			n++
			continue
		}
		sys, err := c44NewSys(c.Passes[0].Stream, c.Cfg, false, "")
		if err != nil {
			vEmit(M{"i": i, "ok": false, "step": 0, "what": "New: " + err.Error()})
			n++
			continue
		}
		for p, want := range c.Passes {
			if p > 0 {
				sys.between(c.Plan[p-1].How, c.Plan[p-1].Arg, "")
			}
			r := sys.pass(wd)
			what := ""
			switch {
			case r.outcome == "hang":
				hangs++
				what = fmt.Sprintf("Reprovide did not return within %v (spec: terminates with %d batches); batches so far %s", wd, len(want.Batches), c44Norm(r.batches))
			case r.outcome != "ok":
				what = "Reprovide returned " + r.outcome
			case r.detail != "":
				what = r.detail
			case c44Norm(r.batches) != c44Norm(want.Batches):
				what = fmt.Sprintf("router batches %s, spec expects %s", c44Norm(r.batches), c44Norm(want.Batches))
			default:
				got, _ := json.Marshal(r.cbs)
				exp, _ := json.Marshal(want.Cb)
				if len(r.cbs) == 0 && len(want.Cb) == 0 {
					got, exp = nil, nil
				}
				if string(got) != string(exp) {
					what = fmt.Sprintf("throughput callbacks %s, spec expects %s", got, exp)
				}
			}
			if what != "" {
				how := "first pass"
				if p > 0 {
					how = fmt.Sprintf("pass %d on the same system (after %q), stream %v", p+1, c.Plan[p-1].How, want.Stream)
				}
				res = M{"i": i, "ok": false, "step": p, "what": how + ": " + what}
				break
			}
		}
		sys.sys.Close()
		if res["ok"] == false {
			nfail++
		}
		vEmit(res)
		n++
	}
	vEmit(M{"summary": true, "n": n, "failed": nfail})
}

type c44PrioCase struct {
	Kind    string  `json:"kind"` // "prio" | "bufprio" | "concat"
	Streams [][]int `json:"streams"`
	Errs    [][]int `json:"errs"` // per pass: 1-based indices of the streams whose KeyChanFunc fails
	Outs    [][]int `json:"outs"` // per pass: expected emission sequence
}

// The combinator is built ONCE; the KeyChanFunc it returns is invoked len(Outs) times, as a
// reprovider does at every pass.
func c44ReplayPrio(t *testing.T) {
	n, nfail := 0, 0
	for i, raw := range vIn() {
		var c c44PrioCase
		if err := json.Unmarshal(raw, &c); err != nil {
			t.Fatalf("case %d: %v", i, err)
		}
		byCid := map[cid.Cid]int{}
		var failing sync.Map // stream index -> bool, for the current pass
		var fns []KeyChanFunc
		for si, s := range c.Streams {
			var cs []cid.Cid
			for _, k := range s {
				cc := c44Cid(k, false)
				byCid[cc] = k
				cs = append(cs, cc)
			}
			fns = append(fns, func(ctx context.Context) (<-chan cid.Cid, error) {
				if v, ok := failing.Load(si + 1); ok && v.(bool) {
					return nil, errors.New("stream failed")
				}
				ch := make(chan cid.Cid)
				go func() {
					defer close(ch)
					for _, x := range cs {
						select {
						case ch <- x:
						case <-ctx.Done():
							return
						}
					}
				}()
				return ch, nil
			})
		}
		var kcf KeyChanFunc
		switch c.Kind {
		case "prio":
			kcf = NewPrioritizedProvider(fns...)
		case "bufprio":
			kcf = NewBufferedProvider(NewPrioritizedProvider(fns...))
		case "concat":
			kcf = NewConcatProvider(fns...)
		default:
			t.Fatalf("case %d: unknown kind %q", i, c.Kind)
		}
		res := M{"i": i, "ok": true}
		for p, want := range c.Outs {
			for si := range c.Streams {
				failing.Store(si+1, false)
			}
			for _, e := range c.Errs[p] {
				failing.Store(e, true)
			}
			ctx, cancel := context.WithTimeout(context.Background(), 10*time.Second)
			ch, err := kcf(ctx)
			what := ""
			if err != nil {
				what = "error " + err.Error()
			} else {
				got := []int{}
				for x := range ch {
					got = append(got, byCid[x])
				}
				if ctx.Err() != nil {
					what = "key provider did not finish within 10s"
				} else if fmt.Sprint(got) != fmt.Sprint(want) {
					what = fmt.Sprintf("emitted %v, spec expects %v", got, want)
				}
			}
			cancel()
			if what != "" {
				res = M{"i": i, "ok": false, "step": p, "what": fmt.Sprintf("%s invocation %d of the same KeyChanFunc (failing streams %v): %s", c.Kind, p+1, c.Errs[p], what)}
				break
			}
		}
		if res["ok"] == false {
			nfail++
			if nfail > 25 {
				res = M{"i": i, "ok": true, "capped": true}
			}
		}
		vEmit(res)
		n++
	}
	vEmit(M{"summary": true, "n": n, "failed": nfail})
}

func c44RandStream(rng interface{ Intn(int) int }, nk, maxLen int) []int {
	stream := make([]int, rng.Intn(maxLen+1))
	for i := range stream {
		stream[i] = 1 + rng.Intn(nk)
	}
	return stream
}

func c44Record(t *testing.T) {
	rng := vRand()
	runs := 30
	if !vQuick() {
		runs = 300
	}
	wraps := []string{"", "buf", "prio1", "concat1"}
	for r := 0; r < runs; r++ {
		nk := 1 + rng.Intn(20)
		stream := c44RandStream(rng, nk, 200)
		if r%5 == 0 {
			stream = c44RandStream(rng, nk, 5)
		}
		cfg := c44Cfg{Many: rng.Intn(3) != 0, HasThr: rng.Intn(2) == 0, CbStop: rng.Intn(4) == 0, Bad: []int{}}
		switch rng.Intn(4) {
		case 0:
			cfg.Batch = c44Unlimited
		case 1:
			cfg.Batch = uint(rng.Intn(3))
		default:
			cfg.Batch = uint(rng.Intn(40))
		}
		if cfg.HasThr {
			cfg.Thr = uint(rng.Intn(30))
			if rng.Intn(4) == 0 {
				cfg.Thr = uint(rng.Intn(2))
			}
		}
		for k := 1; k <= nk; k++ {
			if rng.Intn(5) == 0 {
				cfg.Bad = append(cfg.Bad, k)
			}
		}
		// the key provider handed to the system is the plain stream or the stream behind a
		// combinator that is an identity on one stream (spec: PrioProvider) -- not in the trace
		wrap := wraps[rng.Intn(len(wraps))]
		vEmit(M{"ev": "Reset", "stream": stream, "batch": cfg.Batch, "many": cfg.Many, "hasThr": cfg.HasThr,
			"thr": cfg.Thr, "cbStop": cfg.CbStop, "bad": cfg.Bad, "wrap": wrap})
		sys, err := c44NewSys(stream, cfg, true, wrap)
		if err != nil {
			vEmit(M{"ev": "Done", "err": "err:new:" + err.Error()})
			continue
		}
		passes := 1 + rng.Intn(3)
		for p := 0; p < passes; p++ {
			if p > 0 {
				how := []string{"same", "same", "set", "set", "setnil"}[rng.Intn(5)]
				if how == "set" {
					stream = c44RandStream(rng, nk, 60)
				}
				vEmit(M{"ev": "Pass", "how": how, "stream": stream})
				sys.between(how, stream, wrap)
			}
			res := sys.pass(5 * time.Second)
			e := ""
			if res.outcome != "ok" {
				e = res.outcome
			} else if res.detail != "" {
				e = res.detail
			}
			vEmit(M{"ev": "Done", "err": e})
			if res.outcome == "hang" {
				break // the rest of the pass never happened; the system is in an unknown state
			}
		}
		sys.sys.Close()
	}
}
