//go:build verif

package iter

// C43 harness: replays TLC-generated runs of spec/Iter (GenIter) into the real combinators.
// Every level of the composition (source, each Map/Filter/Limit) is wrapped in a transparent
// counting iterator, so that the per-level counters of the specification (pulls, closes) can be
// observed.  Every value the outermost iterator hands out is KEPT as handed out (no deep copy, the
// way a caller collecting results keeps them) and all kept values are compared again with what the
// specification said they were after every later step (Iter!OutStable).
// Projection (trusted): the counting wrapper; a JSON error result is the value 99 (ErrVal) resp.
// {a:99} (ErrDoc); element sorts: plain ints (src slice | json) and, for src jsond, structured
// documents decoded into c43Doc {a int, b []int, m map[string]int}, projected to "a|b|x,y"
// (nil and empty slices alike, a missing map key = 0); the rendering of a document as JSON text.
//   C43_KIND=cases : one line per (layer chain, source) with the canonical drive for every sequence
//   C43_KIND=sim   : one line per random term with a random Next/Val/Close drive

import (
	"encoding/json"
	"fmt"
	"sort"
	"strconv"
	"strings"
	"testing"
)

type c43Count[T any] struct {
	inner  Iter[T]
	nexts  int
	pulls  int
	closes int
}

func (c *c43Count[T]) Next() bool {
	c.nexts++
	ok := c.inner.Next()
	if ok {
		c.pulls++
	}
	return ok
}
func (c *c43Count[T]) Val() T { return c.inner.Val() }
func (c *c43Count[T]) Close() error {
	c.closes++
	return c.inner.Close()
}

// the byte stream under the JSON source; counts Close (io.Closer)
type c43Reader struct {
	r      *strings.Reader
	closes int
}

func (r *c43Reader) Read(p []byte) (int, error) { return r.r.Read(p) }
func (r *c43Reader) Close() error               { r.closes++; return nil }

// JSON results as plain values (an error result is errv = ErrVal / ErrDoc of the specification)
type c43JSON[T any] struct {
	inner *JSONIter[T]
	errv  T
}

func (j c43JSON[T]) Next() bool { return j.inner.Next() }
func (j c43JSON[T]) Val() T {
	r := j.inner.Val()
	if r.Err != nil {
		return j.errv
	}
	return r.Val
}
func (j c43JSON[T]) Close() error { return j.inner.Close() }

// ---- element sorts ---------------------------------------------------------------------------

// structured element: what a document of the specification decodes into
type c43Doc struct {
	A int            `json:"a"`
	B []int          `json:"b"`
	M map[string]int `json:"m"`
}

// a document of the specification: null, or an object whose fields are absent | null | val
type c43FldA struct {
	K string `json:"k"`
	V int    `json:"v"`
}
type c43FldB struct {
	K string `json:"k"`
	V []int  `json:"v"`
}
type c43XY struct {
	X int `json:"x"`
	Y int `json:"y"`
}
type c43FldM struct {
	K string `json:"k"`
	V c43XY  `json:"v"`
}
type c43SpecDoc struct {
	Null bool    `json:"null"`
	A    c43FldA `json:"a"`
	B    c43FldB `json:"b"`
	M    c43FldM `json:"m"`
}

// a value of the specification [a, b, m : [x, y]]
type c43SpecVal struct {
	A int   `json:"a"`
	B []int `json:"b"`
	M c43XY `json:"m"`
}

func c43ProjParts(a int, b []int, x, y int, extra string) string {
	return fmt.Sprintf("{a:%d b:%v m:{x:%d y:%d%s}}", a, append([]int{}, b...), x, y, extra)
}

// the JSON text of a document
func (d c43SpecDoc) text() string {
	if d.Null {
		return "null"
	}
	var f []string
	switch d.A.K {
	case "null":
		f = append(f, `"a":null`)
	case "val":
		f = append(f, `"a":`+strconv.Itoa(d.A.V))
	}
	switch d.B.K {
	case "null":
		f = append(f, `"b":null`)
	case "val":
		e := make([]string, len(d.B.V))
		for i, x := range d.B.V {
			e[i] = strconv.Itoa(x)
		}
		f = append(f, `"b":[`+strings.Join(e, ",")+`]`)
	}
	switch d.M.K {
	case "null":
		f = append(f, `"m":null`)
	case "val":
		var e []string
		if d.M.V.X != 0 {
			e = append(e, `"x":`+strconv.Itoa(d.M.V.X))
		}
		if d.M.V.Y != 0 {
			e = append(e, `"y":`+strconv.Itoa(d.M.V.Y))
		}
		f = append(f, `"m":{`+strings.Join(e, ",")+`}`)
	}
	return "{" + strings.Join(f, ",") + "}"
}

// what the harness needs to know about an element sort
type c43Ops[T any] struct {
	inc, dbl func(T) T
	key      func(T) int             // the number Filter predicates look at
	proj     func(T) string          // projection of a real value
	want     func(json.RawMessage) string // the same projection of a value printed by the specification
	errv     T
	text     func(json.RawMessage) string // JSON text of one stream element
}

var c43IntOps = c43Ops[int]{
	inc:  func(x int) int { return x + 1 },
	dbl:  func(x int) int { return 2 * x },
	key:  func(x int) int { return x },
	proj: func(x int) string { return strconv.Itoa(x) },
	want: func(m json.RawMessage) string { return strconv.Itoa(c43Int(m)) },
	errv: 99,
	text: func(m json.RawMessage) string { return strconv.Itoa(c43Int(m)) },
}

var c43DocOps = c43Ops[c43Doc]{
	inc: func(d c43Doc) c43Doc { d.A++; return d },
	dbl: func(d c43Doc) c43Doc { d.A *= 2; return d },
	key: func(d c43Doc) int { return d.A },
	proj: func(d c43Doc) string {
		var extra []string
		for k, v := range d.M {
			if k != "x" && k != "y" {
				extra = append(extra, fmt.Sprintf(" %s:%d", k, v))
			}
		}
		sort.Strings(extra)
		return c43ProjParts(d.A, d.B, d.M["x"], d.M["y"], strings.Join(extra, ""))
	},
	want: func(m json.RawMessage) string {
		var v c43SpecVal
		if err := json.Unmarshal(m, &v); err != nil {
			panic(fmt.Sprintf("spec value %s: %v", m, err))
		}
		return c43ProjParts(v.A, v.B, v.M.X, v.M.Y, "")
	},
	errv: c43Doc{A: 99},
	text: func(m json.RawMessage) string {
		var d c43SpecDoc
		if err := json.Unmarshal(m, &d); err != nil {
			panic(fmt.Sprintf("spec document %s: %v", m, err))
		}
		return d.text()
	},
}

type c43Layer struct {
	K string `json:"k"`
	F string `json:"f"`
	P string `json:"p"`
	N int    `json:"n"`
}

func c43Chain(src string, layers []c43Layer) string {
	d := src
	for _, l := range layers {
		switch l.K {
		case "map":
			d = "Map(" + d + "," + l.F + ")"
		case "filter":
			d = "Filter(" + d + "," + l.P + ")"
		default:
			d = fmt.Sprintf("Limit(%s,%d)", d, l.N)
		}
	}
	return d
}

type c43Sys[T any] struct {
	ops  *c43Ops[T]
	lv   []*c43Count[T] // level 0 = source
	rd   *c43Reader     // JSON source only
	top  Iter[T]
	text string   // the JSON stream
	kept []T      // every value handed out by the outermost iterator, as handed out
	exp  []string // what the specification said it was
}

// the driver interface (independent of the element sort)
type c43Driver interface {
	next(r bool, v json.RawMessage, caps []int) string
	val(v json.RawMessage) string
	close(lvl int, mincl []int) string
	stream() string
}

func c43Build[T any](ops *c43Ops[T], src string, xs []json.RawMessage, bad int, layers []c43Layer) *c43Sys[T] {
	s := &c43Sys[T]{ops: ops}
	var cur Iter[T]
	if src == "slice" {
		cp := make([]T, len(xs))
		for i, x := range xs {
			var v T
			if err := json.Unmarshal(x, &v); err != nil {
				panic(err)
			}
			cp[i] = v
		}
		cur = FromSlice(cp)
	} else {
		var sb strings.Builder
		for i, x := range xs {
			if i+1 == bad {
				sb.WriteString("x ")
			} else {
				sb.WriteString(ops.text(x))
				sb.WriteString("\n")
			}
		}
		s.text = sb.String()
		s.rd = &c43Reader{r: strings.NewReader(s.text)}
		cur = c43JSON[T]{FromReaderJSON[T](s.rd), ops.errv}
	}
	c := &c43Count[T]{inner: cur}
	s.lv = append(s.lv, c)
	cur = c
	for _, ly := range layers {
		switch ly.K {
		case "map":
			f := ops.inc
			if ly.F == "dbl" {
				f = ops.dbl
			}
			cur = Map[T, T](cur, f)
		case "filter":
			p := func(x T) bool { return true }
			switch ly.P {
			case "false":
				p = func(x T) bool { return false }
			case "even":
				p = func(x T) bool { return ops.key(x)%2 == 0 }
			}
			cur = Filter[T](cur, p)
		case "limit":
			cur = Limit[T](cur, ly.N)
		default:
			panic("layer " + ly.K)
		}
		c := &c43Count[T]{inner: cur}
		s.lv = append(s.lv, c)
		cur = c
	}
	s.top = cur
	return s
}

func (s *c43Sys[T]) stream() string { return strings.ReplaceAll(s.text, "\n", " ") }

func (s *c43Sys[T]) closesAt(i int) int {
	if i == 0 && s.rd != nil {
		return s.rd.closes // the real underlying resource
	}
	return s.lv[i].closes
}

// OutStable: everything handed out so far still is what it was when it was handed out
func (s *c43Sys[T]) stable(after string) string {
	for i, v := range s.kept {
		if got := s.ops.proj(v); got != s.exp[i] {
			return fmt.Sprintf("OutStable: element %d handed out earlier was %s, after %s it reads %s (all kept: %s)", i+1, s.exp[i], after, got, s.keptAll())
		}
	}
	return ""
}

func (s *c43Sys[T]) keptAll() string {
	p := make([]string, len(s.kept))
	for i, v := range s.kept {
		p[i] = s.ops.proj(v)
	}
	return "[" + strings.Join(p, " ") + "]"
}

func (s *c43Sys[T]) next(r bool, v json.RawMessage, caps []int) string {
	ok := s.top.Next()
	if ok != r {
		return fmt.Sprintf("Next() = %v, expected %v", ok, r)
	}
	if ok {
		want := s.ops.want(v)
		val := s.top.Val()
		if got := s.ops.proj(val); got != want {
			return fmt.Sprintf("Val() = %s after Next, expected %s", got, want)
		}
		if got := s.ops.proj(s.top.Val()); got != want {
			return fmt.Sprintf("second Val() = %s, expected %s (Val must not advance)", got, want)
		}
		s.kept = append(s.kept, val)
		s.exp = append(s.exp, want)
	}
	for i, c := range caps {
		if c >= 0 && s.lv[i].pulls > c {
			return fmt.Sprintf("ReadAhead: level %d handed out %d elements, the Limit above it has yielded %d", i, s.lv[i].pulls, c-1)
		}
	}
	return s.stable("Next")
}

func (s *c43Sys[T]) val(v json.RawMessage) string {
	want := s.ops.want(v)
	if got := s.ops.proj(s.top.Val()); got != want {
		return fmt.Sprintf("Val() = %s, expected %s", got, want)
	}
	if n := len(s.exp); n == 0 || s.exp[n-1] != want {
		return fmt.Sprintf("Val() expected %s differs from the value of the latest Next", want)
	}
	return s.stable("Val")
}

func (s *c43Sys[T]) close(lvl int, mincl []int) string {
	if err := s.lv[lvl].Close(); err != nil {
		return "Close: " + err.Error()
	}
	for i, m := range mincl {
		if s.closesAt(i) < m {
			return fmt.Sprintf("CloseReaches: after Close on level %d, level %d has seen %d Close calls, expected >= %d", lvl, i, s.closesAt(i), m)
		}
	}
	return s.stable("Close")
}

func c43New(src string, xs []json.RawMessage, bad int, layers []c43Layer) c43Driver {
	if src == "jsond" {
		return c43Build(&c43DocOps, "json", xs, bad, layers)
	}
	return c43Build(&c43IntOps, src, xs, bad, layers)
}

type c43Run struct {
	Xs  []json.RawMessage   `json:"xs"`
	Bad int                 `json:"bad"`
	Den []json.RawMessage   `json:"den"`
	N   [][]json.RawMessage `json:"n"` // [r, v, caps]
	C   [][]json.RawMessage `json:"c"` // [lvl, mincl]
}
type c43Case struct {
	Src    string     `json:"src"`
	Layers []c43Layer `json:"layers"`
	Runs   []c43Run   `json:"runs"`
}
type c43Step struct {
	Op    string          `json:"op"`
	R     bool            `json:"r"`
	V     json.RawMessage `json:"v"`
	Caps  []int           `json:"caps"`
	Lvl   int             `json:"lvl"`
	MinCl []int           `json:"mincl"`
}
type c43Sim struct {
	Src    string            `json:"src"`
	Xs     []json.RawMessage `json:"xs"`
	Bad    int               `json:"bad"`
	Layers []c43Layer        `json:"layers"`
	Steps  []c43Step         `json:"steps"`
}

func c43Int(m json.RawMessage) int {
	var v int
	if err := json.Unmarshal(m, &v); err != nil {
		panic(err)
	}
	return v
}
func c43Ints(m json.RawMessage) []int {
	var v []int
	if err := json.Unmarshal(m, &v); err != nil {
		panic(err)
	}
	return v
}

func c43Input(src string, xs []json.RawMessage, bad int, s c43Driver) string {
	if src == "jsond" {
		return fmt.Sprintf("stream=%q bad=%d", s.stream(), bad)
	}
	p := make([]string, len(xs))
	for i, x := range xs {
		p[i] = string(x)
	}
	return fmt.Sprintf("xs=[%s] bad=%d", strings.Join(p, " "), bad)
}

func TestVerifC43(t *testing.T) {
	defer vFlush()
	if vMode() != "replay" {
		t.Skip("no VERIF_MODE")
	}
	n, failed := 0, 0
	for i, raw := range vIn() {
		n++
		res := M{"i": i, "ok": true}
		if vEnv("C43_KIND") == "sim" {
			var b c43Sim
			if err := json.Unmarshal(raw, &b); err != nil {
				t.Fatalf("behaviour %d: %v", i, err)
			}
			s := c43New(b.Src, b.Xs, b.Bad, b.Layers)
			for k, st := range b.Steps {
				what := ""
				switch st.Op {
				case "Next":
					what = s.next(st.R, st.V, st.Caps)
				case "Val":
					what = s.val(st.V)
				case "Close":
					what = s.close(st.Lvl, st.MinCl)
				}
				if what != "" {
					res = M{"i": i, "ok": false, "step": k + 1, "what": fmt.Sprintf("%s %s: %s", c43Chain(b.Src, b.Layers), c43Input(b.Src, b.Xs, b.Bad, s), what)}
					break
				}
			}
		} else {
			var c c43Case
			if err := json.Unmarshal(raw, &c); err != nil {
				t.Fatalf("case %d: %v", i, err)
			}
		runs:
			for _, r := range c.Runs {
				s := c43New(c.Src, r.Xs, r.Bad, c.Layers)
				for k, st := range r.N {
					rr := c43Int(st[0]) == 1
					if what := s.next(rr, st[1], c43Ints(st[2])); what != "" {
						res = M{"i": i, "ok": false, "step": k + 1,
							"what": fmt.Sprintf("%s %s: %s (list semantics %s)", c43Chain(c.Src, c.Layers), c43Input(c.Src, r.Xs, r.Bad, s), what, r.Den)}
						break runs
					}
				}
				for k, st := range r.C {
					if what := s.close(c43Int(st[0]), c43Ints(st[1])); what != "" {
						res = M{"i": i, "ok": false, "step": len(r.N) + k + 1, "what": fmt.Sprintf("%s %s: %s", c43Chain(c.Src, c.Layers), c43Input(c.Src, r.Xs, r.Bad, s), what)}
						break runs
					}
				}
			}
		}
		if res["ok"] == false {
			failed++
			if failed > 25 { // a broken tree fails thousands of runs: the first 25 say it all
				res = M{"i": i, "ok": true}
			}
		}
		vEmit(res)
	}
	vEmit(M{"summary": true, "n": n})
}
