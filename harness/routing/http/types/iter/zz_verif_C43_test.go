//go:build verif

package iter

// C43 harness: replays TLC-generated runs of spec/Iter (GenIter) into the real combinators.
// Every level of the composition (source, each Map/Filter/Limit) is wrapped in a transparent
// counting iterator, so that the per-level counters of the specification (pulls, closes) can be
// observed.  Projection (trusted): the counting wrapper; a JSON error result is the value 99.
//   C43_KIND=cases : one line per (layer chain, source) with the canonical drive for every sequence
//   C43_KIND=sim   : one line per random term with a random Next/Val/Close drive

import (
	"encoding/json"
	"fmt"
	"strconv"
	"strings"
	"testing"
)

type c43Count struct {
	inner  Iter[int]
	nexts  int
	pulls  int
	closes int
}

func (c *c43Count) Next() bool {
	c.nexts++
	ok := c.inner.Next()
	if ok {
		c.pulls++
	}
	return ok
}
func (c *c43Count) Val() int { return c.inner.Val() }
func (c *c43Count) Close() error {
	c.closes++
	return c.inner.Close()
}

// the byte stream under the JSON source; counts Close (io.Closer)
type c43Reader struct {
	r      *strings.Reader
	closes int
}

func (r *c43Reader) Read(p []byte) (int, error) { return r.r.Read(p) }
func (r *c43Reader) Close() error               { r.closes++; return nil }

// JSON results as plain ints (an error result is 99 = ErrVal of the specification)
type c43JSON struct{ inner *JSONIter[int] }

func (j c43JSON) Next() bool { return j.inner.Next() }
func (j c43JSON) Val() int {
	r := j.inner.Val()
	if r.Err != nil {
		return 99
	}
	return r.Val
}
func (j c43JSON) Close() error { return j.inner.Close() }

type c43Layer struct {
	K string `json:"k"`
	F string `json:"f"`
	P string `json:"p"`
	N int    `json:"n"`
}

func c43Chain(src string, layers []c43Layer) string {
	d := src
	for _, l := range layers {
		switch l.K {
		case "map":
			d = "Map(" + d + "," + l.F + ")"
		case "filter":
			d = "Filter(" + d + "," + l.P + ")"
		default:
			d = fmt.Sprintf("Limit(%s,%d)", d, l.N)
		}
	}
	return d
}

type c43Sys struct {
	lv  []*c43Count // level 0 = source
	rd  *c43Reader  // JSON source only
	top Iter[int]
}

func c43Build(src string, xs []int, bad int, layers []c43Layer) *c43Sys {
	s := &c43Sys{}
	var cur Iter[int]
	if src == "slice" {
		cp := append([]int(nil), xs...)
		cur = FromSlice(cp)
	} else {
		var sb strings.Builder
		for i, x := range xs {
			if i+1 == bad {
				sb.WriteString("x ")
			} else {
				sb.WriteString(strconv.Itoa(x))
				sb.WriteString("\n")
			}
		}
		s.rd = &c43Reader{r: strings.NewReader(sb.String())}
		cur = c43JSON{FromReaderJSON[int](s.rd)}
	}
	c := &c43Count{inner: cur}
	s.lv = append(s.lv, c)
	cur = c
	for _, ly := range layers {
		switch ly.K {
		case "map":
			f := func(x int) int { return x + 1 }
			if ly.F == "dbl" {
				f = func(x int) int { return 2 * x }
			}
			cur = Map[int, int](cur, f)
		case "filter":
			p := func(x int) bool { return true }
			switch ly.P {
			case "false":
				p = func(x int) bool { return false }
			case "even":
				p = func(x int) bool { return x%2 == 0 }
			}
			cur = Filter[int](cur, p)
		case "limit":
			cur = Limit[int](cur, ly.N)
		default:
			panic("layer " + ly.K)
		}
		c := &c43Count{inner: cur}
		s.lv = append(s.lv, c)
		cur = c
	}
	s.top = cur
	return s
}

func (s *c43Sys) closesAt(i int) int {
	if i == 0 && s.rd != nil {
		return s.rd.closes // the real underlying resource
	}
	return s.lv[i].closes
}

func (s *c43Sys) next(r bool, v int, caps []int) string {
	ok := s.top.Next()
	if ok != r {
		return fmt.Sprintf("Next() = %v, expected %v", ok, r)
	}
	if ok {
		if got := s.top.Val(); got != v {
			return fmt.Sprintf("Val() = %d after Next, expected %d", got, v)
		}
		if got := s.top.Val(); got != v {
			return fmt.Sprintf("second Val() = %d, expected %d (Val must not advance)", got, v)
		}
	}
	for i, c := range caps {
		if c >= 0 && s.lv[i].pulls > c {
			return fmt.Sprintf("ReadAhead: level %d handed out %d elements, the Limit above it has yielded %d", i, s.lv[i].pulls, c-1)
		}
	}
	return ""
}

func (s *c43Sys) close(lvl int, mincl []int) string {
	if err := s.lv[lvl].Close(); err != nil {
		return "Close: " + err.Error()
	}
	for i, m := range mincl {
		if s.closesAt(i) < m {
			return fmt.Sprintf("CloseReaches: after Close on level %d, level %d has seen %d Close calls, expected >= %d", lvl, i, s.closesAt(i), m)
		}
	}
	return ""
}

type c43Run struct {
	Xs  []int               `json:"xs"`
	Bad int                 `json:"bad"`
	Den []int               `json:"den"`
	N   [][]json.RawMessage `json:"n"` // [r, v, caps]
	C   [][]json.RawMessage `json:"c"` // [lvl, mincl]
}
type c43Case struct {
	Src    string     `json:"src"`
	Layers []c43Layer `json:"layers"`
	Runs   []c43Run   `json:"runs"`
}
type c43Step struct {
	Op    string `json:"op"`
	R     bool   `json:"r"`
	V     int    `json:"v"`
	Caps  []int  `json:"caps"`
	Lvl   int    `json:"lvl"`
	MinCl []int  `json:"mincl"`
}
type c43Sim struct {
	Src    string     `json:"src"`
	Xs     []int      `json:"xs"`
	Bad    int        `json:"bad"`
	Layers []c43Layer `json:"layers"`
	Steps  []c43Step  `json:"steps"`
}

func c43Int(m json.RawMessage) int {
	var v int
	if err := json.Unmarshal(m, &v); err != nil {
		panic(err)
	}
	return v
}
func c43Ints(m json.RawMessage) []int {
	var v []int
	if err := json.Unmarshal(m, &v); err != nil {
		panic(err)
	}
	return v
}

func TestVerifC43(t *testing.T) {
	defer vFlush()
	if vMode() != "replay" {
		t.Skip("no VERIF_MODE")
	}
	n := 0
	for i, raw := range vIn() {
		n++
		res := M{"i": i, "ok": true}
		if vEnv("C43_KIND") == "sim" {
			var b c43Sim
			if err := json.Unmarshal(raw, &b); err != nil {
				t.Fatalf("behaviour %d: %v", i, err)
			}
			s := c43Build(b.Src, b.Xs, b.Bad, b.Layers)
			lastV := 0
			for k, st := range b.Steps {
				what := ""
				switch st.Op {
				case "Next":
					what = s.next(st.R, st.V, st.Caps)
					lastV = st.V
				case "Val":
					if got := s.top.Val(); got != st.V || got != lastV {
						what = fmt.Sprintf("Val() = %d, expected %d", got, st.V)
					}
				case "Close":
					what = s.close(st.Lvl, st.MinCl)
				}
				if what != "" {
					res = M{"i": i, "ok": false, "step": k + 1, "what": fmt.Sprintf("%s xs=%v bad=%d: %s", c43Chain(b.Src, b.Layers), b.Xs, b.Bad, what)}
					break
				}
			}
		} else {
			var c c43Case
			if err := json.Unmarshal(raw, &c); err != nil {
				t.Fatalf("case %d: %v", i, err)
			}
		runs:
			for _, r := range c.Runs {
				s := c43Build(c.Src, r.Xs, r.Bad, c.Layers)
				var got []int
				for k, st := range r.N {
					rr, v := c43Int(st[0]) == 1, c43Int(st[1])
					if what := s.next(rr, v, c43Ints(st[2])); what != "" {
						res = M{"i": i, "ok": false, "step": k + 1,
							"what": fmt.Sprintf("%s xs=%v bad=%d: %s (yielded so far %v, list semantics %v)", c43Chain(c.Src, c.Layers), r.Xs, r.Bad, what, got, r.Den)}
						break runs
					}
					if rr {
						got = append(got, v)
					}
				}
				for k, st := range r.C {
					if what := s.close(c43Int(st[0]), c43Ints(st[1])); what != "" {
						res = M{"i": i, "ok": false, "step": len(r.N) + k + 1, "what": fmt.Sprintf("%s xs=%v bad=%d: %s", c43Chain(c.Src, c.Layers), r.Xs, r.Bad, what)}
						break runs
					}
				}
			}
		}
		vEmit(res)
	}
	vEmit(M{"summary": true, "n": n})
}
