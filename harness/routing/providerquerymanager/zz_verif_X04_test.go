//go:build verif

package providerquerymanager

// X04 harness for spec/ProviderQueryManager.
//
// mode=replay: every TLC-generated behaviour (a sequence of stimuli: Call / Cancel / Drain / router
// Emit / End / gated Dial with a result class / Tick / Close) is applied to a real
// ProviderQueryManager inside a testing/synctest bubble; after every stimulus the bubble is run to
// quiescence (synctest.Wait) and the projected state (status map read in-package, router calls and
// the state of the context each got, dials in progress, drained providers / closed flag, Connect
// and FindPeer call counts) is compared with the model's.  The fake clock makes the
// findProviderTimeout deterministic.
//
// mode=record: free-running real goroutines (callers, consumers, cancellers, a fake router and a
// fake dialer with random jitter) against a real manager; causes are logged before they take
// effect, observations after they were made; the trace is validated by TraceProviderQueryManager.
//
// Trusted projection: key name <-> CID, provider <<k,i>> <-> peer ID, context error -> "", "canceled",
// "deadline"; query id = order of the manager's calls to router.FindProvidersAsync.

import (
	"context"
	"encoding/json"
	"errors"
	"fmt"
	"math/rand"
	"os"
	"runtime"
	"strings"
	"sync"
	"testing"
	"testing/synctest"
	"time"

	cid "github.com/ipfs/go-cid"
	"github.com/ipfs/go-test/random"
	"github.com/libp2p/go-libp2p/core/peer"
	swarm "github.com/libp2p/go-libp2p/p2p/net/swarm"
	ma "github.com/multiformats/go-multiaddr"
)

const x04MaxProv = 3

var (
	x04Keys   = []string{"a", "b"}
	x04Cids   = map[string]cid.Cid{}
	x04KeyOf  = map[cid.Cid]string{}
	x04Peers  = map[string][]peer.ID{} // key -> peers 1..x04MaxProv (index 0 unused)
	x04PeerOf = map[peer.ID][2]any{}   // peer -> (key, idx)
	x04PeerIx = map[peer.ID]int{}
	x04Addr1  = ma.StringCast("/ip4/10.4.0.1/tcp/4001")
	x04Addr2  = ma.StringCast("/ip4/10.4.0.2/tcp/4001")
	x04Once   sync.Once
)

func x04Universe() {
	x04Once.Do(func() {
		cs := random.Cids(len(x04Keys))
		ps := random.Peers(len(x04Keys) * x04MaxProv)
		for n, k := range x04Keys {
			x04Cids[k] = cs[n]
			x04KeyOf[cs[n]] = k
			x04Peers[k] = make([]peer.ID, x04MaxProv+1)
			for i := 1; i <= x04MaxProv; i++ {
				p := ps[n*x04MaxProv+i-1]
				x04Peers[k][i] = p
				x04PeerOf[p] = [2]any{k, i}
				x04PeerIx[p] = i
			}
		}
	})
}

func x04Proj(p peer.ID) []any {
	if v, ok := x04PeerOf[p]; ok {
		return []any{v[0], v[1]}
	}
	return []any{"?", 0}
}

type x04Cfg struct {
	Fp       bool     `json:"fp"`
	Mip      int      `json:"mip"`
	Mpc      int      `json:"mpc"`
	Ign      []int    `json:"ign"`
	MaxTicks int      `json:"maxticks"`
	NProv    int      `json:"nprov"`
	Keys     []string `json:"keys"`
}

type x04Query struct {
	id    int
	key   string
	ctx   context.Context
	ch    chan peer.AddrInfo
	em    int
	ended bool
	dials map[int]*x04Dial
}

type x04Dial struct {
	i        int
	gate     chan string
	class    string
	conn, fp int
	called   bool
	released bool
}

type x04Env struct {
	mu       sync.Mutex
	rec      bool
	teardown bool
	closed   bool
	cfg      x04Cfg
	pqm      *ProviderQueryManager
	queries  []*x04Query
	byCtx    map[context.Context]*x04Query
	anomaly  []string
	rng      *rand.Rand
	wg       sync.WaitGroup // free-running router goroutines
}

func x04NewEnv(cfg x04Cfg, rec bool, timeout time.Duration, rng *rand.Rand) *x04Env {
	x04Universe()
	e := &x04Env{rec: rec, cfg: cfg, byCtx: map[context.Context]*x04Query{}, rng: rng}
	opts := []Option{WithMaxInProcessRequests(cfg.Mip), WithMaxProviders(cfg.Mpc), WithMaxTimeout(timeout)}
	if cfg.Fp {
		opts = append(opts, WithFindPeerFallback(e))
	}
	if len(cfg.Ign) > 0 {
		var ign []peer.ID
		for _, k := range x04Keys {
			for _, i := range cfg.Ign {
				ign = append(ign, x04Peers[k][i])
			}
		}
		opts = append(opts, WithIgnoreProviders(ign...))
	}
	pqm, err := New(e, e, opts...)
	if err != nil {
		panic(err)
	}
	e.pqm = pqm
	return e
}

func (e *x04Env) note(s string) {
	e.anomaly = append(e.anomaly, s)
}

// ---- fake router (routing.ContentDiscovery) -----------------------------------------------------
func (e *x04Env) FindProvidersAsync(ctx context.Context, k cid.Cid, max int) <-chan peer.AddrInfo {
	e.mu.Lock()
	q := &x04Query{id: len(e.queries) + 1, key: x04KeyOf[k], ctx: ctx, ch: make(chan peer.AddrInfo), dials: map[int]*x04Dial{}}
	e.queries = append(e.queries, q)
	e.byCtx[ctx] = q
	if max != 0 {
		e.note(fmt.Sprintf("router called with count %d", max))
	}
	if e.rec {
		vEmit(M{"ev": "RStart", "q": q.id, "k": q.key})
		e.wg.Add(1)
		go e.freeRun(q)
	}
	e.mu.Unlock()
	return q.ch
}

func x04Info(k string, i int) peer.AddrInfo {
	return peer.AddrInfo{ID: x04Peers[k][i], Addrs: []ma.Multiaddr{x04Addr1}}
}

// ---- fake dialer (ProviderQueryDialer) + peer router (ProviderQueryPeerRouter) ------------------
var x04ErrDial = errors.New("x04: dial failed")

func x04First(c string) error {
	switch c {
	case "ok":
		return nil
	case "self":
		return swarm.ErrDialToSelf
	}
	return x04ErrDial
}

func x04Second(c string) error {
	switch c {
	case "fpnewok":
		return nil
	case "fpnewself":
		return swarm.ErrDialToSelf
	}
	return x04ErrDial
}

func (e *x04Env) dialOf(ctx context.Context, id peer.ID) *x04Dial {
	q := e.byCtx[ctx]
	i, ok := x04PeerIx[id]
	if q == nil || !ok {
		e.note("dialer/peer router called with a context or peer the router never handed out")
		return nil
	}
	if x04PeerOf[id][0] != q.key {
		e.note("dial of a provider of another key")
	}
	d := q.dials[i]
	if d == nil {
		d = &x04Dial{i: i, gate: make(chan string, 1)}
		q.dials[i] = d
	}
	return d
}

func (e *x04Env) Connect(ctx context.Context, ai peer.AddrInfo) error {
	e.mu.Lock()
	d := e.dialOf(ctx, ai.ID)
	if d == nil {
		e.mu.Unlock()
		return x04ErrDial
	}
	d.conn++
	if d.conn > 1 {
		c := d.class
		e.mu.Unlock()
		return x04Second(c)
	}
	d.called = true
	q := e.byCtx[ctx]
	td := e.teardown
	e.mu.Unlock()
	var c string
	switch {
	case td:
		c = "fail"
	case e.rec:
		e.jitter()
		c = e.pickClass()
		e.mu.Lock()
		d.class = c // before the log line: FindPeer / 2nd Connect only happen after we return
		e.mu.Unlock()
		vEmit(M{"ev": "Dial", "q": q.id, "i": d.i, "c": c})
	default:
		c = <-d.gate
	}
	e.mu.Lock()
	d.class = c
	d.released = true
	e.mu.Unlock()
	return x04First(c)
}

func (e *x04Env) FindPeer(ctx context.Context, id peer.ID) (peer.AddrInfo, error) {
	e.mu.Lock()
	defer e.mu.Unlock()
	d := e.dialOf(ctx, id)
	if d == nil {
		return peer.AddrInfo{}, x04ErrDial
	}
	d.fp++
	switch d.class {
	case "fpempty":
		return peer.AddrInfo{ID: id}, nil
	case "fpsame":
		return peer.AddrInfo{ID: id, Addrs: []ma.Multiaddr{x04Addr1}}, nil
	case "fpnewok", "fpnewfail", "fpnewself":
		return peer.AddrInfo{ID: id, Addrs: []ma.Multiaddr{x04Addr1, x04Addr2}}, nil
	}
	return peer.AddrInfo{}, errors.New("x04: peer not found")
}

func x04CtxErr(ctx context.Context) string {
	switch ctx.Err() {
	case nil:
		return ""
	case context.Canceled:
		return "canceled"
	case context.DeadlineExceeded:
		return "deadline"
	}
	return "other"
}

// =================================== replay ======================================================

type x04Stim struct {
	Op string `json:"op"`
	X  int    `json:"x"`
	Y  int    `json:"y"`
	S  string `json:"s"`
}

type x04Alt struct {
	D []string        `json:"d"`
	O json.RawMessage `json:"o"`
}

type x04Step struct {
	S   x04Stim         `json:"s"`
	O   json.RawMessage `json:"o"`
	Alt []x04Alt        `json:"alt"`
}

type x04Beh struct {
	Cfg   x04Cfg    `json:"cfg"`
	Steps []x04Step `json:"steps"`
}

type x04Req struct {
	id     int
	key    string
	ctx    context.Context
	cancel context.CancelFunc
	ready  chan struct{}
	ch     <-chan peer.AddrInfo
	got    []any
	closed bool
}

func x04Canon(v any) string {
	b, err := json.Marshal(v)
	if err != nil {
		panic(err)
	}
	var g any
	if err := json.Unmarshal(b, &g); err != nil {
		panic(err)
	}
	b, _ = json.Marshal(g)
	return string(b)
}

const x04Timeout = 10 * time.Second

// drain reads everything the returned channel offers at quiescence
func x04Drain(r *x04Req) {
	for !r.closed {
		synctest.Wait()
		select {
		case p, ok := <-r.ch:
			if !ok {
				r.closed = true
			} else {
				r.got = append(r.got, x04Proj(p.ID))
			}
		default:
			return
		}
	}
}

func (e *x04Env) obs(s x04Stim, reqs map[int]*x04Req) M {
	e.mu.Lock()
	defer e.mu.Unlock()
	st := M{}
	for _, k := range e.cfg.Keys {
		ent := M{"has": false, "n": 0, "sofar": []any{}}
		if rs, ok := e.pqm.inProgressRequestStatuses[x04Cids[k]]; ok && !e.closed {
			sf := []any{}
			for _, p := range rs.providersSoFar {
				sf = append(sf, x04Proj(p.ID))
			}
			ent = M{"has": true, "n": len(rs.listeners), "sofar": sf}
		}
		st[k] = ent
	}
	rq, cx, dl := []any{}, []any{}, []any{}
	for _, q := range e.queries {
		rq = append(rq, q.key)
		cx = append(cx, x04CtxErr(q.ctx))
		row := []any{}
		for i := 1; i <= e.cfg.NProv; i++ {
			v := 0
			if d := q.dials[i]; d != nil && d.called && !d.released {
				v = 1
			}
			row = append(row, v)
		}
		dl = append(dl, row)
	}
	dr := M{"got": []any{}, "closed": false}
	if s.Op == "Drain" {
		if r := reqs[s.X]; r != nil {
			g := r.got
			if g == nil {
				g = []any{}
			}
			dr = M{"got": g, "closed": r.closed}
		}
	}
	dc := []any{0, 0}
	if s.Op == "Dial" && s.X <= len(e.queries) {
		if d := e.queries[s.X-1].dials[s.Y]; d != nil {
			dc = []any{d.conn, d.fp}
		}
	}
	return M{"st": st, "rq": rq, "cx": cx, "dl": dl, "dr": dr, "dc": dc}
}

// x04ReplayOne returns (ok, step, what, devs, fatal)
func x04ReplayOne(t *testing.T, beh *x04Beh, onFatal func(ok bool, step int, what string)) (ok bool, step int, what string, devs []string, fatal bool) {
	ok = true
	synctest.Test(t, func(t *testing.T) {
		base := runtime.NumGoroutine()
		e := x04NewEnv(beh.Cfg, false, x04Timeout, nil)
		reqs := map[int]*x04Req{}
		fail := func(k int, s string) { ok, step, what = false, k, s }
		synctest.Wait()
	steps:
		for k, stp := range beh.Steps {
			s := stp.S
			switch s.Op {
			case "Call":
				r := &x04Req{id: s.X, key: s.S, ready: make(chan struct{})}
				r.ctx, r.cancel = context.WithCancel(context.Background())
				reqs[s.X] = r
				go func() {
					r.ch = e.pqm.FindProvidersAsync(r.ctx, x04Cids[s.S], s.Y)
					close(r.ready)
				}()
				synctest.Wait()
				select {
				case <-r.ready:
				default:
					fail(k, "FindProvidersAsync did not return although the manager is quiescent")
					fatal = true
					break steps
				}
			case "Emit", "End", "Dial":
				e.mu.Lock()
				var q *x04Query
				if s.X <= len(e.queries) {
					q = e.queries[s.X-1]
				}
				e.mu.Unlock()
				if q == nil || (q.ended && s.Op != "Dial") {
					fail(k, fmt.Sprintf("router query %d is not running in the real manager", s.X))
					break steps
				}
				switch s.Op {
				case "Emit":
					q.em++
					tm := time.NewTimer(100 * time.Hour)
					select {
					case q.ch <- x04Info(q.key, q.em):
						tm.Stop()
					case <-tm.C:
						fail(k, "the query goroutine does not read the router's channel")
						fatal = true
						break steps
					}
				case "End":
					q.ended = true
					close(q.ch)
				case "Dial":
					e.mu.Lock()
					d := q.dials[s.Y]
					okd := d != nil && d.called && !d.released
					e.mu.Unlock()
					if !okd {
						fail(k, fmt.Sprintf("no Connect in progress for provider %d of query %d", s.Y, s.X))
						break steps
					}
					d.gate <- s.S
				}
			case "Cancel":
				reqs[s.X].cancel()
			case "Drain":
				x04Drain(reqs[s.X])
			case "Tick":
				time.Sleep(x04Timeout * 6 / 10)
			case "Close":
				e.closed = true // the status map is not looked at any more
				e.pqm.Close()
			}
			synctest.Wait()
			real := x04Canon(e.obs(s, reqs))
			var exp any
			json.Unmarshal(stp.O, &exp)
			if want := x04Canon(exp); real != want {
				fail(k, fmt.Sprintf("after %s(%d,%d,%q): real %s, spec %s", s.Op, s.X, s.Y, s.S, real, want))
				for _, a := range stp.Alt {
					var ao any
					json.Unmarshal(a.O, &ao)
					if x04Canon(ao) == real {
						devs = a.D
						break
					}
				}
				break steps
			}
			if len(e.anomaly) > 0 {
				fail(k, "harness contract: "+e.anomaly[0])
				break steps
			}
		}
		// teardown: Close, let every router end and every dial return, cancel and drain every
		// request; afterwards no goroutine of the manager may be left
		e.mu.Lock()
		e.teardown = true
		e.mu.Unlock()
		e.pqm.Close()
		synctest.Wait()
		e.mu.Lock()
		for _, q := range e.queries {
			if !q.ended {
				q.ended = true
				close(q.ch)
			}
			for _, d := range q.dials {
				if d.called && !d.released {
					d.gate <- "fail"
				}
			}
		}
		e.mu.Unlock()
		synctest.Wait()
		for _, r := range reqs {
			r.cancel()
			if r.ch != nil {
				x04Drain(r)
				if !r.closed && ok {
					fail(len(beh.Steps), fmt.Sprintf("channel of request %d is not closed after Close()", r.id))
				}
			}
		}
		synctest.Wait()
		if n, where := x04Leaked(base); n > 0 {
			if ok {
				fail(len(beh.Steps), fmt.Sprintf("%d goroutine(s) of the manager still blocked after Close, routers ended, dials returned: %s", n, where))
				devs = nil
			}
			fatal = true // leaving the bubble with blocked goroutines would panic
		}
		if fatal {
			// leaving the bubble with blocked goroutines panics: report and restart after this one
			onFatal(ok, step, what)
		}
	})
	return
}

// x04Leaked counts the goroutines of the current bubble that are still there (besides the bubble's
// own three).  runtime.NumGoroutine alone is off by one while a goroutine is on its way out.
func x04Leaked(base int) (int, string) {
	for try := 0; try < 20 && runtime.NumGoroutine() > base; try++ {
		runtime.Gosched()
		synctest.Wait()
	}
	if runtime.NumGoroutine() <= base {
		return 0, ""
	}
	buf := make([]byte, 1<<20)
	buf = buf[:runtime.Stack(buf, true)]
	n, where := 0, ""
	for _, g := range strings.Split(string(buf), "\n\n") {
		if !strings.Contains(g, "synctest bubble") || strings.Contains(g, "x04Leaked") ||
			strings.Contains(g, "internal/synctest.Run") || strings.Contains(g, "testingSynctestTest(") {
			continue
		}
		n++
		if where == "" {
			ls := strings.Split(g, "\n")
			if len(ls) > 1 {
				where = ls[0] + " " + ls[1]
			}
		}
	}
	return n, where
}

func x04Replay(t *testing.T) {
	in := vIn()
	start := vEnvInt("VERIF_START", 0)
	nfail := 0
	for i := start; i < len(in); i++ {
		var beh x04Beh
		if err := json.Unmarshal(in[i], &beh); err != nil {
			t.Fatalf("bad behaviour %d: %v", i, err)
		}
		ok, step, what, devs, fatal := x04ReplayOne(t, &beh, func(ok bool, step int, what string) {
			vEmit(M{"i": i, "ok": false, "step": step, "what": what, "fatal": true})
			vFlush()
			os.Exit(3)
		})
		switch {
		case ok:
			vEmit(M{"i": i, "ok": true})
		default:
			rec := M{"i": i, "ok": false, "step": step, "what": what, "fatal": fatal}
			if len(devs) > 0 {
				rec["devs"] = devs
			} else {
				nfail++
			}
			if nfail <= 40 || len(devs) > 0 {
				vEmit(rec)
			} else {
				vEmit(M{"i": i, "ok": false, "step": step, "what": "(suppressed)", "fatal": fatal, "suppressed": true})
			}
		}
		_ = fatal
	}
	vEmit(M{"summary": true, "n": len(in) - start})
}

// =================================== record ======================================================

func (e *x04Env) rnd(n int) int {
	e.mu.Lock()
	defer e.mu.Unlock()
	return e.rng.Intn(n)
}

func (e *x04Env) jitter() {
	switch e.rnd(5) {
	case 0:
	case 1:
		runtime.Gosched()
	case 2:
		time.Sleep(time.Duration(e.rnd(200)) * time.Microsecond)
	case 3:
		time.Sleep(time.Duration(e.rnd(1500)) * time.Microsecond)
	case 4:
		for n := e.rnd(4); n >= 0; n-- {
			runtime.Gosched()
		}
	}
}

var x04Classes = []string{"ok", "ok", "ok", "ok", "ok", "fail", "fail", "self", "fpempty", "fpsame", "fpnewok", "fpnewok", "fpnewfail", "fpnewself"}

func (e *x04Env) pickClass() string { return x04Classes[e.rnd(len(x04Classes))] }

func (e *x04Env) freeRun(q *x04Query) {
	defer e.wg.Done()
	n := e.rnd(e.cfg.NProv + 1)
	if e.rnd(3) > 0 {
		n = e.cfg.NProv
	}
	for i := 1; i <= n; i++ {
		e.jitter()
		if err := x04CtxErr(q.ctx); err != "" {
			vEmit(M{"ev": "RCtx", "q": q.id, "err": err})
			// a router that takes its time to wind down after the cancellation
			if e.rnd(2) == 0 {
				time.Sleep(time.Duration(e.rnd(3000)) * time.Microsecond)
			}
			break
		}
		vEmit(M{"ev": "REmit", "q": q.id, "i": i})
		q.ch <- x04Info(q.key, i)
	}
	e.jitter()
	vEmit(M{"ev": "REnd", "q": q.id})
	close(q.ch)
}

type x04Plan struct {
	key       string
	max       int
	after     int // start when request `after` has seen its channel closed (0: right away)
	pre       bool
	cancelAt  int // cancel after receiving this many providers (-1: never, 0: right after the call)
	slow      bool
	startWait int
}

func x04WaitGoroutines(limit int, d time.Duration) int {
	dl := time.Now().Add(d)
	for {
		n := runtime.NumGoroutine()
		if n <= limit || time.Now().After(dl) {
			return n
		}
		time.Sleep(time.Millisecond)
	}
}

type x04Probe struct{ res chan int }

func (p *x04Probe) debugMessage()                    {}
func (p *x04Probe) handle(pqm *ProviderQueryManager) { p.res <- len(pqm.inProgressRequestStatuses) }

func x04RecordRun(rng *rand.Rand, run int) {
	x04Universe()
	cfg := x04Cfg{Fp: rng.Intn(2) == 0, Mip: []int{0, 1, 1, 2}[rng.Intn(4)], Mpc: []int{0, 0, 1, 2}[rng.Intn(4)],
		NProv: x04MaxProv, Keys: x04Keys, Ign: []int{}}
	if rng.Intn(4) == 0 {
		cfg.Ign = []int{2}
	}
	nreq := 2 + rng.Intn(3)
	plans := make([]x04Plan, nreq+1)
	first := x04Keys[rng.Intn(2)]
	for r := 1; r <= nreq; r++ {
		p := x04Plan{key: first, max: []int{0, 0, 1, 2}[rng.Intn(4)], cancelAt: -1, slow: rng.Intn(3) == 0, startWait: rng.Intn(800)}
		if rng.Intn(3) == 0 {
			p.key = x04Keys[rng.Intn(2)]
		}
		if rng.Intn(2) == 0 {
			p.cancelAt = rng.Intn(3)
		}
		if r > 1 && rng.Intn(2) == 0 {
			p.after = 1 + rng.Intn(r-1)
		}
		p.pre = rng.Intn(12) == 0
		plans[r] = p
	}
	closeMid := rng.Intn(4) == 0
	base := runtime.NumGoroutine()
	vEmit(M{"ev": "Reset", "run": run, "mip": cfg.Mip, "mpc": cfg.Mpc, "fp": cfg.Fp, "ign": cfg.Ign})
	e := x04NewEnv(cfg, true, time.Hour, rand.New(rand.NewSource(rng.Int63())))
	done := make([]chan struct{}, nreq+1)
	for r := 1; r <= nreq; r++ {
		done[r] = make(chan struct{})
	}
	var closeOnce sync.Once
	logClose := func() {
		closeOnce.Do(func() {
			vEmit(M{"ev": "Close"})
			e.pqm.Close()
		})
	}
	// requests are numbered in the order of their Call events (the spec's request ids), not by plan
	var callMu sync.Mutex
	nextID := 0
	for pi := 1; pi <= nreq; pi++ {
		p := plans[pi]
		go func(pi int) {
			defer close(done[pi])
			if p.after > 0 {
				<-done[p.after]
			} else {
				time.Sleep(time.Duration(p.startWait) * time.Microsecond)
			}
			ctx, cancel := context.WithCancel(context.Background())
			defer cancel()
			callMu.Lock()
			nextID++
			r := nextID
			vEmit(M{"ev": "Call", "r": r, "k": p.key, "m": p.max})
			callMu.Unlock()
			var once sync.Once
			doCancel := func() {
				once.Do(func() {
					vEmit(M{"ev": "Cancel", "r": r})
					cancel()
				})
			}
			if p.pre {
				doCancel()
			}
			ch := e.pqm.FindProvidersAsync(ctx, x04Cids[p.key], p.max)
			if p.cancelAt == 0 {
				go func() { e.jitter(); doCancel() }()
			}
			n := 0
			for ai := range ch {
				pr := x04Proj(ai.ID)
				vEmit(M{"ev": "Recv", "r": r, "k": pr[0], "i": pr[1]})
				n++
				if n == p.cancelAt {
					doCancel()
				}
				if p.slow {
					time.Sleep(time.Duration(e.rnd(1500)) * time.Microsecond)
				} else {
					e.jitter()
				}
			}
			vEmit(M{"ev": "Closed", "r": r})
		}(pi)
	}
	if closeMid {
		go func() {
			time.Sleep(time.Duration(e.rnd(4000)) * time.Microsecond)
			logClose()
		}()
	}
	for r := 1; r <= nreq; r++ {
		select {
		case <-done[r]:
		case <-time.After(90 * time.Second):
			vEmit(M{"ev": "Hang", "plan": r, "what": "returned channel not closed 90 s after the call although the router ends by itself"})
			vFlush()
			os.Exit(4) // goroutines of this run may be stuck: no further runs in this process
		}
	}
	e.wg.Wait()
	// the manager is idle when only its run loop, worker and queue goroutines are left
	x04WaitGoroutines(base+3, 10*time.Second)
	nstatus := -1
	pr := &x04Probe{res: make(chan int, 1)}
	select {
	case e.pqm.providerQueryMessages <- pr:
		nstatus = <-pr.res
	case <-e.pqm.closing:
	case <-time.After(30 * time.Second):
		nstatus = -2
	}
	e.pqm.Close()
	left := x04WaitGoroutines(base, 10*time.Second) - base
	if left < 0 {
		left = 0
	}
	for _, a := range e.anomaly {
		vEmit(M{"ev": "Anomaly", "what": a})
	}
	vEmit(M{"ev": "Quiet", "leak": left, "nstatus": nstatus})
}

func TestVerifX04(t *testing.T) {
	defer vFlush()
	switch vMode() {
	case "replay":
		x04Replay(t)
	case "record":
		rng := vRand()
		runs := vEnvInt("VERIF_RUNS", 40)
		for i := 0; i < runs; i++ {
			x04RecordRun(rng, i)
		}
	default:
		t.Skip("VERIF_MODE not set")
	}
}
