//go:build verif && linux

package tar

// C38 harness: replays spec/TarFS behaviours.  For each behaviour the model's initial file system is
// realised under a fresh scratch directory (model "/" = the scratch directory, target T = <scratch>/w/t),
// the header sequence is written as a real (hand-assembled ustar/pax) tar stream and given to
// Extractor.Extract through a reader that snapshots the WHOLE scratch tree (lstat + content + link target)
// every time the extractor asks for the next header, and once more when Extract has returned.  Every snapshot
// is compared with the file system the model predicts at that point; the returned error with the model's
// error class.  Independently of the model, the part of the tree outside T must never change (Confined).
// A behaviour may continue (field "more") with further Extract calls on the SAME Extractor value, each with
// its own target: before each of them the harness changes mode/mtime of the previous target's objects as the
// model says (the owner of that tree went on using it), and the call is checked in the same way with respect
// to ITS target and the tree at ITS start.  A file entry with content "trunc" is a body the stream ends in.

import (
	stdtar "archive/tar"
	"bytes"
	"encoding/json"
	"errors"
	"fmt"
	"io"
	"os"
	"path/filepath"
	"runtime"
	"sort"
	"strings"
	"sync"
	"syscall"
	"testing"
	"time"

	"github.com/ipfs/boxo/files"
)

type c38Node struct {
	K  string `json:"k"`
	C  string `json:"c"`
	M  uint32 `json:"m"`
	T  string `json:"t"`
	Tg string `json:"tg"`
}
type c38PN struct {
	P []string `json:"p"`
	N c38Node  `json:"n"`
}
type c38Hdr struct {
	Name []string `json:"name"`
	Type string   `json:"type"`
	Link string   `json:"link"`
	Mode int64    `json:"mode"`
	T    string   `json:"t"`
	C    string   `json:"c"`
}
type c38Step struct {
	Done bool    `json:"done"`
	Err  string  `json:"err"`
	Diff []c38PN `json:"diff"`
}
type c38Call struct {
	Tgt     []string  `json:"tgt"`
	Age     []c38PN   `json:"age"`
	Entries []c38Hdr  `json:"entries"`
	Ideal   []c38Step `json:"ideal"`
}
type c38Beh struct {
	V       string      `json:"v"`
	Init    []c38PN     `json:"init"`
	Entries []c38Hdr    `json:"entries"`
	Ideal   []c38Step   `json:"ideal"`
	Dev     [][]c38Step `json:"dev"`
	More    []c38Call   `json:"more"`
}

var (
	c38TimeP  = time.Date(2001, 1, 1, 0, 0, 0, 0, time.UTC) // "p": pre-existing objects
	c38TimeT1 = time.Date(2005, 5, 5, 5, 5, 5, 0, time.UTC) // "t1": the archive's mtime
	c38TimeQ  = time.Date(2010, 10, 10, 10, 10, 10, 0, time.UTC) // "q": set by the owner of a target between two calls
)

// ---- projection: model tokens <-> real values -------------------------------------------------
func c38Comp(tok string) string {
	if tok == "z" {
		return "n\x00l" // a component containing a NUL byte
	}
	return tok
}
func c38Name(toks []string) string {
	cs := make([]string, len(toks))
	for i, t := range toks {
		cs[i] = c38Comp(t)
	}
	return strings.Join(cs, "/")
}
func c38Link(base, tok string) string {
	switch tok {
	case "abs_o":
		return base + "/o"
	case "abs_of":
		return base + "/o/f"
	case "up2_o":
		return "../../o"
	case "rel_a":
		return "a"
	}
	return tok
}
func c38LinkTok(base, s string) string {
	for _, tok := range []string{"abs_o", "abs_of", "up2_o", "rel_a"} {
		if c38Link(base, tok) == s {
			return tok
		}
	}
	return "?" + s
}
func c38Key(p []string) string { return "/" + strings.Join(p, "/") }

// ---- realising and observing a file system -----------------------------------------------------
func c38Realise(base string, init []c38PN) error {
	sort.Slice(init, func(i, j int) bool { return len(init[i].P) < len(init[j].P) })
	for _, x := range init {
		p := filepath.Join(append([]string{base}, x.P...)...)
		switch x.N.K {
		case "dir":
			if len(x.P) > 0 {
				if err := os.Mkdir(p, 0o755); err != nil {
					return err
				}
			}
			if err := os.Chmod(p, os.FileMode(x.N.M)); err != nil {
				return err
			}
		case "file":
			if err := os.WriteFile(p, []byte(x.N.C), os.FileMode(x.N.M)); err != nil {
				return err
			}
			if err := os.Chmod(p, os.FileMode(x.N.M)); err != nil {
				return err
			}
		case "link":
			if err := os.Symlink(c38Link(base, x.N.Tg), p); err != nil {
				return err
			}
		}
	}
	for i := len(init) - 1; i >= 0; i-- { // creating children touched the parents: set mtimes last
		p := filepath.Join(append([]string{base}, init[i].P...)...)
		if err := files.UpdateModTime(p, c38TimeP); err != nil { // utimensat(AT_SYMLINK_NOFOLLOW)
			return err
		}
	}
	return nil
}

func c38Snapshot(base string, started time.Time) (map[string]c38Node, error) {
	out := map[string]c38Node{}
	var walk func(real, key string) error
	walk = func(real, key string) error {
		fi, err := os.Lstat(real)
		if err != nil {
			return err
		}
		n := c38Node{M: uint32(fi.Mode().Perm())}
		if fi.Mode()&(os.ModeSetuid|os.ModeSetgid|os.ModeSticky) != 0 {
			n.M |= 0o10000 // never expected
		}
		switch mt := fi.ModTime(); {
		case mt.Equal(c38TimeP):
			n.T = "p"
		case mt.Equal(c38TimeT1):
			n.T = "t1"
		case mt.Equal(c38TimeQ):
			n.T = "q"
		case !mt.Before(started.Add(-2*time.Second)) && mt.Before(time.Now().Add(2*time.Second)):
			n.T = "n"
		default:
			n.T = "?" + mt.UTC().Format(time.RFC3339)
		}
		switch {
		case fi.Mode()&os.ModeSymlink != 0:
			tg, err := os.Readlink(real)
			if err != nil {
				return err
			}
			n.K, n.Tg = "link", c38LinkTok(base, tg)
		case fi.IsDir():
			n.K = "dir"
		case fi.Mode().IsRegular():
			b, err := os.ReadFile(real)
			if err != nil {
				return err
			}
			n.K, n.C = "file", string(b)
		default:
			n.K = "?" + fi.Mode().String()
		}
		out[key] = n
		if n.K == "dir" {
			es, err := os.ReadDir(real)
			if err != nil {
				return err
			}
			for _, e := range es {
				k := key + "/" + e.Name()
				if key == "/" {
					k = "/" + e.Name()
				}
				if err := walk(filepath.Join(real, e.Name()), k); err != nil {
					return err
				}
			}
		}
		return nil
	}
	return out, walk(base, "/")
}

// outside projection: everything not at/below the target (/w/t in the first call); the mtime of the target's
// parent is masked (creating the target updates it)
func c38Outside(s map[string]c38Node, tgt []string) map[string]c38Node {
	o := map[string]c38Node{}
	tk, pk := c38Key(tgt), c38Key(tgt[:len(tgt)-1])
	for k, n := range s {
		if k == tk || strings.HasPrefix(k, tk+"/") {
			continue
		}
		if k == pk {
			n.T = "-"
		}
		o[k] = n
	}
	return o
}

// c38Age applies the metadata changes made between two calls (model field "age": mode and mtime of objects)
func c38Age(base string, age []c38PN) error {
	for _, x := range age {
		p := filepath.Join(append([]string{base}, x.P...)...)
		if x.N.K != "link" {
			if err := os.Chmod(p, os.FileMode(x.N.M)); err != nil {
				return err
			}
		}
		var mt time.Time
		switch x.N.T {
		case "q":
			mt = c38TimeQ
		case "p":
			mt = c38TimeP
		case "t1":
			mt = c38TimeT1
		default:
			return fmt.Errorf("age: mtime class %q", x.N.T)
		}
		if err := files.UpdateModTime(p, mt); err != nil { // utimensat(AT_SYMLINK_NOFOLLOW)
			return err
		}
	}
	return nil
}

func c38DiffMaps(got, want map[string]c38Node) string {
	var ds []string
	for k, w := range want {
		if g, ok := got[k]; !ok {
			ds = append(ds, fmt.Sprintf("%s missing (model %+v)", k, w))
		} else if g != w {
			ds = append(ds, fmt.Sprintf("%s is %+v, model %+v", k, g, w))
		}
	}
	for k, g := range got {
		if _, ok := want[k]; !ok {
			ds = append(ds, fmt.Sprintf("%s exists %+v, not in model", k, g))
		}
	}
	sort.Strings(ds)
	return strings.Join(ds, "; ")
}

// ---- writing the archive -------------------------------------------------------------------------
func c38Octal(b []byte, v int64) { copy(b, fmt.Sprintf("%0*o", len(b)-1, v)) }

func c38Block(name string, typeflag byte, mode, size, mtime int64, link string) []byte {
	h := make([]byte, 512)
	copy(h[0:100], name)
	c38Octal(h[100:108], mode)
	c38Octal(h[108:116], 0)
	c38Octal(h[116:124], 0)
	c38Octal(h[124:136], size)
	c38Octal(h[136:148], mtime)
	h[156] = typeflag
	copy(h[157:257], link)
	copy(h[257:265], "ustar\x0000")
	for i := 148; i < 156; i++ {
		h[i] = ' '
	}
	var sum int64
	for _, c := range h {
		sum += int64(c)
	}
	copy(h[148:156], fmt.Sprintf("%06o\x00 ", sum))
	return h
}

func c38Pad(b []byte) []byte {
	if r := len(b) % 512; r != 0 {
		b = append(b, make([]byte, 512-r)...)
	}
	return b
}

func c38PaxRecord(k, v string) string {
	n := len(k) + len(v) + 3
	for {
		s := fmt.Sprintf("%d %s=%s\n", n, k, v)
		if len(s) == n {
			return s
		}
		n = len(s)
	}
}

// c38Archive returns the stream and the offsets at which the reader is asked for header k (k >= 1) or
// the end-of-archive blocks (k = len(entries)).
func c38Archive(base string, es []c38Hdr) ([]byte, map[int]int) {
	var buf []byte
	bounds := map[int]int{}
	for k, e := range es {
		bounds[len(buf)] = k
		name := c38Name(e.Name)
		pax := ""
		hname := name
		if strings.Contains(name, "\x00") { // only expressible as a pax path record
			pax += c38PaxRecord("path", name)
			hname = "pax-path"
		}
		mtime := c38TimeT1.Unix()
		if e.T == "z" { // the zero time.Time: only expressible as a pax mtime record
			pax += c38PaxRecord("mtime", "-62135596800")
			mtime = 0
		}
		if pax != "" {
			buf = append(buf, c38Block("PaxHeaders.0/x", 'x', 0o644, int64(len(pax)), 0, "")...)
			buf = c38Pad(append(buf, pax...))
		}
		switch e.Type {
		case "dir":
			buf = append(buf, c38Block(hname, stdtar.TypeDir, e.Mode, 0, mtime, "")...)
		case "file":
			if e.C == "trunc" { // the stream ends inside the body of this entry
				buf = append(buf, c38Block(hname, stdtar.TypeReg, e.Mode, 100, mtime, "")...)
				buf = append(buf, "truncated!"...)
				return buf, bounds
			}
			buf = append(buf, c38Block(hname, stdtar.TypeReg, e.Mode, int64(len(e.C)), mtime, "")...)
			buf = c38Pad(append(buf, e.C...))
		case "link":
			buf = append(buf, c38Block(hname, stdtar.TypeSymlink, 0o777, 0, mtime, c38Link(base, e.Link))...)
		default:
			buf = append(buf, c38Block(hname, stdtar.TypeFifo, 0o644, 0, mtime, "")...)
		}
	}
	bounds[len(buf)] = len(es)
	buf = append(buf, make([]byte, 1024)...)
	return buf, bounds
}

type c38Reader struct {
	data   []byte
	off    int
	bounds map[int]int
	seen   map[int]bool
	hook   func(k int)
}

func (r *c38Reader) Read(p []byte) (int, error) {
	if k, ok := r.bounds[r.off]; ok && k > 0 && !r.seen[k] {
		r.seen[k] = true
		r.hook(k)
	}
	if r.off >= len(r.data) {
		return 0, io.EOF
	}
	n := copy(p, r.data[r.off:])
	r.off += n
	return n, nil
}

// ---- error classes -------------------------------------------------------------------------------
func c38Class(err error) string {
	if err == nil {
		return ""
	}
	var en syscall.Errno
	msg := err.Error()
	switch {
	case errors.Is(err, errInvalidRoot):
		return "root"
	case errors.Is(err, errTraverseSymlink):
		return "trav"
	case errors.Is(err, errExtractedDirToSymlink):
		return "dirsym"
	case errors.Is(err, stdtar.ErrHeader):
		return "tar"
	case errors.Is(err, io.ErrUnexpectedEOF):
		return "trunc"
	case errors.As(err, &en):
		switch en {
		case syscall.ENOENT:
			return "ENOENT"
		case syscall.ENOTDIR:
			return "ENOTDIR"
		case syscall.ENOTEMPTY:
			return "ENOTEMPTY"
		case syscall.EEXIST:
			return "EEXIST"
		case syscall.EISDIR:
			return "EISDIR"
		case syscall.ELOOP:
			return "ELOOP"
		}
		return "errno:" + en.Error()
	case strings.Contains(msg, "cannot traverse non-directory"):
		return "nondir"
	case strings.Contains(msg, "unrecognized tar header type"):
		return "type"
	case strings.Contains(msg, "empty tar file"):
		return "empty"
	case strings.Contains(msg, "path is empty"), strings.Contains(msg, "path starts with"),
		strings.Contains(msg, "path contains"), strings.Contains(msg, "invalid platform path"),
		strings.Contains(msg, "relative path contains"):
		return "badpath"
	}
	return "other:" + msg
}

// ---- one behaviour -------------------------------------------------------------------------------
type c38Obs struct {
	snaps []map[string]c38Node // after each consumed header, then after Extract returned
	err   string
}

// c38Check compares the observation of one call with one predicted step sequence, starting from (and
// updating) the model file system; "" = agrees.
func c38Check(model map[string]c38Node, steps []c38Step, o *c38Obs) (int, string) {
	if len(o.snaps) != len(steps) {
		return len(steps), fmt.Sprintf("extractor consumed %d headers before returning, model %d (error %q, model %q)",
			len(o.snaps)-1, len(steps)-1, o.err, steps[len(steps)-1].Err)
	}
	for i, st := range steps {
		for _, d := range st.Diff {
			if d.N.K == "gone" {
				delete(model, c38Key(d.P))
			} else {
				model[c38Key(d.P)] = d.N
			}
		}
		if diff := c38DiffMaps(o.snaps[i], model); diff != "" {
			when := fmt.Sprintf("after header %d", i+1)
			if st.Done {
				when = "after Extract returned"
			}
			return i + 1, when + ": " + diff
		}
		if st.Done && st.Err != o.err {
			return i + 1, fmt.Sprintf("Extract returned error class %q, model %q", o.err, st.Err)
		}
	}
	return 0, ""
}

func c38Run(b *c38Beh, scratch string) M {
	base, err := os.MkdirTemp(scratch, "fs")
	if err != nil {
		return M{"ok": false, "what": "harness: " + err.Error(), "harness": true}
	}
	defer func() {
		filepath.Walk(base, func(p string, fi os.FileInfo, err error) error {
			if err == nil && fi.IsDir() {
				os.Chmod(p, 0o755)
			}
			return nil
		})
		os.RemoveAll(base)
	}()
	started := time.Now()
	if err := c38Realise(base, b.Init); err != nil {
		return M{"ok": false, "what": "harness: realise: " + err.Error(), "harness": true}
	}
	before, err := c38Snapshot(base, started)
	if err != nil {
		return M{"ok": false, "what": "harness: snapshot: " + err.Error(), "harness": true}
	}
	want0 := map[string]c38Node{}
	for _, x := range b.Init {
		want0[c38Key(x.P)] = x.N
	}
	if d := c38DiffMaps(before, want0); d != "" {
		return M{"ok": false, "what": "harness: initial file system not realised: " + d, "harness": true}
	}
	te := &Extractor{}
	// one Extract call of the (same) Extractor value; returns the observation and the model-free verdict
	call := func(tgt []string, entries []c38Hdr, before map[string]c38Node) (*c38Obs, string, error) {
		data, bounds := c38Archive(base, entries)
		obs := &c38Obs{}
		var snapErr error
		take := func(int) {
			s, err := c38Snapshot(base, started)
			if err != nil && snapErr == nil {
				snapErr = err
			}
			obs.snaps = append(obs.snaps, s)
		}
		te.Path = filepath.Join(append([]string{base}, tgt...)...)
		xerr := te.Extract(&c38Reader{data: data, bounds: bounds, seen: map[int]bool{}, hook: take})
		take(-1)
		obs.err = c38Class(xerr)
		if snapErr != nil {
			return nil, "", snapErr
		}
		// the property itself, model-free: nothing outside the target changed at any observation point
		for i, s := range obs.snaps {
			if d := c38DiffMaps(c38Outside(s, tgt), c38Outside(before, tgt)); d != "" {
				return obs, fmt.Sprintf("OUTSIDE OF TARGET %s CHANGED (observation %d of %d, error %q): %s", c38Key(tgt), i+1, len(obs.snaps), obs.err, d), nil
			}
		}
		return obs, "", nil
	}
	tgt := []string{"w", "t"}
	obs, escape, err := call(tgt, b.Entries, before)
	if err != nil {
		return M{"ok": false, "what": "harness: snapshot: " + err.Error(), "harness": true}
	}
	model := map[string]c38Node{}
	for k, n := range want0 {
		model[k] = n
	}
	step, what := c38Check(model, b.Ideal, obs)
	if len(b.More) == 0 || what != "" || escape != "" {
		if what == "" && escape == "" {
			return M{"ok": true}
		}
		if what == "" {
			what = "model agrees but " + escape // cannot happen unless the model itself escapes
		} else if escape != "" {
			what = escape + " | " + what
		}
		rec := M{"ok": false, "step": step, "what": what, "escape": escape != ""}
		if len(b.Dev) == 1 {
			m2 := map[string]c38Node{}
			for k, n := range want0 {
				m2[k] = n
			}
			if _, w2 := c38Check(m2, b.Dev[0], obs); w2 == "" {
				rec["dev"] = "Dev_C38_DeferredMetaByPath"
			}
		}
		return rec
	}
	// further calls on the same Extractor value
	nsteps := len(b.Ideal)
	for ci, c := range b.More {
		if err := c38Age(base, c.Age); err != nil {
			return M{"ok": false, "what": "harness: age: " + err.Error(), "harness": true}
		}
		for _, d := range c.Age {
			model[c38Key(d.P)] = d.N
		}
		before, err := c38Snapshot(base, started)
		if err != nil {
			return M{"ok": false, "what": "harness: snapshot: " + err.Error(), "harness": true}
		}
		if d := c38DiffMaps(before, model); d != "" {
			return M{"ok": false, "what": fmt.Sprintf("harness: file system before call %d not as in the model: %s", ci+2, d), "harness": true}
		}
		obs, escape, err := call(c.Tgt, c.Entries, before)
		if err != nil {
			return M{"ok": false, "what": "harness: snapshot: " + err.Error(), "harness": true}
		}
		step, what := c38Check(model, c.Ideal, obs)
		if what != "" || escape != "" {
			arch := []string{}
			for _, e := range c.Entries {
				arch = append(arch, fmt.Sprintf("%s %s mode=%o mtime=%s", strings.Join(e.Name, "/"), e.Type, e.Mode, e.T))
			}
			pre := fmt.Sprintf("Extract call %d on the same Extractor value, target %s, archive [%s]: ", ci+2, c38Key(c.Tgt), strings.Join(arch, " ; "))
			if what == "" {
				what = "model agrees but " + escape
			} else if escape != "" {
				what = escape + " | " + what
			}
			return M{"ok": false, "step": nsteps + step, "what": pre + what, "escape": escape != ""}
		}
		nsteps += len(c.Ideal)
	}
	return M{"ok": true}
}

func TestVerifC38(t *testing.T) {
	defer vFlush()
	switch vMode() {
	case "replay":
		syscall.Umask(0o022)
		scratch, err := os.MkdirTemp("", "c38-")
		if err != nil {
			t.Fatal(err)
		}
		defer os.RemoveAll(scratch)
		in := vIn()
		var wg sync.WaitGroup
		next := make(chan int)
		workers := runtime.GOMAXPROCS(0)
		if workers > 8 {
			workers = 8
		}
		for wk := 0; wk < workers; wk++ {
			wg.Add(1)
			go func() {
				defer wg.Done()
				for i := range next {
					var b c38Beh
					if err := json.Unmarshal(in[i], &b); err != nil {
						vEmit(M{"i": i, "ok": false, "what": "harness: bad behaviour: " + err.Error()})
						continue
					}
					rec := c38Run(&b, scratch)
					rec["i"] = i
					vEmit(rec)
				}
			}()
		}
		for i := range in {
			next <- i
		}
		close(next)
		wg.Wait()
		vEmit(M{"summary": true, "n": len(in)})
	default:
		t.Skip("verif harness: set VERIF_MODE")
	}
}

var _ = bytes.MinRead
