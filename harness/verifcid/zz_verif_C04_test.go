//go:build verif

package verifcid

// C04 harness, validator half: (1) mode "registry" dumps the real multihash code registry
// (mh.Codes) plus a handful of codes unknown to it, so that TLC enumerates exactly the codes the
// linked go-multihash knows; (2) mode "replay" receives, per (allowlist, code) case, the set of
// digest lengths 0..256 the TLA+ rule CidPolicy!Accepts admits, builds a real CID for every
// length (mh.Encode of a fake digest of that length) and compares ValidateCid with the rule.

import (
	"encoding/json"
	"fmt"
	"sort"
	"strconv"
	"testing"

	"github.com/ipfs/go-cid"
	mh "github.com/multiformats/go-multihash"
)

type c04Entry struct {
	Code string `json:"code"` // decimal, codes are uint64 (TLC ints are 32 bit: never computed on)
	Ok   bool   `json:"ok"`
}

type c04Case struct {
	Al     string       `json:"al"`
	Ctor   string       `json:"ctor"` // "default" | "new" | "over" | "sized"
	Base   string       `json:"base"` // "none" | "default" | "sized"
	Layers [][]c04Entry `json:"layers"`
	Code   string       `json:"code"`
	Name   string       `json:"name"`
	Acc    []int        `json:"acc"`
	MaxLen int          `json:"maxlen"`
}

// c04Sized is a foreign Allowlist implementation with its own size limits; the TLA+ rule knows it
// as base "sized" (CidPolicy!SizedNames / SizedMin / SizedMax).  Identity max 200 > 128 shows that
// the identity cap comes from the allowlist and is not hard-wired in ValidateCid.
type c04Sized struct{}

func (c04Sized) IsAllowed(code uint64) bool {
	switch code {
	case mh.SHA2_256, mh.IDENTITY, mh.MD5, mh.BLAKE2S_MIN + 15:
		return true
	}
	return false
}

func (c04Sized) MinDigestSize(code uint64) int {
	switch code {
	case mh.IDENTITY:
		return 2
	case mh.MD5:
		return 16
	}
	return 24
}

func (c04Sized) MaxDigestSize(code uint64) int {
	if code == mh.IDENTITY {
		return 200
	}
	return 40
}

func c04Unknown() []uint64 {
	cand := []uint64{0x01, 0x10, 0x20, 0x55, 0x1013, mh.BLAKE2B_MIN - 1, mh.BLAKE2S_MAX + 1, 0xb3e0,
		1 << 31, 1<<63 - 1}
	var res []uint64
	for _, c := range cand {
		if _, ok := mh.Codes[c]; !ok {
			res = append(res, c)
		}
	}
	return res
}

func c04BuildAllowlist(cs *c04Case) (Allowlist, error) {
	var base Allowlist
	switch cs.Base {
	case "none":
		base = nil
	case "default":
		base = DefaultAllowlist
	case "sized":
		base = c04Sized{}
	default:
		return nil, fmt.Errorf("base %q", cs.Base)
	}
	al := base
	// layers are listed outermost first: build from the innermost
	for i := len(cs.Layers) - 1; i >= 0; i-- {
		set := map[uint64]bool{}
		for _, e := range cs.Layers[i] {
			code, err := strconv.ParseUint(e.Code, 10, 64)
			if err != nil {
				return nil, err
			}
			set[code] = e.Ok
		}
		if al == nil && cs.Ctor == "new" {
			al = NewAllowlist(set)
		} else {
			al = NewOverridingAllowlist(al, set)
		}
	}
	if al == nil {
		return nil, fmt.Errorf("allowlist %s has neither base nor layers", cs.Al)
	}
	return al, nil
}

func TestVerifC04(t *testing.T) {
	defer vFlush()
	switch vMode() {
	case "registry":
		var codes []uint64
		for c := range mh.Codes {
			codes = append(codes, c)
		}
		sort.Slice(codes, func(i, j int) bool { return codes[i] < codes[j] })
		for _, c := range codes {
			vEmit(M{"code": strconv.FormatUint(c, 10), "name": mh.Codes[c], "known": true})
		}
		for _, c := range c04Unknown() {
			vEmit(M{"code": strconv.FormatUint(c, 10), "name": "unknown-" + strconv.FormatUint(c, 10), "known": false})
		}
	case "replay":
		c04Replay(t)
	default:
		t.Skip("no VERIF_MODE")
	}
}

func c04Replay(t *testing.T) {
	n := 0
	for i, raw := range vIn() {
		var cs c04Case
		if err := json.Unmarshal(raw, &cs); err != nil {
			t.Fatalf("case %d: %v", i, err)
		}
		n++
		al, err := c04BuildAllowlist(&cs)
		if err != nil {
			t.Fatalf("case %d: %v", i, err)
		}
		code, err := strconv.ParseUint(cs.Code, 10, 64)
		if err != nil {
			t.Fatalf("case %d: %v", i, err)
		}
		if nm, ok := mh.Codes[code]; ok && nm != cs.Name {
			t.Fatalf("case %d: registry name of %d is %q, case says %q", i, code, nm, cs.Name)
		}
		want := make([]bool, cs.MaxLen+1)
		for _, l := range cs.Acc {
			want[l] = true
		}
		res := M{"i": i, "ok": true}
		for l := 0; l <= cs.MaxLen; l++ {
			digest := make([]byte, l)
			for j := range digest {
				digest[j] = byte(j*7 + l)
			}
			m, err := mh.Encode(digest, code)
			if err != nil {
				t.Fatalf("mh.Encode: %v", err)
			}
			var cids []cid.Cid
			c1 := cid.NewCidV1(cid.Raw, m)
			cids = append(cids, c1, cid.NewCidV1(cid.DagProtobuf, m))
			if parsed, err := cid.Cast(c1.Bytes()); err == nil { // the CID as it arrives from the wire
				cids = append(cids, parsed)
			}
			if code == mh.SHA2_256 && l == 32 {
				cids = append(cids, cid.NewCidV0(m))
			}
			for k, c := range cids {
				if p := c.Prefix(); p.MhType != code || p.MhLength != l {
					t.Fatalf("projection broken: built CID has (%d,%d), wanted (%d,%d)", p.MhType, p.MhLength, code, l)
				}
				got := ValidateCid(al, c) == nil
				if got != want[l] {
					res = M{"i": i, "ok": false, "step": l, "what": fmt.Sprintf(
						"ValidateCid(%s, code=%s(%s), digest length %d, cid variant %d): accepted=%v, rule CidPolicy!Accepts says %v",
						cs.Al, cs.Code, cs.Name, l, k, got, want[l])}
					break
				}
			}
			if res["ok"] == false {
				break
			}
		}
		vEmit(res)
	}
	vEmit(M{"summary": true, "n": n})
}
