"""vlib — shared machinery for /verif checks (Python 3 stdlib only).

A check module (checks/Cxx.py) defines  run(ctx)  and uses:

  ctx.tlc_mc(...)      phase M : exhaustive / simulated model checking of a spec config
  ctx.tlc_gen(...)     phase G : behaviours (JSON) emitted by TLC from a Gen config
  ctx.go_build(...)    build the in-package Go harness from $VERIF_REPO's working tree (overlay)
  ctx.go_run(...)      run the harness binary (replay or record mode)
  ctx.tlc_trace(...)   phase T : validate a recorded NDJSON trace against a Trace spec
  ctx.violation(...)   / ctx.known(...) / ctx.broken(...)
  ctx.finish()         writes evidence/<id>.json, prints verdict lines, returns exit code

Verdict policy: VIOLATION only from real-code behaviour (replay disagreement or rejected
recorded trace).  Spec-only counterexamples, dead drivers, timeouts => exit 2 (broken).
"""
import json, os, re, shutil, subprocess, sys, time, hashlib, random

VERIF = os.path.dirname(os.path.dirname(os.path.abspath(__file__)))
REPO = os.environ.get("VERIF_REPO", "/repo")
GO = os.environ.get(
    "VERIF_GO",
    "/root/go/pkg/mod/golang.org/toolchain@v0.0.1-go1.25.7.linux-amd64/bin/go")
TLA_CP = "/opt/veriftools/tla/tla2tools.jar:/opt/veriftools/tla/CommunityModules-deps.jar"
MODPATH = "github.com/ipfs/boxo"


def go_env():
    e = dict(os.environ)
    e.update(GOTOOLCHAIN="local", GOFLAGS="-mod=mod", GOPROXY="off")
    e.pop("GOSUMDB", None)  # GOSUMDB=off breaks nothing with GOTOOLCHAIN=local but keep it clean
    return e


class Broken(Exception):
    pass


class Ctx:
    def __init__(self, pid, tier, seed, replay=None):
        self.pid = pid
        self.tier = tier
        self.seed = seed
        self.replay = replay
        self.t0 = time.time()
        self.work = os.path.join(VERIF, ".work", "%s-%d" % (pid, os.getpid()))
        shutil.rmtree(self.work, ignore_errors=True)
        os.makedirs(self.work)
        self.rng = random.Random(seed)
        self.cov = dict(states=0, transitions=0, traces_validated_against_impl=0,
                        samples=[], evaluations=0, distinct_nontrivial=0, rule="",
                        exhaustive=False, phases=[])
        self.assumptions = []
        self.violations = []   # (what, replay_path)
        self.knowns = []       # (finding_id, what)
        self.brokens = []
        self.level = "model_checking"
        self._kf = None
        self._nontrivial = set()

    # ------------------------------------------------------------------ utils
    @property
    def quick(self):
        return self.tier == "quick"

    def log(self, *a):
        print("[%s %6.1fs]" % (self.pid, time.time() - self.t0), *a, flush=True)

    def specdir(self, name):
        """copy /verif/spec/<name> (+ spec/common) into scratch and return the copy"""
        dst = os.path.join(self.work, "spec_" + name)
        if not os.path.isdir(dst):
            shutil.copytree(os.path.join(VERIF, "spec", name), dst)
            common = os.path.join(VERIF, "spec", "common")
            if os.path.isdir(common):
                for f in os.listdir(common):
                    if not os.path.exists(os.path.join(dst, f)):
                        shutil.copy(os.path.join(common, f), dst)
        return dst

    def sample(self, s):
        if len(self.cov["samples"]) < 4:
            txt = json.dumps(s) if not isinstance(s, str) else s
            if len(txt) > 1500:
                txt = txt[:1500] + "...(truncated)"
            self.cov["samples"].append(json.loads(txt) if not isinstance(s, str) and len(txt) <= 1500 else txt)

    def nontrivial(self, key):
        """count a distinct non-trivial case (key must be hashable/str)"""
        if not isinstance(key, str):
            key = json.dumps(key, sort_keys=True)
        self._nontrivial.add(hashlib.sha1(key.encode()).digest()[:8])

    # ------------------------------------------------------------------ TLC
    def _tlc(self, sdir, module, cfg, args, timeout, jvm=None, tag="tlc"):
        meta = os.path.join(self.work, "meta_%s_%s" % (tag, __import__("uuid").uuid4().hex[:12]))   # unique also across threads of one check
        cmd = ["java", "-XX:+UseParallelGC", "-Xss64m"]
        if jvm:
            cmd += jvm
        cmd += ["-cp", TLA_CP, "tlc2.TLC", "-metadir", meta, "-config", cfg] + args + [module]
        t = time.time()
        try:
            p = subprocess.run(cmd, cwd=sdir, stdout=subprocess.PIPE, stderr=subprocess.STDOUT,
                               timeout=timeout, text=True, errors="replace")
            out, rc = p.stdout, p.returncode
        except subprocess.TimeoutExpired as e:
            out = (e.stdout or b"").decode(errors="replace") if isinstance(e.stdout, bytes) else (e.stdout or "")
            rc = -9
        shutil.rmtree(meta, ignore_errors=True)
        return out, rc, time.time() - t

    @staticmethod
    def _parse_counts(out):
        gen = dist = 0
        for m in re.finditer(r"(\d+) states generated, (\d+) distinct states found", out):
            gen, dist = int(m.group(1)), int(m.group(2))
        return gen, dist

    def tlc_mc(self, spec, module, cfg, workers=None, timeout=600, simulate=None, depth=None,
               coverage=False, deadlock=True, expect_violation=None, allow_zero=()):
        """Phase M. Returns dict(ok, states, distinct, out, violated, zero_actions).
        A violation of the *model* is never a VIOLATION verdict: caller decides; by default => broken."""
        sdir = self.specdir(spec)
        workers = workers or (8 if self.quick else 16)
        try:   # do not thrash an already saturated machine
            if os.getloadavg()[0] > 2 * (os.cpu_count() or 16):
                workers = min(workers, 4)
        except OSError:
            pass
        args = ["-workers", str(workers), "-seed", str(self.seed)]
        if not deadlock:
            args += ["-deadlock"]
        if coverage:
            args += ["-coverage", "1"]
        if simulate:
            args += ["-simulate", "num=%d" % simulate]
            if depth:
                args += ["-depth", str(depth)]
        out, rc, dt = self._tlc(sdir, module, cfg, args, timeout, tag="mc")
        gen, dist = self._parse_counts(out)
        if simulate and gen == 0:
            m = re.findall(r"(\d+) states checked", out)
            if m:
                gen = dist = int(m[-1])
        violated = None
        m = re.search(r"Error: Invariant (\S+) is violated", out)
        if m:
            violated = m.group(1)
        m2 = re.search(r"Error: Action property (\S+) is violated|Error: Temporal propert[^\n]*violated|Error: Deadlock reached", out)
        if m2 and not violated:
            violated = m2.group(0)
        ok = (rc == 0 and violated is None and "Model checking completed. No error has been found" in out) or \
             (simulate and rc in (0,) and violated is None)
        zero = []
        if coverage:
            # only the FINAL coverage report counts (interim reports have zeros for late actions)
            covout = out
            k = out.rfind("The coverage statistics at")
            if k >= 0:
                covout = out[k:]
            for mm in re.finditer(r"<(\w+) line \d+, col \d+ to line \d+, col \d+ of module (\w+)>: (\d+):(\d+)", covout):
                if int(mm.group(4)) == 0 and mm.group(1) not in allow_zero and mm.group(1) != "Init":
                    zero.append(mm.group(1))
        res = dict(ok=ok, states=gen, distinct=dist, out=out, violated=violated, rc=rc,
                   zero_actions=sorted(set(zero)), wall=dt, timeout=(rc == -9))
        self.cov["transitions"] += gen
        self.cov["states"] += dist
        self.cov["phases"].append(dict(phase="M", spec=spec, cfg=cfg, generated=gen, distinct=dist,
                                       wall_s=round(dt, 1), ok=bool(ok), simulate=simulate or 0))
        self.log("M %s/%s: %d generated, %d distinct, %.1fs, ok=%s violated=%s" %
                 (spec, cfg, gen, dist, dt, ok, violated))
        if expect_violation is None and not ok:
            tail = "\n".join(out.splitlines()[-40:])
            self.save_text("M_%s_%s.out" % (spec, cfg), out)
            self.broken("model check %s/%s failed (rc=%s, violated=%s)\n%s" % (spec, cfg, rc, violated, tail))
        if coverage and zero:
            self.broken("vacuous: actions never taken in %s/%s: %s" % (spec, cfg, zero))
        return res

    def tlc_gen(self, spec, module, cfg, timeout=600, simulate=None, depth=None, marker="BEHAVIOUR",
                workers=1, limit=None):
        """Phase G generator: collects JSON payloads of lines  <<"BEHAVIOUR", "<json>">>  printed by
        the spec (PrintT(<<"BEHAVIOUR", ToJson(x)>>)).  Returns list of parsed JSON values."""
        sdir = self.specdir(spec)
        args = ["-workers", str(workers), "-seed", str(self.seed), "-deadlock"]
        if simulate:
            args += ["-simulate", "num=%d" % simulate]
            if depth:
                args += ["-depth", str(depth)]
        out, rc, dt = self._tlc(sdir, module, cfg, args, timeout, tag="gen")
        res, seen = [], set()
        pat = re.compile(r'^<<"%s", "(.*)">>$' % re.escape(marker))
        for line in out.splitlines():
            m = pat.match(line.strip())
            if not m:
                continue
            raw = m.group(1)
            if raw in seen:
                continue
            seen.add(raw)
            try:
                res.append(json.loads(raw.replace('\\"', '"').replace("\\\\", "\\")))
            except Exception as e:
                self.broken("unparsable behaviour from TLC: %s (%s)" % (raw[:200], e))
                break
            if limit and len(res) >= limit:
                break
        gen, dist = self._parse_counts(out)
        self.cov["transitions"] += gen
        self.cov["states"] += dist
        self.cov["phases"].append(dict(phase="G-gen", spec=spec, cfg=cfg, generated=gen, distinct=dist,
                                       behaviours=len(res), wall_s=round(dt, 1), simulate=simulate or 0))
        self.log("G-gen %s/%s: %d behaviours (%d generated, %d distinct) %.1fs rc=%s" %
                 (spec, cfg, len(res), gen, dist, dt, rc))
        if not res:
            self.save_text("G_%s_%s.out" % (spec, cfg), out)
            self.broken("generator %s/%s produced no behaviours (rc=%s)\n%s" %
                        (spec, cfg, rc, "\n".join(out.splitlines()[-30:])))
        elif rc not in (0,) and not simulate and "Error:" in out:
            self.save_text("G_%s_%s.out" % (spec, cfg), out)
            self.broken("generator %s/%s ended with an error (rc=%s)\n%s" %
                        (spec, cfg, rc, "\n".join([l for l in out.splitlines() if "Error" in l][:10])))
        return res

    def tlc_trace(self, spec, module, cfg, trace_path, timeout=600, devs=(), extra_files=None,
                  trace_name="trace.ndjson", dfs=True):
        """Phase T. The Trace spec must define, under POSTCONDITION, an operator that PrintT's
        <<"TRACE_HWM", n>> (highest trace index consumed) and the cfg lists CONSTANT Devs <- as
        written by us into 'devs.cfg.inc' replacement token @DEVS@.
        Returns dict(accepted, hwm, length, out)."""
        sdir = self.specdir(spec)
        shutil.copy(trace_path, os.path.join(sdir, trace_name))
        for f in (extra_files or []):
            shutil.copy(f, sdir)
        # materialise cfg with Devs
        src = open(os.path.join(sdir, cfg)).read()
        devset = "{" + ", ".join('"%s"' % d for d in devs) + "}"
        gen_cfg = "gen_" + cfg
        open(os.path.join(sdir, gen_cfg), "w").write(src.replace("@DEVS@", devset))
        n = sum(1 for l in open(trace_path) if l.strip())
        jvm = ["-Dtlc2.tool.queue.IStateQueue=StateDeque"] if dfs else []
        out, rc, dt = self._tlc(sdir, module, gen_cfg, ["-workers", "1", "-deadlock"], timeout, jvm=jvm, tag="trace")
        hwm = 0
        for m in re.finditer(r'<<"TRACE_HWM", (\d+)>>', out):
            hwm = max(hwm, int(m.group(1)))
        violated = None
        m = re.search(r"Error: Invariant (\S+) is violated", out)
        if m:
            violated = m.group(1)
        # a TLC evaluation/parse error is a defect of the SPEC or of the trace encoding, never a rejection
        spec_error = None
        me = re.search(r"Error: TLC threw an unexpected exception|Error: Parsing or semantic analysis failed|"
                       r"Error: The error occurred when TLC was evaluating|Error: Evaluating|java\.lang\.\w*(Exception|Error)|"
                       r"Error: In evaluation|Error: Attempted to|Error: TLC encountered|Error: The invariant .* is not a valid", out)
        if me:
            spec_error = "\n".join([x for x in out.splitlines() if x.strip()][-25:])
        accepted = (hwm >= n and violated is None and spec_error is None and
                    "Error:" not in out.replace("Error: Postcondition", "X"))
        if "Postcondition" in out and "violated" in out and hwm < n:
            accepted = False
        gen, dist = self._parse_counts(out)
        self.cov["transitions"] += gen
        self.cov["states"] += dist
        self.cov["phases"].append(dict(phase="T", spec=spec, cfg=cfg, events=n, hwm=hwm, generated=gen,
                                       distinct=dist, wall_s=round(dt, 1), accepted=bool(accepted),
                                       devs=list(devs)))
        self.log("T %s/%s: events=%d hwm=%d accepted=%s violated=%s devs=%s %.1fs" %
                 (spec, cfg, n, hwm, accepted, violated, list(devs), dt))
        if spec_error:
            self.save_text("T_%s_%s_error.out" % (spec, cfg), out[-20000:])
        return dict(accepted=accepted, hwm=hwm, length=n, out=out, violated=violated, rc=rc,
                    timeout=(rc == -9), spec_error=spec_error)

    # ------------------------------------------------------------------ Go harness
    def go_build(self, pkg, files, tags="verif", extra_overlay=None, timeout=1500):
        """Build in-package test binary for REPO/<pkg> with harness files overlaid.
        files: list of paths relative to /verif/harness (or absolute).  Returns binary path."""
        pkgdir = os.path.join(REPO, pkg)
        if not os.path.isdir(pkgdir):
            raise Broken("package dir missing: " + pkgdir)
        repl = {}
        pkgname = self._pkgname(pkgdir)
        # common helpers, package clause substituted
        common_src = open(os.path.join(VERIF, "harness", "common", "vcommon.go.tmpl")).read()
        common_out = os.path.join(self.work, "zz_verif_common_%s_test.go" % pkg.replace("/", "_"))
        open(common_out, "w").write(common_src.replace("@PKG@", pkgname))
        repl[os.path.join(pkgdir, "zz_verif_common_test.go")] = common_out
        for f in files:
            src = f if os.path.isabs(f) else os.path.join(VERIF, "harness", f)
            if not os.path.exists(src):
                raise Broken("harness file missing: " + src)
            repl[os.path.join(pkgdir, os.path.basename(src))] = src
        for k, v in (extra_overlay or {}).items():
            repl[k] = v
        ov = os.path.join(self.work, "overlay_%s.json" % pkg.replace("/", "_"))
        json.dump({"Replace": repl}, open(ov, "w"))
        out = os.path.join(self.work, "h_%s.test" % pkg.replace("/", "_"))
        cmd = [GO, "test", "-c", "-vet=off", "-overlay", ov, "-tags", tags, "-o", out, "./" + pkg]
        t = time.time()
        p = subprocess.run(cmd, cwd=REPO, env=go_env(), stdout=subprocess.PIPE, stderr=subprocess.STDOUT,
                           text=True, timeout=timeout)
        self.log("go build %s: rc=%d %.1fs" % (pkg, p.returncode, time.time() - t))
        if p.returncode != 0 or not os.path.exists(out):
            raise Broken("harness build failed for %s:\n%s" % (pkg, p.stdout[-4000:]))
        return out

    @staticmethod
    def _pkgname(pkgdir):
        for f in sorted(os.listdir(pkgdir)):
            if f.endswith(".go") and not f.endswith("_test.go"):
                for line in open(os.path.join(pkgdir, f), errors="replace"):
                    m = re.match(r"^package\s+(\w+)", line)
                    if m:
                        return m.group(1)
        raise Broken("no package clause in " + pkgdir)

    def go_run(self, binary, test, pkg=None, env=None, infile=None, timeout=900, mode="replay",
               extra_args=None):
        """Run harness test.  Protocol: env VERIF_IN (input NDJSON), VERIF_OUT (output NDJSON),
        VERIF_SEED, VERIF_TIER, VERIF_MODE.  Returns (records list, stdout, rc)."""
        outp = os.path.join(self.work, "out_%s_%s.ndjson" % (test, __import__("uuid").uuid4().hex[:12]))
        e = go_env()
        e.update(VERIF_OUT=outp, VERIF_SEED=str(self.seed), VERIF_TIER=self.tier, VERIF_MODE=mode,
                 VERIF_WORK=self.work, VERIF_REPO=REPO)
        if infile:
            e["VERIF_IN"] = infile
        if env:
            e.update({k: str(v) for k, v in env.items()})
        cwd = os.path.join(REPO, pkg) if pkg else self.work
        cmd = [binary, "-test.run", "^%s$" % test, "-test.count=1", "-test.timeout", "%ds" % (timeout + 30)]
        if extra_args:
            cmd += extra_args
        t = time.time()
        try:
            p = subprocess.run(cmd, cwd=cwd, env=e, stdout=subprocess.PIPE, stderr=subprocess.STDOUT,
                               text=True, errors="replace", timeout=timeout + 60)
            out, rc = p.stdout, p.returncode
        except subprocess.TimeoutExpired as ex:
            out, rc = (ex.stdout or ""), -9
            if isinstance(out, bytes):
                out = out.decode(errors="replace")
        recs = []
        if os.path.exists(outp):
            for line in open(outp, errors="replace"):
                line = line.strip()
                if line:
                    try:
                        recs.append(json.loads(line))
                    except Exception:
                        pass
        self.log("go run %s mode=%s: rc=%s records=%d %.1fs" % (test, mode, rc, len(recs), time.time() - t))
        self.last_out_path = outp
        return recs, out, rc

    def replay_behaviours(self, binary, test, pkg, behaviours, env=None, name="beh", timeout=900,
                          nontrivial=None, chunk=None):
        """Standard phase-G replay.  Harness protocol (mode=replay): for input line i emit
        {"i":i,"ok":true} or {"i":i,"ok":false,"step":k,"what":"...", ["dev":"Dev_Name"]} and finally
        {"summary":true,"n":<inputs processed>}.  A record with "dev" is a disagreement that the harness
        found to be explained exactly by the named as-built deviation (=> KNOWN-FINDING iff listed open).
        Returns list of disagreement records.  nontrivial: optional predicate(behaviour)->bool."""
        inp = self.write_ndjson("%s_%s.ndjson" % (name, test), behaviours)
        recs, out, rc = self.go_run(binary, test, pkg=pkg, infile=inp, env=env, mode="replay", timeout=timeout)
        summ = [r for r in recs if r.get("summary")]
        if rc != 0 or not summ or summ[-1].get("n") != len(behaviours):
            self.save_text("replay_%s_driver.out" % name, out[-20000:])
            self.broken("replay driver %s/%s died or was incomplete (rc=%s, summary=%s): %s" %
                        (test, name, rc, summ[-1:] , out[-1500:]))
            return None
        bad = [r for r in recs if r.get("ok") is False]
        for r in bad:
            beh = behaviours[r["i"]] if isinstance(r.get("i"), int) and r["i"] < len(behaviours) else None
            what = "%s#%s step %s: %s" % (name, r.get("i"), r.get("step"), r.get("what"))
            if r.get("dev"):
                self.deviation(r["dev"], what, dict(behaviour=beh, disagreement=r))
            else:
                self.violation(what, dict(behaviour=beh, disagreement=r))
        self.cov["traces_validated_against_impl"] += len(behaviours)
        self.cov["evaluations"] += len(behaviours)
        if nontrivial:
            for b in behaviours:
                if nontrivial(b):
                    self.nontrivial(b)
        if behaviours:
            self.sample(behaviours[len(behaviours) // 2])
        return bad

    def validate_trace(self, spec, module, cfg, recs, name="trace", timeout=600, count_runs=None,
                       negative=None, extra_files=None):
        """Standard phase-T: validate recorded events `recs` (list of dicts) with the Trace spec.
        First with no deviations; if rejected, with the open known-finding deviations enabled.
        negative: optional function(recs)->(corrupted_recs, expected_reject_index or None) for the
        binding control.  Returns True if accepted (possibly with deviations)."""
        if not recs:
            self.broken("empty trace for %s" % spec)
            return False
        tr = self.write_ndjson(name + ".ndjson", recs)
        res = self.tlc_trace(spec, module, cfg, tr, timeout=timeout, extra_files=extra_files)
        ok = res["accepted"]
        if res["timeout"]:
            self.broken("trace validation %s timed out" % name)
            return False
        if res.get("spec_error"):
            self.broken("trace spec %s raised a TLC error (spec/encoding defect, not a verdict):\n%s" % (module, res["spec_error"][-1500:]))
            return False
        if not ok and self.open_devs():
            res2 = self.tlc_trace(spec, module, cfg, tr, timeout=timeout, devs=self.open_devs(), extra_files=extra_files)
            if res2["accepted"]:
                used = set(re.findall(r'<<"DEV_USED", "(\w+)">>', res2["out"])) or set(self.open_devs())
                for k in self.known_findings():
                    if k.get("status") == "open" and k["deviation"] in used:
                        self.deviation(k["deviation"], k.get("what", k["deviation"]))
                ok = True
            else:
                res = res2 if res2["hwm"] >= res["hwm"] else res
        if not ok:
            h = res["hwm"]
            bad = recs[h] if h < len(recs) else None
            self.violation("recorded trace %s rejected by %s at event %d: %s (invariant=%s)" %
                           (name, module, h + 1, json.dumps(bad)[:400], res["violated"]),
                           dict(rejected_event_index=h, event=bad, prefix=recs[max(0, h - 15):h + 1]),
                           name="trace_reject_%s.json" % name)
        else:
            self.cov["traces_validated_against_impl"] += (count_runs(recs) if count_runs else 1)
            self.cov["evaluations"] += len(recs)
            if negative:
                bad, idx = negative(recs)
                if bad is not None:
                    r3 = self.tlc_trace(spec, module, cfg, self.write_ndjson(name + "_neg.ndjson", bad),
                                        timeout=timeout, devs=self.open_devs(), extra_files=extra_files)
                    if r3["accepted"] or (idx is not None and r3["hwm"] != idx):
                        self.broken("negative control for %s: corrupted trace not rejected where expected "
                                    "(accepted=%s hwm=%s want=%s) -- the trace spec binds nothing" %
                                    (name, r3["accepted"], r3["hwm"], idx))
        return ok

    def write_ndjson(self, name, items):
        p = os.path.join(self.work, name)
        with open(p, "w") as f:
            for it in items:
                f.write(json.dumps(it, separators=(",", ":")) + "\n")
        return p

    # ------------------------------------------------------------------ verdicts
    def known_findings(self):
        if self._kf is None:
            p = os.path.join(VERIF, "known_findings.json")
            self._kf = json.load(open(p)).get("findings", []) if os.path.exists(p) else []
            ids = {k.get("id") for k in self._kf}
            import glob
            for f in sorted(glob.glob(os.path.join(VERIF, "findings", "*.json"))):  # not yet merged
                k = json.load(open(f))
                if k.get("id") not in ids:
                    self._kf.append(k)
        return [k for k in self._kf if k.get("property") == self.pid]

    def open_devs(self):
        return [k["deviation"] for k in self.known_findings() if k.get("status") == "open"]

    def save_text(self, name, text):
        d = os.path.join(VERIF, "replay", self.pid)
        os.makedirs(d, exist_ok=True)
        p = os.path.join(d, name)
        open(p, "w").write(text if isinstance(text, str) else json.dumps(text, indent=1))
        return p

    def violation(self, what, payload, name=None):
        """payload: JSON-able minimal failing behaviour/trace. Classified against known findings by
        the caller (use ctx.deviation(...) for known ones)."""
        name = name or ("violation_%d.json" % (len(self.violations) + 1))
        p = self.save_text(name, payload if isinstance(payload, str) else json.dumps(payload, indent=1))
        self.violations.append((what, p))
        self.log("VIOLATION candidate:", what)

    def deviation(self, dev, what, payload=None):
        """A disagreement that is explained exactly by named deviation `dev`.  If dev is an open
        known finding -> KNOWN-FINDING, else -> violation."""
        if dev in self.open_devs():
            if not any(d == dev for d, _ in self.knowns):
                self.knowns.append((dev, what))
        else:
            self.violation("%s (deviation %s not listed as open finding)" % (what, dev), payload or what)

    def broken(self, what):
        self.brokens.append(what)
        self.log("BROKEN:", what[:2000])

    def finish(self):
        wall = time.time() - self.t0
        self.cov["distinct_nontrivial"] = max(self.cov.get("distinct_nontrivial", 0), len(self._nontrivial))
        if not self.cov["samples"]:
            self.cov["samples"] = ["(no sample recorded)"]
        ev = dict(property_id=self.pid, tier=self.tier, seed=self.seed, level=self.level,
                  coverage=self.cov, assumptions=self.assumptions, wall_s=round(wall, 2),
                  violations=len(self.violations),
                  known_findings=[d for d, _ in self.knowns], broken=self.brokens[:5])
        os.makedirs(os.path.join(VERIF, "evidence"), exist_ok=True)
        if REPO == "/repo" or os.environ.get("VERIF_WRITE_EVIDENCE"):
            evp = os.path.join(VERIF, "evidence", self.pid + ".json")
        else:
            evp = os.path.join(self.work + "_evidence.json")
        json.dump(ev, open(evp, "w"), indent=1)
        for dev, what in self.knowns:
            print("KNOWN-FINDING: property=%s %s [%s]" % (self.pid, what, dev), flush=True)
        rc = 0
        if self.violations:
            for what, p in self.violations[:10]:
                print("VIOLATION property=%s replay=%s  # %s" % (self.pid, p, what.replace("\n", " ")[:300]), flush=True)
            rc = 1
        elif self.brokens:
            print("CHECK-BROKEN property=%s %s" % (self.pid, self.brokens[0].replace("\n", " | ")[:500]), flush=True)
            rc = 2
        else:
            print("OK property=%s tier=%s seed=%d states=%d traces=%d wall=%.1fs" %
                  (self.pid, self.tier, self.seed, self.cov["states"],
                   self.cov["traces_validated_against_impl"], wall), flush=True)
        if not os.environ.get("VERIF_KEEP"):
            shutil.rmtree(self.work, ignore_errors=True)
        return rc


def main(argv):
    import argparse, importlib.util
    ap = argparse.ArgumentParser()
    ap.add_argument("pid")
    ap.add_argument("--tier", default=os.environ.get("VERIF_TIER", "quick"), choices=["quick", "thorough"])
    ap.add_argument("--replay", default=None)
    ap.add_argument("--seed", type=int, default=None)
    a = ap.parse_args(argv)
    seed = a.seed if a.seed is not None else int(os.environ.get("VERIF_SEED", "1") or 1)
    ctx = Ctx(a.pid, a.tier, seed, a.replay)
    modp = os.path.join(VERIF, "checks", a.pid + ".py")
    spec = importlib.util.spec_from_file_location("check_" + a.pid, modp)
    mod = importlib.util.module_from_spec(spec)
    try:
        spec.loader.exec_module(mod)
        mod.run(ctx)
    except Broken as e:
        ctx.broken(str(e))
    except subprocess.TimeoutExpired as e:
        ctx.broken("timeout: %s" % e)
    except Exception as e:
        import traceback
        ctx.broken("exception in check: %s\n%s" % (e, traceback.format_exc()))
    return ctx.finish()
