---------------------------- MODULE AutoconfCache ----------------------------
(* C45 -- the autoconf cache directory under an interrupted update.

   State: the cache directory as a map  file name -> [ver, len]  (every file written during an
   update holds a PREFIX of one fetched payload: ver = which payload, len = how many bytes;
   ver = 0 : a metadata file or an empty file).  full[v] is the length of payload v.

   The write programme of an update is whatever sequence of file-system steps the
   implementation issues (Create/Write/Rename/Unlink): this module gives their meaning and the
   property a cached read must satisfy at EVERY crash point, independent of the programme:

     ReadOK(r):  r is a version whose complete payload is on disk under one of its final names,
                 namely the newest such version, or -- when the version being written is already
                 complete -- the newest earlier one; the built-in fallback (r = 0) only if no
                 such version exists.  Never anything else (r = -1 : corrupt).
     Durable(r): `base` = the validated versions that were on disk when the update STARTED.  If
                 there was one, every crash point of the update must still yield "the new one or
                 the newest earlier one" (= MaxOf(base)): an update may not pass through a state
                 in which the cache has lost what it had (e.g. by pruning before writing), and
                 the reader may not ignore it (e.g. by looking at a bounded window of files).
                 ReadOK includes Durable.

   The cache-size configuration (how many versions are kept; cleanup of older ones) is part of
   the state space: CacheSize \in 1..3 in the design-level model 2 and in the binding.

   "A later cached read" includes reads after the process has been RESTARTED and has REFRESHED
   again.  The refresh is conditional: the client sends the HTTP validator it finds in its
   metadata (ETag file, else Last-Modified file) and a server whose configuration is still the
   one described by that validator answers 304 Not Modified -- nothing is fetched, only the
   post-fetch cleanup runs.  So the validator metadata is part of the cache state: which version
   a validator file describes (files[n].ver for n \in MetaNames) and whether it is complete.
     RefreshReadOK(r): the cached read after crash + restart + refresh against a server that
                 still serves vnew: if the validator on disk does not describe vnew the refresh
                 re-fetches (200) and r = vnew; if it does (304) r is vnew or the newest version
                 that was valid on disk at the crash point -- the fallback only if there was none.
   Design-level model 3 (D3Spec) adds the validator file, its position in the write programme
   (MetaOrder) and the restart-and-refresh action (same or next server version; 304 / identical
   payload / save under a NEW newest name) to the history model 2.

   Two writer designs and two reader designs are model-checked (MC*.cfg): the as-built pair
   (write straight to the final name, read newest file only) violates ReadOK -- kept as the
   non-vacuity control; (atomic temp+rename writer) or (reader that skips unparsable files)
   satisfy it.                                                                              *)
EXTENDS Integers, Sequences, FiniteSets, TLC

CONSTANTS Names,       \* file names that may appear
          MaxVer,      \* versions 1..MaxVer
          Writer,      \* "direct" | "atomic"         (design-level model only)
          Reader,      \* "newest" | "newestValid" | "newestValidWindow" (design-level model only)
          CacheSize,   \* number of versions kept (design-level model 2; "newestValidWindow" reader)
          Cleanup,     \* "after" | "before": pruning of old versions relative to the write (model 2)
          MetaOrder,   \* "after" | "before": validator metadata written after / before the main file (model 3)
          MetaNames,   \* names of metadata files (never configuration versions)
          EtagName, LMName  \* the two validator files among them (ETag is preferred by the client)

VARIABLES files,      \* [Names -> [ver : 0..MaxVer, len : Nat]] \cup absent marker
          full,       \* [1..MaxVer -> Nat]  payload lengths
          finals,     \* names that hold a complete configuration before / after the update
          vnew,       \* version being written by the update in progress (0 = none)
          done,       \* the update programme has completed
          base,       \* validated versions on disk (under a final name) when the update in progress started
          prog, pcw,  \* design-level model: remaining programme of the update
          slot,       \* design-level model 3: index (in FN) of the name used by the latest save
          refr        \* design-level model 3: kind of the refresh in progress: "save" | "skip" | "notmod"
vars == <<files, full, finals, vnew, done, base, prog, pcw, slot, refr>>

Absent == [ver |-> -1, len |-> 0]
Present(n) == files[n] # Absent
\* all read-side operators are parametrised by the directory contents fs so that the trace spec can
\* evaluate them on a crash state inside a write (a byte-level truncation)
CompleteIn(fs, n) == fs[n] # Absent /\ fs[n].ver >= 1 /\ fs[n].len = full[fs[n].ver]
Complete(n) == CompleteIn(files, n)
ValidOnDiskIn(fs) == {fs[n].ver : n \in {m \in finals \cap DOMAIN fs : CompleteIn(fs, m)}}
AnyCompleteIn(fs, v) == \E n \in (DOMAIN fs) \ MetaNames : CompleteIn(fs, n) /\ fs[n].ver = v
MaxOf(S) == CHOOSE x \in S : \A y \in S : y <= x

\* what the cache held at the start of the update is not lost at any crash point of the update
Durable(r) == base # {} => (r = vnew \/ r = MaxOf(base))
ReadOKIn(fs, r) ==
    LET V == ValidOnDiskIn(fs) IN
    /\ Durable(r)
    /\ IF V = {}
       THEN r = 0 \/ (vnew >= 1 /\ r = vnew /\ AnyCompleteIn(fs, vnew))
       ELSE \/ r = MaxOf(V)
            \/ /\ vnew \in V /\ V \ {vnew} # {}
               /\ r = MaxOf(V \ {vnew})
ReadOK(r) == ReadOKIn(files, r)

(* ---- validator metadata and the conditional refresh ----------------------------------- *)
\* length of a complete validator of version v in metadata file n (design models: as long as a
\* payload; the trace spec substitutes the real lengths)
ValFull(n, v) == full[v]
\* the refresh of a restarted client against a server serving version v is answered 304: the
\* validator the client sends (ETag file if non-empty, else Last-Modified file) is complete and
\* describes v
NotModIn(fs, v) ==
    LET Has(n) == n \in DOMAIN fs /\ fs[n] # Absent /\ fs[n].len > 0
        n == IF Has(EtagName) THEN EtagName ELSE IF Has(LMName) THEN LMName ELSE "" IN
    IF n = "" THEN FALSE ELSE fs[n].ver = v /\ fs[n].len = ValFull(n, v)
\* cached read after crash in state fs + restart + refresh against the unchanged server (vnew)
RefreshReadOKIn(fs, r) ==
    LET V == ValidOnDiskIn(fs) IN
    IF ~NotModIn(fs, vnew) THEN r = vnew                  \* re-fetched and validated just now
    ELSE IF V # {} THEN r = vnew \/ r = MaxOf(V)          \* never the fallback, never corrupt
         ELSE r = vnew \/ r = 0

(* ---- meaning of the file-system steps (used by the trace spec) ------------------------ *)
FsCreate(n, trunc) == files' = [files EXCEPT ![n] = IF Present(n) /\ ~trunc THEN @ ELSE [ver |-> 0, len |-> 0]]
FsWrite(n, v, off, k) == /\ Present(n) /\ files[n].len = off
                         /\ (files[n].ver = v \/ files[n].len = 0)
                         /\ files' = [files EXCEPT ![n] = [ver |-> v, len |-> off + k]]
FsRename(a, b) == /\ Present(a)
                  /\ files' = [files EXCEPT ![b] = files[a], ![a] = Absent]
FsUnlink(n) == files' = [files EXCEPT ![n] = Absent]

(* ---- design-level model: one update after some successful ones, crash anywhere -------- *)
\* names: "f1".."fK" final names of versions, "tmp" a temporary name, "meta" metadata
FN == <<"f1", "f2", "f3", "f4", "f5", "f6">>
FinalName(v) == FN[v]
Rank(n) == CHOOSE v \in 1..Len(FN) : FN[v] = n
Programme(v) ==
    IF Writer = "direct"
    THEN << <<"create", FinalName(v)>>, <<"write", FinalName(v), v>>, <<"create", "meta">>, <<"write", "meta", 0>> >>
    ELSE << <<"create", "tmp">>, <<"write", "tmp", v>>, <<"rename", "tmp", FinalName(v)>>, <<"create", "meta">>, <<"write", "meta", 0>> >>

DInit == /\ full = [v \in 1..MaxVer |-> 2]
         /\ \E k \in 0..(MaxVer - 1) :
              /\ files = [n \in Names |-> IF \E v \in 1..k : n = FinalName(v)
                                          THEN [ver |-> Rank(n), len |-> 2] ELSE Absent]
              /\ vnew = k + 1 /\ base = 1..k
              /\ finals = {FinalName(v) : v \in 1..(k + 1)}
              /\ prog = Programme(k + 1)
         /\ done = FALSE /\ pcw = 0 /\ slot = 0 /\ refr = "save"

\* one byte of progress at a time: every byte-level truncation is a reachable state
DStep == /\ prog # <<>> /\ ~done
         /\ LET op == Head(prog) IN
            CASE op[1] = "create" -> /\ FsCreate(op[2], TRUE) /\ prog' = Tail(prog) /\ pcw' = 0
              [] op[1] = "write"  -> LET total == IF op[3] = 0 THEN 1 ELSE full[op[3]] IN
                                     /\ FsWrite(op[2], op[3], pcw, 1)
                                     /\ IF pcw + 1 = total THEN prog' = Tail(prog) /\ pcw' = 0
                                                           ELSE prog' = prog /\ pcw' = pcw + 1
              [] op[1] = "rename" -> /\ FsRename(op[2], op[3]) /\ prog' = Tail(prog) /\ pcw' = 0
         /\ done' = (prog' = <<>>)
         /\ UNCHANGED <<full, finals, vnew, base, slot, refr>>
DSpec == DInit /\ [][DStep]_vars

\* what the reader returns in the current (crash) state
ConfigNames == {n \in Names : Present(n) /\ n \notin MetaNames /\ n # "tmp"}   \* names matching the cache-file pattern
NewestName(S) == CHOOSE n \in S : \A m \in S : Rank(m) <= Rank(n)
ReadResult ==
    IF Reader = "newest"
    THEN IF ConfigNames = {} THEN 0
         ELSE IF Complete(NewestName(ConfigNames)) THEN files[NewestName(ConfigNames)].ver ELSE 0
    ELSE LET \* "newestValidWindow": only the newest CacheSize files are looked at ("the rest waits for cleanup")
             seen == IF Reader = "newestValidWindow"
                     THEN {n \in ConfigNames : Cardinality({m \in ConfigNames : Rank(m) > Rank(n)}) < CacheSize}
                     ELSE ConfigNames
             ok == {n \in seen : Complete(n)} IN
         IF ok = {} THEN 0 ELSE files[NewestName(ok)].ver
ReadIsValidated == ReadOK(ReadResult)

(* ---- design-level model 2: a HISTORY of updates with crashes, restarts and cache cleanup ------
   After a crash the next start fetches the next version into whatever the crash left behind.
   Cleanup = "after" : a completed save is followed by the cleanup of cleanupOldVersions: unlink the
                       oldest cache files (partial ones count as files!) until at most CacheSize remain.
   Cleanup = "before": the save first makes room: unlink the oldest until at most CacheSize-1 remain,
                       then writes (control: loses the cache -- with CacheSize = 1 at the first
                       crash, with larger sizes after CacheSize-1 consecutive interrupted updates). *)
Programme2(v) == IF Cleanup = "before" THEN << <<"cleanup", CacheSize - 1>> >> \o Programme(v)
                                       ELSE Programme(v) \o << <<"cleanup", CacheSize>> >>
D2Init == /\ full = [v \in 1..MaxVer |-> 2]
          /\ files = [n \in Names |-> Absent]
          /\ vnew = 1 /\ finals = {FinalName(v) : v \in 1..MaxVer} /\ base = {}
          /\ prog = Programme2(1) /\ done = FALSE /\ pcw = 0 /\ slot = 0 /\ refr = "save"
OldestName(S) == CHOOSE n \in S : \A m \in S : Rank(n) <= Rank(m)
D2Step == /\ prog # <<>>
          /\ LET op == Head(prog) IN
             IF op[1] = "cleanup"
             THEN IF Cardinality(ConfigNames) > op[2]
                  THEN /\ FsUnlink(OldestName(ConfigNames)) /\ UNCHANGED <<prog, pcw>>
                  ELSE /\ prog' = Tail(prog) /\ UNCHANGED <<files, pcw>>
             ELSE CASE op[1] = "create" -> /\ FsCreate(op[2], TRUE) /\ prog' = Tail(prog) /\ pcw' = 0
                    [] op[1] = "write"  -> LET total == IF op[3] = 0 THEN 1 ELSE full[op[3]] IN
                                           /\ FsWrite(op[2], op[3], pcw, 1)
                                           /\ IF pcw + 1 = total THEN prog' = Tail(prog) /\ pcw' = 0
                                                                 ELSE prog' = prog /\ pcw' = pcw + 1
                    [] op[1] = "rename" -> /\ FsRename(op[2], op[3]) /\ prog' = Tail(prog) /\ pcw' = 0
          /\ done' = (prog' = <<>>)
          /\ UNCHANGED <<full, finals, vnew, base, slot, refr>>
\* the process stops anywhere (also mid-programme); the next start fetches the next version;
\* what is valid on disk at that moment is what the next update must not lose
D2CrashRestart == /\ vnew < MaxVer
                  /\ vnew' = vnew + 1 /\ prog' = Programme2(vnew + 1) /\ pcw' = 0 /\ done' = FALSE
                  /\ base' = ValidOnDiskIn(files)
                  /\ UNCHANGED <<files, full, finals, slot, refr>>
D2Spec == D2Init /\ [][D2Step \/ D2CrashRestart]_vars

(* ---- design-level model 3: model 2 + validator metadata + restart-and-refresh ------------------
   A save writes the main file under a NEW newest name FN[slot] (the name is a timestamp, not the
   version: a re-fetch of the same version after a crash gets another name), the validator of the
   fetched version (file EtagName) and the remaining metadata; then the cleanup.
   MetaOrder = "after" : main file, then validator (as built);  "before": validator first (control).
   D3Restart: the process stops ANYWHERE and the next start refreshes; the server still serves
   vnew or has moved to vnew + 1.  Conditional request:
     validator on disk complete and describing the served version -> 304: only the refresh time
                 is recorded, then the cleanup runs                                ("notmod")
     else 200; payload identical to the newest cache file -> no save, cleanup      ("skip")
     else a full save under the next name, cleanup                                 ("save")   *)
CleanupOp == <<"cleanup", CacheSize>>
RefreshMeta == << <<"create", "meta">>, <<"write", "meta", 0>> >>
Programme3(s, v) ==
    LET main == IF Writer = "direct"
                THEN << <<"create", FN[s]>>, <<"write", FN[s], v>> >>
                ELSE << <<"create", "tmp">>, <<"write", "tmp", v>>, <<"rename", "tmp", FN[s]>> >>
        val == << <<"create", EtagName>>, <<"write", EtagName, v>> >>
    IN (IF MetaOrder = "after" THEN main \o val ELSE val \o main) \o RefreshMeta \o <<CleanupOp>>
D3Init == /\ full = [v \in 1..MaxVer |-> 2]
          /\ files = [n \in Names |-> Absent]
          /\ vnew = 1 /\ finals = {FN[k] : k \in 1..Len(FN)} \cap Names /\ base = {}
          /\ slot = 1 /\ refr = "save"
          /\ prog = Programme3(1, 1) /\ done = FALSE /\ pcw = 0
D3Restart == \E v \in {vnew, vnew + 1} :
    /\ v <= MaxVer
    /\ vnew' = v /\ base' = ValidOnDiskIn(files) /\ pcw' = 0 /\ done' = FALSE
    /\ IF NotModIn(files, v)
       THEN refr' = "notmod" /\ slot' = slot /\ prog' = RefreshMeta \o <<CleanupOp>>
       ELSE IF ConfigNames # {} /\ Complete(NewestName(ConfigNames)) /\ files[NewestName(ConfigNames)].ver = v
            THEN refr' = "skip" /\ slot' = slot /\ prog' = <<CleanupOp>>
            ELSE /\ slot < Len(FN) /\ FN[slot + 1] \in Names
                 /\ refr' = "save" /\ slot' = slot + 1 /\ prog' = Programme3(slot + 1, v)
    /\ UNCHANGED <<files, full, finals>>
D3Spec == D3Init /\ [][D2Step \/ D3Restart]_vars
\* a refresh that received the payload (200) ends with a cache that returns it
RefreshedIsNew == (done /\ refr # "notmod") => ReadResult = vnew
=============================================================================
