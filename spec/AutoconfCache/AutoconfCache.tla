---------------------------- MODULE AutoconfCache ----------------------------
(* C45 -- the autoconf cache directory under an interrupted update.

   State: the cache directory as a map  file name -> [ver, len]  (every file written during an
   update holds a PREFIX of one fetched payload: ver = which payload, len = how many bytes;
   ver = 0 : a metadata file or an empty file).  full[v] is the length of payload v.

   The write programme of an update is whatever sequence of file-system steps the
   implementation issues (Create/Write/Rename/Unlink): this module gives their meaning and the
   property a cached read must satisfy at EVERY crash point, independent of the programme:

     ReadOK(r):  r is a version whose complete payload is on disk under one of its final names,
                 namely the newest such version, or -- when the version being written is already
                 complete -- the newest earlier one; the built-in fallback (r = 0) only if no
                 such version exists.  Never anything else (r = -1 : corrupt).
     Durable(r): `base` = the validated versions that were on disk when the update STARTED.  If
                 there was one, every crash point of the update must still yield "the new one or
                 the newest earlier one" (= MaxOf(base)): an update may not pass through a state
                 in which the cache has lost what it had (e.g. by pruning before writing), and
                 the reader may not ignore it (e.g. by looking at a bounded window of files).
                 ReadOK includes Durable.

   The cache-size configuration (how many versions are kept; cleanup of older ones) is part of
   the state space: CacheSize \in 1..3 in the design-level model 2 and in the binding.

   Two writer designs and two reader designs are model-checked (MC*.cfg): the as-built pair
   (write straight to the final name, read newest file only) violates ReadOK -- kept as the
   non-vacuity control; (atomic temp+rename writer) or (reader that skips unparsable files)
   satisfy it.                                                                              *)
EXTENDS Integers, Sequences, FiniteSets, TLC

CONSTANTS Names,       \* file names that may appear
          MaxVer,      \* versions 1..MaxVer
          Writer,      \* "direct" | "atomic"         (design-level model only)
          Reader,      \* "newest" | "newestValid" | "newestValidWindow" (design-level model only)
          CacheSize,   \* number of versions kept (design-level model 2; "newestValidWindow" reader)
          Cleanup      \* "after" | "before": pruning of old versions relative to the write (model 2)

VARIABLES files,      \* [Names -> [ver : 0..MaxVer, len : Nat]] \cup absent marker
          full,       \* [1..MaxVer -> Nat]  payload lengths
          finals,     \* names that hold a complete configuration before / after the update
          vnew,       \* version being written by the update in progress (0 = none)
          done,       \* the update programme has completed
          base,       \* validated versions on disk (under a final name) when the update in progress started
          prog, pcw   \* design-level model: remaining programme of the update
vars == <<files, full, finals, vnew, done, base, prog, pcw>>

Absent == [ver |-> -1, len |-> 0]
Present(n) == files[n] # Absent
\* all read-side operators are parametrised by the directory contents fs so that the trace spec can
\* evaluate them on a crash state inside a write (a byte-level truncation)
CompleteIn(fs, n) == fs[n] # Absent /\ fs[n].ver >= 1 /\ fs[n].len = full[fs[n].ver]
Complete(n) == CompleteIn(files, n)
ValidOnDiskIn(fs) == {fs[n].ver : n \in {m \in finals \cap DOMAIN fs : CompleteIn(fs, m)}}
AnyCompleteIn(fs, v) == \E n \in DOMAIN fs : CompleteIn(fs, n) /\ fs[n].ver = v
MaxOf(S) == CHOOSE x \in S : \A y \in S : y <= x

\* what the cache held at the start of the update is not lost at any crash point of the update
Durable(r) == base # {} => (r = vnew \/ r = MaxOf(base))
ReadOKIn(fs, r) ==
    LET V == ValidOnDiskIn(fs) IN
    /\ Durable(r)
    /\ IF V = {}
       THEN r = 0 \/ (vnew >= 1 /\ r = vnew /\ AnyCompleteIn(fs, vnew))
       ELSE \/ r = MaxOf(V)
            \/ /\ vnew \in V /\ V \ {vnew} # {}
               /\ r = MaxOf(V \ {vnew})
ReadOK(r) == ReadOKIn(files, r)

(* ---- meaning of the file-system steps (used by the trace spec) ------------------------ *)
FsCreate(n, trunc) == files' = [files EXCEPT ![n] = IF Present(n) /\ ~trunc THEN @ ELSE [ver |-> 0, len |-> 0]]
FsWrite(n, v, off, k) == /\ Present(n) /\ files[n].len = off
                         /\ (files[n].ver = v \/ files[n].len = 0)
                         /\ files' = [files EXCEPT ![n] = [ver |-> v, len |-> off + k]]
FsRename(a, b) == /\ Present(a)
                  /\ files' = [files EXCEPT ![b] = files[a], ![a] = Absent]
FsUnlink(n) == files' = [files EXCEPT ![n] = Absent]

(* ---- design-level model: one update after some successful ones, crash anywhere -------- *)
\* names: "f1".."fK" final names of versions, "tmp" a temporary name, "meta" metadata
FN == <<"f1", "f2", "f3", "f4", "f5", "f6">>
FinalName(v) == FN[v]
Rank(n) == CHOOSE v \in 1..Len(FN) : FN[v] = n
Programme(v) ==
    IF Writer = "direct"
    THEN << <<"create", FinalName(v)>>, <<"write", FinalName(v), v>>, <<"create", "meta">>, <<"write", "meta", 0>> >>
    ELSE << <<"create", "tmp">>, <<"write", "tmp", v>>, <<"rename", "tmp", FinalName(v)>>, <<"create", "meta">>, <<"write", "meta", 0>> >>

DInit == /\ full = [v \in 1..MaxVer |-> 2]
         /\ \E k \in 0..(MaxVer - 1) :
              /\ files = [n \in Names |-> IF \E v \in 1..k : n = FinalName(v)
                                          THEN [ver |-> Rank(n), len |-> 2] ELSE Absent]
              /\ vnew = k + 1 /\ base = 1..k
              /\ finals = {FinalName(v) : v \in 1..(k + 1)}
              /\ prog = Programme(k + 1)
         /\ done = FALSE /\ pcw = 0

\* one byte of progress at a time: every byte-level truncation is a reachable state
DStep == /\ prog # <<>> /\ ~done
         /\ LET op == Head(prog) IN
            CASE op[1] = "create" -> /\ FsCreate(op[2], TRUE) /\ prog' = Tail(prog) /\ pcw' = 0
              [] op[1] = "write"  -> LET total == IF op[3] = 0 THEN 1 ELSE full[op[3]] IN
                                     /\ FsWrite(op[2], op[3], pcw, 1)
                                     /\ IF pcw + 1 = total THEN prog' = Tail(prog) /\ pcw' = 0
                                                           ELSE prog' = prog /\ pcw' = pcw + 1
              [] op[1] = "rename" -> /\ FsRename(op[2], op[3]) /\ prog' = Tail(prog) /\ pcw' = 0
         /\ done' = (prog' = <<>>)
         /\ UNCHANGED <<full, finals, vnew, base>>
DSpec == DInit /\ [][DStep]_vars

\* what the reader returns in the current (crash) state
ConfigNames == {n \in Names : Present(n) /\ n # "meta" /\ n # "tmp"}   \* names matching the cache-file pattern
NewestName(S) == CHOOSE n \in S : \A m \in S : Rank(m) <= Rank(n)
ReadResult ==
    IF Reader = "newest"
    THEN IF ConfigNames = {} THEN 0
         ELSE IF Complete(NewestName(ConfigNames)) THEN files[NewestName(ConfigNames)].ver ELSE 0
    ELSE LET \* "newestValidWindow": only the newest CacheSize files are looked at ("the rest waits for cleanup")
             seen == IF Reader = "newestValidWindow"
                     THEN {n \in ConfigNames : Cardinality({m \in ConfigNames : Rank(m) > Rank(n)}) < CacheSize}
                     ELSE ConfigNames
             ok == {n \in seen : Complete(n)} IN
         IF ok = {} THEN 0 ELSE files[NewestName(ok)].ver
ReadIsValidated == ReadOK(ReadResult)

(* ---- design-level model 2: a HISTORY of updates with crashes, restarts and cache cleanup ------
   After a crash the next start fetches the next version into whatever the crash left behind.
   Cleanup = "after" : a completed save is followed by the cleanup of cleanupOldVersions: unlink the
                       oldest cache files (partial ones count as files!) until at most CacheSize remain.
   Cleanup = "before": the save first makes room: unlink the oldest until at most CacheSize-1 remain,
                       then writes (control: loses the cache -- with CacheSize = 1 at the first
                       crash, with larger sizes after CacheSize-1 consecutive interrupted updates). *)
Programme2(v) == IF Cleanup = "before" THEN << <<"cleanup", CacheSize - 1>> >> \o Programme(v)
                                       ELSE Programme(v) \o << <<"cleanup", CacheSize>> >>
D2Init == /\ full = [v \in 1..MaxVer |-> 2]
          /\ files = [n \in Names |-> Absent]
          /\ vnew = 1 /\ finals = {FinalName(v) : v \in 1..MaxVer} /\ base = {}
          /\ prog = Programme2(1) /\ done = FALSE /\ pcw = 0
OldestName(S) == CHOOSE n \in S : \A m \in S : Rank(n) <= Rank(m)
D2Step == /\ prog # <<>>
          /\ LET op == Head(prog) IN
             IF op[1] = "cleanup"
             THEN IF Cardinality(ConfigNames) > op[2]
                  THEN /\ FsUnlink(OldestName(ConfigNames)) /\ UNCHANGED <<prog, pcw>>
                  ELSE /\ prog' = Tail(prog) /\ UNCHANGED <<files, pcw>>
             ELSE CASE op[1] = "create" -> /\ FsCreate(op[2], TRUE) /\ prog' = Tail(prog) /\ pcw' = 0
                    [] op[1] = "write"  -> LET total == IF op[3] = 0 THEN 1 ELSE full[op[3]] IN
                                           /\ FsWrite(op[2], op[3], pcw, 1)
                                           /\ IF pcw + 1 = total THEN prog' = Tail(prog) /\ pcw' = 0
                                                                 ELSE prog' = prog /\ pcw' = pcw + 1
                    [] op[1] = "rename" -> /\ FsRename(op[2], op[3]) /\ prog' = Tail(prog) /\ pcw' = 0
          /\ done' = (prog' = <<>>)
          /\ UNCHANGED <<full, finals, vnew, base>>
\* the process stops anywhere (also mid-programme); the next start fetches the next version;
\* what is valid on disk at that moment is what the next update must not lose
D2CrashRestart == /\ vnew < MaxVer
                  /\ vnew' = vnew + 1 /\ prog' = Programme2(vnew + 1) /\ pcw' = 0 /\ done' = FALSE
                  /\ base' = ValidOnDiskIn(files)
                  /\ UNCHANGED <<files, full, finals>>
D2Spec == D2Init /\ [][D2Step \/ D2CrashRestart]_vars
=============================================================================
