---------------------------- MODULE AutoconfCache ----------------------------
(* C45 -- the autoconf cache directory under an interrupted update.

   State: the cache directory as a map  file name -> [ver, len]  (every file written during an
   update holds a PREFIX of one fetched payload: ver = which payload, len = how many bytes;
   ver = 0 : a metadata file or an empty file).  full[v] is the length of payload v.

   The write programme of an update is whatever sequence of file-system steps the
   implementation issues (Create/Write/Rename/Unlink): this module gives their meaning and the
   property a cached read must satisfy at EVERY crash point, independent of the programme:

     ReadOK(r):  r is a version whose complete payload is on disk under one of its final names,
                 namely the newest such version, or -- when the version being written is already
                 complete -- the newest earlier one; the built-in fallback (r = 0) only if no
                 such version exists.  Never anything else (r = -1 : corrupt).

   Two writer designs and two reader designs are model-checked (MC*.cfg): the as-built pair
   (write straight to the final name, read newest file only) violates ReadOK -- kept as the
   non-vacuity control; (atomic temp+rename writer) or (reader that skips unparsable files)
   satisfy it.                                                                              *)
EXTENDS Integers, Sequences, FiniteSets, TLC

CONSTANTS Names,       \* file names that may appear
          MaxVer,      \* versions 1..MaxVer
          Writer,      \* "direct" | "atomic"         (design-level model only)
          Reader       \* "newest" | "newestValid"    (design-level model only)

VARIABLES files,      \* [Names -> [ver : 0..MaxVer, len : Nat]] \cup absent marker
          full,       \* [1..MaxVer -> Nat]  payload lengths
          finals,     \* names that hold a complete configuration before / after the update
          vnew,       \* version being written by the update in progress (0 = none)
          done,       \* the update programme has completed
          prog, pcw   \* design-level model: remaining programme of the update
vars == <<files, full, finals, vnew, done, prog, pcw>>

Absent == [ver |-> -1, len |-> 0]
Present(n) == files[n] # Absent
\* all read-side operators are parametrised by the directory contents fs so that the trace spec can
\* evaluate them on a crash state inside a write (a byte-level truncation)
CompleteIn(fs, n) == fs[n] # Absent /\ fs[n].ver >= 1 /\ fs[n].len = full[fs[n].ver]
Complete(n) == CompleteIn(files, n)
ValidOnDiskIn(fs) == {fs[n].ver : n \in {m \in finals \cap DOMAIN fs : CompleteIn(fs, m)}}
AnyCompleteIn(fs, v) == \E n \in DOMAIN fs : CompleteIn(fs, n) /\ fs[n].ver = v
MaxOf(S) == CHOOSE x \in S : \A y \in S : y <= x

ReadOKIn(fs, r) ==
    LET V == ValidOnDiskIn(fs) IN
    IF V = {}
    THEN r = 0 \/ (vnew >= 1 /\ r = vnew /\ AnyCompleteIn(fs, vnew))
    ELSE \/ r = MaxOf(V)
         \/ /\ vnew \in V /\ V \ {vnew} # {}
            /\ r = MaxOf(V \ {vnew})
ReadOK(r) == ReadOKIn(files, r)

(* ---- meaning of the file-system steps (used by the trace spec) ------------------------ *)
FsCreate(n, trunc) == files' = [files EXCEPT ![n] = IF Present(n) /\ ~trunc THEN @ ELSE [ver |-> 0, len |-> 0]]
FsWrite(n, v, off, k) == /\ Present(n) /\ files[n].len = off
                         /\ (files[n].ver = v \/ files[n].len = 0)
                         /\ files' = [files EXCEPT ![n] = [ver |-> v, len |-> off + k]]
FsRename(a, b) == /\ Present(a)
                  /\ files' = [files EXCEPT ![b] = files[a], ![a] = Absent]
FsUnlink(n) == files' = [files EXCEPT ![n] = Absent]

(* ---- design-level model: one update after some successful ones, crash anywhere -------- *)
\* names: "f1".."fK" final names of versions, "tmp" a temporary name, "meta" metadata
FN == <<"f1", "f2", "f3", "f4", "f5", "f6">>
FinalName(v) == FN[v]
Rank(n) == CHOOSE v \in 1..Len(FN) : FN[v] = n
Programme(v) ==
    IF Writer = "direct"
    THEN << <<"create", FinalName(v)>>, <<"write", FinalName(v), v>>, <<"create", "meta">>, <<"write", "meta", 0>> >>
    ELSE << <<"create", "tmp">>, <<"write", "tmp", v>>, <<"rename", "tmp", FinalName(v)>>, <<"create", "meta">>, <<"write", "meta", 0>> >>

DInit == /\ full = [v \in 1..MaxVer |-> 2]
         /\ \E k \in 0..(MaxVer - 1) :
              /\ files = [n \in Names |-> IF \E v \in 1..k : n = FinalName(v)
                                          THEN [ver |-> Rank(n), len |-> 2] ELSE Absent]
              /\ vnew = k + 1
              /\ finals = {FinalName(v) : v \in 1..(k + 1)}
              /\ prog = Programme(k + 1)
         /\ done = FALSE /\ pcw = 0

\* one byte of progress at a time: every byte-level truncation is a reachable state
DStep == /\ prog # <<>> /\ ~done
         /\ LET op == Head(prog) IN
            CASE op[1] = "create" -> /\ FsCreate(op[2], TRUE) /\ prog' = Tail(prog) /\ pcw' = 0
              [] op[1] = "write"  -> LET total == IF op[3] = 0 THEN 1 ELSE full[op[3]] IN
                                     /\ FsWrite(op[2], op[3], pcw, 1)
                                     /\ IF pcw + 1 = total THEN prog' = Tail(prog) /\ pcw' = 0
                                                           ELSE prog' = prog /\ pcw' = pcw + 1
              [] op[1] = "rename" -> /\ FsRename(op[2], op[3]) /\ prog' = Tail(prog) /\ pcw' = 0
         /\ done' = (prog' = <<>>)
         /\ UNCHANGED <<full, finals, vnew>>
DSpec == DInit /\ [][DStep]_vars

\* what the reader returns in the current (crash) state
ConfigNames == {n \in Names : Present(n) /\ n # "meta" /\ n # "tmp"}   \* names matching the cache-file pattern
NewestName(S) == CHOOSE n \in S : \A m \in S : Rank(m) <= Rank(n)
ReadResult ==
    IF Reader = "newest"
    THEN IF ConfigNames = {} THEN 0
         ELSE IF Complete(NewestName(ConfigNames)) THEN files[NewestName(ConfigNames)].ver ELSE 0
    ELSE LET ok == {n \in ConfigNames : Complete(n)} IN
         IF ok = {} THEN 0 ELSE files[NewestName(ok)].ver
ReadIsValidated == ReadOK(ReadResult)

(* ---- design-level model 2: a HISTORY of updates with crashes, restarts and cache cleanup ------
   After a crash the next start fetches the next version into whatever the crash left behind;
   a completed save is followed by the cleanup of cleanupOldVersions: unlink the oldest
   cache files (partial ones count as files!) until at most CacheSize remain.               *)
CONSTANT CacheSize
Programme2(v) == Programme(v) \o << <<"cleanup">> >>
D2Init == /\ full = [v \in 1..MaxVer |-> 2]
          /\ files = [n \in Names |-> Absent]
          /\ vnew = 1 /\ finals = {FinalName(v) : v \in 1..MaxVer}
          /\ prog = Programme2(1) /\ done = FALSE /\ pcw = 0
OldestName(S) == CHOOSE n \in S : \A m \in S : Rank(n) <= Rank(m)
D2Step == /\ prog # <<>>
          /\ LET op == Head(prog) IN
             IF op[1] = "cleanup"
             THEN IF Cardinality(ConfigNames) > CacheSize
                  THEN /\ FsUnlink(OldestName(ConfigNames)) /\ UNCHANGED <<prog, pcw>>
                  ELSE /\ prog' = Tail(prog) /\ UNCHANGED <<files, pcw>>
             ELSE CASE op[1] = "create" -> /\ FsCreate(op[2], TRUE) /\ prog' = Tail(prog) /\ pcw' = 0
                    [] op[1] = "write"  -> LET total == IF op[3] = 0 THEN 1 ELSE full[op[3]] IN
                                           /\ FsWrite(op[2], op[3], pcw, 1)
                                           /\ IF pcw + 1 = total THEN prog' = Tail(prog) /\ pcw' = 0
                                                                 ELSE prog' = prog /\ pcw' = pcw + 1
                    [] op[1] = "rename" -> /\ FsRename(op[2], op[3]) /\ prog' = Tail(prog) /\ pcw' = 0
          /\ done' = (prog' = <<>>)
          /\ UNCHANGED <<full, finals, vnew>>
\* the process stops anywhere (also mid-programme); the next start fetches the next version
D2CrashRestart == /\ vnew < MaxVer
                  /\ vnew' = vnew + 1 /\ prog' = Programme2(vnew + 1) /\ pcw' = 0 /\ done' = FALSE
                  /\ UNCHANGED <<files, full, finals>>
D2Spec == D2Init /\ [][D2Step \/ D2CrashRestart]_vars
=============================================================================
