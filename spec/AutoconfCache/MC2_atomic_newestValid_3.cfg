SPECIFICATION D2Spec
CONSTANTS Names = {"f1", "f2", "f3", "f4", "tmp", "meta"}
          MaxVer = 4
          Writer = "atomic"
          CacheSize = 3
          Reader = "newestValid"
          Cleanup = "after"
          MetaOrder = "after"
          MetaNames = {"meta", "etag"}
          EtagName = "etag"
          LMName = "lm"
INVARIANTS ReadIsValidated
CHECK_DEADLOCK FALSE
