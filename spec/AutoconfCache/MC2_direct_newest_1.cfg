SPECIFICATION D2Spec
CONSTANTS Names = {"f1", "f2", "f3", "f4", "tmp", "meta"}
          MaxVer = 4
          Writer = "direct"
          CacheSize = 1
          Reader = "newest"
          Cleanup = "after"
          MetaOrder = "after"
          MetaNames = {"meta", "etag"}
          EtagName = "etag"
          LMName = "lm"
INVARIANTS ReadIsValidated
CHECK_DEADLOCK FALSE
