SPECIFICATION D3Spec
CONSTANTS Names = {"f1", "f2", "f3", "f4", "tmp", "meta", "etag"}
          MaxVer = 3
          Writer = "direct"
          CacheSize = 3
          Reader = "newestValid"
          Cleanup = "after"
          MetaOrder = "after"
          MetaNames = {"meta", "etag"}
          EtagName = "etag"
          LMName = "lm"
INVARIANTS ReadIsValidated RefreshedIsNew
CHECK_DEADLOCK FALSE
