SPECIFICATION TSpec
CONSTANTS Names = {"x"}
          MaxVer = 8
          Writer = "direct"
          CacheSize = 3
          Reader = "newest"
          Cleanup = "after"
CONSTRAINT TraceConstraint
POSTCONDITION TracePost
CHECK_DEADLOCK FALSE
