SPECIFICATION TSpec
CONSTANTS Names = {"x"}
          MaxVer = 8
          Writer = "direct"
          Reader = "newest"
CONSTRAINT TraceConstraint
POSTCONDITION TracePost
CHECK_DEADLOCK FALSE
