SPECIFICATION TSpec
CONSTANTS Names = {"x"}
          MaxVer = 8
          Writer = "direct"
          CacheSize = 3
          Reader = "newest"
          Cleanup = "after"
          MetaOrder = "after"
          MetaNames = {".etag", ".last-modified", ".last-refresh"}
          EtagName = ".etag"
          LMName = ".last-modified"
          ValFull <- TValFull
CONSTRAINT TraceConstraint
POSTCONDITION TracePost
CHECK_DEADLOCK FALSE
