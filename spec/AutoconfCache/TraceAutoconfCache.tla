------------------------- MODULE TraceAutoconfCache -------------------------
(* Phase T for C45.  The trace is produced by the crash-point enumeration on the real code:
     Reset     : directory before the update (files, payload lengths, final names, version being fetched;
                 cs = the configured cache size, 0 = default -- informational: the property is the same
                 for every cache size).  base := the validated versions on disk at this moment.
     Create/Write/Rename/Unlink : the write programme of the real update, as recorded by strace
     CrashRead : the result of a real GetCached() on the directory materialised at a crash point:
                 before the next step, or inside the next write after `plen` of its bytes
     RefreshRead : (follows the CrashRead of the same crash point) the result of a real GetCached() after
                 a restarted client ran a real refresh (GetLatest) on that crash state against a server that
                 still serves vnew, answers 304 to the matching validator (If-None-Match, else
                 If-Modified-Since) and 200 with the same payload otherwise
     Done      : the programme completed
   Metadata files: the Reset/Write events classify the content of the validator files (EtagName, LMName)
   by the version whose validator it is a prefix of; Trace[1].elen / .llen are the lengths of complete ones.
   The spec keeps its OWN image of the directory from the programme events and evaluates
   ReadOK on it at every CrashRead.                                                          *)
EXTENDS AutoconfCache, Json

Trace == ndJsonDeserialize("trace.ndjson")
VARIABLE l
tvars == <<vars, l>>
ASSUME TLCSet(1, 0)
Ev == Trace[l]
IsEvent(e) == l <= Len(Trace) /\ Trace[l].ev = e /\ l' = l + 1
ToSet(s) == {s[i] : i \in 1..Len(s)}

\* substituted for ValFull in the cfg: real lengths of complete validators
TValFull(n, v) == IF n = EtagName THEN Trace[1].elen ELSE Trace[1].llen

TInit == /\ l = 1 /\ files = [n \in {} |-> Absent] /\ full = <<>> /\ finals = {} /\ vnew = 0
         /\ done = FALSE /\ base = {} /\ prog = <<>> /\ pcw = 0 /\ slot = 0 /\ refr = "save"

TReset == /\ IsEvent("Reset")
          /\ full' = Ev.full /\ finals' = ToSet(Ev.finals) /\ vnew' = Ev.vnew /\ done' = FALSE
          /\ files' = [n \in ToSet(Ev.names) |->
                         IF \E i \in 1..Len(Ev.files) : Ev.files[i][1] = n
                         THEN LET i == CHOOSE i \in 1..Len(Ev.files) : Ev.files[i][1] = n
                              IN [ver |-> Ev.files[i][2], len |-> Ev.files[i][3]]
                         ELSE Absent]
          /\ base' = ValidOnDiskIn(files)'      \* evaluated on the new directory, payload lengths and final names
          /\ UNCHANGED <<prog, pcw, slot, refr>>
Frame == UNCHANGED <<full, finals, vnew, done, base, prog, pcw, slot, refr>>
TCreate == IsEvent("Create") /\ ~done /\ FsCreate(Ev.name, Ev.trunc) /\ Frame
TWrite  == IsEvent("Write") /\ ~done /\ FsWrite(Ev.name, Ev.ver, Ev.off, Ev.n) /\ Frame
TRename == IsEvent("Rename") /\ ~done /\ FsRename(Ev.a, Ev.b) /\ Frame
TUnlink == IsEvent("Unlink") /\ ~done /\ FsUnlink(Ev.name) /\ Frame
TDone   == IsEvent("Done") /\ done' = TRUE /\ UNCHANGED <<files, full, finals, vnew, base, prog, pcw, slot, refr>>
\* crash state = current image, with the file of the write in progress cut at plen bytes
CrashImage == IF Ev.pname = "" THEN files
              ELSE [files EXCEPT ![Ev.pname] = [ver |-> IF Ev.plen = 0 THEN @.ver ELSE Ev.pver, len |-> Ev.plen]]
TCrashRead == /\ IsEvent("CrashRead")
              /\ (IF Ev.pname = "" THEN TRUE ELSE (Present(Ev.pname) /\ Ev.plen >= files[Ev.pname].len))
              /\ ReadOKIn(CrashImage, Ev.result)
              /\ (IF done THEN Ev.result = vnew ELSE TRUE)
              /\ UNCHANGED vars
\* crash + restart + refresh against the unchanged server + cached read
TRefreshRead == /\ IsEvent("RefreshRead")
                /\ (IF Ev.pname = "" THEN TRUE ELSE (Present(Ev.pname) /\ Ev.plen >= files[Ev.pname].len))
                /\ RefreshReadOKIn(CrashImage, Ev.result)
                /\ UNCHANGED vars

TNext == TReset \/ TCreate \/ TWrite \/ TRename \/ TUnlink \/ TDone \/ TCrashRead \/ TRefreshRead
TSpec == TInit /\ [][TNext]_tvars

\* after Done the new version must be what a cached read returns
TraceConstraint == TLCSet(1, IF l - 1 > TLCGet(1) THEN l - 1 ELSE TLCGet(1))
TracePost == PrintT(<<"TRACE_HWM", TLCGet(1)>>)
=============================================================================
