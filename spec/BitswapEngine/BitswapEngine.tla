---------------------------- MODULE BitswapEngine ----------------------------
(* C36 -- the bitswap server decision engine (bitswap/server/internal/decision):
   want intake (MessageReceived: splitWantsCancelsDenials, ClearPeerWantlist, filterOverflow,
   handleOverflow, cancels, task creation, PushTasksTruncated), NotifyNewBlocks, block removal and
   envelope construction (nextEnvelope + MessageSent), at the grain of one engine call per action.
   An envelope is delivered in TWO calls: nextEnvelope pops the peer's tasks (they become ACTIVE in the peer
   task queue) and builds the message (NextEnv); later the server calls MessageSent + Envelope.Sent
   (MsgSent: the answered wants leave the ledger, the active tasks are done).  Messages, block arrivals and
   removals may fall into the window between the two; `hold` is the envelope in flight.  A task pushed for
   a CID with an active task is dropped unless it carries new information (taskMerger.HasNewInfo);
   MessageSent judges every sent HAVE against the ledger entry AS IT IS THEN: a want-have that was upgraded
   to want-block in the window stays on the want-list (its block task is queued and still owed).

   Model values
     Peers = 1..NP, Cids = 1..NC.  cfg.ignored \subseteq Cids are the identity / oversize CIDs (dropped at
     intake).  cfg.big \subseteq Cids are blocks larger than wantHaveReplaceSize (when replacing is enabled).
     A ledger entry is [prio, wt] with wt \in {"B","H"}; NoE marks "no entry".
     A queued task is [prio, have, wb, sdh] (peertask priority, taskData.HaveBlock / IsWantBlock /
     SendDontHave); NoT marks "no task".  Block sizes are > 0 (an empty block is outside the model).

   The specification describes the IDEAL behaviour demanded by the property.  Every place where the
   code as built does something else is a NAMED DEVIATION: the result operators take the set D of
   deviations applied in the step and then describe exactly what the code does instead.
     Dev_C36_OverflowSortDesc   handleOverflow sorts the existing wants most-important-first, so the
                                HIGHEST-priority existing wants are evicted/compared first
     Dev_C36_FullKeepsStale     a full wantlist only unlinks the peer from the per-CID index: the old
                                entries stay in the per-peer map (WantlistForPeer, limit accounting,
                                eviction candidates) and their queued tasks stay queued
     Dev_C36_EvictedTask        a want of the message that was admitted by filterOverflow and then
                                evicted by handleOverflow of the same message still gets a task
     Dev_C36_QueueTruncation    PushTasksTruncated cuts the pushed tasks to limit - |pending| BEFORE
                                merging, dropping tasks of accepted wants and block notifications
     Dev_C36_StaleHave          nextEnvelope sends HAVE from the queued task without re-reading the
                                blockstore (blocks are re-read)
     Dev_C36_ActiveTaskHidesBlock  a task pushed while a task of the same CID is active (its envelope is between
                                nextEnvelope and Sent) is dropped whenever taskMerger.HasNewInfo says so, also when
                                that envelope does NOT carry the block (it was missing when the envelope was built and
                                has been stored again since): the want stays on the list without a task
     Dev_C36_SentHaveDropsOwedBlock  MessageSent for a HAVE takes a want-have off the list although a BLOCK task is
                                still queued for it (the peer asked want-block and then want-have again inside the
                                window): the block goes out for a CID that is no longer listed, a cancel cannot stop it *)
EXTENDS Integers, Sequences, FiniteSets, TLC, Json, SequencesExt

CONSTANTS NP, NC, MaxPrio, Devs

Peers == 1..NP
Cids  == 1..NC

AllDevs  == {"Dev_C36_OverflowSortDesc", "Dev_C36_FullKeepsStale", "Dev_C36_EvictedTask",
             "Dev_C36_QueueTruncation", "Dev_C36_StaleHave", "Dev_C36_ActiveTaskHidesBlock",
             "Dev_C36_SentHaveDropsOwedBlock"}
SentDevs == {"Dev_C36_SentHaveDropsOwedBlock"}
RecvDevs == {"Dev_C36_OverflowSortDesc", "Dev_C36_FullKeepsStale", "Dev_C36_EvictedTask",
             "Dev_C36_QueueTruncation", "Dev_C36_ActiveTaskHidesBlock"}
AddDevs  == {"Dev_C36_QueueTruncation", "Dev_C36_ActiveTaskHidesBlock"}
EnvDevs  == {"Dev_C36_StaleHave"}

VARIABLES cfg,     \* [limit, replace, sdh, deny, ignored, big]  (deny \in [Peers -> SUBSET Cids]: request filter)
          bs,      \* set of CIDs in the blockstore
          ledger,  \* [Peers -> [Cids -> entry]]   the peer's want-list (both indexes agree)
          ghost,   \* [Peers -> [Cids -> entry]]   entries only in the per-peer map (Dev_C36_FullKeepsStale)
          q,       \* [Peers -> [Cids -> task]]    pending tasks of the peer task queue
          out,     \* last envelope (+ what justified it)
          ov,      \* last overflow episode (for EvictionOrder)
          dev,     \* deviations used so far
          hold     \* the envelope between nextEnvelope and MessageSent/Sent: [p, T (its active tasks), blocks, haves]
vars == <<cfg, bs, ledger, ghost, q, out, ov, dev, hold>>

NoE == [prio |-> -1, wt |-> "-"]
NoT == [prio |-> -1, have |-> FALSE, wb |-> FALSE, sdh |-> FALSE]
EmptyL == [c \in Cids |-> NoE]
EmptyQ == [c \in Cids |-> NoT]
Dom(L)  == {c \in Cids : L[c] # NoE}
QDom(Q) == {c \in Cids : Q[c] # NoT}
NoRaw == [c |-> 0, prio |-> -1, wt |-> "-", cancel |-> FALSE, sdh |-> FALSE]
NoOut == [p |-> 0, blocks |-> {}, haves |-> {}, dhs |-> {}, wanted |-> {}, asked |-> {}]
NoHold == [p |-> 0, T |-> EmptyQ, blocks |-> {}, haves |-> {}]
\* the active tasks of peer p (popped, not yet done) with what their envelope carries; hides: as-built rule
Act(p, D) == IF hold.p = p THEN [T |-> hold.T, blocks |-> hold.blocks, haves |-> hold.haves,
                                 hides |-> "Dev_C36_ActiveTaskHidesBlock" \in D]
             ELSE [T |-> EmptyQ, blocks |-> {}, haves |-> {}, hides |-> FALSE]
NoOv  == [on |-> FALSE, E |-> {}, A |-> {}, O |-> {}, X |-> {}, Y |-> {}, pri |-> [c \in Cids |-> 0]]

Min2(a, b) == IF a < b THEN a ELSE b
Max2(a, b) == IF a > b THEN a ELSE b
Denied(p, c) == c \in cfg.deny[p]
\* WantlistForPeer: the per-peer map = consistent entries + stale ones
View(p) == [c \in Cids |-> IF ledger[p][c] # NoE THEN ledger[p][c] ELSE ghost[p][c]]
\* sendAsBlock: want-block, or want-have of a block small enough to be sent right away
WB(wt, c) == wt = "B" \/ (cfg.replace /\ c \notin cfg.big)

(* ---- the wantlist of a message: bsmsg.addEntry merges duplicate CIDs ------------------------ *)
\* raw entry = [c, prio, wt, cancel, sdh]
MergeOne(e, n) == [c      |-> e.c,
                   prio   |-> IF e.wt = n.wt THEN n.prio ELSE e.prio,
                   wt     |-> IF n.wt = "B" THEN "B" ELSE e.wt,
                   cancel |-> e.cancel \/ n.cancel,
                   sdh    |-> e.sdh \/ n.sdh]
RECURSIVE MergeInto(_, _)
MergeInto(acc, es) ==
  IF es = <<>> THEN acc
  ELSE LET n   == Head(es)
           idx == {i \in 1..Len(acc) : acc[i].c = n.c}
       IN IF idx = {} THEN MergeInto(Append(acc, n), Tail(es))
          ELSE LET i == CHOOSE j \in idx : TRUE
               IN MergeInto([acc EXCEPT ![i] = MergeOne(acc[i], n)], Tail(es))

(* ---- priority orders ------------------------------------------------------------------------ *)
AscSeq(S, pri)  == SetToSortSeq(S, LAMBDA a, b : pri[a] < pri[b] \/ (pri[a] = pri[b] /\ a < b))
DescSeq(S, pri) == SetToSortSeq(S, LAMBDA a, b : pri[a] > pri[b] \/ (pri[a] = pri[b] /\ a < b))
LowClosed(Xs, S, pri)  == \A x \in Xs, y \in S \ Xs : pri[x] <= pri[y]
HighClosed(Xs, S, pri) == \A x \in Xs, y \in S \ Xs : pri[x] >= pri[y]
\* longest prefix in which the i-th newcomer is at least as important as the i-th candidate
PrefixLen(os, es, pri) ==
  LET n == Min2(Len(os), Len(es))
  IN IF n = 0 THEN 0
     ELSE LET bad == {i \in 1..n : pri[os[i]] < pri[es[i]]}
          IN IF bad = {} THEN n ELSE (CHOOSE i \in bad : \A j \in bad : i <= j) - 1

(* ---- task merging (peertracker.PushTasksTruncated + taskMerger.Merge, no active tasks) ------- *)
MergeTask(ex, n) ==
  LET h1 == ex.have \/ n.have
      up == ~ex.wb /\ n.wb
      h2 == IF up /\ (~h1 \/ n.have) THEN n.have ELSE h1
  IN [prio |-> Max2(ex.prio, n.prio), have |-> h2, wb |-> ex.wb \/ n.wb, sdh |-> ex.sdh]
\* peertracker.taskHasMoreInfoThanActiveTasks + taskMerger.HasNewInfo: a (the active task of the topic, NoT: none)
\* already answers t unless t is the first want-block or the first task that knows the block
NewInfo(t, a) == a = NoT \/ (~a.wb /\ t.wb) \/ (~a.have /\ t.have)
\* the new task t for c is dropped in favour of the active one.  Ideal: only if the envelope in flight really answers
\* it (t announces no block, or the envelope carries the block / the HAVE that t would produce)
Skip(A, c, t) == /\ ~NewInfo(t, A.T[c])
                 /\ (A.hides \/ ~t.have \/ c \in A.blocks \/ (c \in A.haves /\ ~t.wb))
\* ideal admission: a task of a current want is always queued/merged; any other task (DONT_HAVE for a
\* denied CID) only while the queue is below the limit.  A: the peer's active tasks
PushOne(Q, L, A, c, t) ==
  IF Skip(A, c, t) THEN Q
  ELSE IF Q[c] # NoT THEN [Q EXCEPT ![c] = MergeTask(Q[c], t)]
  ELSE IF L[c] # NoE \/ Cardinality(QDom(Q)) < cfg.limit THEN [Q EXCEPT ![c] = t]
  ELSE Q
\* as built: no admission test after the cut
PushOneRaw(Q, A, c, t) == IF Skip(A, c, t) THEN Q
                          ELSE IF Q[c] # NoT THEN [Q EXCEPT ![c] = MergeTask(Q[c], t)] ELSE [Q EXCEPT ![c] = t]
RECURSIVE PushSeq(_, _, _, _, _)
PushSeq(Q, L, A, ts, raw) ==      \* ts: sequence of <<c, task>>
  IF ts = <<>> THEN Q
  ELSE PushSeq(IF raw THEN PushOneRaw(Q, A, Head(ts)[1], Head(ts)[2]) ELSE PushOne(Q, L, A, Head(ts)[1], Head(ts)[2]),
               L, A, Tail(ts), raw)

(* ---- MessageReceived, stage 1: split, (clear), filterOverflow --------------------------------- *)
RECURSIVE FilterFold(_, _, _, _, _)
FilterFold(L, G, ws, acc, over) ==
  IF ws = <<>> THEN [L |-> L, G |-> G, acc |-> acc, over |-> over]
  ELSE LET w     == Head(ws)
           n     == Cardinality(Dom(L)) + Cardinality(Dom(G))
           known == L[w.c] # NoE \/ G[w.c] # NoE
       IN IF n >= cfg.limit /\ ~known
          THEN FilterFold(L, G, Tail(ws), acc, Append(over, w))
          ELSE FilterFold([L EXCEPT ![w.c] = [prio |-> w.prio, wt |-> w.wt]], [G EXCEPT ![w.c] = NoE],
                          Tail(ws), Append(acc, w), over)

SeqToSet(s) == ToSet(s)

Stage1(D, p, full, ents) ==      \* ents: merged wantlist of the message (unique CIDs, engine order)
  LET elig     == SelectSeq(ents, LAMBDA e : e.c \notin cfg.ignored)
      cancels  == {e.c : e \in {x \in SeqToSet(elig) : x.cancel}}
      denials  == SelectSeq(elig, LAMBDA e : ~e.cancel /\ Denied(p, e.c))
      wantsAll == SelectSeq(elig, LAMBDA e : ~e.cancel /\ ~Denied(p, e.c))
      wants    == SubSeq(wantsAll, 1, Min2(cfg.limit, Len(wantsAll)))
      stale    == "Dev_C36_FullKeepsStale" \in D
      old      == Dom(ledger[p]) \cup Dom(ghost[p])
      L0 == IF full THEN EmptyL ELSE ledger[p]
      G0 == IF ~full THEN ghost[p]
            ELSE IF stale THEN [c \in Cids |-> View(p)[c]] ELSE EmptyL
      Q0 == IF full /\ ~stale THEN [c \in Cids |-> IF c \in old THEN NoT ELSE q[p][c]] ELSE q[p]
      F  == FilterFold(L0, G0, wants, <<>>, <<>>)
      oent == [c \in Cids |-> IF \E i \in 1..Len(F.over) : F.over[i].c = c
                              THEN F.over[CHOOSE i \in 1..Len(F.over) : F.over[i].c = c] ELSE NoRaw]
      O  == {F.over[i].c : i \in 1..Len(F.over)}
      E  == Dom(F.L) \cup Dom(F.G)
      pri == [c \in Cids |-> IF c \in O THEN oent[c].prio
                             ELSE IF F.L[c] # NoE THEN F.L[c].prio ELSE F.G[c].prio]
      A  == {c \in E : c \notin bs}
      P  == E \ A
      desc == "Dev_C36_OverflowSortDesc" \in D
      k  == Min2(Cardinality(A), Cardinality(O))
      Os == DescSeq(O, pri)
      Orest == SubSeq(Os, k + 1, Len(Os))
      Ps == IF desc THEN DescSeq(P, pri) ELSE AscSeq(P, pri)
      m  == IF Cardinality(O) <= Cardinality(A) THEN 0 ELSE PrefixLen(Orest, Ps, pri)
  IN [p |-> p, cancels |-> cancels, denials |-> denials, L |-> F.L, G |-> F.G, Q |-> Q0, acc |-> F.acc,
      oent |-> oent, O |-> O, E |-> E, A |-> A, P |-> P, pri |-> pri, desc |-> desc, k |-> k, m |-> m]

\* which existing wants X are evicted and which overflow wants Y are admitted (ties are free)
ValidXY(s, X, Y) ==
  /\ X \subseteq s.E /\ Y \subseteq s.O
  /\ Cardinality(X \cap s.A) = s.k /\ Cardinality(X \cap s.P) = s.m
  /\ Cardinality(Y) = s.k + s.m
  /\ HighClosed(Y, s.O, s.pri)
  /\ IF s.desc THEN HighClosed(X \cap s.A, s.A, s.pri) /\ HighClosed(X \cap s.P, s.P, s.pri)
               ELSE LowClosed(X \cap s.A, s.A, s.pri) /\ LowClosed(X \cap s.P, s.P, s.pri)

(* ---- stage 2: apply eviction + cancels, build the task list ----------------------------------- *)
TaskOf(e) ==   \* e: wantlist entry of the message; <<>> when no task is created
  IF e.c \in bs THEN <<[prio |-> e.prio, have |-> TRUE, wb |-> WB(e.wt, e.c), sdh |-> e.sdh]>>
  ELSE IF cfg.sdh /\ e.sdh THEN <<[prio |-> e.prio, have |-> FALSE, wb |-> e.wt = "B", sdh |-> TRUE]>>
  ELSE <<>>
DenialTaskOf(e) ==
  IF cfg.sdh /\ e.sdh THEN <<[prio |-> e.prio, have |-> FALSE, wb |-> e.wt = "B", sdh |-> TRUE]>> ELSE <<>>
RECURSIVE TaskSeq(_, _)
TaskSeq(es, denial) ==
  IF es = <<>> THEN <<>>
  ELSE LET t == IF denial THEN DenialTaskOf(Head(es)) ELSE TaskOf(Head(es))
       IN (IF t = <<>> THEN <<>> ELSE << <<Head(es).c, t[1]>> >>) \o TaskSeq(Tail(es), denial)

Stage2(D, s, X, Y) ==
  LET L1 == [c \in Cids |-> IF c \in X THEN NoE
                            ELSE IF c \in Y THEN [prio |-> s.oent[c].prio, wt |-> s.oent[c].wt] ELSE s.L[c]]
      G1 == [c \in Cids |-> IF c \in X THEN NoE ELSE s.G[c]]
      Q1 == [c \in Cids |-> IF c \in X THEN NoT ELSE s.Q[c]]
      had == {c \in s.cancels : L1[c] # NoE \/ G1[c] # NoE}
      L2 == [c \in Cids |-> IF c \in had THEN NoE ELSE L1[c]]
      G2 == [c \in Cids |-> IF c \in had THEN NoE ELSE G1[c]]
      Q2 == [c \in Cids |-> IF c \in had THEN NoT ELSE Q1[c]]
      accT == IF "Dev_C36_EvictedTask" \in D THEN s.acc ELSE SelectSeq(s.acc, LAMBDA e : e.c \notin X)
      head == TaskSeq(s.denials, TRUE) \o TaskSeq(accT, FALSE)
      YT   == {c \in Y : TaskOf(s.oent[c]) # <<>>}
      trunc == "Dev_C36_QueueTruncation" \in D
      l     == Cardinality(QDom(Q2))
      total == Len(head) + Cardinality(YT)
      cut   == trunc /\ l + total > cfg.limit
      avail == Max2(0, cfg.limit - l)
      nh    == IF cut THEN Min2(Len(head), avail) ELSE Len(head)
      r     == IF cut THEN Min2(Cardinality(YT), Max2(0, avail - Len(head))) ELSE Cardinality(YT)
  IN [L |-> L2, G |-> G2, Q |-> Q2, head |-> SubSeq(head, 1, nh), YT |-> YT, r |-> r, raw |-> trunc,
      oent |-> s.oent, pri |-> s.pri, A |-> Act(s.p, D),
      ov |-> IF s.O = {} THEN NoOv
             ELSE [on |-> TRUE, E |-> s.E, A |-> s.A, O |-> s.O, X |-> X, Y |-> Y, pri |-> s.pri]]

ValidZ(t, Z) == Z \subseteq t.YT /\ Cardinality(Z) = t.r /\ HighClosed(Z, t.YT, t.pri)

Stage3(t, Z) ==
  LET ZT == Z \cap t.YT      \* (ValidZ demands Z \subseteq YT; total anyway)
      zs == [i \in 1..Cardinality(ZT) |-> LET c == AscSeq(ZT, t.pri)[i] IN <<c, TaskOf(t.oent[c])[1]>>]
  IN [L |-> t.L, G |-> t.G, Q |-> PushSeq(t.Q, t.L, t.A, t.head \o zs, t.raw), ov |-> t.ov]

(* ---- NotifyNewBlocks (after the block was stored) and envelope construction ------------------- *)
AddRes(D, c) ==
  [p \in Peers |->
     IF ledger[p][c] = NoE THEN q[p]
     ELSE LET t == [prio |-> ledger[p][c].prio, have |-> TRUE, wb |-> WB(ledger[p][c].wt, c), sdh |-> FALSE]
          IN IF "Dev_C36_QueueTruncation" \in D
             THEN (IF Cardinality(QDom(q[p])) + 1 > cfg.limit THEN q[p] ELSE PushOneRaw(q[p], Act(p, D), c, t))
             ELSE PushOne(q[p], ledger[p], Act(p, D), c, t)]

EnvRes(D, p) ==
  LET T == QDom(q[p])
      stale  == "Dev_C36_StaleHave" \in D
      blocks == {c \in T : q[p][c].have /\ q[p][c].wb /\ c \in bs}
      haves  == {c \in T : q[p][c].have /\ ~q[p][c].wb /\ (stale \/ c \in bs)}
      dhs    == {c \in T : ~q[p][c].have}
                \cup {c \in T : q[p][c].have /\ c \notin bs /\ q[p][c].sdh /\ (q[p][c].wb \/ ~stale)}
      gone   == blocks \cup {c \in haves : View(p)[c].wt = "H"}     \* MessageSent
  IN [blocks |-> blocks, haves |-> haves, dhs |-> dhs,
      L |-> [c \in Cids |-> IF c \in gone THEN NoE ELSE ledger[p][c]],
      G |-> [c \in Cids |-> IF c \in gone THEN NoE ELSE ghost[p][c]],
      out |-> [p |-> p, blocks |-> blocks, haves |-> haves, dhs |-> dhs, wanted |-> Dom(ledger[p]),
               asked |-> {c \in T : q[p][c].sdh}]]

(* ---- actions ---------------------------------------------------------------------------------- *)
\* A deviation is recorded (variable dev) only when it changes the result of the step.
\* RecvResult: the result of the message under deviations D with tie choices X, Y, Z, or "none"
RecvResult(D, p, full, ents, X, Y, Z) ==
  LET s == Stage1(D, p, full, ents)
  IN IF ~ValidXY(s, X, Y) THEN <<"none">>
     ELSE LET t == Stage2(D, s, X, Y)
          IN IF ~ValidZ(t, Z) THEN <<"none">> ELSE <<"ok", Stage3(t, Z)>>
\* (deviations already recorded are not examined again)
EffRecv(D, p, full, ents, X, Y, Z, r) ==
  IF D \subseteq dev \/ RecvResult({}, p, full, ents, X, Y, Z) = <<"ok", r>> THEN {}
  ELSE {d \in D \ dev : RecvResult(D \ {d}, p, full, ents, X, Y, Z) # <<"ok", r>>}

ReceiveCore(D, p, full, ents, s, t, X, Y, Z) ==
  /\ ValidZ(t, Z)
  /\ LET r == Stage3(t, Z)
     IN /\ ledger' = [ledger EXCEPT ![p] = r.L]
        /\ ghost'  = [ghost EXCEPT ![p] = r.G]
        /\ q'      = [q EXCEPT ![p] = r.Q]
        /\ ov'     = r.ov
        /\ dev'    = dev \cup EffRecv(D, p, full, ents, X, Y, Z, r)
        /\ out'    = NoOut
        /\ UNCHANGED <<cfg, bs, hold>>
\* X: evicted existing wants, Y: admitted overflow wants, Z: admitted overflow wants whose task survived
Receive(D, p, full, ents, X, Y, Z) ==
  LET s == Stage1(D, p, full, ents)
  IN /\ ValidXY(s, X, Y)
     /\ ReceiveCore(D, p, full, ents, s, Stage2(D, s, X, Y), X, Y, Z)

AddBlock(D, c) ==
  /\ bs' = bs \cup {c}
  /\ LET r == AddRes(D, c)
     IN /\ q' = r
        /\ dev' = dev \cup (IF D \subseteq dev \/ AddRes({}, c) = r THEN {} ELSE {d \in D \ dev : AddRes(D \ {d}, c) # r})
  /\ out' = NoOut /\ ov' = NoOv
  /\ UNCHANGED <<cfg, ledger, ghost, hold>>

RemoveBlock(c) ==
  /\ bs' = bs \ {c}
  /\ out' = NoOut /\ ov' = NoOv
  /\ UNCHANGED <<cfg, ledger, ghost, q, dev, hold>>

\* nextEnvelope: pop the peer's tasks, build the message; the ledger is not touched.  An empty message is dropped
\* at once (TasksDone), otherwise the popped tasks stay active until MsgSent
NextEnv(D, p) ==
  /\ hold.p = 0 /\ QDom(q[p]) # {}
  /\ LET r == EnvRes(D, p)
     IN /\ out' = r.out
        /\ hold' = IF r.blocks \cup r.haves \cup r.dhs = {} THEN NoHold
                   ELSE [p |-> p, T |-> q[p], blocks |-> r.blocks, haves |-> r.haves]
        /\ dev' = dev \cup (IF D \subseteq dev \/ EnvRes({}, p) = r THEN {}
                            ELSE {d \in D \ dev : LET r2 == EnvRes(D \ {d}, p)
                                                  IN <<r2.blocks, r2.haves, r2.dhs>> # <<r.blocks, r.haves, r.dhs>>})
  /\ q' = [q EXCEPT ![p] = EmptyQ]
  /\ ov' = NoOv
  /\ UNCHANGED <<cfg, bs, ledger, ghost>>
\* Engine.MessageSent + Envelope.Sent for the envelope in flight: every sent block takes its want off the list, a
\* sent HAVE only a want that is (still / again) a want-have NOW; the active tasks are done
\* (ideal: a HAVE does not settle a want for which a block task is still queued)
SentGone(D) == hold.blocks \cup {c \in hold.haves : /\ View(hold.p)[c].wt = "H"
                                                    /\ \/ "Dev_C36_SentHaveDropsOwedBlock" \in D
                                                       \/ ~(q[hold.p][c] # NoT /\ q[hold.p][c].wb)}
MsgSent(D) ==
  /\ hold.p # 0
  /\ ledger' = [ledger EXCEPT ![hold.p] = [c \in Cids |-> IF c \in SentGone(D) THEN NoE ELSE ledger[hold.p][c]]]
  /\ ghost'  = [ghost EXCEPT ![hold.p] = [c \in Cids |-> IF c \in SentGone(D) THEN NoE ELSE ghost[hold.p][c]]]
  /\ dev' = dev \cup (IF SentGone(D) = SentGone({}) THEN {} ELSE D \cap SentDevs)
  /\ hold' = NoHold /\ out' = NoOut /\ ov' = NoOv
  /\ UNCHANGED <<cfg, bs, q>>

\* both calls back to back (nothing falls into the window)
Envelope(D, p) ==
  /\ hold.p = 0
  /\ QDom(q[p]) # {}
  /\ LET r == EnvRes(D, p)
     IN /\ ledger' = [ledger EXCEPT ![p] = r.L]
        /\ ghost'  = [ghost EXCEPT ![p] = r.G]
        /\ out'    = r.out
        /\ dev' = dev \cup (IF D \subseteq dev \/ EnvRes({}, p) = r THEN {} ELSE {d \in D \ dev : EnvRes(D \ {d}, p) # r})
  /\ q' = [q EXCEPT ![p] = EmptyQ]
  /\ ov' = NoOv
  /\ UNCHANGED <<cfg, bs, hold>>

(* ---- model-checking universe ------------------------------------------------------------------- *)
CONSTANTS Cfgs,      \* set of configurations explored by Init
          Msgs       \* set of (merged) wantlists a peer may send
Prios == 0..MaxPrio

Init == /\ cfg \in Cfgs
        /\ bs \in SUBSET Cids
        /\ ledger = [p \in Peers |-> EmptyL] /\ ghost = [p \in Peers |-> EmptyL]
        /\ q = [p \in Peers |-> EmptyQ]
        /\ out = NoOut /\ ov = NoOv /\ dev = {} /\ hold = NoHold

\* all admissible tie choices of one message
ReceiveEx(D, p, full, ents) ==
  LET s == Stage1(D, p, full, ents)
  IN \E X \in SUBSET s.E, Y \in SUBSET s.O :
        /\ ValidXY(s, X, Y)
        /\ LET t == Stage2(D, s, X, Y)
           IN \E Z \in SUBSET t.YT : ReceiveCore(D, p, full, ents, s, t, X, Y, Z)
ReceiveAny == \E p \in Peers, full \in BOOLEAN, ents \in Msgs, D \in SUBSET (Devs \cap RecvDevs) :
                ReceiveEx(D, p, full, ents)
AddAny     == \E c \in Cids, D \in SUBSET (Devs \cap AddDevs) : AddBlock(D, c)
RemoveAny  == \E c \in Cids : RemoveBlock(c)
EnvelopeOf(p) == \E D \in SUBSET (Devs \cap EnvDevs) : Envelope(D, p)
NextEnvOf(p)  == \E D \in SUBSET (Devs \cap EnvDevs) : NextEnv(D, p)
\* (Envelope(D, p) = NextEnv(D, p) ; MsgSent({}) with nothing in between: covered by the two halves)
MsgSentAny == \E D \in SUBSET (Devs \cap SentDevs) : MsgSent(D)
Next == ReceiveAny \/ AddAny \/ RemoveAny \/ (\E p \in Peers : NextEnvOf(p)) \/ MsgSentAny

Spec     == Init /\ [][Next]_vars
FairSpec == Spec /\ (\A p \in Peers : WF_vars(NextEnvOf(p))) /\ WF_vars(MsgSentAny)

(* ---- the property ------------------------------------------------------------------------------ *)
TypeOK ==
  /\ bs \subseteq Cids
  /\ \A p \in Peers : \A c \in Cids :
        /\ ledger[p][c] = NoE \/ (ledger[p][c].prio \in Prios /\ ledger[p][c].wt \in {"B", "H"})
        /\ ~(ledger[p][c] # NoE /\ ghost[p][c] # NoE)
        /\ c \in cfg.ignored => (ledger[p][c] = NoE /\ q[p][c] = NoT)
Ideal == dev = {}
\* a block goes out only if it is stored, on the peer's current want-list and permitted by the filter
RawBlockOnly == \A c \in out.blocks : c \in bs /\ c \in out.wanted /\ ~Denied(out.p, c)
RawHaveOnly  == \A c \in out.haves : c \in bs /\ c \in out.wanted /\ ~Denied(out.p, c)
RawDontHaveOnly == \A c \in out.dhs : c \in out.asked /\ (c \notin bs \/ Denied(out.p, c))
BlockOnlyIfPresentWantedPermitted == Ideal => RawBlockOnly
HaveOnlyIfPresent == Ideal => RawHaveOnly
DontHaveOnlyIfAbsentAndAsked == Ideal => RawDontHaveOnly
LedgerBounded == \A p \in Peers : Cardinality(Dom(ledger[p]) \cup Dom(ghost[p])) <= cfg.limit
NoGhostWhenIdeal == Ideal => \A p \in Peers : Dom(ghost[p]) = {}
\* tasks are queued only for current wants or for denied CIDs, and the queue is bounded
QueueBounded == Ideal => \A p \in Peers : Cardinality(QDom(q[p])) <= 2 * cfg.limit
\* every current want whose block is stored has a queued task that will deliver it, or its answer is in flight
InFlight(p, c) == hold.p = p /\ (c \in hold.blocks \/ (c \in hold.haves /\ ledger[p][c].wt = "H"))
RawPresentWantHasTask == \A p \in Peers : \A c \in Dom(ledger[p]) : c \in bs => (q[p][c] # NoT /\ q[p][c].have) \/ InFlight(p, c)
PresentWantHasTask == Ideal => RawPresentWantHasTask
\* the window never loses an upgrade: a want-block on the list whose block is stored is owed the BLOCK (a queued block
\* task or the block in flight), a HAVE in flight does not settle it
UpgradeKeepsBlockTask ==
  Ideal => \A p \in Peers : \A c \in Dom(ledger[p]) :
             (c \in bs /\ ledger[p][c].wt = "B") => ((q[p][c] # NoT /\ q[p][c].wb) \/ (hold.p = p /\ c \in hold.blocks))
\* after an overflow the ledger holds the best wants: wants without a local block go first, then the
\* least important ones, each present want only in favour of a newcomer that is at least as important,
\* and a newcomer is turned away only if every retained want is stored locally and more important
EvictionOrder ==
  (Ideal /\ ov.on) =>
    LET E == ov.E  A == ov.A  P == ov.E \ ov.A  O == ov.O  X == ov.X  Y == ov.Y  pri == ov.pri
        XP == X \cap P
        lowY == SubSeq(AscSeq(Y, pri), 1, Cardinality(XP))      \* the newcomers that displaced stored wants
        xs == AscSeq(XP, pri)
    IN /\ X \subseteq E /\ Y \subseteq O /\ Cardinality(X) = Cardinality(Y)
       /\ (XP # {} => A \subseteq X)
       /\ LowClosed(X \cap A, A, pri) /\ LowClosed(XP, P, pri)
       /\ HighClosed(Y, O, pri)
       /\ \A i \in 1..Len(xs) : pri[lowY[Len(xs) + 1 - i]] >= pri[xs[i]]
       /\ \A rj \in O \ Y : A \subseteq X /\ \A e \in P \ X : pri[e] > pri[rj]

\* liveness (FairSpec, ideal): a want whose block is stored is eventually answered (or withdrawn/evicted,
\* or the block disappears)
\* (answered = an envelope with its block or HAVE has just been built; with the window a peer may re-state the want
\*  before MessageSent, so "the entry disappears" would demand more than an answer)
EveryAcceptedWantAnswered ==
  \A p \in Peers, c \in Cids : (ledger[p][c] # NoE /\ c \in bs) ~> (\/ ledger[p][c] = NoE \/ c \notin bs
                                                                   \/ (out.p = p /\ c \in out.blocks \cup out.haves))
=============================================================================
