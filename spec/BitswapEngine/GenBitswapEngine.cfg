SPECIFICATION GSpec
CONSTANTS NP = 1
          NC = 3
          MaxPrio = 2
          Devs = {}
          Cfgs = {}
          Msgs = {}
          GFamily = "pool"
          GReplaces = {TRUE}
          GD = 2
          GE = 2
          GLen = 1
          GPrios = {1, 2}
          GLimits = {1}
          GNormal = {1, 2, 3}
          GIgnored = {}
          GBig = {2}
          GKindSel = "two"
          GBsInit = {{1, 2}}
INVARIANTS Emit
