SPECIFICATION GSpec
CONSTANTS NP = 1
          NC = 3
          MaxPrio = 2
          Devs = {}
          Cfgs = {}
          Msgs = {}
          GFamily = "pool"
          GReplaces = {TRUE}
          GD = 3
          GE = 3
          GLen = 1
          GPrios = {1, 2}
          GLimits = {2}
          GNormal = {1, 2, 3}
          GIgnored = {}
          GBig = {}
          GKindSel = "B"
          GBsInit = {{1, 2}, {1, 2, 3}}
INVARIANTS Emit
