SPECIFICATION GSpec
CONSTANTS NP = 1
          NC = 6
          MaxPrio = 3
          Devs = {}
          Cfgs = {}
          Msgs = {}
          GFamily = "overflow"
          GReplaces = {TRUE}
          GD = 2
          GE = 2
          GLen = 1
          GPrios = {1, 2}
          GLimits = {3}
          GNormal = {1, 2, 3, 4, 5, 6}
          GIgnored = {}
          GBig = {2, 5}
          GKindSel = "Bsdh"
          GBsInit <- AllBs
INVARIANTS Emit
