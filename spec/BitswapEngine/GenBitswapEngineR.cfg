SPECIFICATION GSpec
CONSTANTS NP = 1
          NC = 2
          MaxPrio = 2
          Devs = {}
          Cfgs = {}
          Msgs = {}
          GFamily = "retype"
          GReplaces = {TRUE, FALSE}
          GD = 3
          GE = 3
          GLen = 1
          GPrios = {1}
          GLimits = {2}
          GNormal = {1, 2}
          GIgnored = {}
          GBig = {2}
          GKindSel = "all"
          GBsInit = {{}, {1}, {2}, {1, 2}}
INVARIANTS Emit
