SPECIFICATION GSpecSim
CONSTANTS NP = 3
          NC = 8
          MaxPrio = 3
          Devs = {}
          Cfgs = {}
          Msgs = {}
          GD = 1000
          GE = 7
          GLen = 1
          GPrios = {1}
          GLimits = {1, 2, 3, 4}
          GNormal = {1, 2, 3, 4, 5, 6}
          GIgnored = {7, 8}
          GBig = {2, 5}
          GKindSel = "all"
          GBsInit = {}
