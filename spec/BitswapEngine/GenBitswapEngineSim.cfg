SPECIFICATION GSpecSim
CONSTANTS NP = 3
          NC = 12
          MaxPrio = 3
          Devs = {}
          Cfgs = {}
          Msgs = {}
          GFamily = "pool"
          GReplaces = {TRUE}
          GD = 1000
          GE = 7
          GLen = 1
          GPrios = {1}
          GLimits = {1, 2, 3, 4, 5}
          GNormal = {1, 2, 3, 4, 5, 6, 7, 8, 9, 10}
          GIgnored = {11, 12}
          GBig = {2, 5, 8}
          GKindSel = "all"
          GBsInit = {}
