SPECIFICATION GSpec
CONSTANTS NP = 1
          NC = 2
          MaxPrio = 2
          Devs = {}
          Cfgs = {}
          Msgs = {}
          GFamily = "window"
          GReplaces = {TRUE, FALSE}
          GD = 5
          GE = 5
          GLen = 1
          GPrios = {1}
          GLimits = {2}
          GNormal = {1, 2}
          GIgnored = {}
          GBig = {2}
          GKindSel = "two"
          GBsInit = {{}, {1, 2}}
INVARIANTS Emit
