SPECIFICATION Spec
CONSTANTS NP = 1
          NC = 3
          MaxPrio = 1
          Devs = {}
          MCLimits = {2}
          MCMsgLen = 1
          MCNCfg = 2
          MCKindSel = "two"
          MCIgnored = {}
          MCBig = {2}
          Cfgs <- MCCfgs
          Msgs <- MCMsgs
INVARIANTS TypeOK BlockOnlyIfPresentWantedPermitted HaveOnlyIfPresent DontHaveOnlyIfAbsentAndAsked
           LedgerBounded NoGhostWhenIdeal QueueBounded PresentWantHasTask UpgradeKeepsBlockTask EvictionOrder
