-------------------------- MODULE MCBitswapEngine --------------------------
(* Exhaustive model of BitswapEngine in the ideal mode (Devs = {}): small universe. *)
EXTENDS BitswapEngine
CONSTANTS MCLimits, MCMsgLen, MCIgnored, MCBig,
          MCNCfg,  \* 2: two configurations per limit, 3: four
          MCKindSel \* "three": want-block+sdh, want-have+sdh, want-block ; "two": want-block+sdh, want-have

MCDeny == [p \in Peers |-> IF p = 1 THEN {NC} ELSE {}]      \* peer 1 is denied the last CID
NoDeny == [p \in Peers |-> {}]
MkCfg(l, r, sd, d) == [limit |-> l, replace |-> r, sdh |-> sd, deny |-> d, ignored |-> MCIgnored, big |-> MCBig]
MCCfgs == UNION {{MkCfg(l, TRUE, TRUE, MCDeny), MkCfg(l, FALSE, FALSE, NoDeny)}
                 \cup (IF MCNCfg >= 3 THEN {MkCfg(l, FALSE, TRUE, NoDeny), MkCfg(l, TRUE, FALSE, NoDeny)} ELSE {}) : l \in MCLimits}
\* wantlists a peer may send: every single want / cancel, and every pair of want-blocks for two
\* different CIDs in both orders with all priority combinations (in-message overflow and ordering);
\* with MCMsgLen = 2 additionally every sequence of two arbitrary entries (duplicate CIDs, mixes)
Kinds == IF MCKindSel = "three" THEN {<<"B", TRUE>>, <<"H", TRUE>>, <<"B", FALSE>>} ELSE {<<"B", TRUE>>, <<"H", FALSE>>}
Want(c, pr, k) == [c |-> c, prio |-> pr, wt |-> k[1], cancel |-> FALSE, sdh |-> k[2]]
CancelOf(c) == [c |-> c, prio |-> 0, wt |-> "B", cancel |-> TRUE, sdh |-> FALSE]
Singles == {<<Want(c, pr, k)>> : c \in Cids, pr \in Prios, k \in Kinds} \cup {<<CancelOf(c)>> : c \in Cids}
PairsOK == {m \in [1..2 -> {Want(c, pr, <<"B", TRUE>>) : c \in Cids, pr \in Prios}] : m[1].c # m[2].c}
RawEntry == {Want(c, pr, k) : c \in Cids, pr \in Prios, k \in Kinds \cup {<<"H", FALSE>>}} \cup {CancelOf(c) : c \in Cids}
AllPairs == {MergeInto(<<>>, raw) : raw \in [1..2 -> RawEntry]}
MCMsgs == Singles \cup PairsOK \cup (IF MCMsgLen >= 2 THEN AllPairs ELSE {})
View0 == <<cfg, bs, ledger, ghost, q, out, ov, hold>>
=============================================================================
