-------------------------- MODULE MCBitswapEngine --------------------------
(* Exhaustive model of BitswapEngine in the ideal mode (Devs = {}): small universe. *)
EXTENDS BitswapEngine
CONSTANTS MCLimits, MCMsgLen, MCIgnored, MCBig

MCDeny == [p \in Peers |-> IF p = 1 THEN {NC} ELSE {}]      \* peer 1 is denied the last CID
NoDeny == [p \in Peers |-> {}]
MCCfgs == UNION {{[limit |-> l, replace |-> TRUE,  sdh |-> TRUE,  deny |-> MCDeny, ignored |-> MCIgnored, big |-> MCBig],
                  [limit |-> l, replace |-> FALSE, sdh |-> TRUE,  deny |-> NoDeny, ignored |-> MCIgnored, big |-> MCBig],
                  [limit |-> l, replace |-> TRUE,  sdh |-> FALSE, deny |-> NoDeny, ignored |-> MCIgnored, big |-> MCBig]} : l \in MCLimits}
RawWant   == [c : Cids, prio : Prios, wt : {"B", "H"}, cancel : {FALSE}, sdh : BOOLEAN]
RawCancel == [c : Cids, prio : {0}, wt : {"B"}, cancel : {TRUE}, sdh : {FALSE}]
RawEntry  == RawWant \cup RawCancel
MCMsgs == {MergeInto(<<>>, raw) : raw \in UNION {[1..n -> RawEntry] : n \in 1..MCMsgLen}}
View0 == <<cfg, bs, ledger, ghost, q, out, ov>>
=============================================================================
