SPECIFICATION Spec
CONSTANTS NP = 1
          NC = 2
          MaxPrio = 1
          Devs = {"Dev_C36_StaleHave"}
          MCLimits = {1}
          MCMsgLen = 1
          MCNCfg = 3
          MCKindSel = "three"
          MCIgnored = {}
          MCBig = {2}
          Cfgs <- MCCfgs
          Msgs <- MCMsgs
INVARIANTS TypeOK LedgerBounded RawHaveOnly
