SPECIFICATION FairSpec
CONSTANTS NP = 1
          NC = 2
          MaxPrio = 1
          Devs = {}
          MCLimits = {1}
          MCMsgLen = 1
          MCNCfg = 2
          MCKindSel = "three"
          MCIgnored = {}
          MCBig = {2}
          Cfgs <- MCCfgs
          Msgs <- MCMsgs
PROPERTY EveryAcceptedWantAnswered
INVARIANTS TypeOK BlockOnlyIfPresentWantedPermitted HaveOnlyIfPresent DontHaveOnlyIfAbsentAndAsked
           LedgerBounded NoGhostWhenIdeal QueueBounded PresentWantHasTask UpgradeKeepsBlockTask EvictionOrder
