------------------------- MODULE TraceBitswapEngine -------------------------
(* Phases G and T: a recorded run of the real engine (NDJSON: Reset, Recv, Add, Remove, Env, Sent, Idle,
   see harness zz_verif_C36_test.go) must be a behaviour of BitswapEngine.  After every event the
   logged observables (WantlistForPeer of every peer, the per-CID index of the ledger projected per peer,
   pending topics of every peer's task queue, envelope contents) must equal what the specification computes; the free choices of the spec
   (which of several equally important wants is evicted / admitted) are read off the log and checked
   for admissibility.  `mode` (any subset of Devs, fixed for the whole trace) is the set of named
   deviations the code under test exhibits; `dev` collects those that actually changed a result. *)
EXTENDS BitswapEngine
CONSTANT AllModes   \* TRUE: start in every subset of Devs; FALSE: only {} (ideal code) and Devs (code as built)

Trace == ndJsonDeserialize("trace.ndjson")
VARIABLES l,      \* next trace index
          mode    \* the deviations the code under test has (constant along a run of TLC)
tvars == <<vars, l, mode>>
ASSUME TLCSet(1, 0)

Ev == Trace[l]
IsEvent(e) == l <= Len(Trace) /\ Trace[l].ev = e /\ l' = l + 1 /\ UNCHANGED mode
NoDup(s) == Cardinality(ToSet(s)) = Len(s)
Raw(es) == [i \in 1..Len(es) |-> [c |-> es[i][1], prio |-> es[i][2], wt |-> es[i][3],
                                  cancel |-> es[i][4], sdh |-> es[i][5]]]
PerPeer(a, p) == IF p <= Len(a) THEN ToSet(a[p]) ELSE {}
ViewSet(L, G) == {<<c, L[c].prio, L[c].wt>> : c \in Dom(L)} \cup {<<c, G[c].prio, G[c].wt>> : c \in Dom(G)}
\* the logged state after the event, compared with the next state of the spec
WlOK(p)   == PerPeer(Ev.wl, p) = ViewSet(ledger'[p], ghost'[p])
\* the per-CID index of the ledger (peerLedger.Peers, read by NotifyNewBlocks) holds exactly the consistent
\* entries: same CIDs, same priority, same want type as the want-list of the peer
InvOK(p)  == PerPeer(Ev.inv, p) = ViewSet(ledger'[p], EmptyL)
PendOK(p) == PerPeer(Ev.pend, p) = QDom(q'[p])

TInit == /\ l = 1 /\ mode \in (IF AllModes THEN SUBSET Devs ELSE {{}, Devs})
         /\ cfg = [limit |-> 1, replace |-> FALSE, sdh |-> TRUE, deny |-> [p \in Peers |-> {}],
                   ignored |-> {}, big |-> {}]
         /\ bs = {}
         /\ ledger = [p \in Peers |-> EmptyL] /\ ghost = [p \in Peers |-> EmptyL]
         /\ q = [p \in Peers |-> EmptyQ]
         /\ out = NoOut /\ ov = NoOv /\ dev = {} /\ hold = NoHold

TReset == /\ IsEvent("Reset")
          /\ cfg' = [limit |-> Ev.limit, replace |-> Ev.replace, sdh |-> Ev.sdh,
                     deny |-> [p \in Peers |-> PerPeer(Ev.deny, p)],
                     ignored |-> ToSet(Ev.ignored), big |-> ToSet(Ev.big)]
          /\ bs' = ToSet(Ev.bs)
          /\ ledger' = [p \in Peers |-> EmptyL] /\ ghost' = [p \in Peers |-> EmptyL]
          /\ q' = [p \in Peers |-> EmptyQ]
          /\ out' = NoOut /\ ov' = NoOv /\ hold' = NoHold /\ UNCHANGED dev

TRecv ==
  /\ IsEvent("Recv") /\ ~Ev.kill /\ Ev.panic = "" /\ Ev.p \in Peers
  /\ LET p    == Ev.p
         ents == MergeInto(<<>>, Raw(Ev.es))
         after == {w[1] : w \in PerPeer(Ev.wl, p)}
         pa    == PerPeer(Ev.pend, p)
         D     == mode \cap RecvDevs
     IN   LET s   == Stage1(D, p, Ev.full, ents)
              X0  == s.E \ (after \cup s.cancels)
              amb == (s.E \cap s.cancels) \ after       \* cancelled in the same message: evicted or not
              Y   == s.O \cap after
          IN \E XS \in SUBSET amb :
               /\ ValidXY(s, X0 \cup XS, Y)
               /\ LET t    == Stage2(D, s, X0 \cup XS, Y)
                      Z0   == {c \in t.YT : c \in pa /\ t.Q[c] = NoT}
                      zamb == {c \in t.YT : t.Q[c] # NoT \/ Skip(t.A, c, TaskOf(t.oent[c])[1])}
                  IN \E ZS \in SUBSET zamb : ReceiveCore(D, p, Ev.full, ents, s, t, X0 \cup XS, Y, Z0 \cup ZS)
  /\ \A p \in Peers : WlOK(p) /\ InvOK(p) /\ (Ev.pk \/ PendOK(p))

TAdd == /\ IsEvent("Add") /\ Ev.c \in Cids
        /\ AddBlock(mode \cap AddDevs, Ev.c)
        /\ \A p \in Peers : WlOK(p) /\ InvOK(p) /\ (Ev.pk \/ PendOK(p))

TRemove == IsEvent("Remove") /\ Ev.c \in Cids /\ RemoveBlock(Ev.c)

\* nextEnvelope returned an envelope (logged before MessageSent: the want-list is as it was)
TEnv == /\ IsEvent("Env") /\ Ev.detail = "" /\ Ev.p \in Peers
        /\ NoDup(Ev.blocks) /\ NoDup(Ev.haves) /\ NoDup(Ev.dhs)
        /\ NextEnv(mode \cap EnvDevs, Ev.p)
        /\ hold'.p = Ev.p
        /\ out'.blocks = ToSet(Ev.blocks) /\ out'.haves = ToSet(Ev.haves) /\ out'.dhs = ToSet(Ev.dhs)
        /\ ToSet(Ev.wl) = ViewSet(ledger'[Ev.p], ghost'[Ev.p])
        /\ ToSet(Ev.inv) = ViewSet(ledger'[Ev.p], EmptyL)
        /\ ToSet(Ev.pend) = QDom(q'[Ev.p])
\* MessageSent + Sent for the envelope in flight -- right away, or after the calls the script put into the window
TSent == /\ IsEvent("Sent") /\ Ev.p = hold.p
         /\ MsgSent(mode \cap SentDevs)
         /\ ToSet(Ev.wl) = ViewSet(ledger'[Ev.p], ghost'[Ev.p])
         /\ ToSet(Ev.inv) = ViewSet(ledger'[Ev.p], EmptyL)
         /\ ToSet(Ev.pend) = QDom(q'[Ev.p])

\* the engine went idle: every task still queued was popped without producing a message
TIdle == /\ IsEvent("Idle") /\ hold.p = 0
         /\ \A p \in Peers : QDom(q[p]) # {} =>
               LET r == EnvRes({}, p) IN r.blocks = {} /\ r.haves = {} /\ r.dhs = {}
         /\ \A p \in Peers : PerPeer(Ev.pend, p) = {}
         /\ q' = [p \in Peers |-> EmptyQ]
         /\ out' = NoOut /\ ov' = NoOv
         /\ UNCHANGED <<cfg, bs, ledger, ghost, dev, hold>>

TNext == TReset \/ TRecv \/ TAdd \/ TRemove \/ TEnv \/ TSent \/ TIdle
TSpec == TInit /\ [][TNext]_tvars

DevReport == l <= Len(Trace) \/ \A d \in dev : PrintT(<<"DEV_USED", d>>)
TraceConstraint == TLCSet(1, IF l - 1 > TLCGet(1) THEN l - 1 ELSE TLCGet(1))
TracePost == PrintT(<<"TRACE_HWM", TLCGet(1)>>)
=============================================================================
