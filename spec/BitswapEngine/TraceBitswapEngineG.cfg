SPECIFICATION TSpec
CONSTANTS NP = 3
          NC = 12
          MaxPrio = 8
          Devs = @DEVS@
          AllModes = FALSE
          Cfgs = {}
          Msgs = {}
INVARIANTS TypeOK BlockOnlyIfPresentWantedPermitted HaveOnlyIfPresent DontHaveOnlyIfAbsentAndAsked
           LedgerBounded NoGhostWhenIdeal QueueBounded PresentWantHasTask UpgradeKeepsBlockTask EvictionOrder DevReport
CONSTRAINT TraceConstraint
POSTCONDITION TracePost
CHECK_DEADLOCK FALSE
