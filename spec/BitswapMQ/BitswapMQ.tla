------------------------------ MODULE BitswapMQ ------------------------------
(* C35 -- bitswap/client/internal/messagequeue/messagequeue.go at the grain of its wllock
   critical sections.

   Want types are 0 (none) < 1 (want-have) < 2 (want-block).
   Tracking lists (recallWantlist.pending / .sent of bcstWants and peerWants):
       bp, bs, pp, ps : [Cids -> [t, k]]     t = 0: absent; k = age (MaxInt32 - priority, the
                                             priority counter `seq` grows where the code's shrinks)
       bAt, pAt       : [Cids -> BOOLEAN]    sentAt has an entry
       cancels        : [Cids -> 0..2]       0: no cancel queued; else a cancel is queued and the
                                             value is the strongest type the peer was sent (the
                                             code keeps only the set; the value is used by the
                                             IDEAL re-add rule, see AddOne)
   Producers (each call = one atomic section + a later signalWorkReady):
       AddBroadcastWantHaves / AddWants / AddCancels
   Send loop (runQueue -> sendMessage -> extractOutgoingMessage), pc:
       rest -StartCycle-> snap -Snapshot-> build -BuildEntry*-> finish -Finish-> send -Send->
       onsent -OnSent-> count -Count-> rest         (BuildEntry runs WITHOUT the lock)
       rest -RebroadcastReq; DoRefresh-> snap | rest
   Receiver side: held[c] = result of replaying everything sent so far onto an empty want-list
   (cancel removes; want-have never overrides want-block; want-block overrides want-have).
   Ghost: cwP[c] / cwB[c] = what the client currently wants from this peer.

   Two places where the code as built differs from the ideal protocol (flag asBuilt):
     * AddOne: a want added while a cancel for the same CID is still queued.  As built the cancel
       is simply dropped although the peer still holds the old want and the sent-list no longer
       says so.  Ideal: if the new want is at least as strong as what the peer holds, drop the
       cancel AND put the held want back on the sent list; otherwise keep the cancel and hold the
       want back until the cancel has gone out.
     * Finish: every built entry was withdrawn so the message is empty.  As built sendMessage
       returns without looking at what is still pending; ideal: re-signal if work is pending.
     * Finish/markSent: see FinOkP.   * Finish/shared entries: see MergeDiffers.   * DoRefresh: see there.                                *)
EXTENDS Integers, Sequences, FiniteSets, TLC

CONSTANTS Cids,      \* a set of integers (calls process CIDs in ascending order)
          MaxOps,    \* bound on producer calls     (model checking only)
          MaxRb,     \* bound on rebroadcast requests
          NProd,     \* producers that can be between their atomic section and their signal
          AsBuilt    \* subset of {"ReAdd", "Empty", "Refresh", "Mark", "Merge"}: as-built alternatives enabled in Next

VARIABLES bp, bs, pp, ps, bAt, pAt, cancels, seq,     \* protected by wllock
          work, sigs, rbReq,                          \* outgoingWork channel, producers yet to signal, rebroadcastNow
          pc, snapC, snapP, snapB, doneC, nP, nB, size,  \* send loop locals (snapC: set, built in map order)
          msg, markP, markB,                          \* mq.msg, entries whose Cid is still defined for onSent
          held,                                       \* receiver-side want-list after everything sent
          cwP, cwB,                                   \* ghost: client's current wants
          sh, maxN,                                   \* configuration: peer supports HAVE, entries per message
          ops, rbs

lockvars == <<bp, bs, pp, ps, bAt, pAt, cancels, seq>>
loopvars == <<pc, snapC, snapP, snapB, doneC, nP, nB, size, msg, markP, markB>>
vars == <<lockvars, work, sigs, rbReq, loopvars, held, cwP, cwB, sh, maxN, ops, rbs>>

None == [t |-> 0, k |-> 0]
NoEntry == [t |-> 0, k |-> 0, cancel |-> FALSE, sdh |-> FALSE]
Max(a, b) == IF a >= b THEN a ELSE b
Unbounded == 1000

(* ---- wantlist.Wantlist ------------------------------------------------------------------ *)
\* Add: a want-have never overrides, a want-block overrides only a want-have
WlAdd(w, c, k, t) == IF w[c].t # 0 /\ (w[c].t = 2 \/ t = 1) THEN w ELSE [w EXCEPT ![c] = [t |-> t, k |-> k]]
\* RemoveType: removing want-have does not remove a want-block
WlCanRemoveType(w, c, t) == w[c].t # 0 /\ ~(w[c].t = 2 /\ t = 1)
WlRemove(w, c) == [w EXCEPT ![c] = None]

\* ascending age = descending priority (Wantlist.Entries)
RECURSIVE SortK(_, _)
SortK(S, w) == IF S = {} THEN <<>>
               ELSE LET c == CHOOSE x \in S : \A y \in S : w[x].k <= w[y].k
                    IN <<[c |-> c, t |-> w[c].t, k |-> w[c].k]>> \o SortK(S \ {c}, w)

(* ---- producers: fold over the call's CID list on a record of the locked variables ------- *)
Locked == [bp |-> bp, bs |-> bs, pp |-> pp, ps |-> ps, bAt |-> bAt, pAt |-> pAt, cancels |-> cancels,
           seq |-> seq, cwP |-> cwP, cwB |-> cwB, sig |-> FALSE]
SetLocked(q) == /\ bp' = q.bp /\ bs' = q.bs /\ pp' = q.pp /\ ps' = q.ps /\ bAt' = q.bAt /\ pAt' = q.pAt
                /\ cancels' = q.cancels /\ seq' = q.seq /\ cwP' = q.cwP /\ cwB' = q.cwB

\* the type under which a want from list L ("b"/"p") of type t can travel to this peer (0: it cannot)
WireType(L, t) == IF L = "b" THEN (IF sh THEN 1 ELSE 2) ELSE (IF ~sh /\ t = 1 THEN 0 ELSE t)

AddOne(q, L, c, t, asBuilt) ==
    LET q1 == IF L = "b"
              THEN [q EXCEPT !.bp = WlAdd(q.bp, c, q.seq, 1), !.seq = @ + 1, !.cwB[c] = TRUE, !.sig = TRUE]
              ELSE [q EXCEPT !.pp = WlAdd(q.pp, c, q.seq, t), !.seq = @ + 1, !.cwP[c] = Max(@, t), !.sig = TRUE]
        h  == q.cancels[c]
        wt == WireType(L, t)
    IN IF h = 0 THEN q1
       ELSE IF asBuilt THEN [q1 EXCEPT !.cancels[c] = 0]              \* "clear any pending cancel"
       ELSE IF wt >= h
            THEN IF L = "b" THEN [q1 EXCEPT !.cancels[c] = 0, !.bs = WlAdd(q.bs, c, q.seq, 1)]
                 ELSE [q1 EXCEPT !.cancels[c] = 0, !.ps = WlAdd(q.ps, c, q.seq, h)]
            ELSE q1                                                    \* cancel must go out first

CancelOne(q, c) ==
    LET h == Max(IF q.bs[c].t # 0 THEN WireType("b", 1) ELSE 0, q.ps[c].t)
    IN [q EXCEPT !.bp = WlRemove(@, c), !.bs = WlRemove(@, c), !.pp = WlRemove(@, c), !.ps = WlRemove(@, c),
                 !.bAt[c] = FALSE, !.pAt[c] = FALSE,
                 !.cancels[c] = Max(@, h), !.cwP[c] = 0, !.cwB[c] = FALSE,
                 !.sig = @ \/ (h # 0)]                                 \* only send a cancel if a want was sent

RECURSIVE FoldAdd(_, _, _, _, _)
FoldAdd(q, L, s, t, asBuilt) == IF s = <<>> THEN q ELSE FoldAdd(AddOne(q, L, Head(s), t, asBuilt), L, Tail(s), t, asBuilt)
RECURSIVE FoldCancel(_, _)
FoldCancel(q, s) == IF s = <<>> THEN q ELSE FoldCancel(CancelOne(q, Head(s)), Tail(s))

\* the atomic sections; wb / wh / ks are sequences of CIDs
BcstSection(ks, asBuilt)       == FoldAdd(Locked, "b", ks, 1, asBuilt)
WantsSection(wb, wh, asBuilt)  == FoldAdd(FoldAdd(Locked, "p", wh, 1, asBuilt), "p", wb, 2, asBuilt)   \* haves first
CancelsSection(ks)             == FoldCancel(Locked, ks)

\* does the section meet a queued cancel (only then as-built and ideal differ)
MeetsCancel(s) == \E i \in 1..Len(s) : cancels[s[i]] # 0

Producer(q) == /\ SetLocked(q)
               /\ sigs' = IF q.sig THEN sigs + 1 ELSE sigs
               /\ UNCHANGED <<work, rbReq, loopvars, held, sh, maxN, rbs>>
Signal == /\ sigs > 0 /\ sigs' = sigs - 1 /\ work' = TRUE
          /\ UNCHANGED <<lockvars, rbReq, loopvars, held, cwP, cwB, sh, maxN, ops, rbs>>

(* ---- send loop ---------------------------------------------------------------------------- *)
PendingWork == Cardinality({c \in Cids : bp[c].t # 0}) + Cardinality({c \in Cids : pp[c].t # 0})
               + Cardinality({c \in Cids : cancels[c] # 0})

StartCycle == /\ pc = "rest" /\ work /\ work' = FALSE /\ pc' = "snap"
              /\ UNCHANGED <<lockvars, sigs, rbReq, snapC, snapP, snapB, doneC, nP, nB, size, msg, markP, markB,
                             held, cwP, cwB, sh, maxN, ops, rbs>>

\* extractOutgoingMessage, first critical section
Snapshot ==
    /\ pc = "snap"
    /\ LET drop == IF sh THEN {} ELSE {c \in Cids : pp[c].t = 1}       \* peer want-haves to a peer without HAVE
           pp1  == [c \in Cids |-> IF c \in drop THEN None ELSE pp[c]]
           ps1  == [c \in Cids |-> IF c \in drop /\ ps[c].t = 1 THEN None ELSE ps[c]]
       IN /\ pp' = pp1 /\ ps' = ps1
          /\ pAt' = [c \in Cids |-> pAt[c] /\ ~(c \in drop /\ ps1[c].t = 0)]
          /\ snapP' = SortK({c \in Cids : pp1[c].t # 0 /\ cancels[c] = 0}, pp1)
          /\ snapB' = SortK({c \in Cids : bp[c].t # 0 /\ cancels[c] = 0}, bp)
          /\ snapC' = {c \in Cids : cancels[c] # 0}                       \* built in map iteration order
    /\ doneC' = {} /\ nP' = 0 /\ nB' = 0 /\ size' = 0
    /\ pc' = "build"
    /\ UNCHANGED <<bp, bs, bAt, cancels, seq, work, sigs, rbReq, msg, markP, markB, held, cwP, cwB, sh, maxN, ops, rbs>>

\* message.addEntry restricted to what the queue uses; returns the new message and whether the entry is new
MsgAdd(m, c, k, cancel, t, sdh) ==
    IF m[c].t = 0 THEN [m EXCEPT ![c] = [t |-> t, k |-> k, cancel |-> cancel, sdh |-> sdh]]
    ELSE [m EXCEPT ![c] = [k |-> IF m[c].t = t THEN k ELSE m[c].k,
                           cancel |-> m[c].cancel \/ cancel,
                           sdh |-> m[c].sdh \/ sdh,
                           t |-> IF t = 2 /\ m[c].t = 1 THEN 2 ELSE m[c].t]]

\* one iteration of one of the three lock-free loops (cancels, then peer wants, then broadcast wants)
BuildDone(dC, p, b, sz) == IF (dC = snapC /\ p = Len(snapP) /\ b = Len(snapB)) \/ sz >= maxN THEN "finish" ELSE "build"
BuildFrame == UNCHANGED <<lockvars, work, sigs, rbReq, snapC, snapP, snapB, markP, markB, held, cwP, cwB, sh, maxN, ops, rbs>>
BuildCancel(c) ==
    /\ pc = "build" /\ c \in snapC \ doneC
    /\ msg' = MsgAdd(msg, c, 0, TRUE, 2, FALSE)
    /\ size' = size + (IF msg[c].t = 0 THEN 1 ELSE 0)
    /\ doneC' = doneC \cup {c} /\ UNCHANGED <<nP, nB>>
    /\ pc' = BuildDone(doneC', nP, nB, size') /\ BuildFrame
BuildPeer ==
    /\ pc = "build" /\ doneC = snapC /\ nP < Len(snapP)
    /\ LET e == snapP[nP + 1] IN
         /\ msg' = MsgAdd(msg, e.c, e.k, FALSE, e.t, TRUE)
         /\ size' = size + (IF msg[e.c].t = 0 THEN 1 ELSE 0)
    /\ nP' = nP + 1 /\ UNCHANGED <<doneC, nB>>
    /\ pc' = BuildDone(doneC, nP', nB, size') /\ BuildFrame
BuildBcst ==
    /\ pc = "build" /\ doneC = snapC /\ nP = Len(snapP) /\ nB < Len(snapB)
    /\ LET e == snapB[nB + 1] IN
         /\ msg' = MsgAdd(msg, e.c, e.k, FALSE, WireType("b", 1), FALSE)
         /\ size' = size + (IF msg[e.c].t = 0 THEN 1 ELSE 0)
    /\ nB' = nB + 1 /\ UNCHANGED <<doneC, nP>>
    /\ pc' = BuildDone(doneC, nP, nB', size') /\ BuildFrame
BuildNone ==     \* nothing was pending
    /\ pc = "build" /\ snapC = {} /\ Len(snapP) = 0 /\ Len(snapB) = 0
    /\ pc' = "finish" /\ UNCHANGED <<msg, size, doneC, nP, nB>> /\ BuildFrame
BuildEntry == (\E c \in Cids : BuildCancel(c)) \/ BuildPeer \/ BuildBcst \/ BuildNone

\* second critical section: markSent, withdraw what changed meanwhile.
\* ab \subseteq {"Empty", "Mark", "Merge"}: as-built alternatives taken.
BuiltP == {snapP[i] : i \in 1..nP}
BuiltB == {snapB[i] : i \in 1..nB}
\* markSent: as built pending.RemoveType succeeds whenever SOME removable want for the CID is pending, also a
\* weaker one added after a cancel in the lock-free window (the message then carries the withdrawn stronger
\* type); ideal: the pending want must still be of the type that was built.
\* (cancels[c] = 0: a want that the ideal re-add rule holds back behind a queued cancel is not confirmed either;
\*  as built a CID is never pending and cancelled at the same time, so the conjunct is vacuous there)
FinOkP(ab) == {e \in BuiltP : /\ cancels[e.c] = 0
                              /\ IF "Mark" \in ab THEN WlCanRemoveType(pp, e.c, e.t) ELSE pp[e.c].t = e.t}
FinOkB == {e \in BuiltB : cancels[e.c] = 0 /\ WlCanRemoveType(bp, e.c, 1)}
FinOkC == {c \in doneC : cancels[c] # 0}
FinGone(ab) == {e.c : e \in (BuiltP \ FinOkP(ab))} \cup {e.c : e \in (BuiltB \ FinOkB)} \cup (doneC \ FinOkC)
\* what the message entry for c is when built from the surviving parts only
Rebuilt(c, ab) ==
    LET m0 == [x \in Cids |-> NoEntry]
        m1 == IF c \in FinOkC THEN MsgAdd(m0, c, 0, TRUE, 2, FALSE) ELSE m0
        m2 == IF \E e \in FinOkP(ab) : e.c = c
              THEN LET e == CHOOSE x \in FinOkP(ab) : x.c = c IN MsgAdd(m1, c, e.k, FALSE, e.t, TRUE) ELSE m1
        m3 == IF \E e \in FinOkB : e.c = c
              THEN LET e == CHOOSE x \in FinOkB : x.c = c IN MsgAdd(m2, c, e.k, FALSE, WireType("b", 1), FALSE) ELSE m2
    IN m3[c]
\* A peer want and a broadcast want for the same CID share one message entry.  As built, msg.Remove(cid) for
\* the withdrawn part deletes the shared entry although the other part was just marked as sent (it is then
\* never transmitted); ideal: the entry keeps what the surviving part contributes.
MergeDiffers(ab) == \E c \in FinGone(ab) : Rebuilt(c, ab).t # 0
Finish(ab) ==
    /\ pc = "finish"
    /\ LET okP == FinOkP(ab)
           okB == FinOkB
           okC == FinOkC
           gone == FinGone(ab)
           pp1 == [c \in Cids |-> IF \E e \in okP : e.c = c THEN None ELSE pp[c]]
           bp1 == [c \in Cids |-> IF \E e \in okB : e.c = c THEN None ELSE bp[c]]
           cn1 == [c \in Cids |-> IF c \in okC THEN 0 ELSE cancels[c]]
           m1  == [c \in Cids |-> IF c \in gone THEN (IF "Merge" \in ab THEN NoEntry ELSE Rebuilt(c, ab)) ELSE msg[c]]
           pend1 == Cardinality({c \in Cids : bp1[c].t # 0}) + Cardinality({c \in Cids : pp1[c].t # 0})
                    + Cardinality({c \in Cids : cn1[c] # 0})
       IN /\ pp' = pp1 /\ bp' = bp1 /\ cancels' = cn1 /\ msg' = m1
          /\ ps' = [c \in Cids |-> IF \E e \in okP : e.c = c
                                   THEN LET e == CHOOSE x \in okP : x.c = c IN WlAdd(ps, c, e.k, e.t)[c] ELSE ps[c]]
          /\ bs' = [c \in Cids |-> IF \E e \in okB : e.c = c
                                   THEN LET e == CHOOSE x \in okB : x.c = c IN WlAdd(bs, c, e.k, 1)[c] ELSE bs[c]]
          /\ markP' = {e.c : e \in okP} /\ markB' = {e.c : e \in okB}
          /\ IF \A c \in Cids : m1[c].t = 0
             THEN /\ pc' = "rest"                                     \* if message.Empty() { return }
                  /\ work' = IF "Empty" \in ab THEN work ELSE (work \/ pend1 > 0)
             ELSE pc' = "send" /\ UNCHANGED work
    /\ UNCHANGED <<bAt, pAt, seq, sigs, rbReq, snapC, snapP, snapB, doneC, nP, nB, size, held, cwP, cwB, sh, maxN, ops, rbs>>

\* the receiver's want-list
Apply(h, m) == [c \in Cids |-> IF m[c].t = 0 THEN h[c]
                               ELSE IF m[c].cancel THEN 0
                               ELSE IF h[c] = 2 \/ (h[c] = 1 /\ m[c].t = 1) THEN h[c] ELSE m[c].t]
Send == /\ pc = "send" /\ held' = Apply(held, msg) /\ pc' = "onsent"
        /\ UNCHANGED <<lockvars, work, sigs, rbReq, snapC, snapP, snapB, doneC, nP, nB, size, msg, markP, markB,
                       cwP, cwB, sh, maxN, ops, rbs>>

\* onSent: setSentAt for the entries that were marked sent and are still on the sent list
OnSent == /\ pc = "onsent"
          /\ pAt' = [c \in Cids |-> pAt[c] \/ (c \in markP /\ ps[c].t # 0)]
          /\ bAt' = [c \in Cids |-> bAt[c] \/ (c \in markB /\ bs[c].t # 0)]
          /\ pc' = "count"
          /\ UNCHANGED <<bp, bs, pp, ps, cancels, seq, work, sigs, rbReq, snapC, snapP, snapB, doneC, nP, nB, size,
                         msg, markP, markB, held, cwP, cwB, sh, maxN, ops, rbs>>
\* pendingWorkCount (< sendMessageCutoff assumed), deferred msg.Reset
Count == /\ pc = "count"
         /\ work' = (work \/ PendingWork > 0)
         /\ msg' = [c \in Cids |-> NoEntry] /\ pc' = "rest"
         /\ UNCHANGED <<lockvars, sigs, rbReq, snapC, snapP, snapB, doneC, nP, nB, size, markP, markB, held, cwP, cwB,
                        sh, maxN, ops, rbs>>

RebroadcastReq == /\ ~rbReq /\ rbReq' = TRUE /\ rbs' = rbs + 1
                  /\ UNCHANGED <<lockvars, work, sigs, loopvars, held, cwP, cwB, sh, maxN, ops>>
\* rebroadcastWantlist(now, 0): every sent want with a sentAt entry goes back to pending.
\* As built refresh also takes it OFF the sent list, so until it is re-sent AddCancels sees "never sent";
\* ideal: it stays on the sent list (markSent re-adds it anyway).
DoRefresh(asBuilt) ==
    /\ pc = "rest" /\ rbReq /\ rbReq' = FALSE
    /\ LET mb == {c \in Cids : bs[c].t # 0 /\ bAt[c]}
           mp == {c \in Cids : ps[c].t # 0 /\ pAt[c]}
       IN /\ bs' = [c \in Cids |-> IF c \in mb /\ asBuilt THEN None ELSE bs[c]]
          /\ bp' = [c \in Cids |-> IF c \in mb THEN WlAdd(bp, c, bs[c].k, bs[c].t)[c] ELSE bp[c]]
          /\ ps' = [c \in Cids |-> IF c \in mp /\ asBuilt THEN None ELSE ps[c]]
          /\ pp' = [c \in Cids |-> IF c \in mp THEN WlAdd(pp, c, ps[c].k, ps[c].t)[c] ELSE pp[c]]
          /\ pc' = IF mb \cup mp # {} THEN "snap" ELSE "rest"
    /\ UNCHANGED <<bAt, pAt, cancels, seq, work, sigs, snapC, snapP, snapB, doneC, nP, nB, size, msg, markP, markB,
                   held, cwP, cwB, sh, maxN, ops, rbs>>

(* ---- the system ------------------------------------------------------------------------------ *)
Init == /\ bp = [c \in Cids |-> None] /\ bs = bp /\ pp = bp /\ ps = bp
        /\ bAt = [c \in Cids |-> FALSE] /\ pAt = bAt
        /\ cancels = [c \in Cids |-> 0] /\ seq = 1
        /\ work = FALSE /\ sigs = 0 /\ rbReq = FALSE
        /\ pc = "rest" /\ snapC = {} /\ snapP = <<>> /\ snapB = <<>> /\ doneC = {} /\ nP = 0 /\ nB = 0 /\ size = 0
        /\ msg = [c \in Cids |-> NoEntry] /\ markP = {} /\ markB = {}
        /\ held = [c \in Cids |-> 0] /\ cwP = [c \in Cids |-> 0] /\ cwB = [c \in Cids |-> FALSE]
        /\ sh \in BOOLEAN /\ maxN \in {1, 2, Unbounded}
        /\ ops = 0 /\ rbs = 0

Flags(s) == IF MeetsCancel(s) THEN {FALSE} \cup {TRUE : x \in AsBuilt \cap {"ReAdd"}} ELSE {FALSE}
ProducerStep ==
    /\ ops < MaxOps /\ sigs < NProd /\ ops' = ops + 1
    /\ \/ \E c \in Cids : \E f \in Flags(<<c>>) : Producer(BcstSection(<<c>>, f))
       \/ \E c \in Cids : \E f \in Flags(<<c>>) : Producer(WantsSection(<<c>>, <<>>, f)) \/ Producer(WantsSection(<<>>, <<c>>, f))
       \/ \E c \in Cids : Producer(CancelsSection(<<c>>))
LoopStep == \/ StartCycle \/ Snapshot \/ BuildEntry \/ Send \/ OnSent \/ Count
            \/ DoRefresh(FALSE)
            \/ ("Refresh" \in AsBuilt /\ DoRefresh(TRUE))
            \/ \E ab \in SUBSET (AsBuilt \cap {"Empty", "Mark", "Merge"}) : Finish(ab)
            \/ (rbs < MaxRb /\ RebroadcastReq)
Next == ProducerStep \/ Signal \/ LoopStep
Spec == Init /\ [][Next]_vars

(* ---- the property -------------------------------------------------------------------------------- *)
\* what the peer should hold for c given the client's current wants and what the protocol can express
Exp(c) == IF sh THEN Max(cwP[c], IF cwB[c] THEN 1 ELSE 0)
          ELSE IF cwP[c] = 2 \/ cwB[c] THEN 2 ELSE 0
Idle == pc = "rest" /\ ~work /\ sigs = 0 /\ ~rbReq

Converged == Idle => \A c \in Cids : held[c] = Exp(c)
WantNeverUnsent == Idle => \A c \in Cids : bp[c].t = 0 /\ pp[c].t = 0 /\ cancels[c] = 0
\* at any time: a want the peer holds but the client dropped has its cancel queued or in flight
InFlightCancel(c) == \/ (pc \in {"build", "finish"} /\ c \in snapC)
                     \/ (pc = "send" /\ msg[c].t # 0 /\ msg[c].cancel)
CancelNeverLeftActive == \A c \in Cids : (held[c] # 0 /\ cwP[c] = 0 /\ ~cwB[c]) => (cancels[c] # 0 \/ InFlightCancel(c))
\* what the sent lists say the peer holds for c (a broadcast want travels as WireType("b", 1))
SentSays(c) == Max(IF bs[c].t # 0 THEN WireType("b", 1) ELSE 0, ps[c].t)
\* the queue's memory of what it sent is exact once it is idle: AddCancels emits a cancel only for a CID on a sent
\* list, so a sent want of EITHER type must survive every later request of a different type for the same CID
\* (want-have after want-block, want-block after want-have, broadcast + peer want), with and without HAVE support
SentListFaithful == Idle => \A c \in Cids : held[c] = SentSays(c)
\* at any time: a want the peer holds is on a sent list, or its cancel is queued / in flight
HeldIsRemembered == \A c \in Cids : held[c] # 0 => (bs[c].t # 0 \/ ps[c].t # 0 \/ cancels[c] # 0 \/ InFlightCancel(c))
NoHaveToLegacyPeer == ~sh => \A c \in Cids : msg[c].t # 1 /\ held[c] # 1
TypeOK == /\ pc \in {"rest", "snap", "build", "finish", "send", "onsent", "count"}
          /\ \A c \in Cids : bp[c].t \in {0, 1} /\ bs[c].t \in {0, 1} /\ pp[c].t \in 0..2 /\ ps[c].t \in 0..2
          /\ \A c \in Cids : held[c] \in 0..2 /\ cancels[c] \in 0..2
=============================================================================
