SPECIFICATION GSpec
CONSTANTS Cids = {1, 2, 3}
          MaxOps = 0
          MaxRb = 2
          NProd = 2
          AsBuilt = {"ReAdd", "Empty", "Refresh", "Mark", "Merge"}
          E = 30
