----------------------------- MODULE GenBitswapMQ -----------------------------
(* Phase G for C35: TLC samples behaviours of BitswapMQ (as-built alternatives enabled, so the
   sample covers the state space the code really has) and prints them as SCHEDULES: the producer
   calls with their arguments and, for each loop step that corresponds to a park point of the
   harness (start of a cycle up to the first gate, every gate passage, the send), an "L".  The
   harness executes a schedule step by step on the real queue with the loop parked in between and
   records what happens; TraceBitswapMQ then decides whether that is a behaviour of the spec.   *)
EXTENDS BitswapMQ, Json
CONSTANT E
VARIABLE hist
gvars == <<vars, hist>>

Lab(op, wb, wh, ks) == [op |-> op, wb |-> wb, wh |-> wh, ks |-> ks]
Rec(x) == hist' = Append(hist, x)
L == Lab("L", <<>>, <<>>, <<>>)

\* one or two CIDs in ascending order
Asc(a, b) == IF a = b THEN <<a>> ELSE IF a < b THEN <<a, b>> ELSE <<b, a>>
\* (the dummy state-dependent argument keeps TLC from evaluating the random choice once and for all)
Rnd(z) == RandomElement({c \in Cids : z >= 0})
Fl(s) == IF MeetsCancel(s) THEN "ReAdd" \in AsBuilt ELSE FALSE

GProducer ==
    /\ sigs < NProd /\ ops' = ops + 1
    \* (drawn values are bound by \E over singleton sets: a LET definition would be re-drawn at every use)
    /\ \E a \in {Rnd(Len(hist))}, b \in {Rnd(Len(hist) + 1)}, c \in {Rnd(Len(hist) + 2)}, d \in {Rnd(Len(hist) + 3)},
          r \in {RandomElement({x \in 1..7 : Len(hist) >= 0})} :
       LET ks == Asc(a, b)
           k2 == Asc(c, d)
       IN
          \/ r = 1 /\ Producer(BcstSection(ks, Fl(ks))) /\ Rec(Lab("bcst", <<>>, <<>>, ks))
          \/ r = 2 /\ Producer(WantsSection(ks, <<>>, Fl(ks))) /\ Rec(Lab("wants", ks, <<>>, <<>>))
          \/ r = 3 /\ Producer(WantsSection(<<>>, ks, Fl(ks))) /\ Rec(Lab("wants", <<>>, ks, <<>>))
          \/ r = 4 /\ Producer(WantsSection(ks, k2, Fl(ks \o k2))) /\ Rec(Lab("wants", ks, k2, <<>>))
          \/ r >= 5 /\ Producer(CancelsSection(ks)) /\ Rec(Lab("cancels", <<>>, <<>>, ks))
AB(f) == f \in AsBuilt
GLoop == \/ (StartCycle \/ BuildNone \/ OnSent \/ Count \/ DoRefresh(AB("Refresh"))) /\ UNCHANGED hist
         \/ Finish(AsBuilt \cap {"Empty", "Mark", "Merge"}) /\ UNCHANGED hist
         \/ (Snapshot \/ (\E c \in Cids : BuildCancel(c)) \/ BuildPeer \/ BuildBcst \/ Send) /\ Rec(L)
         \/ rbs < MaxRb /\ pc = "rest" /\ RebroadcastReq /\ Rec(Lab("rb", <<>>, <<>>, <<>>))
Flush == /\ Len(hist) >= E
         /\ PrintT(<<"BEHAVIOUR", ToJson([sh |-> sh, maxN |-> IF maxN = Unbounded THEN 0 ELSE maxN, steps |-> hist])>>)
         /\ hist' = <<>>
         /\ \E s \in BOOLEAN, n \in {1, 2, 3, Unbounded} :
              /\ bp' = [c \in Cids |-> None] /\ bs' = [c \in Cids |-> None] /\ pp' = [c \in Cids |-> None] /\ ps' = [c \in Cids |-> None]
              /\ bAt' = [c \in Cids |-> FALSE] /\ pAt' = [c \in Cids |-> FALSE]
              /\ cancels' = [c \in Cids |-> 0] /\ seq' = 1 /\ work' = FALSE /\ sigs' = 0 /\ rbReq' = FALSE
              /\ pc' = "rest" /\ snapC' = {} /\ snapP' = <<>> /\ snapB' = <<>> /\ doneC' = {} /\ nP' = 0 /\ nB' = 0 /\ size' = 0
              /\ msg' = [c \in Cids |-> NoEntry] /\ markP' = {} /\ markB' = {}
              /\ held' = [c \in Cids |-> 0] /\ cwP' = [c \in Cids |-> 0] /\ cwB' = [c \in Cids |-> FALSE]
              /\ sh' = s /\ maxN' = n /\ ops' = 0 /\ rbs' = 0
GNext == IF Len(hist) >= E THEN Flush
         ELSE \/ GProducer
              \/ Signal /\ UNCHANGED hist
              \/ GLoop
GSpec == Init /\ hist = <<>> /\ [][GNext]_gvars
=============================================================================
