SPECIFICATION GSpec
CONSTANTS Cids = {1, 2, 3, 4}
          MaxOps = 0
          MaxRb = 0
          NProd = 2
          AsBuilt = {"ReAdd"}
          NCalls = 2
          Wide = FALSE
          MaxNs = {1, 2}
          Family = "burst"
INVARIANT Emit
CHECK_DEADLOCK FALSE
