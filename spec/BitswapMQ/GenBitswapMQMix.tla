--------------------------- MODULE GenBitswapMQMix ---------------------------
(* Phase G for C35, family "Mix": EXHAUSTIVE enumeration (BFS) of the short producer histories in
   which requests of DIFFERENT kinds meet on one CID -- want-block / want-have / broadcast
   want-have / cancel (and both peer types in one call, a rebroadcast), every one followed by one
   of three gaps:
       none  : the next call follows at once (both calls meet in the pending lists / in one window),
       win   : the loop runs up to and including its snapshot, the next call falls into the
               lock-free window,
       drain : the loop runs until the queue is idle (the earlier want is on the SENT list when the
               next call arrives); the schedule then contains an "I" step: the harness brings the
               real queue to quiescence and logs an Idle event with the tracking lists, so
               Converged / SentListFaithful are evaluated at that point of the run;
   for both settings of HAVE support, closed by a cancel of every CID and a final drain.
   The loop is driven deterministically in between (the interleavings of the loop with producers
   are the business of the -simulate family and of the concurrent runs).
   Every producer label carries the model's view of the CIDs it touches BEFORE the call
   (st = <<c, ps, bs, pp, bp, cancels, held>>), every snapshot label the peer want-haves the
   no-HAVE filter dropped with what was on the sent lists (st = <<c, ps, bs>>): the runner
   classifies the schedules by these (which kind met which, on which list) and replays the same
   number per class, so the class coverage is reported from the model, not guessed.

   Family "burst" (several CIDs, SMALL message limits): every call is about 2..|Cids| CIDs at once
   (broadcast / want-block / want-have / block+have wants, cancels of all / all but one / one CID),
   so a cycle regularly cannot take everything that is queued.  What keeps the protocol alive
   then is the loop's re-signal after a send (Count: pendingWorkCount > 0) -- nothing else happens
   in the drain gap and after the closing cancel-of-everything, so Converged / WantNeverUnsent /
   CancelNeverLeftActive are evaluated at an Idle that only the re-signals can have reached.
   Every Count that leaves work behind is labelled ("N", not executed by the harness:
   st = <<#pending broadcast, #pending peer wants, #queued cancels, limit>>); the runner stratifies
   by WHICH kind of backlog was the reason for the re-signal (cancels only, peer wants only, ...). *)
EXTENDS BitswapMQ, Json

CONSTANTS NCalls,    \* producer calls before the closing cancel
          Wide,      \* two-CID calls as well (needs Cids = {1, 2}); else every call is about CID 1
          MaxNs,     \* message limits (entries) to enumerate
          Family     \* "mix" (above) | "burst": MORE requests than fit into one message, then silence (below)

VARIABLES hist, mode
gvars == <<vars, hist, mode>>

Lab(op, wb, wh, ks, st) == [op |-> op, wb |-> wb, wh |-> wh, ks |-> ks, st |-> st]
Rec(x) == hist' = Append(hist, x)
LabL(st) == Lab("L", <<>>, <<>>, <<>>, st)

Call(op, wb, wh, ks) == [op |-> op, wb |-> wb, wh |-> wh, ks |-> ks]
MixCalls == {Call("bcst", <<>>, <<>>, <<1>>), Call("wants", <<1>>, <<>>, <<>>), Call("wants", <<>>, <<1>>, <<>>),
          Call("cancels", <<>>, <<>>, <<1>>), Call("wants", <<1>>, <<1>>, <<>>)}
         \cup (IF Wide THEN {Call("bcst", <<>>, <<>>, <<1, 2>>), Call("wants", <<1>>, <<2>>, <<>>),
                             Call("wants", <<2>>, <<1>>, <<>>), Call("cancels", <<>>, <<>>, <<1, 2>>)}
               ELSE {})
Up(n) == [i \in 1..n |-> i]
NC == Cardinality(Cids)
BurstCalls == {Call("bcst", <<>>, <<>>, Up(NC)), Call("wants", Up(NC), <<>>, <<>>), Call("wants", <<>>, Up(NC), <<>>),
               Call("wants", <<1>>, Tail(Up(NC)), <<>>),
               Call("cancels", <<>>, <<>>, Up(NC)), Call("cancels", <<>>, <<>>, Up(NC - 1)), Call("cancels", <<>>, <<>>, <<NC>>)}
Calls == IF Family = "burst" THEN BurstCalls ELSE MixCalls
Touched(o) == o.wh \o o.wb \o o.ks
Fl(s) == IF MeetsCancel(s) THEN "ReAdd" \in AsBuilt ELSE FALSE
Sec(o) == CASE o.op = "bcst" -> BcstSection(o.ks, Fl(o.ks))
            [] o.op = "wants" -> WantsSection(o.wb, o.wh, Fl(Touched(o)))
            [] o.op = "cancels" -> CancelsSection(o.ks)

View(c) == <<c, ps[c].t, bs[c].t, pp[c].t, bp[c].t, cancels[c], held[c]>>
RECURSIVE Pre(_)
Pre(s) == IF s = <<>> THEN <<>> ELSE <<View(Head(s))>> \o Pre(Tail(s))
RECURSIVE SetToSeq(_)
SetToSeq(S) == IF S = {} THEN <<>> ELSE LET c == CHOOSE x \in S : \A y \in S : x <= y IN <<c>> \o SetToSeq(S \ {c})
Dropped == IF sh THEN <<>>
           ELSE LET D == {c \in Cids : pp[c].t = 1}
                    RECURSIVE F(_)
                    F(s) == IF s = <<>> THEN <<>> ELSE <<<<Head(s), ps[Head(s)].t, bs[Head(s)].t>>>> \o F(Tail(s))
                IN F(SetToSeq(D))

GCall == /\ mode = "call" /\ ops < NCalls
         /\ \E o \in Calls, g \in {"call", "win", "drain"} :
              /\ Producer(Sec(o)) /\ ops' = ops + 1
              /\ Rec(Lab(o.op, o.wb, o.wh, o.ks, Pre(Touched(o))))
              /\ mode' = g
\* a rebroadcast request while the queue is idle and has something to refresh
GRb == /\ mode = "call" /\ ops < NCalls /\ Idle /\ rbs < MaxRb
       /\ \E c \in Cids : (bs[c].t # 0 /\ bAt[c]) \/ (ps[c].t # 0 /\ pAt[c])
       /\ RebroadcastReq
       /\ Rec(Lab("rb", <<>>, <<>>, <<>>, Pre(SetToSeq(Cids))))
       /\ \E g \in {"win", "drain"} : mode' = g
GClose == /\ mode = "call" /\ ops = NCalls
          /\ LET ks == SetToSeq(Cids) IN
               /\ Producer(CancelsSection(ks)) /\ ops' = ops + 1
               /\ Rec(Lab("cancels", <<>>, <<>>, ks, Pre(ks)))
          /\ mode' = "final"

\* the loop, one deterministic step (labels "L" = the park points of the harness, as in GenBitswapMQ)
GLoopStep ==
    IF sigs > 0 THEN Signal /\ UNCHANGED hist
    ELSE \/ pc = "rest" /\ rbReq /\ DoRefresh(FALSE) /\ UNCHANGED hist
         \/ pc = "rest" /\ ~rbReq /\ StartCycle /\ UNCHANGED hist
         \/ Snapshot /\ Rec(LabL(Dropped))
         \/ /\ pc = "build" /\ snapC # doneC
            /\ BuildCancel(CHOOSE c \in snapC \ doneC : \A d \in snapC \ doneC : c <= d) /\ Rec(LabL(<<>>))
         \/ (BuildPeer \/ BuildBcst \/ Send) /\ Rec(LabL(<<>>))
         \/ (BuildNone \/ OnSent \/ Finish({})) /\ UNCHANGED hist
         \/ /\ Count
            /\ IF PendingWork > 0
               THEN Rec(Lab("N", <<>>, <<>>, <<>>,
                            <<Cardinality({c \in Cids : bp[c].t # 0}), Cardinality({c \in Cids : pp[c].t # 0}),
                              Cardinality({c \in Cids : cancels[c] # 0}), maxN>>))
               ELSE UNCHANGED hist
GDrain == /\ mode \in {"drain", "final"}
          /\ IF Idle THEN /\ UNCHANGED vars /\ Rec(Lab("I", <<>>, <<>>, <<>>, <<>>))
                          /\ mode' = IF mode = "final" THEN "done" ELSE "call"
             ELSE GLoopStep /\ UNCHANGED mode
GWin == /\ mode = "win"
        /\ IF Idle THEN UNCHANGED <<vars, hist>> /\ mode' = "call"
           ELSE GLoopStep /\ mode' = IF sigs = 0 /\ pc = "snap" THEN "call" ELSE "win"

GInit == Init /\ maxN \in MaxNs /\ hist = <<>> /\ mode = "call"
GNext == GCall \/ GRb \/ GClose \/ GDrain \/ GWin
GSpec == GInit /\ [][GNext]_gvars
Emit == mode # "done" \/ PrintT(<<"BEHAVIOUR", ToJson([sh |-> sh, maxN |-> IF maxN = Unbounded THEN 0 ELSE maxN,
                                                       steps |-> hist])>>)
=============================================================================
