SPECIFICATION GSpec
CONSTANTS Cids = {1}
          MaxOps = 0
          MaxRb = 1
          NProd = 2
          AsBuilt = {"ReAdd"}
          NCalls = 3
          Wide = FALSE
          MaxNs = {1000}
          Family = "mix"
INVARIANT Emit
CHECK_DEADLOCK FALSE
