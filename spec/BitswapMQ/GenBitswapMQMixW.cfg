SPECIFICATION GSpec
CONSTANTS Cids = {1, 2}
          MaxOps = 0
          MaxRb = 1
          NProd = 2
          AsBuilt = {"ReAdd"}
          NCalls = 2
          Wide = TRUE
          MaxNs = {1, 1000}
          Family = "mix"
INVARIANT Emit
CHECK_DEADLOCK FALSE
