SPECIFICATION Spec
CONSTANTS Cids = {c1, c2}
          MaxOps = 3
          MaxRb = 1
          NProd = 2
          AsBuilt = {}
SYMMETRY Sym
INVARIANTS TypeOK Converged WantNeverUnsent CancelNeverLeftActive NoHaveToLegacyPeer SentListFaithful HeldIsRemembered
CHECK_DEADLOCK FALSE
