SPECIFICATION Spec
CONSTANTS Cids = {1, 2}
          MaxOps = 3
          MaxRb = 1
          NProd = 2
          AsBuilt = {}
INVARIANTS TypeOK Converged WantNeverUnsent CancelNeverLeftActive NoHaveToLegacyPeer
CHECK_DEADLOCK FALSE
