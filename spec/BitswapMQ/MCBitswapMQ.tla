----------------------------- MODULE MCBitswapMQ -----------------------------
EXTENDS BitswapMQ
\* CIDs are interchangeable in the model-checking configurations (single-CID calls; the only CHOOSE,
\* in SortK, picks the unique minimum age), so TLC may identify states up to renaming.
Sym == Permutations(Cids)
=============================================================================
