SPECIFICATION TSpec
CONSTANTS Cids = {1, 2, 3, 4, 5, 6, 7, 8, 9, 10}
          MaxOps = 0
          MaxRb = 0
          NProd = 3
          AsBuilt = {}
          Devs = @DEVS@
INVARIANTS TypeOK TConverged TWantNeverUnsent TCancelNeverLeftActive TSentListFaithful NoHaveToLegacyPeer DevReport
CONSTRAINT TraceConstraint
POSTCONDITION TracePost
CHECK_DEADLOCK FALSE
