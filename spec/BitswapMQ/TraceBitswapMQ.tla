--------------------------- MODULE TraceBitswapMQ ---------------------------
(* Phase T/G for C35: a recorded history of the real MessageQueue (see the harness) must be a
   behaviour of BitswapMQ.  Logged: producer Invoke / Return, every gate passage of the lock-free
   build loop (Build), the Empty() test after the second critical section (Finish), every message
   given to the sender (Send), RbInvoke / RbReturn, Idle.  Not logged (existential): where between
   Invoke and Return a producer's atomic section and its signal happen, when the loop starts a
   cycle / takes its snapshot / runs onSent, pendingWorkCount, refresh.
   Open findings are the as-built alternatives of AddOne / Finish / DoRefresh, enabled by Devs.   *)
EXTENDS BitswapMQ, Json

CONSTANT Devs
Trace == ndJsonDeserialize("trace.ndjson")
VARIABLES l, ph, pop, dev, devAll, fin    \* dev: as-built alternatives used in this run; devAll: in the whole trace
\* fin: the second critical section has run but the loop has not yet reported its Empty() test ("none" otherwise)
tvars == <<vars, l, ph, pop, dev, devAll, fin>>
ASSUME TLCSet(1, 0)

Procs == 1..3
Ev == Trace[l]
IsEvent(e) == l <= Len(Trace) /\ Trace[l].ev = e /\ l' = l + 1
Silent == l <= Len(Trace) /\ UNCHANGED l            \* unlogged steps only while events remain
ToSet(s) == {s[i] : i \in 1..Len(s)}
DReAdd == "Dev_C35_ReAddDropsCancel"
DEmpty == "Dev_C35_EmptyMsgNoResignal"
DRefresh == "Dev_C35_RefreshForgetsSent"
DMark == "Dev_C35_MarkSentWeakerWant"
DMerge == "Dev_C35_RemoveDropsSharedEntry"

NoOp == [op |-> "", wb |-> <<>>, wh |-> <<>>, ks |-> <<>>]
ResetTo(s, n) ==
    /\ bp' = [c \in Cids |-> None] /\ bs' = [c \in Cids |-> None] /\ pp' = [c \in Cids |-> None] /\ ps' = [c \in Cids |-> None]
    /\ bAt' = [c \in Cids |-> FALSE] /\ pAt' = [c \in Cids |-> FALSE]
    /\ cancels' = [c \in Cids |-> 0] /\ seq' = 1
    /\ work' = FALSE /\ sigs' = 0 /\ rbReq' = FALSE
    /\ pc' = "rest" /\ snapC' = {} /\ snapP' = <<>> /\ snapB' = <<>> /\ doneC' = {} /\ nP' = 0 /\ nB' = 0 /\ size' = 0
    /\ msg' = [c \in Cids |-> NoEntry] /\ markP' = {} /\ markB' = {}
    /\ held' = [c \in Cids |-> 0] /\ cwP' = [c \in Cids |-> 0] /\ cwB' = [c \in Cids |-> FALSE]
    /\ sh' = s /\ maxN' = n /\ ops' = 0 /\ rbs' = 0
    /\ ph' = [p \in Procs |-> "idle"] /\ pop' = [p \in Procs |-> NoOp] /\ dev' = {} /\ fin' = "none" /\ UNCHANGED devAll

TInit == /\ Init /\ sh = TRUE /\ maxN = Unbounded
         /\ l = 1 /\ ph = [p \in Procs |-> "idle"] /\ pop = [p \in Procs |-> NoOp] /\ dev = {} /\ devAll = {} /\ fin = "none"

TReset == IsEvent("Reset") /\ ResetTo(Ev.sh, IF Ev.maxN = 0 THEN Unbounded ELSE Ev.maxN)

TInvoke == /\ IsEvent("Invoke") /\ ph[Ev.p] = "idle"
           /\ ph' = [ph EXCEPT ![Ev.p] = "inv"]
           /\ pop' = [pop EXCEPT ![Ev.p] = [op |-> Ev.op, wb |-> Ev.wb, wh |-> Ev.wh, ks |-> Ev.ks]]
           /\ UNCHANGED <<vars, dev, devAll, fin>>
Section(o, ab) == CASE o.op = "bcst" -> BcstSection(o.ks, ab)
                    [] o.op = "wants" -> WantsSection(o.wb, o.wh, ab)
                    [] o.op = "cancels" -> CancelsSection(o.ks)
\* the atomic section of producer p, somewhere between its Invoke and its Return
ProdAtomic(p) ==
    /\ Silent /\ ph[p] = "inv"
    /\ \E ab \in {FALSE} \cup {TRUE : x \in (Devs \cap {DReAdd})} :
         /\ ab => (pop[p].op # "cancels" /\ MeetsCancel(pop[p].wb \o pop[p].wh \o pop[p].ks))
         /\ LET q == Section(pop[p], ab) IN
              /\ Producer(q)
              /\ ph' = [ph EXCEPT ![p] = IF q.sig THEN "sig" ELSE "done"]
         /\ dev' = (IF ab THEN dev \cup {DReAdd} ELSE dev) /\ devAll' = (IF ab THEN devAll \cup {DReAdd} ELSE devAll)
    /\ UNCHANGED <<ops, pop, fin>>
ProdSignal(p) == /\ Silent /\ ph[p] = "sig" /\ Signal /\ ph' = [ph EXCEPT ![p] = "done"] /\ UNCHANGED <<pop, dev, devAll, fin>>
TReturn == /\ IsEvent("Return") /\ ph[Ev.p] = "done" /\ ph' = [ph EXCEPT ![Ev.p] = "idle"]
           /\ UNCHANGED <<vars, pop, dev, devAll, fin>>

\* unlogged loop steps
LoopSilent == /\ Silent /\ fin = "none" /\ (StartCycle \/ Snapshot \/ BuildNone \/ OnSent \/ Count \/ DoRefresh(FALSE))
              /\ UNCHANGED <<ph, pop, dev, devAll, fin>>
RefreshDev == /\ DRefresh \in Devs /\ Silent /\ fin = "none" /\ DoRefresh(TRUE)
              /\ (\E c \in Cids : (bs[c].t # 0 /\ bAt[c]) \/ (ps[c].t # 0 /\ pAt[c]))
              /\ dev' = dev \cup {DRefresh} /\ devAll' = devAll \cup {DRefresh} /\ UNCHANGED <<ph, pop, fin>>

TBuild == /\ IsEvent("Build") /\ fin = "none"
          /\ \/ Ev.kind = "cancel" /\ BuildCancel(Ev.c)
             \/ /\ Ev.kind = "entry" /\ BuildPeer
                /\ snapP[nP + 1] = [c |-> Ev.c, t |-> Ev.t, k |-> Ev.k] /\ Ev.sdh
             \/ /\ Ev.kind = "entry" /\ BuildBcst
                /\ snapB[nB + 1].c = Ev.c /\ snapB[nB + 1].k = Ev.k /\ Ev.t = WireType("b", 1) /\ ~Ev.sdh
          /\ UNCHANGED <<ph, pop, dev, devAll, fin>>

MarkDiffers == \E i \in 1..nP : WlCanRemoveType(pp, snapP[i].c, snapP[i].t) /\ pp[snapP[i].c].t # snapP[i].t
DevName(f) == IF f = "Mark" THEN DMark ELSE IF f = "Merge" THEN DMerge ELSE DEmpty
\* the second critical section is not logged where it happens: the loop reports its Empty() test a moment
\* later (Finish event), and a producer section may slip in between
FinishCS == /\ Silent /\ fin = "none"
            /\ \E ab \in SUBSET {f \in {"Mark", "Empty", "Merge"} : DevName(f) \in Devs} :
                 /\ "Mark" \in ab => MarkDiffers
                 /\ "Merge" \in ab => MergeDiffers(ab)
                 /\ Finish(ab)
                 /\ "Empty" \in ab => (pc' = "rest" /\ ~work' /\ PendingWork' > 0)
                 /\ dev' = dev \cup {DevName(f) : f \in ab} /\ devAll' = devAll \cup {DevName(f) : f \in ab}
            /\ fin' = IF pc' = "rest" THEN "empty" ELSE "nonempty"
            /\ UNCHANGED <<ph, pop>>
TFinish == /\ IsEvent("Finish") /\ fin # "none" /\ Ev.empty = (fin = "empty") /\ fin' = "none"
           /\ UNCHANGED <<vars, ph, pop, dev, devAll>>

\* the code's tracking lists as logged with Send and Idle (types only; rows for the CIDs on any list) must be the
\* spec's locked state at that point: what the queue REMEMBERS is bound, not only what it has transmitted so far
StRows == {<<c, ps[c].t, bs[c].t, pp[c].t, bp[c].t, IF cancels[c] # 0 THEN 1 ELSE 0>> :
             c \in {x \in Cids : ps[x].t # 0 \/ bs[x].t # 0 \/ pp[x].t # 0 \/ bp[x].t # 0 \/ cancels[x] # 0}}
StOk == ToSet(Ev.st) = StRows
EntrySet == {[c |-> c, cancel |-> msg[c].cancel, t |-> msg[c].t, sdh |-> msg[c].sdh, k |-> msg[c].k] : c \in {x \in Cids : msg[x].t # 0}}
TSend == /\ IsEvent("Send") /\ fin = "none" /\ Send /\ StOk
         /\ ToSet(Ev.entries) = EntrySet /\ Len(Ev.entries) = Cardinality(EntrySet)
         /\ UNCHANGED <<ph, pop, dev, devAll, fin>>

TRbInvoke == IsEvent("RbInvoke") /\ RebroadcastReq /\ UNCHANGED <<ph, pop, dev, devAll, fin>>
TRbReturn == IsEvent("RbReturn") /\ UNCHANGED <<vars, ph, pop, dev, devAll, fin>>
TIdle == /\ IsEvent("Idle") /\ Idle /\ fin = "none" /\ \A p \in Procs : ph[p] = "idle" /\ StOk
         /\ UNCHANGED <<vars, ph, pop, dev, devAll, fin>>

TNext == \/ TReset \/ TInvoke \/ TReturn \/ TBuild \/ TFinish \/ TSend \/ TRbInvoke \/ TRbReturn \/ TIdle
         \/ LoopSilent \/ RefreshDev \/ FinishCS
         \/ \E p \in Procs : ProdAtomic(p) \/ ProdSignal(p)
TSpec == TInit /\ [][TNext]_tvars

\* the property on every path that needed no as-built alternative
TConverged == dev = {} => Converged
TWantNeverUnsent == dev = {} => WantNeverUnsent
TCancelNeverLeftActive == dev = {} => CancelNeverLeftActive
TSentListFaithful == dev = {} => (SentListFaithful /\ HeldIsRemembered)
\* every accepting path reports the set of as-built alternatives it used; the runner keeps a smallest one
DevReport == l <= Len(Trace) \/ PrintT(<<"DEV_SET", devAll>>)

TraceConstraint == TLCSet(1, IF l - 1 > TLCGet(1) THEN l - 1 ELSE TLCGet(1))
TracePost == PrintT(<<"TRACE_HWM", TLCGet(1)>>)
=============================================================================
