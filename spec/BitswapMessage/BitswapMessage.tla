--------------------------- MODULE BitswapMessage ---------------------------
(* C34 -- bitswap/message/message.go: the message builder (impl), its two wire encodings
   and the decoder.

   A message is a record
       [wl      : Cid -|-> [prio, type, cancel, sdh],      m.wantlist   (keyed by CID)
        blocks  : SUBSET Cid,                              m.blocks     (honest: bytes = Data(cid))
        pres    : Cid -|-> presence type,                  m.blockPresences
        full    : BOOLEAN, pending]
   The builder calls are operators on such records (M...), transcribed from addEntry /
   AddBlock / AddBlockPresence / Remove / Reset; the spec actions apply them to `msg`.

   The wire (protobuf) form is a record of SEQUENCES (duplicates and any order allowed, as on a
   real wire):
       [entries : Seq([cidok, c, prio, cancel, type, sdh]), full,
        legacy  : Seq(Cid)          deprecated `blocks` field: the CIDv0/sha2-256 of each data item
        payload : Seq([ok, c])      `payload` field: c = Sum(prefix, data), ok = prefix/hash usable
        pres    : Seq([cidok, c, type]), pending]
   FromProto folds the builder operators over it exactly like newMessageFromProto and fails
   as a whole on the first unusable item.  The property: FromProto(ToProtoV1(m)) = m, the V0
   form keeps want-list, full flag and block bytes; a decoded block's CID is Sum(prefix, data)
   -- never a CID carried by the wire.

   Model CIDs are <<alias, h>>: alias = CID prefix (version/codec/hash function), h = the data.
   Types are strings: want types "Block" / "Have", presence types "Have" / "DontHave".
   Priorities / pending-bytes are opaque values (classes of int32 mapped by the harness);
   Zero is the value used by Cancel and by a fresh / V0-decoded message.                      *)
EXTENDS Integers, Sequences, FiniteSets, TLC

CONSTANTS Cids, Prios, Pendings
Zero == 0

VARIABLE msg
vars == <<msg>>

WTypes == {"Block", "Have"}
PTypes == {"Have", "DontHave"}

EmptyF == [x \in {} |-> 0]
Put(f, k, v) == [x \in (DOMAIN f) \cup {k} |-> IF x = k THEN v ELSE f[x]]
Del(f, k) == [x \in (DOMAIN f) \ {k} |-> f[x]]

Prefix(c) == c[1]
Data(c) == c[2]
SumCid(p, d) == <<p, d>>            \* the CID of data d under prefix p
V0Cid(d) == <<"v0", d>>             \* blocks.NewBlock(d): CIDv0, dag-pb, sha2-256

(* ------------------------------------------------------------------ builder operators *)
MNew(f) == [wl |-> EmptyF, blocks |-> {}, pres |-> EmptyF, full |-> f, pending |-> Zero]

\* addEntry on an existing entry e (all tests read the OLD entry, as in the code)
MergeEntry(e, prio, cancel, type, sdh) ==
    [prio   |-> IF e.type = type THEN prio ELSE e.prio,          \* priority only if same type
     cancel |-> e.cancel \/ cancel,                               \* only FALSE -> TRUE
     sdh    |-> e.sdh \/ sdh,                                     \* only FALSE -> TRUE
     type   |-> IF type = "Block" /\ e.type = "Have" THEN "Block" ELSE e.type]  \* block overrides have

MAddEntry(m, c, prio, cancel, type, sdh) ==
    [m EXCEPT !.wl = IF c \in DOMAIN m.wl
                     THEN Put(m.wl, c, MergeEntry(m.wl[c], prio, cancel, type, sdh))
                     ELSE Put(m.wl, c, [prio |-> prio, cancel |-> cancel, type |-> type, sdh |-> sdh])]
MCancel(m, c) == MAddEntry(m, c, Zero, TRUE, "Block", FALSE)
MRemove(m, c) == [m EXCEPT !.wl = Del(m.wl, c)]
MAddBlock(m, c) == [m EXCEPT !.blocks = m.blocks \cup {c}, !.pres = Del(m.pres, c)]
MAddPresence(m, c, t) == IF c \in m.blocks THEN m ELSE [m EXCEPT !.pres = Put(m.pres, c, t)]

(* ------------------------------------------------------------------ wire forms *)
RECURSIVE SetToSeq(_)
SetToSeq(S) == IF S = {} THEN <<>> ELSE LET x == CHOOSE y \in S : TRUE IN <<x>> \o SetToSeq(S \ {x})

EntryPB(m, c) == [cidok |-> TRUE, c |-> c, prio |-> m.wl[c].prio, cancel |-> m.wl[c].cancel,
                  type |-> m.wl[c].type, sdh |-> m.wl[c].sdh]
EntriesPB(m) == LET s == SetToSeq(DOMAIN m.wl) IN [i \in 1..Len(s) |-> EntryPB(m, s[i])]

ToProtoV1(m) ==
    LET bs == SetToSeq(m.blocks)
        ps == SetToSeq(DOMAIN m.pres)
    IN [entries |-> EntriesPB(m), full |-> m.full, legacy |-> <<>>,
        \* prefix + data travel; the CID itself does not
        payload |-> [i \in 1..Len(bs) |-> [ok |-> TRUE, c |-> SumCid(Prefix(bs[i]), Data(bs[i]))]],
        pres |-> [i \in 1..Len(ps) |-> [cidok |-> TRUE, c |-> ps[i], type |-> m.pres[ps[i]]]],
        pending |-> m.pending]

ToProtoV0(m) ==
    LET bs == SetToSeq(m.blocks)
    IN [entries |-> EntriesPB(m), full |-> m.full,
        legacy |-> [i \in 1..Len(bs) |-> V0Cid(Data(bs[i]))],     \* only the bytes travel
        payload |-> <<>>, pres |-> <<>>, pending |-> Zero]

RECURSIVE FoldEntries(_, _)
FoldEntries(m, s) == IF s = <<>> THEN m
                     ELSE FoldEntries(MAddEntry(m, Head(s).c, Head(s).prio, Head(s).cancel, Head(s).type, Head(s).sdh), Tail(s))
RECURSIVE FoldBlocks(_, _)
FoldBlocks(m, s) == IF s = <<>> THEN m ELSE FoldBlocks(MAddBlock(m, Head(s)), Tail(s))
RECURSIVE FoldPres(_, _)
FoldPres(m, s) == IF s = <<>> THEN m ELSE FoldPres(MAddPresence(m, Head(s).c, Head(s).type), Tail(s))

WireBad(p) == \/ \E i \in 1..Len(p.entries) : ~p.entries[i].cidok      \* empty / uncastable CID
              \/ \E i \in 1..Len(p.payload) : ~p.payload[i].ok          \* bad prefix / hash function
              \/ \E i \in 1..Len(p.pres)    : ~p.pres[i].cidok

\* newMessageFromProto: all or nothing
FromProto(p) ==
    IF WireBad(p) THEN [ok |-> FALSE]
    ELSE LET m1 == FoldEntries(MNew(p.full), p.entries)
             m2 == FoldBlocks(m1, p.legacy)
             m3 == FoldBlocks(m2, [i \in 1..Len(p.payload) |-> p.payload[i].c])
             m4 == FoldPres(m3, p.pres)
         IN [ok |-> TRUE, m |-> [m4 EXCEPT !.pending = p.pending]]

(* ------------------------------------------------------------------ actions *)
Init == \E f \in BOOLEAN : msg = MNew(f)

AddEntry(c, p, t, s) == msg' = MAddEntry(msg, c, p, FALSE, t, s)
Cancel(c)            == msg' = MCancel(msg, c)
Remove(c)            == msg' = MRemove(msg, c)
AddBlock(c)          == msg' = MAddBlock(msg, c)
AddPresence(c, t)    == msg' = MAddPresence(msg, c, t)
SetPending(p)        == msg' = [msg EXCEPT !.pending = p]
Reset(f)             == msg' = MNew(f)

Next == \/ \E c \in Cids, p \in Prios, t \in WTypes, s \in BOOLEAN : AddEntry(c, p, t, s)
        \/ \E c \in Cids : Cancel(c) \/ Remove(c) \/ AddBlock(c)
        \/ \E c \in Cids, t \in PTypes : AddPresence(c, t)
        \/ \E p \in Pendings : SetPending(p)
        \/ \E f \in BOOLEAN : Reset(f)
Spec == Init /\ [][Next]_vars

(* ------------------------------------------------------------------ the property *)
EntryT == [prio : Prios \cup {Zero}, cancel : BOOLEAN, type : WTypes, sdh : BOOLEAN]
TypeOK == /\ DOMAIN msg.wl \subseteq Cids /\ \A c \in DOMAIN msg.wl : msg.wl[c] \in EntryT
          /\ msg.blocks \subseteq Cids
          /\ DOMAIN msg.pres \subseteq Cids /\ \A c \in DOMAIN msg.pres : msg.pres[c] \in PTypes
          /\ msg.full \in BOOLEAN /\ msg.pending \in Pendings \cup {Zero}
BlocksPresDisjoint == msg.blocks \cap DOMAIN msg.pres = {}

RT1 == FromProto(ToProtoV1(msg))
RT0 == FromProto(ToProtoV0(msg))
RoundTripV1 == RT1.ok /\ RT1.m = msg
RoundTripV0 == /\ RT0.ok
               /\ RT0.m.wl = msg.wl /\ RT0.m.full = msg.full
               /\ RT0.m.blocks = {V0Cid(Data(c)) : c \in msg.blocks}       \* bytes kept, CIDs become v0
               /\ RT0.m.pres = EmptyF /\ RT0.m.pending = Zero
=============================================================================
