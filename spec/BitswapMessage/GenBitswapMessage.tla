-------------------------- MODULE GenBitswapMessage --------------------------
(* Phase G for C34.  Two generators.

   GSpec (BFS, VIEW = msg): TLC expands every distinct message state reachable within D builder
   calls exactly once and the next-state action prints, for EVERY enabled call in that state, the
   shortest call sequence reaching the state followed by that call, with the expected state and
   round-trip results after the last call.  Because the harness compares the complete state
   after the last call, covering every (state, call) edge covers every call sequence of depth
   <= D by induction (the builder is deterministic).

   GSpecSim (-simulate): long random call sequences over a larger universe; expectation after
   every call.

   Expected observables per checked step:
     st  = the message itself; by invariant RoundTripV1 (checked here too) st is also the
           expected result of FromNet(ToNetV1(m));
     v0b = expected block CIDs of FromNet(ToNetV0(m)) (want-list and full flag as in st,
           no presences, pending = Zero by RoundTripV0);
     fresh = AddEntry/Cancel created a new entry (the call returns the entry's wire size, else 0). *)
EXTENDS BitswapMessage, Json
CONSTANTS D, E
VARIABLE hist
gvars == <<msg, hist>>
GView == msg

Cids2 == {<<"v0", 1>>, <<"v1", 1>>}
CidsSim == {<<"v0", 1>>, <<"v1", 1>>, <<"v0", 2>>, <<"v1", 2>>, <<"id", 2>>, <<"s5", 3>>, <<"t20", 3>>, <<"v1", 3>>}

WlView(m) == LET s == SetToSeq(DOMAIN m.wl)
             IN [i \in 1..Len(s) |-> [c |-> s[i], prio |-> m.wl[s[i]].prio, type |-> m.wl[s[i]].type,
                                      cancel |-> m.wl[s[i]].cancel, sdh |-> m.wl[s[i]].sdh]]
PresView(m) == LET s == SetToSeq(DOMAIN m.pres) IN [i \in 1..Len(s) |-> [c |-> s[i], type |-> m.pres[s[i]]]]
View(m) == [wl |-> WlView(m), blocks |-> SetToSeq(m.blocks), pres |-> PresView(m),
            full |-> m.full, pending |-> m.pending]

NoC == <<"none", 0>>
Op(op, c, p, t, s, f) == [op |-> op, c |-> c, p |-> p, t |-> t, s |-> s, f |-> f]
Rec(o) == hist' = Append(hist, [o |-> o, fresh |-> (o.c \notin DOMAIN msg.wl),
                                st |-> View(msg'), v0b |-> SetToSeq(FromProto(ToProtoV0(msg')).m.blocks)])

GInit == Init /\ hist = <<[o |-> Op("New", NoC, 0, "", FALSE, msg.full)]>>
Calls == \/ \E c \in Cids, p \in Prios, t \in WTypes, s \in BOOLEAN : AddEntry(c, p, t, s) /\ Rec(Op("AddEntry", c, p, t, s, FALSE))
         \/ \E c \in Cids : \/ Cancel(c) /\ Rec(Op("Cancel", c, 0, "", FALSE, FALSE))
                            \/ Remove(c) /\ Rec(Op("Remove", c, 0, "", FALSE, FALSE))
                            \/ AddBlock(c) /\ Rec(Op("AddBlock", c, 0, "", FALSE, FALSE))
         \/ \E c \in Cids, t \in PTypes : AddPresence(c, t) /\ Rec(Op("AddPresence", c, 0, t, FALSE, FALSE))
         \/ \E p \in Pendings : SetPending(p) /\ Rec(Op("SetPending", NoC, p, "", FALSE, FALSE))
         \/ \E f \in BOOLEAN : Reset(f) /\ Rec(Op("Reset", NoC, 0, "", FALSE, f))

\* BFS: print (shortest prefix, call) for every edge; only the last step carries expectations
Strip(h) == [i \in 1..Len(h) |-> IF i < Len(h) THEN [o |-> h[i].o] ELSE h[i]]
GNext == /\ Len(hist) <= D
         /\ Calls
         /\ PrintT(<<"BEHAVIOUR", ToJson([steps |-> Strip(hist')])>>)
GSpec == GInit /\ [][GNext]_gvars

\* -simulate: one behaviour per E calls, expectations after every call
Flush == /\ Len(hist) = E + 1
         /\ PrintT(<<"BEHAVIOUR", ToJson([steps |-> hist])>>)
         /\ \E f \in BOOLEAN : msg' = MNew(f) /\ hist' = <<[o |-> Op("New", NoC, 0, "", FALSE, f)]>>
\* parameters drawn with RandomElement so that a simulation step has 7 candidate successors, not ~250
\* (bound by \E over singleton sets: a LET definition would be re-evaluated, i.e. re-drawn, at every use)
CallsSim == \E c \in {RandomElement(Cids)}, p \in {RandomElement(Prios)}, t \in {RandomElement(WTypes)},
               pt \in {RandomElement(PTypes)}, s \in {RandomElement(BOOLEAN)}, q \in {RandomElement(Pendings)},
               k \in {RandomElement(1..12)} :            \* Reset only occasionally
               \/ AddEntry(c, p, t, s) /\ Rec(Op("AddEntry", c, p, t, s, FALSE))
               \/ Cancel(c) /\ Rec(Op("Cancel", c, 0, "", FALSE, FALSE))
               \/ Remove(c) /\ Rec(Op("Remove", c, 0, "", FALSE, FALSE))
               \/ AddBlock(c) /\ Rec(Op("AddBlock", c, 0, "", FALSE, FALSE))
               \/ AddPresence(c, pt) /\ Rec(Op("AddPresence", c, 0, pt, FALSE, FALSE))
               \/ SetPending(q) /\ Rec(Op("SetPending", NoC, q, "", FALSE, FALSE))
               \/ k = 1 /\ Reset(s) /\ Rec(Op("Reset", NoC, 0, "", FALSE, s))
GNextSim == IF Len(hist) = E + 1 THEN Flush ELSE CallsSim
GSpecSim == GInit /\ [][GNextSim]_gvars
=============================================================================
