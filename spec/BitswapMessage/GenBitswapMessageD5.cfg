SPECIFICATION GSpec
CONSTANTS Cids <- Cids2
          Prios = {0, 1}
          Pendings = {0, 1}
          D = 5
          E = 0
VIEW GView
INVARIANTS RoundTripV1 RoundTripV0 BlocksPresDisjoint
