SPECIFICATION GSpecSim
CONSTANTS Cids <- CidsSim
          Prios = {0, 1, 2, 3, 4}
          Pendings = {0, 1, 2, 3, 4}
          D = 0
          E = 50
INVARIANTS RoundTripV1 RoundTripV0 BlocksPresDisjoint
