-------------------------- MODULE MCBitswapMessage --------------------------
EXTENDS BitswapMessage
\* two CIDs with the same multihash/data (v0 / v1 alias) [+ a third one in the thorough config]
Cids2 == {<<"v0", 1>>, <<"v1", 1>>}
Cids3 == {<<"v0", 1>>, <<"v1", 1>>, <<"v1", 2>>}
=============================================================================
