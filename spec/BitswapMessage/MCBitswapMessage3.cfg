SPECIFICATION Spec
CONSTANTS Cids <- Cids3
          Prios = {0, 1}
          Pendings = {0, 1}
INVARIANTS TypeOK BlocksPresDisjoint RoundTripV1 RoundTripV0
