SPECIFICATION TSpec
CONSTANTS Cids = {}
          Prios = {}
          Pendings = {}
INVARIANTS BlocksPresDisjoint
CONSTRAINT TraceConstraint
POSTCONDITION TracePost
CHECK_DEADLOCK FALSE
