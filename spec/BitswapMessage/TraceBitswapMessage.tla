------------------------- MODULE TraceBitswapMessage -------------------------
(* Phase T for C34 (wire-mutation clause).  Every event is one call of FromNet on arbitrary
   (mutated) wire bytes:
     frameok, pbok : the harness' own framing / protobuf decoding succeeded
     pb            : the decoded protobuf projected to the spec's wire record (CIDs named by first
                     appearance; payload items carry the CID obtained from THEIR OWN prefix + data)
     ok, nilmsg    : FromNet returned no error / returned a nil message
     res           : the returned message (projected), selfcert: every returned block's digest was
                     recomputed from its bytes by the harness and equals the digest in its CID.
   The spec decides: the decoder must fail as a whole (nil message) exactly when the frame, the
   protobuf or one item is unusable, and otherwise return precisely FromProto(pb) -- the fold of the
   builder's merge rules over the wire items -- with self-certified blocks.                       *)
EXTENDS BitswapMessage, Json

Trace == ndJsonDeserialize("trace.ndjson")
VARIABLE l
tvars == <<msg, l>>
ASSUME TLCSet(1, 0)

Ev == Trace[l]
IsEvent(e) == l <= Len(Trace) /\ Trace[l].ev = e /\ l' = l + 1
ToSet(s) == {s[i] : i \in 1..Len(s)}

WlSet(m) == {[c |-> c, prio |-> m.wl[c].prio, type |-> m.wl[c].type, cancel |-> m.wl[c].cancel, sdh |-> m.wl[c].sdh] : c \in DOMAIN m.wl}
PresSet(m) == {[c |-> c, type |-> m.pres[c]] : c \in DOMAIN m.pres}

Matches(r, m) == /\ ToSet(r.wl) = WlSet(m) /\ Len(r.wl) = Cardinality(DOMAIN m.wl)
                 /\ ToSet(r.blocks) = m.blocks /\ Len(r.blocks) = Cardinality(m.blocks)
                 /\ ToSet(r.pres) = PresSet(m) /\ Len(r.pres) = Cardinality(DOMAIN m.pres)
                 /\ r.full = m.full /\ r.pending = m.pending

\* FromProto starts from MNew (pending = Zero = 0) but always overwrites pending with the wire value,
\* which is a string in traces; priorities are strings throughout.
Expected == IF Ev.frameok /\ Ev.pbok THEN FromProto(Ev.pb) ELSE [ok |-> FALSE]

TInit == l = 1 /\ msg = MNew(FALSE)
TParse == /\ IsEvent("Parse")
          /\ LET x == Expected IN
               IF x.ok THEN Ev.ok /\ ~Ev.nilmsg /\ Ev.selfcert /\ Matches(Ev.res, x.m) /\ msg' = x.m
               ELSE ~Ev.ok /\ Ev.nilmsg /\ Ev.n = 0 /\ UNCHANGED msg       \* rejected, no partial result
TNext == TParse
TSpec == TInit /\ [][TNext]_tvars

TraceConstraint == TLCSet(1, IF l - 1 > TLCGet(1) THEN l - 1 ELSE TLCGet(1))
TracePost == PrintT(<<"TRACE_HWM", TLCGet(1)>>)
=============================================================================
