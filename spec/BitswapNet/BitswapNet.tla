------------------------------ MODULE BitswapNet ------------------------------
(* C37 -- the contract of a bitswap exchange as seen by its callers, in a network of nodes.

   Nodes hold blocks (has) and are connected by an undirected relation (adj).  A caller issues
   requests on a node: GetBlock / GetBlocks directly on the exchange (s = 0, a temporary session
   of its own) or on a long-lived session s.  A request carries a *sequence* of keys (duplicates
   allowed).  The exchange answers on the request's channel:

     Deliver(r, b, from)   only a requested key, only once per distinct key, only a block that
                           the named neighbour really holds (from # 0) or that arrived locally
                           (NotifyNewBlocks on the requester while the request was open, from = 0);
     Close(r)              the channel closes; without cancellation only after every distinct key
                           has been delivered;
     Snapshot(n, W)        GetWantlist() read after the node settled: only keys of requests of
                           that node that are still open (Cleanup);
     Timeout(r)            the driver's deadline expired: never for a request that is obliged to
                           finish (cancelled, or every missing key held by a neighbour / arrived
                           locally) -- the operational form of the liveness clause.

   The guards ARE the property; the invariants below restate it on the state.  BitswapProto
   (the protocol-level model of the client's sessions, interest manager, want manager and
   notification hub) is checked against this module's invariants under a refinement mapping. *)
EXTENDS Naturals, Sequences, FiniteSets, TLC

CONSTANTS MaxNode, MaxBlock, MaxReq, MaxSess

Node  == 1..MaxNode
Block == 1..MaxBlock
Req   == 1..MaxReq
Sess  == 1..MaxSess
Kinds == {"GetBlock", "GetBlocks"}

VARIABLES adj,        \* [Node -> SUBSET Node]   connections (symmetric)
          has,        \* [Node -> SUBSET Block]  blockstore contents (monotone: nothing is deleted)
          adding,     \* [Node -> [Block -> Nat]] Put+NotifyNewBlocks calls in progress
          rq,         \* [Req -> request record]
          delivered,  \* [Req -> Seq(Block)]     what came out of the request's channel, in order
          larr,       \* [Req -> SUBSET Block]   blocks announced locally on the node while r was open (may be delivered)
          lsure,      \* [Req -> SUBSET Block]   ... announced after r's call had returned, i.e. after its subscription
                      \*                         was in place (must be delivered); GetBlock is synchronous: never
          sess,       \* [Sess -> [st, node]]
          wl,         \* [Node -> SUBSET Block]  last settled GetWantlist() snapshot
          fresh       \* [Node -> BOOLEAN]       snapshot taken and nothing happened since

vars == <<adj, has, adding, rq, delivered, larr, lsure, sess, wl, fresh>>

Range(s) == {s[i] : i \in 1..Len(s)}
NoReq  == [st |-> "none", node |-> 0, s |-> 0, kind |-> "GetBlocks", keys |-> <<>>, canc |-> FALSE, iss |-> FALSE]
NoSess == [st |-> "none", node |-> 0]

KeySet(r)  == Range(rq[r].keys)
Got(r)     == Range(delivered[r])
Open(r)    == rq[r].st = "open"
Awaited(r) == KeySet(r) \ Got(r)
OpenAt(n)  == {r \in Req : Open(r) /\ rq[r].node = n}
\* keys that may legitimately be on node n's want-list: those of its requests that are still open
\* (the property speaks about the time after completion / cancellation; a key already delivered to a
\* request that is still waiting for others is not required to be gone yet)
LiveWanted(n) == UNION {KeySet(r) : r \in OpenAt(n)}

Reachable(n, b) == \E m \in adj[n] : b \in has[m]
\* where may block b handed to request r come from?
Source(r, b, from) == IF from = 0 THEN b \in larr[r]
                      ELSE from \in adj[rq[r].node] /\ b \in has[from]
Obligated(r) == rq[r].canc \/ \A b \in Awaited(r) : Reachable(rq[r].node, b) \/ b \in lsure[r]

Init == /\ adj \in [Node -> SUBSET Node]
        /\ \A n \in Node : n \notin adj[n] /\ \A m \in adj[n] : n \in adj[m]
        /\ has \in [Node -> SUBSET Block]
        /\ adding = [n \in Node |-> [b \in Block |-> 0]]
        /\ rq = [r \in Req |-> NoReq]
        /\ delivered = [r \in Req |-> <<>>]
        /\ larr = [r \in Req |-> {}] /\ lsure = [r \in Req |-> {}]
        /\ sess = [s \in Sess |-> NoSess]
        /\ wl = [n \in Node |-> {}]
        /\ fresh = [n \in Node |-> FALSE]

Stale == fresh' = [n \in Node |-> FALSE] /\ UNCHANGED wl

OpenSession(s, n) ==
    /\ sess[s].st = "none"
    /\ sess' = [sess EXCEPT ![s] = [st |-> "open", node |-> n]]
    /\ Stale /\ UNCHANGED <<adj, has, adding, rq, delivered, larr, lsure>>

RequestI(r, n, s, kind, keys, issued) ==
    /\ rq[r].st = "none"
    /\ kind \in Kinds /\ (kind = "GetBlock" => Len(keys) = 1)
    /\ s # 0 => (sess[s].st # "none" /\ sess[s].node = n)
    /\ rq' = [rq EXCEPT ![r] = [st |-> "open", node |-> n, s |-> s, kind |-> kind, keys |-> keys,
                                canc |-> (s # 0 /\ sess[s].st = "cancelled"), iss |-> issued]]
    /\ larr' = [larr EXCEPT ![r] = {b \in Block : adding[n][b] > 0}]
    /\ Stale /\ UNCHANGED <<adj, has, adding, delivered, lsure, sess>>

Request(r, n, s, kind, keys) == RequestI(r, n, s, kind, keys, FALSE)

\* the GetBlocks call returned: the subscription of r is in place
Issued(r) ==
    /\ Open(r) /\ ~rq[r].iss /\ rq[r].kind = "GetBlocks"
    /\ rq' = [rq EXCEPT ![r].iss = TRUE]
    /\ Stale /\ UNCHANGED <<adj, has, adding, delivered, larr, lsure, sess>>

Deliver(r, b, from) ==
    /\ Open(r)
    /\ b \in Awaited(r)            \* only requested, at most once per distinct key
    /\ Source(r, b, from)          \* nothing out of thin air
    /\ delivered' = [delivered EXCEPT ![r] = Append(@, b)]
    /\ Stale /\ UNCHANGED <<adj, has, adding, rq, larr, lsure, sess>>

Cancel(r) ==
    /\ Open(r)                      \* cancelling twice, or after the session was cancelled, changes nothing
    /\ rq' = [rq EXCEPT ![r].canc = TRUE]
    /\ Stale /\ UNCHANGED <<adj, has, adding, delivered, larr, lsure, sess>>

CancelSession(s) ==
    /\ sess[s].st = "open"
    /\ sess' = [sess EXCEPT ![s].st = "cancelled"]
    /\ rq' = [r \in Req |-> IF Open(r) /\ rq[r].s = s THEN [rq[r] EXCEPT !.canc = TRUE] ELSE rq[r]]
    /\ Stale /\ UNCHANGED <<adj, has, adding, delivered, larr, lsure>>

Close(r) ==
    /\ Open(r)
    /\ rq[r].canc \/ Awaited(r) = {}
    /\ rq' = [rq EXCEPT ![r].st = "closed"]
    /\ Stale /\ UNCHANGED <<adj, has, adding, delivered, larr, lsure, sess>>

\* Put + NotifyNewBlocks on node n: begin ...
AddBlock(n, b) ==
    /\ has' = [has EXCEPT ![n] = @ \cup {b}]
    /\ adding' = [adding EXCEPT ![n][b] = @ + 1]
    /\ larr' = [r \in Req |-> IF r \in OpenAt(n) THEN larr[r] \cup {b} ELSE larr[r]]
    /\ lsure' = [r \in Req |-> IF r \in OpenAt(n) /\ rq[r].iss THEN lsure[r] \cup {b} ELSE lsure[r]]
    /\ Stale /\ UNCHANGED <<adj, rq, delivered, sess>>
\* ... and end (after it no *new* request can be served by this announcement)
AddDone(n, b) ==
    /\ adding[n][b] > 0
    /\ adding' = [adding EXCEPT ![n][b] = @ - 1]
    /\ Stale /\ UNCHANGED <<adj, has, rq, delivered, larr, lsure, sess>>

Snapshot(n, W) ==
    /\ W \subseteq LiveWanted(n)                     \* Cleanup
    /\ wl' = [wl EXCEPT ![n] = W]
    /\ fresh' = [fresh EXCEPT ![n] = TRUE]
    /\ UNCHANGED <<adj, has, adding, rq, delivered, larr, lsure, sess>>

Timeout(r) ==
    /\ Open(r) /\ ~Obligated(r)
    /\ UNCHANGED vars

KeySeqs == UNION {[1..k -> Block] : k \in 0..2}

Next == \/ \E s \in Sess, n \in Node : OpenSession(s, n)
        \/ \E r \in Req, n \in Node, s \in Sess \cup {0}, k \in Kinds, ks \in KeySeqs : Request(r, n, s, k, ks)
        \/ \E r \in Req, b \in Block, f \in Node \cup {0} : Deliver(r, b, f)
        \/ \E r \in Req : Cancel(r) \/ Close(r) \/ Timeout(r) \/ Issued(r)
        \/ \E s \in Sess : CancelSession(s)
        \/ \E n \in Node, b \in Block : AddBlock(n, b) \/ AddDone(n, b)
        \/ \E n \in Node : \E W \in SUBSET LiveWanted(n) : Snapshot(n, W)

Spec == Init /\ [][Next]_vars
\* bound for exhaustive checking of this module alone (the announcement counter is otherwise unbounded)
MCBound == \A n \in Node, b \in Block : adding[n][b] <= 1

-----------------------------------------------------------------------------
(* The property, on the state *)
TypeOK == /\ \A r \in Req : rq[r].st \in {"none", "open", "closed"} /\ Got(r) \subseteq Block
          /\ \A n \in Node : has[n] \subseteq Block /\ wl[n] \subseteq Block

NoDup(s) == \A i, j \in 1..Len(s) : i # j => s[i] # s[j]
AtMostOncePerDistinctKey == \A r \in Req : NoDup(delivered[r])
OnlyRequested == \A r \in Req : Got(r) \subseteq KeySet(r)
OnlyFromHolder == \A r \in Req : \A b \in Got(r) : b \in larr[r] \/ Reachable(rq[r].node, b)
ClosedComplete == \A r \in Req : (rq[r].st = "closed" /\ ~rq[r].canc) => KeySet(r) \subseteq Got(r)
Cleanup == \A n \in Node : fresh[n] => wl[n] \subseteq LiveWanted(n)
=============================================================================
