----------------------------- MODULE BitswapProto -----------------------------
(* C37, protocol level: ONE requester node (the bitswap client, modelled at the grain of its
   goroutines and shared structures) and the server side of its neighbours.

   Client pieces and the code they stand for
     caller / getter     getter.AsyncGetBlocks + handleIncoming, Client.GetBlocks wrapper
                         (Issue, UserRecv, Complete, Cancel, GetterExit)
     notifications       Subscribe = AddSubOnceEach, Publish                      (sub, pipe)
     interest manager    sessioninterestmanager (RecordSessionInterest, RemoveSessionWants,
                         RemoveSession, FilterInterests/SplitWantedUnwanted)      (sim)
     session loop        Session.run: opWant, opCancel, opReceive, opBroadcast, idle tick,
                         shutdown; sessionWants                                   (sq, sw)
     want sender         sessionWantSender.Run/onChange: add, cancel, update, sendNextWants,
                         exhausted wants                                          (wq, swt, sentTo, speers, bpm)
     peer want manager   peerwantmanager: broadcastWantHaves, sendWants, sendCancels (bc, pwb, pwh)
                         GetWantlist() = bc \cup UNION pwb \cup UNION pwh
   Servers: decision engine reduced to "answer want-have with HAVE (large block) or the block
   (small block), want-block with the block, DONT_HAVE when asked to; remember the want until
   cancelled; serve remembered wants when the block arrives".
   Channels are FIFO per direction and peer.

   Two further switches (ordinary definitions, FALSE = the order the property needs; control cfgs override them with
   `<-`) split a step into its sub-steps in the OTHER order, with every goroutine free to run in between:
     ShutdownRemoveFirst  Session.handleShutdown: SessionManager.RemoveSession (withdraw interest, CANCEL) BEFORE the
                          want sender has stopped: a sender in the middle of onChange sends wants after the CANCELs.
     IssueWantFirst       getter.AsyncGetBlocks: the want is handed to the session BEFORE notif.Subscribe: a block
                          published in between is consumed by the session and never reaches the caller.

   The Fix* constants select, per mechanism, the as-built behaviour (FALSE) or the repaired
   one (TRUE); see notes/C37.md.  The property (invariants of BitswapNet under the mapping at the
   end, Cleanup at quiescence, and liveness under weak fairness) is checked for the repaired
   design; the as-built configurations are kept as controls that MUST fail. *)
EXTENDS Naturals, Sequences, FiniteSets, TLC

CONSTANTS Peer,        \* neighbours of the requester
          Key,
          Req,         \* request identifiers
          RSess,       \* [Req -> session id]   (requests with the same id share a session)
          RKeys,       \* [Req -> SUBSET Key]
          Temp,        \* sessions that are temporary (Client.GetBlocks): closed when their request ends
          Small,       \* keys whose block is small: a want-have is answered with the block itself
          Has0,        \* [Peer -> SUBSET Key] initial placement
          Adds,        \* set of <<node, key>> that may be added later; node 0 = the requester itself
          FixA, FixC, FixD, FixE, FixB, FixG

Sess == {RSess[r] : r \in Req}
None == 0
ShutdownRemoveFirst == FALSE
IssueWantFirst == FALSE

VARIABLES has, ledger, c2p, p2c,
          rst, wasCanc, sub, pipe, got, larr,
          sim, sst, sdown, sq, sw, calls,
          wq, swt, sentTo, speers, bpm,
          bc, pwb, pwh,
          pcl, pcw,    \* [Sess -> SUBSET Key] CANCELs decided by the interest manager (first critical section) that the
                       \* session loop / the want sender still has to hand to the peer manager (second one)
          added

vars == <<has, ledger, c2p, p2c, rst, wasCanc, sub, pipe, got, larr, sim, sst, sdown, sq, sw, calls,
          wq, swt, sentTo, speers, bpm, bc, pwb, pwh, pcl, pcw, added>>

Range(s) == {s[i] : i \in 1..Len(s)}
ReqsOf(s) == {r \in Req : RSess[r] = s}

Init == /\ has = Has0
        /\ ledger = [p \in Peer |-> [k \in Key |-> "none"]]
        /\ c2p = [p \in Peer |-> <<>>] /\ p2c = [p \in Peer |-> <<>>]
        /\ rst = [r \in Req |-> "idle"] /\ wasCanc = [r \in Req |-> FALSE]
        /\ sub = [r \in Req |-> {}] /\ pipe = [r \in Req |-> <<>>] /\ got = [r \in Req |-> <<>>]
        /\ larr = [r \in Req |-> {}]
        /\ sim = [k \in Key |-> {}]
        /\ sst = [s \in Sess |-> IF s \in Temp THEN "none" ELSE "run"]
        /\ sdown = [s \in Sess |-> FALSE]
        /\ sq = [s \in Sess |-> <<>>] /\ sw = [s \in Sess |-> {}]
        /\ calls = [s \in Sess |-> [k \in Key |-> {}]]
        /\ wq = [s \in Sess |-> <<>>] /\ swt = [s \in Sess |-> {}]
        /\ sentTo = [s \in Sess |-> [k \in Key |-> None]]
        /\ speers = [s \in Sess |-> {}]
        /\ bpm = [p \in Peer |-> [k \in Key |-> "U"]]
        /\ bc = {} /\ pwb = [p \in Peer |-> {}] /\ pwh = [p \in Peer |-> {}]
        /\ pcl = [s \in Sess |-> {}] /\ pcw = [s \in Sess |-> {}]
        /\ added = {}

-----------------------------------------------------------------------------
(* peer want manager: every operator returns the new <<bc, pwb, pwh, c2p>> *)
PW == <<bc, pwb, pwh, c2p>>
SetSeq(S) == LET RECURSIVE F(_)
                 F(T) == IF T = {} THEN <<>> ELSE LET x == CHOOSE y \in T : TRUE IN <<x>> \o F(T \ {x})
             IN F(S)
Msgs(t, ks) == [i \in 1..Len(SetSeq(ks)) |-> [t |-> t, k |-> SetSeq(ks)[i]]]

\* BroadcastWantHaves(ks): keys not yet broadcast go to every peer that has no want for them yet
Broadcast(pw, ks) ==
    LET new == ks \ pw[1] IN
    <<pw[1] \cup new, pw[2], pw[3],
      [p \in Peer |-> pw[4][p] \o Msgs("wh", {k \in new : k \notin pw[2][p] \cup pw[3][p]})]>>

\* SendWants(p, wb, wh)
SendWants(pw, p, wb, wh) ==
    LET nb == wb \ pw[2][p]
        nh == {k \in wh : k \notin pw[1] /\ k \notin pw[2][p] \cup pw[3][p] /\ k \notin nb} IN
    <<pw[1],
      [pw[2] EXCEPT ![p] = @ \cup nb],
      [pw[3] EXCEPT ![p] = (@ \ nb) \cup nh],
      [pw[4] EXCEPT ![p] = @ \o Msgs("wb", nb) \o Msgs("whd", nh)]>>

\* SendCancels(ks).  The per-peer MessageQueue coalesces: a want that has not left the queue yet is simply dropped
\* by the cancel (and no CANCEL is sent for it); c2p[p] stands for that queue plus the wire, so wants for the
\* cancelled keys that the server has not consumed yet are removed from it.
Unsent(ch, ks) == {i \in 1..Len(ch) : ch[i].t \in {"wh", "whd", "wb"} /\ ch[i].k \in ks}
Drop(ch, idx) == LET RECURSIVE F(_)
                     F(i) == IF i > Len(ch) THEN <<>> ELSE (IF i \in idx THEN <<>> ELSE <<ch[i]>>) \o F(i + 1)
                 IN F(1)
SendCancels(pw, ks) ==
    <<pw[1] \ ks,
      [p \in Peer |-> pw[2][p] \ ks],
      [p \in Peer |-> pw[3][p] \ ks],
      [p \in Peer |-> LET ch == pw[4][p]  gone == {ch[i].k : i \in Unsent(ch, ks)} IN
           Drop(ch, Unsent(ch, ks)) \o
           Msgs("cancel", {k \in ks \ gone : k \in pw[1] \/ k \in pw[2][p] \cup pw[3][p]})]>>

SetPW(pw) == bc' = pw[1] /\ pwb' = pw[2] /\ pwh' = pw[3] /\ c2p' = pw[4]
Wantlist == bc \cup UNION {pwb[p] \cup pwh[p] : p \in Peer}

\* SessionManager.CancelSessionWants(s, ks) / RemoveSession: withdraw interest, cancel what nobody wants
SimRemove(m, s, ks) == [k \in Key |-> IF k \in ks THEN m[k] \ {s} ELSE m[k]]
Orphans(m, s, ks) == {k \in ks : s \in m[k] /\ m[k] = {s}}

\* cancelWants(ks) by goroutine g ("l" = session loop, "w" = want sender): as built the keys were selected in the
\* interest manager's critical section and reach the peer manager in a later step (Flush); repaired (FixG): at once
CancelNow(pw, ks) == IF FixG THEN SendCancels(pw, ks) ELSE pw
Owed(old, ks) == IF FixG THEN old ELSE old \cup ks

-----------------------------------------------------------------------------
(* caller side *)
Issue(r) ==
    LET s == RSess[r] IN
    /\ ~IssueWantFirst
    /\ rst[r] = "idle"
    /\ s \in Temp => sst[s] = "none"
    /\ rst' = [rst EXCEPT ![r] = "run"]
    /\ sub' = [sub EXCEPT ![r] = RKeys[r]]                          \* notif.Subscribe
    /\ sst' = [sst EXCEPT ![s] = IF @ = "none" THEN "run" ELSE @]
    /\ sq' = IF sst'[s] = "run" /\ ~sdown[s]                          \* want(): select on s.incoming / ctx
             THEN [sq EXCEPT ![s] = Append(@, [t |-> "want", ks |-> RKeys[r], call |-> r])] ELSE sq
    /\ UNCHANGED <<has, ledger, c2p, p2c, wasCanc, pipe, got, larr, sim, sdown, sw, calls, wq, swt, sentTo,
                   speers, bpm, bc, pwb, pwh, pcl, pcw, added>>

\* the same call with the sub-steps in the other order: want() first ...
IssueW(r) ==
    LET s == RSess[r] IN
    /\ IssueWantFirst
    /\ rst[r] = "idle"
    /\ s \in Temp => sst[s] = "none"
    /\ rst' = [rst EXCEPT ![r] = "issuing"]
    /\ sst' = [sst EXCEPT ![s] = IF @ = "none" THEN "run" ELSE @]
    /\ sq' = IF sst'[s] = "run" /\ ~sdown[s]
             THEN [sq EXCEPT ![s] = Append(@, [t |-> "want", ks |-> RKeys[r], call |-> r])] ELSE sq
    /\ UNCHANGED <<has, ledger, c2p, p2c, wasCanc, sub, pipe, got, larr, sim, sdown, sw, calls, wq, swt, sentTo,
                   speers, bpm, bc, pwb, pwh, pcl, pcw, added>>
\* ... notif.Subscribe afterwards
IssueS(r) ==
    /\ rst[r] = "issuing"
    /\ rst' = [rst EXCEPT ![r] = "run"]
    /\ sub' = [sub EXCEPT ![r] = RKeys[r]]
    /\ UNCHANGED <<has, ledger, c2p, p2c, wasCanc, pipe, got, larr, sim, sst, sdown, sq, sw, calls, wq, swt, sentTo,
                   speers, bpm, bc, pwb, pwh, pcl, pcw, added>>

UserRecv(r) ==
    /\ rst[r] \in {"run", "canc"} /\ pipe[r] # <<>>
    /\ got' = [got EXCEPT ![r] = Append(@, Head(pipe[r]))]
    /\ pipe' = [pipe EXCEPT ![r] = Tail(@)]
    /\ UNCHANGED <<has, ledger, c2p, p2c, rst, wasCanc, sub, larr, sim, sst, sdown, sq, sw, calls, wq, swt,
                   sentTo, speers, bpm, bc, pwb, pwh, pcl, pcw, added>>

EndTemp(s) == [sdown EXCEPT ![s] = IF s \in Temp THEN TRUE ELSE @]

\* every key arrived: the pubsub closes the channel, handleIncoming exits with nothing remaining
Complete(r) ==
    LET s == RSess[r] IN
    /\ rst[r] = "run" /\ sub[r] = {} /\ pipe[r] = <<>>
    /\ rst' = [rst EXCEPT ![r] = "closed"]
    /\ sdown' = EndTemp(s)
    \* repaired (FixC, needs FixA): the call releases its keys also on completion, so a want registered
    \* after the delivery (Subscribe precedes opWant) does not outlive the call
    /\ sq' = IF FixC /\ sst[s] = "run" /\ ~sdown[s]
             THEN [sq EXCEPT ![s] = Append(@, [t |-> "cancel", ks |-> RKeys[r], call |-> r])] ELSE sq
    /\ UNCHANGED <<has, ledger, c2p, p2c, wasCanc, sub, pipe, got, larr, sim, sst, sw, calls, wq, swt, sentTo,
                   speers, bpm, bc, pwb, pwh, pcl, pcw, added>>

Cancel(r) ==
    /\ rst[r] = "run"
    /\ rst' = [rst EXCEPT ![r] = "canc"] /\ wasCanc' = [wasCanc EXCEPT ![r] = TRUE]
    /\ UNCHANGED <<has, ledger, c2p, p2c, sub, pipe, got, larr, sim, sst, sdown, sq, sw, calls, wq, swt, sentTo,
                   speers, bpm, bc, pwb, pwh, pcl, pcw, added>>

\* handleIncoming sees ctx.Done: close(out), then cfun(remaining)
GetterExit(r) ==
    LET s == RSess[r]  remaining == sub[r] \cup Range(pipe[r]) IN
    /\ rst[r] = "canc"
    /\ rst' = [rst EXCEPT ![r] = "closed"]
    /\ sub' = [sub EXCEPT ![r] = {}] /\ pipe' = [pipe EXCEPT ![r] = <<>>]
    /\ sdown' = EndTemp(s)
    /\ sq' = IF sst[s] = "run" /\ ~sdown[s] /\ (remaining # {} \/ FixC)
             THEN [sq EXCEPT ![s] = Append(@, [t |-> "cancel", ks |-> IF FixC THEN RKeys[r] ELSE remaining, call |-> r])]
             ELSE sq
    /\ UNCHANGED <<has, ledger, c2p, p2c, wasCanc, got, larr, sim, sst, sw, calls, wq, swt, sentTo, speers, bpm,
                   bc, pwb, pwh, pcl, pcw, added>>

-----------------------------------------------------------------------------
(* session loop *)
SHead(s) == Head(sq[s])
SPop(s) == [sq EXCEPT ![s] = Tail(@)]
Running(s) == sst[s] = "run" /\ pcl[s] = {}      \* the loop is inside cancelWants otherwise

SWant(s) ==
    /\ Running(s) /\ sq[s] # <<>> /\ SHead(s).t = "want"
    /\ LET ks == SHead(s).ks IN
       /\ sim' = [k \in Key |-> IF k \in ks THEN sim[k] \cup {s} ELSE sim[k]]
       /\ sw' = [sw EXCEPT ![s] = @ \cup ks]
       /\ calls' = [calls EXCEPT ![s] = [k \in Key |-> IF k \in ks THEN @[k] \cup {SHead(s).call} ELSE @[k]]]
       /\ wq' = [wq EXCEPT ![s] = Append(@, [t |-> "add", ks |-> ks, from |-> None])]
       /\ SetPW(IF speers[s] = {} THEN Broadcast(PW, ks) ELSE PW)
    /\ sq' = SPop(s)
    /\ UNCHANGED <<has, ledger, p2c, rst, wasCanc, sub, pipe, got, larr, sst, sdown, swt, sentTo, speers, bpm, pcl, pcw, added>>

\* keys a cancelled call may really withdraw
Release(s, call, ks) == IF FixA THEN {k \in ks : calls[s][k] = {call}} ELSE ks

SCancel(s) ==
    /\ Running(s) /\ sq[s] # <<>> /\ SHead(s).t = "cancel"
    /\ LET ks == Release(s, SHead(s).call, SHead(s).ks) IN
       /\ calls' = [calls EXCEPT ![s] = [k \in Key |-> @[k] \ {SHead(s).call}]]
       /\ sw' = [sw EXCEPT ![s] = @ \ ks]
       /\ IF FixB     \* repaired: the interest is withdrawn here, in order with later opWants;
                      \* the sender only forgets the keys and then cancels what nobody wants
          THEN sim' = SimRemove(sim, s, ks)
          ELSE sim' = sim
       /\ wq' = IF ks = {} THEN wq ELSE [wq EXCEPT ![s] = Append(@, [t |-> "cancel", ks |-> ks, from |-> None])]
    /\ sq' = SPop(s)
    /\ UNCHANGED <<has, ledger, c2p, p2c, rst, wasCanc, sub, pipe, got, larr, sst, sdown, swt, sentTo, speers,
                   bpm, bc, pwb, pwh, pcl, pcw, added>>

SRecv(s) ==
    /\ Running(s) /\ sq[s] # <<>> /\ SHead(s).t = "recv"
    /\ LET wanted == SHead(s).ks \cap sw[s] IN
       /\ sw' = [sw EXCEPT ![s] = @ \ wanted]
       /\ calls' = [calls EXCEPT ![s] = [k \in Key |-> IF k \in wanted THEN {} ELSE @[k]]]
       /\ sim' = SimRemove(sim, s, wanted)
       /\ IF FixB     \* repaired: CANCEL goes out only after the sender has forgotten the keys
          THEN /\ wq' = IF wanted = {} THEN wq ELSE [wq EXCEPT ![s] = Append(@, [t |-> "cancel", ks |-> wanted, from |-> None])]
               /\ UNCHANGED <<bc, pwb, pwh, c2p>>
          ELSE /\ SetPW(CancelNow(PW, Orphans(sim, s, wanted)))
               /\ wq' = wq
       /\ pcl' = [pcl EXCEPT ![s] = IF FixB THEN @ ELSE Owed(@, Orphans(sim, s, wanted))]
    /\ sq' = SPop(s)
    /\ UNCHANGED <<has, ledger, p2c, rst, wasCanc, sub, pipe, got, larr, sst, sdown, swt, sentTo, speers, bpm, pcw, added>>

SBcast(s) ==
    /\ Running(s) /\ sq[s] # <<>> /\ SHead(s).t = "bcast"
    /\ SetPW(Broadcast(PW, IF FixE THEN SHead(s).ks \cap sw[s] ELSE SHead(s).ks))
    /\ sq' = SPop(s)
    /\ UNCHANGED <<has, ledger, p2c, rst, wasCanc, sub, pipe, got, larr, sim, sst, sdown, sw, calls, wq, swt, sentTo,
                   speers, bpm, pcl, pcw, added>>

\* idle tick: re-broadcast the live wants (only modelled when it changes something)
STick(s) ==
    /\ Running(s) /\ ~sdown[s] /\ sw[s] \ bc # {}
    /\ \A p \in Peer : c2p[p] = <<>> /\ p2c[p] = <<>>          \* the timer is slow compared to the traffic
    /\ sq[s] = <<>> /\ wq[s] = <<>>
    /\ SetPW(Broadcast(PW, sw[s]))
    /\ UNCHANGED <<has, ledger, p2c, rst, wasCanc, sub, pipe, got, larr, sim, sst, sdown, sq, sw, calls, wq, swt,
                   sentTo, speers, bpm, pcl, pcw, added>>

\* messagequeue.rebroadcastWantlist: every rebroadcastInterval (30 s) the queue of a peer sends its whole
\* want-list again.  Only modelled when everything else is at rest and somebody is still waiting.
AllQuiet == /\ \A q \in Peer : c2p[q] = <<>> /\ p2c[q] = <<>>
            /\ \A s \in Sess : sq[s] = <<>> /\ wq[s] = <<>> /\ pcl[s] = {} /\ pcw[s] = {}
MQRebroadcast(p) ==
    /\ AllQuiet /\ \E r \in Req : rst[r] = "run" /\ sub[r] # {}
    /\ bc \cup pwb[p] \cup pwh[p] # {}
    /\ c2p' = [c2p EXCEPT ![p] = Msgs("wb", pwb[p]) \o Msgs("whd", pwh[p] \ pwb[p]) \o Msgs("wh", bc \ (pwb[p] \cup pwh[p]))]
    /\ UNCHANGED <<has, ledger, p2c, rst, wasCanc, sub, pipe, got, larr, sim, sst, sdown, sq, sw, calls, wq, swt,
                   sentTo, speers, bpm, bc, pwb, pwh, pcl, pcw, added>>

\* ctx.Done: sws.Shutdown() (waits for the sender), then SessionManager.RemoveSession
SShutdown(s) ==
    /\ ~ShutdownRemoveFirst
    /\ Running(s) /\ sdown[s] /\ pcw[s] = {}          \* sws.Shutdown() waits for the sender to finish its step
    /\ sst' = [sst EXCEPT ![s] = "down"]
    /\ sq' = [sq EXCEPT ![s] = <<>>] /\ wq' = [wq EXCEPT ![s] = <<>>]
    /\ LET mine == {k \in Key : s \in sim[k]}
           \* repaired design: CANCELs the sender still owed (interest already withdrawn by the loop)
           owed == IF FixB THEN UNION {wq[s][i].ks : i \in {j \in 1..Len(wq[s]) : wq[s][j].t = "cancel"}} ELSE {}
           sim1 == SimRemove(sim, s, mine) IN
       /\ sim' = sim1
       /\ SetPW(CancelNow(PW, Orphans(sim, s, mine) \cup {k \in owed : sim1[k] = {}}))
       /\ pcl' = [pcl EXCEPT ![s] = Owed(@, Orphans(sim, s, mine) \cup {k \in owed : sim1[k] = {}})]
    /\ UNCHANGED <<has, ledger, p2c, rst, wasCanc, sub, pipe, got, larr, sdown, sw, calls, swt, sentTo, speers, bpm, pcw, added>>

\* the same shutdown with the sub-steps in the other order: RemoveSession first (the sender keeps running) ...
SRemoveFirst(s) ==
    /\ ShutdownRemoveFirst
    /\ Running(s) /\ sdown[s]
    /\ sst' = [sst EXCEPT ![s] = "closing"]
    /\ sq' = [sq EXCEPT ![s] = <<>>]
    /\ LET mine == {k \in Key : s \in sim[k]}
           sim1 == SimRemove(sim, s, mine) IN
       /\ sim' = sim1
       /\ SetPW(CancelNow(PW, Orphans(sim, s, mine)))
       /\ pcl' = [pcl EXCEPT ![s] = Owed(@, Orphans(sim, s, mine))]
    /\ UNCHANGED <<has, ledger, p2c, rst, wasCanc, sub, pipe, got, larr, sdown, sw, calls, wq, swt, sentTo, speers, bpm, pcw, added>>
\* ... sws.Shutdown() afterwards
SStopSender(s) ==
    /\ sst[s] = "closing" /\ pcw[s] = {} /\ pcl[s] = {}
    /\ sst' = [sst EXCEPT ![s] = "down"]
    /\ wq' = [wq EXCEPT ![s] = <<>>]
    /\ LET \* repaired design: CANCELs the sender still owed (as in SShutdown)
           owed == IF FixB THEN UNION {wq[s][i].ks : i \in {j \in 1..Len(wq[s]) : wq[s][j].t = "cancel"}} ELSE {} IN
       /\ SetPW(CancelNow(PW, {k \in owed : sim[k] = {}}))
       /\ pcl' = [pcl EXCEPT ![s] = Owed(@, {k \in owed : sim[k] = {}})]
    /\ UNCHANGED <<has, ledger, p2c, rst, wasCanc, sub, pipe, got, larr, sim, sdown, sq, sw, calls, swt, sentTo,
                   speers, bpm, pcw, added>>

-----------------------------------------------------------------------------
(* session want sender *)
\* best peer for a want: HAVE before unknown, never a peer that said DONT_HAVE (ties: a fixed choice)
Score(p, k) == IF bpm[p][k] = "H" THEN 2 ELSE IF bpm[p][k] = "U" THEN 1 ELSE 0
Best(ps, k) == IF \A p \in ps : Score(p, k) = 0 THEN None
               ELSE CHOOSE p \in ps : Score(p, k) > 0 /\ \A q \in ps : Score(q, k) <= Score(p, k)

RECURSIVE FoldSend(_, _, _, _)
FoldSend(pw, rem, wb, wh) ==        \* wb, wh: [Peer -> SUBSET Key]
    IF rem = {} THEN pw
    ELSE LET p == CHOOSE y \in rem : TRUE IN FoldSend(SendWants(pw, p, wb[p], wh[p]), rem \ {p}, wb, wh)

WHead(s) == Head(wq[s])

\* one change at a time (onChange with a single collected change)
WStep(s) ==
    /\ sst[s] \in {"run", "closing"} /\ wq[s] # <<>> /\ pcw[s] = {}
    /\ LET c == WHead(s)
           isUpd == c.t \in {"blk", "have", "dont"}
           ignored == isUpd /\ c.from = None /\ ~FixD          \* as built: update.from = "" is not an update
           T1 == IF c.t = "add" THEN swt[s] \cup c.ks
                 ELSE IF c.t = "cancel" THEN swt[s] \ c.ks
                 ELSE IF c.t = "blk" /\ ~ignored THEN swt[s] \ c.ks
                 ELSE swt[s]
           avail == isUpd /\ c.from # None /\ c.t \in {"blk", "have"}
           nw == IF avail /\ c.from \notin speers[s] THEN {c.from} ELSE {}
           ps == speers[s] \cup nw
           st0 == [k \in Key |-> IF k \notin T1 THEN None
                                 ELSE IF c.t = "dont" /\ k \in c.ks /\ sentTo[s][k] = c.from THEN None
                                 ELSE sentTo[s][k]]
           \* exhausted wants: every session peer said DONT_HAVE
           exh == IF c.t = "dont" /\ ps # {} THEN {k \in c.ks \cap T1 : \A p \in ps : bpm[p][k] = "D"} ELSE {}
           \* cancels: as built the sender withdraws the interest itself (CancelSessionWants);
           \* repaired (FixB) the session loop did that already, the sender cancels what nobody wants now
           cks == IF c.t = "cancel" THEN c.ks ELSE {}
           sim1 == IF FixB THEN sim ELSE SimRemove(sim, s, cks)
           orph == IF FixB THEN {k \in cks : sim[k] = {}} ELSE Orphans(sim, s, cks)
           pwC == CancelNow(PW, orph)
           \* sendNextWants: one optimistic want-block per want, want-haves to the other session peers,
           \* and want-haves for every want to peers that just became available
           best == [k \in Key |-> IF k \in T1 /\ st0[k] = None /\ ps # {} THEN Best(ps, k) ELSE None]
           wbf == [p \in Peer |-> {k \in T1 : best[k] = p}]
           whf == [p \in Peer |-> {k \in T1 : p \in nw \/ (best[k] # None /\ best[k] # p)} \ wbf[p]]
           res == <<FoldSend(pwC, ps, wbf, whf), [k \in Key |-> IF best[k] # None THEN best[k] ELSE st0[k]]>>
       IN
       /\ swt' = [swt EXCEPT ![s] = T1]
       /\ speers' = [speers EXCEPT ![s] = ps]
       /\ sim' = sim1
       /\ pcw' = [pcw EXCEPT ![s] = Owed(@, orph)]
       /\ SetPW(res[1])
       /\ sentTo' = [sentTo EXCEPT ![s] = res[2]]
       /\ sq' = IF exh # {} THEN [sq EXCEPT ![s] = Append(@, [t |-> "bcast", ks |-> exh, call |-> None])] ELSE sq
    /\ wq' = [wq EXCEPT ![s] = Tail(@)]
    /\ UNCHANGED <<has, ledger, p2c, rst, wasCanc, sub, pipe, got, larr, sst, sdown, sw, calls, bpm, pcl, added>>

\* second critical section of cancelWants: PeerManager.SendCancels with the keys selected earlier
FlushL(s) == /\ pcl[s] # {}
             /\ SetPW(SendCancels(PW, pcl[s])) /\ pcl' = [pcl EXCEPT ![s] = {}]
             /\ UNCHANGED <<has, ledger, p2c, rst, wasCanc, sub, pipe, got, larr, sim, sst, sdown, sq, sw, calls, wq, swt,
                            sentTo, speers, bpm, pcw, added>>
FlushW(s) == /\ pcw[s] # {}
             /\ SetPW(SendCancels(PW, pcw[s])) /\ pcw' = [pcw EXCEPT ![s] = {}]
             /\ UNCHANGED <<has, ledger, p2c, rst, wasCanc, sub, pipe, got, larr, sim, sst, sdown, sq, sw, calls, wq, swt,
                            sentTo, speers, bpm, pcl, added>>

-----------------------------------------------------------------------------
(* the client receives a message / a local announcement *)
Publish(k, sb, pp) == <<[r \in Req |-> IF k \in sb[r] THEN sb[r] \ {k} ELSE sb[r]],
                        [r \in Req |-> IF k \in sb[r] /\ rst[r] \in {"run", "canc"} THEN Append(pp[r], k) ELSE pp[r]]>>

Route(k, t, from) ==        \* SessionManager.ReceiveFrom: every interested, registered session
    LET ss == {s \in sim[k] : sst[s] = "run"} IN
    /\ wq' = [s \in Sess |-> IF s \in ss THEN Append(wq[s], [t |-> t, ks |-> {k}, from |-> from]) ELSE wq[s]]
    /\ sq' = [s \in Sess |-> IF s \in ss /\ t = "blk" THEN Append(sq[s], [t |-> "recv", ks |-> {k}, call |-> None]) ELSE sq[s]]

ClientRecv(p) ==
    /\ p2c[p] # <<>>
    /\ LET m == Head(p2c[p]) IN
       /\ bpm' = IF m.t = "have" /\ sim[m.k] # {} THEN [bpm EXCEPT ![p][m.k] = "H"]
                 ELSE IF m.t = "dont" /\ sim[m.k] # {} THEN [bpm EXCEPT ![p][m.k] = "D"] ELSE bpm
       /\ Route(m.k, m.t, p)
       /\ IF m.t = "blk" /\ sim[m.k] # {}                        \* only wanted blocks are published
          THEN sub' = Publish(m.k, sub, pipe)[1] /\ pipe' = Publish(m.k, sub, pipe)[2]
          ELSE UNCHANGED <<sub, pipe>>
    /\ p2c' = [p2c EXCEPT ![p] = Tail(@)]
    /\ UNCHANGED <<has, ledger, c2p, rst, wasCanc, got, larr, sim, sst, sdown, sw, calls, swt, sentTo, speers,
                   bc, pwb, pwh, pcl, pcw, added>>

\* Put + NotifyNewBlocks on the requester itself
LocalAdd(k) ==
    /\ <<0, k>> \in Adds \ added
    /\ added' = added \cup {<<0, k>>}
    /\ Route(k, "blk", None)
    /\ sub' = Publish(k, sub, pipe)[1] /\ pipe' = Publish(k, sub, pipe)[2]     \* published unconditionally
    /\ larr' = [r \in Req |-> IF rst[r] \in {"run", "canc"} THEN larr[r] \cup {k} ELSE larr[r]]
    /\ UNCHANGED <<has, ledger, c2p, p2c, rst, wasCanc, got, sim, sst, sdown, sw, calls, swt, sentTo, speers, bpm,
                   bc, pwb, pwh, pcl, pcw>>

-----------------------------------------------------------------------------
(* servers *)
Reply(p, t, k) == p2c' = [p2c EXCEPT ![p] = Append(@, [t |-> t, k |-> k])]

ServerRecv(p) ==
    /\ c2p[p] # <<>>
    /\ LET m == Head(c2p[p])  k == m.k IN
       CASE m.t = "cancel" -> ledger' = [ledger EXCEPT ![p][k] = "none"] /\ UNCHANGED p2c
         [] m.t = "wb" -> IF k \in has[p] THEN Reply(p, "blk", k) /\ ledger' = [ledger EXCEPT ![p][k] = "none"]
                          ELSE Reply(p, "dont", k) /\ ledger' = [ledger EXCEPT ![p][k] = "block"]
         [] m.t \in {"wh", "whd"} ->
                IF k \in has[p]
                THEN IF k \in Small THEN Reply(p, "blk", k) /\ ledger' = [ledger EXCEPT ![p][k] = "none"]
                     ELSE Reply(p, "have", k) /\ ledger' = [ledger EXCEPT ![p][k] = IF @ = "block" THEN @ ELSE "have"]
                ELSE /\ ledger' = [ledger EXCEPT ![p][k] = IF @ = "block" THEN @ ELSE "have"]
                     /\ IF m.t = "whd" THEN Reply(p, "dont", k) ELSE UNCHANGED p2c
    /\ c2p' = [c2p EXCEPT ![p] = Tail(@)]
    /\ UNCHANGED <<has, rst, wasCanc, sub, pipe, got, larr, sim, sst, sdown, sq, sw, calls, wq, swt, sentTo, speers,
                   bpm, bc, pwb, pwh, pcl, pcw, added>>

ServerAdd(p, k) ==
    /\ <<p, k>> \in Adds \ added
    /\ added' = added \cup {<<p, k>>}
    /\ has' = [has EXCEPT ![p] = @ \cup {k}]
    /\ IF ledger[p][k] = "block" \/ (ledger[p][k] = "have" /\ k \in Small)
       THEN Reply(p, "blk", k) /\ ledger' = [ledger EXCEPT ![p][k] = "none"]
       ELSE IF ledger[p][k] = "have" THEN Reply(p, "have", k) /\ UNCHANGED ledger
       ELSE UNCHANGED <<p2c, ledger>>
    /\ UNCHANGED <<c2p, rst, wasCanc, sub, pipe, got, larr, sim, sst, sdown, sq, sw, calls, wq, swt, sentTo, speers,
                   bpm, bc, pwb, pwh, pcl, pcw>>

-----------------------------------------------------------------------------
Internal == \/ \E r \in Req : UserRecv(r) \/ Complete(r) \/ GetterExit(r) \/ IssueS(r)
            \/ \E s \in Sess : SWant(s) \/ SCancel(s) \/ SRecv(s) \/ SBcast(s) \/ STick(s) \/ SShutdown(s) \/ WStep(s)
                               \/ FlushL(s) \/ FlushW(s) \/ SRemoveFirst(s) \/ SStopSender(s)
            \/ \E p \in Peer : ClientRecv(p) \/ ServerRecv(p) \/ MQRebroadcast(p)
Env == \/ \E r \in Req : Issue(r) \/ IssueW(r) \/ Cancel(r)
       \/ \E k \in Key : LocalAdd(k)
       \/ \E p \in Peer, k \in Key : ServerAdd(p, k)
Next == Internal \/ Env
Spec == Init /\ [][Next]_vars
\* every goroutine keeps running; callers eventually issue their requests and the planned additions happen
FairSpec == /\ Spec /\ WF_vars(Internal)
            /\ \A r \in Req : WF_vars(Issue(r)) /\ WF_vars(IssueW(r))
            /\ \A k \in Key : WF_vars(LocalAdd(k))
            /\ \A p \in Peer, k \in Key : WF_vars(ServerAdd(p, k))

-----------------------------------------------------------------------------
(* BitswapNet under the refinement mapping: one requester (node 0 here), neighbours Peer *)
OpenR(r) == rst[r] \in {"run", "canc"}
Awaited(r) == RKeys[r] \ Range(got[r])
LiveWanted == UNION {RKeys[r] : r \in {x \in Req : OpenR(x)}}
NoDup(s) == \A i, j \in 1..Len(s) : i # j => s[i] # s[j]

AtMostOncePerDistinctKey == \A r \in Req : NoDup(got[r])
OnlyRequested == \A r \in Req : Range(got[r]) \subseteq RKeys[r]
OnlyFromHolder == \A r \in Req : \A k \in Range(got[r]) : k \in larr[r] \/ \E p \in Peer : k \in has[p]
ClosedComplete == \A r \in Req : (rst[r] = "closed" /\ ~wasCanc[r]) => RKeys[r] \subseteq Range(got[r])

\* nothing in flight, nothing queued, no session waiting to shut down
Quiescent == /\ \A p \in Peer : c2p[p] = <<>> /\ p2c[p] = <<>>
             /\ \A s \in Sess : sst[s] = "run" => (sq[s] = <<>> /\ wq[s] = <<>> /\ ~sdown[s])
             /\ \A s \in Sess : pcl[s] = {} /\ pcw[s] = {}
             /\ \A s \in Sess : sst[s] # "closing"
             /\ \A r \in Req : rst[r] \notin {"canc", "issuing"} /\ pipe[r] = <<>> /\ ~(rst[r] = "run" /\ sub[r] = {})
Cleanup == Quiescent => Wantlist \subseteq LiveWanted

\* a request that is never cancelled and whose keys all become available is completed
Avail(k) == (\E p \in Peer : k \in Has0[p] \/ <<p, k>> \in Adds)
Obliged(r) == \A k \in RKeys[r] : Avail(k)
Liveness == \A r \in Req : Obliged(r) => [](rst[r] = "run" => <>(rst[r] \in {"closed", "canc"}))
\* ... and the want-list is eventually clean for good once everything is finished
AllDone == \A r \in Req : rst[r] = "closed"
EventuallyClean == [](AllDone => <>[](Wantlist = {}))
=============================================================================
