---------------------------- MODULE GenBitswapNet ----------------------------
(* Phase G: behaviours of BitswapNet turned into scripts for the real network.
   Topology: requester node 1 with neighbours 2 and 3 (not connected to each other); session 1 is
   open on node 1 from the start.  A behaviour is a sequence of caller steps -- issue a request
   (on the exchange or on session 1; duplicate keys), wait until every currently obtainable key
   of a request has been delivered (= as many Deliver steps of the spec as possible), cancel,
   wait for the channel to close (+ settled want-list snapshot), add a block to a node (a
   neighbour, or the requester itself = local arrival), cancel the session.  The harness cannot
   choose WHICH block arrives first, so Deliver steps appear as "await k deliveries".
   The spec state after the last step yields the expectation printed with the script:
   must (delivered for sure), may (deliverable at all), fin (what the epilogue does with a
   request that is still open: wait for it if it is obliged to finish, else cancel it). *)
EXTENDS BitswapNet, Json

CONSTANTS D,            \* behaviour length at which a script is emitted (BFS), or flushed (-simulate)
          Places,       \* set of initial placements, each a function Node -> SUBSET Block
          SessChoices,  \* subset of {0, 1}: where requests may be issued
          ReqChoices,   \* set of [kind, keys] records
          AddNodes,     \* nodes that may receive a block later
          MaxAdds, MaxReqs,
          BigBlocks     \* blocks larger than the server's want-have replace size (HAVE instead of block)

VARIABLES hist, nadd, nreq, has0
gvars == <<vars, hist, nadd, nreq, has0>>

Adj0 == [n \in Node |-> IF n = 1 THEN Node \ {1} ELSE {1}]

GInit == /\ adj = Adj0
         /\ has \in Places /\ has0 = has
         /\ adding = [n \in Node |-> [b \in Block |-> 0]]
         /\ rq = [r \in Req |-> NoReq]
         /\ delivered = [r \in Req |-> <<>>]
         /\ larr = [r \in Req |-> {}] /\ lsure = [r \in Req |-> {}]
         /\ sess = [s \in Sess |-> IF s = 1 THEN [st |-> "open", node |-> 1] ELSE NoSess]
         /\ wl = [n \in Node |-> {}] /\ fresh = [n \in Node |-> FALSE]
         /\ hist = <<>> /\ nadd = 0 /\ nreq = 0

SeqOf(S) == [i \in 1..Cardinality(S) |-> CHOOSE b \in S : Cardinality({c \in S : c < b}) = i - 1]
Deliverable(r) == {b \in Awaited(r) : Reachable(rq[r].node, b) \/ b \in lsure[r]}

GReq == /\ nreq < MaxReqs
        /\ \E s \in SessChoices, c \in ReqChoices :
             \* the script thread goes on after GetBlocks returned (subscription in place); GetBlock runs aside
             /\ RequestI(nreq + 1, 1, s, c.kind, c.keys, c.kind = "GetBlocks")
             /\ hist' = Append(hist, [op |-> "req", r |-> nreq + 1, node |-> 1, s |-> s, kind |-> c.kind, keys |-> c.keys])
        /\ nreq' = nreq + 1 /\ UNCHANGED <<nadd, has0>>

\* as many Deliver(r, b, from) steps as the spec allows right now
GAwaitAll == \E r \in Req :
        /\ Open(r) /\ ~rq[r].canc /\ Deliverable(r) # {}
        /\ \A b \in Deliverable(r) : \E f \in Node \cup {0} : Source(r, b, f)
        /\ delivered' = [delivered EXCEPT ![r] = @ \o SeqOf(Deliverable(r))]
        /\ hist' = Append(hist, [op |-> "await", r |-> r, k |-> Len(delivered[r]) + Cardinality(Deliverable(r))])
        /\ Stale /\ UNCHANGED <<adj, has, adding, rq, larr, lsure, sess, nadd, nreq, has0>>

GCancel == \E r \in Req : /\ ~rq[r].canc /\ Cancel(r)
                          /\ hist' = Append(hist, [op |-> "cancel", r |-> r])
                          /\ UNCHANGED <<nadd, nreq, has0>>
GClose == \E r \in Req : /\ Close(r)
                         /\ hist' = hist \o <<[op |-> "close", r |-> r], [op |-> "snap", node |-> 1]>>
                         /\ UNCHANGED <<nadd, nreq, has0>>
\* AddBlock immediately followed by AddDone
GAdd == /\ nadd < MaxAdds
        /\ \E n \in AddNodes, b \in Block :
             /\ b \notin has[n]
             /\ has' = [has EXCEPT ![n] = @ \cup {b}]
             /\ larr' = [r \in Req |-> IF r \in OpenAt(n) THEN larr[r] \cup {b} ELSE larr[r]]
             /\ lsure' = [r \in Req |-> IF r \in OpenAt(n) /\ rq[r].iss THEN lsure[r] \cup {b} ELSE lsure[r]]
             /\ hist' = Append(hist, [op |-> "add", node |-> n, b |-> b])
        /\ nadd' = nadd + 1
        /\ Stale /\ UNCHANGED <<adj, adding, rq, delivered, sess, nreq, has0>>
GCSess == /\ \E r \in Req : rq[r].st # "none" /\ rq[r].s = 1
          /\ CancelSession(1)
          /\ hist' = Append(hist, [op |-> "csess", s |-> 1])
          /\ UNCHANGED <<nadd, nreq, has0>>

GStep == GReq \/ GAwaitAll \/ GCancel \/ GClose \/ GAdd \/ GCSess
GNext == Len(hist) < D /\ GStep
GSpec == GInit /\ [][GNext]_gvars

IssuedReqs == {r \in Req : rq[r].st # "none"}
Expect(r) == [r |-> r,
              must |-> Got(r) \cup (IF Open(r) /\ ~rq[r].canc /\ Obligated(r) THEN Deliverable(r) ELSE {}),
              may  |-> {b \in KeySet(r) : Reachable(rq[r].node, b) \/ b \in larr[r]},
              fin  |-> IF ~Open(r) THEN "closed" ELSE IF Obligated(r) THEN "wait" ELSE "cancel"]
Script == [n |-> MaxNode, nb |-> MaxBlock, edges |-> <<<<1, 2>>, <<1, 3>>>>,
           has |-> [n \in Node |-> SeqOf(has0[n])], delay |-> 0, big |-> SeqOf(BigBlocks),
           threads |-> << <<[op |-> "sess", s |-> 1, node |-> 1]>> \o hist >>,
           expect |-> [i \in 1..Cardinality(IssuedReqs) |-> Expect(i)]]

Emit == Len(hist) < D \/ PrintT(<<"BEHAVIOUR", ToJson(Script)>>)

\* -simulate: print at length >= D, then restart with a fresh placement
Flush == /\ Len(hist) >= D
         /\ PrintT(<<"BEHAVIOUR", ToJson(Script)>>)
         /\ has' \in Places /\ has0' = has'
         /\ adj' = Adj0
         /\ adding' = [n \in Node |-> [b \in Block |-> 0]]
         /\ rq' = [r \in Req |-> NoReq]
         /\ delivered' = [r \in Req |-> <<>>]
         /\ larr' = [r \in Req |-> {}] /\ lsure' = [r \in Req |-> {}]
         /\ sess' = [s \in Sess |-> IF s = 1 THEN [st |-> "open", node |-> 1] ELSE NoSess]
         /\ wl' = [n \in Node |-> {}] /\ fresh' = [n \in Node |-> FALSE]
         /\ hist' = <<>> /\ nadd' = 0 /\ nreq' = 0
GNextSim == IF Len(hist) >= D THEN Flush ELSE GStep
GSpecSim == GInit /\ [][GNextSim]_gvars

\* ---- values for the cfg files (TLC cfg syntax has no tuples / records) ----
P(a, b, c) == <<a, b, c>>                       \* has[1], has[2], has[3]
PlacesNone  == { P({}, {}, {}) }
PlacesSmall == { P({}, {}, {}), P({}, {1}, {2}), P({}, {1, 2}, {2}) }
PlacesTwo   == { P({}, {1}, {2}), P({}, {1, 2}, {2}) }
PlacesAll   == { P({}, x, y) : x \in SUBSET Block, y \in SUBSET Block } \cup { P({1}, {2}, {1}) }
RC(k, ks) == [kind |-> k, keys |-> ks]
ReqOne   == { RC("GetBlocks", <<1>>) }
ReqPair  == { RC("GetBlocks", <<2, 1, 2>>) }
ReqSmall == { RC("GetBlock", <<1>>), RC("GetBlocks", <<2, 1, 2>>) }
ReqAll   == { RC("GetBlock", <<1>>), RC("GetBlock", <<2>>), RC("GetBlocks", <<1, 1>>), RC("GetBlocks", <<2, 1, 2>>),
              RC("GetBlocks", <<>>) }

\* every emitted behaviour respects the property (sanity of the generator itself)
GenOK == AtMostOncePerDistinctKey /\ OnlyRequested /\ OnlyFromHolder /\ ClosedComplete
=============================================================================
