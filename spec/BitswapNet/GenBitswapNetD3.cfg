SPECIFICATION GSpec
CONSTANTS MaxNode = 3
          MaxBlock = 2
          MaxReq = 2
          MaxSess = 1
          D = 3
          Places <- PlacesSmall
          SessChoices = {0, 1}
          ReqChoices <- ReqSmall
          AddNodes = {1, 2}
          MaxAdds = 1
          MaxReqs = 2
          BigBlocks = {2}
INVARIANTS Emit GenOK
