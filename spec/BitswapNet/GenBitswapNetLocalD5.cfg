SPECIFICATION GSpec
CONSTANTS MaxNode = 3
          MaxBlock = 2
          MaxReq = 1
          MaxSess = 1
          D = 5
          Places <- PlacesNone
          SessChoices = {0}
          ReqChoices <- ReqPair
          AddNodes = {1, 2}
          MaxAdds = 2
          MaxReqs = 1
          BigBlocks = {2}
INVARIANTS Emit GenOK
