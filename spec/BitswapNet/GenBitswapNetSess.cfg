SPECIFICATION GSpec
CONSTANTS MaxNode = 3
          MaxBlock = 2
          MaxReq = 2
          MaxSess = 1
          D = 4
          Places <- PlacesNone
          SessChoices = {1}
          ReqChoices <- ReqOne
          AddNodes = {2}
          MaxAdds = 1
          MaxReqs = 2
          BigBlocks = {2}
INVARIANTS Emit GenOK
