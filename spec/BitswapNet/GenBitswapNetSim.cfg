SPECIFICATION GSpecSim
CONSTANTS MaxNode = 3
          MaxBlock = 2
          MaxReq = 3
          MaxSess = 1
          D = 8
          Places <- PlacesAll
          SessChoices = {0, 1}
          ReqChoices <- ReqAll
          AddNodes = {1, 2, 3}
          MaxAdds = 2
          MaxReqs = 3
          BigBlocks = {2}
INVARIANTS GenOK
