------------------------------- MODULE Getter -------------------------------
(* C37, getter level: getter.AsyncGetBlocks + handleIncoming between a caller, the notification hub
   (notifications.PubSub) and a session (the `want` and `cwants` functions handed to the getter).

   This is the interface at which the contract clause "a request delivers every requested block held by a
   connected node" turns into an ordering obligation.  The session treats a block that arrives after it was
   told to want the key as THE answer to the want: it marks the key received, withdraws its interest and never
   asks again (BitswapProto: SRecv).  The caller sees the block only through its subscription.  Hence

       every block published for key k after the call's want for k was issued must reach the caller,

   which the getter can only guarantee by having the subscription in place before the want leaves
   (SubscribedBeforeWanted); BitswapProto with the sub-steps in the other order (IssueWantFirst) violates Liveness.
   The sub-steps of a call are separate actions, their order is the parameter IssueOrders ("sub-first" is what the
   property needs), and publications interleave at every sub-step boundary.

   Also stated here (anchors "single-delivery subscription", "want cleanup on completion"): each distinct requested
   key is delivered at most once and nothing else is; when the call ends -- complete, or its context cancelled --
   the getter hands the keys whose block never reached the call back to the session (cwants), so that the session
   can cancel them: every key the hub never handed to the call's subscription, and no key that was delivered (a
   block the hub handed over but the cancelled call did not pass on needs no cancel: the session has received it);
   the channel closes without cancellation only after every key was delivered. *)
EXTENDS Naturals, FiniteSets, TLC

CONSTANTS Calls,        \* call identifiers
          Keys,
          IssueOrders   \* subset of {"sub-first", "want-first"}

VARIABLES ck,       \* [Calls -> SUBSET Keys]  keys of the call ({} = not called yet)
          pc,       \* [Calls -> "idle" | "called" | "returned"]   AsyncGetBlocks not called / in progress / returned
          subbed,   \* [Calls -> BOOLEAN]      notif.Subscribe has been executed
          wanted,   \* [Calls -> BOOLEAN]      want(ctx, keys) has been called
          sub,      \* [Calls -> SUBSET Keys]  keys the subscription still waits for (AddSubOnceEach)
          pend,     \* [Calls -> SUBSET Keys]  blocks handed to the subscription, not yet on the out channel
          hand,     \* [Calls -> SUBSET Keys]  blocks ever handed to the subscription
          got,      \* [Calls -> SUBSET Keys]  blocks delivered to the caller
          canc,     \* [Calls -> BOOLEAN]      the call's context is cancelled
          closed,   \* [Calls -> BOOLEAN]      the out channel is closed
          cwd,      \* [Calls -> BOOLEAN]      cwants has been called ...
          cw,       \* [Calls -> SUBSET Keys]  ... with these keys
          \* ---- ghost ----
          lost,     \* [Calls -> SUBSET Keys]  keys published after the call's want, while it had no subscription for them
          dup       \* a delivery that was not owed happened

vars == <<ck, pc, subbed, wanted, sub, pend, hand, got, canc, closed, cwd, cw, lost, dup>>

Init == /\ ck = [c \in Calls |-> {}] /\ pc = [c \in Calls |-> "idle"]
        /\ subbed = [c \in Calls |-> FALSE] /\ wanted = [c \in Calls |-> FALSE]
        /\ sub = [c \in Calls |-> {}] /\ pend = [c \in Calls |-> {}] /\ hand = [c \in Calls |-> {}]
        /\ got = [c \in Calls |-> {}]
        /\ canc = [c \in Calls |-> FALSE] /\ closed = [c \in Calls |-> FALSE]
        /\ cwd = [c \in Calls |-> FALSE] /\ cw = [c \in Calls |-> {}]
        /\ lost = [c \in Calls |-> {}] /\ dup = FALSE

\* the caller calls AsyncGetBlocks(ctx, keys) with a non-empty key set
Call(c, ks) == /\ pc[c] = "idle" /\ ks # {} /\ ks \subseteq Keys
               /\ ck' = [ck EXCEPT ![c] = ks] /\ pc' = [pc EXCEPT ![c] = "called"]
               /\ UNCHANGED <<subbed, wanted, sub, pend, hand, got, canc, closed, cwd, cw, lost, dup>>
\* sub-step notif.Subscribe(ctx, keys...)
Sub(c) == /\ pc[c] = "called" /\ ~subbed[c]
          /\ wanted[c] => "want-first" \in IssueOrders
          /\ ~wanted[c] => "sub-first" \in IssueOrders
          /\ subbed' = [subbed EXCEPT ![c] = TRUE] /\ sub' = [sub EXCEPT ![c] = ck[c]]
          /\ UNCHANGED <<ck, pc, wanted, pend, hand, got, canc, closed, cwd, cw, lost, dup>>
\* sub-step want(ctx, keys): from now on the session wants the keys and consumes their blocks
Want(c) == /\ pc[c] = "called" /\ ~wanted[c]
           /\ subbed[c] => "sub-first" \in IssueOrders
           /\ ~subbed[c] => "want-first" \in IssueOrders
           /\ wanted' = [wanted EXCEPT ![c] = TRUE]
           /\ UNCHANGED <<ck, pc, subbed, sub, pend, hand, got, canc, closed, cwd, cw, lost, dup>>
Return(c) == /\ pc[c] = "called" /\ subbed[c] /\ wanted[c]
             /\ pc' = [pc EXCEPT ![c] = "returned"]
             /\ UNCHANGED <<ck, subbed, wanted, sub, pend, hand, got, canc, closed, cwd, cw, lost, dup>>

\* notif.Publish(k): every subscription still waiting for k gets the block (once)
Publish(k) ==
    /\ sub' = [c \in Calls |-> sub[c] \ {k}]
    /\ pend' = [c \in Calls |-> IF k \in sub[c] /\ ~closed[c] THEN pend[c] \cup {k} ELSE pend[c]]
    /\ hand' = [c \in Calls |-> IF k \in sub[c] /\ ~closed[c] THEN hand[c] \cup {k} ELSE hand[c]]
    /\ lost' = [c \in Calls |-> IF wanted[c] /\ ~subbed[c] /\ k \in ck[c] /\ ~canc[c] THEN lost[c] \cup {k} ELSE lost[c]]
    /\ UNCHANGED <<ck, pc, subbed, wanted, got, canc, closed, cwd, cw, dup>>

\* handleIncoming passes a block to the caller
Deliver(c, k) == /\ ~closed[c]
                 /\ got' = [got EXCEPT ![c] = @ \cup {k}]
                 /\ pend' = [pend EXCEPT ![c] = @ \ {k}]
                 /\ dup' = (dup \/ k \notin pend[c] \/ k \in got[c])
                 /\ UNCHANGED <<ck, pc, subbed, wanted, sub, hand, canc, closed, cwd, cw, lost>>
Cancel(c) == /\ pc[c] # "idle" /\ ~canc[c]
             /\ canc' = [canc EXCEPT ![c] = TRUE]
             /\ UNCHANGED <<ck, pc, subbed, wanted, sub, pend, hand, got, closed, cwd, cw, lost, dup>>
\* handleIncoming exits: close(out) ...
Close(c) == /\ pc[c] = "returned" /\ ~closed[c]
            /\ canc[c] \/ got[c] = ck[c]
            /\ closed' = [closed EXCEPT ![c] = TRUE]
            /\ sub' = [sub EXCEPT ![c] = {}] /\ pend' = [pend EXCEPT ![c] = {}]
            /\ UNCHANGED <<ck, pc, subbed, wanted, hand, got, canc, cwd, cw, lost, dup>>
\* ... then cfun(remaining): every key whose block never reached the call, no key that was delivered
CWants(c, ks) == /\ closed[c] /\ ~cwd[c]
                 /\ ck[c] \ hand[c] \subseteq ks /\ ks \subseteq ck[c] \ got[c]
                 /\ cwd' = [cwd EXCEPT ![c] = TRUE] /\ cw' = [cw EXCEPT ![c] = ks]
                 /\ UNCHANGED <<ck, pc, subbed, wanted, sub, pend, hand, got, canc, closed, lost, dup>>

Next == \/ \E c \in Calls : \/ \E ks \in SUBSET Keys : Call(c, ks)
                            \/ Sub(c) \/ Want(c) \/ Return(c) \/ Cancel(c) \/ Close(c)
                            \/ \E k \in Keys : Deliver(c, k) /\ k \in pend[c]
                            \/ \E ks \in SUBSET Keys : CWants(c, ks)
        \/ \E k \in Keys : Publish(k)
Spec == Init /\ [][Next]_vars

(* ---------------------------------------------------------------- properties *)
TypeOK == /\ pc \in [Calls -> {"idle", "called", "returned"}]
          /\ \A c \in Calls : got[c] \subseteq Keys /\ pend[c] \subseteq Keys /\ sub[c] \subseteq Keys
\* the ordering obligation ...
SubscribedBeforeWanted == \A c \in Calls : wanted[c] => subbed[c]
\* ... and what it is for: no block that answers the call's want is lost
NoLostPublication == \A c \in Calls : lost[c] = {}
\* only requested keys, each at most once, only blocks the hub handed over
OnlyOwedDeliveries == ~dup /\ \A c \in Calls : got[c] \subseteq ck[c]
\* a channel closed without cancellation delivered everything
ClosedComplete == \A c \in Calls : (closed[c] /\ ~canc[c]) => got[c] = ck[c]
\* the session is told exactly what the call leaves behind
CWantsExact == \A c \in Calls : cwd[c] => (closed[c] /\ ck[c] \ hand[c] \subseteq cw[c] /\ cw[c] \subseteq ck[c] \ got[c])
\* a call at rest has passed on every block the hub handed to it (checked by the trace spec at Rest events, after
\* the harness has waited for the deliveries)
AtRest(c) == (pc[c] = "returned" /\ ~canc[c] /\ ~closed[c]) => pend[c] = {}
=============================================================================
