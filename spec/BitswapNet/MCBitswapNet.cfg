SPECIFICATION Spec
CONSTANTS MaxNode = 2
          MaxBlock = 1
          MaxReq = 2
          MaxSess = 1
INVARIANTS TypeOK AtMostOncePerDistinctKey OnlyRequested OnlyFromHolder ClosedComplete Cleanup
CONSTRAINT MCBound
