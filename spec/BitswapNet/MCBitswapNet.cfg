SPECIFICATION Spec
CONSTANTS MaxNode = 2
          MaxBlock = 2
          MaxReq = 2
          MaxSess = 1
INVARIANTS TypeOK AtMostOncePerDistinctKey OnlyRequested OnlyFromHolder ClosedComplete Cleanup
