SPECIFICATION Spec
CONSTANTS MaxNode = 2
          MaxBlock = 2
          MaxReq = 1
          MaxSess = 0
INVARIANTS TypeOK AtMostOncePerDistinctKey OnlyRequested OnlyFromHolder ClosedComplete Cleanup
CONSTRAINT MCBound
