--------------------------- MODULE MCBitswapProto ---------------------------
(* Scenarios for BitswapProto (TLC cfg files cannot write functions). *)
EXTENDS BitswapProto

\* "shared": two calls for key 1 on one long-lived session; the only neighbour gets the block later
Sh_Peer == {2}
Sh_Key == {1}
Sh_Req == {1, 2}
Sh_RSess == (1 :> 1) @@ (2 :> 1)
Sh_RKeys == (1 :> {1}) @@ (2 :> {1})
Sh_Has0 == (2 :> {})
Sh_Adds == {<<2, 1>>}

\* "local": one call for keys 1 and 2 on a temporary session; key 2 is announced locally, key 1 arrives at the neighbour
Lo_Key == {1, 2}
Lo_Req == {1}
Lo_RSess == (1 :> 1)
Lo_RKeys == (1 :> {1, 2})
Lo_Adds == {<<0, 2>>, <<2, 1>>}

\* "two": one call for key 1 (large block), both neighbours hold it
Tw_Peer == {2, 3}
Tw_Has0 == (2 :> {1}) @@ (3 :> {1})
Tw_RKeys == (1 :> {1})

\* "exhaust": one call for keys 1 and 2 on a long-lived session; the neighbour holds 1 only (DONT_HAVE for 2)
Ex_Has0 == (2 :> {1})

\* "cross": two calls for key 1 on two temporary sessions of the same node, the neighbour holds the (large) block
Cr_RSess == (1 :> 1) @@ (2 :> 2)
Cr_Has0 == (2 :> {1})

\* "race": one call for key 1 (large block) on a temporary session; the neighbour holds the block and the block is
\* also announced locally around the time of the call
\* (Peer Sh_Peer, Key Sh_Key, Req Lo_Req, RSess Lo_RSess, RKeys Tw_RKeys, Has0 Cr_Has0, Adds La_Adds)
\* switches for the control cfgs (sub-steps in the wrong order)
Yes == TRUE

\* "late": a call on a long-lived session, the key is announced locally around the time of the call
La_Adds == {<<0, 1>>}
=============================================================================
