SPECIFICATION Spec
CONSTANTS Calls = {1, 2}
          Keys = {1, 2}
          IssueOrders = {"sub-first"}
INVARIANTS TypeOK SubscribedBeforeWanted NoLostPublication OnlyOwedDeliveries ClosedComplete CWantsExact
