SPECIFICATION Spec
CONSTANTS Calls = {1, 2}
          Keys = {1, 2}
          IssueOrders = {"want-first"}
INVARIANTS NoLostPublication
