SPECIFICATION Spec
CONSTANTS
  Peer <- Sh_Peer
  Key <- Sh_Key
  Req <- Sh_Req
  RSess <- Cr_RSess
  RKeys <- Sh_RKeys
  Temp = {1, 2}
  Small = {}
  Has0 <- Cr_Has0
  Adds = {}
  FixA = TRUE
  FixC = TRUE
  FixD = TRUE
  FixE = TRUE
  FixB = TRUE
  FixG = TRUE
INVARIANTS AtMostOncePerDistinctKey OnlyRequested OnlyFromHolder ClosedComplete Cleanup

