SPECIFICATION FairSpec
CONSTANTS
  Peer <- Sh_Peer
  Key <- Sh_Key
  Req <- Sh_Req
  RSess <- Cr_RSess
  RKeys <- Sh_RKeys
  Temp = {1, 2}
  Small = {}
  Has0 <- Cr_Has0
  Adds = {}
  FixA = FALSE
  FixC = FALSE
  FixD = FALSE
  FixE = FALSE
  FixB = FALSE
  FixG = FALSE
INVARIANTS AtMostOncePerDistinctKey OnlyRequested OnlyFromHolder ClosedComplete
PROPERTIES Liveness
