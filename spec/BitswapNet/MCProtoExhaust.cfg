SPECIFICATION Spec
CONSTANTS
  Peer <- Sh_Peer
  Key <- Lo_Key
  Req <- Lo_Req
  RSess <- Lo_RSess
  RKeys <- Lo_RKeys
  Temp = {}
  Small = {}
  Has0 <- Ex_Has0
  Adds = {}
  FixA = TRUE
  FixC = TRUE
  FixD = TRUE
  FixE = TRUE
  FixB = TRUE
  FixG = TRUE
INVARIANTS AtMostOncePerDistinctKey OnlyRequested OnlyFromHolder ClosedComplete Cleanup

