SPECIFICATION Spec
CONSTANTS
  Peer <- Sh_Peer
  Key <- Lo_Key
  Req <- Lo_Req
  RSess <- Lo_RSess
  RKeys <- Lo_RKeys
  Temp = {}
  Small = {}
  Has0 <- Ex_Has0
  Adds = {}
  FixA = FALSE
  FixC = FALSE
  FixD = FALSE
  FixE = FALSE
  FixB = FALSE
  FixG = FALSE
INVARIANTS AtMostOncePerDistinctKey OnlyRequested OnlyFromHolder ClosedComplete Cleanup

