SPECIFICATION Spec
CONSTANTS
  Peer <- Sh_Peer
  Key <- Sh_Key
  Req <- Lo_Req
  RSess <- Lo_RSess
  RKeys <- Tw_RKeys
  Temp = {}
  Small = {}
  Has0 <- Sh_Has0
  Adds <- La_Adds
  FixA = FALSE
  FixC = FALSE
  FixD = FALSE
  FixE = FALSE
  FixB = FALSE
  FixG = FALSE
INVARIANTS AtMostOncePerDistinctKey OnlyRequested OnlyFromHolder ClosedComplete Cleanup

