SPECIFICATION Spec
CONSTANTS
  Peer <- Sh_Peer
  Key <- Lo_Key
  Req <- Lo_Req
  RSess <- Lo_RSess
  RKeys <- Lo_RKeys
  Temp = {1}
  Small = {}
  Has0 <- Sh_Has0
  Adds <- Lo_Adds
  FixA = FALSE
  FixC = FALSE
  FixD = FALSE
  FixE = FALSE
  FixB = FALSE
  FixG = FALSE
INVARIANTS AtMostOncePerDistinctKey OnlyRequested OnlyFromHolder ClosedComplete Cleanup

