SPECIFICATION FairSpec
CONSTANTS
  Peer <- Sh_Peer
  Key <- Lo_Key
  Req <- Lo_Req
  RSess <- Lo_RSess
  RKeys <- Lo_RKeys
  Temp = {1}
  Small = {}
  Has0 <- Sh_Has0
  Adds <- Lo_Adds
  FixA = TRUE
  FixC = TRUE
  FixD = TRUE
  FixE = TRUE
  FixB = TRUE
  FixG = TRUE
INVARIANTS AtMostOncePerDistinctKey OnlyRequested OnlyFromHolder ClosedComplete Cleanup
PROPERTIES Liveness EventuallyClean
