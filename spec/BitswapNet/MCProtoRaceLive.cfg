SPECIFICATION FairSpec
CONSTANTS
  Peer <- Sh_Peer
  Key <- Sh_Key
  Req <- Lo_Req
  RSess <- Lo_RSess
  RKeys <- Tw_RKeys
  Temp = {1}
  Small = {}
  Has0 <- Cr_Has0
  Adds <- La_Adds
  FixA = TRUE
  FixC = TRUE
  FixD = TRUE
  FixE = TRUE
  FixB = TRUE
  FixG = TRUE
INVARIANTS AtMostOncePerDistinctKey OnlyRequested OnlyFromHolder ClosedComplete Cleanup
PROPERTIES Liveness EventuallyClean
