SPECIFICATION FairSpec
CONSTANTS
  Peer <- Sh_Peer
  Key <- Sh_Key
  Req <- Sh_Req
  RSess <- Sh_RSess
  RKeys <- Sh_RKeys
  Temp = {}
  Small = {}
  Has0 <- Sh_Has0
  Adds <- Sh_Adds
  FixA = FALSE
  FixC = FALSE
  FixD = FALSE
  FixE = FALSE
  FixB = FALSE
  FixG = FALSE
INVARIANTS AtMostOncePerDistinctKey OnlyRequested OnlyFromHolder ClosedComplete
PROPERTIES Liveness
