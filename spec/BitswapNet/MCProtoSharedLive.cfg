SPECIFICATION FairSpec
CONSTANTS
  Peer <- Sh_Peer
  Key <- Sh_Key
  Req <- Sh_Req
  RSess <- Sh_RSess
  RKeys <- Sh_RKeys
  Temp = {}
  Small = {}
  Has0 <- Sh_Has0
  Adds <- Sh_Adds
  FixA = TRUE
  FixC = TRUE
  FixD = TRUE
  FixE = TRUE
  FixB = TRUE
  FixG = TRUE
INVARIANTS AtMostOncePerDistinctKey OnlyRequested OnlyFromHolder ClosedComplete Cleanup
PROPERTIES Liveness EventuallyClean
