SPECIFICATION Spec
CONSTANTS
  Peer <- Tw_Peer
  Key <- Sh_Key
  Req <- Lo_Req
  RSess <- Lo_RSess
  RKeys <- Tw_RKeys
  Temp = {1}
  Small = {}
  Has0 <- Tw_Has0
  Adds = {}
  FixA = TRUE
  FixC = FALSE
  FixD = TRUE
  FixE = TRUE
  FixB = FALSE
  FixG = FALSE
INVARIANTS AtMostOncePerDistinctKey OnlyRequested OnlyFromHolder ClosedComplete Cleanup

