SPECIFICATION TSpec
CONSTANTS MaxNode = 6
          MaxBlock = 8
          MaxReq = 12
          MaxSess = 3
          Devs = @DEVS@
INVARIANTS AtMostOncePerDistinctKey OnlyRequested OnlyFromHolder ClosedComplete Cleanup DevReport
CONSTRAINT TraceConstraint
POSTCONDITION TracePost
CHECK_DEADLOCK FALSE
