--------------------------- MODULE TraceBitswapNet ---------------------------
(* Phase T (and the second half of phase G): a history recorded by the harness on real bitswap
   nodes -- one event per action of BitswapNet, several runs separated by Reset -- must be a
   behaviour of BitswapNet.  Every Deliver is checked for "requested, not yet delivered, held by
   the named sender / announced locally, bytes intact"; every Close for completeness unless
   cancelled; every settled want-list snapshot for Cleanup; every Timeout for "was not obliged
   to finish". *)
EXTENDS BitswapNet, Json, Integers

CONSTANT Devs
Trace == ndJsonDeserialize("trace.ndjson")
VARIABLES l, dev,
          rc,     \* requests cancelled through their own context (Cancel), as opposed to their session's
          kA,     \* [Req -> SUBSET Block] keys of r shared with a same-session sibling cancelled while r was open
          kF,     \* [Req -> SUBSET Block] keys of r shared with a same-session sibling cancelled before r was issued
          hasAt,  \* [Req -> [Node -> SUBSET Block]] placement when r was issued (who could answer DONT_HAVE)
          kG      \* [Req -> SUBSET Block] keys of r that a request of ANOTHER session of the node was served with,
                  \* gave up or finished with while r was open (or ended shortly before r was issued)
aux == <<rc, kA, kF, hasAt, kG>>
tvars == <<vars, l, dev, aux>>
ASSUME TLCSet(1, 0)

Ev == Trace[l]
IsEvent(e) == l <= Len(Trace) /\ Trace[l].ev = e /\ l' = l + 1
ToSet(s) == {s[i] : i \in 1..Len(s)}

Blank == /\ adding = [n \in Node |-> [b \in Block |-> 0]]
         /\ rq = [r \in Req |-> NoReq]
         /\ delivered = [r \in Req |-> <<>>]
         /\ larr = [r \in Req |-> {}] /\ lsure = [r \in Req |-> {}]
         /\ sess = [s \in Sess |-> NoSess]
         /\ wl = [n \in Node |-> {}]
         /\ fresh = [n \in Node |-> FALSE]

TInit == /\ l = 1 /\ dev = {} /\ rc = {} /\ kA = [r \in Req |-> {}] /\ kF = [r \in Req |-> {}]
         /\ hasAt = [r \in Req |-> [n \in Node |-> {}]] /\ kG = [r \in Req |-> {}]
         /\ adj = [n \in Node |-> {}] /\ has = [n \in Node |-> {}]
         /\ Blank

Nbrs(es, n) == {e[2] : e \in {x \in ToSet(es) : x[1] = n}} \cup {e[1] : e \in {x \in ToSet(es) : x[2] = n}}

TReset == /\ IsEvent("Reset")
          /\ Ev.n \in Node /\ Ev.nb \in Block
          /\ adj' = [n \in Node |-> Nbrs(Ev.edges, n)]
          /\ has' = [n \in Node |-> IF n <= Ev.n THEN ToSet(Ev.has[n]) ELSE {}]
          /\ adding' = [n \in Node |-> [b \in Block |-> 0]]
          /\ rq' = [r \in Req |-> NoReq]
          /\ delivered' = [r \in Req |-> <<>>]
          /\ larr' = [r \in Req |-> {}] /\ lsure' = [r \in Req |-> {}]
          /\ sess' = [s \in Sess |-> NoSess]
          /\ wl' = [n \in Node |-> {}]
          /\ fresh' = [n \in Node |-> FALSE]
          /\ rc' = {} /\ kA' = [r \in Req |-> {}] /\ kF' = [r \in Req |-> {}]
          /\ hasAt' = [r \in Req |-> [n \in Node |-> {}]] /\ kG' = [r \in Req |-> {}] /\ UNCHANGED dev

OtherSession(r, c) == r # c /\ rq[r].node = rq[c].node /\ (rq[r].s = 0 \/ rq[r].s # rq[c].s)
\* request c touched keys ks: open requests of other sessions on the node that still ask for them
Cross(c, ks) == [r \in Req |-> IF Open(r) /\ OtherSession(r, c) THEN kG[r] \cup (ks \cap KeySet(r)) ELSE kG[r]]

TOpenSession == IsEvent("OpenSession") /\ Ev.s \in Sess /\ Ev.node \in Node
                /\ OpenSession(Ev.s, Ev.node) /\ UNCHANGED <<dev, aux>>
TRequest == /\ IsEvent("Request") /\ Ev.r \in Req /\ Ev.node \in Node /\ Ev.s \in Sess \cup {0}
            /\ ToSet(Ev.keys) \subseteq Block
            /\ Request(Ev.r, Ev.node, Ev.s, Ev.kind, Ev.keys)
            /\ kF' = [kF EXCEPT ![Ev.r] = IF Ev.s = 0 THEN {} ELSE
                        ToSet(Ev.keys) \cap (UNION {KeySet(c) \ Got(c) : c \in {c \in rc : rq[c].s = Ev.s}} \cup
                                              \* ... or that the session received shortly before (its opReceive may still be queued)
                                              UNION {Got(c) : c \in {c \in Req : rq[c].st # "none" /\ rq[c].s = Ev.s}})]
            /\ hasAt' = [hasAt EXCEPT ![Ev.r] = has]
            /\ ToSet(Ev.near) \subseteq Req
            /\ kG' = [kG EXCEPT ![Ev.r] = ToSet(Ev.keys) \cap UNION {KeySet(c) : c \in
                        {c \in ToSet(Ev.near) : rq[c].st # "none" /\ rq[c].node = Ev.node /\ (rq[c].canc \/ ~Open(c))
                                                 /\ (Ev.s = 0 \/ rq[c].s # Ev.s)}}]
            /\ UNCHANGED <<dev, rc, kA>>
TIssued == IsEvent("Issued") /\ Ev.r \in Req /\ Issued(Ev.r) /\ UNCHANGED <<dev, aux>>
TDeliver == /\ IsEvent("Deliver") /\ Ev.r \in Req /\ Ev.b \in Block /\ Ev.from \in Node \cup {0}
            /\ Ev.ok = TRUE                                  \* bytes are the block's bytes (projection)
            /\ Deliver(Ev.r, Ev.b, Ev.from) /\ kG' = Cross(Ev.r, {Ev.b}) /\ UNCHANGED <<dev, rc, kA, kF, hasAt>>
TCancel == /\ IsEvent("Cancel") /\ Ev.r \in Req /\ Cancel(Ev.r) /\ rc' = rc \cup {Ev.r}
           /\ kA' = [r \in Req |-> IF r # Ev.r /\ Open(r) /\ rq[Ev.r].s # 0 /\ rq[r].s = rq[Ev.r].s
                                    THEN kA[r] \cup (Awaited(Ev.r) \cap Awaited(r)) ELSE kA[r]]
           /\ kG' = Cross(Ev.r, KeySet(Ev.r)) /\ UNCHANGED <<dev, kF, hasAt>>
TCancelSession == /\ IsEvent("CancelSession") /\ Ev.s \in Sess /\ CancelSession(Ev.s)
                  /\ LET gone == {c \in Req : Open(c) /\ rq[c].s = Ev.s} IN
                     kG' = [r \in Req |-> IF Open(r) /\ rq[r].s # Ev.s
                                           THEN kG[r] \cup (KeySet(r) \cap UNION {KeySet(c) : c \in {c \in gone : rq[c].node = rq[r].node}})
                                           ELSE kG[r]]
                  /\ UNCHANGED <<dev, rc, kA, kF, hasAt>>
TClose == /\ IsEvent("Close") /\ Ev.r \in Req
          /\ Ev.err = "" \/ rq[Ev.r].canc                    \* an error only after cancellation
          /\ Close(Ev.r) /\ kG' = Cross(Ev.r, KeySet(Ev.r)) /\ UNCHANGED <<dev, rc, kA, kF, hasAt>>
TAddBlock == IsEvent("AddBlock") /\ Ev.node \in Node /\ Ev.b \in Block /\ AddBlock(Ev.node, Ev.b) /\ UNCHANGED <<dev, aux>>
TAddDone == IsEvent("AddDone") /\ Ev.node \in Node /\ Ev.b \in Block /\ AddDone(Ev.node, Ev.b) /\ UNCHANGED <<dev, aux>>
TSnapshot == /\ IsEvent("Snapshot") /\ Ev.node \in Node
             /\ ToSet(Ev.wl) \subseteq Block                 \* an unknown CID is projected to 0
             /\ Snapshot(Ev.node, ToSet(Ev.wl)) /\ UNCHANGED <<dev, aux>>
TTimeout == IsEvent("Timeout") /\ Ev.r \in Req /\ Timeout(Ev.r) /\ UNCHANGED <<dev, aux>>

(* ---------------------------------------------------------------------------------------------
   Open findings (as built).  Each is one named deviation, enabled only when listed in Devs and only
   in the constellation in which the code really misbehaves; everything else stays a violation.

   Dev_C37_SharedWantCancelled   a session keeps ONE want per key, not one per GetBlocks call: when a call is
        cancelled, getter.handleIncoming hands its undelivered keys to the session (opCancel), which drops them
        from sessionWants / sessionWantSender and withdraws the session's interest although a sibling call on
        the same session still awaits the same key -> the sibling never gets the block (liveness).
   Dev_C37_RewantAfterCancel     same bookkeeping, asynchronous half: the interest is withdrawn later, by the
        sessionWantSender goroutine (cancel) or by a still queued opReceive (receipt); a call issued on the session
        right after the sibling's cancellation / right after the session received the key (too late for the
        publication) has its fresh interest removed -> blocks for it are discarded as unwanted (liveness), and the wants the
        sender still emits are never cancelled (leak).
   Dev_C37_CrossSessionCancelWipe  SessionManager.cancelWants is not atomic with the interest manager: a request that
        ends (cancelled, completed, or served with a key) has "nobody else wants k" computed first and CANCEL sent /
        the want-list entries wiped later; a request of another session on the same node that registered and sent
        its want for k in between loses the entry (and the peer's ledger entry, and the DONT_HAVE timeout), its
        sessionWantSender keeps waiting for the peer it sent the want-block to -> never served (liveness).
   Dev_C37_LocalBlockWantLeak    sessionWantSender.onChange uses update.from # "" to recognise an update; blocks
        announced locally (NotifyNewBlocks, from = "") are ignored, the sender keeps the want and sends it to
        peers after the session withdrew its interest -> the key stays on the want-list for ever.
   Dev_C37_BroadcastAfterCancel  opBroadcast (all session peers answered DONT_HAVE) is executed by the session
        loop without checking that the keys are still wanted; processed after the key was received/cancelled
        it puts the key back on the want-list with nobody left to cancel it.
   Dev_C37_LateWantAfterReceive  on receipt the session loop withdraws interest and sends CANCEL while the
        sessionWantSender goroutine may still hold the want and send it to a newly available peer afterwards.
   Dev_C37_WantAfterDelivery     Subscribe precedes the registration of the want (opWant); a block published
        in between completes the call, the session registers and broadcasts the want afterwards and keeps it
        until the session is closed. *)
SameNodeReqs(n) == {r \in Req : rq[r].st # "none" /\ rq[r].node = n}
\* keys the session of r was ever asked for (a temporary session serves exactly one request)
SessKeys(r) == IF rq[r].s = 0 THEN KeySet(r)
               ELSE UNION {KeySet(q) : q \in {q \in Req : rq[q].st # "none" /\ rq[q].s = rq[r].s}}
\* m can have become a peer of r's session: it holds something the session asked for
SessPeer(r, m) == m \in adj[rq[r].node] /\ SessKeys(r) \cap has[m] # {}
MayHaveReceived(r, k) == k \in KeySet(r) /\ (k \in Got(r) \/ (rq[r].canc /\ (Reachable(rq[r].node, k) \/ k \in larr[r])))
Senders(r, k) == {m \in adj[rq[r].node] : k \in has[m]} \cup (IF k \in larr[r] THEN {0} ELSE {})

\* D: k announced locally while r was waiting for it, and the session has a peer to send the stale want to
ExcD(n, k) == \E r \in SameNodeReqs(n) : k \in KeySet(r) /\ k \in larr[r] /\ \E m \in adj[n] : SessPeer(r, m)
\* E: a peer that did not hold k when r was issued and is a session peer because of ANOTHER key (so it was
\*    asked for k with send-dont-have and answered DONT_HAVE), k received or given up since
ExcE(n, k) == \E r \in SameNodeReqs(n) : /\ k \in KeySet(r) /\ (~Open(r) \/ k \in Got(r))
                                          /\ \E m \in adj[n] : k \notin hasAt[r][m] /\ (SessKeys(r) \ {k}) \cap has[m] # {}
\* C: delivered on a long-lived session that is still open, published by a local announcement or by
\*    another session's traffic before the session had registered the want
ExcC(n, k) == \E r \in SameNodeReqs(n) :
                 /\ rq[r].s # 0 /\ sess[rq[r].s].st = "open" /\ k \in Got(r)
                 /\ (k \in larr[r] \/ \E q \in SameNodeReqs(n) : q # r /\ k \in KeySet(q))
ExcF(n, k) == \E r \in SameNodeReqs(n) : k \in kF[r]
\* A, leak facet: the sibling's late opCancel withdraws the interest the other call re-registered after a
\*    receipt; the sender's wants for it are then never cancelled
ExcA(n, k) == \E r \in SameNodeReqs(n) : k \in kA[r]
\* B, stated on the mechanism: on receipt of k the session loop CANCELs k at once, the want sender forgets k only
\*    when it reaches the receipt in its own queue; every change queued AHEAD of the receipt and processed after the
\*    CANCEL runs sendNextWants with k still tracked and re-sends it.  Such a change exists iff the sender had
\*    anything to process that is not part of the causal chain "want for k -> answer of k's only source":
\*      - a message of a neighbour m about the session's keys: m holds another key of the session, or m holds a
\*        session key and is not the only source of k (HAVE / block / DONT_HAVE from a second source), or
\*      - the add of another call of the node for k (same session: queued add; other session: its own lagging sender).
\*    One call, one key, one source => no such change => strict.
Trigger(r, k) == \/ \E m \in adj[rq[r].node] : /\ SessPeer(r, m)
                                                /\ ((SessKeys(r) \ {k}) \cap has[m] # {} \/ Senders(r, k) \ {m} # {})
                 \/ \E q \in SameNodeReqs(rq[r].node) : q # r /\ k \in KeySet(q)
ExcB(n, k) == \E r \in SameNodeReqs(n) : MayHaveReceived(r, k) /\ Trigger(r, k)
\* liveness facet: the left-over entry makes the peer want manager drop a later want for k to the same peer as
\* "already sent" (until the 30 s message-queue rebroadcast)
StaleEntry(r) == \E k \in Awaited(r) : \E q \in SameNodeReqs(rq[r].node) \ {r} : MayHaveReceived(q, k) /\ Trigger(q, k)

Excuse(n, k) == IF "Dev_C37_LocalBlockWantLeak" \in Devs /\ ExcD(n, k) THEN "Dev_C37_LocalBlockWantLeak"
           ELSE IF "Dev_C37_RewantAfterCancel" \in Devs /\ ExcF(n, k) THEN "Dev_C37_RewantAfterCancel"
           ELSE IF "Dev_C37_SharedWantCancelled" \in Devs /\ ExcA(n, k) THEN "Dev_C37_SharedWantCancelled"
           ELSE IF "Dev_C37_WantAfterDelivery" \in Devs /\ ExcC(n, k) THEN "Dev_C37_WantAfterDelivery"
           ELSE IF "Dev_C37_LateWantAfterReceive" \in Devs /\ ExcB(n, k) THEN "Dev_C37_LateWantAfterReceive"
           ELSE IF "Dev_C37_BroadcastAfterCancel" \in Devs /\ ExcE(n, k) THEN "Dev_C37_BroadcastAfterCancel"
           ELSE "none"

\* a settled want-list with left-over keys, every one of them explained by an open finding
TSnapshotDev == /\ Devs # {}
                /\ IsEvent("Snapshot") /\ Ev.node \in Node /\ ToSet(Ev.wl) \subseteq Block
                /\ LET W == ToSet(Ev.wl)  X == W \ LiveWanted(Ev.node) IN
                     /\ X # {}
                     /\ \A k \in X : Excuse(Ev.node, k) # "none"
                     /\ dev' = dev \cup {Excuse(Ev.node, k) : k \in X}
                     /\ wl' = [wl EXCEPT ![Ev.node] = W]
                /\ fresh' = [fresh EXCEPT ![Ev.node] = FALSE]     \* no Cleanup claim for this snapshot
                /\ UNCHANGED <<adj, has, adding, rq, delivered, larr, lsure, sess, aux>>

\* D, liveness facet: the sender still holds the stale want of an earlier call of the session that was served by a
\* local announcement, so the add of a later call for the same key is a no-op and nothing is sent
StaleLocal(r) == rq[r].s # 0 /\ \E q \in Req \ {r} : /\ rq[q].st # "none" /\ rq[q].s = rq[r].s
                                                   /\ larr[q] \cap KeySet(q) \cap Awaited(r) # {}
TimeoutExcuse(r) == IF "Dev_C37_SharedWantCancelled" \in Devs /\ kA[r] \cap Awaited(r) # {} THEN "Dev_C37_SharedWantCancelled"
               ELSE IF "Dev_C37_RewantAfterCancel" \in Devs /\ kF[r] \cap Awaited(r) # {} THEN "Dev_C37_RewantAfterCancel"
               ELSE IF "Dev_C37_LocalBlockWantLeak" \in Devs /\ StaleLocal(r) THEN "Dev_C37_LocalBlockWantLeak"
               ELSE IF "Dev_C37_CrossSessionCancelWipe" \in Devs /\ kG[r] \cap Awaited(r) # {} THEN "Dev_C37_CrossSessionCancelWipe"
               ELSE IF "Dev_C37_LateWantAfterReceive" \in Devs /\ StaleEntry(r) THEN "Dev_C37_LateWantAfterReceive"
               ELSE "none"
TTimeoutDev == /\ Devs # {}
               /\ IsEvent("Timeout") /\ Ev.r \in Req
               /\ Open(Ev.r) /\ Obligated(Ev.r) /\ ~rq[Ev.r].canc
               /\ TimeoutExcuse(Ev.r) # "none"
               /\ dev' = dev \cup {TimeoutExcuse(Ev.r)}
               /\ UNCHANGED <<vars, aux>>

TNext == \/ TReset \/ TOpenSession \/ TRequest \/ TDeliver \/ TCancel \/ TCancelSession
         \/ TIssued \/ TClose \/ TAddBlock \/ TAddDone \/ TSnapshot \/ TTimeout \/ TTimeoutDev \/ TSnapshotDev
TSpec == TInit /\ [][TNext]_tvars

TraceConstraint == TLCSet(1, IF l - 1 > TLCGet(1) THEN l - 1 ELSE TLCGet(1))
TracePost == PrintT(<<"TRACE_HWM", TLCGet(1)>>)
DevReport == l <= Len(Trace) \/ \A d \in dev : PrintT(<<"DEV_USED", d>>)
=============================================================================
