--------------------------- MODULE TraceBitswapNet ---------------------------
(* Phase T (and the second half of phase G): a history recorded by the harness on real bitswap
   nodes -- one event per action of BitswapNet, several runs separated by Reset -- must be a
   behaviour of BitswapNet.  Every Deliver is checked for "requested, not yet delivered, held by
   the named sender / announced locally, bytes intact"; every Close for completeness unless
   cancelled; every settled want-list snapshot for Cleanup; every Timeout for "was not obliged
   to finish". *)
EXTENDS BitswapNet, Json, Integers

CONSTANT Devs
Trace == ndJsonDeserialize("trace.ndjson")
VARIABLES l, dev,
          rc      \* requests cancelled through their own context (Cancel), as opposed to their session's
tvars == <<vars, l, dev, rc>>
ASSUME TLCSet(1, 0)

Ev == Trace[l]
IsEvent(e) == l <= Len(Trace) /\ Trace[l].ev = e /\ l' = l + 1
ToSet(s) == {s[i] : i \in 1..Len(s)}

Blank == /\ adding = [n \in Node |-> [b \in Block |-> 0]]
         /\ rq = [r \in Req |-> NoReq]
         /\ delivered = [r \in Req |-> <<>>]
         /\ larr = [r \in Req |-> {}]
         /\ sess = [s \in Sess |-> NoSess]
         /\ wl = [n \in Node |-> {}]
         /\ fresh = [n \in Node |-> FALSE]

TInit == /\ l = 1 /\ dev = {} /\ rc = {}
         /\ adj = [n \in Node |-> {}] /\ has = [n \in Node |-> {}]
         /\ Blank

Nbrs(es, n) == {e[2] : e \in {x \in ToSet(es) : x[1] = n}} \cup {e[1] : e \in {x \in ToSet(es) : x[2] = n}}

TReset == /\ IsEvent("Reset")
          /\ Ev.n \in Node /\ Ev.nb \in Block
          /\ adj' = [n \in Node |-> Nbrs(Ev.edges, n)]
          /\ has' = [n \in Node |-> IF n <= Ev.n THEN ToSet(Ev.has[n]) ELSE {}]
          /\ adding' = [n \in Node |-> [b \in Block |-> 0]]
          /\ rq' = [r \in Req |-> NoReq]
          /\ delivered' = [r \in Req |-> <<>>]
          /\ larr' = [r \in Req |-> {}]
          /\ sess' = [s \in Sess |-> NoSess]
          /\ wl' = [n \in Node |-> {}]
          /\ fresh' = [n \in Node |-> FALSE]
          /\ rc' = {} /\ UNCHANGED dev

TOpenSession == IsEvent("OpenSession") /\ Ev.s \in Sess /\ Ev.node \in Node
                /\ OpenSession(Ev.s, Ev.node) /\ UNCHANGED <<dev, rc>>
TRequest == /\ IsEvent("Request") /\ Ev.r \in Req /\ Ev.node \in Node /\ Ev.s \in Sess \cup {0}
            /\ ToSet(Ev.keys) \subseteq Block
            /\ Request(Ev.r, Ev.node, Ev.s, Ev.kind, Ev.keys) /\ UNCHANGED <<dev, rc>>
TDeliver == /\ IsEvent("Deliver") /\ Ev.r \in Req /\ Ev.b \in Block /\ Ev.from \in Node \cup {0}
            /\ Ev.ok = TRUE                                  \* bytes are the block's bytes (projection)
            /\ Deliver(Ev.r, Ev.b, Ev.from) /\ UNCHANGED <<dev, rc>>
TCancel == IsEvent("Cancel") /\ Ev.r \in Req /\ Cancel(Ev.r) /\ rc' = rc \cup {Ev.r} /\ UNCHANGED dev
TCancelSession == IsEvent("CancelSession") /\ Ev.s \in Sess /\ CancelSession(Ev.s) /\ UNCHANGED <<dev, rc>>
TClose == /\ IsEvent("Close") /\ Ev.r \in Req
          /\ Ev.err = "" \/ rq[Ev.r].canc                    \* an error only after cancellation
          /\ Close(Ev.r) /\ UNCHANGED <<dev, rc>>
TAddBlock == IsEvent("AddBlock") /\ Ev.node \in Node /\ Ev.b \in Block /\ AddBlock(Ev.node, Ev.b) /\ UNCHANGED <<dev, rc>>
TAddDone == IsEvent("AddDone") /\ Ev.node \in Node /\ Ev.b \in Block /\ AddDone(Ev.node, Ev.b) /\ UNCHANGED <<dev, rc>>
TSnapshot == /\ IsEvent("Snapshot") /\ Ev.node \in Node
             /\ ToSet(Ev.wl) \subseteq Block                 \* an unknown CID is projected to 0
             /\ Snapshot(Ev.node, ToSet(Ev.wl)) /\ UNCHANGED <<dev, rc>>
TTimeout == IsEvent("Timeout") /\ Ev.r \in Req /\ Timeout(Ev.r) /\ UNCHANGED <<dev, rc>>

(* Open finding C37-shared-want-cancel (as built): a session keeps ONE want per key, not one per
   GetBlocks call.  When a call is cancelled, getter.handleIncoming hands its undelivered keys to the
   session (opCancel), which drops them from sessionWants / sessionWantSender and withdraws the session's
   interest -- although a sibling call on the same session still awaits the same key.  The sibling then
   never receives the block from the network.  Excused only in exactly that constellation. *)
SharedWantCancelled(r) ==
    /\ rq[r].s # 0
    /\ \E c \in rc \ {r} : /\ rq[c].s = rq[r].s
                            /\ (KeySet(c) \ Got(c)) \cap Awaited(r) # {}
TTimeoutDev == /\ "Dev_C37_SharedWantCancelled" \in Devs
               /\ IsEvent("Timeout") /\ Ev.r \in Req
               /\ Open(Ev.r) /\ Obligated(Ev.r) /\ ~rq[Ev.r].canc
               /\ SharedWantCancelled(Ev.r)
               /\ dev' = dev \cup {"Dev_C37_SharedWantCancelled"}
               /\ UNCHANGED <<vars, rc>>

TNext == \/ TReset \/ TOpenSession \/ TRequest \/ TDeliver \/ TCancel \/ TCancelSession
         \/ TClose \/ TAddBlock \/ TAddDone \/ TSnapshot \/ TTimeout \/ TTimeoutDev
TSpec == TInit /\ [][TNext]_tvars

TraceConstraint == TLCSet(1, IF l - 1 > TLCGet(1) THEN l - 1 ELSE TLCGet(1))
TracePost == PrintT(<<"TRACE_HWM", TLCGet(1)>>)
DevReport == l <= Len(Trace) \/ \A d \in dev : PrintT(<<"DEV_USED", d>>)
=============================================================================
