SPECIFICATION TSpec
CONSTANTS Calls = {1, 2, 3}
          Keys = {1, 2, 3, 4}
          IssueOrders = {"sub-first", "want-first"}
INVARIANTS TypeOK NoLostPublication OnlyOwedDeliveries ClosedComplete CWantsExact
CONSTRAINT TraceConstraint
POSTCONDITION TracePost
CHECK_DEADLOCK FALSE
