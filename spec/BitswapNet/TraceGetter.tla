---------------------------- MODULE TraceGetter ----------------------------
(* Phase T for the getter level of C37: a history recorded from the real getter.AsyncGetBlocks / handleIncoming, running
   on the real notifications.PubSub with a harness-owned session side (want / cwants functions), must be a behaviour
   of Getter.  The sub-steps of a call are logged where they happen (Sub: inside the PubSub wrapper, after the real
   Subscribe returned and under the same mutex as Publish; Want: inside the want function), so the ORDER of the
   sub-steps is the observed one: the model allows both orders (IssueOrders), the invariants decide -- not the order as
   such (SubscribedBeforeWanted is a fact of the model, not checked here) but its consequence: NoLostPublication.  Publications
   are made by the harness at every sub-step boundary (inside want(), inside Subscribe before/after the real call,
   after the call returned).  Rest = the harness has waited for the deliveries it is owed. *)
EXTENDS Getter, Json, Sequences

Trace == ndJsonDeserialize("gtrace.ndjson")
VARIABLE l
tvars == <<vars, l>>
ASSUME TLCSet(1, 0)

Ev == Trace[l]
IsEvent(e) == l <= Len(Trace) /\ Trace[l].ev = e /\ l' = l + 1
ToSet(s) == {s[i] : i \in 1..Len(s)}

TInit == l = 1 /\ Init
TReset == /\ IsEvent("Reset")
          /\ ck' = [c \in Calls |-> {}] /\ pc' = [c \in Calls |-> "idle"]
          /\ subbed' = [c \in Calls |-> FALSE] /\ wanted' = [c \in Calls |-> FALSE]
          /\ sub' = [c \in Calls |-> {}] /\ pend' = [c \in Calls |-> {}] /\ hand' = [c \in Calls |-> {}]
          /\ got' = [c \in Calls |-> {}]
          /\ canc' = [c \in Calls |-> FALSE] /\ closed' = [c \in Calls |-> FALSE]
          /\ cwd' = [c \in Calls |-> FALSE] /\ cw' = [c \in Calls |-> {}]
          /\ lost' = [c \in Calls |-> {}] /\ dup' = FALSE
TCall    == IsEvent("Call") /\ Ev.c \in Calls /\ ToSet(Ev.keys) \subseteq Keys /\ Call(Ev.c, ToSet(Ev.keys))
TSub     == IsEvent("Sub") /\ Ev.c \in Calls /\ Sub(Ev.c)
TWant    == IsEvent("Want") /\ Ev.c \in Calls /\ ToSet(Ev.keys) = ck[Ev.c] /\ Want(Ev.c)
TRet     == IsEvent("Ret") /\ Ev.c \in Calls /\ Return(Ev.c)
TPublish == IsEvent("Publish") /\ Ev.k \in Keys /\ Publish(Ev.k)
TDeliver == IsEvent("Deliver") /\ Ev.c \in Calls /\ Ev.k \in Keys /\ Deliver(Ev.c, Ev.k)
TCancel  == IsEvent("Cancel") /\ Ev.c \in Calls /\ Cancel(Ev.c)
TClose   == IsEvent("Close") /\ Ev.c \in Calls /\ Close(Ev.c)
TCWants  == IsEvent("CWants") /\ Ev.c \in Calls /\ ToSet(Ev.keys) \subseteq Keys /\ CWants(Ev.c, ToSet(Ev.keys))
TRest    == IsEvent("Rest") /\ Ev.c \in Calls /\ AtRest(Ev.c) /\ UNCHANGED vars

TNext == \/ TReset \/ TCall \/ TSub \/ TWant \/ TRet \/ TPublish \/ TDeliver \/ TCancel \/ TClose \/ TCWants \/ TRest
TSpec == TInit /\ [][TNext]_tvars

TraceConstraint == TLCSet(1, IF l - 1 > TLCGet(1) THEN l - 1 ELSE TLCGet(1))
TracePost == PrintT(<<"TRACE_HWM", TLCGet(1)>>)
=============================================================================
