----------------------------- MODULE BlockService -----------------------------
(* C04 (block-service half) and C05.  blockservice.New(blockstore, exchange, opts) at the grain of
   its critical sections: every blockstore operation, every exchange request, every block the
   exchange hands back, every notification, every hand-off to the caller is one action.

   The module is the IDEAL block service -- the most general system, at this grain, that satisfies
   the two properties -- against an ADVERSARIAL environment: the exchange may hand back any block
   (requested, unrequested, a block whose bytes do not hash to its CID, a block whose CID the
   validator rejects), in any order, any number of them, close early or fail.  What the code does
   instead of the ideal, where it is a recorded finding, is a named deviation (DevCachePut).

   Model CID   <<kind, n>>; the kind fixes hash function and digest length (KindSpec) and hence,
               through CidPolicy!Accepts and the configured allowlist, whether it is Valid.  The kind
               also fixes the FORM of the CID (version + codec): two model CIDs with the same hash
               function, digest length and n are ALIASES -- different CIDs over one multihash
               (CIDv1 raw / CIDv1 dag-pb / CIDv0).  Requests, exchange answers and hand-offs are
               about full CIDs; the blockstore is keyed by multihash (Mh).
   Model block [c |-> cid, ok |-> bytes hash to c].
   A call      one invocation of AddBlock/AddBlocks/GetBlock/GetBlocks/DeleteBlock (directly, via
               a Session, or via a session embedded in the context); calls interleave freely. *)
EXTENDS CidPolicy

CONSTANTS Cids,    \* the model CIDs of this run (subset of Kinds \X Nat)
          Devs     \* enabled deviations (open known findings); {} = the ideal

KindSpec == [ sha256   |-> [name |-> "sha2-256",    len |-> 32,  form |-> "raw1"],
              trunc16  |-> [name |-> "sha2-256",    len |-> 16,  form |-> "raw1"],   \* too small
              shake128 |-> [name |-> "shake-128",   len |-> 32,  form |-> "raw1"],   \* not allowed by default
              sha512   |-> [name |-> "sha2-512",    len |-> 64,  form |-> "raw1"],
              id4      |-> [name |-> "identity",    len |-> 4,   form |-> "raw1"],   \* exempt from the minimum
              id129    |-> [name |-> "identity",    len |-> 129, form |-> "raw1"],   \* above the identity cap
              b2b152   |-> [name |-> "blake2b-152", len |-> 19,  form |-> "raw1"],   \* blake2b below 160 bits
              \* aliases of sha256: the same multihash under another codec / CID version
              sha256pb |-> [name |-> "sha2-256",    len |-> 32,  form |-> "pb1"],    \* CIDv1 dag-pb
              sha256v0 |-> [name |-> "sha2-256",    len |-> 32,  form |-> "pb0"] ]   \* CIDv0
Kinds  == DOMAIN KindSpec
\* the multihash of a model CID, named by the raw-CIDv1 kind over the same hash function and length
CanonKind == [k \in Kinds |-> CHOOSE r \in Kinds : /\ KindSpec[r].name = KindSpec[k].name
                                                  /\ KindSpec[r].len  = KindSpec[k].len
                                                  /\ KindSpec[r].form = "raw1"]
Mh(c)     == <<CanonKind[c[1]], c[2]>>
MhOf(S)   == {Mh(c) : c \in S}
SvcAL  == {"default", "svc2"}      \* svc2 = overriding(default, {shake-128: true, sha2-512: false})
ValidTab == [a \in SvcAL |-> [k \in Kinds |->
                Accepts(AL[a], Entry(KindSpec[k].name), KindSpec[k].len)]]

Blocks   == [c : Cids, ok : BOOLEAN]
NoBlock  == [c |-> <<"none", 0>>, ok |-> FALSE]
ExKinds  == {"none", "plain", "sessx"}   \* no exchange / plain exchange / exchange.SessionExchange
Cfgs     == [ex : ExKinds, wt : BOOLEAN, al : SvcAL]
GetOps   == {"GetBlock", "GetBlocks"}
AddOps   == {"AddBlock", "AddBlocks"}

VARIABLES cfg,      \* configuration of this run
          local,    \* the blockstore: set of [c |-> multihash, ok], at most one per multihash
          calls,    \* active calls: id -> call record
          touched,  \* ghost: REJECTED CIDs ever stored by the service / asked from the exchange / handed to a caller
          last,     \* ghost: the most recent hand-off (block returned by GetBlock / received from GetBlocks), projected
          dev       \* deviations used so far in this run
vars == <<cfg, local, calls, touched, last, dev>>

Valid(c)      == c[1] \in Kinds /\ ValidTab[cfg.al][c[1]]
\* the store is keyed by multihash: a block put under one CID is found under each of its aliases,
\* and a lookup answers with the CID that was asked for
Present(c)    == \E b \in local : b.c = Mh(c)
LocalBlock(c) == [c |-> c, ok |-> (CHOOSE b \in local : b.c = Mh(c)).ok]
Stored(b)     == [c |-> Mh(b.c), ok |-> b.ok]
ToSet(s)      == {s[i] : i \in 1..Len(s)}
InSeq(s, x)   == \E i \in 1..Len(s) : s[i] = x
RemoveOne(s, x) == LET i == CHOOSE j \in 1..Len(s) : s[j] = x /\ \A k \in 1..(j-1) : s[k] # x
                   IN  SubSeq(s, 1, i-1) \o SubSeq(s, i+1, Len(s))
CidsOf(S)     == {b.c : b \in S}

NoHand == [op |-> "none", requested |-> TRUE, exact |-> TRUE, hashok |-> TRUE, src |-> "none", inlocal |-> TRUE]
Rejected(S) == {c \in S : ~Valid(c)}

NewCall(op, sess, keys, args) ==
    [op |-> op, sess |-> sess,
     keys  |-> keys,                          \* CIDs the caller passed (Get ops, DeleteBlock)
     req   |-> {c \in keys : Valid(c)},       \* ... of which the validator accepts
     args  |-> args,                          \* blocks the caller passed (Add ops)
     seen  |-> {},                            \* requested CIDs looked up in the blockstore so far
     miss  |-> {},                            \* ... that were absent AT THE TIME OF THEIR LOOKUP
     asked |-> FALSE, want |-> {},            \* exchange asked? for which CIDs?
     infl  |-> <<>>,                          \* blocks handed back by the exchange, not yet consumed
     ndl   |-> 0,                             \* number of blocks the exchange handed back so far
     ready |-> <<>>,                          \* blocks cleared for hand-off: [b, src]
     exdone |-> FALSE, exerr |-> FALSE,       \* exchange closed its channel / returned an error
     failed |-> FALSE]                        \* a Put/PutMany of this call on the local store failed

Upd(id, r)  == calls' = [calls EXCEPT ![id] = r]
Drop(id)    == calls' = [i \in DOMAIN calls \ {id} |-> calls[i]]
Active(id)  == id \in DOMAIN calls
Quiet       == DOMAIN calls = {}

Init == /\ cfg \in Cfgs /\ local = {} /\ calls = << >> /\ last = NoHand /\ dev = {}
        /\ touched = [stored |-> {}, asked |-> {}, handed |-> {}]

(* ---- environment: callers ------------------------------------------------------------- *)
\* blocks put straight into the blockstore, behind the service's back (honest ones only)
Preload(b) == /\ Quiet /\ b.ok /\ ~Present(b.c) /\ local' = local \cup {Stored(b)}
              /\ UNCHANGED <<cfg, calls, touched, last, dev>>

Call(id, op, sess, keys, args) ==
    /\ ~Active(id)
    /\ calls' = [i \in DOMAIN calls \cup {id} |-> IF i = id THEN NewCall(op, sess, keys, args) ELSE calls[i]]
    \* environment assumption: no DeleteBlock concurrent with a Get of the same CID
    /\ op = "DeleteBlock" => \A i \in DOMAIN calls : calls[i].op \in GetOps => MhOf(keys) \cap MhOf(calls[i].keys) = {}
    /\ op \in GetOps => \A i \in DOMAIN calls : calls[i].op = "DeleteBlock" => MhOf(keys) \cap MhOf(calls[i].keys) = {}
    /\ UNCHANGED <<cfg, local, touched, last, dev>>

(* ---- the service: blockstore operations ----------------------------------------------- *)
\* Has: no effect; allowed for the CIDs the call is about
BsHas(id, c) == /\ Active(id) /\ c \in calls[id].keys \cup CidsOf(calls[id].args)
                /\ UNCHANGED vars
HasRes(c) == Present(c)

\* Get (local-first lookup).  The outcome is decided by `local` at this very step.
BsGet(id, c) ==
    /\ Active(id) /\ calls[id].op \in GetOps /\ c \in calls[id].keys
    /\ LET r == calls[id] IN
       IF c \notin r.req THEN UNCHANGED calls     \* looking a rejected CID up is harmless; it can never become ready
       ELSE IF Present(c)
            THEN Upd(id, [r EXCEPT !.seen = @ \cup {c},
                                   !.ready = Append(@, [b |-> LocalBlock(c), src |-> "local"])])
            ELSE Upd(id, [r EXCEPT !.seen = @ \cup {c}, !.miss = @ \cup {c}])
    /\ UNCHANGED <<cfg, local, touched, last, dev>>
GetRes(c) == IF Present(c) THEN [found |-> TRUE, ok |-> LocalBlock(c).ok] ELSE [found |-> FALSE, ok |-> FALSE]

\* Put / PutMany by AddBlock(s): only blocks the caller passed, only accepted CIDs  (C04)
AddPut(id, S) ==
    /\ Active(id) /\ calls[id].op \in AddOps
    /\ S \subseteq calls[id].args /\ \A b \in S : Valid(b.c)
    /\ local' = local \cup {Stored(b) : b \in {x \in S : ~Present(x.c)}}
    /\ touched' = [touched EXCEPT !.stored = @ \cup Rejected(CidsOf(S))]
    /\ UNCHANGED <<cfg, calls, last, dev>>
\* FAULT (environment): the Put/PutMany fails (IO error, full disk, closed datastore) -- nothing is written
AddPutFail(id, S) ==
    /\ Active(id) /\ calls[id].op \in AddOps
    /\ S \subseteq calls[id].args /\ \A b \in S : Valid(b.c)
    /\ Upd(id, [calls[id] EXCEPT !.failed = TRUE])
    /\ UNCHANGED <<cfg, local, touched, last, dev>>

BsDelete(id, c) ==
    /\ Active(id) /\ calls[id].op = "DeleteBlock" /\ c \in calls[id].keys
    /\ local' = {b \in local : b.c # Mh(c)}
    /\ UNCHANGED <<cfg, calls, touched, last, dev>>

(* ---- the service: exchange fallback ----------------------------------------------------- *)
ExSession(id) == /\ Active(id) /\ calls[id].sess # "none" /\ cfg.ex = "sessx" /\ UNCHANGED vars

\* GetBlock(c) / GetBlocks(ks) on the exchange (or its session): exactly the CIDs this call found
\* missing -- never a rejected CID (C04), never one it found locally (C05 LocalNotFetched)
ExAsk(id, S) ==
    /\ Active(id) /\ calls[id].op \in GetOps /\ cfg.ex # "none"
    /\ ~calls[id].asked /\ S # {} /\ S = calls[id].miss
    /\ Upd(id, [calls[id] EXCEPT !.asked = TRUE, !.want = S])
    /\ touched' = [touched EXCEPT !.asked = @ \cup Rejected(S)]
    /\ UNCHANGED <<cfg, local, last, dev>>

\* environment: the exchange hands back ANY block / closes / fails
ExDeliver(id, b) ==
    /\ Active(id) /\ calls[id].asked /\ ~calls[id].exdone
    /\ Upd(id, [calls[id] EXCEPT !.infl = Append(@, b), !.ndl = @ + 1,
                                 !.exdone = (calls[id].op = "GetBlock")])   \* GetBlock returns once
    /\ UNCHANGED <<cfg, local, touched, last, dev>>
ExEnd(id, err) ==
    /\ Active(id) /\ calls[id].asked /\ ~calls[id].exdone
    /\ Upd(id, [calls[id] EXCEPT !.exdone = TRUE, !.exerr = err])
    /\ UNCHANGED <<cfg, local, touched, last, dev>>

\* caching a block obtained from the exchange.  IDEAL: only accepted CIDs (C04) and only
\* self-certified bytes enter the store; it becomes ready for hand-off only if it was asked for.
CacheEffect(id, b, rdy, d) ==
    /\ Upd(id, [calls[id] EXCEPT !.infl = RemoveOne(@, b),
                                 !.ready = IF rdy THEN Append(@, [b |-> b, src |-> "ex"]) ELSE @])
    /\ local' = IF Present(b.c) THEN local ELSE local \cup {Stored(b)}
    /\ touched' = [touched EXCEPT !.stored = @ \cup Rejected({b.c})]
    /\ dev' = dev \cup d
    /\ UNCHANGED <<cfg, last>>
CachePut(id, b) ==
    /\ Active(id) /\ calls[id].op \in GetOps /\ InSeq(calls[id].infl, b)
    /\ Valid(b.c) /\ b.ok
    /\ CacheEffect(id, b, b.c \in calls[id].want, {})
\* FAULT (environment): the caching Put fails.  Nothing is written and -- the point of
\* CachedBeforeHandOff -- the block does NOT become ready: a fetched block that could not be cached is
\* never announced (Notify demands Present) nor handed to the caller (Recv/ReturnBlock demand ready).
CachePutFail(id, b) ==
    /\ Active(id) /\ calls[id].op \in GetOps /\ InSeq(calls[id].infl, b)
    /\ Valid(b.c)
    /\ Upd(id, [calls[id] EXCEPT !.infl = RemoveOne(@, b), !.failed = TRUE])
    /\ UNCHANGED <<cfg, local, touched, last, dev>>
\* AS BUILT (findings C05-exchange-unrequested / C05-exchange-unverified): whatever the exchange
\* hands back is stored and handed to the caller.
DevName(id, b) == IF b.c \notin calls[id].want THEN "Dev_C05_ExchangeUnrequested"
                                               ELSE "Dev_C05_ExchangeUnverified"
DevCachePut(id, b) ==
    /\ Active(id) /\ calls[id].op \in GetOps /\ InSeq(calls[id].infl, b)
    /\ b.c \notin calls[id].want \/ ~b.ok          \* exactly the deliveries the ideal does not hand off
    /\ DevName(id, b) \in Devs
    /\ CacheEffect(id, b, TRUE, {DevName(id, b)})

\* NotifyNewBlocks: only blocks we hold
Notify(id, S) == /\ Active(id) /\ cfg.ex # "none" /\ \A c \in S : Present(c) /\ UNCHANGED vars

(* ---- hand-off to the caller ------------------------------------------------------------ *)
HandRec(id, e) == [op        |-> calls[id].op,
                   \* (FULL CIDs: an alias of a requested CID -- same multihash, other codec/version -- is NOT requested)
                   requested |-> e.b.c \in calls[id].keys,        \* its CID is one the caller asked for
                   exact     |-> calls[id].keys = {e.b.c},        \* ... is THE CID asked for (GetBlock)
                   hashok    |-> e.b.ok,                          \* its bytes hash to its CID
                   src       |-> e.src,                           \* "local" | "ex"
                   inlocal   |-> Present(e.b.c)]                  \* its multihash is in the blockstore right now
FirstReady(id, b) == LET r == calls[id].ready IN
                     CHOOSE i \in 1..Len(r) : r[i].b = b /\ \A k \in 1..(i-1) : r[k].b # b
\* one block received from the channel returned by GetBlocks
Recv(id, b) ==
    /\ Active(id) /\ calls[id].op = "GetBlocks"
    /\ \E i \in 1..Len(calls[id].ready) : calls[id].ready[i].b = b
    /\ LET i == FirstReady(id, b) IN
       /\ last' = HandRec(id, calls[id].ready[i])
       /\ Upd(id, [calls[id] EXCEPT !.ready = SubSeq(@, 1, i-1) \o SubSeq(@, i+1, Len(@))])
    /\ touched' = [touched EXCEPT !.handed = @ \cup Rejected({b.c})]
    /\ UNCHANGED <<cfg, local, dev>>
\* every accepted requested CID was looked up, and the misses went to the exchange if there is one
Complete(id) == /\ calls[id].req \subseteq calls[id].seen
                /\ (calls[id].miss # {} /\ cfg.ex # "none") => calls[id].asked
Closed(id) ==
    /\ Active(id) /\ calls[id].op = "GetBlocks" /\ Complete(id)
    /\ Drop(id) /\ UNCHANGED <<cfg, local, touched, last, dev>>

ReturnBlock(id, b) ==
    /\ Active(id) /\ calls[id].op = "GetBlock"
    /\ \E i \in 1..Len(calls[id].ready) : calls[id].ready[i].b = b
    /\ last' = HandRec(id, calls[id].ready[FirstReady(id, b)])
    /\ touched' = [touched EXCEPT !.handed = @ \cup Rejected({b.c})]
    /\ Drop(id) /\ UNCHANGED <<cfg, local, dev>>
\* errors: a validator error exactly for rejected CIDs; any other error only when there is nothing to return
ReturnErr(id, class) ==
    /\ Active(id)
    /\ LET r == calls[id] IN
       CASE r.op = "GetBlock"    -> /\ r.ready = <<>>
                                    /\ (class = "verifcid") = (r.req = {})
                                    /\ class # "verifcid" => Complete(id)
         [] r.op \in AddOps      -> \/ class = "verifcid" /\ \E b \in r.args : ~Valid(b.c)
                                    \/ class = "other" /\ r.failed          \* the store's error is passed on
         [] OTHER                -> FALSE
    /\ Drop(id) /\ UNCHANGED <<cfg, local, touched, last, dev>>
ReturnOK(id) ==
    /\ Active(id)
    /\ LET r == calls[id] IN
       CASE r.op \in AddOps        -> \A b \in r.args : Valid(b.c) /\ Present(b.c)
         [] r.op = "DeleteBlock"   -> TRUE
         [] OTHER                  -> FALSE
    /\ Drop(id) /\ UNCHANGED <<cfg, local, touched, last, dev>>

(* ---- invariants: the two properties ------------------------------------------------------ *)
TypeOK == /\ cfg \in Cfgs
          /\ \A b \in local : b.c \in Cids /\ b.c = Mh(b.c) /\ \A d \in local : d.c = b.c => d = b
          /\ dev \subseteq Devs
\* C04: a CID the validator rejects is never stored, never asked from the exchange, never handed out
P_RejectedNeverTouched == touched.stored \cup touched.asked \cup touched.handed = {}
\* C05: what is handed to a caller was asked for by that caller / is THE block asked for / hashes to its CID
P_OnlyRequested == last.op # "none" => last.requested
P_GetBlockExact == last.op = "GetBlock" => last.exact
P_SelfCertified == last.op # "none" => last.hashok
\* a run that needed a recorded deviation has left the ideal: the properties are claimed for dev = {}
RejectedNeverTouched == dev = {} => P_RejectedNeverTouched
OnlyRequested        == dev = {} => P_OnlyRequested
GetBlockExact        == dev = {} => P_GetBlockExact
SelfCertified        == dev = {} => P_SelfCertified
\* C05: a block obtained from the exchange is in the local store when the caller gets it
CachedBeforeHandOff  == (last.op # "none" /\ last.src = "ex") => last.inlocal
\* ... and already while it waits for its hand-off (a failed caching Put never makes a block ready)
ReadyCached          == \A id \in DOMAIN calls : \A i \in 1..Len(calls[id].ready) :
                            calls[id].ready[i].src = "ex" => Present(calls[id].ready[i].b.c)
\* C05: the exchange is only ever asked for CIDs this call found absent at the time it looked
LocalNotFetched      == \A id \in DOMAIN calls : calls[id].want \subseteq calls[id].miss
=============================================================================
