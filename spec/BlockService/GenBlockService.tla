--------------------------- MODULE GenBlockService ---------------------------
(* Phase G generator: TLC enumerates the scenario space of the two properties in the terms of the
   BlockService module (configurations, CID kinds and their validity under CidPolicy, batches, the
   adversarial exchange's scripts) and prints every scenario as JSON.  The harness executes each
   scenario on the real block service and records what happens; TraceBlockService decides. *)
EXTENDS BlockService, Json
CONSTANTS Mode,          \* "C04" | "C05"
          Full           \* TRUE: the whole product (thorough tier); FALSE: the quick-tier cut described below
VARIABLE sc
gvars == <<vars, sc>>

Blk(c)  == [c |-> c, ok |-> TRUE]
\* pf = the positions (1 = first Put/PutMany of the call on the local store) at which the store fails
Honest  == [honest |-> TRUE,  dl |-> <<>>, end |-> "close", pf |-> {}]
ScriptedF(dl, end, pf) == [honest |-> FALSE, dl |-> dl, end |-> end, pf |-> pf]
Scripted(dl, end) == ScriptedF(dl, end, {})
Op(op, sess, ks, bs, script) == [op |-> op, sess |-> sess, ks |-> ks, bs |-> bs, script |-> script]
Scn(ex, wt, al, pre, ops) == [cfg |-> [ex |-> ex, wt |-> wt, al |-> al], pre |-> pre, ops |-> ops]
BlkSeq(b) == [i \in 1..Len(b) |-> Blk(b[i])]

(* ---- C04: batches mixing accepted and rejected CIDs at every position ------------------- *)
\* <<accepted kind, rejected kind>> under allowlist al -- tied to the policy by the ASSUME below
Pairs(al) == {<<"sha256", "trunc16">>, <<"id4", "id129">>, <<"sha256", "b2b152">>,
              IF al = "default" THEN <<"sha512", "shake128">> ELSE <<"shake128", "sha512">>}
ASSUME \A al \in SvcAL : \A p \in Pairs(al) : ValidTab[al][p[1]] /\ ~ValidTab[al][p[2]]
Masks(N)    == UNION {[1..n -> BOOLEAN] : n \in 1..N}      \* TRUE = accepted CID at that position
Batch(p, m) == [i \in 1..Len(m) |-> <<IF m[i] THEN p[1] ELSE p[2], i>>]
\* preload: nothing, or the accepted CIDs at odd positions
PreOf(p, m, pre) == IF pre = "none" THEN <<>>
                    ELSE BlkSeq(SelectSeq(Batch(p, m), LAMBDA c : c[2] % 2 = 1 /\ m[c[2]]))
Sess == {"none", "ses", "ctx"}
Pres == {"none", "odd"}
\* quick tier: every valid/invalid mask of length <= 5 is kept; the configuration dimensions are paired
\* instead of multiplied, and svc2 is exercised with the pair whose validity it flips
AddCfg == IF Full THEN ExKinds \X BOOLEAN \X Pres
                  ELSE {<<"plain", FALSE, "odd">>, <<"none", TRUE, "none">>}
GetCfg == IF Full THEN ExKinds \X Sess \X Pres
                  ELSE {<<"plain", "none", "odd">>, <<"sessx", "ses", "none">>, <<"sessx", "ctx", "odd">>}
Combos == IF Full THEN UNION {{<<al, p>> : p \in Pairs(al)} : al \in SvcAL}
                  ELSE {<<"default", <<"sha256", "trunc16">>>>, <<"default", <<"id4", "id129">>>>,
                        <<"svc2", <<"shake128", "sha512">>>>}

\* (Init04/Init05 are existential formulas rather than one big set: TLC enumerates the scenarios as
\*  initial states without first building and normalising a set of large records)
Init04 == \E x \in Combos : LET al == x[1] p == x[2] IN
       \* AddBlocks, one batch
    \/ \E c \in AddCfg, m \in Masks(5) :
          sc = Scn(c[1], c[2], al, PreOf(p, m, c[3]), <<Op("AddBlocks", "none", <<>>, BlkSeq(Batch(p, m)), Honest)>>)
       \* AddBlock, one call per element
    \/ \E c \in AddCfg, m \in Masks(2) :
          sc = Scn(c[1], c[2], al, PreOf(p, m, c[3]),
                   [i \in 1..Len(m) |-> Op("AddBlock", "none", <<>>, <<Blk(Batch(p, m)[i])>>, Honest)])
       \* GetBlocks, one batch; the honest exchange has every block of the universe, the rejected ones too
    \/ \E c \in GetCfg, m \in Masks(5) :
          sc = Scn(c[1], FALSE, al, PreOf(p, m, c[3]), <<Op("GetBlocks", c[2], Batch(p, m), <<>>, Honest)>>)
       \* GetBlock, one call per element
    \/ \E c \in GetCfg, m \in Masks(2) :
          sc = Scn(c[1], FALSE, al, PreOf(p, m, c[3]),
                   [i \in 1..Len(m) |-> Op("GetBlock", c[2], <<Batch(p, m)[i]>>, <<>>, Honest)])

(* ---- C05: request multisets (with duplicates) x partially local data x exchange scripts --- *)
G(i) == <<"sha256", i>>
A(i) == <<"sha256pb", i>>      \* ALIAS of G(i): same multihash, CIDv1 dag-pb
Z(i) == <<"sha256v0", i>>      \* ALIAS of G(i): same multihash, CIDv0
ASSUME Mh(A(1)) = Mh(G(1)) /\ Mh(Z(1)) = Mh(G(1)) /\ Mh(G(2)) # Mh(G(1))
Key(x) == IF x < 10 THEN G(x) ELSE IF x < 20 THEN A(x - 10) ELSE Z(x - 20)
Patterns == {<<1>>, <<1,1>>, <<1,2>>, <<1,1,1>>, <<1,1,2>>, <<1,2,1>>, <<1,2,2>>, <<1,2,3>>}  \* up to renaming
Req(pt)  == [i \in 1..Len(pt) |-> Key(pt[i])]
\* what a malicious exchange may hand back: the requested blocks, corrupted ones (right CID, wrong
\* bytes), a block nobody asked for, a block whose CID the validator rejects
Alphabet == {[c |-> G(1), ok |-> TRUE], [c |-> G(2), ok |-> TRUE], [c |-> G(3), ok |-> TRUE],
             [c |-> G(1), ok |-> FALSE], [c |-> G(2), ok |-> FALSE],
             [c |-> G(4), ok |-> TRUE], [c |-> <<"trunc16", 1>>, ok |-> TRUE]}
Scripts(N) == UNION {[1..n -> Alphabet] : n \in 0..N}
Universe == <<G(1), A(1), Z(1), G(2), G(3)>>
LocalSeq(pt, L) == BlkSeq(SelectSeq(Universe, LAMBDA c : c \in L))
\* scenarios that differ only in blocks the request never looks at are the same scenario
Relevant(pt, L) == MhOf(L) \subseteq MhOf(ToSet(Req(pt)))
\* if everything requested is local the exchange is never asked: one script suffices
Useful(pt, L, dl) == MhOf(ToSet(Req(pt))) \subseteq MhOf(L) => dl = <<>>

\* ... and CID ALIASES: the exchange (bitswap addresses blocks by multihash) answers with the same
\* bytes under another codec / CID version; requests name one alias, two aliases, an alias next to
\* another block; the store (keyed by multihash) holds the bytes put under any of the aliases
AliasPatterns == {<<1>>, <<11>>, <<21>>, <<1,11>>, <<11,21>>, <<11,2>>}
AliasAlphabet == {[c |-> G(1), ok |-> TRUE], [c |-> A(1), ok |-> TRUE], [c |-> Z(1), ok |-> TRUE],
                  [c |-> G(2), ok |-> TRUE], [c |-> A(1), ok |-> FALSE]}
AliasScripts(N) == UNION {[1..n -> AliasAlphabet] : n \in 0..N}
AliasLocals == {{}, {G(1)}, {A(1)}, {G(2)}, {Z(1), G(2)}}

\* ... and FAULTS of the local store: the k-th Put of the call fails, for every position k of the
\* script (and for all of them), the exchange delivering requested blocks, duplicates, an alias
\* (quick tier: 4 request patterns, scripts <= 2, one failing position; thorough: all patterns, an alias in
\*  the scripts, also every script of 3 requested-able blocks, also all positions failing)
FaultAlphabet == {[c |-> G(1), ok |-> TRUE], [c |-> G(2), ok |-> TRUE], [c |-> G(3), ok |-> TRUE]}
FaultScripts  == UNION {[1..n -> FaultAlphabet \cup IF Full THEN {[c |-> A(1), ok |-> TRUE]} ELSE {}] : n \in 1..2}
                 \cup IF Full THEN [1..3 -> FaultAlphabet] ELSE {}
FaultPatterns == IF Full THEN Patterns ELSE {<<1>>, <<1,2>>, <<1,2,1>>, <<1,2,3>>}
FailAt(dl) == {{k} : k \in 1..Len(dl)} \cup IF Full THEN {1..Len(dl)} ELSE {}
\* one delivery: the Put fails or not
Fail1(dl) == IF dl = <<>> THEN {{}} ELSE {{}, {1}}

Init05 ==
    \/ \E pt \in Patterns, L \in SUBSET {G(1), G(2), G(3)}, dl \in Scripts(IF Full THEN 3 ELSE 2) :
          /\ Relevant(pt, L) /\ Useful(pt, L, dl)
          /\ sc = Scn("plain", FALSE, "default", LocalSeq(pt, L),
                      <<Op("GetBlocks", "none", Req(pt), <<>>, Scripted(dl, "close"))>>)
       \* aliases
    \/ \E pt \in AliasPatterns, L \in AliasLocals, dl \in AliasScripts(IF Full THEN 2 ELSE 1) :
          /\ Relevant(pt, L) /\ Useful(pt, L, dl)
          /\ sc = Scn("plain", FALSE, "default", LocalSeq(pt, L),
                      <<Op("GetBlocks", "none", Req(pt), <<>>, Scripted(dl, "close"))>>)
       \* store faults
    \/ \E pt \in FaultPatterns, L \in SUBSET {G(1), G(2), G(3)}, dl \in FaultScripts :
          /\ Relevant(pt, L) /\ ~(ToSet(Req(pt)) \subseteq L)
          /\ \E pf \in FailAt(dl) :
                sc = Scn("plain", FALSE, "default", LocalSeq(pt, L),
                         <<Op("GetBlocks", "none", Req(pt), <<>>, ScriptedF(dl, "close", pf))>>)
       \* session-capable exchange, the request fails / short scripts (the Put failing or not), followed by
       \* a second honest request
    \/ \E pt \in IF Full THEN Patterns ELSE {<<1>>, <<1,2>>}, L \in SUBSET {G(1), G(2), G(3)}, dl \in Scripts(1), end \in {"close", "err"},
           ss \in IF Full THEN {"ses", "ctx"} ELSE {"ses"} :
          /\ Relevant(pt, L) /\ Useful(pt, L, dl)
          /\ \E pf \in IF end = "err" THEN {{}} ELSE Fail1(dl) :
                sc = Scn("sessx", FALSE, "default", LocalSeq(pt, L),
                         <<Op("GetBlocks", ss, Req(pt), <<>>, ScriptedF(dl, end, pf)), Op("GetBlocks", ss, Req(pt), <<>>, Honest)>>)
       \* GetBlock(any alias): the exchange returns any block of the alphabet or an alias, or fails, the
       \* caching Put fails or not; then the same request again
    \/ \E x \in IF Full THEN {"plain", "sessx"} \X Sess ELSE {<<"plain", "none">>, <<"sessx", "ses">>, <<"sessx", "ctx">>},
          k \in {1, 11, 21}, L \in {{}, {G(1)}, {A(1)}},
          dl \in UNION {[1..n -> Alphabet \cup {[c |-> A(1), ok |-> TRUE], [c |-> Z(1), ok |-> TRUE]}] : n \in 0..1} :
          /\ Useful(<<k>>, L, dl)
          /\ \E pf \in Fail1(dl) :
                sc = Scn(x[1], FALSE, "default", LocalSeq(<<k>>, L),
                         <<Op("GetBlock", x[2], <<Key(k)>>, <<>>, ScriptedF(dl, IF dl = <<>> THEN "err" ELSE "close", pf)),
                           Op("GetBlock", x[2], <<Key(k)>>, <<>>, Honest)>>)

GInit == /\ IF Mode = "C04" THEN Init04 ELSE Init05
         /\ cfg = sc.cfg /\ local = {} /\ calls = << >> /\ last = NoHand /\ dev = {}
         /\ touched = [stored |-> {}, asked |-> {}, handed |-> {}]
GNext == UNCHANGED gvars
GSpec == GInit /\ [][GNext]_gvars
Emit  == PrintT(<<"BEHAVIOUR", ToJson(sc)>>)
=============================================================================
