--------------------------- MODULE GenBlockService ---------------------------
(* Phase G generator: TLC enumerates the scenario space of the two properties in the terms of the
   BlockService module (configurations, CID kinds and their validity under CidPolicy, batches, the
   adversarial exchange's scripts) and prints every scenario as JSON.  The harness executes each
   scenario on the real block service and records what happens; TraceBlockService decides. *)
EXTENDS BlockService, Json
CONSTANTS Mode,          \* "C04" | "C05"
          Full           \* TRUE: the whole product (thorough tier); FALSE: the quick-tier cut described below
VARIABLE sc
gvars == <<vars, sc>>

Blk(c)  == [c |-> c, ok |-> TRUE]
Honest  == [honest |-> TRUE,  dl |-> <<>>, end |-> "close"]
Scripted(dl, end) == [honest |-> FALSE, dl |-> dl, end |-> end]
Op(op, sess, ks, bs, script) == [op |-> op, sess |-> sess, ks |-> ks, bs |-> bs, script |-> script]
Scn(ex, wt, al, pre, ops) == [cfg |-> [ex |-> ex, wt |-> wt, al |-> al], pre |-> pre, ops |-> ops]
BlkSeq(b) == [i \in 1..Len(b) |-> Blk(b[i])]

(* ---- C04: batches mixing accepted and rejected CIDs at every position ------------------- *)
\* <<accepted kind, rejected kind>> under allowlist al -- tied to the policy by the ASSUME below
Pairs(al) == {<<"sha256", "trunc16">>, <<"id4", "id129">>, <<"sha256", "b2b152">>,
              IF al = "default" THEN <<"sha512", "shake128">> ELSE <<"shake128", "sha512">>}
ASSUME \A al \in SvcAL : \A p \in Pairs(al) : ValidTab[al][p[1]] /\ ~ValidTab[al][p[2]]
Masks(N)    == UNION {[1..n -> BOOLEAN] : n \in 1..N}      \* TRUE = accepted CID at that position
Batch(p, m) == [i \in 1..Len(m) |-> <<IF m[i] THEN p[1] ELSE p[2], i>>]
\* preload: nothing, or the accepted CIDs at odd positions
PreOf(p, m, pre) == IF pre = "none" THEN <<>>
                    ELSE BlkSeq(SelectSeq(Batch(p, m), LAMBDA c : c[2] % 2 = 1 /\ m[c[2]]))
Sess == {"none", "ses", "ctx"}
Pres == {"none", "odd"}
\* quick tier: every valid/invalid mask of length <= 5 is kept; the configuration dimensions are paired
\* instead of multiplied, and svc2 is exercised with the pair whose validity it flips
AddCfg == IF Full THEN ExKinds \X BOOLEAN \X Pres
                  ELSE {<<"plain", FALSE, "odd">>, <<"none", TRUE, "none">>}
GetCfg == IF Full THEN ExKinds \X Sess \X Pres
                  ELSE {<<"plain", "none", "odd">>, <<"sessx", "ses", "none">>, <<"sessx", "ctx", "odd">>}
Combos == IF Full THEN UNION {{<<al, p>> : p \in Pairs(al)} : al \in SvcAL}
                  ELSE {<<"default", <<"sha256", "trunc16">>>>, <<"default", <<"id4", "id129">>>>,
                        <<"svc2", <<"shake128", "sha512">>>>}

\* (Init04/Init05 are existential formulas rather than one big set: TLC enumerates the scenarios as
\*  initial states without first building and normalising a set of large records)
Init04 == \E x \in Combos : LET al == x[1] p == x[2] IN
       \* AddBlocks, one batch
    \/ \E c \in AddCfg, m \in Masks(5) :
          sc = Scn(c[1], c[2], al, PreOf(p, m, c[3]), <<Op("AddBlocks", "none", <<>>, BlkSeq(Batch(p, m)), Honest)>>)
       \* AddBlock, one call per element
    \/ \E c \in AddCfg, m \in Masks(2) :
          sc = Scn(c[1], c[2], al, PreOf(p, m, c[3]),
                   [i \in 1..Len(m) |-> Op("AddBlock", "none", <<>>, <<Blk(Batch(p, m)[i])>>, Honest)])
       \* GetBlocks, one batch; the honest exchange has every block of the universe, the rejected ones too
    \/ \E c \in GetCfg, m \in Masks(5) :
          sc = Scn(c[1], FALSE, al, PreOf(p, m, c[3]), <<Op("GetBlocks", c[2], Batch(p, m), <<>>, Honest)>>)
       \* GetBlock, one call per element
    \/ \E c \in GetCfg, m \in Masks(2) :
          sc = Scn(c[1], FALSE, al, PreOf(p, m, c[3]),
                   [i \in 1..Len(m) |-> Op("GetBlock", c[2], <<Batch(p, m)[i]>>, <<>>, Honest)])

(* ---- C05: request multisets (with duplicates) x partially local data x exchange scripts --- *)
G(i) == <<"sha256", i>>
Patterns == {<<1>>, <<1,1>>, <<1,2>>, <<1,1,1>>, <<1,1,2>>, <<1,2,1>>, <<1,2,2>>, <<1,2,3>>}  \* up to renaming
Req(pt)  == [i \in 1..Len(pt) |-> G(pt[i])]
\* what a malicious exchange may hand back: the requested blocks, corrupted ones (right CID, wrong
\* bytes), a block nobody asked for, a block whose CID the validator rejects
Alphabet == {[c |-> G(1), ok |-> TRUE], [c |-> G(2), ok |-> TRUE], [c |-> G(3), ok |-> TRUE],
             [c |-> G(1), ok |-> FALSE], [c |-> G(2), ok |-> FALSE],
             [c |-> G(4), ok |-> TRUE], [c |-> <<"trunc16", 1>>, ok |-> TRUE]}
Scripts(N) == UNION {[1..n -> Alphabet] : n \in 0..N}
LocalSeq(pt, L) == BlkSeq(SelectSeq(<<G(1), G(2), G(3)>>, LAMBDA c : c \in L))
\* scenarios that differ only in blocks the request never looks at are the same scenario
Relevant(pt, L) == L \subseteq ToSet(Req(pt))
\* if everything requested is local the exchange is never asked: one script suffices
Useful(pt, L, dl) == ToSet(Req(pt)) \subseteq L => dl = <<>>
Init05 ==
    \/ \E pt \in Patterns, L \in SUBSET {G(1), G(2), G(3)}, dl \in Scripts(IF Full THEN 3 ELSE 2) :
          /\ Relevant(pt, L) /\ Useful(pt, L, dl)
          /\ sc = Scn("plain", FALSE, "default", LocalSeq(pt, L),
                      <<Op("GetBlocks", "none", Req(pt), <<>>, Scripted(dl, "close"))>>)
       \* session-capable exchange, the request fails / short scripts, followed by a second honest request
    \/ \E pt \in IF Full THEN Patterns ELSE {<<1>>, <<1,2>>}, L \in SUBSET {G(1), G(2), G(3)}, dl \in Scripts(1), end \in {"close", "err"},
           ss \in IF Full THEN {"ses", "ctx"} ELSE {"ses"} :
          /\ Relevant(pt, L) /\ Useful(pt, L, dl)
          /\ sc = Scn("sessx", FALSE, "default", LocalSeq(pt, L),
                      <<Op("GetBlocks", ss, Req(pt), <<>>, Scripted(dl, end)), Op("GetBlocks", ss, Req(pt), <<>>, Honest)>>)
       \* GetBlock: the exchange returns any block of the alphabet, or fails; then the same request again
    \/ \E ex \in {"plain", "sessx"}, ss \in Sess, L \in SUBSET {G(1)}, dl \in Scripts(1) :
          sc = Scn(ex, FALSE, "default", LocalSeq(<<1>>, L),
                   <<Op("GetBlock", ss, <<G(1)>>, <<>>, Scripted(dl, IF dl = <<>> THEN "err" ELSE "close")),
                     Op("GetBlock", ss, <<G(1)>>, <<>>, Honest)>>)

GInit == /\ IF Mode = "C04" THEN Init04 ELSE Init05
         /\ cfg = sc.cfg /\ local = {} /\ calls = << >> /\ last = NoHand /\ dev = {}
         /\ touched = [stored |-> {}, asked |-> {}, handed |-> {}]
GNext == UNCHANGED gvars
GSpec == GInit /\ [][GNext]_gvars
Emit  == PrintT(<<"BEHAVIOUR", ToJson(sc)>>)
=============================================================================
