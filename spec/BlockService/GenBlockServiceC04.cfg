SPECIFICATION GSpec
CONSTANTS Cids <- Kinds
          Devs = {}
          Mode = "C04"
          Full = TRUE
INVARIANT Emit
