SPECIFICATION GSpec
CONSTANTS Cids <- Kinds
          Devs = {}
          Mode = "C05"
          Full = TRUE
INVARIANT Emit
