---------------------------- MODULE MCBlockService ----------------------------
(* Phase M: all interleavings of up to MaxCalls calls (at most MaxActive at a time) of the ideal
   block service against the adversarial exchange, over a small CID universe. *)
EXTENDS BlockService
CONSTANTS MaxCalls, MaxActive, MaxDl
VARIABLE nid                      \* calls started so far (ids are never reused)
mvars == <<vars, nid>>

MCCids  == {<<"sha256", 1>>, <<"sha256", 2>>, <<"shake128", 1>>}   \* shake128: valid only under svc2
MCCids2 == {<<"sha256", 1>>, <<"shake128", 1>>}
\* with an ALIAS of sha256/1 (same multihash, CIDv1 dag-pb): requests for either, exchange answers with either
MCCidsA == {<<"sha256", 1>>, <<"sha256pb", 1>>, <<"shake128", 1>>}
KeySets == {S \in SUBSET Cids : S # {} /\ Cardinality(S) <= 2}
ArgSets == {S \in SUBSET {b \in Blocks : b.ok} : S # {} /\ Cardinality(S) <= 2}

\* WriteThrough and session-capability do not influence any action of the model: fix them here
MCInit == Init /\ nid = 0 /\ ~cfg.wt /\ cfg.ex # "sessx"
Start == /\ nid < MaxCalls /\ Cardinality(DOMAIN calls) < MaxActive /\ nid' = nid + 1
         /\ \/ \E op \in GetOps, S \in KeySets, ss \in {"none", "ses"} :
                  (op = "GetBlock" => Cardinality(S) = 1) /\ Call(nid + 1, op, ss, S, {})
            \/ \E op \in AddOps, S \in ArgSets :
                  (op = "AddBlock" => Cardinality(S) = 1) /\ Call(nid + 1, op, "none", {}, S)
            \/ \E c \in Cids : Call(nid + 1, "DeleteBlock", "none", {c}, {})
\* one named step per model action, so that TLC's coverage shows an action that is never taken
S_Preload     == UNCHANGED nid /\ \E b \in Blocks : Preload(b)
\* (duplicate keys = repeated lookups of one CID are left to the generated scenarios: here each key is
\*  looked up once, which keeps `ready` bounded)
S_BsGet       == UNCHANGED nid /\ \E id \in DOMAIN calls : \E c \in Cids : c \notin calls[id].seen /\ BsGet(id, c)
S_BsDelete    == UNCHANGED nid /\ \E id \in DOMAIN calls : \E c \in Cids : BsDelete(id, c)
S_AddPut      == UNCHANGED nid /\ \E id \in DOMAIN calls : \E S \in SUBSET calls[id].args : S # {} /\ AddPut(id, S)
S_AddPutFail  == UNCHANGED nid /\ \E id \in DOMAIN calls : \E S \in SUBSET calls[id].args : S # {} /\ AddPutFail(id, S)
S_ExAsk       == UNCHANGED nid /\ \E id \in DOMAIN calls : ExAsk(id, calls[id].miss)
S_ExDeliver   == UNCHANGED nid /\ \E id \in DOMAIN calls : \E b \in Blocks : calls[id].ndl < MaxDl /\ ExDeliver(id, b)
S_ExEnd       == UNCHANGED nid /\ \E id \in DOMAIN calls : \E e \in BOOLEAN : ExEnd(id, e)
S_CachePut    == UNCHANGED nid /\ \E id \in DOMAIN calls : \E b \in Blocks : CachePut(id, b)
S_CachePutFail == UNCHANGED nid /\ \E id \in DOMAIN calls : \E b \in Blocks : CachePutFail(id, b)
S_DevCachePut == UNCHANGED nid /\ \E id \in DOMAIN calls : \E b \in Blocks : DevCachePut(id, b)
S_Recv        == UNCHANGED nid /\ \E id \in DOMAIN calls : \E b \in Blocks : Recv(id, b)
S_ReturnBlock == UNCHANGED nid /\ \E id \in DOMAIN calls : \E b \in Blocks : ReturnBlock(id, b)
S_Closed      == UNCHANGED nid /\ \E id \in DOMAIN calls : Closed(id)
S_ReturnOK    == UNCHANGED nid /\ \E id \in DOMAIN calls : ReturnOK(id)
S_ReturnErr   == UNCHANGED nid /\ \E id \in DOMAIN calls : \E cl \in {"verifcid", "notfound"} : ReturnErr(id, cl)
MCNext == \/ Start \/ S_Preload \/ S_BsGet \/ S_BsDelete \/ S_AddPut \/ S_AddPutFail \/ S_ExAsk \/ S_ExDeliver \/ S_ExEnd
          \/ S_CachePut \/ S_CachePutFail \/ S_DevCachePut \/ S_Recv \/ S_ReturnBlock \/ S_Closed \/ S_ReturnOK \/ S_ReturnErr
MCSpec == MCInit /\ [][MCNext]_mvars
=============================================================================
