---------------------------- MODULE MCBlockService ----------------------------
(* Phase M: all interleavings of up to MaxCalls calls (at most MaxActive at a time) of the ideal
   block service against the adversarial exchange, over a small CID universe. *)
EXTENDS BlockService
CONSTANTS MaxCalls, MaxActive, MaxDl
VARIABLE nid                      \* calls started so far (ids are never reused)
mvars == <<vars, nid>>

MCCids  == {<<"sha256", 1>>, <<"sha256", 2>>, <<"shake128", 1>>}   \* shake128: valid only under svc2
MCCids2 == {<<"sha256", 1>>, <<"shake128", 1>>}
KeySets == {S \in SUBSET Cids : S # {} /\ Cardinality(S) <= 2}
ArgSets == {S \in SUBSET {b \in Blocks : b.ok} : S # {} /\ Cardinality(S) <= 2}

\* WriteThrough and session-capability do not influence any action of the model: fix them here
MCInit == Init /\ nid = 0 /\ ~cfg.wt /\ cfg.ex # "sessx"
Start == /\ nid < MaxCalls /\ Cardinality(DOMAIN calls) < MaxActive /\ nid' = nid + 1
         /\ \/ \E op \in GetOps, S \in KeySets, ss \in {"none", "ses"} :
                  (op = "GetBlock" => Cardinality(S) = 1) /\ Call(nid + 1, op, ss, S, {})
            \/ \E op \in AddOps, S \in ArgSets :
                  (op = "AddBlock" => Cardinality(S) = 1) /\ Call(nid + 1, op, "none", {}, S)
            \/ \E c \in Cids : Call(nid + 1, "DeleteBlock", "none", {c}, {})
Step == /\ UNCHANGED nid
        /\ \/ \E b \in Blocks : Preload(b)
           \/ \E id \in DOMAIN calls :
                \* (duplicate keys = repeated lookups of one CID are left to the generated scenarios:
                \*  here each key is looked up once, which keeps `ready` bounded)
                \/ \E c \in Cids : (c \notin calls[id].seen /\ BsGet(id, c)) \/ BsDelete(id, c)
                \/ \E S \in SUBSET calls[id].args : S # {} /\ AddPut(id, S)
                \/ ExAsk(id, calls[id].miss)
                \/ \E b \in Blocks : calls[id].ndl < MaxDl /\ ExDeliver(id, b)
                \/ \E e \in BOOLEAN : ExEnd(id, e)
                \/ \E b \in Blocks : CachePut(id, b) \/ DevCachePut(id, b) \/ Recv(id, b) \/ ReturnBlock(id, b)
                \/ Closed(id) \/ ReturnOK(id)
                \/ \E cl \in {"verifcid", "notfound"} : ReturnErr(id, cl)
MCNext == Start \/ Step
MCSpec == MCInit /\ [][MCNext]_mvars
=============================================================================
