SPECIFICATION MCSpec
CONSTANTS Cids <- MCCids
          Devs = {}
          MaxCalls = 1
          MaxActive = 1
          MaxDl = 2
INVARIANTS TypeOK RejectedNeverTouched OnlyRequested GetBlockExact SelfCertified CachedBeforeHandOff ReadyCached LocalNotFetched
           P_RejectedNeverTouched P_OnlyRequested P_GetBlockExact P_SelfCertified
CHECK_DEADLOCK FALSE
