SPECIFICATION MCSpec
CONSTANTS Cids <- MCCids
          Devs = {"Dev_C05_ExchangeUnrequested", "Dev_C05_ExchangeUnverified"}
          MaxCalls = 1
          MaxActive = 1
          MaxDl = 1
INVARIANTS TypeOK RejectedNeverTouched OnlyRequested GetBlockExact SelfCertified CachedBeforeHandOff ReadyCached LocalNotFetched
           P_OnlyRequested
CHECK_DEADLOCK FALSE
