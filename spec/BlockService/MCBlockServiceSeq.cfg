SPECIFICATION MCSpec
CONSTANTS Cids <- MCCids2
          Devs = {}
          MaxCalls = 2
          MaxActive = 1
          MaxDl = 1
INVARIANTS TypeOK RejectedNeverTouched OnlyRequested GetBlockExact SelfCertified CachedBeforeHandOff ReadyCached LocalNotFetched
           P_RejectedNeverTouched P_OnlyRequested P_GetBlockExact P_SelfCertified
CHECK_DEADLOCK FALSE
