SPECIFICATION TSpec
CONSTANTS Cids <- TraceCids
          Devs = @DEVS@
INVARIANTS TypeOK RejectedNeverTouched OnlyRequested GetBlockExact SelfCertified CachedBeforeHandOff LocalNotFetched DevReport
CONSTRAINT TraceConstraint
POSTCONDITION TracePost
CHECK_DEADLOCK FALSE
