SPECIFICATION TSpec
CONSTANTS Cids <- TraceCids
          Devs = @DEVS@
INVARIANTS TypeOK RejectedNeverTouched OnlyRequested GetBlockExact SelfCertified CachedBeforeHandOff ReadyCached LocalNotFetched DevReport
CONSTRAINT TraceConstraint
POSTCONDITION TracePost
CHECK_DEADLOCK FALSE
