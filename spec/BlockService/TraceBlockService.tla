-------------------------- MODULE TraceBlockService --------------------------
(* Phase T (and the checking half of phase G): a history recorded from the real
   blockservice -- one event per blockstore operation (recording wrapper), per exchange request /
   delivery / close (scripted fake exchange), per notification, per block received by the caller,
   per return -- must be a behaviour of BlockService, every logged result equal to what the model
   dictates.  Runs are separated by Reset events.  Nothing is hidden: every model action is
   logged, so validation is a linear walk; the only choice is CachePut vs DevCachePut. *)
EXTENDS BlockService, Json

Trace == ndJsonDeserialize("trace.ndjson")
VARIABLES l,        \* next event
          devAll    \* deviations used anywhere in the trace (dev is per run)
tvars == <<vars, l, devAll>>
ASSUME TLCSet(1, 0)
TraceCids == Kinds \X (0..64)

Ev == Trace[l]
IsEvent(e) == l <= Len(Trace) /\ Trace[l].ev = e /\ l' = l + 1
Keep == devAll' = devAll \cup dev'

TInit == /\ l = 1 /\ devAll = {}
         /\ cfg = [ex |-> "none", wt |-> FALSE, al |-> "default"]
         /\ local = {} /\ calls = << >> /\ last = NoHand /\ dev = {}
         /\ touched = [stored |-> {}, asked |-> {}, handed |-> {}]

TReset == /\ IsEvent("Reset")
          /\ cfg' = [ex |-> Ev.ex, wt |-> Ev.wt, al |-> Ev.al] /\ cfg' \in Cfgs
          /\ local' = {} /\ calls' = << >> /\ last' = NoHand /\ dev' = {}
          /\ touched' = [stored |-> {}, asked |-> {}, handed |-> {}]
          /\ UNCHANGED devAll
\* the harness reports, for every CID kind it uses, the registry name and digest length of the REAL
\* CIDs it built (read back from cid.Prefix()): the model's validity table is about the same CIDs
TKind    == /\ IsEvent("Kind") /\ Ev.kind \in Kinds
            /\ KindSpec[Ev.kind] = [name |-> Ev.name, len |-> Ev.len, form |-> Ev.form]
            /\ UNCHANGED <<vars, devAll>>
TPreload == IsEvent("Preload") /\ Ev.b.c \in Cids /\ Preload(Ev.b) /\ Keep
TCall    == /\ IsEvent("Call")
            /\ ToSet(Ev.ks) \subseteq Cids /\ \A i \in 1..Len(Ev.bs) : Ev.bs[i].c \in Cids
            /\ Call(Ev.id, Ev.op, Ev.sess, ToSet(Ev.ks), ToSet(Ev.bs)) /\ Keep
TBsHas   == IsEvent("BsHas") /\ Ev.found = HasRes(Ev.c) /\ BsHas(Ev.id, Ev.c) /\ Keep
TBsGet   == /\ IsEvent("BsGet") /\ GetRes(Ev.c) = [found |-> Ev.found, ok |-> Ev.ok]
            /\ BsGet(Ev.id, Ev.c) /\ Keep
\* a Put is either AddBlock's, or the caching of a block from the exchange (ideal or as built)
\* ... or, when the store reported an error (injected fault), the failed version of either
TBsPut   == /\ IsEvent("BsPut")
            /\ IF Ev.err THEN \/ AddPutFail(Ev.id, {Ev.b})
                               \/ CachePutFail(Ev.id, Ev.b)
                          ELSE \/ AddPut(Ev.id, {Ev.b})
                               \/ CachePut(Ev.id, Ev.b)
                               \/ DevCachePut(Ev.id, Ev.b)
            /\ Keep
TBsPutMany == /\ IsEvent("BsPutMany")
              /\ IF Ev.err THEN AddPutFail(Ev.id, ToSet(Ev.bs)) ELSE AddPut(Ev.id, ToSet(Ev.bs))
              /\ Keep
TBsDelete  == IsEvent("BsDelete") /\ BsDelete(Ev.id, Ev.c) /\ Keep
TExSession == IsEvent("ExSession") /\ ExSession(Ev.id) /\ Keep
TExAsk     == /\ IsEvent("ExAsk") /\ Len(Ev.ks) > 0
              /\ ExAsk(Ev.id, ToSet(Ev.ks)) /\ Keep
TExDeliver == IsEvent("ExDeliver") /\ ExDeliver(Ev.id, Ev.b) /\ Keep
TExEnd     == IsEvent("ExEnd") /\ ExEnd(Ev.id, Ev.err) /\ Keep
TNotify    == IsEvent("Notify") /\ Notify(Ev.id, ToSet(Ev.cs)) /\ Keep
TRecv      == /\ IsEvent("Recv") /\ Ev.inlocal = Present(Ev.b.c)   \* harness-observed store content = model
              /\ Recv(Ev.id, Ev.b) /\ Keep
TClosed    == IsEvent("Closed") /\ Closed(Ev.id) /\ Keep
TReturn    == /\ IsEvent("Return") /\ Active(Ev.id) /\ Ev.op = calls[Ev.id].op
              /\ CASE Ev.res = "block" -> Ev.inlocal = Present(Ev.b.c) /\ ReturnBlock(Ev.id, Ev.b)
                   [] Ev.res = "ok"    -> ReturnOK(Ev.id)
                   [] Ev.res = "err"   -> ReturnErr(Ev.id, Ev.class)
                   [] OTHER            -> FALSE
              /\ Keep

TNext == \/ TReset \/ TKind \/ TPreload \/ TCall \/ TBsHas \/ TBsGet \/ TBsPut \/ TBsPutMany \/ TBsDelete
         \/ TExSession \/ TExAsk \/ TExDeliver \/ TExEnd \/ TNotify \/ TRecv \/ TClosed \/ TReturn
TSpec == TInit /\ [][TNext]_tvars

TraceConstraint == TLCSet(1, IF l - 1 > TLCGet(1) THEN l - 1 ELSE TLCGet(1))
TracePost == PrintT(<<"TRACE_HWM", TLCGet(1)>>)
DevReport == l <= Len(Trace) \/ \A d \in devAll : PrintT(<<"DEV_USED", d>>)
=============================================================================
