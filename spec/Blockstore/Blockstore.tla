------------------------------ MODULE Blockstore ------------------------------
(* C01 -- the default blockstore (+ optional identity-store wrapper) as a map from
   multihash to bytes.  Honest blocks only: the bytes of a block are a function of its
   multihash, so the map degenerates to the SET of stored multihashes plus the table
   multihash -> bytes, whose SHAPE (length class, hash function, multihash framing) is the
   block universe defined below; the harness only fills in byte values of that shape.

   One action per public call of blockstore/blockstore.go and blockstore/idstore.go.
   A model CID is <<alias, h>>:
     <<"v0", h>>    CIDv0 (dag-pb, sha2-256) of block h          (sha2-256 blocks only)
     <<"v1", h>>    CIDv1-raw    with the multihash of block h
     <<"pb", h>>    CIDv1-dag-pb with the multihash of block h
     <<"id", k>>    CIDv1-raw    identity-hash CID number k
     <<"idpb", k>>  CIDv1-dag-pb identity-hash CID number k (same multihash as <<"id",k>>)
   The multihash of the aliases of block h is <<"sha", h>>; of identity CID k it is <<"id",k>>.  *)
EXTENDS Integers, Sequences, FiniteSets, TLC, Json

CONSTANTS NB,        \* honest blocks 1..NB
          NID,       \* identity CIDs 0..NID-1
          MaxBatch,  \* longest PutMany argument
          Wide,      \* BOOLEAN: all CID variants (FALSE: two aliases per block, one per identity)
          Inners     \* kinds of store the identity store may wrap in this run (subset of AllInners)

Blocks == 1..NB
Ids    == 0..(NID-1)

(* ---- the block universe ---------------------------------------------------------------
   Lengths sit on both sides of every framing boundary a block or an inlined payload can
   cross: empty, one byte, 127|128 (a multihash/CID length varint grows from one to two
   bytes), 255|256, 16383|16384 (two to three varint bytes; 16 KiB).  The first entries are
   the boundary ones so that even the smallest configurations (NB = 2, NID = 2) contain an
   empty entry and a two-byte-varint entry.  Entries beyond the table get distinct mid-range
   lengths (never 0 again: two empty blocks would be the same block).                       *)
BSizes  == <<0, 128, 1, 127, 16384, 129, 255, 256>>
IdSizes == <<0, 128, 1, 127, 16384, 129, 16383, 300>>
BSize(h)  == IF h <= Len(BSizes)  THEN BSizes[h]      ELSE 200 + h
IdSize(k) == IF k <  Len(IdSizes) THEN IdSizes[k + 1] ELSE 200 + k
\* hash function of block h: every third block is addressed by sha2-512 (64-byte digest, no CIDv0 form)
HashFn(h) == IF h % 3 = 0 THEN "sha2-512" ELSE "sha2-256"

ShaAliases(h) == IF HashFn(h) = "sha2-256"
                 THEN (IF Wide THEN {"v0", "v1", "pb"} ELSE {"v0", "v1"})
                 ELSE {"v1", "pb"}
IdAliases == IF Wide THEN {"id", "idpb"} ELSE {"id"}
Cids   == (UNION {ShaAliases(h) \X {h} : h \in Blocks}) \cup (IdAliases \X Ids)
IsId(c) == c[1] \in {"id", "idpb"}
Mh(c)  == IF IsId(c) THEN <<"id", c[2]>> ELSE <<"sha", c[2]>>
AllMh  == {Mh(c) : c \in Cids}

\* the bytes stored under / inlined in multihash m have this length ...
Size(m) == IF m[1] = "id" THEN IdSize(m[2]) ELSE BSize(m[2])
\* ... and the multihash itself is <code varint><digest-length varint><digest>; an identity
\* multihash carries the payload AS its digest.  All hash codes used here are < 128.
VarintLen(n) == IF n < 128 THEN 1 ELSE IF n < 16384 THEN 2 ELSE 3          \* n < 2^21
MhFn(m)      == IF m[1] = "id" THEN "identity" ELSE HashFn(m[2])
DigestLen(m) == CASE MhFn(m) = "identity" -> IdSize(m[2])
                  [] MhFn(m) = "sha2-256" -> 32
                  [] MhFn(m) = "sha2-512" -> 64
MhLen(m)     == 1 + VarintLen(DigestLen(m)) + DigestLen(m)
\* the universe as data (printed by the generator / compared with the harness table by the trace spec)
MhTable  == {[mh |-> m, fn |-> MhFn(m), size |-> Size(m), dlen |-> DigestLen(m), mhlen |-> MhLen(m)] : m \in AllMh}
CidTable == {[c |-> c, mh |-> Mh(c), isid |-> IsId(c)] : c \in Cids}

\* distinct model entries are distinct blocks (at most one empty one of each kind)
ASSUME UniverseOK == /\ \A h, g \in Blocks : (BSize(h) = 0 /\ BSize(g) = 0) => h = g
                     /\ \A k, j \in Ids : (IdSize(k) = 0 /\ IdSize(j) = 0) => k = j

(* ---- what the identity store wraps ----------------------------------------------------
   NewIdStore(bs) accepts ANY Blockstore.  The wrapped store may or may not offer the optional
   capabilities (Viewer = zero-copy View, AllKeysChanWithErrer); the identity store itself always
   offers all of them and must answer identically whatever is underneath.  Kinds:
     "plain"                the default blockstore itself (no Viewer)
     "w" "wV" "wA" "wVA"    the default blockstore behind a transparent wrapper that exposes exactly
                            the named optional capabilities (V = Viewer, A = AllKeysChanWithErrer);
                            such a Viewer knows nothing about identity CIDs: it reports what is stored
     "tq" "bloom"           the default blockstore behind CachedBlockstore (two-queue cache only /
                            two-queue cache + Bloom filter, build awaited); both layers are Viewers   *)
AllInners == {"plain", "w", "wV", "wA", "wVA", "tq", "bloom"}
InnerBase(k) == CASE k = "plain" -> "plain"
                  [] k \in {"w", "wV", "wA", "wVA"} -> "wrap"
                  [] k = "tq" -> "tq"
                  [] k = "bloom" -> "bloom"
InnerCaps(k) == CASE k = "plain" -> {"akerr"}
                  [] k = "w"   -> {}
                  [] k = "wV"  -> {"viewer"}
                  [] k = "wA"  -> {"akerr"}
                  [] k = "wVA" -> {"viewer", "akerr"}
                  [] k \in {"tq", "bloom"} -> {"viewer", "akerr"}
InnerTable == {[kind |-> k, base |-> InnerBase(k), caps |-> InnerCaps(k)] : k \in Inners}
ASSUME InnersOK == Inners # {} /\ Inners \subseteq AllInners

VARIABLES store,   \* set of multihashes currently in the backing datastore
          cfg      \* [wt, np, ids : BOOLEAN, inner : Inners]  WriteThrough / NoPrefix / NewIdStore / what it wraps
vars == <<store, cfg>>

\* the inner-store kind is a dimension of the identity-store wrapper; without the wrapper the store
\* under test is the default blockstore itself
Cfgs == {c \in [wt : BOOLEAN, np : BOOLEAN, ids : BOOLEAN, inner : Inners] : c.ids \/ c.inner = "plain"}

Init == store = {} /\ cfg \in Cfgs

(* ---- what a caller must observe (the property) ------------------------------------ *)
\* stated for an arbitrary configuration cf and map st so that invariants can compare configurations
PresentIn(cf, st, c) == IF cf.ids /\ IsId(c) THEN TRUE ELSE Mh(c) \in st
\* Has/Get/GetSize/View (EVERY read API, the optional View included): found => the bytes/size of
\* multihash Mh(c), delivered under the CID asked for; absent => not-found (GetSize: -1)
ReadResIn(cf, st, c) == IF PresentIn(cf, st, c) THEN [found |-> TRUE,  mh |-> Mh(c),       size |-> Size(Mh(c))]
                                                ELSE [found |-> FALSE, mh |-> <<"none", 0>>, size |-> -1]
Present(c) == PresentIn(cfg, store, c)
ReadRes(c) == ReadResIn(cfg, store, c)
AllKeysRes == store          \* as a set of multihashes (each reported as a CIDv1-raw)

(* ---- mutators ---------------------------------------------------------------------- *)
Stored(c) == IF cfg.ids /\ IsId(c) THEN {} ELSE {Mh(c)}     \* idstore: identity CIDs never written

Put(c)      == store' = store \cup Stored(c) /\ UNCHANGED cfg
PutMany(cs) == store' = store \cup UNION {Stored(cs[i]) : i \in 1..Len(cs)} /\ UNCHANGED cfg
Delete(c)   == store' = store \ Stored(c) /\ UNCHANGED cfg
Query       == UNCHANGED vars

Batches == UNION {[1..n -> Cids] : n \in 0..MaxBatch}

Next == \/ \E c \in Cids : Put(c) \/ Delete(c)
        \/ \E cs \in Batches : PutMany(cs)

Spec == Init /\ [][Next]_vars

(* ---- invariants -------------------------------------------------------------------- *)
TypeOK == store \subseteq AllMh /\ cfg \in Cfgs
IdentityNeverStored == cfg.ids => \A m \in store : m[1] # "id"
IdentityAlwaysPresent == cfg.ids => \A c \in Cids : IsId(c) => Present(c)
\* an identity CID yields exactly its inlined bytes: all of the digest, whatever its length class
IdentityInlined == cfg.ids => \A c \in Cids : IsId(c) =>
                      /\ ReadRes(c).mh = Mh(c) /\ ReadRes(c).size = DigestLen(Mh(c))
                      /\ MhLen(Mh(c)) = ReadRes(c).size + 1 + VarintLen(ReadRes(c).size)
AliasSameEntry == \A c, d \in Cids : Mh(c) = Mh(d) => ReadRes(c) = ReadRes(d)
\* the wrapper is transparent: whatever kind of store the identity store wraps (Viewer or not, cached
\* or not) and whatever the write options, every CID reads the same, and the same entries are enumerated
WrapperTransparent == \A cf \in Cfgs : cf.ids = cfg.ids => \A c \in Cids : ReadResIn(cf, store, c) = ReadRes(c)
=============================================================================
