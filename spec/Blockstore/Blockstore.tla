------------------------------ MODULE Blockstore ------------------------------
(* C01 -- the default blockstore (+ optional identity-store wrapper) as a map from
   multihash to bytes.  Honest blocks only: the bytes of a block are a function of its
   multihash, so the map degenerates to the SET of stored multihashes plus the (harness
   side) table multihash -> bytes.

   One action per public call of blockstore/blockstore.go and blockstore/idstore.go.
   A model CID is <<alias, h>>:
     <<"v0", h>>  CIDv0 (dag-pb, sha2-256) of block h
     <<"v1", h>>  CIDv1-raw with the SAME multihash as <<"v0", h>>
     <<"id", k>>  identity-hash CID number k (k = 0 : empty digest)
   The multihash of <<"v0",h>> and <<"v1",h>> is <<"sha", h>>; of <<"id",k>> it is <<"id",k>>.  *)
EXTENDS Naturals, Sequences, FiniteSets, TLC, Json

CONSTANTS NB,        \* honest blocks 1..NB
          NID,       \* identity CIDs 0..NID-1
          MaxBatch   \* longest PutMany argument

Blocks == 1..NB
Ids    == 0..(NID-1)
Cids   == ({"v0","v1"} \X Blocks) \cup ({"id"} \X Ids)
Mh(c)  == IF c[1] = "id" THEN <<"id", c[2]>> ELSE <<"sha", c[2]>>
IsId(c) == c[1] = "id"
AllMh  == {Mh(c) : c \in Cids}

VARIABLES store,   \* set of multihashes currently in the backing datastore
          cfg      \* [wt |-> BOOLEAN, np |-> BOOLEAN, ids |-> BOOLEAN]  WriteThrough / NoPrefix / NewIdStore
vars == <<store, cfg>>

Cfgs == [wt : BOOLEAN, np : BOOLEAN, ids : BOOLEAN]

Init == store = {} /\ cfg \in Cfgs

(* ---- what a caller must observe (the property) ------------------------------------ *)
Present(c) == IF cfg.ids /\ IsId(c) THEN TRUE ELSE Mh(c) \in store
\* Get/View/GetSize: found => the bytes/size of multihash Mh(c), delivered under the CID asked for
ReadRes(c) == IF Present(c) THEN [found |-> TRUE, mh |-> Mh(c)] ELSE [found |-> FALSE, mh |-> <<"none", 0>>]
AllKeysRes == store          \* as a set of multihashes (each reported as a CIDv1-raw)

(* ---- mutators ---------------------------------------------------------------------- *)
Stored(c) == IF cfg.ids /\ IsId(c) THEN {} ELSE {Mh(c)}     \* idstore: identity CIDs never written

Put(c)      == store' = store \cup Stored(c) /\ UNCHANGED cfg
PutMany(cs) == store' = store \cup UNION {Stored(cs[i]) : i \in 1..Len(cs)} /\ UNCHANGED cfg
Delete(c)   == store' = store \ Stored(c) /\ UNCHANGED cfg
Query       == UNCHANGED vars

Batches == UNION {[1..n -> Cids] : n \in 0..MaxBatch}

Next == \/ \E c \in Cids : Put(c) \/ Delete(c)
        \/ \E cs \in Batches : PutMany(cs)

Spec == Init /\ [][Next]_vars

(* ---- invariants -------------------------------------------------------------------- *)
TypeOK == store \subseteq AllMh /\ cfg \in Cfgs
IdentityNeverStored == cfg.ids => \A m \in store : m[1] # "id"
IdentityAlwaysPresent == cfg.ids => \A c \in Cids : IsId(c) => Present(c)
AliasSameEntry == \A c, d \in Cids : Mh(c) = Mh(d) => ReadRes(c).found = ReadRes(d).found
=============================================================================
