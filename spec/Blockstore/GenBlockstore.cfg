SPECIFICATION GSpec
CONSTANTS NB = 2
          NID = 1
          Wide = FALSE
          Inners = {"plain"}
          MaxBatch = 2
          D = 2
          E = 2
INVARIANTS Emit EmitUniverse
