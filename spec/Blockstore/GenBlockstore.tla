---------------------------- MODULE GenBlockstore ----------------------------
(* Phase G: every behaviour of Blockstore to depth D, printed as JSON with the projected
   state after each step (the harness runs the full query battery after every step and
   compares it with `store`). *)
EXTENDS Blockstore
CONSTANTS D,  \* bound on behaviour length (BFS)
          E   \* emit when Len(hist) = E (E = D for BFS; E = depth-1, D large for -simulate)
VARIABLE hist
gvars == <<vars, hist>>

GInit == Init /\ hist = <<>>
Step(op, c, cs) == hist' = Append(hist, [op |-> op, c |-> c, cs |-> cs, store |-> store'])

GNext == /\ Len(hist) < D
         /\ \/ \E c \in Cids : (Put(c) /\ Step("Put", c, <<>>)) \/ (Delete(c) /\ Step("Delete", c, <<>>))
            \/ \E cs \in Batches : PutMany(cs) /\ Step("PutMany", <<"none", 0>>, cs)
GSpec == GInit /\ [][GNext]_gvars

\* -simulate: one printed behaviour per E steps (printing from an invariant would print every
\* candidate successor); after the flush a fresh run starts with a freshly chosen configuration.
Flush == /\ Len(hist) = E
         /\ PrintT(<<"BEHAVIOUR", ToJson([cfg |-> cfg, steps |-> hist])>>)
         /\ hist' = <<>> /\ store' = {} /\ cfg' \in Cfgs
GNextSim == IF Len(hist) = E THEN Flush ELSE GNext
GSpecSim == GInit /\ [][GNextSim]_gvars

Emit == Len(hist) # E \/ PrintT(<<"BEHAVIOUR", ToJson([cfg |-> cfg, steps |-> hist])>>)

\* The block universe of this run (CID table: which entry every CID addresses; multihash table:
\* length class, hash function and framing of every entry; inner-store table: what each kind of
\* wrapped store is and which optional capabilities it exposes), printed once (identical lines are
\* merged by the runner).  The harness builds its blocks, CIDs and wrapped stores from THIS table.
EmitUniverse == Len(hist) # 0 \/ PrintT(<<"BEHAVIOUR", ToJson([univ |-> [cids |-> CidTable, mhs |-> MhTable, inners |-> InnerTable]])>>)
=============================================================================
