SPECIFICATION GSpec
CONSTANTS NB = 2
          NID = 1
          Wide = FALSE
          Inners = {"plain"}
          MaxBatch = 2
          D = 3
          E = 3
INVARIANTS Emit EmitUniverse
