SPECIFICATION GSpec
CONSTANTS NB = 2
          NID = 2
          Wide = TRUE
          Inners = {"plain", "w", "wV", "wA", "wVA", "tq", "bloom"}
          MaxBatch = 1
          D = 1
          E = 1
INVARIANTS Emit EmitUniverse
