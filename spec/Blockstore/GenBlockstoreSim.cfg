SPECIFICATION GSpecSim
CONSTANTS NB = 3
          NID = 2
          Wide = FALSE
          Inners = {"plain", "w", "wV", "wA", "wVA", "tq", "bloom"}
          MaxBatch = 2
          D = 1000
          E = 30
INVARIANTS EmitUniverse
