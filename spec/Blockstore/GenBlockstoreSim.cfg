SPECIFICATION GSpecSim
CONSTANTS NB = 3
          NID = 2
          MaxBatch = 3
          D = 1000
          E = 30
