SPECIFICATION GSpec
CONSTANTS NB = 8
          NID = 8
          Wide = TRUE
          Inners = {"plain", "tq"}
          MaxBatch = 1
          D = 1
          E = 1
INVARIANTS Emit EmitUniverse
