SPECIFICATION GSpec
CONSTANTS NB = 8
          NID = 8
          Wide = TRUE
          Inners = {"plain"}
          MaxBatch = 0
          D = 2
          E = 2
INVARIANTS Emit EmitUniverse
