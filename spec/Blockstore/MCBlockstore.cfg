SPECIFICATION Spec
CONSTANTS NB = 3
          NID = 2
          MaxBatch = 2
INVARIANTS TypeOK IdentityNeverStored IdentityAlwaysPresent AliasSameEntry
