SPECIFICATION Spec
CONSTANTS NB = 3
          NID = 2
          Wide = TRUE
          Inners = {"plain", "w", "wV", "wA", "wVA", "tq", "bloom"}
          MaxBatch = 2
INVARIANTS TypeOK IdentityNeverStored IdentityAlwaysPresent IdentityInlined AliasSameEntry WrapperTransparent
