SPECIFICATION Spec
CONSTANTS NB = 3
          NID = 2
          Wide = TRUE
          MaxBatch = 2
INVARIANTS TypeOK IdentityNeverStored IdentityAlwaysPresent IdentityInlined AliasSameEntry
