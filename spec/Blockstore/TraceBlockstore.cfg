SPECIFICATION TSpec
CONSTANTS NB = 12
          NID = 8
          Wide = TRUE
          Inners = {"plain", "w", "wV", "wA", "wVA", "tq", "bloom"}
          MaxBatch = 5
INVARIANTS TypeOK IdentityNeverStored IdentityAlwaysPresent IdentityInlined
CONSTRAINT TraceConstraint
POSTCONDITION TracePost
CHECK_DEADLOCK FALSE
