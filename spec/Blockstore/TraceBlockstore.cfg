SPECIFICATION TSpec
CONSTANTS NB = 12
          NID = 3
          MaxBatch = 5
INVARIANTS TypeOK IdentityNeverStored IdentityAlwaysPresent
CONSTRAINT TraceConstraint
POSTCONDITION TracePost
CHECK_DEADLOCK FALSE
