--------------------------- MODULE TraceBlockstore ---------------------------
(* Phase T: a recorded history of the real blockstore (NDJSON, one event per public call,
   several runs separated by Reset events) must be a behaviour of Blockstore, with every
   logged result equal to what the map model dictates. *)
EXTENDS Blockstore, Integers

Trace == ndJsonDeserialize("trace.ndjson")
VARIABLE l
tvars == <<vars, l>>
ASSUME TLCSet(1, 0)

Ev == Trace[l]
IsEvent(e) == l <= Len(Trace) /\ Trace[l].ev = e /\ l' = l + 1
ToSet(s) == {s[i] : i \in 1..Len(s)}

TInit == l = 1 /\ store = {} /\ cfg = [wt |-> FALSE, np |-> FALSE, ids |-> FALSE, inner |-> "plain"]

\* Reset also logs the harness' block universe (measured on the real multihashes): it must be
\* the universe of this specification -- same length classes, hash functions and multihash framing.
TReset   == /\ IsEvent("Reset")
            /\ ToSet(Ev.mhs) = MhTable /\ Len(Ev.mhs) = Cardinality(MhTable)
            \* the wrapped store is of a kind the spec knows; a harness wrapper exposes exactly the
            \* optional capabilities the spec lists for its kind (measured by type assertion)
            /\ Ev.inner \in Inners
            /\ InnerBase(Ev.inner) = "wrap" => ToSet(Ev.caps) = InnerCaps(Ev.inner)
            /\ store' = {} /\ cfg' = [wt |-> Ev.wt, np |-> Ev.np, ids |-> Ev.ids, inner |-> Ev.inner]
            /\ cfg' \in Cfgs
TPut     == IsEvent("Put") /\ Ev.err = "" /\ Put(Ev.c)
TPutMany == IsEvent("PutMany") /\ Ev.err = "" /\ PutMany(Ev.cs)
TDelete  == IsEvent("Delete") /\ Ev.err = "" /\ Delete(Ev.c)
TRead    == /\ IsEvent("Read") /\ Ev.detail = ""
            /\ Ev.c \in Cids
            /\ ReadRes(Ev.c).found = Ev.found /\ ReadRes(Ev.c).mh = Ev.mh
            /\ (Ev.api # "Has" => ReadRes(Ev.c).size = Ev.size)      \* observed length of the bytes / GetSize
            /\ Query
TAllKeys == /\ IsEvent("AllKeys") /\ Ev.detail = "" /\ Ev.prefixOK
            /\ ToSet(Ev.keys) = store /\ Len(Ev.keys) = Cardinality(store)
            /\ ToSet(Ev.raw) = store /\ Len(Ev.raw) = Cardinality(store)
            /\ Query

TNext == TReset \/ TPut \/ TPutMany \/ TDelete \/ TRead \/ TAllKeys
TSpec == TInit /\ [][TNext]_tvars

TraceConstraint == TLCSet(1, IF l - 1 > TLCGet(1) THEN l - 1 ELSE TLCGet(1))
TracePost == PrintT(<<"TRACE_HWM", TLCGet(1)>>)
=============================================================================
