------------------------------ MODULE Bootstrap ------------------------------
(* Model of boxo/bootstrap (bootstrap.go): the connection supervisor started by Bootstrap().

   Grain: one action per call the component makes on its environment (host.Network().Peers,
   cfg.BootstrapPeers, Network().Connectedness, host.Connect, Peerstore().AddAddrs, routing Bootstrap,
   load/save backup callbacks) and per blocking point (doneWithRound hand-off, ticker selects, wg.Wait,
   the 1 s monitor timer of peersConnect, the ConnectionTimeout deadline).  Time is explicit (whole
   seconds); the environment (connectedness changes, dial outcomes, configuration changes, the clock,
   Close) acts only when the component is quiescent, which is exactly how the harness drives the real
   code inside a synctest bubble.

   What a user relies on (stated below as invariants; the trace / replay bindings compare every call):
     DialOnlyBelowThreshold   a round dials only if it saw fewer than MinPeerThreshold open connections
     DialTargets              a round dials configured peers, and backup peers only in the fallback phase
     BackupOnlyWhenShort      the backup list is loaded/dialled only when the configured peers did not
                              fill the missing connections (and only if backup functions are configured)
     PeriodicRounds           while running, a round starts every Period (bounded response)
     SaveWithinLimit, SaveExcludesConfigured, SaveNoDup   what is handed to the save callback
     CancelledQuiet           after Close (or a failed routing bootstrap) and once quiescent, every
                              goroutine of the component has exited and no dial is in flight
   Trace-level (checked on every recorded call): every Connect/load/save issued after the root context was
   cancelled or the round's deadline passed carries a dead context; a peer found connected is not dialled;
   permanent addresses are recorded exactly for configured peers that were connected.               *)
EXTENDS Naturals, Integers, Sequences, FiniteSets, TLC

CONSTANTS Peers,      \* peer names
          Devs        \* enabled named deviations (as-built behaviour of open findings); "AsBuiltOnly"
                      \* additionally disables the ideal alternative (model sensitivity controls)

VARIABLES now,        \* fake clock, seconds
          conn,       \* peers with an open connection (what host.Network().Peers() returns)
          bpeers,     \* what cfg.BootstrapPeers() returns now (order is randomised by the code: a set)
          store,      \* the saved backup list (what load returns), a sequence
          cfg,        \* [thr, period, ct, bi, max, backup, rt]
          direct,     \* peers whose peerstore addresses include a non-relay address
          inst,       \* peers whose Connect succeeds without waiting (environment answers at once)
          bc,         \* Bootstrap() caller: none chk rt hand retp retperr ret reterr
          lpc,        \* supervisor goroutine: none start r1 wait idle rn exit stuck
          cancelled,  \* root context cancelled (Close, or routing bootstrap failed)
          done,       \* doneWithRound: open | closed
          closeSt,    \* none called cancelled returned
          tick,       \* round ticker  [on, next, pend]
          rd,         \* the round in progress
          sv,         \* backup-saving goroutine [pc, k]
          stick,      \* its ticker
          g           \* ghosts: lastRound, saved, sb

vars == <<now, conn, bpeers, store, cfg, direct, inst, bc, lpc, cancelled, done, closeSt, tick, rd, sv, stick, g>>

Range(s) == {s[i] : i \in 1..Len(s)}
MinI(a, b) == IF a < b THEN a ELSE b
NoDup(s) == \A i, j \in 1..Len(s) : i # j => s[i] # s[j]
FirstN(n, s) == IF Len(s) <= n THEN s ELSE SubSeq(s, 1, n)
Dedupe(s) == LET D[i \in 0..Len(s)] == IF i = 0 THEN <<>>
                                      ELSE IF s[i] \in Range(D[i-1]) THEN D[i-1] ELSE Append(D[i-1], s[i])
             IN D[Len(s)]
Filter(s, S) == LET F[i \in 0..Len(s)] == IF i = 0 THEN <<>>
                                         ELSE IF s[i] \in S THEN Append(F[i-1], s[i]) ELSE F[i-1]
                IN F[Len(s)]
\* all duplicate-free sequences of length k over S
RECURSIVE Arr(_, _)
Arr(S, k) == IF k = 0 THEN {<<>>} ELSE UNION {{<<x>> \o t : t \in Arr(S \ {x}, k - 1)} : x \in S}

TickOff == [on |-> FALSE, next |-> 0, pend |-> FALSE]
RdOff == [pc |-> "off", need |-> 0, n0 |-> 0, deadline |-> 0, unsp |-> {}, todo |-> {}, call |-> {},
          pend |-> {}, okd |-> {}, succ |-> 0, pcan |-> FALSE, mon |-> 0, monOn |-> FALSE, perm |-> FALSE]
SvOff == [pc |-> "none", k |-> 0]

RDead == cancelled \/ now >= rd.deadline       \* the round's context (WithTimeout of the root context)
Dead == rd.pcan \/ RDead                       \* the phase's context (WithCancel of the round's)

AsBuiltOnly == "AsBuiltOnly" \in Devs
DevNoPeriodic == "Dev_X02_NoPeriodicWithoutBackup" \in Devs
DevMaxZero == "Dev_X02_MaxZeroSavesOne" \in Devs

(* ---------------------------------------------------------------- quiescence *)
PhaseIdle == rd.unsp = {} /\ rd.todo = {} /\ rd.call = {} /\ rd.okd = {}
Busy ==
  \/ bc \in {"chk", "rt", "retp", "retperr"}
  \/ bc = "hand" /\ lpc = "wait"
  \/ lpc = "start"
  \/ lpc = "wait" /\ (done = "closed" \/ (~cfg.backup /\ bc \in {"retp", "ret"}))
  \/ lpc = "idle" /\ (tick.pend \/ cancelled)
  \/ tick.on /\ now >= tick.next
  \/ rd.pc \in {"get", "load"}
  \/ rd.pc = "dial" /\ ( ~PhaseIdle \/ rd.pend = {}
                         \/ (Dead \/ rd.pend \cap inst # {})
                         \/ (rd.monOn /\ now >= rd.mon) )
  \/ sv.pc \in {"start", "get", "load", "save"}
  \/ sv.pc = "idle" /\ (stick.pend \/ cancelled)
  \/ stick.on /\ now >= stick.next
  \/ closeSt = "called"
Quiescent == ~Busy

(* ---------------------------------------------------------------- Bootstrap() caller *)
PostRt == IF cfg.backup THEN "hand" ELSE "retp"

HStart == /\ bc = "none" /\ bc' = "chk"
          /\ UNCHANGED <<now, conn, bpeers, store, cfg, direct, inst, lpc, cancelled, done, closeSt, tick, rd, sv, stick, g>>

\* len(cfg.BootstrapPeers()) == 0 warning, then the supervisor goroutine is spawned
BGet == /\ bc = "chk"
        /\ bc' = IF cfg.rt = "none" THEN PostRt ELSE "rt"
        /\ lpc' = "start"
        /\ UNCHANGED <<now, conn, bpeers, store, cfg, direct, inst, cancelled, done, closeSt, tick, rd, sv, stick, g>>

\* rt.Bootstrap(ctx); on error: cancel(), close(doneWithRound), return the error
BRt == /\ bc = "rt"
       /\ IF cfg.rt = "fail"
          THEN cancelled' = TRUE /\ done' = "closed" /\ bc' = "retperr"
          ELSE bc' = PostRt /\ UNCHANGED <<cancelled, done>>
       /\ UNCHANGED <<now, conn, bpeers, store, cfg, direct, inst, lpc, closeSt, tick, rd, sv, stick, g>>

BRet(err) == /\ \/ bc = "retp" /\ ~err /\ bc' = "ret"
                \/ bc = "retperr" /\ err /\ bc' = "reterr"
             /\ UNCHANGED <<now, conn, bpeers, store, cfg, direct, inst, lpc, cancelled, done, closeSt, tick, rd, sv, stick, g>>

\* doneWithRound <- struct{}{} meets <-doneWithRound after the first round; the saver is started
Handoff == /\ bc = "hand" /\ lpc = "wait"
           /\ bc' = "retp"
           /\ lpc' = IF cancelled THEN "exit" ELSE "idle"
           /\ tick' = IF cancelled THEN TickOff ELSE tick
           /\ sv' = [pc |-> "start", k |-> 0]
           /\ UNCHANGED <<now, conn, bpeers, store, cfg, direct, inst, cancelled, done, closeSt, rd, stick, g>>

(* ---------------------------------------------------------------- supervisor goroutine *)
\* after the first round the goroutine waits on doneWithRound.  Ideal: a caller that has nothing to
\* synchronise with (no backup functions) releases it.
LPass == /\ lpc = "wait"
         /\ \/ done = "closed"
            \/ ~cfg.backup /\ bc \in {"retp", "ret"} /\ ~(AsBuiltOnly /\ DevNoPeriodic)
         /\ lpc' = IF cancelled THEN "exit" ELSE "idle"
         /\ tick' = IF cancelled THEN TickOff ELSE tick
         /\ UNCHANGED <<now, conn, bpeers, store, cfg, direct, inst, bc, cancelled, done, closeSt, rd, sv, stick, g>>

\* As built: without backup functions nobody ever sends on or closes doneWithRound.
LStuck == /\ DevNoPeriodic
          /\ lpc = "wait" /\ ~cfg.backup /\ done = "open" /\ bc \in {"retp", "ret"}
          /\ lpc' = "stuck"
          /\ UNCHANGED <<now, conn, bpeers, store, cfg, direct, inst, bc, cancelled, done, closeSt, tick, rd, sv, stick, g>>

EndRoundP == rd' = RdOff /\ lpc' = (IF lpc \in {"r1", "start"} THEN "wait" ELSE "idle")

\* a round begins: context.WithTimeout, host.Network().Peers().  The first one runs at goroutine start
\* (where the ticker is created), later ones consume a tick.  The select between a pending tick and a
\* cancelled context is not ordered (as in Go).
RoundPeers(n) ==
  /\ lpc = "start" \/ (lpc = "idle" /\ tick.pend)
  /\ n = Cardinality(conn)
  /\ tick' = IF lpc = "start" THEN [on |-> TRUE, next |-> now + cfg.period, pend |-> FALSE]
             ELSE [tick EXCEPT !.pend = FALSE]
  /\ IF n >= cfg.thr THEN EndRoundP
     ELSE /\ rd' = [RdOff EXCEPT !.pc = "get", !.need = cfg.thr - n, !.n0 = n, !.deadline = now + cfg.ct]
          /\ lpc' = IF lpc = "start" THEN "r1" ELSE "rn"
  /\ g' = [g EXCEPT !.lastRound = now]
  /\ UNCHANGED <<now, conn, bpeers, store, cfg, direct, inst, bc, cancelled, done, closeSt, sv, stick>>

Phase(S, perm, need) == [RdOff EXCEPT !.pc = "dial", !.need = need, !.n0 = rd.n0, !.deadline = rd.deadline,
                                      !.unsp = S, !.mon = now + 1, !.monOn = TRUE, !.perm = perm]

\* the configured peers did not suffice (or there are none)
AfterCfg(need) == IF cfg.backup
                  THEN rd' = [RdOff EXCEPT !.pc = "load", !.need = need, !.n0 = rd.n0, !.deadline = rd.deadline]
                       /\ UNCHANGED lpc
                  ELSE EndRoundP

RoundGet == /\ rd.pc = "get"
            /\ IF bpeers = {} THEN AfterCfg(rd.need)
               ELSE rd' = Phase(bpeers, TRUE, rd.need) /\ UNCHANGED lpc
            /\ UNCHANGED <<now, conn, bpeers, store, cfg, direct, inst, bc, cancelled, done, closeSt, tick, sv, stick, g>>

RoundLoad(live) == /\ rd.pc = "load" /\ live = ~RDead
                   /\ IF store = <<>> THEN EndRoundP
                      ELSE rd' = Phase(Range(store), FALSE, rd.need) /\ UNCHANGED lpc
                   /\ UNCHANGED <<now, conn, bpeers, store, cfg, direct, inst, bc, cancelled, done, closeSt, tick, sv, stick, g>>

RdOnly == UNCHANGED <<now, conn, bpeers, store, cfg, direct, inst, bc, lpc, cancelled, done, closeSt, tick, sv, stick, g>>

\* peersConnect's loop: one goroutine per peer while fewer than `needed` dials have succeeded
Spawn(p) == /\ rd.pc = "dial" /\ p \in rd.unsp /\ rd.succ < rd.need
            /\ rd' = [rd EXCEPT !.unsp = @ \ {p}, !.todo = @ \cup {p}]
            /\ RdOnly
SpawnStop == /\ rd.pc = "dial" /\ rd.unsp # {} /\ rd.succ >= rd.need
             /\ rd' = [rd EXCEPT !.unsp = {}, !.pcan = TRUE]
             /\ RdOnly
\* Connectedness(p): a connected peer is skipped
Check(p, c) == /\ rd.pc = "dial" /\ p \in rd.todo /\ c = (p \in conn)
               /\ rd' = IF c THEN [rd EXCEPT !.todo = @ \ {p}]
                        ELSE [rd EXCEPT !.todo = @ \ {p}, !.call = @ \cup {p}]
               /\ RdOnly
\* host.Connect(ctx, p) is called; live = the context is not yet done
Connect(p, live) == /\ rd.pc = "dial" /\ p \in rd.call /\ live = ~Dead
                    /\ rd' = [rd EXCEPT !.call = @ \ {p}, !.pend = @ \cup {p}]
                    /\ RdOnly
\* Connect returns: "ok" (the environment connected us), "fail", or "cancel" (context done)
ConnRet(p, res) ==
  /\ rd.pc = "dial" /\ p \in rd.pend
  /\ \/ res = "cancel" /\ Dead
     \/ res = "ok" /\ ~Dead
     \/ res = "fail" /\ ~Dead
  /\ conn' = IF res = "ok" THEN conn \cup {p} ELSE conn
  /\ rd' = IF res = "ok" THEN [rd EXCEPT !.pend = @ \ {p}, !.okd = @ \cup {p}] ELSE [rd EXCEPT !.pend = @ \ {p}]
  /\ UNCHANGED <<now, bpeers, store, cfg, direct, inst, bc, lpc, cancelled, done, closeSt, tick, sv, stick, g>>
\* success is counted (configured peers: after Peerstore().AddAddrs(p, PermanentAddrTTL))
Count(p) == /\ rd.pc = "dial" /\ p \in rd.okd
            /\ rd' = [rd EXCEPT !.okd = @ \ {p}, !.succ = @ + 1]
            /\ RdOnly
\* the monitor goroutine: every second, cancel the remaining dials once enough have succeeded
Mon == /\ rd.pc = "dial" /\ rd.monOn /\ ~Dead /\ now >= rd.mon
       /\ rd' = IF rd.succ >= rd.need THEN [rd EXCEPT !.pcan = TRUE, !.monOn = FALSE]
                ELSE [rd EXCEPT !.mon = @ + 1]
       /\ RdOnly
MonExit == /\ rd.pc = "dial" /\ rd.monOn /\ Dead
           /\ rd' = [rd EXCEPT !.monOn = FALSE]
           /\ RdOnly
\* wg.Wait() returns
PhaseEnd == /\ rd.pc = "dial" /\ PhaseIdle /\ rd.pend = {}
            /\ LET nd == rd.need - rd.succ IN
               IF nd <= 0 THEN EndRoundP
               ELSE IF rd.perm THEN AfterCfg(nd) ELSE EndRoundP
            /\ UNCHANGED <<now, conn, bpeers, store, cfg, direct, inst, bc, cancelled, done, closeSt, tick, sv, stick, g>>

TickFire == /\ tick.on /\ now >= tick.next
            /\ tick' = [tick EXCEPT !.pend = TRUE, !.next = @ + cfg.period]
            /\ UNCHANGED <<now, conn, bpeers, store, cfg, direct, inst, bc, lpc, cancelled, done, closeSt, rd, sv, stick, g>>
LExit == /\ lpc = "idle" /\ cancelled
         /\ lpc' = "exit" /\ tick' = TickOff
         /\ UNCHANGED <<now, conn, bpeers, store, cfg, direct, inst, bc, cancelled, done, closeSt, rd, sv, stick, g>>

(* ---------------------------------------------------------------- backup saver *)
Elig == (conn \cap direct) \ bpeers
IdealK == MinI(cfg.max, Cardinality(Elig))
AsBuiltK == IF cfg.max = 0 /\ Elig # {} THEN 1 ELSE IdealK   \* limit checked after the append
Ks == (IF AsBuiltOnly /\ DevMaxZero THEN {} ELSE {IdealK}) \cup (IF DevMaxZero THEN {AsBuiltK} ELSE {})
OldTail(k) == IF k >= cfg.max THEN <<>>
              ELSE FirstN(cfg.max - k, Filter(Dedupe(store), Peers \ (bpeers \cup conn)))
\* what may be handed to save: k distinct eligible connected peers, then the first still-unknown old ones
SaveOK(l, k) == /\ Len(l) = k + Len(OldTail(k))
                /\ NoDup(SubSeq(l, 1, k)) /\ Range(SubSeq(l, 1, k)) \subseteq Elig
                /\ SubSeq(l, k + 1, Len(l)) = OldTail(k)

SvOnly == UNCHANGED <<now, conn, bpeers, store, cfg, direct, inst, bc, lpc, cancelled, done, closeSt, tick, rd, g>>

SavePeers(n) == /\ sv.pc = "start" \/ (sv.pc = "idle" /\ stick.pend)
                /\ n = Cardinality(conn)
                /\ stick' = IF sv.pc = "start" THEN [on |-> TRUE, next |-> now + cfg.bi, pend |-> FALSE]
                            ELSE [stick EXCEPT !.pend = FALSE]
                /\ sv' = [pc |-> IF n = 0 THEN "idle" ELSE "get", k |-> 0]
                /\ SvOnly
SaveGet == /\ sv.pc = "get"
           /\ \E k \in Ks : sv' = [pc |-> IF k < cfg.max THEN "load" ELSE "save", k |-> k]
           /\ UNCHANGED stick /\ SvOnly
SaveLoad(live) == /\ sv.pc = "load" /\ live = ~cancelled
                  /\ sv' = [sv EXCEPT !.pc = "save"]
                  /\ UNCHANGED stick /\ SvOnly
SaveSave(l, live) == /\ sv.pc = "save" /\ live = ~cancelled
                     /\ SaveOK(l, sv.k)
                     /\ store' = l
                     /\ sv' = [pc |-> "idle", k |-> 0]
                     /\ g' = [g EXCEPT !.saved = TRUE, !.sb = bpeers]
                     /\ UNCHANGED <<now, conn, bpeers, cfg, direct, inst, bc, lpc, cancelled, done, closeSt, tick, rd, stick>>
SvTick == /\ stick.on /\ now >= stick.next
          /\ stick' = [stick EXCEPT !.pend = TRUE, !.next = @ + cfg.bi]
          /\ UNCHANGED sv /\ SvOnly
SvExit == /\ sv.pc = "idle" /\ cancelled
          /\ sv' = [pc |-> "exit", k |-> 0] /\ stick' = TickOff
          /\ SvOnly

(* ---------------------------------------------------------------- Close *)
CloseCall == /\ bc = "ret" /\ closeSt = "none" /\ closeSt' = "called"
             /\ UNCHANGED <<now, conn, bpeers, store, cfg, direct, inst, bc, lpc, cancelled, done, tick, rd, sv, stick, g>>
Cancel == /\ closeSt = "called" /\ closeSt' = "cancelled" /\ cancelled' = TRUE
          /\ UNCHANGED <<now, conn, bpeers, store, cfg, direct, inst, bc, lpc, done, tick, rd, sv, stick, g>>
CloseRet == /\ closeSt = "cancelled" /\ closeSt' = "returned"
            /\ UNCHANGED <<now, conn, bpeers, store, cfg, direct, inst, bc, lpc, cancelled, done, tick, rd, sv, stick, g>>

(* ---------------------------------------------------------------- environment *)
EnvSet(p, up) == /\ (p \in conn) # up
                 /\ conn' = IF up THEN conn \cup {p} ELSE conn \ {p}
                 /\ UNCHANGED <<now, bpeers, store, cfg, direct, inst, bc, lpc, cancelled, done, closeSt, tick, rd, sv, stick, g>>
SetPeers(B) == /\ bpeers' = B
               /\ UNCHANGED <<now, conn, store, cfg, direct, inst, bc, lpc, cancelled, done, closeSt, tick, rd, sv, stick, g>>
Adv == /\ now' = now + 1
       /\ UNCHANGED <<conn, bpeers, store, cfg, direct, inst, bc, lpc, cancelled, done, closeSt, tick, rd, sv, stick, g>>

(* ---------------------------------------------------------------- properties *)
Census == [loop |-> IF lpc \in {"start", "r1", "rn", "wait", "idle", "stuck"} THEN 1 ELSE 0,
           save |-> IF sv.pc \in {"start", "get", "load", "save", "idle"} THEN 1 ELSE 0,
           mon  |-> IF rd.monOn THEN 1 ELSE 0,
           dial |-> Cardinality(rd.pend),
           boot |-> IF bc = "hand" THEN 1 ELSE 0]

Dialling == rd.todo \cup rd.call \cup rd.pend \cup rd.okd
DialOnlyBelowThreshold == rd.pc \in {"get", "dial", "load"} => rd.n0 < cfg.thr /\ rd.need >= 1
DialTargets == rd.pc = "dial" => /\ rd.perm => cfg.thr > rd.n0
                                 /\ ~rd.perm => cfg.backup
BackupOnlyWhenShort == (rd.pc = "load" \/ (rd.pc = "dial" /\ ~rd.perm)) => cfg.backup /\ rd.need >= 1
\* bounded response: while running, a round is in progress or one started less than a Period ago
PeriodicRounds == (lpc \notin {"none", "start"} /\ ~cancelled /\ Quiescent /\ cfg.ct <= cfg.period)
                     => (rd.pc # "off" \/ now - g.lastRound < cfg.period)
SaveWithinLimit == g.saved => Len(store) <= cfg.max
SaveExcludesConfigured == g.saved => Range(store) \cap g.sb = {}
SaveNoDup == g.saved => NoDup(store)
CancelledQuiet == (cancelled /\ Quiescent) =>
                    /\ lpc \in {"none", "exit"} /\ sv.pc \in {"none", "exit"} /\ rd.pc = "off"
                    /\ ~tick.on /\ ~stick.on
\* Bootstrap() returns only after the first round when backup functions are configured (it waits for it)
FirstRoundBeforeReturn == (cfg.backup /\ bc \in {"retp", "ret"}) => lpc \notin {"none", "start", "r1", "wait"}
=============================================================================
