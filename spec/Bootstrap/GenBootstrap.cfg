SPECIFICATION Spec
CONSTANTS P = {"a", "b", "c"}
          Kinds = {"round", "save", "valid"}
          ThrVals = {0, 1, 2}
          CtVals = {0, 3}
          StLen = 2
          OLen = 2
          MaxVals = {0, 1, 2}
CHECK_DEADLOCK FALSE
