---------------------------- MODULE GenBootstrap ----------------------------
(* Phase G for X02: class-product enumeration of single calls, with the result a user may expect
   stated as operators over the inputs (independent of the step model in Bootstrap.tla):

     round   bootstrapRound(ctx, host, cfg): threshold, connected set, configured peers, backup list,
             backup functions configured or not, ConnectionTimeout, and for every peer how a dial ends
             (ok / fail / hang = answers only to cancellation)
     save    saveConnectedPeersAsTemporaryBootstrap: connected set, configured peers, peers with a direct
             address, previously saved list (duplicates allowed), MaxBackupBootstrapSize
     valid   Bootstrap() with boundary / invalid configuration values                              *)
EXTENDS Naturals, Integers, Sequences, FiniteSets, TLC, Json

CONSTANTS P,          \* peers
          ThrVals, CtVals, StLen, OLen, MaxVals, Kinds

VARIABLES c1, pc
gvars == <<c1, pc>>

Range(s) == {s[i] : i \in 1..Len(s)}
MinI(a, b) == IF a < b THEN a ELSE b
FirstN(n, s) == IF Len(s) <= n THEN s ELSE SubSeq(s, 1, n)
Dedupe(s) == LET Dd[i \in 0..Len(s)] == IF i = 0 THEN <<>>
                                       ELSE IF s[i] \in Range(Dd[i-1]) THEN Dd[i-1] ELSE Append(Dd[i-1], s[i])
             IN Dd[Len(s)]
Filter(s, S) == LET F[i \in 0..Len(s)] == IF i = 0 THEN <<>>
                                         ELSE IF s[i] \in S THEN Append(F[i-1], s[i]) ELSE F[i-1]
                IN F[Len(s)]
RECURSIVE Arr(_, _)
Arr(S, k) == IF k = 0 THEN {<<>>} ELSE UNION {{<<x>> \o t : t \in Arr(S \ {x}, k - 1)} : x \in S}
ArrUpTo(S, n) == UNION {Arr(S, k) : k \in 0..n}
SeqsUpTo(S, n) == UNION {[1..k -> S] : k \in 0..n}

(* ------------------------------------------------------------------ one bootstrap round *)
\* One peersConnect phase starting at time t0 with `need` connections missing.  Every peer of the list
\* is looked at once; the ones not connected are dialled in parallel, all of them ("we eagerly
\* over-connect"); dials that hang are cancelled one second later if enough others succeeded,
\* otherwise at the round's deadline ct.
PhaseR(S, Cn, need, t0, ct, out) ==
  LET d    == S \ Cn
      live == t0 < ct
      ok   == IF live THEN {p \in d : out[p] = "ok"} ELSE {}
      fail == IF live THEN {p \in d : out[p] = "fail"} ELSE {}
      hang == IF live THEN {p \in d : out[p] = "hang"} ELSE {}
      t1   == IF hang = {} THEN t0
              ELSE IF Cardinality(ok) >= need THEN MinI(t0 + 1, ct) ELSE ct
  IN [checks |-> S, dials |-> d, live |-> live, ok |-> ok, fail |-> fail, cancel |-> d \ (ok \cup fail),
      t |-> t1, succ |-> Cardinality(ok)]
NoPhase(t) == [checks |-> {}, dials |-> {}, live |-> FALSE, ok |-> {}, fail |-> {}, cancel |-> {}, t |-> t, succ |-> 0]

RoundExp(thr, B, Cn, St, backup, ct, out) ==
  LET n == Cardinality(Cn) IN
  IF n >= thr
  THEN [skip |-> TRUE, get |-> FALSE, p1 |-> NoPhase(0), load |-> "none", p2 |-> NoPhase(0), err |-> FALSE,
        elapsed |-> 0, conn |-> Cn]
  ELSE LET need == thr - n
           p1 == IF B = {} THEN NoPhase(0) ELSE PhaseR(B, Cn, need, 0, ct, out)
           C1 == Cn \cup p1.ok
           need2 == need - p1.succ
       IN IF need2 <= 0
          THEN [skip |-> FALSE, get |-> TRUE, p1 |-> p1, load |-> "none", p2 |-> NoPhase(p1.t), err |-> FALSE,
                elapsed |-> p1.t, conn |-> C1]
          ELSE IF ~backup
          THEN [skip |-> FALSE, get |-> TRUE, p1 |-> p1, load |-> "none", p2 |-> NoPhase(p1.t), err |-> TRUE,
                elapsed |-> p1.t, conn |-> C1]
          ELSE LET ld == IF p1.t < ct THEN "live" ELSE "dead"
                   p2 == IF St = <<>> THEN NoPhase(p1.t) ELSE PhaseR(Range(St), C1, need2, p1.t, ct, out)
               IN [skip |-> FALSE, get |-> TRUE, p1 |-> p1, load |-> ld, p2 |-> p2, err |-> p2.succ < need2,
                   elapsed |-> p2.t, conn |-> C1 \cup p2.ok]

\* dial outcomes only matter for peers that can be dialled: the others get "fail"
Outs(rel) == {o \in [P -> {"ok", "fail", "hang"}] : \A p \in P \ rel : o[p] = "fail"}

RoundStep ==
  /\ pc = 0
  /\ \E St \in (IF c1.backup /\ Cardinality(c1.C) < c1.thr THEN ArrUpTo(P, StLen) ELSE {<<>>}) :
       \E out \in (IF Cardinality(c1.C) < c1.thr THEN Outs((c1.B \cup Range(St)) \ c1.C) ELSE Outs({})) :
          PrintT(<<"BEHAVIOUR", ToJson([kind |-> "round", thr |-> c1.thr, b |-> c1.B, conn |-> c1.C, store |-> St,
                                        backup |-> c1.backup, ct |-> c1.ct, out |-> out,
                                        exp |-> RoundExp(c1.thr, c1.B, c1.C, St, c1.backup, c1.ct, out)])>>)
          /\ pc' = 1 /\ UNCHANGED c1

(* ------------------------------------------------------------------ saving backup peers *)
\* Nothing is saved while nothing is connected.  Otherwise: up to max connected peers that are not
\* configured bootstrap peers and have a direct address (any choice, the code randomises), and if that
\* does not fill the list, the previously saved peers in their order, skipping configured, connected
\* and repeated ones; never more than max entries.
SaveExp(Cn, B, Dr, O, max) ==
  LET elig == (Cn \cap Dr) \ B
      k    == MinI(max, Cardinality(elig))
      kdev == IF max = 0 /\ elig # {} THEN 1 ELSE k      \* as built: the limit is tested after the append
      tail == IF k >= max THEN <<>> ELSE FirstN(max - k, Filter(Dedupe(O), P \ (B \cup Cn)))
  IN [save |-> Cn # {}, elig |-> elig, k |-> k, kdev |-> kdev, load |-> (Cn # {} /\ k < max), tail |-> tail]

SaveStep ==
  /\ pc = 0
  /\ \E O \in SeqsUpTo(P, OLen) :
       PrintT(<<"BEHAVIOUR", ToJson([kind |-> "save", conn |-> c1.C, b |-> c1.B, direct |-> c1.D, old |-> O,
                                     max |-> c1.max, exp |-> SaveExp(c1.C, c1.B, c1.D, O, c1.max)])>>)
       /\ pc' = 1 /\ UNCHANGED c1

(* ------------------------------------------------------------------ configuration values *)
\* A configuration is usable iff a peer source is given, the round ticker can be created, and (with
\* backup functions) the save ticker and the save buffer can be created.  Bootstrap must return an error
\* for the others instead of starting goroutines that bring the process down.
IV == {-1, 0, 1}
ValidExp(c) == /\ ~c.nopeers /\ c.period > 0
               /\ c.backup => (c.bi > 0 /\ c.max >= 0)
ValidStep ==
  /\ pc = 0 /\ pc' = 1 /\ UNCHANGED c1
  /\ PrintT(<<"BEHAVIOUR", ToJson([kind |-> "valid", thr |-> c1.thr, period |-> c1.period, ct |-> c1.ct,
                                   bi |-> c1.bi, max |-> c1.max, backup |-> c1.backup, nopeers |-> c1.nopeers,
                                   exp |-> ValidExp(c1)])>>)

Init == /\ pc = 0
        /\ \/ "round" \in Kinds /\ c1 \in [kind : {"round"}, thr : ThrVals, C : SUBSET P, B : SUBSET P, backup : BOOLEAN, ct : CtVals]
           \/ "save" \in Kinds /\ c1 \in [kind : {"save"}, C : SUBSET P, B : SUBSET P, D : SUBSET P, max : MaxVals]
           \/ "valid" \in Kinds /\ c1 \in [kind : {"valid"}, thr : IV, period : IV, ct : IV, bi : IV, max : IV,
                                            backup : BOOLEAN, nopeers : BOOLEAN]
Next == \/ c1.kind = "round" /\ RoundStep
        \/ c1.kind = "save" /\ SaveStep
        \/ c1.kind = "valid" /\ ValidStep
Spec == Init /\ [][Next]_gvars
=============================================================================
