SPECIFICATION Spec
CONSTANTS P = {"a", "b", "c"}
          Kinds = {"round", "save", "valid"}
          ThrVals = {0, 1, 2, 3}
          CtVals = {0, 1, 3}
          StLen = 2
          OLen = 3
          MaxVals = {0, 1, 2, 3}
CHECK_DEADLOCK FALSE
