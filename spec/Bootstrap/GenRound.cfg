SPECIFICATION Spec
CONSTANTS P = {"a", "b", "c"}
          Kind = "round"
          ThrVals = {0, 1, 2}
          CtVals = {0, 3}
          StLen = 2
          OLen = 0
          MaxVals = {0}
CHECK_DEADLOCK FALSE
