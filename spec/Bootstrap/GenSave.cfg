SPECIFICATION Spec
CONSTANTS P = {"a", "b", "c"}
          Kind = "save"
          ThrVals = {0}
          CtVals = {0}
          StLen = 0
          OLen = 2
          MaxVals = {0, 1, 2}
CHECK_DEADLOCK FALSE
