SPECIFICATION Spec
CONSTANTS P = {"a", "b", "c"}
          Kind = "save"
          ThrVals = {0}
          CtVals = {0}
          StLen = 0
          OLen = 3
          MaxVals = {0, 1, 2, 3}
CHECK_DEADLOCK FALSE
