SPECIFICATION Spec
CONSTANTS P = {"a"}
          Kind = "valid"
          ThrVals = {0}
          CtVals = {0}
          StLen = 0
          OLen = 0
          MaxVals = {0}
CHECK_DEADLOCK FALSE
