---------------------------- MODULE MCBootstrap ----------------------------
(* Phase M: every interleaving of the component's steps with the environment (dial outcomes,
   connectedness changes, configuration changes, clock, Close incl. Close racing with internal steps)
   for small constants.                                                                         *)
EXTENDS Bootstrap
CONSTANTS ThrVals, MaxVals, BackupVals, RtVals, BSets, Stores, Conn0s, Directs, Insts,
          PeriodV, CtV, BiV, MaxT, EnvBudget
VARIABLE bud
mvars == <<vars, bud>>

StoresA == {<<>>, <<"c">>, <<"c", "a">>}
StoresB == {<<>>, <<"c", "a">>}

Init == /\ now = 0 /\ conn \in Conn0s /\ bpeers \in BSets /\ store \in Stores
        /\ cfg \in [thr : ThrVals, period : {PeriodV}, ct : {CtV}, bi : {BiV}, max : MaxVals,
                    backup : BackupVals, rt : RtVals]
        /\ direct \in Directs /\ inst \in Insts
        /\ bc = "none" /\ lpc = "none" /\ cancelled = FALSE /\ done = "open" /\ closeSt = "none"
        /\ tick = TickOff /\ rd = RdOff /\ sv = SvOff /\ stick = TickOff
        /\ g = [lastRound |-> 0, saved |-> FALSE, sb |-> {}]
        /\ bud = EnvBudget

K == UNCHANGED bud
AStart == HStart /\ K
ABGet == BGet /\ K
ABRt == BRt /\ K
ABRet == (\E e \in BOOLEAN : BRet(e)) /\ K
AHandoff == Handoff /\ K
ALPass == LPass /\ K
ALStuck == LStuck /\ K
ARoundPeers == (\E n \in 0..Cardinality(Peers) : RoundPeers(n)) /\ K
ARoundGet == RoundGet /\ K
ARoundLoad == (\E l \in BOOLEAN : RoundLoad(l)) /\ K
ASpawn == (\E p \in Peers : Spawn(p)) /\ K
ASpawnStop == SpawnStop /\ K
ACheck == (\E p \in Peers, c \in BOOLEAN : Check(p, c)) /\ K
AConnect == (\E p \in Peers, l \in BOOLEAN : Connect(p, l)) /\ K
AConnCancel == (\E p \in Peers : ConnRet(p, "cancel")) /\ K
AConnInst == (\E p \in inst : ConnRet(p, "ok")) /\ K
ACount == (\E p \in Peers : Count(p)) /\ K
AMon == Mon /\ K
AMonExit == MonExit /\ K
APhaseEnd == PhaseEnd /\ K
ATickFire == TickFire /\ K
ALExit == LExit /\ K
ASavePeers == (\E n \in 0..Cardinality(Peers) : SavePeers(n)) /\ K
ASaveGet == SaveGet /\ K
ASaveLoad == (\E l \in BOOLEAN : SaveLoad(l)) /\ K
ASaveSave == /\ sv.pc = "save"
             /\ \E f \in Arr(Elig, sv.k), l \in BOOLEAN : SaveSave(f \o OldTail(sv.k), l)
             /\ K
ASvTick == SvTick /\ K
ASvExit == SvExit /\ K
ACancel == Cancel /\ K
ACloseRet == CloseRet /\ K
\* environment
ACloseCall == CloseCall /\ K                      \* at any moment (also racing with internal steps)
ADialOk == Quiescent /\ (\E p \in Peers \ inst : ConnRet(p, "ok")) /\ K
ADialFail == Quiescent /\ (\E p \in Peers \ inst : ConnRet(p, "fail")) /\ K
AEnvSet == Quiescent /\ bud > 0 /\ bud' = bud - 1 /\ \E p \in Peers, up \in BOOLEAN : EnvSet(p, up)
ASetPeers == Quiescent /\ bud > 0 /\ bud' = bud - 1 /\ \E B \in BSets : B # bpeers /\ SetPeers(B)
AAdv == Quiescent /\ now < MaxT /\ Adv /\ K

Next == \/ AStart \/ ABGet \/ ABRt \/ ABRet \/ AHandoff \/ ALPass \/ ALStuck
        \/ ARoundPeers \/ ARoundGet \/ ARoundLoad \/ ASpawn \/ ASpawnStop \/ ACheck \/ AConnect
        \/ AConnCancel \/ AConnInst \/ ACount \/ AMon \/ AMonExit \/ APhaseEnd \/ ATickFire \/ ALExit
        \/ ASavePeers \/ ASaveGet \/ ASaveLoad \/ ASaveSave \/ ASvTick \/ ASvExit
        \/ ACancel \/ ACloseRet \/ ACloseCall \/ ADialOk \/ ADialFail \/ AEnvSet \/ ASetPeers \/ AAdv
Spec == Init /\ [][Next]_mvars

TypeOK == /\ conn \subseteq Peers /\ bpeers \subseteq Peers /\ Range(store) \subseteq Peers
          /\ rd.unsp \cup Dialling \subseteq Peers /\ rd.succ \in 0..Cardinality(Peers)
          /\ bc \in {"none", "chk", "rt", "hand", "retp", "retperr", "ret", "reterr"}
          /\ lpc \in {"none", "start", "r1", "wait", "idle", "rn", "exit", "stuck"}
          /\ rd.pc \in {"off", "get", "dial", "load"}
          /\ sv.pc \in {"none", "start", "get", "load", "save", "idle", "exit"}
\* a peer is in at most one stage of a phase
Stages == rd.unsp \cap Dialling = {} /\ Cardinality(Dialling) = Cardinality(rd.todo) + Cardinality(rd.call) + Cardinality(rd.pend) + Cardinality(rd.okd)
=============================================================================
