SPECIFICATION Spec
CONSTANTS Peers = {"a", "b", "c"}
          Devs = {"Dev_X02_NoPeriodicWithoutBackup", "AsBuiltOnly"}
          ThrVals = {2}
          MaxVals = {0, 1}
          BackupVals = {FALSE}
          RtVals = {"none", "fail"}
          BSets = {{"a", "b"}}
          Stores <- StoresB
          Conn0s = {{}}
          Directs = {{"a", "b", "c"}}
          Insts = {{"a"}}
          PeriodV = 3
          CtV = 2
          BiV = 4
          MaxT = 4
          EnvBudget = 1
INVARIANTS PeriodicRounds
CHECK_DEADLOCK FALSE
