SPECIFICATION Spec
CONSTANTS Peers = {"a", "b", "c"}
          Devs = {"Dev_X02_MaxZeroSavesOne", "AsBuiltOnly"}
          ThrVals = {2}
          MaxVals = {0, 1}
          BackupVals = {TRUE}
          RtVals = {"none", "fail"}
          BSets = {{"a", "b"}}
          Stores <- StoresB
          Conn0s = {{}}
          Directs = {{"a", "b", "c"}}
          Insts = {{"a"}}
          PeriodV = 3
          CtV = 2
          BiV = 4
          MaxT = 4
          EnvBudget = 1
INVARIANTS SaveWithinLimit
CHECK_DEADLOCK FALSE
