SPECIFICATION Spec
CONSTANTS Peers = {"a", "b", "c"}
          Devs = {}
          ThrVals = {2}
          MaxVals = {0, 1}
          BackupVals = {TRUE, FALSE}
          RtVals = {"none", "fail"}
          BSets = {{"a", "b"}}
          Stores <- StoresB
          Conn0s = {{}}
          Directs = {{"a", "b", "c"}}
          Insts = {{"a"}}
          PeriodV = 3
          CtV = 2
          BiV = 4
          MaxT = 4
          EnvBudget = 1
INVARIANTS TypeOK Stages DialOnlyBelowThreshold DialTargets BackupOnlyWhenShort PeriodicRounds
           SaveWithinLimit SaveExcludesConfigured SaveNoDup CancelledQuiet FirstRoundBeforeReturn
CHECK_DEADLOCK FALSE
