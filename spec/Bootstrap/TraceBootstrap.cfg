SPECIFICATION TSpec
CONSTANTS Peers = {"a", "b", "c", "d"}
          Devs = @DEVS@
INVARIANTS DialOnlyBelowThreshold DialTargets BackupOnlyWhenShort TPeriodicRounds TSaveWithinLimit
           SaveExcludesConfigured SaveNoDup TCancelledQuiet FirstRoundBeforeReturn DevReport
CONSTRAINT TraceConstraint
POSTCONDITION TracePost
CHECK_DEADLOCK FALSE
