--------------------------- MODULE TraceBootstrap ---------------------------
(* Phase T for X02: a history recorded from the real Bootstrap() process on the fake host inside a
   synctest bubble must be a behaviour of Bootstrap.  Logged: every call the component makes on the
   fakes (Peers, GetPeers, RtBoot, Check, Connect, ConnRet, AddAddrs, Load, Save), the harness'
   commands (Start, Env, SetPeers, Adv = +1 s, CloseCall/CloseRet, dial outcomes = ConnRet ok/fail) and,
   after every command, the quiescence point with the census of live component goroutines (Quiet).
   Silent: the doneWithRound hand-off, goroutine spawning/exit, success counting of backup dials, the
   monitor timer, wg.Wait returning, ticker firings, the cancel inside Close.                         *)
EXTENDS Bootstrap, Json

Trace == ndJsonDeserialize("trace.ndjson")
VARIABLES l, dev
tvars == <<vars, l, dev>>
ASSUME TLCSet(1, 0)

Ev == Trace[l]
IsEvent(e) == l <= Len(Trace) /\ Trace[l].ev = e /\ l' = l + 1
ToSetOf(s) == {s[i] : i \in 1..Len(s)}
D == UNCHANGED dev

G0 == [lastRound |-> 0, saved |-> FALSE, sb |-> {}]
TInit == /\ l = 1 /\ dev = {}
         /\ now = 0 /\ conn = {} /\ bpeers = {} /\ store = <<>>
         /\ cfg = [thr |-> 0, period |-> 1, ct |-> 1, bi |-> 1, max |-> 0, backup |-> FALSE, rt |-> "none"]
         /\ direct = {} /\ inst = {}
         /\ bc = "none" /\ lpc = "none" /\ cancelled = FALSE /\ done = "open" /\ closeSt = "none"
         /\ tick = TickOff /\ rd = RdOff /\ sv = SvOff /\ stick = TickOff /\ g = G0

TReset == /\ IsEvent("Reset")
          /\ LET c == Ev.cfg IN
             /\ cfg' = [thr |-> c.thr, period |-> c.period, ct |-> c.ct, bi |-> c.bi, max |-> c.max,
                        backup |-> c.backup, rt |-> c.rt]
             /\ bpeers' = ToSetOf(c.b) /\ store' = c.store /\ conn' = ToSetOf(c.conn)
             /\ direct' = ToSetOf(c.direct) /\ inst' = ToSetOf(c.inst)
          /\ now' = 0 /\ bc' = "none" /\ lpc' = "none" /\ cancelled' = FALSE /\ done' = "open"
          /\ closeSt' = "none" /\ tick' = TickOff /\ rd' = RdOff /\ sv' = SvOff /\ stick' = TickOff /\ g' = G0
          /\ D

TStart == IsEvent("Start") /\ Quiescent /\ HStart /\ D
TGetPeers == /\ IsEvent("GetPeers")
             /\ CASE Ev.by = "boot"  -> BGet /\ D
                  [] Ev.by = "round" -> RoundGet /\ D
                  [] Ev.by = "save"  -> /\ SaveGet
                                        /\ dev' = IF sv'.k = IdealK THEN dev
                                                  ELSE dev \cup {"Dev_X02_MaxZeroSavesOne"}
                  [] OTHER -> FALSE
TRtBoot == IsEvent("RtBoot") /\ Ev.fail = (cfg.rt = "fail") /\ BRt /\ D
TStartRet == IsEvent("StartRet") /\ BRet(Ev.err) /\ D
TPeers == /\ IsEvent("Peers")
          /\ CASE Ev.by = "round" -> RoundPeers(Ev.n)
               [] Ev.by = "save"  -> SavePeers(Ev.n)
               [] OTHER -> FALSE
          /\ D
TCheck == IsEvent("Check") /\ Ev.p \in Peers /\ Check(Ev.p, Ev.conn) /\ D
TConnect == IsEvent("Connect") /\ Ev.p \in Peers /\ Connect(Ev.p, Ev.live) /\ D
TConnRet == /\ IsEvent("ConnRet") /\ Ev.p \in Peers
            /\ (Ev.res = "cancel" \/ Ev.p \in inst \/ Quiescent)     \* the environment answers at quiescence
            /\ (Ev.p \in inst /\ ~Dead => Ev.res = "ok")
            /\ ConnRet(Ev.p, Ev.res) /\ D
TAddAddrs == IsEvent("AddAddrs") /\ Ev.p \in Peers /\ Ev.perm /\ rd.perm /\ Count(Ev.p) /\ D
TLoad == /\ IsEvent("Load")
         /\ CASE Ev.by = "round" -> RoundLoad(Ev.live)
              [] Ev.by = "save"  -> SaveLoad(Ev.live)
              [] OTHER -> FALSE
         /\ D
TSave == IsEvent("Save") /\ Ev.by = "save" /\ SaveSave(Ev.peers, Ev.live) /\ D
TEnv == IsEvent("Env") /\ Quiescent /\ Ev.p \in Peers /\ EnvSet(Ev.p, Ev.up) /\ D
TSetPeers == IsEvent("SetPeers") /\ Quiescent /\ SetPeers(ToSetOf(Ev.b)) /\ D
TAdv == IsEvent("Adv") /\ Quiescent /\ Adv /\ D
TCloseCall == IsEvent("CloseCall") /\ (Ev.race \/ Quiescent) /\ CloseCall /\ D
TCloseRet == IsEvent("CloseRet") /\ CloseRet /\ D
TQuiet == /\ IsEvent("Quiet") /\ Quiescent
          /\ Ev.loop = Census.loop /\ Ev.save = Census.save /\ Ev.mon = Census.mon
          /\ Ev.dial = Census.dial /\ Ev.boot = Census.boot /\ Ev.pend = Cardinality(rd.pend)
          /\ UNCHANGED vars /\ D

Silent == /\ UNCHANGED l
          /\ \/ (Handoff \/ LPass \/ SpawnStop \/ Mon \/ MonExit \/ PhaseEnd \/ TickFire \/ LExit
                 \/ SvTick \/ SvExit \/ Cancel) /\ D
             \/ (\E p \in Peers : Spawn(p)) /\ D
             \/ (~rd.perm /\ \E p \in Peers : Count(p)) /\ D
             \/ LStuck /\ dev' = dev \cup {"Dev_X02_NoPeriodicWithoutBackup"}

TNext == TReset \/ TStart \/ TGetPeers \/ TRtBoot \/ TStartRet \/ TPeers \/ TCheck \/ TConnect \/ TConnRet
         \/ TAddAddrs \/ TLoad \/ TSave \/ TEnv \/ TSetPeers \/ TAdv \/ TCloseCall \/ TCloseRet \/ TQuiet
         \/ Silent
TSpec == TInit /\ [][TNext]_tvars

\* the module's invariants, with the exemption each open deviation needs
Stuck == lpc = "stuck"
TPeriodicRounds == Stuck \/ PeriodicRounds
TCancelledQuiet == Stuck \/ CancelledQuiet
TSaveWithinLimit == "Dev_X02_MaxZeroSavesOne" \in dev \/ SaveWithinLimit
DevReport == l <= Len(Trace) \/ \A d \in dev : PrintT(<<"DEV_USED", d>>)

TraceConstraint == TLCSet(1, IF l - 1 > TLCGet(1) THEN l - 1 ELSE TLCGet(1))
TracePost == PrintT(<<"TRACE_HWM", TLCGet(1)>>)
=============================================================================
