------------------------------ MODULE CacheLayers ------------------------------
(* C02 -- the caching blockstore layers of boxo/blockstore are observationally transparent.

   Implementation model, at the grain of the code's atomic steps, of
       bloomcache (bloom_cache.go)  over  tqcache (twoqueue_cache.go)  over  a base blockstore
   together with an on-line linearizability monitor (per-key register, all linearization
   orders tracked as a set of configurations).  The property is stated by the invariants
   Linearizable / NoLostPut; the remaining invariants are the mechanisms the code relies on.

   Layers are switched by UseTQ / UseBloom.  `Impl` selects the two as-built race windows:
     "Toctou" : hasCached reads `active`, THEN loads the filter pointer, then tests
                (bloom_cache.go:234-235).  Without it: the repaired order
                load pointer; read active; test; re-load pointer and compare.
     "AddLag" : Put/PutMany add the key to the filter AFTER the store write returned
                (bloom_cache.go:285-287, 297-303).  Without it (an idealisation, no code
                counterpart): the store write and the filter add are one atomic step.
   Impl = {} is the ideal design and must satisfy Linearizable and NoLostPut strictly.      *)
EXTENDS Integers, Sequences, FiniteSets, TLC, LinMonitor   \* LinMonitor declares CONSTANT Procs (client processes)

CONSTANTS NK,          \* keys are 1..NK
          KindsOf,     \* [Procs -> SUBSET OpKinds] : what each client may invoke
          UseTQ, UseBloom,
          Impl,        \* SUBSET {"Toctou","AddLag"}
          AllowFP,     \* Bloom false positives (nondeterministic) allowed
          MaxRebuilds, \* number of Rebuild calls (= fresh filters) in a behaviour
          MaxOps,      \* operations per client
          InitBuild,   \* "run": initial build goroutine still to run; "ok"/"failed": finished
          InitStores,  \* set of possible initial contents of the backing store
          Evictions,   \* TRUE: the 2Q cache may silently drop any entry at any time
          Coarse       \* TRUE (model checking): "lock; backing call; return to the layer" is one step,
                       \* which has the same behaviours (nobody can act on the key in between);
                       \* FALSE (schedule generation / traces): the three steps are separate (gates)

Keys    == 1..NK
B       == "B"                       \* the goroutine started by bloomCached() running build()
Actors  == Procs \cup {B}
None    == "none"
OpKinds == {"Put", "Del", "Has", "Get", "Size", "PutMany", "Rebuild"}
Toctou  == "Toctou" \in Impl
AddLag  == "AddLag" \in Impl
Filters == 0..MaxRebuilds

VARIABLES
  store,      \* ground truth: keys held by the backing blockstore
  cache,      \* tqcache entries: "none" | "no" (cacheHave(false)) | "have" (cacheHave(true)) | "size"
  rd, wr,     \* per-key RW lock of tqcache: reader set / writer
  active,     \* bloomcache.active
  live,       \* bloomcache.bloom (id of the filter the pointer designates)
  bits,       \* [Filters -> SUBSET Keys] keys added to each filter
  nfilt,      \* filters allocated so far
  complete,   \* [Filters -> BOOLEAN] aux: a full enumeration has been added (set on activation)
  mu,         \* buildMu holder
  rem, tgt,   \* running enumeration: snapshot keys still to deliver, target filter
  pc, op, res,\* per actor: control point, current call, result
  flt,        \* per actor: filter pointer loaded by b.bloom.Load()
  sus,        \* per actor: aux classification of the last negative filter test
  todo, good, \* per actor: PutMany bookkeeping
  opsDone,
  mon,        \* linearizability monitor: [Keys -> set of configurations]
  nlp,        \* FALSE once a read answered "missing" for a settled key (NoLostPut)
  settled,    \* [Keys -> BOOLEAN] a Put returned and no Delete has been invoked since
  mustSee,    \* [Procs -> BOOLEAN] the pending read started on a settled key
  clean,      \* [Procs -> SUBSET Keys] keys of the pending Put with no overlapping Delete so far
  racy        \* aux: which race windows produced a conclusive negative so far ("A","B")

dataVars == <<store, cache, rd, wr, active, live, bits, nfilt, complete, mu, rem, tgt>>
procVars == <<pc, op, res, flt, sus, todo, good, opsDone>>
monVars  == <<mon, nlp, settled, mustSee, clean, racy>>
vars     == <<dataVars, procVars, monVars>>

-------------------------------------------------------------------------------
(* The linearizability monitor (LinOne, Close, MonInvoke, MonReturn, MonInit) is in LinMonitor. *)
MonTag(kind) == IF kind \in {"Put", "PutMany"} THEN "pP" ELSE IF kind = "Del" THEN "pD" ELSE "pR"
IsRead(kind) == kind \in {"Has", "Get", "Size"}

-------------------------------------------------------------------------------
Init ==
  /\ store \in InitStores
  /\ cache = [k \in Keys |-> None]
  /\ rd = [k \in Keys |-> {}] /\ wr = [k \in Keys |-> None]
  /\ live = 0 /\ nfilt = 1
  /\ bits = [f \in Filters |-> IF f = 0 /\ InitBuild = "ok" THEN store ELSE {}]
  /\ active = (UseBloom /\ InitBuild = "ok")
  /\ complete = [f \in Filters |-> f = 0 /\ InitBuild = "ok"]
  /\ mu = None /\ rem = {} /\ tgt = 0
  /\ pc = [a \in Actors |-> IF a = B THEN (IF UseBloom /\ InitBuild = "run" THEN "rMu" ELSE "done")
                                     ELSE "idle"]
  /\ op = [a \in Actors |-> [kind |-> IF a = B THEN "Build" ELSE "-", k |-> 0, ks |-> {}]]
  /\ res = [a \in Actors |-> IF a = B /\ InitBuild # "run" THEN InitBuild ELSE "-"]
  /\ flt = [a \in Actors |-> 0]
  /\ sus = [a \in Actors |-> "ok"]
  /\ todo = [a \in Actors |-> {}] /\ good = [a \in Actors |-> {}]
  /\ opsDone = [p \in Procs |-> 0]
  /\ mon = [k \in Keys |-> MonInit(k \in store)]
  /\ nlp = TRUE
  /\ settled = [k \in Keys |-> k \in store]
  /\ mustSee = [p \in Procs |-> FALSE]
  /\ clean = [p \in Procs |-> {}]
  /\ racy = {}

-------------------------------------------------------------------------------
Kd(a) == op[a].kind
Ky(a) == op[a].k

LowerStart(kind) == IF kind = "PutMany" THEN (IF UseTQ THEN "mQuery" ELSE "mOp")
                    ELSE IF UseTQ THEN "qQuery" ELSE "sOp"
BloomPre(kind)   == UseBloom /\ kind \in {"Has", "Get", "Size", "Del"}
FirstPc(kind)    == IF kind = "Rebuild" THEN "rMu"
                    ELSE IF BloomPre(kind) THEN (IF Toctou THEN "bAct" ELSE "bLoad")
                    ELSE LowerStart(kind)
UpPc(kind)       == IF UseBloom /\ kind = "Put" THEN "bAddLoad"
                    ELSE IF UseBloom /\ kind = "PutMany" THEN "mAddLoad" ELSE "ret"

DelPending(k) == \E q \in Procs : pc[q] # "idle" /\ Kd(q) = "Del" /\ Ky(q) = k

(* ---- a client invokes a public method -------------------------------------------------- *)
Invoke(p, kind, k, ks) ==
  /\ pc[p] = "idle" /\ opsDone[p] < MaxOps /\ kind \in KindsOf[p]
  /\ kind = "Rebuild" => /\ UseBloom
                         /\ nfilt + Cardinality({q \in Procs : pc[q] \in {"rMu", "rDeact", "rSwap"}}) <= MaxRebuilds
  /\ op' = [op EXCEPT ![p] = [kind |-> kind, k |-> k, ks |-> ks]]
  /\ pc' = [pc EXCEPT ![p] = FirstPc(kind)]
  /\ res' = [res EXCEPT ![p] = "-"]
  /\ todo' = [todo EXCEPT ![p] = ks]
  /\ good' = [good EXCEPT ![p] = IF UseTQ THEN {} ELSE ks]
  /\ mon' = [j \in Keys |-> IF j \in ks THEN MonInvoke(mon[j], p, MonTag(kind)) ELSE mon[j]]
  /\ settled' = [j \in Keys |-> IF kind = "Del" /\ j = k THEN FALSE ELSE settled[j]]
  /\ mustSee' = [q \in Procs |->
                   IF q = p THEN IsRead(kind) /\ settled[k]
                   ELSE IF kind = "Del" /\ pc[q] # "idle" /\ IsRead(Kd(q)) /\ Ky(q) = k THEN FALSE
                   ELSE mustSee[q]]
  /\ clean' = [q \in Procs |->
                 IF q = p THEN (IF kind \in {"Put", "PutMany"} THEN {j \in ks : ~DelPending(j)} ELSE {})
                 ELSE IF kind = "Del" THEN clean[q] \ {k} ELSE clean[q]]
  /\ UNCHANGED <<dataVars, flt, sus, opsDone, nlp, racy>>

InvokeAny(p) ==
  \/ \E kind \in {"Put", "Del", "Has", "Get", "Size"}, k \in Keys : Invoke(p, kind, k, {k})
  \/ NK >= 2 /\ Invoke(p, "PutMany", 0, Keys)
  \/ Invoke(p, "Rebuild", 0, {})

(* ---- a call returns --------------------------------------------------------------------- *)
RetTag(a) == IF IsRead(Kd(a)) THEN res[a] ELSE "w"
IdleOp == [kind |-> "-", k |-> 0, ks |-> {}]
Return(p) ==            \* also forgets the finished call, so idle clients look alike
  /\ pc[p] = "ret"
  /\ pc' = [pc EXCEPT ![p] = "idle"]
  /\ opsDone' = [opsDone EXCEPT ![p] = @ + 1]
  /\ mon' = [j \in Keys |-> IF j \in op[p].ks THEN MonReturn(mon[j], p, RetTag(p)) ELSE mon[j]]
  /\ nlp' = (nlp /\ ~(IsRead(Kd(p)) /\ res[p] = "F" /\ mustSee[p]))
  /\ settled' = [j \in Keys |-> IF j \in clean[p] THEN TRUE ELSE settled[j]]
  /\ mustSee' = [mustSee EXCEPT ![p] = FALSE]
  /\ clean' = [clean EXCEPT ![p] = {}]
  /\ op' = [op EXCEPT ![p] = IdleOp] /\ res' = [res EXCEPT ![p] = "-"]
  /\ flt' = [flt EXCEPT ![p] = 0] /\ sus' = [sus EXCEPT ![p] = "ok"]
  /\ todo' = [todo EXCEPT ![p] = {}] /\ good' = [good EXCEPT ![p] = {}]
  /\ UNCHANGED <<dataVars, racy>>

-------------------------------------------------------------------------------
(* bloomcache.hasCached -- used by Has/Get/GetSize/View/DeleteBlock                          *)
Conclude(a, cls) ==     \* "not in the filter": conclusive negative, the call returns
  /\ res' = [res EXCEPT ![a] = IF IsRead(Kd(a)) THEN "F" ELSE "ok"]
  /\ pc'  = [pc EXCEPT ![a] = "ret"]
  /\ racy' = IF cls \in {"A", "B"} THEN racy \cup {cls} ELSE racy

BAct(a) ==              \* b.BloomActive()
  /\ pc[a] = "bAct"
  /\ pc' = [pc EXCEPT ![a] = IF active THEN (IF Toctou THEN "bLoad" ELSE "bTest")
                                      ELSE LowerStart(Kd(a))]
  /\ UNCHANGED <<dataVars, op, res, flt, sus, todo, good, opsDone, monVars>>

BLoad(a) ==             \* b.bloom.Load()
  /\ pc[a] = "bLoad"
  /\ flt' = [flt EXCEPT ![a] = live]
  /\ pc' = [pc EXCEPT ![a] = IF Toctou THEN "bTest" ELSE "bAct"]
  /\ UNCHANGED <<dataVars, op, res, sus, todo, good, opsDone, monVars>>

\* classification of a negative answer at the instant of the test (aux, for the reports):
\*  "A": the filter tested is not a completely populated one; "B": it is complete but the key
\*  is in the store (a Put wrote it and has not added it yet); "ok": the key is really absent.
Sus(a) == IF ~complete[flt[a]] THEN "A" ELSE IF Ky(a) \in store THEN "B" ELSE "ok"

BTest(a) ==             \* HasTS(k.Hash())
  /\ pc[a] = "bTest"
  /\ \/ /\ Ky(a) \in bits[flt[a]] \/ AllowFP        \* contained (or false positive): pass through
        /\ pc' = [pc EXCEPT ![a] = LowerStart(Kd(a))]
        /\ UNCHANGED <<res, racy, sus>>
     \/ /\ Ky(a) \notin bits[flt[a]]
        /\ sus' = [sus EXCEPT ![a] = Sus(a)]
        /\ IF Toctou THEN Conclude(a, Sus(a))
           ELSE pc' = [pc EXCEPT ![a] = "bChk"] /\ UNCHANGED <<res, racy>>
  /\ UNCHANGED <<dataVars, op, flt, todo, good, opsDone, mon, nlp, settled, mustSee, clean>>

BChk(a) ==              \* repaired code only: the pointer must still designate the tested filter
  /\ pc[a] = "bChk"
  /\ IF live = flt[a]
       THEN Conclude(a, sus[a])
       ELSE /\ pc' = [pc EXCEPT ![a] = LowerStart(Kd(a))] /\ UNCHANGED <<res, racy>>
  /\ UNCHANGED <<dataVars, op, flt, sus, todo, good, opsDone, mon, nlp, settled, mustSee, clean>>

-------------------------------------------------------------------------------
(* tqcache single-key calls                                                                 *)
IsWrite(kind) == kind \in {"Put", "Del"}

QQuery(a) ==            \* lock-free b.queryCache(key)
  /\ pc[a] = "qQuery"
  /\ LET c == cache[Ky(a)]
         hit == CASE Kd(a) = "Has"  -> c # None
                  [] Kd(a) = "Get"  -> c = "no"
                  [] Kd(a) = "Size" -> c \in {"no", "size"}
                  [] Kd(a) = "Put"  -> c \in {"have", "size"}
                  [] Kd(a) = "Del"  -> c = "no"
         r   == IF IsRead(Kd(a)) THEN (IF c = "no" THEN "F" ELSE "T") ELSE "ok"
     IN IF hit THEN /\ res' = [res EXCEPT ![a] = r] /\ pc' = [pc EXCEPT ![a] = UpPc(Kd(a))]
               ELSE /\ pc' = [pc EXCEPT ![a] = IF Coarse THEN "sOp" ELSE "qLock"] /\ UNCHANGED res
  /\ UNCHANGED <<dataVars, op, flt, sus, todo, good, opsDone, monVars>>

QLock(a) ==             \* b.lock(key, write)
  /\ pc[a] = "qLock"
  /\ wr[Ky(a)] = None
  /\ IF IsWrite(Kd(a))
       THEN rd[Ky(a)] = {} /\ wr' = [wr EXCEPT ![Ky(a)] = a] /\ UNCHANGED rd
       ELSE rd' = [rd EXCEPT ![Ky(a)] = @ \cup {a}] /\ UNCHANGED wr
  /\ pc' = [pc EXCEPT ![a] = "sOp"]
  /\ UNCHANGED <<store, cache, active, live, bits, nfilt, complete, mu, rem, tgt,
                 op, res, flt, sus, todo, good, opsDone, monVars>>

LockFree(a) == /\ wr[Ky(a)] = None /\ (IsWrite(Kd(a)) => rd[Ky(a)] = {})
AfterExit(kind) == IF UseTQ THEN "qUpd" ELSE UpPc(kind)
SOp(a) ==               \* the call on the backing blockstore (atomic: ground truth changes here)
  /\ pc[a] = "sOp"
  /\ IF Coarse /\ UseTQ
       THEN /\ LockFree(a)
            /\ IF IsWrite(Kd(a)) THEN wr' = [wr EXCEPT ![Ky(a)] = a] /\ UNCHANGED rd
                                 ELSE rd' = [rd EXCEPT ![Ky(a)] = @ \cup {a}] /\ UNCHANGED wr
       ELSE UNCHANGED <<rd, wr>>
  /\ LET k == Ky(a) IN
     CASE Kd(a) = "Put" -> /\ store' = store \cup {k}
                           /\ bits' = IF UseBloom /\ ~AddLag THEN [bits EXCEPT ![live] = @ \cup {k}] ELSE bits
                           /\ res' = [res EXCEPT ![a] = "ok"]
       [] Kd(a) = "Del" -> /\ store' = store \ {k} /\ res' = [res EXCEPT ![a] = "ok"] /\ UNCHANGED bits
       [] OTHER         -> /\ res' = [res EXCEPT ![a] = IF k \in store THEN "T" ELSE "F"]
                           /\ UNCHANGED <<store, bits>>
  /\ pc' = [pc EXCEPT ![a] = IF Coarse THEN AfterExit(Kd(a)) ELSE "sExit"]
  /\ UNCHANGED <<cache, active, live, nfilt, complete, mu, rem, tgt,
                 op, flt, sus, todo, good, opsDone, monVars>>

SExit(a) ==             \* the backing call has returned to the layer above
  /\ pc[a] = "sExit"
  /\ pc' = [pc EXCEPT ![a] = AfterExit(Kd(a))]
  /\ UNCHANGED <<dataVars, op, res, flt, sus, todo, good, opsDone, monVars>>

QUpd(a) ==              \* cache update under the key lock, then unlock (deferred)
  /\ pc[a] = "qUpd"
  /\ LET k == Ky(a)
         v == CASE Kd(a) = "Has" -> IF res[a] = "T" THEN "have" ELSE "no"
                [] Kd(a) \in {"Get", "Size"} -> IF res[a] = "T" THEN "size" ELSE "no"
                [] Kd(a) = "Put" -> "size"
                [] Kd(a) = "Del" -> "no"
     IN /\ cache' = [cache EXCEPT ![k] = v]
        /\ IF IsWrite(Kd(a)) THEN wr' = [wr EXCEPT ![k] = None] /\ UNCHANGED rd
                             ELSE rd' = [rd EXCEPT ![k] = @ \ {a}] /\ UNCHANGED wr
  /\ pc' = [pc EXCEPT ![a] = UpPc(Kd(a))]
  /\ UNCHANGED <<store, active, live, bits, nfilt, complete, mu, rem, tgt,
                 op, res, flt, sus, todo, good, opsDone, monVars>>

Evict(k) ==             \* the 2Q cache drops an entry (any cache size; also cacheInvalidate)
  /\ Evictions /\ UseTQ /\ cache[k] # None
  /\ cache' = [cache EXCEPT ![k] = None]
  /\ UNCHANGED <<store, rd, wr, active, live, bits, nfilt, complete, mu, rem, tgt, procVars, monVars>>

(* bloomcache.Put after the write below returned: b.bloom.Load().AddTS(hash)                 *)
BAddLoad(a) ==
  /\ pc[a] = "bAddLoad"
  /\ flt' = [flt EXCEPT ![a] = live]
  /\ pc' = [pc EXCEPT ![a] = "bAdd"]
  /\ UNCHANGED <<dataVars, op, res, sus, todo, good, opsDone, monVars>>
BAdd(a) ==
  /\ pc[a] = "bAdd"
  /\ bits' = [bits EXCEPT ![flt[a]] = @ \cup {Ky(a)}]
  /\ pc' = [pc EXCEPT ![a] = "ret"]
  /\ UNCHANGED <<store, cache, rd, wr, active, live, nfilt, complete, mu, rem, tgt,
                 op, res, flt, sus, todo, good, opsDone, monVars>>

-------------------------------------------------------------------------------
(* PutMany: tqcache filters the blocks through the cache, locks all remaining keys (sorted, so
   acquiring them all at once when all are free has the same safety behaviours), one backing
   PutMany, cache updates, unlock; bloomcache then adds every block to the live filter.      *)
MQuery(a) ==
  /\ pc[a] = "mQuery"
  /\ \E k \in todo[a] :
       LET g == IF cache[k] \in {"have", "size"} THEN good[a] ELSE good[a] \cup {k}
           t == todo[a] \ {k}
       IN /\ good' = [good EXCEPT ![a] = g]
          /\ todo' = [todo EXCEPT ![a] = IF t = {} /\ g = {} THEN op[a].ks ELSE t]
          /\ pc' = [pc EXCEPT ![a] = IF t # {} THEN "mQuery" ELSE IF g = {} THEN UpPc("PutMany") ELSE IF Coarse THEN "mOp" ELSE "mLock"]
          /\ res' = [res EXCEPT ![a] = "ok"]
  /\ UNCHANGED <<dataVars, op, flt, sus, opsDone, monVars>>

MLock(a) ==
  /\ pc[a] = "mLock"
  /\ \A k \in good[a] : wr[k] = None /\ rd[k] = {}
  /\ wr' = [k \in Keys |-> IF k \in good[a] THEN a ELSE wr[k]]
  /\ pc' = [pc EXCEPT ![a] = "mOp"]
  /\ UNCHANGED <<store, cache, rd, active, live, bits, nfilt, complete, mu, rem, tgt,
                 op, res, flt, sus, todo, good, opsDone, monVars>>

MOp(a) ==
  /\ pc[a] = "mOp"
  /\ IF Coarse /\ UseTQ
       THEN /\ \A k \in good[a] : wr[k] = None /\ rd[k] = {}
            /\ wr' = [k \in Keys |-> IF k \in good[a] THEN a ELSE wr[k]]
       ELSE UNCHANGED wr
  /\ store' = store \cup good[a]
  /\ bits' = IF UseBloom /\ ~AddLag THEN [bits EXCEPT ![live] = @ \cup good[a]] ELSE bits
  /\ res' = [res EXCEPT ![a] = "ok"]
  /\ pc' = [pc EXCEPT ![a] = IF Coarse THEN (IF UseTQ THEN "mUpd" ELSE UpPc("PutMany")) ELSE "mExit"]
  /\ todo' = [todo EXCEPT ![a] = IF Coarse THEN (IF UseTQ THEN good[a] ELSE op[a].ks) ELSE @]
  /\ UNCHANGED <<cache, rd, active, live, nfilt, complete, mu, rem, tgt,
                 op, flt, sus, good, opsDone, monVars>>

MExit(a) ==
  /\ pc[a] = "mExit"
  /\ pc' = [pc EXCEPT ![a] = IF UseTQ THEN "mUpd" ELSE UpPc("PutMany")]
  /\ todo' = [todo EXCEPT ![a] = IF UseTQ THEN good[a] ELSE op[a].ks]
  /\ UNCHANGED <<dataVars, op, res, flt, sus, good, opsDone, monVars>>

MUpd(a) ==
  /\ pc[a] = "mUpd"
  /\ \E k \in todo[a] :
       /\ cache' = [cache EXCEPT ![k] = "size"]
       /\ todo' = [todo EXCEPT ![a] = @ \ {k}]
       /\ pc' = [pc EXCEPT ![a] = IF todo[a] = {k} THEN "mUnlock" ELSE "mUpd"]
  /\ UNCHANGED <<store, rd, wr, active, live, bits, nfilt, complete, mu, rem, tgt,
                 op, res, flt, sus, good, opsDone, monVars>>

MUnlock(a) ==
  /\ pc[a] = "mUnlock"
  /\ wr' = [k \in Keys |-> IF wr[k] = a THEN None ELSE wr[k]]
  /\ todo' = [todo EXCEPT ![a] = op[a].ks]
  /\ pc' = [pc EXCEPT ![a] = UpPc("PutMany")]
  /\ UNCHANGED <<store, cache, rd, active, live, bits, nfilt, complete, mu, rem, tgt,
                 op, res, flt, sus, good, opsDone, monVars>>

MAddLoad(a) ==
  /\ pc[a] = "mAddLoad"
  /\ flt' = [flt EXCEPT ![a] = live]
  /\ pc' = [pc EXCEPT ![a] = "mAdd"]
  /\ UNCHANGED <<dataVars, op, res, sus, todo, good, opsDone, monVars>>
MAdd(a) ==
  /\ pc[a] = "mAdd"
  /\ \E k \in todo[a] :
       /\ bits' = [bits EXCEPT ![flt[a]] = @ \cup {k}]
       /\ todo' = [todo EXCEPT ![a] = @ \ {k}]
       /\ pc' = [pc EXCEPT ![a] = IF todo[a] = {k} THEN "ret" ELSE "mAddLoad"]
  /\ UNCHANGED <<store, cache, rd, wr, active, live, nfilt, complete, mu, rem, tgt,
                 op, res, flt, sus, good, opsDone, monVars>>

-------------------------------------------------------------------------------
(* build() (actor B) and Rebuild() (a client): the build protocol                             *)
Finish(a) == IF a = B THEN "done" ELSE "ret"

RMu(a) ==               \* buildMu.Lock(); Rebuild then checks ctx.Err()
  /\ pc[a] = "rMu" /\ mu = None
  /\ mu' = a
  /\ \/ pc' = [pc EXCEPT ![a] = IF a = B THEN "uTgt" ELSE "rDeact"]
     \/ a # B /\ pc' = [pc EXCEPT ![a] = "rFail"]                 \* ctx already cancelled
  /\ UNCHANGED <<store, cache, rd, wr, active, live, bits, nfilt, complete, rem, tgt,
                 op, res, flt, sus, todo, good, opsDone, monVars>>

RDeact(a) ==            \* b.active.Store(false)
  /\ pc[a] = "rDeact"
  /\ active' = FALSE
  /\ pc' = [pc EXCEPT ![a] = "rSwap"]
  /\ UNCHANGED <<store, cache, rd, wr, live, bits, nfilt, complete, mu, rem, tgt,
                 op, res, flt, sus, todo, good, opsDone, monVars>>

RSwap(a) ==             \* b.bloom.Store(fresh); populate(ctx, fresh)
  /\ pc[a] = "rSwap"
  /\ live' = nfilt /\ tgt' = nfilt /\ nfilt' = nfilt + 1
  /\ pc' = [pc EXCEPT ![a] = "eStart"]
  /\ UNCHANGED <<store, cache, rd, wr, active, bits, complete, mu, rem,
                 op, res, flt, sus, todo, good, opsDone, monVars>>

UTgt(a) ==              \* build(): populate(ctx, b.bloom.Load())
  /\ pc[a] = "uTgt"
  /\ tgt' = live
  /\ pc' = [pc EXCEPT ![a] = "eStart"]
  /\ UNCHANGED <<store, cache, rd, wr, active, live, bits, nfilt, complete, mu, rem,
                 op, res, flt, sus, todo, good, opsDone, monVars>>

EStart(a) ==            \* allKeysChanWithErrFor: the backing store snapshots its key set
  /\ pc[a] = "eStart"
  /\ \/ rem' = store /\ pc' = [pc EXCEPT ![a] = "eLoop"]
     \/ UNCHANGED rem /\ pc' = [pc EXCEPT ![a] = "rFail"]          \* AllKeysChan returned an error
  /\ UNCHANGED <<store, cache, rd, wr, active, live, bits, nfilt, complete, mu, tgt,
                 op, res, flt, sus, todo, good, opsDone, monVars>>

ELoop(a) ==             \* one round of populate's select loop
  /\ pc[a] = "eLoop"
  /\ \/ \E k \in rem : /\ bits' = [bits EXCEPT ![tgt] = @ \cup {k}]      \* key delivered, AddTS
                       /\ rem' = rem \ {k} /\ UNCHANGED pc
     \/ rem = {} /\ pc' = [pc EXCEPT ![a] = "rAct"] /\ UNCHANGED <<bits, rem>>   \* closed, errFn() = nil
     \/ pc' = [pc EXCEPT ![a] = "rFail"] /\ UNCHANGED <<bits, rem>>  \* enumeration error / ctx cancelled here
  /\ UNCHANGED <<store, cache, rd, wr, active, live, nfilt, complete, mu, tgt,
                 op, res, flt, sus, todo, good, opsDone, monVars>>

RAct(a) ==              \* b.active.Store(true); buildMu.Unlock()
  /\ pc[a] = "rAct"
  /\ active' = TRUE /\ complete' = [complete EXCEPT ![tgt] = TRUE]
  /\ mu' = None
  /\ res' = [res EXCEPT ![a] = "ok"]
  /\ pc' = [pc EXCEPT ![a] = Finish(a)]
  /\ UNCHANGED <<store, cache, rd, wr, live, bits, nfilt, rem, tgt,
                 op, flt, sus, todo, good, opsDone, monVars>>

RFail(a) ==             \* error return: the filter is left as it is (inactive for Rebuild)
  /\ pc[a] = "rFail"
  /\ mu' = None
  /\ res' = [res EXCEPT ![a] = "err"]
  /\ pc' = [pc EXCEPT ![a] = Finish(a)]
  /\ UNCHANGED <<store, cache, rd, wr, active, live, bits, nfilt, complete, rem, tgt,
                 op, flt, sus, todo, good, opsDone, monVars>>

-------------------------------------------------------------------------------
Micro(a) ==             \* one internal step of actor a (everything except Invoke)
  \/ BAct(a) \/ BLoad(a) \/ BTest(a) \/ BChk(a)
  \/ QQuery(a) \/ QLock(a) \/ SOp(a) \/ SExit(a) \/ QUpd(a) \/ BAddLoad(a) \/ BAdd(a)
  \/ MQuery(a) \/ MLock(a) \/ MOp(a) \/ MExit(a) \/ MUpd(a) \/ MUnlock(a) \/ MAddLoad(a) \/ MAdd(a)
  \/ RMu(a) \/ RDeact(a) \/ RSwap(a) \/ UTgt(a) \/ EStart(a) \/ ELoop(a) \/ RAct(a) \/ RFail(a)
  \/ (a \in Procs /\ Return(a))

Next == \/ \E p \in Procs : InvokeAny(p)
        \/ \E a \in Actors : Micro(a)
        \/ \E k \in Keys : Evict(k)
Spec == Init /\ [][Next]_vars

-------------------------------------------------------------------------------
(* THE PROPERTY *)
Linearizable == \A k \in Keys : mon[k] # {}
NoLostPut    == nlp

(* what the as-built code guarantees: every non-linearizable answer comes out of one of the
   two named windows, and a lost put only out of the first                                   *)
LinearizableModuloRaces == Linearizable \/ racy # {}
NoLostPutModuloToctou   == nlp \/ "A" \in racy
NoRaceWithoutWindow     == (~Toctou => "A" \notin racy) /\ (~AddLag => "B" \notin racy)

(* mechanisms *)
InFlightUnadded(k) ==   \* a Put wrote k to the store and has not added it to a filter yet
  \E a \in Procs :
     \/ Kd(a) = "Put" /\ Ky(a) = k /\ pc[a] \in {"sExit", "qUpd", "bAddLoad", "bAdd"}
     \/ Kd(a) = "PutMany" /\ k \in op[a].ks
          /\ (pc[a] \in {"mExit", "mUpd", "mUnlock"} \/ (pc[a] \in {"mAddLoad", "mAdd"} /\ k \in todo[a]))
ActiveImpliesComplete == active => complete[live]
CompleteCovers == UseBloom /\ complete[live] => \A k \in store : k \in bits[live] \/ InFlightUnadded(k)
LockOK         == \A k \in Keys : wr[k] # None => rd[k] = {}
CacheCoherent  == \A k \in Keys : wr[k] = None /\ cache[k] # None => ((cache[k] = "no") <=> (k \notin store))
TypeOK ==
  /\ store \subseteq Keys /\ live \in Filters /\ nfilt \in 1..(MaxRebuilds + 1)
  /\ \A k \in Keys : cache[k] \in {None, "no", "have", "size"}
  /\ \A a \in Actors : flt[a] \in Filters
=============================================================================
