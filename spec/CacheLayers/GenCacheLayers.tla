--------------------------- MODULE GenCacheLayers ---------------------------
(* Phase G generators for C02.

   (1) GSpec : gated schedules.  The implementation model CacheLayers is run under a
       scheduler that mirrors what the Go harness can do with real goroutines: exactly one
       actor runs at a time, from one gate to the next gate (a "macro step"); a released actor
       that needs a lock somebody else holds ends its macro step "blocked" and continues by
       itself as soon as the lock is free.  Gates owned by the harness (backing store entry /
       exit, key enumeration) always exist; gates inside tqcache / bloomcache exist only when
       the hooks of hooks/blockstore-c02.diff are applied (constant Gates).
       Every macro step is recorded with everything the harness must do and must observe:
       site reached, result returned, backing-store results, and the projected state after it.
   (2) SSpec : sequential histories against the plain map model (every answer of the cached
       store must equal the uncached map's), with build/rebuild enumeration faults.          *)
EXTENDS CacheLayers, Json

CONSTANTS Gates,      \* SUBSET {"tq.miss", "bloom.has", "bloom.put", "bloom.rebuild"}
          E,          \* emit a schedule no longer than E macro steps
          OnlyViol    \* TRUE: emit only schedules ending in a violation of the property

VARIABLES hist, running, waiting, cur, flushed, store0
gvars == <<vars, hist, running, waiting, cur, flushed, store0>>
GView == <<vars, running, waiting, cur, flushed, store0>>

HasGate(pcv) ==
  \/ pcv \in {"idle", "done", "sOp", "mOp", "sExit", "mExit", "eStart", "eLoop"}
  \/ pcv \in {"qLock", "mLock"} /\ "tq.miss" \in Gates
  \/ pcv = (IF Toctou THEN "bLoad" ELSE "bTest") /\ "bloom.has" \in Gates
  \/ pcv \in {"bAddLoad", "mAddLoad"} /\ "bloom.put" \in Gates
  \/ pcv = "rSwap" /\ "bloom.rebuild" \in Gates
Parked(a) == HasGate(pc[a])

SiteOf(pcv) ==
  CASE pcv \in {"qLock", "mLock"}       -> "tq.miss"
    [] pcv \in {"sOp", "mOp"}           -> "base.entry"
    [] pcv \in {"sExit", "mExit"}       -> "base.exit"
    [] pcv \in {"bLoad", "bTest"}       -> "bloom.has"
    [] pcv \in {"bAddLoad", "mAddLoad"} -> "bloom.put"
    [] pcv = "rSwap"                    -> "bloom.rebuild"
    [] pcv = "eStart"                   -> "enum.start"
    [] pcv = "eLoop"                    -> "enum.next"
    [] pcv = "idle"                     -> "ret"
    [] pcv = "done"                     -> "done"
    [] OTHER                            -> pcv

\* Go's RWMutex prefers writers: a reader arriving while a writer waits for the key blocks as well
WriterWaits(k) == \E w \in waiting : \/ pc[w] = "qLock" /\ IsWrite(Kd(w)) /\ Ky(w) = k
                                     \/ pc[w] = "mLock" /\ k \in good[w]
Blocked(a) ==
  \/ pc[a] = "qLock" /\ ~LockFree(a)
  \/ pc[a] = "qLock" /\ ~IsWrite(Kd(a)) /\ a \notin waiting /\ WriterWaits(Ky(a))
  \/ pc[a] = "mLock" /\ ~(\A k \in good[a] : wr[k] = None /\ rd[k] = {})
  \/ pc[a] = "rMu" /\ mu # None

NoCur == [a |-> None, n |-> 0, inv |-> "", k |-> 0, ks |-> {}, r |-> "", b |-> "", bk |-> {},
          how |-> "", yk |-> 0, snap |-> {}, pre |-> FALSE, wake |-> FALSE]

Proj == [store |-> store, cache |-> cache, active |-> active, live |-> live, fbits |-> bits[live]]
Bad  == ~(Linearizable /\ nlp)

Entry(blocked) ==
  [a |-> cur.a, inv |-> cur.inv, k |-> cur.k, ks |-> cur.ks, site |-> SiteOf(pc[cur.a]),
   r |-> cur.r, b |-> cur.b, bk |-> cur.bk, how |-> cur.how, yk |-> cur.yk, snap |-> cur.snap,
   pre |-> cur.pre, wake |-> cur.wake, blocked |-> blocked, st |-> Proj,
   viol |-> Bad, lin |-> Linearizable, nlp |-> nlp, racy |-> racy]

(* what a micro step of actor a adds to the record of the running macro step
   (evaluated after Micro(a), so primed variables are determined)                       *)
Upd(a, how) ==
  LET c == [cur EXCEPT !.n = @ + 1] IN
  CASE pc[a] = "sOp"    -> [c EXCEPT !.b = res'[a]]
    [] pc[a] = "mOp"    -> [c EXCEPT !.b = "ok", !.bk = good[a]]
    [] pc[a] = "eStart" -> IF pc'[a] = "eLoop" THEN [c EXCEPT !.how = "snap", !.snap = rem']
                                               ELSE [c EXCEPT !.how = "fail"]
    [] pc[a] = "eLoop"  -> IF pc'[a] = "rAct" THEN [c EXCEPT !.how = "close"]
                           ELSE IF pc'[a] = "rFail" THEN [c EXCEPT !.how = how]
                           ELSE [c EXCEPT !.how = "yield", !.yk = CHOOSE k \in rem : k \notin rem']
    [] pc[a] = "rMu"    -> IF pc'[a] = "rFail" THEN [c EXCEPT !.pre = TRUE] ELSE c
    [] pc[a] \in {"rAct", "rFail"} -> [c EXCEPT !.r = res'[a]]
    [] pc[a] = "ret"    -> [c EXCEPT !.r = res[a]]
    [] OTHER            -> c

CfgRec == [tq |-> UseTQ, bloom |-> UseBloom, toctou |-> Toctou, addlag |-> AddLag,
                 initBuild |-> InitBuild, gates |-> Gates, nk |-> NK, store0 |-> store0]

GInit ==
  /\ Init
  /\ hist = <<>> /\ running = None /\ cur = NoCur /\ flushed = FALSE /\ store0 = store
  /\ waiting = IF pc[B] = "rMu" THEN {B} ELSE {}   \* build() was started by the constructor

EndMacro(blocked) ==
  /\ hist' = Append(hist, Entry(blocked))
  /\ running' = None /\ cur' = NoCur
  /\ waiting' = IF blocked THEN waiting \cup {running} ELSE waiting
  /\ UNCHANGED <<vars, flushed, store0>>

RunStep ==
  LET a == running IN
  IF cur.n > 0 /\ Parked(a) THEN EndMacro(FALSE)
  ELSE IF Blocked(a) THEN EndMacro(TRUE)
  ELSE /\ Micro(a)
       /\ \E how \in {"fail", "cancel"} :
            /\ (how = "cancel" => pc[a] = "eLoop" /\ pc'[a] = "rFail")
            /\ cur' = Upd(a, how)
       /\ (cur.wake /\ pc[a] = "rMu" => pc'[a] # "rFail")   \* cannot cancel a waiter deterministically
       /\ (pc[a] = "mAdd" => \A j \in todo'[a] : \A i \in todo[a] \ todo'[a] : i < j)  \* blocks are passed in key order
       /\ UNCHANGED <<hist, running, waiting, flushed, store0>>

Wakeable == {w \in waiting : ~Blocked(w)}

StartStep ==
  IF Wakeable # {}
  THEN \E w \in Wakeable :                          \* the freed waiter runs by itself
         /\ running' = w /\ waiting' = waiting \ {w}
         /\ cur' = [NoCur EXCEPT !.a = w, !.wake = TRUE]
         /\ UNCHANGED <<vars, hist, flushed, store0>>
  ELSE \/ \E p \in Procs :                          \* the controller starts a call
            /\ InvokeAny(p)
            /\ running' = p
            /\ cur' = [NoCur EXCEPT !.a = p, !.n = 1, !.inv = op'[p].kind, !.k = op'[p].k, !.ks = op'[p].ks]
            /\ UNCHANGED <<hist, waiting, flushed, store0>>
       \/ \E a \in Actors \ waiting :               \* the controller opens the gate a is parked at
            /\ pc[a] \notin {"idle", "done"} /\ Parked(a)
            /\ running' = a
            /\ cur' = [NoCur EXCEPT !.a = a]
            /\ UNCHANGED <<vars, hist, waiting, flushed, store0>>

Quiet == /\ running = None /\ waiting = {}
         /\ \A p \in Procs : pc[p] = "idle"
         /\ pc[B] = "done"

GNextCore == IF running # None THEN RunStep ELSE StartStep

\* -simulate: print once when the run is over, then stop the trace
Flush ==
  /\ ~flushed /\ Quiet /\ Len(hist) > 0
  /\ (\A p \in Procs : opsDone[p] = MaxOps) \/ Len(hist) >= E
  /\ (OnlyViol => Bad)
  /\ PrintT(<<"BEHAVIOUR", ToJson([cfg |-> CfgRec,
                                   steps |-> hist])>>)
  /\ flushed' = TRUE
  /\ UNCHANGED <<vars, hist, running, waiting, cur, store0>>

GNext == ~flushed /\ (IF Quiet /\ Len(hist) > 0 /\ ((\A p \in Procs : opsDone[p] = MaxOps) \/ Len(hist) >= E)
                         THEN Flush ELSE (Len(hist) < E /\ GNextCore))
GSpec == GInit /\ [][GNext]_gvars

\* exhaustive search for violating schedules (BFS, VIEW without hist => one shortest schedule per
\* violating state); the search does not continue past a violation (CONSTRAINT NotYetBad)
NotYetBad == ~(Bad /\ running = None)
OneWaiter == Cardinality(waiting) <= 1
\* a blocked PutMany already holds some of its (sorted) key locks in the real code; the model acquires
\* them all at once (same safety behaviours), so such schedules cannot be steered gate by gate
NoManyWait == \A w \in waiting : op[w].kind # "PutMany"
EmitViol  == (running = None /\ Bad /\ Len(hist) > 0) =>
                PrintT(<<"BEHAVIOUR", ToJson([cfg |-> CfgRec,
                                              steps |-> hist])>>)
GNextBfs == Len(hist) < E /\ GNextCore
GSpecBfs == GInit /\ [][GNextBfs]_gvars
=============================================================================
