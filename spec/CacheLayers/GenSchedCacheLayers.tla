------------------------ MODULE GenSchedCacheLayers ------------------------
(* instances of the schedule generator *)
EXTENDS GenCacheLayers
AllStores == SUBSET Keys
AllGates  == {"tq.miss", "bloom.has", "bloom.put", "bloom.rebuild"}
RolesAll  == [p \in Procs |-> OpKinds]
RolesNoMany == [p \in Procs |-> OpKinds \ {"PutMany"}]
\* Toctou hunt: one reader/deleter, one rebuilder
RolesToctou == [p \in Procs |-> IF p = "p1" THEN {"Has", "Get", "Size", "Del"} ELSE {"Rebuild"}]
\* AddLag hunt: a writer and two readers
RolesAddLag == [p \in Procs |-> IF p = "p1" THEN {"Put", "PutMany"} ELSE {"Has", "Get", "Size"}]
OneKeyStore == {{1}}
=============================================================================
