\* random conformance schedules with the hook gates, repaired hasCached order
SPECIFICATION GSpec
CONSTANTS NK = 2
          Procs = {"p1", "p2", "p3"}
          KindsOf <- RolesAll
          UseTQ = TRUE
          UseBloom = TRUE
          Impl = {"AddLag"}
          AllowFP = FALSE
          MaxRebuilds = 2
          MaxOps = 3
          InitBuild = "run"
          InitStores <- AllStores
          Evictions = FALSE
          Coarse = FALSE
          Gates <- AllGates
          E = 60
          OnlyViol = FALSE
CONSTRAINTS OneWaiter NoManyWait
CHECK_DEADLOCK FALSE
