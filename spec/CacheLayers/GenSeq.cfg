SPECIFICATION SSpec
CONSTANTS NK = 2
          TQSizes = {0, 2}
          BloomSizes = {0, 1}
          D = 2
          E = 2
          BL = 2
          PrepOn = FALSE
INVARIANTS Emit
CHECK_DEADLOCK FALSE
