SPECIFICATION BSpec
CONSTANTS NK = 3
          TQSizes = {2, 3, 64}
          BloomSizes = {0, 64}
          D = 1
          E = 1
          BL = 4
          PrepOn = FALSE
INVARIANTS Emit
CHECK_DEADLOCK FALSE
