SPECIFICATION BSpec
CONSTANTS NK = 3
          TQSizes = {0, 2, 3, 64}
          BloomSizes = {0, 64}
          D = 2
          E = 2
          BL = 3
          PrepOn = TRUE
INVARIANTS Emit
CHECK_DEADLOCK FALSE
