-------------------------- MODULE GenSeqCacheLayers --------------------------
(* Phase G, sequential histories.  The oracle is the plain map (the uncached store): a set of
   keys `m`.  Every read through the cached store must answer `k \in m` -- whatever the cache
   size, the Bloom size, the outcome of the initial build and of any Rebuild.  The only other
   observable is BloomCacheStatus: BloomActive() and the error of Wait()/Rebuild(), specified
   here from the documentation of caching.go: active after a complete enumeration, inactive
   after a Rebuild whose enumeration failed or was cancelled, untouched by a Rebuild whose
   context was already cancelled.                                                            *)
EXTENDS Integers, Sequences, FiniteSets, TLC, Json

CONSTANTS NK,        \* keys 1..NK
          TQSizes,   \* HasTwoQueueCacheSize values (0 = no tqcache)
          BloomSizes,\* HasBloomFilterSize values in bytes (0 = no bloom)
          D,         \* BFS: history length bound
          E,         \* emit when Len(hist) = E
          BL,        \* PutMany batches are SEQUENCES of keys of length 0..BL (duplicates, any order)
          PrepOn     \* batch family: a preparing call (one cache entry) precedes the PutMany

Keys == 1..NK

(* A PutMany batch is what the caller hands over: a finite SEQUENCE of blocks -- the same block may occur
   several times, several distinct blocks may occur, in any order (the order in which their multihashes
   sort is not the order of the batch).  The map model does not care: afterwards every block that occurs
   in the batch is present (with its own bytes and size), nothing else changes.                         *)
RECURSIVE SeqsOfLen(_)
SeqsOfLen(n) == IF n = 0 THEN {<<>>} ELSE {Append(s, k) : s \in SeqsOfLen(n - 1), k \in Keys}
Batches   == UNION {SeqsOfLen(n) : n \in 0..BL}
Range(s)  == {s[i] : i \in 1..Len(s)}

VARIABLES m, act, cfg, hist, flushed
vars == <<m, act, cfg, hist, flushed>>

Faults(n) == {<<"none", 0>>, <<"pre", 0>>} \cup {<<f, i>> : f \in {"fail", "cancel"}, i \in 0..n}
InitFaults(n) == {<<"none", 0>>} \cup {<<f, i>> : f \in {"fail", "cancel"}, i \in 0..n}

\* outcome of an enumeration over n keys under fault <<f, i>>: "ok" | "err" | "any"
\* (cancelling after the last key races with the channel close: both outcomes are correct)
Outcome(f, n) == CASE f[1] = "none" -> "ok"
                   [] f[1] = "fail" -> "err"
                   [] f[1] = "pre"  -> "err"
                   [] f[1] = "cancel" -> IF f[2] >= n THEN "any" ELSE "err"

Init ==
  /\ \E tq \in TQSizes, bl \in BloomSizes, pre \in SUBSET Keys :
       \E f \in (IF bl = 0 THEN {<<"none", 0>>} ELSE InitFaults(Cardinality(pre))) :
         /\ cfg = [tq |-> tq, bloom |-> bl, pre |-> pre, ifault |-> f]
         /\ m = pre
         /\ act = IF bl = 0 THEN "off" ELSE Outcome(f, Cardinality(pre))   \* "ok"=active "err"=inactive "any"
  /\ hist = <<>> /\ flushed = FALSE

Rec(op, api, k, ks, f, found, res) ==
  [op |-> op, api |-> api, k |-> k, ks |-> ks, fault |-> f[1], at |-> f[2], found |-> found, res |-> res,
   act |-> act', m |-> m']

Put(k)      == m' = m \cup {k} /\ UNCHANGED act /\ hist' = Append(hist, Rec("Put", "", k, <<>>, <<"none", 0>>, FALSE, "ok"))
Del(k)      == m' = m \ {k}    /\ UNCHANGED act /\ hist' = Append(hist, Rec("Del", "", k, <<>>, <<"none", 0>>, FALSE, "ok"))
\* bs is a sequence (the batch as handed over); `ks` of the record keeps it as a sequence
PutMany(bs) == m' = m \cup Range(bs) /\ UNCHANGED act /\ hist' = Append(hist, Rec("PutMany", "", 0, bs, <<"none", 0>>, FALSE, "ok"))
Read(api, k) == UNCHANGED <<m, act>> /\ hist' = Append(hist, Rec("Read", api, k, <<>>, <<"none", 0>>, k \in m, "ok"))
Rebuild(f)  ==
  /\ cfg.bloom # 0
  /\ UNCHANGED m
  /\ LET o == Outcome(f, Cardinality(m)) IN
     /\ act' = IF f[1] = "pre" THEN act ELSE o
     /\ hist' = Append(hist, Rec("Rebuild", "", 0, {}, f, FALSE, o))

Step == \/ \E k \in Keys : Put(k) \/ Del(k)
        \/ \E k \in Keys, api \in {"Has", "Get", "Size", "View"} : Read(api, k)
        \/ \E bs \in Batches : PutMany(bs)
        \/ \E f \in Faults(Cardinality(m)) : Rebuild(f)

\* -simulate computes every successor: draw one batch per length 0..BL at random instead of all of them
\* (the draw is bound by \E so that it is made once per disjunct; with few keys most long batches
\* contain duplicates)
StepSim == \/ \E k \in Keys : Put(k) \/ Del(k)
           \/ \E k \in Keys, api \in {"Has", "Get", "Size", "View"} : Read(api, k)
           \/ \E n \in 0..BL :
                \E bs \in {RandomElement({s \in Batches : Len(hist) >= 0 /\ Len(s) = n})} : PutMany(bs)
           \/ \E f \in Faults(Cardinality(m)) : Rebuild(f)

SNext == Len(hist) < D /\ Step /\ UNCHANGED <<cfg, flushed>>
SSpec == Init /\ [][SNext]_vars
Emit  == Len(hist) # E \/ PrintT(<<"BEHAVIOUR", ToJson([cfg |-> cfg, steps |-> hist])>>)

\* -simulate: one behaviour per trace
Flush == /\ ~flushed /\ Len(hist) = E
         /\ PrintT(<<"BEHAVIOUR", ToJson([cfg |-> cfg, steps |-> hist])>>)
         /\ flushed' = TRUE /\ UNCHANGED <<m, act, cfg, hist>>
SNextSim == ~flushed /\ (IF Len(hist) = E THEN Flush ELSE StepSim /\ UNCHANGED <<cfg, flushed>>)
SSpecSim == Init /\ [][SNextSim]_vars

(* Batch family (exhaustive): EVERY batch of length <= BL -- every multiset of keys in every order -- on
   every configuration and initial content, optionally after one preparing call that leaves one entry in
   the existence cache (a size, a "have" or a "have not"), so that the batch is partly answered by the
   cache.  The initial build is not disturbed here (that is the business of the other families).       *)
BInit ==
  /\ \E tq \in TQSizes, bl \in BloomSizes, pre \in SUBSET Keys :
       /\ cfg = [tq |-> tq, bloom |-> bl, pre |-> pre, ifault |-> <<"none", 0>>]
       /\ m = pre
       /\ act = IF bl = 0 THEN "off" ELSE "ok"
  /\ hist = <<>> /\ flushed = FALSE
Prep  == \E k \in Keys : Del(k) \/ Read("Size", k) \/ Read("Has", k)
BStep == IF PrepOn /\ Len(hist) = 0 THEN Prep ELSE \E bs \in Batches : PutMany(bs)
BNext == Len(hist) < E /\ BStep /\ UNCHANGED <<cfg, flushed>>
BSpec == BInit /\ [][BNext]_vars
=============================================================================
