-------------------------- MODULE GenSeqCacheLayers --------------------------
(* Phase G, sequential histories.  The oracle is the plain map (the uncached store): a set of
   keys `m`.  Every read through the cached store must answer `k \in m` -- whatever the cache
   size, the Bloom size, the outcome of the initial build and of any Rebuild.  The only other
   observable is BloomCacheStatus: BloomActive() and the error of Wait()/Rebuild(), specified
   here from the documentation of caching.go: active after a complete enumeration, inactive
   after a Rebuild whose enumeration failed or was cancelled, untouched by a Rebuild whose
   context was already cancelled.                                                            *)
EXTENDS Integers, Sequences, FiniteSets, TLC, Json

CONSTANTS NK,        \* keys 1..NK
          TQSizes,   \* HasTwoQueueCacheSize values (0 = no tqcache)
          BloomSizes,\* HasBloomFilterSize values in bytes (0 = no bloom)
          D,         \* BFS: history length bound
          E          \* emit when Len(hist) = E

Keys == 1..NK
VARIABLES m, act, cfg, hist, flushed
vars == <<m, act, cfg, hist, flushed>>

Faults(n) == {<<"none", 0>>, <<"pre", 0>>} \cup {<<f, i>> : f \in {"fail", "cancel"}, i \in 0..n}
InitFaults(n) == {<<"none", 0>>} \cup {<<f, i>> : f \in {"fail", "cancel"}, i \in 0..n}

\* outcome of an enumeration over n keys under fault <<f, i>>: "ok" | "err" | "any"
\* (cancelling after the last key races with the channel close: both outcomes are correct)
Outcome(f, n) == CASE f[1] = "none" -> "ok"
                   [] f[1] = "fail" -> "err"
                   [] f[1] = "pre"  -> "err"
                   [] f[1] = "cancel" -> IF f[2] >= n THEN "any" ELSE "err"

Init ==
  /\ \E tq \in TQSizes, bl \in BloomSizes, pre \in SUBSET Keys :
       \E f \in (IF bl = 0 THEN {<<"none", 0>>} ELSE InitFaults(Cardinality(pre))) :
         /\ cfg = [tq |-> tq, bloom |-> bl, pre |-> pre, ifault |-> f]
         /\ m = pre
         /\ act = IF bl = 0 THEN "off" ELSE Outcome(f, Cardinality(pre))   \* "ok"=active "err"=inactive "any"
  /\ hist = <<>> /\ flushed = FALSE

Rec(op, api, k, ks, f, found, res) ==
  [op |-> op, api |-> api, k |-> k, ks |-> ks, fault |-> f[1], at |-> f[2], found |-> found, res |-> res,
   act |-> act', m |-> m']

Put(k)      == m' = m \cup {k} /\ UNCHANGED act /\ hist' = Append(hist, Rec("Put", "", k, {}, <<"none", 0>>, FALSE, "ok"))
Del(k)      == m' = m \ {k}    /\ UNCHANGED act /\ hist' = Append(hist, Rec("Del", "", k, {}, <<"none", 0>>, FALSE, "ok"))
PutMany(ks) == m' = m \cup ks  /\ UNCHANGED act /\ hist' = Append(hist, Rec("PutMany", "", 0, ks, <<"none", 0>>, FALSE, "ok"))
Read(api, k) == UNCHANGED <<m, act>> /\ hist' = Append(hist, Rec("Read", api, k, {}, <<"none", 0>>, k \in m, "ok"))
Rebuild(f)  ==
  /\ cfg.bloom # 0
  /\ UNCHANGED m
  /\ LET o == Outcome(f, Cardinality(m)) IN
     /\ act' = IF f[1] = "pre" THEN act ELSE o
     /\ hist' = Append(hist, Rec("Rebuild", "", 0, {}, f, FALSE, o))

Step == \/ \E k \in Keys : Put(k) \/ Del(k)
        \/ \E k \in Keys, api \in {"Has", "Get", "Size", "View"} : Read(api, k)
        \/ \E ks \in SUBSET Keys : PutMany(ks)
        \/ \E f \in Faults(Cardinality(m)) : Rebuild(f)

SNext == Len(hist) < D /\ Step /\ UNCHANGED <<cfg, flushed>>
SSpec == Init /\ [][SNext]_vars
Emit  == Len(hist) # E \/ PrintT(<<"BEHAVIOUR", ToJson([cfg |-> cfg, steps |-> hist])>>)

\* -simulate: one behaviour per trace
Flush == /\ ~flushed /\ Len(hist) = E
         /\ PrintT(<<"BEHAVIOUR", ToJson([cfg |-> cfg, steps |-> hist])>>)
         /\ flushed' = TRUE /\ UNCHANGED <<m, act, cfg, hist>>
SNextSim == ~flushed /\ (IF Len(hist) = E THEN Flush ELSE Step /\ UNCHANGED <<cfg, flushed>>)
SSpecSim == Init /\ [][SNextSim]_vars
=============================================================================
