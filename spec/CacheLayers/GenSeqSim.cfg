SPECIFICATION SSpecSim
CONSTANTS NK = 3
          TQSizes = {0, 1, 2, 3, 64}
          BloomSizes = {0, 1, 64, 524288}
          D = 1000
          E = 40
          BL = 5
          PrepOn = FALSE
CHECK_DEADLOCK FALSE
