\* Toctou window of bloomcache.hasCached (needs the bloom.has / bloom.rebuild gates = hooks)
SPECIFICATION GSpecBfs
CONSTANTS NK = 1
          Procs = {"p1", "p2"}
          KindsOf <- RolesToctou
          UseTQ = TRUE
          UseBloom = TRUE
          Impl = {"Toctou", "AddLag"}
          AllowFP = FALSE
          MaxRebuilds = 1
          MaxOps = 1
          InitBuild = "ok"
          InitStores <- OneKeyStore
          Evictions = FALSE
          Coarse = FALSE
          Gates <- AllGates
          E = 12
          OnlyViol = TRUE
VIEW GView
CONSTRAINTS NotYetBad OneWaiter NoManyWait
INVARIANTS EmitViol
CHECK_DEADLOCK FALSE
