\* AddLag window, reachable with harness-owned gates only (no hooks): bloom over the bare store
SPECIFICATION GSpecBfs
CONSTANTS NK = 1
          Procs = {"p1", "p2", "p3"}
          KindsOf <- RolesAddLag
          UseTQ = FALSE
          UseBloom = TRUE
          Impl = {"Toctou", "AddLag"}
          AllowFP = FALSE
          MaxRebuilds = 0
          MaxOps = 1
          InitBuild = "run"
          InitStores <- AllStores
          Evictions = FALSE
          Coarse = FALSE
          Gates = {}
          E = 14
          OnlyViol = TRUE
VIEW GView
CONSTRAINTS NotYetBad OneWaiter NoManyWait
INVARIANTS EmitViol
CHECK_DEADLOCK FALSE
