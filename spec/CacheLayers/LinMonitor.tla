------------------------------ MODULE LinMonitor ------------------------------
(* On-line linearizability monitor for a register with values {TRUE (present), FALSE (absent)}
   -- one instance per key of the block map.  Shared by the implementation model (CacheLayers)
   and by the trace specification (TraceCacheLayers), so that the same definition decides the
   property in the model and on recorded histories of the real code.                        *)
EXTENDS Integers, FiniteSets
CONSTANT Procs

(* Linearizability monitor.  A configuration is one possible "abstract register value +
   which pending calls have already taken effect (and what a read saw)".  The set of all
   configurations consistent with the invoke/return history so far is maintained exactly;
   the history is linearizable iff the set is non-empty (sound and complete, per key --
   linearizability is compositional and all calls are single-key; PutMany is treated as one
   independent Put per key, which is all the uncached store offers as well).              *)
LinOne(c, p) ==
  CASE c.st[p] = "pR" -> [c EXCEPT !.st[p] = IF c.val THEN "T" ELSE "F"]
    [] c.st[p] = "pP" -> [val |-> TRUE,  st |-> [c.st EXCEPT ![p] = "w"]]
    [] c.st[p] = "pD" -> [val |-> FALSE, st |-> [c.st EXCEPT ![p] = "w"]]
Pend(c)    == {p \in Procs : c.st[p] \in {"pR", "pP", "pD"}}
LinStep(S) == S \cup UNION {{LinOne(c, p) : p \in Pend(c)} : c \in S}
RECURSIVE Close(_)
Close(S)   == LET T == LinStep(S) IN IF T = S THEN S ELSE Close(T)
MonInvoke(S, p, tag) == Close({[c EXCEPT !.st[p] = tag] : c \in S})
MonReturn(S, p, r)   == {[c EXCEPT !.st[p] = "idle"] : c \in {d \in S : d.st[p] = r}}
MonInit(v)           == {[val |-> v, st |-> [p \in Procs |-> "idle"]]}

=============================================================================
