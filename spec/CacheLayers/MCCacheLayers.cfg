\* quick: bloom over tqcache, ideal design (repaired hasCached order, atomic write+add), false positives, evictions, build running: strictly linearizable
SPECIFICATION Spec
CONSTANTS NK = 1
          Procs = {"p1", "p2"}
          KindsOf <- RolesNoMany
          UseTQ = TRUE
          UseBloom = TRUE
          Impl = {}
          AllowFP = TRUE
          MaxRebuilds = 1
          MaxOps = 1
          InitBuild = "run"
          InitStores <- AllStores
          Evictions = TRUE
          Coarse = TRUE
INVARIANTS TypeOK Linearizable NoLostPut NoRaceWithoutWindow ActiveImpliesComplete CompleteCovers LockOK CacheCoherent
CHECK_DEADLOCK FALSE
