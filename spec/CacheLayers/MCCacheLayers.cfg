\* tqcache alone: must be strictly linearizable
SPECIFICATION Spec
CONSTANTS NK = 2
          Procs = {"p1", "p2", "p3"}
          KindsOf <- RolesMRX
          UseTQ = TRUE
          UseBloom = FALSE
          Impl = {}
          AllowFP = FALSE
          MaxRebuilds = 0
          MaxOps = 1
          InitBuild = "ok"
          InitStores <- AllStores
          Evictions = TRUE
INVARIANTS TypeOK Linearizable NoLostPut LockOK CacheCoherent
CHECK_DEADLOCK FALSE
