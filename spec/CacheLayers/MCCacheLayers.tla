--------------------------- MODULE MCCacheLayers ---------------------------
(* Model-checking instances of CacheLayers: role assignments and initial stores. *)
EXTENDS CacheLayers

AllStores == SUBSET Keys
\* three clients: a mutator, a reader, and one that reads or rebuilds
RolesMRX == [p \in Procs |->
   CASE p = "p1" -> {"Put", "Del", "PutMany"}
     [] p = "p2" -> {"Has", "Get", "Size", "Del"}
     [] OTHER    -> {"Has", "Size", "Put", "Rebuild"}]
\* everybody may do everything (smaller bounds)
RolesAll == [p \in Procs |-> OpKinds]
Perms == Permutations(Procs)
RolesNoMany == [p \in Procs |-> OpKinds \ {"PutMany"}]
=============================================================================
