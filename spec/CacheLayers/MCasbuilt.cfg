\* quick: bloom over tqcache as built, 3 clients: non-linearizable answers only through the two named windows
SPECIFICATION Spec
CONSTANTS NK = 1
          Procs = {"p1", "p2", "p3"}
          KindsOf <- RolesMRX
          UseTQ = TRUE
          UseBloom = TRUE
          Impl = {"Toctou", "AddLag"}
          AllowFP = FALSE
          MaxRebuilds = 1
          MaxOps = 1
          InitBuild = "ok"
          InitStores <- AllStores
          Evictions = FALSE
          Coarse = TRUE
INVARIANTS TypeOK LinearizableModuloRaces NoLostPutModuloToctou ActiveImpliesComplete CompleteCovers LockOK CacheCoherent
CHECK_DEADLOCK FALSE
