\* thorough: as built, 2 keys, 2 clients of any kind incl. PutMany
SPECIFICATION Spec
CONSTANTS NK = 2
          Procs = {"p1", "p2"}
          KindsOf <- RolesAll
          UseTQ = TRUE
          UseBloom = TRUE
          Impl = {"Toctou", "AddLag"}
          AllowFP = FALSE
          MaxRebuilds = 1
          MaxOps = 1
          InitBuild = "run"
          InitStores <- AllStores
          Evictions = FALSE
          Coarse = TRUE
INVARIANTS TypeOK LinearizableModuloRaces NoLostPutModuloToctou ActiveImpliesComplete CompleteCovers LockOK CacheCoherent
CHECK_DEADLOCK FALSE
