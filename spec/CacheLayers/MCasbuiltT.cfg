\* thorough: as built, 3 clients, false positives, evictions, initial build running
SPECIFICATION Spec
CONSTANTS NK = 1
          Procs = {"p1", "p2", "p3"}
          KindsOf <- RolesMRX
          UseTQ = TRUE
          UseBloom = TRUE
          Impl = {"Toctou", "AddLag"}
          AllowFP = TRUE
          MaxRebuilds = 1
          MaxOps = 1
          InitBuild = "run"
          InitStores <- AllStores
          Evictions = TRUE
          Coarse = TRUE
INVARIANTS TypeOK LinearizableModuloRaces NoLostPutModuloToctou ActiveImpliesComplete CompleteCovers LockOK CacheCoherent
CHECK_DEADLOCK FALSE
