\* thorough: repaired hasCached order (fixes/C02-bloom-toctou.diff), filter add still lagging: no lost put, two Rebuilds (one may fail)
SPECIFICATION Spec
CONSTANTS NK = 1
          Procs = {"p1", "p2", "p3"}
          KindsOf <- RolesMRX
          UseTQ = TRUE
          UseBloom = TRUE
          Impl = {"AddLag"}
          AllowFP = TRUE
          MaxRebuilds = 2
          MaxOps = 1
          InitBuild = "ok"
          InitStores <- AllStores
          Evictions = TRUE
          Coarse = TRUE
INVARIANTS TypeOK LinearizableModuloRaces NoLostPut NoRaceWithoutWindow ActiveImpliesComplete CompleteCovers LockOK CacheCoherent
CHECK_DEADLOCK FALSE
