\* thorough: ideal design, 3 clients, initial build running
SPECIFICATION Spec
CONSTANTS NK = 1
          Procs = {"p1", "p2", "p3"}
          KindsOf <- RolesMRX
          UseTQ = TRUE
          UseBloom = TRUE
          Impl = {}
          AllowFP = FALSE
          MaxRebuilds = 1
          MaxOps = 1
          InitBuild = "run"
          InitStores <- AllStores
          Evictions = FALSE
          Coarse = TRUE
INVARIANTS TypeOK Linearizable NoLostPut NoRaceWithoutWindow ActiveImpliesComplete CompleteCovers LockOK CacheCoherent
CHECK_DEADLOCK FALSE
