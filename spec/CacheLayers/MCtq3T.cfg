\* thorough: tqcache alone, 2 keys, 3 clients (mutator / reader+deleter / mixed)
SPECIFICATION Spec
CONSTANTS NK = 2
          Procs = {"p1", "p2", "p3"}
          KindsOf <- RolesMRX
          UseTQ = TRUE
          UseBloom = FALSE
          Impl = {}
          AllowFP = FALSE
          MaxRebuilds = 0
          MaxOps = 1
          InitBuild = "ok"
          InitStores <- AllStores
          Evictions = TRUE
          Coarse = TRUE
INVARIANTS TypeOK Linearizable NoLostPut NoRaceWithoutWindow ActiveImpliesComplete CompleteCovers LockOK CacheCoherent
CHECK_DEADLOCK FALSE
