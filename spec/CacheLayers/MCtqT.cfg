\* thorough: tqcache alone, 2 keys, 2 clients x 2 calls of any kind incl. PutMany
SPECIFICATION Spec
CONSTANTS NK = 2
          Procs = {"p1", "p2"}
          KindsOf <- RolesAll
          UseTQ = TRUE
          UseBloom = FALSE
          Impl = {}
          AllowFP = FALSE
          MaxRebuilds = 0
          MaxOps = 2
          InitBuild = "ok"
          InitStores <- AllStores
          Evictions = TRUE
          Coarse = TRUE
INVARIANTS TypeOK Linearizable NoLostPut NoRaceWithoutWindow ActiveImpliesComplete CompleteCovers LockOK CacheCoherent
CHECK_DEADLOCK FALSE
