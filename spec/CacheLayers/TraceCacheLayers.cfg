SPECIFICATION TSpec
CONSTANTS NK = 3
          Procs = {"p1", "p2", "p3", "p4", "p5", "p6"}
          Devs = @DEVS@
INVARIANTS Linearizable NoLostPut DevReport
CONSTRAINT TraceConstraint
POSTCONDITION TracePost
CHECK_DEADLOCK FALSE
