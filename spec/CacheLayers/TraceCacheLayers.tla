-------------------------- MODULE TraceCacheLayers --------------------------
(* Phase T for C02: a history recorded from real goroutines calling a real CachedBlockstore
   (events Inv / Ret around every public call, Base / Snap logged by the harness-owned backing
   store inside its critical section = ground truth) must satisfy the property:

     * every return is consistent with SOME linearization of the calls so far -- decided here,
       by the same monitor (LinMonitor) that the implementation model CacheLayers is checked with;
     * the backing operations are those of the uncached store: at most one per call, of the
       call's kind and key, reads see the ground truth, and an answer that was fetched from the
       backing store is returned unchanged;
     * at quiescence the linearized map equals the backing store (Quiet events);
     * when a Put / PutMany returns, every block of the call that no Delete overlapped IS in the
       backing store (a PutMany batch is a sequence: `ks` may repeat a key and is in the caller's
       order; the map model only looks at the set of keys that occur).

   A return that NO linearization explains is accepted only as a named, open deviation and only
   in the situation that deviation describes (CONSTANT Devs, filled by the runner):
     Dev_C02_BloomToctou : a "missing" answer (or skipped Delete) given without consulting the
                           store, for a stored block, by a call that overlapped a Rebuild;
     Dev_C02_BloomAddLag : a "missing" answer while a Put of that key has written the store
                           and not returned yet (its filter add is still to come).             *)
EXTENDS Integers, Sequences, FiniteSets, TLC, Json, LinMonitor

CONSTANTS NK, Devs
Keys == 1..NK
Trace == ndJsonDeserialize("trace.ndjson")
ASSUME TLCSet(1, 0)

VARIABLES l,        \* next event
          store,    \* ground truth, from Base events
          bloom,    \* run configuration: a Bloom layer is present
          cur,      \* [Procs -> current call or NoCall]
          nb,       \* [Procs -> backing operations done by the current call]
          lastb,    \* [Procs -> result of that backing operation]
          wrote,    \* [Procs -> keys the current Put/PutMany has written to the store]
          rbo,      \* [Procs -> a Rebuild overlapped the current call]
          lostDel,  \* [Keys -> a Delete returned without deleting (Toctou), not yet superseded]
          mon, nlp, settled, mustSee, clean,
          dev       \* deviations used so far
tvars == <<l, store, bloom, cur, nb, lastb, wrote, rbo, lostDel, mon, nlp, settled, mustSee, clean, dev>>

NoCall == [kind |-> "-", k |-> 0, ks |-> {}]
ToSet(s) == {s[i] : i \in 1..Len(s)}
Ev == Trace[l]
IsEvent(e) == l <= Len(Trace) /\ Trace[l].ev = e /\ l' = l + 1

IsRead(kind)  == kind \in {"Has", "Get", "Size", "View"}
IsPut(kind)   == kind \in {"Put", "PutMany"}
MonTag(kind)  == IF IsPut(kind) THEN "pP" ELSE IF kind = "Del" THEN "pD" ELSE "pR"
Pending(k, tagKinds) == {q \in Procs : cur[q].kind \in tagKinds /\ k \in cur[q].ks}
DelPending(k) == Pending(k, {"Del"}) # {}

ResetTo(s0, bl) ==
  /\ store' = s0 /\ bloom' = bl
  /\ cur' = [p \in Procs |-> NoCall] /\ nb' = [p \in Procs |-> 0] /\ lastb' = [p \in Procs |-> ""]
  /\ wrote' = [p \in Procs |-> {}] /\ rbo' = [p \in Procs |-> FALSE]
  /\ lostDel' = [k \in Keys |-> FALSE]
  /\ mon' = [k \in Keys |-> MonInit(k \in s0)]
  /\ nlp' = TRUE /\ settled' = [k \in Keys |-> k \in s0]
  /\ mustSee' = [p \in Procs |-> FALSE] /\ clean' = [p \in Procs |-> {}]

TInit ==
  /\ l = 1 /\ dev = {}
  /\ store = {} /\ bloom = FALSE
  /\ cur = [p \in Procs |-> NoCall] /\ nb = [p \in Procs |-> 0] /\ lastb = [p \in Procs |-> ""]
  /\ wrote = [p \in Procs |-> {}] /\ rbo = [p \in Procs |-> FALSE]
  /\ lostDel = [k \in Keys |-> FALSE]
  /\ mon = [k \in Keys |-> MonInit(FALSE)]
  /\ nlp = TRUE /\ settled = [k \in Keys |-> FALSE]
  /\ mustSee = [p \in Procs |-> FALSE] /\ clean = [p \in Procs |-> {}]

TReset == IsEvent("Reset") /\ ResetTo(ToSet(Ev.store0), Ev.bloom # 0) /\ UNCHANGED dev

TInv ==
  /\ IsEvent("Inv")
  /\ LET p == Ev.p  kind == Ev.kind  ks == ToSet(Ev.ks)  k == Ev.k IN
     /\ p \in Procs /\ cur[p] = NoCall /\ ks \subseteq Keys
     /\ kind = "Rebuild" => bloom
     /\ cur' = [cur EXCEPT ![p] = [kind |-> kind, k |-> k, ks |-> ks]]
     /\ nb' = [nb EXCEPT ![p] = 0] /\ lastb' = [lastb EXCEPT ![p] = ""]
     /\ wrote' = [wrote EXCEPT ![p] = {}]
     /\ rbo' = [q \in Procs |-> IF q = p THEN (\E r \in Procs : cur[r].kind = "Rebuild")
                                 ELSE IF kind = "Rebuild" /\ cur[q] # NoCall THEN TRUE ELSE rbo[q]]
     /\ mon' = [j \in Keys |-> IF kind # "Rebuild" /\ j \in ks THEN MonInvoke(mon[j], p, MonTag(kind)) ELSE mon[j]]
     /\ settled' = [j \in Keys |-> IF kind = "Del" /\ j = k THEN FALSE ELSE settled[j]]
     /\ mustSee' = [q \in Procs |->
                      IF q = p THEN IsRead(kind) /\ settled[k]
                      ELSE IF kind = "Del" /\ IsRead(cur[q].kind) /\ cur[q].k = k THEN FALSE ELSE mustSee[q]]
     /\ clean' = [q \in Procs |->
                    IF q = p THEN (IF IsPut(kind) THEN {j \in ks : ~DelPending(j)} ELSE {})
                    ELSE IF kind = "Del" THEN clean[q] \ {k} ELSE clean[q]]
  /\ UNCHANGED <<store, bloom, lostDel, nlp, dev>>

\* a backing-store operation, logged inside the backing store's critical section
TBase ==
  /\ IsEvent("Base")
  /\ LET p == Ev.p  ks == ToSet(Ev.ks)  c == cur[p] IN
     /\ p \in Procs /\ nb[p] = 0
     /\ \/ /\ Ev.op \in {"Has", "Get", "GetSize", "View"}            \* read through
           /\ \/ c.kind = "Has" /\ Ev.op = "Has"
              \/ c.kind = "Size" /\ Ev.op = "GetSize"
              \/ c.kind \in {"Get", "View"} /\ Ev.op \in {"Get", "View"}
           /\ ks = {c.k}
           /\ Ev.r = (IF c.k \in store THEN "T" ELSE "F")             \* ground truth
           /\ UNCHANGED <<store, wrote, lostDel>>
        \/ /\ Ev.op \in {"Put", "PutMany"} /\ IsPut(c.kind) /\ Ev.r = "ok"
           /\ ks \subseteq c.ks
           /\ store' = store \cup ks
           /\ wrote' = [wrote EXCEPT ![p] = ks]
           /\ lostDel' = [j \in Keys |-> IF j \in ks THEN FALSE ELSE lostDel[j]]
        \/ /\ Ev.op = "Delete" /\ c.kind = "Del" /\ Ev.r = "ok" /\ ks = {c.k}
           /\ store' = store \ ks
           /\ lostDel' = [j \in Keys |-> IF j \in ks THEN FALSE ELSE lostDel[j]]
           /\ UNCHANGED wrote
     /\ nb' = [nb EXCEPT ![p] = 1] /\ lastb' = [lastb EXCEPT ![p] = Ev.r]
  /\ UNCHANGED <<bloom, cur, rbo, mon, nlp, settled, mustSee, clean, dev>>

\* the enumeration of a build/rebuild snapshots exactly the ground truth
TSnap == /\ IsEvent("Snap") /\ ToSet(Ev.ks) = store
         /\ UNCHANGED <<store, bloom, cur, nb, lastb, wrote, rbo, lostDel, mon, nlp, settled, mustSee, clean, dev>>
TEnum == /\ (IsEvent("EnumEnd") \/ IsEvent("SnapFail"))
         /\ UNCHANGED <<store, bloom, cur, nb, lastb, wrote, rbo, lostDel, mon, nlp, settled, mustSee, clean, dev>>

\* after an accepted deviation the monitor is re-synchronised with the ground truth
Resync(k, p) ==
  Close({[val |-> k \in store,
          st |-> [q \in Procs |-> IF q # p /\ cur[q].kind # "-" /\ cur[q].kind # "Rebuild" /\ k \in cur[q].ks
                                  THEN MonTag(cur[q].kind) ELSE "idle"]]})

InFlightWritten(k, p) == \E q \in Procs \ {p} : IsPut(cur[q].kind) /\ k \in wrote[q]

TRet ==
  /\ IsEvent("Ret")
  /\ LET p == Ev.p  c == cur[p]  k == c.k IN
     /\ p \in Procs /\ c # NoCall
     /\ CASE IsRead(c.kind) ->
               /\ Ev.r \in {"T", "F"}
               /\ nb[p] = 1 => Ev.r = lastb[p]              \* an answer fetched below is passed up unchanged
               /\ LET S == MonReturn(mon[k], p, Ev.r) IN
                  \/ /\ S # {} /\ mon' = [mon EXCEPT ![k] = S] /\ UNCHANGED dev
                  \/ /\ S = {} /\ bloom
                     /\ \E d \in Devs :
                          /\ \/ d = "Dev_C02_BloomAddLag" /\ Ev.r = "F" /\ InFlightWritten(k, p)
                             \/ d = "Dev_C02_BloomToctou" /\ Ev.r = "F" /\ nb[p] = 0 /\ rbo[p] /\ k \in store
                             \/ d = "Dev_C02_BloomToctou" /\ Ev.r = "T" /\ lostDel[k]
                          /\ dev' = dev \cup {d}
                     /\ mon' = [mon EXCEPT ![k] = Resync(k, p)]
               /\ nlp' = (nlp /\ ~(Ev.r = "F" /\ mustSee[p]))
               /\ UNCHANGED <<settled, lostDel>>
          [] IsPut(c.kind) \/ c.kind = "Del" ->
               /\ Ev.r = "ok"
               /\ nb[p] = 1 => lastb[p] = "ok"
               /\ IsPut(c.kind) => \A j \in clean[p] : j \in store      \* put returned => stored (ground truth)
               /\ mon' = [j \in Keys |-> IF j \in c.ks THEN MonReturn(mon[j], p, "w") ELSE mon[j]]
               /\ \A j \in c.ks : mon'[j] # {}
               /\ settled' = [j \in Keys |-> IF j \in clean[p] THEN TRUE ELSE settled[j]]
               /\ lostDel' = [j \in Keys |-> IF c.kind = "Del" /\ j = k /\ nb[p] = 0 /\ k \in store /\ bloom /\ rbo[p]
                                              THEN TRUE ELSE lostDel[j]]
               /\ UNCHANGED <<nlp, dev>>
          [] c.kind = "Rebuild" ->
               /\ Ev.r \in {"ok", "err"}
               /\ UNCHANGED <<mon, nlp, settled, lostDel, dev>>
     /\ cur' = [cur EXCEPT ![p] = NoCall]
     /\ mustSee' = [mustSee EXCEPT ![p] = FALSE] /\ clean' = [clean EXCEPT ![p] = {}]
  /\ UNCHANGED <<store, bloom, nb, lastb, wrote, rbo>>

\* nobody is running: the backing store must hold exactly what the linearized history says
TQuiet ==
  /\ IsEvent("Quiet")
  /\ \A p \in Procs : cur[p] = NoCall
  /\ ToSet(Ev.store) = store
  /\ \A k \in Keys : (\E c \in mon[k] : c.val = (k \in store))
                     \/ ("Dev_C02_BloomToctou" \in Devs /\ lostDel[k])
  /\ mon' = [k \in Keys |-> {c \in mon[k] : c.val = (k \in store)} \cup
                             (IF lostDel[k] THEN MonInit(k \in store) ELSE {})]
  /\ dev' = dev \cup {d \in {"Dev_C02_BloomToctou"} : \E k \in Keys : lostDel[k] /\ ~(\E c \in mon[k] : c.val = (k \in store))}
  /\ UNCHANGED <<store, bloom, cur, nb, lastb, wrote, rbo, lostDel, nlp, settled, mustSee, clean>>

TNext == TReset \/ TInv \/ TBase \/ TSnap \/ TEnum \/ TRet \/ TQuiet
TSpec == TInit /\ [][TNext]_tvars

Linearizable == \A k \in Keys : mon[k] # {}
NoLostPut    == nlp \/ dev # {}
DevReport    == l <= Len(Trace) \/ \A d \in dev : PrintT(<<"DEV_USED", d>>)

TraceConstraint == TLCSet(1, IF l - 1 > TLCGet(1) THEN l - 1 ELSE TLCGet(1))
TracePost == PrintT(<<"TRACE_HWM", TLCGet(1)>>)
=============================================================================
