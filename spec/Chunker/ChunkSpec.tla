------------------------------ MODULE ChunkSpec ------------------------------
(* C06 -- the chunker specification-string grammar accepted by chunker.FromString and the
   bounds every accepted string ADVERTISES (documentation of FromString / NewRabin /
   buzhash constants), written over sequences of one-character strings (TLA+ strings
   cannot be indexed).

     ""  | "default"              fixed size DefaultBlockSize (262144)
     "size-" N                    fixed size N,            1 <= N <= limit
     "rabin"                      rabin, avg = 262144
     "rabin-" A                   rabin, min = A/3, avg = A, max = A + A/2 ; needs
                                  min >= 16 (the rabin window; same rule as the 3-parameter
                                  form) and max <= limit
     "rabin-" m "-" a "-" M       rabin, 16 <= m < a < M <= limit ; each parameter may carry
                                  its label ("min:" "avg:" "max:", value = text after the last ':')
     "buzhash" ["-" anything]     buzhash, min 128 KiB, max 512 KiB
   N, A, m, a, M are strconv.Atoi numbers: optional '+', one or more ASCII digits ('-' can
   never be part of a number because it is the separator).
   Numbers with more than 9 significant digits are "huge": larger than any limit (or not an
   int at all) -- every form rejects them, so their value is never needed (TLC ints are 32 bit). *)
EXTENDS Integers, Sequences, TLC

DefaultBlockSize == 262144
BuzMin == 131072
BuzMax == 524288
RabinWindow == 16

Digits == {"0","1","2","3","4","5","6","7","8","9"}
DV == ("0" :> 0) @@ ("1" :> 1) @@ ("2" :> 2) @@ ("3" :> 3) @@ ("4" :> 4) @@
      ("5" :> 5) @@ ("6" :> 6) @@ ("7" :> 7) @@ ("8" :> 8) @@ ("9" :> 9)

Tail2(s) == IF Len(s) = 0 THEN <<>> ELSE Tail(s)

\* split cs on separator ch (strings.Split semantics: n separators => n+1 parts, parts may be empty)
RECURSIVE SplitAcc(_, _, _, _)
SplitAcc(cs, ch, cur, acc) ==
    IF cs = <<>> THEN Append(acc, cur)
    ELSE IF Head(cs) = ch THEN SplitAcc(Tail(cs), ch, <<>>, Append(acc, cur))
    ELSE SplitAcc(Tail(cs), ch, Append(cur, Head(cs)), acc)
Split(cs, ch) == SplitAcc(cs, ch, <<>>, <<>>)

RECURSIVE StripZeros(_)
StripZeros(ds) == IF Len(ds) > 1 /\ Head(ds) = "0" THEN StripZeros(Tail(ds)) ELSE ds

RECURSIVE DecVal(_, _)
DecVal(ds, acc) == IF ds = <<>> THEN acc ELSE DecVal(Tail(ds), 10 * acc + DV[Head(ds)])

\* strconv.Atoi on a token without '-' : [ok, huge, v, digits]
Atoi(tok) ==
    LET body == IF tok # <<>> /\ Head(tok) = "+" THEN Tail(tok) ELSE tok
        good == body # <<>> /\ \A i \in 1..Len(body) : body[i] \in Digits
        sig  == IF good THEN StripZeros(body) ELSE <<>>
    IN  IF ~good THEN [ok |-> FALSE, huge |-> FALSE, v |-> 0, sig |-> <<>>]
        ELSE IF Len(sig) > 9 THEN [ok |-> TRUE, huge |-> TRUE, v |-> 0, sig |-> sig]
        ELSE [ok |-> TRUE, huge |-> FALSE, v |-> DecVal(sig, 0), sig |-> sig]

\* lexicographic <= on digit sequences of equal length
RECURSIVE DigLE(_, _)
DigLE(a, b) == IF a = <<>> THEN TRUE
               ELSE IF DV[Head(a)] < DV[Head(b)] THEN TRUE
               ELSE IF DV[Head(a)] > DV[Head(b)] THEN FALSE
               ELSE DigLE(Tail(a), Tail(b))

Reject(why) == [ok |-> FALSE, kind |-> "none", min |-> 0, avg |-> 0, max |-> 0, why |-> why]
Accept(kind, mn, av, mx) == [ok |-> TRUE, kind |-> kind, min |-> mn, avg |-> av, max |-> mx, why |-> ""]

cDefault == <<"d","e","f","a","u","l","t">>
cSize    == <<"s","i","z","e">>
cRabin   == <<"r","a","b","i","n">>
cBuzhash == <<"b","u","z","h","a","s","h">>
cMin == <<"m","i","n">>
cAvg == <<"a","v","g">>
cMax == <<"m","a","x">>

RabinAvg(a, limit) ==        \* the one-parameter form; a is an Atoi result
    IF ~a.ok THEN Reject("atoi")
    ELSE IF a.huge THEN Reject("sizemax")
    ELSE IF a.v + (a.v \div 2) > limit THEN Reject("sizemax")
    ELSE IF a.v \div 3 < RabinWindow THEN Reject("rabinmin")
    ELSE Accept("rabin", a.v \div 3, a.v, a.v + (a.v \div 2))

\* one labelled parameter of the 3-parameter rabin form
Param(part, label) ==
    LET sub == Split(part, ":")
    IN  IF Len(sub) > 1 /\ sub[1] # label THEN [ok |-> FALSE, huge |-> FALSE, v |-> 0, sig |-> <<>>]
        ELSE Atoi(sub[Len(sub)])

Rabin3(p1, p2, p3, limit) ==
    LET mn == Param(p1, cMin)  av == Param(p2, cAvg)  mx == Param(p3, cMax)
    IN  IF ~mn.ok \/ ~av.ok \/ ~mx.ok THEN Reject("atoi-or-label")
        ELSE IF mn.huge \/ av.huge \/ mx.huge THEN Reject("order-or-sizemax")
        ELSE IF mn.v < RabinWindow THEN Reject("rabinmin")
        ELSE IF mn.v >= av.v \/ av.v >= mx.v THEN Reject("order")
        ELSE IF mx.v > limit THEN Reject("sizemax")
        ELSE Accept("rabin", mn.v, av.v, mx.v)

ParseSpec(cs, limit) ==
    IF cs = <<>> \/ cs = cDefault THEN Accept("size", DefaultBlockSize, DefaultBlockSize, DefaultBlockSize)
    ELSE LET parts == Split(cs, "-")
             name  == parts[1]
         IN  IF name = cSize THEN
                 IF Len(parts) # 2 THEN Reject("format")
                 ELSE LET n == Atoi(parts[2])
                      IN  IF ~n.ok THEN Reject("atoi")
                          ELSE IF n.huge THEN Reject("sizemax")
                          ELSE IF n.v <= 0 THEN Reject("size0")
                          ELSE IF n.v > limit THEN Reject("sizemax")
                          ELSE Accept("size", n.v, n.v, n.v)
             ELSE IF name = cBuzhash THEN Accept("buzhash", BuzMin, 0, BuzMax)
             ELSE IF name = cRabin THEN
                 CASE Len(parts) = 1 -> RabinAvg([ok |-> TRUE, huge |-> FALSE, v |-> DefaultBlockSize, sig |-> <<>>], limit)
                   [] Len(parts) = 2 -> RabinAvg(Atoi(parts[2]), limit)
                   [] Len(parts) = 4 -> Rabin3(parts[2], parts[3], parts[4], limit)
                   [] OTHER -> Reject("format")
             ELSE Reject("unknown")

(* ---- as-built alternatives of the two recorded parser defects (named deviations) -------
   Dev_C06_RabinSmallAvg : "rabin-A" with A/3 < 16 is accepted (min A/3, max A+A/2) although the
                           rabin library needs min >= 16 (MinSize - windowSize underflows).
   Dev_C06_RabinHugeAvg  : "rabin-A" with A an int64 in [6148914599610548225, 2^63-1]: the
                           float32 limit test overflows on amd64 and FromString panics
                           (makeslice) instead of returning ErrSizeMax.                      *)
HugeLo == <<"6","1","4","8","9","1","4","5","9","9","6","1","0","5","4","8","2","2","5">>
HugeHi == <<"9","2","2","3","3","7","2","0","3","6","8","5","4","7","7","5","8","0","7">>
NoAlt == [dev |-> "", outcome |-> "", min |-> 0, max |-> 0]
AsBuilt(cs, limit) ==
    LET parts == Split(cs, "-")
    IN  IF cs # <<>> /\ parts[1] = cRabin /\ Len(parts) = 2 THEN
            LET a == Atoi(parts[2])
            IN  IF a.ok /\ ~a.huge /\ a.v + (a.v \div 2) <= limit /\ a.v \div 3 < RabinWindow
                    THEN [dev |-> "Dev_C06_RabinSmallAvg", outcome |-> "accept",
                          min |-> a.v \div 3, max |-> a.v + (a.v \div 2)]
                ELSE IF a.ok /\ a.huge /\ Len(a.sig) = 19 /\ DigLE(HugeLo, a.sig) /\ DigLE(a.sig, HugeHi)
                    THEN [dev |-> "Dev_C06_RabinHugeAvg", outcome |-> "panic", min |-> 0, max |-> 0]
                ELSE NoAlt
        ELSE NoAlt

\* decimal rendering of a natural as a character sequence (used by the generators)
RECURSIVE DecAcc(_, _)
DecAcc(n, acc) == LET d == CHOOSE c \in Digits : DV[c] = n % 10
                  IN  IF n < 10 THEN <<d>> \o acc ELSE DecAcc(n \div 10, <<d>> \o acc)
Dec(n) == DecAcc(n, <<>>)
=============================================================================
