------------------------------- MODULE Chunker -------------------------------
(* C06 -- a chunker (Splitter) reading an input of L bytes through an io.Reader that may
   fragment its answers arbitrarily, and emitting chunks.

   Two machines share the state and the invariants:

   kind = "size"  the fixed-size splitter of chunker/splitting.go at the grain of its critical
                  section: NextBytes = io.ReadFull into a buffer of `hi` bytes, i.e. a loop of
                  reader.Read(want = hi - buf) calls.  Fully deterministic given the reader's
                  answers (the "fragmentation script"), which are the environment's choice:
                  every Read returns k in 0..want bytes, possibly io.EOF together with the
                  last data, possibly (0, nil); after an EOF only (0, EOF).
   kind = "any"   the property itself for content-defined splitters (rabin, buzhash) whose
                  cut points are not modelled: Emit(n) is any n that the property allows.
                  (Also used for size-N in trace validation: lo = hi = N.)

   Bytes are not modelled: chunk i is the input range starting at the sum of the previous
   lengths (the harness compares the bytes of every chunk with that range and logs `eq`).

   Sessions.  A consumer (a DAG builder) keeps the chunks it was given while it goes on calling
   NextBytes and while it chunks FURTHER streams with other splitter instances of any kind
   (NewRun).  An emitted chunk is a value handed over to the consumer: nothing a splitter --
   this one or another one -- does later may change it.  heldN / heldB count the chunks (and
   their bytes) of the earlier runs of the session that the consumer still holds, sessL is the
   total input length of those runs; Recheck is the consumer re-reading EVERYTHING it holds
   (earlier runs' chunks and the current run's): the only observation the property allows is
   "all of them still equal the input ranges they were cut from", so that the retained chunks
   of every finished run still concatenate to its input (HeldLossless) at any later time. *)
EXTENDS Integers, Sequences, FiniteSets, TLC, Json, ChunkSpec

CONSTANTS MaxL,        \* input lengths 0..MaxL
          Cfgs,        \* set of [kind, lo, hi] : advertised minimum / maximum chunk size
          ZeroBudget,  \* how many (0, nil) reads the reader may interleave per run
          Limit,       \* ChunkSizeLimit
          MaxHeld      \* bound on the chunks carried over from earlier runs of a session (model checking only)

VARIABLES cfg,      \* [kind, lo, hi]
          L,        \* input length
          rpos,     \* bytes the reader has handed out
          buf,      \* bytes read but not yet emitted
          emitted,  \* sequence of emitted chunk lengths
          zeros,    \* (0,nil) reads so far
          reof,     \* the reader has returned io.EOF (it keeps doing so)
          eofNow,   \* the running ReadFull has seen io.EOF
          serr,     \* sizeSplitterv2.err is set (sticky EOF)
          pc,       \* "idle" (between NextBytes calls) | "reading" (inside one)
          ends,     \* number of NextBytes calls that returned io.EOF
          heldN,    \* session: chunks of earlier runs (other splitter instances) the consumer still holds
          heldB,    \* session: total length of those chunks
          sessL     \* session: total input length of those earlier (finished) runs
sess == <<heldN, heldB, sessL>>
vars == <<cfg, L, rpos, buf, emitted, zeros, reof, eofNow, serr, pc, ends, sess>>

RECURSIVE Sum(_)
Sum(s) == IF s = <<>> THEN 0 ELSE Head(s) + Sum(Tail(s))
Min2(a, b) == IF a < b THEN a ELSE b

Init == /\ cfg \in Cfgs /\ L \in 0..MaxL
        /\ rpos = 0 /\ buf = 0 /\ emitted = <<>> /\ zeros = 0
        /\ reof = FALSE /\ eofNow = FALSE /\ serr = FALSE /\ pc = "idle" /\ ends = 0
        /\ heldN = 0 /\ heldB = 0 /\ sessL = 0

(* ---- the reader (environment) ------------------------------------------------------- *)
\* legal answers (k, eof) of reader.Read(p) with len(p) = want, want >= 1
ReaderAnswer(want, k, eof) ==
    IF reof THEN k = 0 /\ eof
    ELSE /\ k \in 0..Min2(want, L - rpos)
         /\ eof \in BOOLEAN
         /\ eof => rpos + k = L                 \* EOF only when everything has been delivered
         /\ (k = 0 /\ ~eof) => zeros < ZeroBudget

ReadEffect(k, eof) ==
    /\ rpos' = rpos + k /\ buf' = buf + k
    /\ reof' = (reof \/ eof) /\ eofNow' = eof
    /\ zeros' = IF k = 0 /\ ~eof THEN zeros + 1 ELSE zeros

(* ---- NextBytes ---------------------------------------------------------------------- *)
\* NextBytes is called.  With the sticky error set it returns io.EOF at once (no read).
Call == /\ pc = "idle" /\ ends < 2
        /\ IF serr THEN ends' = ends + 1 /\ UNCHANGED <<pc, eofNow>>
                   ELSE pc' = "reading" /\ eofNow' = FALSE /\ UNCHANGED ends
        /\ UNCHANGED <<cfg, L, rpos, buf, emitted, zeros, reof, serr, sess>>

\* the amount the splitter asks for in its next reader.Read
Want == IF cfg.kind = "size" THEN cfg.hi - buf ELSE 0

\* one reader.Read inside ReadFull (size machine: exactly the missing part of the buffer)
Read(k, eof) ==
    /\ pc = "reading" /\ cfg.kind = "size" /\ ~eofNow /\ buf < cfg.hi
    /\ ReaderAnswer(Want, k, eof) /\ ReadEffect(k, eof)
    /\ UNCHANGED <<cfg, L, emitted, serr, pc, ends, sess>>

\* what the property allows for a chunk of n bytes cut from b buffered bytes
\* (the previously emitted chunk is no longer the last one, so it must respect lo..hi)
Allowed(n, b) ==
    /\ 1 <= n /\ n <= b /\ n <= Limit
    /\ emitted # <<>> => (cfg.lo <= emitted[Len(emitted)] /\ emitted[Len(emitted)] <= cfg.hi)

\* NextBytes returns a chunk of n bytes after the reader delivered k more bytes (k = 0 in the
\* fine-grained size machine, where every Read is its own step)
EmitAfter(k, n) ==
    /\ pc = "reading"
    /\ 0 <= k /\ k <= L - rpos
    /\ Allowed(n, buf + k)
    /\ cfg.kind = "size" =>
          \/ n = cfg.hi /\ buf + k = cfg.hi                 \* ReadFull filled the buffer (an EOF seen with the last bytes is dropped)
          \/ eofNow /\ n = buf + k /\ n < cfg.hi            \* io.ErrUnexpectedEOF: short last chunk, err := io.EOF
    /\ emitted' = Append(emitted, n)
    /\ buf' = buf + k - n /\ rpos' = rpos + k
    /\ serr' = (serr \/ (cfg.kind = "size" /\ n < cfg.hi))
    /\ pc' = "idle"
    /\ UNCHANGED <<cfg, L, zeros, reof, eofNow, ends, sess>>
Emit(n) == EmitAfter(0, n)

\* NextBytes returns io.EOF: nothing is buffered and the input is exhausted
EndAfter(k) ==
    /\ pc = "reading"
    /\ rpos + k = L /\ buf + k = 0
    /\ cfg.kind = "size" => eofNow
    /\ ends' = ends + 1 /\ pc' = "idle" /\ rpos' = rpos + k
    /\ UNCHANGED <<cfg, L, buf, emitted, zeros, reof, eofNow, serr, sess>>
End == EndAfter(0)

\* the abstract machine: several reader answers aggregated (trace validation logs rpos per event)
ReadMany(k, eof) ==
    /\ pc = "reading" /\ cfg.kind = "any"
    /\ k \in 0..(L - rpos) /\ eof \in BOOLEAN /\ (eof => rpos + k = L) /\ (reof => eof /\ k = 0)
    /\ (k = 0 /\ ~eof) => zeros < ZeroBudget
    /\ ReadEffect(k, eof)
    /\ UNCHANGED <<cfg, L, emitted, serr, pc, ends, sess>>

(* ---- sessions: further splitter instances while earlier chunks are retained ------------- *)
\* the run-local state of a freshly built splitter instance over a fresh reader
FreshRun == /\ rpos' = 0 /\ buf' = 0 /\ emitted' = <<>> /\ zeros' = 0 /\ reof' = FALSE
            /\ eofNow' = FALSE /\ serr' = FALSE /\ pc' = "idle" /\ ends' = 0
\* the consumer is done with the current instance (it reported io.EOF, or it was never used) and
\* either keeps all its chunks together with the older ones, or drops everything it holds
Retain(drop) ==
    /\ pc = "idle" /\ (ends > 0 \/ emitted = <<>>)
    /\ IF drop THEN heldN' = 0 /\ heldB' = 0 /\ sessL' = 0
               ELSE /\ heldN + Len(emitted) <= MaxHeld
                    /\ heldN' = heldN + Len(emitted)
                    /\ heldB' = heldB + Sum(emitted)
                    /\ sessL' = sessL + (IF ends > 0 THEN L ELSE 0)
\* another splitter instance (any accepted configuration c) is built over an input of len bytes
NewRun(c, len, drop) == Retain(drop) /\ cfg' = c /\ L' = len /\ FreshRun
\* the consumer re-reads every chunk it holds (earlier runs' and the current run's, also in the
\* middle of a NextBytes of anybody) and finds n chunks / b bytes still equal to the input ranges
\* they were cut from.  Allowed: all of them.
Recheck(n, b) == /\ n = heldN + Len(emitted) /\ b = heldB + Sum(emitted)
                 /\ UNCHANGED vars

Next == \/ Call
        \/ \E k \in 0..MaxL, eof \in BOOLEAN : Read(k, eof) \/ ReadMany(k, eof)
        \/ \E n \in 1..MaxL : Emit(n)
        \/ End
        \/ \E c \in Cfgs, len \in 0..MaxL, drop \in BOOLEAN : NewRun(c, len, drop)
Spec == Init /\ [][Next]_vars

(* ---- the property -------------------------------------------------------------------- *)
TypeOK == /\ rpos \in 0..L /\ buf \in 0..L /\ pc \in {"idle", "reading"} /\ ends \in 0..2
          /\ heldN \in 0..MaxHeld /\ heldB \in Nat /\ sessL \in Nat
          /\ \A i \in 1..Len(emitted) : emitted[i] \in 1..L
Conservation     == Sum(emitted) + buf = rpos                 \* nothing invented, nothing dropped on the way
Lossless         == ends > 0 => Sum(emitted) = L              \* io.EOF only after the whole input was emitted
NoEmpty          == \A i \in 1..Len(emitted) : emitted[i] >= 1
WithinLimit      == \A i \in 1..Len(emitted) : emitted[i] <= Limit
MinMaxRespected  == \A i \in 1..Len(emitted) : i < Len(emitted) => (cfg.lo <= emitted[i] /\ emitted[i] <= cfg.hi)
\* the size machine: all chunks but the last are exactly hi, the last is the remainder
SizeExact        == cfg.kind = "size" =>
                       /\ \A i \in 1..Len(emitted) : emitted[i] = Min2(cfg.hi, L - (i - 1) * cfg.hi)
                       /\ ends > 0 => Len(emitted) = (L + cfg.hi - 1) \div cfg.hi
\* the chunks retained from the finished runs of a session still add up to exactly their inputs
\* (with Recheck: and still ARE those inputs), none of them empty or above the limit
HeldLossless     == heldB = sessL
HeldBounded      == heldN <= heldB /\ heldB <= heldN * Limit
\* the size machine never asks the reader for more than it will emit next
NoOverRead       == cfg.kind = "size" => buf <= cfg.hi
=============================================================================
