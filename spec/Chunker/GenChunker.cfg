SPECIFICATION GSpec
CONSTANTS MaxL = 7
          Cfgs <- GCfgs
          ZeroBudget = 1
          Limit = 2096896
          MaxHeld = 0
INVARIANTS Emit2 SizeExact Lossless
CHECK_DEADLOCK FALSE
