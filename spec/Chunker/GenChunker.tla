------------------------------ MODULE GenChunker ------------------------------
(* Phase G: every complete run of the fixed-size machine -- every input length, every size and
   every reader fragmentation script (short reads, (0,nil) reads, EOF together with data, EOF
   alone) -- printed as the sequence of observable events:
     <<"R", want, k, eof>>   the splitter asked the reader for `want` bytes, the script answers k / eof
     <<"E", n>>              NextBytes returned a chunk of n bytes
     <<"X">>                 NextBytes returned io.EOF
   The run ends after the second io.EOF (NextBytes is called once more after the first). *)
EXTENDS Chunker
VARIABLE hist
gvars == <<vars, hist>>
GCfgs == {[kind |-> "size", lo |-> s, hi |-> s] : s \in 1..3}

GInit == Init /\ hist = <<>>
GNext == \/ Call /\ hist' = (IF serr THEN Append(hist, <<"X">>) ELSE hist)
         \/ \E k \in 0..MaxL, eof \in BOOLEAN : Read(k, eof) /\ hist' = Append(hist, <<"R", Want, k, eof>>)
         \/ \E n \in 1..MaxL : Emit(n) /\ hist' = Append(hist, <<"E", n>>)
         \/ End /\ hist' = Append(hist, <<"X">>)
GSpec == GInit /\ [][GNext]_gvars

Emit2 == ends # 2 \/ PrintT(<<"BEHAVIOUR", ToJson([size |-> cfg.hi, L |-> L, ev |-> hist])>>)
=============================================================================
