SPECIFICATION Spec
CONSTANTS Limit = 2096896
INVARIANTS Emit
CHECK_DEADLOCK FALSE
