--------------------------- MODULE GenChunkerParse ---------------------------
(* Phase G (parser): class-product enumeration of specification strings -- every form of the
   grammar with boundary numbers, label variants and malformed neighbours -- plus the strings of
   the seeded grammar fuzzer (fuzz.ndjson, written by checks/C06.py).  For every string the
   ideal verdict ParseSpec and, where a recorded defect applies, its as-built alternative
   are printed; the harness calls chunker.FromString and compares accept/reject, the splitter
   type and its actual min/max with the advertised ones. *)
EXTENDS ChunkSpec, Sequences, Json
CONSTANT Limit
VARIABLE case

Fuzz == ndJsonDeserialize("fuzz.ndjson")

Join(a, b) == a \o <<"-">> \o b
Nines(n) == [i \in 1..n |-> "9"]

\* numbers around every threshold of the grammar
BoundaryInts == {0, 1, 2, 15, 16, 17, 18, 30, 45, 46, 47, 48, 49, 50, 51, 64, 262144,
                 1397930, 1397931, 1397932, 2096895, 2096896, 2096897, 999999999}
Weird == { <<>>, <<"x">>, <<"+">>, <<"+","5","0">>, <<"0","5","0">>, <<"0","0","0">>, <<"5","x">>, <<" ","5">>,
           <<"5","_","0">>, <<"0","x","4","0">>, <<"5",".","0">>, <<"1","e","3">>,
           Nines(10), Nines(19), Nines(25), <<"0","0","0","0","0","0","0","0","0","0","4","8">>,
           HugeLo, HugeHi,
           <<"6","1","4","8","9","1","4","5","9","9","6","1","0","5","4","8","2","2","4">>,   \* HugeLo - 1
           <<"9","2","2","3","3","7","2","0","3","6","8","5","4","7","7","5","8","0","8">>,   \* 2^63
           <<"7","0","0","0","0","0","0","0","0","0","0","0","0","0","0","0","0","0","0">>,
           <<"+","7","0","0","0","0","0","0","0","0","0","0","0","0","0","0","0","0","0","0">>,
           <<"1","0","0","0","0","0","0","0","0","0","0","0","0","0","0","0","0","0","0">> }
Tokens == {Dec(n) : n \in BoundaryInts} \cup Weird

Lbl(l, t) == l \o <<":">> \o t
\* label variants of a (min, avg, max) triple
Triple(a, b, c, v) ==
    CASE v = 1 -> Join(Join(Join(cRabin, a), b), c)
      [] v = 2 -> Join(Join(Join(cRabin, Lbl(cMin, a)), Lbl(cAvg, b)), Lbl(cMax, c))
      [] v = 3 -> Join(Join(Join(cRabin, Lbl(cAvg, a)), b), c)                  \* wrong first label
      [] v = 4 -> Join(Join(Join(cRabin, a), Lbl(cMin, <<"x">> \o <<":">> \o b)), c)   \* wrong second label, extra colon
      [] v = 5 -> Join(Join(Join(cRabin, Lbl(cMin, <<"q">> \o <<":">> \o a)), b), Lbl(cMax, c))  \* "min:q:16" : text after the LAST colon counts
      [] v = 6 -> Join(Join(Join(cRabin, a), b), Lbl(<<>>, c))                   \* ":18" empty label
TripleCases ==
    { Triple(Dec(a), Dec(b), Dec(c), v) :
        a \in {0, 15, 16, 17}, b \in {16, 17, 18, 2096895}, c \in {17, 18, 19, 2096896, 2096897}, v \in 1..6 }
    \cup { Triple(a, b, c, 1) : a \in {Dec(16), <<>>, Nines(12)}, b \in {Dec(17), <<"x">>, Nines(12)}, c \in {Dec(18), <<"+","1","8">>, Nines(12), Nines(20)} }

Fixed == { <<>>, cDefault, Join(cDefault, Dec(1)), cSize, cRabin, cBuzhash, <<"-">>, <<"-","-">>,
           <<"f","o","o">>, Join(<<"f","o","o">>, Dec(1)), Join(<<"S","i","z","e">>, Dec(1)),
           <<"-">> \o Join(cSize, Dec(1)), cSize \o Dec(1), cRabin \o Dec(48), <<" ">> \o cRabin,
           Join(cBuzhash, <<"x">>), Join(Join(cBuzhash, Dec(1)), Dec(2)), cBuzhash \o <<"1">>,
           Join(Join(cRabin, Dec(16)), Dec(32)),                                       \* 3 parts
           Join(Join(Join(Join(cRabin, Dec(16)), Dec(32)), Dec(64)), Dec(128)),        \* 5 parts
           Join(Join(Join(cRabin, Dec(16)), Dec(32)), Dec(64)) \o <<"-">> }

CaseSpace == Fixed
             \cup { Join(cSize, t) : t \in Tokens }
             \cup { Join(Join(cSize, t), Dec(1)) : t \in {Dec(5), <<>>} }
             \cup { Join(cRabin, t) : t \in Tokens }
             \cup TripleCases
             \cup { Fuzz[i].s : i \in 1..Len(Fuzz) }

Init == case \in CaseSpace
Next == UNCHANGED case
Spec == Init /\ [][Next]_case

Emit == PrintT(<<"BEHAVIOUR", ToJson([spec |-> case, exp |-> ParseSpec(case, Limit), alt |-> AsBuilt(case, Limit)])>>)
=============================================================================
