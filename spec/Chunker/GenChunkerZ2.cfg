SPECIFICATION GSpec
CONSTANTS MaxL = 7
          Cfgs <- GCfgs
          ZeroBudget = 2
          Limit = 2096896
          MaxHeld = 0
INVARIANTS Emit2 SizeExact Lossless
CHECK_DEADLOCK FALSE
