SPECIFICATION Spec
CONSTANTS MaxL = 7
          Cfgs <- MCCfgs
          ZeroBudget = 2
          Limit = 4
INVARIANTS TypeOK Conservation Lossless NoEmpty WithinLimit MinMaxRespected SizeExact NoOverRead
CHECK_DEADLOCK FALSE
