SPECIFICATION MCSpec
CONSTANTS MaxL = 7
          Cfgs <- MCCfgs
          ZeroBudget = 2
          Limit = 4
          MaxHeld = 2
INVARIANTS TypeOK Conservation Lossless NoEmpty WithinLimit MinMaxRespected SizeExact NoOverRead HeldLossless HeldBounded
CHECK_DEADLOCK FALSE
