------------------------------ MODULE MCChunker ------------------------------
(* exhaustive configuration: the fixed-size machine for sizes 1..3 and the property machine
   for bounds 2..3, inputs up to MaxL bytes, every reader fragmentation; sessions: after a
   finished run further instances of every configuration over inputs up to MCLaterL bytes while
   up to MaxHeld chunks of the earlier runs are retained (or everything is dropped) *)
EXTENDS Chunker
MCCfgs == {[kind |-> "size", lo |-> s, hi |-> s] : s \in 1..3} \cup {[kind |-> "any", lo |-> 2, hi |-> 3]}
MCLaterL == 4
MCNext == \/ Call
          \/ \E k \in 0..MaxL, eof \in BOOLEAN : Read(k, eof) \/ ReadMany(k, eof)
          \/ \E n \in 1..MaxL : Emit(n)
          \/ End
          \/ \E c \in Cfgs, len \in 0..MCLaterL, drop \in BOOLEAN : NewRun(c, len, drop)
MCSpec == Init /\ [][MCNext]_vars
=============================================================================
