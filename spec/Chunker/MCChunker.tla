------------------------------ MODULE MCChunker ------------------------------
(* exhaustive configuration: the fixed-size machine for sizes 1..3 and the property machine
   for bounds 2..3, inputs up to MaxL bytes, every reader fragmentation *)
EXTENDS Chunker
MCCfgs == {[kind |-> "size", lo |-> s, hi |-> s] : s \in 1..3} \cup {[kind |-> "any", lo |-> 2, hi |-> 3]}
=============================================================================
