SPECIFICATION TSpec
CONSTANTS MaxL = 16777216
          Cfgs = {}
          ZeroBudget = 0
          Limit = 2096896
          MaxHeld = 1000000
          Devs = @DEVS@
INVARIANTS TTypeOK Conservation Lossless NoEmpty TWithinLimit TMinMaxRespected DeterministicCuts HeldLossless DevReport
CONSTRAINT TraceConstraint
POSTCONDITION TracePost
CHECK_DEADLOCK FALSE
