----------------------------- MODULE TraceChunker -----------------------------
(* Phase T: recorded runs of the real splitters (every kind FromString can build) must be
   behaviours of the property machine (kind "any") of Chunker, instantiated per input with the
   bounds that ParseSpec ADVERTISES for the logged specification string.

   Events (one per observable step of the harness):
     Reject{spec}                       FromString returned an error        -> ParseSpec must reject
     Panic{spec}                        FromString panicked                 -> only as a named deviation
     Input{spec, L, kind, min, max, drop}  FromString accepted; kind/min/max = what the built splitter
                                        really uses (in-package inspection); a new input of L bytes
     Run{drop}                          a fresh splitter over the same input, another fragmentation
     Emit{n, rpos, eq}                  NextBytes returned n bytes equal (eq) to the next input range,
                                        the reader had handed out rpos bytes by then
     End{rpos}                          NextBytes returned io.EOF (logged twice: it is called again)
     Check{n, bytes}                    the harness KEEPS every chunk it was given (all runs, all inputs, all
                                        kinds of splitter of the session; `drop` on Input/Run = it let go of all
                                        of them before building the next instance) and re-compares all of them
                                        with the input ranges they were cut from after every run (and after
                                        every NextBytes of concurrently live instances); n / bytes = the kept
                                        chunks that were equal at EVERY comparison so far -> must be all of them
   All runs of one Input must cut at identical offsets (cuts is fixed by the first run).
   Runs of concurrently live splitter instances (NextBytes calls interleaved at random) are logged
   projected per instance: the specification of several instances is the product of independent
   copies of this machine (no shared state), so a joint behaviour is legal iff every projection is;
   the retained chunks of all of them are one session.
   Call / ReadMany are silent steps determined by the next event.                              *)
EXTENDS Chunker

CONSTANT Devs
Trace == ndJsonDeserialize("trace.ndjson")
VARIABLES l,        \* next event
          cuts,     \* [set |-> BOOLEAN, s |-> chunk lengths of the first completed run of this input]
          devrun,   \* the current input runs under Dev_C06_RabinSmallAvg
          dev       \* deviations used so far
tvars == <<vars, l, cuts, devrun, dev>>
ASSUME TLCSet(1, 0)

Ev == Trace[l]
IsEvent(e) == l <= Len(Trace) /\ Trace[l].ev = e /\ l' = l + 1
Pending(es) == l <= Len(Trace) /\ Trace[l].ev \in es
NoCuts == [set |-> FALSE, s |-> <<>>]
RunReset == Retain(Ev.drop) /\ FreshRun     \* the finished instance's chunks stay with the consumer

TInit == /\ l = 1 /\ cuts = NoCuts /\ devrun = FALSE /\ dev = {}
         /\ cfg = [kind |-> "any", lo |-> 1, hi |-> 1] /\ L = 0
         /\ rpos = 0 /\ buf = 0 /\ emitted = <<>> /\ zeros = 0 /\ reof = FALSE
         /\ eofNow = FALSE /\ serr = FALSE /\ pc = "idle" /\ ends = 0
         /\ heldN = 0 /\ heldB = 0 /\ sessL = 0

(* ---- parser verdicts ---------------------------------------------------------------- *)
TReject == /\ IsEvent("Reject") /\ ~ParseSpec(Ev.spec, Limit).ok
           /\ UNCHANGED <<vars, cuts, devrun, dev>>

TInput == /\ IsEvent("Input")
          /\ LET p == ParseSpec(Ev.spec, Limit)
             IN  /\ p.ok /\ Ev.kind = p.kind /\ Ev.min = p.min /\ Ev.max = p.max     \* built = advertised
                 /\ cfg' = [kind |-> "any", lo |-> p.min, hi |-> p.max]
          /\ L' = Ev.L /\ cuts' = NoCuts /\ devrun' = FALSE /\ RunReset /\ UNCHANGED dev

TRun == /\ IsEvent("Run") /\ RunReset /\ UNCHANGED <<cfg, L, cuts, devrun, dev>>

(* ---- a run -------------------------------------------------------------------------- *)
TCall == /\ Pending({"Emit", "End"}) /\ pc = "idle" /\ Call
         /\ UNCHANGED <<l, cuts, devrun, dev>>
TReadMany == /\ Pending({"Emit", "End"}) /\ pc = "reading" /\ Ev.rpos > rpos
             /\ ReadMany(Ev.rpos - rpos, FALSE)
             /\ UNCHANGED <<l, cuts, devrun, dev>>
\* fragmentation independence: the k-th cut of every run equals the k-th cut of the first run
SameCut(n) == cuts.set => (Len(emitted) < Len(cuts.s) /\ cuts.s[Len(emitted) + 1] = n)
TEmit == /\ IsEvent("Emit") /\ Ev.rpos = rpos /\ Ev.eq
         /\ SameCut(Ev.n)
         /\ Emit(Ev.n)
         /\ UNCHANGED <<cuts, devrun, dev>>
TEnd == /\ IsEvent("End") /\ Ev.rpos = rpos
        /\ cuts.set => emitted = cuts.s
        /\ End
        /\ cuts' = [set |-> TRUE, s |-> emitted]
        /\ UNCHANGED <<devrun, dev>>

\* the consumer re-read everything it holds: all of it must still be what was cut from the inputs
TCheck == /\ IsEvent("Check") /\ Recheck(Ev.n, Ev.bytes)
          /\ UNCHANGED <<cuts, devrun, dev>>

(* ---- named deviations (open findings) ---------------------------------------------------
   Dev_C06_RabinSmallAvg: "rabin-A" with A/3 < 16 is accepted; the splitter then never cuts:
   the whole input comes back as ONE chunk, whatever its size.
   Dev_C06_RabinHugeAvg: "rabin-A", A in the int64 range where the float32 limit test overflows:
   FromString panics.                                                                        *)
TInputDev ==
    /\ "Dev_C06_RabinSmallAvg" \in Devs
    /\ IsEvent("Input")
    /\ ~ParseSpec(Ev.spec, Limit).ok
    /\ LET a == AsBuilt(Ev.spec, Limit)
       IN  /\ a.dev = "Dev_C06_RabinSmallAvg" /\ Ev.kind = "rabin" /\ Ev.min = a.min /\ Ev.max = a.max
           /\ cfg' = [kind |-> "any", lo |-> a.min, hi |-> a.max]
    /\ L' = Ev.L /\ cuts' = NoCuts /\ devrun' = TRUE /\ RunReset
    /\ dev' = dev \cup {"Dev_C06_RabinSmallAvg"}
TEmitDev ==
    /\ devrun /\ IsEvent("Emit") /\ pc = "reading"
    /\ emitted = <<>> /\ Ev.n = L /\ Ev.rpos = L /\ Ev.eq /\ L > 0
    /\ emitted' = <<L>> /\ rpos' = L /\ buf' = 0 /\ pc' = "idle"
    /\ UNCHANGED <<cfg, L, zeros, reof, eofNow, serr, ends, sess, cuts, devrun, dev>>
TPanicDev ==
    /\ "Dev_C06_RabinHugeAvg" \in Devs
    /\ IsEvent("Panic")
    /\ ~ParseSpec(Ev.spec, Limit).ok /\ AsBuilt(Ev.spec, Limit).dev = "Dev_C06_RabinHugeAvg"
    /\ dev' = dev \cup {"Dev_C06_RabinHugeAvg"}
    /\ UNCHANGED <<vars, cuts, devrun>>

TNext == TReject \/ TInput \/ TRun \/ TCall \/ TReadMany \/ TEmit \/ TEnd \/ TCheck
         \/ TInputDev \/ TEmitDev \/ TPanicDev
TSpec == TInit /\ [][TNext]_tvars

(* ---- invariants (the property; the deviating input is exempt from the two it breaks) ---- *)
TTypeOK          == rpos \in 0..L /\ buf \in 0..L /\ pc \in {"idle", "reading"} /\ ends \in 0..2
TWithinLimit     == devrun \/ WithinLimit
TMinMaxRespected == devrun \/ MinMaxRespected
IsPrefix(a, b)   == Len(a) <= Len(b) /\ \A i \in 1..Len(a) : a[i] = b[i]
DeterministicCuts == cuts.set => IsPrefix(emitted, cuts.s)
DevReport == l <= Len(Trace) \/ \A d \in dev : PrintT(<<"DEV_USED", d>>)

TraceConstraint == TLCSet(1, IF l - 1 > TLCGet(1) THEN l - 1 ELSE TLCGet(1))
TracePost == PrintT(<<"TRACE_HWM", TLCGet(1)>>)
=============================================================================
