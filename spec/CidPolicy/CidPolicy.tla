------------------------------ MODULE CidPolicy ------------------------------
(* C04, validator half.  The documented rule of package verifcid, written down from the package
   documentation and the comments on DefaultAllowlist / the Default*DigestSize constants / the
   allowlist constructors -- not from the control flow of ValidateCid:

     * A CID is accepted iff its hash function is allowed by the allowlist AND its digest length
       lies within [MinDigestSize, MaxDigestSize] of the allowlist for that function.
     * Default allowlist: sha2-256, sha2-512, shake-256, dbl-sha2-256, blake3, identity, the four
       sha3 and the four keccak variants, sha1 ("not really secure but still useful for git"), and
       the blake2b / blake2s variants whose output is at least the minimum digest size (20 bytes).
     * Default sizes: minimum 20 bytes "except for identity hashes" (exempt, minimum 0);
       maximum 128 bytes for cryptographic hashes; identity digests are capped by a separate
       constant, also 128.
     * NewAllowlist(set): the codes mapped to true are allowed, everything else is not; default sizes.
     * NewOverridingAllowlist(other, set): like NewAllowlist, but "falls back to the other allowlist
       if keys are missing" (a key present with value false is an explicit denial); other = nil =>
       "unsecure for unknown things"; sizes are those of the other allowlist (default sizes if nil).

   Hash functions are named by their multihash registry NAME (module CidRegistry is generated from
   mh.Codes of the linked go-multihash by the harness; numeric codes are carried as decimal strings
   and never computed on), so the rule below shares no constant with the Go code. *)
EXTENDS Naturals, Sequences, FiniteSets, TLC, CidRegistry

Reg      == {Registry[i] : i \in 1..Len(Registry)}
RegNames == {e.name : e \in Reg}
Entry(nm) == CHOOSE e \in Reg : e.name = nm
MaxLen   == 256                       \* digest lengths enumerated: 0..MaxLen

MinDigest         == 20
MaxDigest         == 128
MaxIdentityDigest == 128

DefaultNames == {"sha2-256", "sha2-512", "shake-256", "dbl-sha2-256", "blake3", "identity",
                 "sha3-224", "sha3-256", "sha3-384", "sha3-512",
                 "keccak-224", "keccak-256", "keccak-384", "keccak-512", "sha1"}
DefaultAllowed(e) == \/ e.name \in DefaultNames
                     \/ e.fam \in {"blake2b", "blake2s"} /\ e.bits >= 8 * MinDigest

(* base "sized": a foreign Allowlist implementation supplied by the harness (c04Sized) *)
SizedNames  == {"sha2-256", "identity", "md5", "blake2s-128"}
SizedMin(e) == IF e.name = "identity" THEN 2 ELSE IF e.name = "md5" THEN 16 ELSE 24
SizedMax(e) == IF e.name = "identity" THEN 200 ELSE 40

(* An allowlist is [base |-> "none"|"default"|"sized", layers |-> sequence of partial functions
   name -> BOOLEAN, OUTERMOST FIRST, ctor |-> how the harness must construct it]. *)
BaseAllowed(b, e) == CASE b = "default" -> DefaultAllowed(e)
                       [] b = "sized"   -> e.name \in SizedNames
                       [] OTHER         -> FALSE
IsAllowed(al, e) ==
    LET hit == {i \in 1..Len(al.layers) : e.name \in DOMAIN al.layers[i]}
    IN  IF hit = {} THEN BaseAllowed(al.base, e)
        ELSE al.layers[CHOOSE i \in hit : \A j \in hit : i <= j][e.name]
MinSize(al, e) == IF al.base = "sized" THEN SizedMin(e)
                  ELSE IF e.name = "identity" THEN 0 ELSE MinDigest
MaxSize(al, e) == IF al.base = "sized" THEN SizedMax(e)
                  ELSE IF e.name = "identity" THEN MaxIdentityDigest ELSE MaxDigest

Accepts(al, e, n) == IsAllowed(al, e) /\ MinSize(al, e) <= n /\ n <= MaxSize(al, e)
AcceptedLens(al, e) == {n \in 0..MaxLen : Accepts(al, e, n)}

(* ---- the allowlist variants enumerated (overriding, custom, nested, foreign base) ---------- *)
UnknownName == (CHOOSE e \in Reg : ~e.known).name      \* some code the registry does not know
CustomSet == ("sha2-256" :> TRUE @@ "blake3" :> TRUE @@ "md5" :> TRUE @@ "identity" :> TRUE @@
              "sha1" :> FALSE @@ "blake2b-152" :> TRUE @@ UnknownName :> TRUE)
OverSet   == ("sha2-256" :> FALSE @@ "md5" :> TRUE @@ "shake-128" :> TRUE @@ "blake2b-8" :> TRUE @@
              "blake2b-160" :> FALSE @@ "identity" :> FALSE @@ UnknownName :> TRUE)
Outer     == ("md5" :> FALSE @@ "sha2-512" :> FALSE @@ "sha3-256" :> TRUE @@ "x11" :> TRUE)
Inner     == ("md5" :> TRUE @@ "sha3-256" :> FALSE @@ "shake-128" :> TRUE @@ "sha2-512" :> TRUE)
EmptySet  == [x \in {} |-> TRUE]
\* the two allowlists the BlockService spec runs under (C04 block-service half)
SvcSet    == ("shake-128" :> TRUE @@ "sha2-512" :> FALSE)

AL == [ default     |-> [base |-> "default", layers |-> <<>>,             ctor |-> "default"],
        custom      |-> [base |-> "none",    layers |-> <<CustomSet>>,    ctor |-> "new"],
        custom_nil  |-> [base |-> "none",    layers |-> <<CustomSet>>,    ctor |-> "over"],
        empty       |-> [base |-> "none",    layers |-> <<EmptySet>>,     ctor |-> "new"],
        over_def    |-> [base |-> "default", layers |-> <<OverSet>>,      ctor |-> "over"],
        over_over   |-> [base |-> "default", layers |-> <<Outer, Inner>>, ctor |-> "over"],
        over_nil2   |-> [base |-> "none",    layers |-> <<Outer, Inner>>, ctor |-> "over"],
        sized       |-> [base |-> "sized",   layers |-> <<>>,             ctor |-> "sized"],
        over_sized  |-> [base |-> "sized",   layers |-> <<OverSet>>,      ctor |-> "over"],
        svc2        |-> [base |-> "default", layers |-> <<SvcSet>>,       ctor |-> "over"] ]
ALNames == DOMAIN AL

ASSUME \A a \in ALNames : \A i \in 1..Len(AL[a].layers) : DOMAIN AL[a].layers[i] \subseteq RegNames
ASSUME DefaultNames \cup SizedNames \subseteq RegNames
=============================================================================
