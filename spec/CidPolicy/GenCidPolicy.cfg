SPECIFICATION Spec
INVARIANTS Emit
