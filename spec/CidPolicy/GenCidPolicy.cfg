SPECIFICATION Spec
INVARIANTS UnknownRejectedByDefault SizeEnvelope IdentityRule OutermostWins Interval CtorIrrelevant Blake2Rule
           Emit
