---------------------------- MODULE GenCidPolicy ----------------------------
(* Class-product enumeration for CidPolicy: Init chooses (allowlist variant, registry entry);
   the rule computes the accepted digest lengths 0..256; one PrintT per case (phase G), and the
   meta-properties below are checked on every case (phase M). *)
EXTENDS CidPolicy, Json
VARIABLES cs,          \* <<allowlist name, registry index>>
          Acc          \* the digest lengths in 0..MaxLen the rule accepts for this case
Init == /\ cs \in ALNames \X (1..Len(Registry))
        /\ Acc = AcceptedLens(AL[cs[1]], Registry[cs[2]])
Next == UNCHANGED <<cs, Acc>>
Spec == Init /\ [][Next]_<<cs, Acc>>

al  == AL[cs[1]]
ent == Registry[cs[2]]

LayerJson(f) == {[code |-> Entry(nm).code, ok |-> f[nm]] : nm \in DOMAIN f}
Emit == PrintT(<<"BEHAVIOUR", ToJson([al |-> cs[1], ctor |-> al.ctor, base |-> al.base,
                 layers |-> [i \in 1..Len(al.layers) |-> LayerJson(al.layers[i])],
                 code |-> ent.code, name |-> ent.name, acc |-> Acc, maxlen |-> MaxLen])>>)

(* ---- meta-properties of the rule (what the documentation promises) ---------------------- *)
\* nothing outside the registry is accepted by default
UnknownRejectedByDefault == cs[1] = "default" /\ ~ent.known => Acc = {}
\* without a foreign base nothing shorter than 20 (identity exempt) or longer than 128 is accepted
SizeEnvelope == al.base # "sized" =>
                   /\ Acc \subseteq 0..128
                   /\ ent.name # "identity" => Acc \subseteq 20..128
\* identity: exempt from the minimum but capped
IdentityRule == cs[1] = "default" /\ ent.name = "identity" => Acc = 0..128
\* an explicit entry of the outermost layer decides
OutermostWins == (Len(al.layers) > 0 /\ ent.name \in DOMAIN al.layers[1]) =>
                    (Acc # {}) = al.layers[1][ent.name]
\* the accepted lengths form one interval, identical for NewAllowlist(s) and NewOverridingAllowlist(nil, s)
Interval == \A n \in 0..(MaxLen-1) : (n \in Acc /\ (n+1) \notin Acc) => \A m \in Acc : m <= n
CtorIrrelevant == cs[1] = "custom" => Acc = AcceptedLens(AL["custom_nil"], ent)
\* blake2 family: allowed by default exactly from 160 bits
Blake2Rule == cs[1] = "default" /\ ent.fam \in {"blake2b", "blake2s"} =>
                 (Acc # {}) = (ent.bits >= 160) /\ (Acc # {} => Acc = 20..128)
=============================================================================
