-------------------------------- MODULE DagDiff --------------------------------
(* C14 -- dagutils.Diff / dagutils.ApplyChange on dag-pb directory trees.

   A tree is FLAT: a function from paths (sequences of link names, <<>> = the root) to the LABEL
   of the node at that path, prefix-closed.  A label is the pair <<payload id, CID builder id>>:
   the identity of a node is its CID, which is determined by the node's own Data, its links and
   the CID builder (CID version, hash function) it was made with -- NOT by its bytes alone.  So
   equality of labelled trees is exactly equality of root CIDs (the property's observable), and a
   node that keeps its Data and entries but is rebuilt with another CID builder is a different
   node, at a leaf, an empty directory, a populated directory or the root alike.  Every node -- a
   directory too, populated or not, the root too -- carries its OWN label (directory payloads with
   different metadata are different payload ids), and two trees may differ in the label of a
   directory, in its entries, or in both.  The editor keeps both the Data and the CID builder of
   the nodes it passes through, so everything said below about "data" holds for the label.  The
   operators work on arbitrary dag-pb trees (any node may have data AND links), which is what the
   real editor edits: a Change never touches the data of the nodes it passes through.  Hence a
   difference in a node's own data can only be reported as a Mod of that node as a whole; for
   the root that is a Mod at the EMPTY path, whose meaning is "the result is After".

   dagutils.Diff is NOT re-specified.  The specification defines what a change list MEANS
   (Apply1: Add / Remove / Mod of the link at a path, the semantics of the editor) and requires of
   the change list REPORTED by the real Diff(a, b):
        Reproduces    applying the changes in order to a succeeds and yields b
        EmptyOnEqual  a = b  =>  no change is reported
   One Start / Change / Finish step per logged event, so the fold over the change list is done by
   TLC's state machine, not by a recursive operator.                                          *)
EXTENDS DagTrees, TLC

CONSTANT Devs     \* enabled named deviations (as-built behaviour of open findings)

VARIABLES src, tgt,   \* the two trees given to Diff
          cur,        \* src with the changes reported so far applied
          bad,        \* some reported change was not applicable (ApplyChange would fail)
          nch,        \* number of changes reported
          rootch,     \* some reported change addresses the root itself (empty path)
          phase       \* "idle" | "diff"
vars == <<src, tgt, cur, bad, nch, rootch, phase>>

(* ---- meaning of one change (the editor: RmLink / InsertNodeAtPath) --------------------- *)
(* Remove / Add address a LINK, so they need a non-empty path.  Mod replaces the node at the path by
   After; at the empty path that node is the root: the whole tree becomes After. *)
Pre(T, c) == CASE c.t = "Remove" -> c.p # <<>> /\ c.p \in DOMAIN T
               [] c.t = "Mod"    -> c.p \in DOMAIN T /\ c.after # NoTree
               [] c.t = "Add"    -> c.p # <<>> /\ Parent(c.p) \in DOMAIN T /\ c.after # NoTree
               [] OTHER          -> FALSE
Apply1(T, c) == IF c.t = "Remove" THEN Prune(T, c.p) ELSE Graft(T, c.p, c.after)      \* Graft(T, <<>>, S) = S

(* ---- state machine ---------------------------------------------------------------------- *)
Init == src = NoTree /\ tgt = NoTree /\ cur = NoTree /\ bad = FALSE /\ nch = 0 /\ rootch = FALSE /\ phase = "idle"

Start(a, b) == /\ phase = "idle" /\ IsTree(a) /\ IsTree(b)
               /\ src' = a /\ tgt' = b /\ cur' = a /\ bad' = FALSE /\ nch' = 0 /\ rootch' = FALSE /\ phase' = "diff"

Change(c) == /\ phase = "diff"
             /\ IF ~bad /\ Pre(cur, c) THEN cur' = Apply1(cur, c) /\ bad' = FALSE
                                       ELSE cur' = cur /\ bad' = TRUE
             /\ nch' = nch + 1 /\ rootch' = (rootch \/ c.p = <<>>)
             /\ UNCHANGED <<src, tgt, phase>>

Finish == phase = "diff" /\ phase' = "idle" /\ UNCHANGED <<src, tgt, cur, bad, nch, rootch>>

(* ---- the property, evaluated when the change list is complete ----------------------------- *)
Reproduces   == ~bad /\ cur = tgt
EmptyOnEqual == src = tgt => nch = 0

(* ---- Dev_C14_DataIgnored: what the code does instead --------------------------------------
   As built, Diff(a, b) descends into a pair of nodes whenever their CIDs differ and at least one
   of them has links -- without looking at their Data -- and reports only link changes below.
   So at every node it descended through, the result of applying the report keeps a's data:
   a non-empty directory replaced by a file is reported as the removal of the directory's entries
   (result: an empty directory), a file replaced by a non-empty directory as additions under the
   file (result: a node with the file's data and the directory's links).                      *)
DescAsBuilt(a, b, q) == \A i \in 0..Len(q) : LET r == SubSeq(q, 1, i) IN
                           /\ r \in DOMAIN a /\ r \in DOMAIN b /\ Sub(a, r) # Sub(b, r)
                           /\ ~(Linkless(a, r) /\ Linkless(b, r))
DescIdeal(a, b, q)   == \A i \in 0..Len(q) : LET r == SubSeq(q, 1, i) IN
                           /\ r \in DOMAIN a /\ r \in DOMAIN b /\ Sub(a, r) # Sub(b, r)
                           /\ ~(Linkless(a, r) /\ Linkless(b, r)) /\ a[r] = b[r]
AsBuiltResult(a, b)  == [q \in DOMAIN b |-> IF DescAsBuilt(a, b, q) THEN a[q] ELSE b[q]]
DataIgnored          == /\ "Dev_C14_DataIgnored" \in Devs
                        /\ AsBuiltResult(src, tgt) # tgt
                        /\ ~bad /\ cur = AsBuiltResult(src, tgt)

(* ---- Dev_C14_CidBuilderIgnored: what the code does instead ---------------------------------
   As built, Diff(a, b) looks at the two nodes' Data (and whether both are link-less) but not at
   their CID builders: two nodes with different CIDs, equal Data and at least one link are descended
   into although their CIDs may differ BECAUSE of the builder (CIDv0 vs CIDv1, another hash) -- then
   only link changes below are reported (none at all if the entries are identical), and the result
   of applying the report keeps a's builder at every such node: its CID is not b's.            *)
Payload(x)            == x[1]
DescAsBuiltB(a, b, q) == \A i \in 0..Len(q) : LET r == SubSeq(q, 1, i) IN
                           /\ r \in DOMAIN a /\ r \in DOMAIN b /\ Sub(a, r) # Sub(b, r)
                           /\ ~(Linkless(a, r) /\ Linkless(b, r)) /\ Payload(a[r]) = Payload(b[r])
AsBuiltResultB(a, b)  == [q \in DOMAIN b |-> IF DescAsBuiltB(a, b, q) THEN a[q] ELSE b[q]]
BuilderIgnored        == /\ "Dev_C14_CidBuilderIgnored" \in Devs
                         /\ AsBuiltResultB(src, tgt) # tgt
                         /\ ~bad /\ cur = AsBuiltResultB(src, tgt)

(* ---- Dev_C14_RootMod: what the code does instead ------------------------------------------
   Diff(a, b) reports the (correct) change  Mod at the empty path, After = b  when the two ROOTS do
   not carry the same data (or both have no links).  As built, ApplyChange cannot apply a change
   at the empty path: RmLink("") looks for a link named "" in the root and the whole call fails
   with ErrLinkNotFound.  The report itself satisfies the property; only its application fails. *)
RootModUnapplied     == /\ "Dev_C14_RootMod" \in Devs
                        /\ rootch /\ Reproduces /\ EmptyOnEqual
RootModError         == "no link by that name"

(* ---- a reference change set (phase M): shows the property is satisfiable with this change
   vocabulary, in ANY application order, and that AsBuiltResult is what the as-built descent rule
   produces ------------------------------------------------------------------------------------ *)
RefChanges(a, b, Desc(_)) ==
       {[t |-> "Mod", p |-> p, after |-> Sub(b, p)] :
            p \in {q \in DOMAIN a \cap DOMAIN b : (q = <<>> \/ Desc(Parent(q))) /\ Sub(a, q) # Sub(b, q) /\ ~Desc(q)}}
  \cup {[t |-> "Remove", p |-> p, after |-> NoTree] :
            p \in {q \in DOMAIN a \ DOMAIN b : Desc(Parent(q)) /\ Parent(q) \in DOMAIN b}}
  \cup {[t |-> "Add", p |-> p, after |-> Sub(b, p)] :
            p \in {q \in DOMAIN b \ DOMAIN a : Desc(Parent(q)) /\ Parent(q) \in DOMAIN a}}
=============================================================================
