-------------------------------- MODULE DagDiff --------------------------------
(* C14 -- dagutils.Diff / dagutils.ApplyChange on dag-pb directory trees.

   A tree is FLAT: a function from paths (sequences of link names, <<>> = the root) to the data id
   of the node at that path, prefix-closed.  Data id 0 is "the directory data", 1..n are leaf
   payloads.  A directory tree has d # 0 only at nodes without children, but the operators work
   on arbitrary dag-pb trees (any node may have data AND links), which is what the real editor
   edits: a Change never touches the data of the nodes it passes through.

   dagutils.Diff is NOT re-specified.  The specification defines what a change list MEANS
   (Apply1: Add / Remove / Mod of the link at a path, the semantics of the editor) and requires of
   the change list REPORTED by the real Diff(a, b):
        Reproduces    applying the changes in order to a succeeds and yields b
        EmptyOnEqual  a = b  =>  no change is reported
   One Start / Change / Finish step per logged event, so the fold over the change list is done by
   TLC's state machine, not by a recursive operator.                                          *)
EXTENDS DagTrees, TLC

CONSTANT Devs     \* enabled named deviations (as-built behaviour of open findings)

VARIABLES src, tgt,   \* the two trees given to Diff
          cur,        \* src with the changes reported so far applied
          bad,        \* some reported change was not applicable (ApplyChange would fail)
          nch,        \* number of changes reported
          phase       \* "idle" | "diff"
vars == <<src, tgt, cur, bad, nch, phase>>

(* ---- meaning of one change (the editor: RmLink / InsertNodeAtPath) --------------------- *)
Pre(T, c) == /\ c.p # <<>>
             /\ CASE c.t = "Remove" -> c.p \in DOMAIN T
                  [] c.t = "Mod"    -> c.p \in DOMAIN T /\ c.after # NoTree
                  [] c.t = "Add"    -> Parent(c.p) \in DOMAIN T /\ c.after # NoTree
                  [] OTHER          -> FALSE
Apply1(T, c) == IF c.t = "Remove" THEN Prune(T, c.p) ELSE Graft(T, c.p, c.after)

(* ---- state machine ---------------------------------------------------------------------- *)
Init == src = NoTree /\ tgt = NoTree /\ cur = NoTree /\ bad = FALSE /\ nch = 0 /\ phase = "idle"

Start(a, b) == /\ phase = "idle" /\ IsTree(a) /\ IsTree(b)
               /\ src' = a /\ tgt' = b /\ cur' = a /\ bad' = FALSE /\ nch' = 0 /\ phase' = "diff"

Change(c) == /\ phase = "diff"
             /\ IF ~bad /\ Pre(cur, c) THEN cur' = Apply1(cur, c) /\ bad' = FALSE
                                       ELSE cur' = cur /\ bad' = TRUE
             /\ nch' = nch + 1
             /\ UNCHANGED <<src, tgt, phase>>

Finish == phase = "diff" /\ phase' = "idle" /\ UNCHANGED <<src, tgt, cur, bad, nch>>

(* ---- the property, evaluated when the change list is complete ----------------------------- *)
Reproduces   == ~bad /\ cur = tgt
EmptyOnEqual == src = tgt => nch = 0

(* ---- Dev_C14_DataIgnored: what the code does instead --------------------------------------
   As built, Diff(a, b) descends into a pair of nodes whenever their CIDs differ and at least one
   of them has links -- without looking at their Data -- and reports only link changes below.
   So at every node it descended through, the result of applying the report keeps a's data:
   a non-empty directory replaced by a file is reported as the removal of the directory's entries
   (result: an empty directory), a file replaced by a non-empty directory as additions under the
   file (result: a node with the file's data and the directory's links).                      *)
DescAsBuilt(a, b, q) == \A i \in 0..Len(q) : LET r == SubSeq(q, 1, i) IN
                           /\ r \in DOMAIN a /\ r \in DOMAIN b /\ Sub(a, r) # Sub(b, r)
                           /\ ~(Linkless(a, r) /\ Linkless(b, r))
DescIdeal(a, b, q)   == \A i \in 0..Len(q) : LET r == SubSeq(q, 1, i) IN
                           /\ r \in DOMAIN a /\ r \in DOMAIN b /\ Sub(a, r) # Sub(b, r)
                           /\ ~(Linkless(a, r) /\ Linkless(b, r)) /\ a[r] = b[r]
AsBuiltResult(a, b)  == [q \in DOMAIN b |-> IF DescAsBuilt(a, b, q) THEN a[q] ELSE b[q]]
DataIgnored          == /\ "Dev_C14_DataIgnored" \in Devs
                        /\ AsBuiltResult(src, tgt) # tgt
                        /\ ~bad /\ cur = AsBuiltResult(src, tgt)

(* ---- a reference change set (phase M): shows the property is satisfiable with this change
   vocabulary, in ANY application order, and that AsBuiltResult is what the as-built descent rule
   produces ------------------------------------------------------------------------------------ *)
RefChanges(a, b, Desc(_)) ==
       {[t |-> "Mod", p |-> p, after |-> Sub(b, p)] :
            p \in {q \in DOMAIN a \cap DOMAIN b : q # <<>> /\ Desc(Parent(q)) /\ Sub(a, q) # Sub(b, q) /\ ~Desc(q)}}
  \cup {[t |-> "Remove", p |-> p, after |-> NoTree] :
            p \in {q \in DOMAIN a \ DOMAIN b : Desc(Parent(q)) /\ Parent(q) \in DOMAIN b}}
  \cup {[t |-> "Add", p |-> p, after |-> Sub(b, p)] :
            p \in {q \in DOMAIN b \ DOMAIN a : Desc(Parent(q)) /\ Parent(q) \in DOMAIN a}}
=============================================================================
