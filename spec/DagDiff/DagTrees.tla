-------------------------------- MODULE DagTrees --------------------------------
(* Flat dag-pb trees (no variables, no constants): a tree is a function from paths (sequences of
   link names, <<>> = the root) to the label ("data id") of the node at that path, prefix-closed.
   Labels are opaque to these operators (the universe uses <<payload id, CID builder id>>: what,
   together with the entries, determines the node's CID).  A set D of ids is "directory data" (0 = the plain UnixFS
   directory payload, others = directory payloads with metadata such as a mode); the other ids are
   leaf payloads.  Directories carry their OWN data, which may differ between two trees although
   the entries are the same (or differ too). *)
EXTENDS Naturals, Sequences, FiniteSets

NoTree == <<>>                               \* the empty function: "no node" (Before of Add, After of Remove)
IsPrefix(p, q) == Len(p) <= Len(q) /\ SubSeq(q, 1, Len(p)) = p
Parent(p)      == SubSeq(p, 1, Len(p) - 1)
Rel(p, r)      == SubSeq(r, Len(p) + 1, Len(r))
Under(T, p)    == {r \in DOMAIN T : IsPrefix(p, r)}
Sub(T, p)      == [q \in {Rel(p, r) : r \in Under(T, p)} |-> T[p \o q]]          \* subtree at p (NoTree if absent)
Prune(T, p)    == [r \in DOMAIN T \ Under(T, p) |-> T[r]]
Graft(T, p, S) == LET keep == DOMAIN T \ Under(T, p)
                      new  == {p \o q : q \in DOMAIN S}
                  IN  [r \in keep \cup new |-> IF r \in new THEN S[Rel(p, r)] ELSE T[r]]
Linkless(T, p) == \A r \in Under(T, p) : r = p
IsTree(T)      == /\ <<>> \in DOMAIN T
                  /\ \A p \in DOMAIN T : p = <<>> \/ Parent(p) \in DOMAIN T
DirShaped(T, D) == \A p \in DOMAIN T : T[p] \notin D => Linkless(T, p)       \* only directories have entries
IsDirTree(T, D) == IsTree(T) /\ T[<<>>] \in D /\ DirShaped(T, D)
SetData(T, p, d) == [T EXCEPT ![p] = d]                                        \* same entries, other own data
=============================================================================
