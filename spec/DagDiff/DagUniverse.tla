------------------------------ MODULE DagUniverse ------------------------------
(* The finite universe of directory trees used by phase M and by the case generator. *)
EXTENDS DagTrees
CONSTANTS Names, LeafIds, MaxDepth

RECURSIVE PathsUpTo(_)
PathsUpTo(n) == IF n = 0 THEN {<<>>} ELSE PathsUpTo(n - 1) \cup {Append(p, x) : p \in {q \in PathsUpTo(n - 1) : Len(q) = n - 1}, x \in Names}
Paths == PathsUpTo(MaxDepth)
DirTrees == {T \in UNION {[S -> {0} \cup LeafIds] : S \in SUBSET Paths} : IsDirTree(T)}
\* subtrees that fit at a path of length n: any root data, directory-shaped below
SubTreesAt(n) == {T \in UNION {[S -> {0} \cup LeafIds] : S \in SUBSET PathsUpTo(MaxDepth - n)} :
                    IsTree(T) /\ \A p \in DOMAIN T : T[p] # 0 => Linkless(T, p)}
\* evaluated once (TLC caches constant definitions without parameters)
SubTreesTab == [n \in 0..MaxDepth |-> SubTreesAt(n)]
Slots(T) == {p \in Paths : p # <<>> /\ Parent(p) \in DOMAIN T /\ T[Parent(p)] = 0}
Edits(T) == {Prune(T, p) : p \in DOMAIN T \ {<<>>}} \cup
            UNION {{Graft(T, p, S) : S \in SubTreesTab[Len(p)]} : p \in Slots(T)}
=============================================================================
