------------------------------ MODULE DagUniverse ------------------------------
(* The finite universe of directory trees used by phase M and by the case generator.
   A node's LABEL (the value of the flat tree at its path) is the pair <<payload id, CID builder id>>:
   a node's identity is its CID, and the CID is determined by the node's bytes (payload + links)
   AND by the CID builder it was made with (CID version, hash function).  Two nodes with the same
   payload and the same entries but another builder are DIFFERENT nodes (another CID), and so is
   every ancestor of them.  Tree equality is equality of the labelled trees = equality of root CIDs.
   DirIds = payload ids a directory may carry (its own Data: plain, or with metadata), LeafIds = leaf
   payloads, Builders = CID builder ids.  A directory of ANY DirId and ANY builder may be empty or
   populated, at the root or nested; a leaf may have any builder.
   The universe can be cut into NShards slices of source trees (Shard = which one) so that a tier
   that cannot afford all pairs takes a seed-chosen slice; NShards = 1 is the whole universe. *)
EXTENDS DagTrees, SequencesExt
CONSTANTS Names, LeafIds, DirIds, Builders, MaxDepth, NShards, Shard

RECURSIVE PathsUpTo(_)
PathsUpTo(n) == IF n = 0 THEN {<<>>} ELSE PathsUpTo(n - 1) \cup {Append(p, x) : p \in {q \in PathsUpTo(n - 1) : Len(q) = n - 1}, x \in Names}
Paths == PathsUpTo(MaxDepth)
DirData == DirIds \X Builders                       \* labels of directories
Data == (DirIds \cup LeafIds) \X Builders             \* all labels
\* all trees that fit at a path of length n (any root label, directory-shaped below), built level by level:
\* a single node of any label, or a directory label with, per name, no entry or a tree that fits one level deeper
Join(l, f) == LET dom == {<<>>} \cup UNION {{<<x>> \o q : q \in DOMAIN f[x]} : x \in Names}
              IN  [p \in dom |-> IF p = <<>> THEN l ELSE f[p[1]][Tail(p)]]
RECURSIVE SubTreesAt(_)
SubTreesAt(n) == {[p \in {<<>>} |-> l] : l \in Data} \cup
                 (IF n >= MaxDepth THEN {}
                  ELSE {Join(l, f) : l \in DirData, f \in [Names -> SubTreesAt(n + 1) \cup {NoTree}]})
\* evaluated once (TLC caches constant definitions without parameters)
SubTreesTab == [n \in 0..MaxDepth |-> SubTreesAt(n)]
DirTrees == {T \in SubTreesTab[0] : T[<<>>] \in DirData}
Slots(T) == {p \in Paths : p # <<>> /\ Parent(p) \in DOMAIN T /\ T[Parent(p)] \in DirData}
\* one edit: remove an entry; put any leaf / empty directory / directory subtree (of any directory label) at a
\* free or occupied slot -- which includes replacing a link-less node by one with the SAME payload and another
\* CID builder; change the own label (payload, CID builder or both) of a directory -- the ROOT included --
\* keeping its entries
Edits(T) == {Prune(T, p) : p \in DOMAIN T \ {<<>>}} \cup
            UNION {{Graft(T, p, S) : S \in SubTreesTab[Len(p)]} : p \in Slots(T)} \cup
            UNION {{SetData(T, p, d) : d \in DirData \ {T[p]}} : p \in {q \in DOMAIN T : T[q] \in DirData}}
\* the slice of source trees (TLC's SetToSeq order is deterministic)
Sources == IF NShards = 1 THEN DirTrees
           ELSE LET s == SetToSeq(DirTrees) IN {s[i] : i \in {j \in 1..Len(s) : j % NShards = Shard}}
\* the declarative definition (what the construction above must yield); checked by hand on the small universes
DirTreesDecl == {T \in UNION {[S -> Data] : S \in SUBSET Paths} : IsDirTree(T, DirData)}
=============================================================================
