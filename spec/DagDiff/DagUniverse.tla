------------------------------ MODULE DagUniverse ------------------------------
(* The finite universe of directory trees used by phase M and by the case generator.
   DirIds = data ids a directory may carry (its own Data: plain, or with metadata), LeafIds = leaf
   payloads.  A directory of ANY DirId may be empty or populated, at the root or nested.
   The universe can be cut into NShards slices of source trees (Shard = which one) so that a tier
   that cannot afford all pairs takes a seed-chosen slice; NShards = 1 is the whole universe. *)
EXTENDS DagTrees, SequencesExt
CONSTANTS Names, LeafIds, DirIds, MaxDepth, NShards, Shard

RECURSIVE PathsUpTo(_)
PathsUpTo(n) == IF n = 0 THEN {<<>>} ELSE PathsUpTo(n - 1) \cup {Append(p, x) : p \in {q \in PathsUpTo(n - 1) : Len(q) = n - 1}, x \in Names}
Paths == PathsUpTo(MaxDepth)
Data == DirIds \cup LeafIds
DirTrees == {T \in UNION {[S -> Data] : S \in SUBSET Paths} : IsDirTree(T, DirIds)}
\* subtrees that fit at a path of length n: any root data, directory-shaped below
SubTreesAt(n) == {T \in UNION {[S -> Data] : S \in SUBSET PathsUpTo(MaxDepth - n)} : IsTree(T) /\ DirShaped(T, DirIds)}
\* evaluated once (TLC caches constant definitions without parameters)
SubTreesTab == [n \in 0..MaxDepth |-> SubTreesAt(n)]
Slots(T) == {p \in Paths : p # <<>> /\ Parent(p) \in DOMAIN T /\ T[Parent(p)] \in DirIds}
\* one edit: remove an entry; put any leaf / empty directory / directory subtree (of any directory data) at a
\* free or occupied slot; change the own data of a directory -- the ROOT included -- keeping its entries
Edits(T) == {Prune(T, p) : p \in DOMAIN T \ {<<>>}} \cup
            UNION {{Graft(T, p, S) : S \in SubTreesTab[Len(p)]} : p \in Slots(T)} \cup
            UNION {{SetData(T, p, d) : d \in DirIds \ {T[p]}} : p \in {q \in DOMAIN T : T[q] \in DirIds}}
\* the slice of source trees (TLC's SetToSeq order is deterministic)
Sources == IF NShards = 1 THEN DirTrees
           ELSE LET s == SetToSeq(DirTrees) IN {s[i] : i \in {j \in 1..Len(s) : j % NShards = Shard}}
=============================================================================
