SPECIFICATION GSpec
CONSTANTS Names = {"x", "y"}
          LeafIds = {1, 2}
          MaxDepth = 2
          K = 1
VIEW GView
INVARIANTS Emit
