SPECIFICATION GSpec
CONSTANTS Names = {"x", "y"}
          LeafIds = {1, 2}
          DirIds = {0}
          Builders = {0}
          MaxDepth = 2
          NShards = 1
          Shard = 0
          K = 1
VIEW GView
INVARIANTS Emit
