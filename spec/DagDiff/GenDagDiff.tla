------------------------------ MODULE GenDagDiff ------------------------------
(* Phase G case generator for C14: every pair (a, b) of directory trees of the universe such that b
   is obtained from a by at most K edits (remove an entry; put a leaf, an empty directory or a
   directory subtree at a free or occupied slot -- which covers add, replace leaf, replace a
   directory by a leaf and vice versa, and nested edits).  One printed case per distinct pair. *)
EXTENDS DagUniverse, SequencesExt, TLC, Json
CONSTANT K
VARIABLES a, b, n
Flat(T) == LET ps == SetToSeq(DOMAIN T) IN [i \in 1..Len(ps) |-> <<ps[i], T[ps[i]]>>]
GInit == a \in DirTrees /\ b = a /\ n = 0
GNext == n < K /\ b' \in Edits(b) /\ n' = n + 1 /\ a' = a
GSpec == GInit /\ [][GNext]_<<a, b, n>>
GView == <<a, b>>
Emit == PrintT(<<"BEHAVIOUR", ToJson([a |-> Flat(a), b |-> Flat(b)])>>)
=============================================================================
