------------------------------ MODULE GenDagDiff ------------------------------
(* Phase G case generator for C14: every pair (a, b) of directory trees of the universe such that b
   is obtained from a by at most K edits (remove an entry; put a leaf, an empty directory or a
   directory subtree at a free or occupied slot -- which covers add, replace leaf, replace a
   directory by a leaf and vice versa, a populated directory by another populated directory with
   other own data, and nested edits; change the own data of a directory, the root included,
   keeping its entries).  One printed case per distinct pair.  a ranges over Sources (a slice
   of the universe when NShards > 1). *)
EXTENDS DagUniverse, SequencesExt, TLC, Json
CONSTANT K
VARIABLES a, b, n
Flat(T) == LET ps == SetToSeq(DOMAIN T) IN [i \in 1..Len(ps) |-> <<ps[i], T[ps[i]]>>]
GInit == a \in Sources /\ b = a /\ n = 0
GNext == n < K /\ b' \in Edits(b) /\ n' = n + 1 /\ a' = a
GSpec == GInit /\ [][GNext]_<<a, b, n>>
GView == <<a, b>>
Emit == PrintT(<<"BEHAVIOUR", ToJson([a |-> Flat(a), b |-> Flat(b)])>>)
=============================================================================
