\* case family B: every node carries a CID builder (Builders 0, 1) next to its payload: nodes that differ ONLY in the
\* builder (same bytes, other CID) -- leaves, empty and populated directories, root included; slice chosen by the runner
SPECIFICATION GSpec
CONSTANTS Names = {"x", "y"}
          LeafIds = {1}
          DirIds = {0}
          Builders = {0, 1}
          MaxDepth = 2
          NShards = @NSHARDS@
          Shard = @SHARD@
          K = 1
VIEW GView
INVARIANTS Emit
