\* case family D: directories carry their own data (DirIds 0, 100), root included; slice chosen by the runner
SPECIFICATION GSpec
CONSTANTS Names = {"x", "y"}
          LeafIds = {1}
          DirIds = {0, 100}
          Builders = {0}
          MaxDepth = 2
          NShards = @NSHARDS@
          Shard = @SHARD@
          K = 1
VIEW GView
INVARIANTS Emit
