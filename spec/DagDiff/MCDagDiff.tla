------------------------------ MODULE MCDagDiff ------------------------------
(* Phase M for C14: for every pair of directory trees of a small universe, apply a reference change
   set (computed with the ideal descent rule: descend only through nodes with equal data; or with
   the as-built rule when the deviation is enabled) in EVERY order and check at the end
     ideal    : Reproduces /\ EmptyOnEqual
     as built : cur = AsBuiltResult(src, tgt) resp. AsBuiltResultB(src, tgt)   (validates the deviations' descriptions)
   The universe's labels are <<payload id, CID builder id>>: pairs of trees that differ ONLY in the CID builder
   of a node (leaf, empty or populated directory, root) are part of it when Builders has two elements.        *)
EXTENDS DagDiff, DagUniverse
CONSTANTS AllPairs
VARIABLE pend
mvars == <<vars, pend>>

Pairs == IF AllPairs THEN Sources \X DirTrees
         ELSE UNION {{<<a, b>> : b \in Edits(a) \cup {a}} : a \in Sources}

Desc(q) == IF "Dev_C14_DataIgnored" \in Devs THEN DescAsBuilt(src', tgt', q)
           ELSE IF "Dev_C14_CidBuilderIgnored" \in Devs THEN DescAsBuiltB(src', tgt', q)
           ELSE DescIdeal(src', tgt', q)
MInit == Init /\ pend = {}
MStart == \E pr \in Pairs : Start(pr[1], pr[2]) /\ pend' = RefChanges(pr[1], pr[2], Desc)
MChange == \E c \in pend : Change(c) /\ pend' = pend \ {c}
MNext == MStart \/ MChange
MSpec == MInit /\ [][MNext]_mvars

Done == phase = "diff" /\ pend = {}
\* ... and a change at the empty path is part of the reference set exactly when the roots' own data differ
IdealOK   == Done => Reproduces /\ EmptyOnEqual /\ (rootch <=> src[<<>>] # tgt[<<>>])
AsBuiltOK == Done => ~bad /\ cur = (IF "Dev_C14_DataIgnored" \in Devs THEN AsBuiltResult(src, tgt) ELSE AsBuiltResultB(src, tgt))
\* the as-built rule breaks the property exactly on the kind changes (and the model shows it)
AsBuiltBreaks == Done => (cur = tgt)
=============================================================================
