\* nodes carry a CID builder (Builders 0, 1): a seed-chosen slice of the source trees (runner fills @SHARD@)
SPECIFICATION MSpec
CONSTANTS Names = {"x", "y"}
          LeafIds = {1}
          DirIds = {0}
          Builders = {0, 1}
          MaxDepth = 2
          NShards = @NSHARDS@
          Shard = @SHARD@
          AllPairs = FALSE
          Devs = {"Dev_C14_CidBuilderIgnored"}
INVARIANTS AsBuiltBreaks
CHECK_DEADLOCK FALSE
