\* directories with their own data (DirIds 0, 100): a seed-chosen slice of the source trees (runner fills @SHARD@)
SPECIFICATION MSpec
CONSTANTS Names = {"x", "y"}
          LeafIds = {1}
          DirIds = {0, 100}
          Builders = {0}
          MaxDepth = 2
          NShards = 12
          Shard = @SHARD@
          AllPairs = FALSE
          Devs = {}
INVARIANTS IdealOK
CHECK_DEADLOCK FALSE
