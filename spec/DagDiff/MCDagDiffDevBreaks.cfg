SPECIFICATION MSpec
CONSTANTS Names = {"x", "y"}
          LeafIds = {1, 2}
          MaxDepth = 2
          AllPairs = FALSE
          Devs = {"Dev_C14_DataIgnored"}
INVARIANTS AsBuiltBreaks
CHECK_DEADLOCK FALSE
