SPECIFICATION MSpec
CONSTANTS Names = {"x", "y"}
          LeafIds = {1}
          MaxDepth = 2
          AllPairs = FALSE
          Devs = {"Dev_C14_DataIgnored"}
INVARIANTS AsBuiltBreaks
CHECK_DEADLOCK FALSE
