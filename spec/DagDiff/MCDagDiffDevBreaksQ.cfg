SPECIFICATION MSpec
CONSTANTS Names = {"x", "y"}
          LeafIds = {1}
          DirIds = {0}
          Builders = {0}
          MaxDepth = 2
          NShards = 1
          Shard = 0
          AllPairs = FALSE
          Devs = {"Dev_C14_DataIgnored"}
INVARIANTS AsBuiltBreaks
CHECK_DEADLOCK FALSE
