SPECIFICATION MSpec
CONSTANTS Names = {"x", "y"}
          LeafIds = {1}
          MaxDepth = 2
          AllPairs = FALSE
          Devs = {}
INVARIANTS IdealOK
CHECK_DEADLOCK FALSE
