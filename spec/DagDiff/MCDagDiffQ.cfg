SPECIFICATION MSpec
CONSTANTS Names = {"x", "y"}
          LeafIds = {1}
          DirIds = {0}
          Builders = {0}
          MaxDepth = 2
          NShards = 1
          Shard = 0
          AllPairs = FALSE
          Devs = {}
INVARIANTS IdealOK
CHECK_DEADLOCK FALSE
