SPECIFICATION TSpec
CONSTANTS Devs = @DEVS@
INVARIANTS TypeOK DevReport
CONSTRAINT TraceConstraint
POSTCONDITION TracePost
CHECK_DEADLOCK FALSE
