----------------------------- MODULE TraceDagDiff -----------------------------
(* Phase T for C14: the log of the real code -- per case one "Diff" event (the two trees), one
   "Change" event per change REPORTED by the real dagutils.Diff (paths and CIDs projected to flat
   trees by the harness), and one "Applied" event (the projection of what the real
   dagutils.ApplyChange produced from a and that change list, and whether its CID equals b's) --
   must be a behaviour of DagDiff in which every case ends with the property:
      the model's fold of the reported changes over a gives b            (real Diff vs Apply1 semantics)
      the real ApplyChange result equals the model's fold, CID equal to b (real ApplyChange vs Apply1)
      no change reported when a = b.
   Trees are arbitrary flat dag-pb trees: every node carries its own label <<payload id, CID builder id>> (plain
   directory payload or one with metadata, leaf payload; CIDv0/CIDv1/other hash), so a and b may differ in the
   data of a populated directory, at the root or nested, or ONLY in the CID builder of some node (same bytes,
   another CID).  The harness projects a real node to its label from its Data and the prefix of its CID, so
   "Fn(Ev.tree) = cur" and "cur = tgt" are statements about CIDs. *)
EXTENDS DagDiff, Json, Integers

Trace == ndJsonDeserialize("trace.ndjson")
VARIABLES l, dev
tvars == <<vars, l, dev>>
ASSUME TLCSet(1, 0)

Ev == Trace[l]
IsEvent(e) == l <= Len(Trace) /\ Trace[l].ev = e /\ l' = l + 1
\* flat JSON tree  [[path, d], ...]  ->  function path -> d   ([] -> NoTree)
Fn(s) == [p \in {s[i][1] : i \in 1..Len(s)} |-> s[CHOOSE i \in 1..Len(s) : s[i][1] = p][2]]

TInit == Init /\ l = 1 /\ dev = {}

TDiff == IsEvent("Diff") /\ Start(Fn(Ev.a), Fn(Ev.b)) /\ UNCHANGED dev

TChange == /\ IsEvent("Change")
           /\ Ev.t \in {"Remove", "Mod"} => Fn(Ev.before) = Sub(src, Ev.p)     \* Before = what a has there
           /\ Ev.t = "Add" => Ev.before = <<>>
           /\ Ev.t = "Remove" => Ev.after = <<>>
           /\ Change([t |-> Ev.t, p |-> Ev.p, after |-> Fn(Ev.after)])
           /\ UNCHANGED dev

TApplied == /\ IsEvent("Applied")
            /\ \/ /\ Ev.err = "" /\ Fn(Ev.tree) = cur
                  /\ \/ Reproduces /\ EmptyOnEqual /\ Ev.cidEq = TRUE /\ UNCHANGED dev
                     \/ DataIgnored /\ Ev.cidEq = FALSE /\ dev' = dev \cup {"Dev_C14_DataIgnored"}
                     \/ BuilderIgnored /\ Ev.cidEq = FALSE /\ dev' = dev \cup {"Dev_C14_CidBuilderIgnored"}
               \* the report is right and contains a change at the empty path; the real ApplyChange fails on it
               \/ /\ RootModUnapplied /\ Ev.err = RootModError /\ Ev.cidEq = FALSE
                  /\ dev' = dev \cup {"Dev_C14_RootMod"}
            /\ Finish

TNext == TDiff \/ TChange \/ TApplied
TSpec == TInit /\ [][TNext]_tvars

TypeOK == phase \in {"idle", "diff"} /\ bad \in BOOLEAN /\ rootch \in BOOLEAN /\ nch \in Nat
DevReport == l <= Len(Trace) \/ \A d \in dev : PrintT(<<"DEV_USED", d>>)
TraceConstraint == TLCSet(1, IF l - 1 > TLCGet(1) THEN l - 1 ELSE TLCGet(1))
TracePost == PrintT(<<"TRACE_HWM", TLCGet(1)>>)
=============================================================================
