------------------------------- MODULE DagWalk -------------------------------
(* C12 -- ipld/merkledag/merkledag.go: Walk / WalkDepth (sequentialWalkDepth, parallelWalkDepth),
   the walk options (SkipRoot, Concurrency, IgnoreErrors, IgnoreMissing, OnMissing, OnError,
   WithProvider; addHandler) and the depth-aware visit function of FetchGraphWithDepthLimit.

   A walk configuration (cfg) is
     n       number of nodes 1..n, node 1 is the root, links only go to larger numbers (a DAG)
     links   links[i] = sequence of children of node i, in link order (duplicates allowed)
     status  status[i] \in {"ok","missing","bad"}: result of fetching node i
             ("missing" = format.ErrNotFound, "bad" = any other error)
     loc     loc[i] = block i is in the local blockstore before the walk (only read for ok nodes)
     lim     depth limit of FetchGraphWithDepthLimit (-1 = none; plain Walk with cid.Set.Visit = -1)
     conc    Concurrency option (<= 1 : sequentialWalkDepth, > 1 : parallelWalkDepth with conc workers)
     skip    SkipRoot
     hs      the error-handling options in the order they were given,
             a sequence over {"IgnoreErrors","IgnoreMissing","OnMissing","OnError"}
     oer     what the user's OnError handler returns: "same" (its argument) | "nil" | "wrap" (a new error)
     prov    WithProvider given

   Grain: one action per callback invocation / channel rendezvous of the code.
   Worker-side actions (both walks run the same per-node code):
     WVisit   visit(c, depth) under visitlk            WFetch    getLinks(ctx, c) is called (fetch in flight)
     WFetchRet getLinks returns the node's own outcome  WFetchCancelled a walk-owned context was cancelled
     WHandle  options.ErrorHandler(c, err) is entered  WCallback one user callback (OnMissing/OnError) runs
     WProvide Provider.StartProviding(c)
   Sequential control: SeqDescend (recursive call for the next link), SeqReturn, SeqErr.
   Parallel main loop: Dispatch (send on feed), Collect (receive on out), Done (receive on done),
     ErrRecv (receive on errChan), Finish (cancel + wg.Wait: every worker is parked or exits).

   The module describes the IDEAL behaviour.  The two recorded as-built defects are separate
   actions guarded by Devs (D6: the parallel walk hands `root` to the error handler and to the
   provider; D7: addHandler's closure calls itself => stack overflow as soon as a handler
   composed of >= 2 options is invoked).                                                        *)
EXTENDS Integers, Sequences, FiniteSets, TLC, Json

CONSTANTS Devs,      \* enabled deviations; {} = ideal behaviour only
          Cases      \* the walk configurations Init may choose from

D6 == "Dev_C12_ParallelRootCid"
D7 == "Dev_C12_HandlerSelfRecursion"
HZ == "Haz_C12_CancelledFetchHandled"

VARIABLES cfg,       \* the configuration of the current walk (constant during a walk)
          set,       \* FetchGraphWithDepthLimit's map cid -> recorded depth (-1 = absent) / the cid.Set
          visited,   \* nodes for which the visit callback returned true
          nfetch,    \* nfetch[i] = number of getLinks calls for node i
          local,     \* blocks in the local blockstore
          provided,  \* provided[i] = number of StartProviding calls for node i
          calls,     \* sequence of user callback invocations [cb, c, e, at]
          result,    \* [k |-> "none"|"ok"|"missing"|"bad"|"user"|"crash", n |-> node]
          returned,  \* the Walk call has returned (or the process died)
          main,      \* "loop" | "ret"   (main goroutine of the walk)
          wk,        \* worker records; worker 0 = the calling goroutine of the sequential walk
          stack,     \* sequential walk: suspended recursion frames
          nxt, todo, \* parallel walk: `next` and todoQueue of the dispatcher
          inprog,    \* parallel walk: inProgress
          dev        \* deviations used so far
vars == <<cfg, set, visited, nfetch, local, provided, calls, result, returned, main, wk, stack,
          nxt, todo, inprog, dev>>

Root    == 1
Nodes   == 1..cfg.n
IsSeq     == cfg.conc <= 1
Workers == IF IsSeq THEN {0} ELSE 1..cfg.conc
ToSet(s) == {s[i] : i \in 1..Len(s)}
Nil     == [k |-> "nil", n |-> 0]
OkRes   == [k |-> "ok", n |-> 0]
NoItem  == [c |-> 0, d |-> 0]
E(i)    == [k |-> cfg.status[i], n |-> i]          \* the error getLinks returns for failing node i
Idle    == [pc |-> "idle", c |-> 0, d |-> 0, links |-> <<>>, i |-> 0, cbq |-> <<>>, herr |-> Nil, err |-> Nil]
Item(c, d) == [Idle EXCEPT !.pc = "visit", !.c = c, !.d = d]

(* ---------------- error-handler composition (addHandler, in option order) ----------------- *)
\* one option's handler applied to (carg, e): new error value and the user callbacks it runs
H(h, oer, carg, at, e) ==
  CASE h = "IgnoreErrors"  -> [e |-> Nil, calls |-> <<>>]
    [] h = "IgnoreMissing" -> [e |-> IF e.k = "missing" THEN Nil ELSE e, calls |-> <<>>]
    [] h = "OnMissing"     -> [e |-> e, calls |-> IF e.k = "missing"
                                                  THEN <<[cb |-> "OnMissing", c |-> carg, e |-> e, at |-> at]>>
                                                  ELSE <<>>]
    [] h = "OnError"       -> [e |-> CASE oer = "same" -> e
                                       [] oer = "nil"  -> Nil
                                       [] oer = "wrap" -> [k |-> "user", n |-> carg],
                               calls |-> <<[cb |-> "OnError", c |-> carg, e |-> e, at |-> at]>>]
RECURSIVE Fold(_, _, _, _, _, _)
Fold(hs, oer, j, carg, at, acc) ==
  IF j > Len(hs) THEN acc
  ELSE LET r == H(hs[j], oer, carg, at, acc.e)
       IN Fold(hs, oer, j + 1, carg, at, [e |-> r.e, calls |-> acc.calls \o r.calls])
\* the handler given first sees the error first; each later one sees the previous one's result
Compose(hs, oer, carg, at, e) == Fold(hs, oer, 1, carg, at, [e |-> e, calls |-> <<>>])

(* ---------------- the property's reference: reachability by shortest distance -------------- *)
EdgesOf(c, i) == IF c.status[i] = "ok" THEN ToSet(c.links[i]) ELSE {}     \* a failed fetch yields no links
RECURSIVE WithinOf(_, _)
WithinOf(c, k) == IF k = 0 THEN {Root}
                  ELSE LET p == WithinOf(c, k - 1) IN p \cup UNION {EdgesOf(c, i) : i \in p}
LimOf(c)    == IF c.lim < 0 \/ c.lim > c.n THEN c.n ELSE c.lim
ReachOf(c)  == WithinOf(c, LimOf(c))                 \* nodes at shortest distance <= limit from the root
DistOf(c, i) == CHOOSE k \in 0..c.n : i \in WithinOf(c, k) /\ (k = 0 \/ i \notin WithinOf(c, k - 1))
PropagatesOf(c, i) == c.status[i] # "ok" /\
                      (c.hs = <<>> \/ Compose(c.hs, c.oer, i, i, [k |-> c.status[i], n |-> i]).e # Nil)
Reach  == ReachOf(cfg)
Walked == visited \cup (IF cfg.skip THEN {Root} ELSE {})     \* nodes whose links were asked for
Local0Of(c) == {i \in 1..c.n : c.status[i] = "ok" /\ c.loc[i]}

(* ---------------- initial state ------------------------------------------------------------- *)
InitWith(c) ==
  /\ cfg = c
  /\ set = [i \in 1..c.n |-> -1]
  /\ visited = {} /\ nfetch = [i \in 1..c.n |-> 0] /\ provided = [i \in 1..c.n |-> 0]
  /\ local = Local0Of(c)
  /\ calls = <<>> /\ result = [k |-> "none", n |-> 0] /\ returned = FALSE /\ main = "loop"
  /\ stack = <<>> /\ todo = <<>> /\ inprog = 0
  /\ IF c.conc <= 1
     THEN wk = [w \in {0} |-> Item(Root, 0)] /\ nxt = NoItem
     ELSE wk = [w \in 1..c.conc |-> Idle] /\ nxt = [c |-> Root, d |-> 0]
Init == dev = {} /\ \E c \in Cases : InitWith(c)
\* the same as an action (a trace holds several walks): the next walk starts with configuration c
StartWith(c) ==
  /\ cfg' = c
  /\ set' = [i \in 1..c.n |-> -1]
  /\ visited' = {} /\ nfetch' = [i \in 1..c.n |-> 0] /\ provided' = [i \in 1..c.n |-> 0]
  /\ local' = Local0Of(c)
  /\ calls' = <<>> /\ result' = [k |-> "none", n |-> 0] /\ returned' = FALSE /\ main' = "loop"
  /\ stack' = <<>> /\ todo' = <<>> /\ inprog' = 0
  /\ IF c.conc <= 1
     THEN wk' = [w \in {0} |-> Item(Root, 0)] /\ nxt' = NoItem
     ELSE wk' = [w \in 1..c.conc |-> Idle] /\ nxt' = [c |-> Root, d |-> 0]

(* ---------------- worker-side actions --------------------------------------------------------- *)
\* the visit function: FetchGraphWithDepthLimit's closure (lim >= 0: depth-aware revisit) or cid.Set.Visit
VisitRet(c, d) == LET old == set[c] IN
                  IF (old >= 0 /\ cfg.lim < 0) \/ (cfg.lim >= 0 /\ d > cfg.lim) THEN FALSE
                  ELSE old < 0 \/ old > d

AfterProvide == IF IsSeq THEN "desc" ELSE "out"
AfterFetch   == IF cfg.prov THEN "provide" ELSE AfterProvide
\* the composed handler has returned rec.herr
Settle(rec) == IF rec.herr = Nil THEN [rec EXCEPT !.links = <<>>, !.i = 1, !.pc = AfterFetch]
               ELSE [rec EXCEPT !.err = rec.herr, !.pc = "err"]

WVisit(w) ==
  /\ wk[w].pc = "visit"
  /\ LET c == wk[w].c  d == wk[w].d IN
     IF cfg.skip /\ d = 0                                   \* "bypass the root if needed"
     THEN wk' = [wk EXCEPT ![w].pc = "fetch"] /\ UNCHANGED <<set, visited>>
     ELSE IF VisitRet(c, d)
          THEN /\ set' = [set EXCEPT ![c] = d] /\ visited' = visited \cup {c}
               /\ wk' = [wk EXCEPT ![w].pc = "fetch"]
          ELSE wk' = [wk EXCEPT ![w].pc = "done"] /\ UNCHANGED <<set, visited>>
  /\ UNCHANGED <<cfg, nfetch, local, provided, calls, result, returned, main, stack, nxt, todo, inprog, dev>>

\* getLinks(ctx, c) is called: the fetch is in flight until getLinks returns (WFetchRet / WFetchCancelled)
WFetch(w) ==
  /\ wk[w].pc = "fetch"
  /\ nfetch' = [nfetch EXCEPT ![wk[w].c] = @ + 1]
  /\ wk' = [wk EXCEPT ![w].pc = "infl"]
  /\ UNCHANGED <<cfg, set, visited, local, provided, calls, result, returned, main, stack, nxt, todo, inprog, dev>>

\* getLinks returns the node's OWN outcome.  The caller's context is live for the whole walk, so what a fetch
\* returns is a function of the node only -- whatever happened to the other fetches in the meantime.
WFetchRet(w) ==
  /\ wk[w].pc = "infl"
  /\ LET c == wk[w].c IN
     IF cfg.status[c] = "ok"
     THEN /\ local' = local \cup {c}                       \* blockservice stores what the exchange delivered
          /\ wk' = [wk EXCEPT ![w].links = cfg.links[c], ![w].i = 1, ![w].pc = AfterFetch]
     ELSE /\ UNCHANGED local
          /\ wk' = IF cfg.hs = <<>> THEN [wk EXCEPT ![w].err = E(c), ![w].pc = "err"]
                   ELSE [wk EXCEPT ![w].pc = "handle"]
  /\ UNCHANGED <<cfg, set, visited, nfetch, provided, calls, result, returned, main, stack, nxt, todo, inprog, dev>>

\* A walk that is ending (main = "ret": deferred cancel()) MAY have handed its fetches a context of its own and
\* cancel it; a fetch that honours cancellation then returns ctx.Err().  That is not a failure of the node:
\* nothing is reported for it (no handler, no callback, no walk error), the worker just exits.
Cancelled(c) == [k |-> "cancelled", n |-> c]
WFetchCancelled(w) ==
  /\ ~IsSeq /\ main = "ret" /\ wk[w].pc = "infl"
  /\ wk' = [wk EXCEPT ![w].pc = "exit"]
  /\ UNCHANGED <<cfg, set, visited, nfetch, local, provided, calls, result, returned, main, stack, nxt, todo, inprog, dev>>

\* Hazard (not an as-built deviation; only enabled by MCDagWalkHaz.cfg to show that the invariants exclude it):
\* the cancellation error of an in-flight sibling is pushed through the error-handler chain like a fetch failure.
WFetchCancelledHazHandled(w) ==
  /\ HZ \in Devs /\ ~IsSeq /\ main = "ret" /\ wk[w].pc = "infl" /\ cfg.hs # <<>>
  /\ LET r   == Compose(cfg.hs, cfg.oer, wk[w].c, wk[w].c, Cancelled(wk[w].c))
         rec == [wk[w] EXCEPT !.cbq = r.calls, !.herr = r.e, !.pc = "cb"]
     IN  wk' = [wk EXCEPT ![w] = IF r.calls = <<>> THEN Settle(rec) ELSE rec]
  /\ dev' = dev \cup {HZ}
  /\ UNCHANGED <<cfg, set, visited, nfetch, local, provided, calls, result, returned, main, stack, nxt, todo, inprog>>

HandleWith(w, carg) ==
  LET r   == Compose(cfg.hs, cfg.oer, carg, wk[w].c, E(wk[w].c))
      rec == [wk[w] EXCEPT !.cbq = r.calls, !.herr = r.e, !.pc = "cb"]
  IN  wk' = [wk EXCEPT ![w] = IF r.calls = <<>> THEN Settle(rec) ELSE rec]

WHandle(w) ==                                             \* ideal: the handler gets the CID that failed
  /\ wk[w].pc = "handle"
  /\ HandleWith(w, wk[w].c)
  /\ UNCHANGED <<cfg, set, visited, nfetch, local, provided, calls, result, returned, main, stack, nxt, todo, inprog, dev>>

WHandleDevRoot(w) ==                                      \* as built (parallel): ErrorHandler(root, err)
  /\ D6 \in Devs /\ ~IsSeq /\ wk[w].pc = "handle" /\ wk[w].c # Root
  /\ Compose(cfg.hs, cfg.oer, Root, wk[w].c, E(wk[w].c)) # Compose(cfg.hs, cfg.oer, wk[w].c, wk[w].c, E(wk[w].c))
  /\ HandleWith(w, Root)
  /\ dev' = dev \cup {D6}
  /\ UNCHANGED <<cfg, set, visited, nfetch, local, provided, calls, result, returned, main, stack, nxt, todo, inprog>>

WHandleDevCrash(w) ==                                     \* as built: the composed closure calls itself forever
  /\ D7 \in Devs /\ wk[w].pc = "handle" /\ Len(cfg.hs) >= 2
  /\ result' = [k |-> "crash", n |-> wk[w].c] /\ returned' = TRUE /\ main' = "ret"
  /\ wk' = [wk EXCEPT ![w].pc = "exit"]
  /\ dev' = dev \cup {D7}
  /\ UNCHANGED <<cfg, set, visited, nfetch, local, provided, calls, stack, nxt, todo, inprog>>

WCallback(w) ==
  /\ wk[w].pc = "cb"
  /\ calls' = Append(calls, Head(wk[w].cbq))
  /\ LET rec == [wk[w] EXCEPT !.cbq = Tail(@)] IN
     wk' = [wk EXCEPT ![w] = IF rec.cbq = <<>> THEN Settle(rec) ELSE rec]
  /\ UNCHANGED <<cfg, set, visited, nfetch, local, provided, result, returned, main, stack, nxt, todo, inprog, dev>>

ProvideAs(w, parg) ==
  /\ wk[w].pc = "provide"
  /\ provided' = [provided EXCEPT ![parg] = @ + 1]
  /\ wk' = [wk EXCEPT ![w].pc = AfterProvide]
  /\ UNCHANGED <<cfg, set, visited, nfetch, local, calls, result, returned, main, stack, nxt, todo, inprog>>
WProvide(w)        == ProvideAs(w, wk[w].c) /\ UNCHANGED dev
WProvideDevRoot(w) == D6 \in Devs /\ ~IsSeq /\ wk[w].c # Root /\ ProvideAs(w, Root) /\ dev' = dev \cup {D6}

(* ---------------- sequential control (sequentialWalkDepth) ------------------------------------ *)
SeqDescend ==
  /\ IsSeq /\ wk[0].pc = "desc" /\ wk[0].i <= Len(wk[0].links)
  /\ stack' = Append(stack, [wk[0] EXCEPT !.i = @ + 1])
  /\ wk' = [wk EXCEPT ![0] = Item(wk[0].links[wk[0].i], wk[0].d + 1)]
  /\ UNCHANGED <<cfg, set, visited, nfetch, local, provided, calls, result, returned, main, nxt, todo, inprog, dev>>

SeqReturn ==                                               \* return nil from one recursion level
  /\ IsSeq /\ main = "loop"
  /\ wk[0].pc = "done" \/ (wk[0].pc = "desc" /\ wk[0].i > Len(wk[0].links))
  /\ IF stack = <<>>
     THEN /\ result' = OkRes /\ main' = "ret" /\ wk' = [wk EXCEPT ![0].pc = "exit"] /\ UNCHANGED stack
     ELSE /\ wk' = [wk EXCEPT ![0] = stack[Len(stack)]] /\ stack' = SubSeq(stack, 1, Len(stack) - 1)
          /\ UNCHANGED <<result, main>>
  /\ UNCHANGED <<cfg, set, visited, nfetch, local, provided, calls, returned, nxt, todo, inprog, dev>>

SeqErr ==                                                  \* the error unwinds the whole recursion
  /\ IsSeq /\ main = "loop" /\ wk[0].pc = "err"
  /\ result' = wk[0].err /\ main' = "ret" /\ stack' = <<>> /\ wk' = [wk EXCEPT ![0].pc = "exit"]
  /\ UNCHANGED <<cfg, set, visited, nfetch, local, provided, calls, returned, nxt, todo, inprog, dev>>

(* ---------------- parallel main loop (parallelWalkDepth) ---------------------------------------- *)
Pending == (IF nxt = NoItem THEN <<>> ELSE <<nxt>>) \o todo
SetPending(q) == /\ nxt' = IF q = <<>> THEN NoItem ELSE Head(q)
                 /\ todo' = IF q = <<>> THEN <<>> ELSE Tail(q)
RemoveAt(q, k) == SubSeq(q, 1, k - 1) \o SubSeq(q, k + 1, Len(q))

\* `send <- next` with worker w receiving; the code always sends Pending[1]
DispatchAt(w, k) ==
  /\ ~IsSeq /\ main = "loop" /\ wk[w].pc = "idle" /\ k \in 1..Len(Pending)
  /\ wk' = [wk EXCEPT ![w] = Item(Pending[k].c, Pending[k].d)]
  /\ SetPending(RemoveAt(Pending, k))
  /\ inprog' = inprog + 1
  /\ UNCHANGED <<cfg, set, visited, nfetch, local, provided, calls, result, returned, main, stack, dev>>
Dispatch(w) == DispatchAt(w, 1)

Collect(w) ==                                              \* `linksDepth := <-out`
  /\ ~IsSeq /\ main = "loop" /\ wk[w].pc = "out"
  /\ SetPending(Pending \o [j \in 1..Len(wk[w].links) |-> [c |-> wk[w].links[j], d |-> wk[w].d + 1]])
  /\ wk' = [wk EXCEPT ![w].pc = "done"]
  /\ UNCHANGED <<cfg, set, visited, nfetch, local, provided, calls, result, returned, main, stack, inprog, dev>>

Done(w) ==                                                 \* `<-done`
  /\ ~IsSeq /\ main = "loop" /\ wk[w].pc = "done"
  /\ inprog' = inprog - 1
  /\ wk' = [wk EXCEPT ![w] = Idle]
  /\ IF inprog' = 0 /\ nxt = NoItem THEN main' = "ret" /\ result' = OkRes ELSE UNCHANGED <<main, result>>
  /\ UNCHANGED <<cfg, set, visited, nfetch, local, provided, calls, returned, stack, nxt, todo, dev>>

ErrRecv(w) ==                                              \* `err := <-errChan`
  /\ ~IsSeq /\ main = "loop" /\ wk[w].pc = "err"
  /\ result' = wk[w].err /\ main' = "ret" /\ wk' = [wk EXCEPT ![w].pc = "exit"]
  /\ UNCHANGED <<cfg, set, visited, nfetch, local, provided, calls, returned, stack, nxt, todo, inprog, dev>>

\* deferred close(feed), cancel(), wg.Wait(): workers in the middle of a node finish their callbacks,
\* everybody else is parked on a channel operation and exits
Parked == {"idle", "out", "done", "err", "exit"}
Finish ==
  /\ main = "ret" /\ ~returned /\ \A w \in Workers : wk[w].pc \in Parked
  /\ returned' = TRUE /\ wk' = [w \in Workers |-> [wk[w] EXCEPT !.pc = "exit"]]
  /\ UNCHANGED <<cfg, set, visited, nfetch, local, provided, calls, result, main, stack, nxt, todo, inprog, dev>>

Terminated == returned /\ UNCHANGED vars

MinIdle(w) == wk[w].pc = "idle" /\ \A v \in Workers : v < w => wk[v].pc # "idle"
WorkerStep(w) == WVisit(w) \/ WFetch(w) \/ WFetchRet(w) \/ WFetchCancelled(w) \/ WFetchCancelledHazHandled(w)
                 \/ WHandle(w) \/ WHandleDevRoot(w) \/ WHandleDevCrash(w)
                 \/ WCallback(w) \/ WProvide(w) \/ WProvideDevRoot(w)
Next == \/ ~returned /\ \E w \in Workers : WorkerStep(w)
        \/ SeqDescend \/ SeqReturn \/ SeqErr
        \/ \E w \in Workers : (MinIdle(w) /\ Dispatch(w)) \/ Collect(w) \/ Done(w) \/ ErrRecv(w)
        \/ Finish \/ Terminated
Spec == Init /\ [][Next]_vars /\ WF_vars(Next)

(* ---------------- the property ------------------------------------------------------------------- *)
Fails == {i \in Nodes : cfg.status[i] # "ok"}
OkEnd == returned /\ result = OkRes

TypeOK == /\ visited \subseteq Nodes /\ local \subseteq Nodes
          /\ main \in {"loop", "ret"} /\ inprog \in 0..(IF IsSeq THEN 0 ELSE cfg.conc)
          /\ (nxt = NoItem => todo = <<>>)
\* nothing outside the reachable part is ever visited, and never beyond the depth limit
VisitedSafe  == returned => visited \subseteq Reach /\ (cfg.skip => Root \notin visited)
\* a completed walk visited exactly the reachable nodes (shortest distance <= limit)
VisitedExact == OkEnd => visited = Reach \ (IF cfg.skip THEN {Root} ELSE {})
\* ... having recorded the shortest distance of each
DepthShortest == OkEnd /\ cfg.lim >= 0 => \A i \in visited : set[i] = DistOf(cfg, i)
\* every visited node is fetched at least once; without a depth limit exactly once
FetchedExact == /\ returned => \A i \in Nodes : (nfetch[i] > 0) => i \in Walked
                /\ OkEnd => \A i \in Nodes : (nfetch[i] > 0) = (i \in Walked)
                /\ OkEnd /\ cfg.lim < 0 => \A i \in Walked : nfetch[i] = 1
\* fetch-graph leaves exactly the reachable, obtainable blocks local (plus what was local before)
LocalExact == /\ returned => local \subseteq Local0Of(cfg) \cup (Reach \ Fails)
              /\ OkEnd => local = Local0Of(cfg) \cup (Reach \ Fails)
\* handlers and callbacks get the CID whose fetch failed, and run as composed in option order
HandlerCidRight == \A j \in 1..Len(calls) : calls[j].c = calls[j].at
HandlerCallsRight == returned =>
     ToSet(calls) \subseteq UNION {ToSet(Compose(cfg.hs, cfg.oer, i, i, E(i)).calls) : i \in Walked \cap Fails}
\* a handler / callback runs only for a node whose OWN fetch failed, with that node's CID and that fetch's error
\* (as transformed by the options given before it): a walk that ends early reports nothing for the nodes whose
\* fetches were merely in flight, and nothing that is not a fetch failure (e.g. its own cancellation)
HandlerOwnFailure == \A j \in 1..Len(calls) :
     /\ calls[j].at \in Nodes /\ cfg.status[calls[j].at] # "ok" /\ nfetch[calls[j].at] > 0
     /\ calls[j] \in ToSet(Compose(cfg.hs, cfg.oer, calls[j].at, calls[j].at, E(calls[j].at)).calls)
\* the provider is asked to announce exactly the walked nodes, once per fetch
ProvidedExact == /\ \A i \in Nodes : provided[i] <= nfetch[i]
                 /\ ~cfg.prov => \A i \in Nodes : provided[i] = 0
                 /\ OkEnd /\ cfg.prov => \A i \in Nodes : provided[i] = nfetch[i]
\* the walk fails iff a reachable node's failure is not swallowed by the configured handlers
ResultRight == returned /\ result.k # "crash" =>
     /\ (result = OkRes) = (\A i \in Reach : ~PropagatesOf(cfg, i))
     /\ result # OkRes => \E i \in Reach : PropagatesOf(cfg, i)
                                           /\ result = (IF cfg.hs = <<>> THEN E(i) ELSE Compose(cfg.hs, cfg.oer, i, i, E(i)).e)
\* any subset / order of the options can be used together
NoHandlerCrash == result.k # "crash"
Termination == <>returned
=============================================================================
