SPECIFICATION GSpec
CONSTANTS Devs = {}
          Cases <- GQuick
INVARIANTS Emit VisitedExact DepthShortest FetchedExact LocalExact ProvidedExact ResultRight HandlerCallsRight
