SPECIFICATION GSpec
CONSTANTS Devs = {}
          Cases <- GSel
          Family = "GQuick"
INVARIANTS Emit VisitedExact DepthShortest FetchedExact LocalExact ProvidedExact ResultRight HandlerCallsRight HandlerOwnFailure
