----------------------------- MODULE GenDagWalk -----------------------------
(* Phase G: the sequential walk (sequentialWalkDepth) is deterministic, so every configuration has
   exactly one behaviour; it is printed as the exact sequence of observable callback invocations
   (visit / getLinks / OnMissing / OnError / StartProviding) plus the terminal observables.
   Case sources: the G families of MCDagWalk (exhaustive) and cases.ndjson (larger DAGs sampled by the driver;
   the expected behaviour is still computed by this spec). *)
EXTENDS MCDagWalk
VARIABLE hist
gvars == <<vars, hist>>

FileCases == LET s == ndJsonDeserialize("cases.ndjson") IN {s[i] : i \in 1..Len(s)}
GSel == MCSel \cup FileCases

Log(e) == hist' = Append(hist, e)
GNext ==
  \/ /\ WVisit(0)
     /\ IF cfg.skip /\ wk[0].d = 0 THEN UNCHANGED hist
        ELSE Log([ev |-> "Visit", c |-> wk[0].c, d |-> wk[0].d, ret |-> (wk'[0].pc = "fetch")])
  \/ WFetch(0) /\ Log([ev |-> "Fetch", c |-> wk[0].c, st |-> cfg.status[wk[0].c]])
  \/ WFetchRet(0) /\ UNCHANGED hist        \* sequential: nothing can happen between the call and its return
  \/ WHandle(0) /\ UNCHANGED hist
  \/ WCallback(0) /\ LET cb == Head(wk[0].cbq) IN Log([ev |-> cb.cb, c |-> cb.c, e |-> cb.e])
  \/ WProvide(0) /\ Log([ev |-> "Provide", c |-> wk[0].c])
  \/ (SeqDescend \/ SeqReturn \/ SeqErr \/ Finish) /\ UNCHANGED hist
GInit == Init /\ hist = <<>>
GSpec == GInit /\ [][GNext]_gvars

Emit == ~returned \/ PrintT(<<"BEHAVIOUR", ToJson([cfg |-> cfg, events |-> hist, result |-> result,
                                                   local |-> local, visited |-> visited,
                                                   nfetch |-> nfetch, provided |-> provided])>>)
=============================================================================
