SPECIFICATION GSpec
CONSTANTS Devs = {}
          RootOk = FALSE
          Cases <- GenCasesA
          MCN = 3
          MCStatus = {"ok", "missing"}
          MCLims <- Lims2
          MCConcs = {0, 1}
          MCSkips = {FALSE, TRUE}
          MCHandlerLists <- HL_Shape
          MCOers = {"same"}
          MCProvs = {TRUE}
INVARIANTS Emit VisitedExact DepthShortest FetchedExact LocalExact ProvidedExact ResultRight
