SPECIFICATION GSpec
CONSTANTS Devs = {}
          RootOk = FALSE
          Cases <- GenCasesA
          MCN = 4
          MCStatus = {"ok", "missing"}
          MCLims <- Lims3
          MCConcs = {1}
          MCSkips = {FALSE, TRUE}
          MCHandlerLists <- HL_Shape
          MCOers = {"same"}
          MCProvs = {TRUE}
INVARIANTS Emit VisitedExact DepthShortest FetchedExact LocalExact ProvidedExact ResultRight
