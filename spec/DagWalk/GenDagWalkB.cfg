SPECIFICATION GSpec
CONSTANTS Devs = {}
          RootOk = TRUE
          Cases <- GenCasesB
          MCN = 3
          MCStatus = {"ok", "missing", "bad"}
          MCLims <- LimNone
          MCConcs = {1}
          MCSkips = {FALSE}
          MCHandlerLists <- HL_2
          MCOers = {"same", "nil", "wrap"}
          MCProvs = {TRUE}
INVARIANTS Emit VisitedExact FetchedExact LocalExact ProvidedExact ResultRight HandlerCallsRight
