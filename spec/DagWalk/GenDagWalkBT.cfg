SPECIFICATION GSpec
CONSTANTS Devs = {}
          RootOk = FALSE
          Cases <- GenCasesB
          MCN = 3
          MCStatus = {"ok", "missing", "bad"}
          MCLims <- LimNone
          MCConcs = {1}
          MCSkips = {FALSE, TRUE}
          MCHandlerLists <- HL_All
          MCOers = {"same", "nil", "wrap"}
          MCProvs = {TRUE}
INVARIANTS Emit VisitedExact FetchedExact LocalExact ProvidedExact ResultRight HandlerCallsRight
