SPECIFICATION GSpec
CONSTANTS Devs = {}
          RootOk = FALSE
          Cases <- FileCases
          MCN = 1
          MCStatus = {"ok"}
          MCLims <- LimNone
          MCConcs = {1}
          MCSkips = {FALSE}
          MCHandlerLists <- HL_Shape
          MCOers = {"same"}
          MCProvs = {TRUE}
INVARIANTS Emit VisitedExact DepthShortest FetchedExact LocalExact ProvidedExact ResultRight HandlerCallsRight
