SPECIFICATION GSpec
CONSTANTS Devs = {}
          Cases <- GSel
          Family = "GThorough"
INVARIANTS Emit VisitedExact DepthShortest FetchedExact LocalExact ProvidedExact ResultRight HandlerCallsRight HandlerOwnFailure
