SPECIFICATION GSpec
CONSTANTS Devs = {}
          Cases <- GThorough
INVARIANTS Emit VisitedExact DepthShortest FetchedExact LocalExact ProvidedExact ResultRight HandlerCallsRight
