SPECIFICATION Spec
CONSTANTS Devs = {}
          Cases <- MCSel
          Family = "MQuick"
INVARIANTS TypeOK VisitedSafe VisitedExact DepthShortest FetchedExact LocalExact HandlerCidRight HandlerOwnFailure
           HandlerCallsRight ProvidedExact ResultRight NoHandlerCrash
