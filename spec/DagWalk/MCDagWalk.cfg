SPECIFICATION Spec
CONSTANTS Devs = {}
          Cases <- MQuick
INVARIANTS TypeOK VisitedSafe VisitedExact DepthShortest FetchedExact LocalExact HandlerCidRight
           HandlerCallsRight ProvidedExact ResultRight NoHandlerCrash
PROPERTY Termination
