SPECIFICATION Spec
CONSTANTS Devs = {}
          Cases <- MCSel
          Family = "MQuick"
INVARIANTS TypeOK VisitedSafe VisitedExact DepthShortest FetchedExact LocalExact HandlerCidRight
           HandlerCallsRight ProvidedExact ResultRight NoHandlerCrash
