----------------------------- MODULE MCDagWalk -----------------------------
(* Phase M case spaces for DagWalk: every DAG on MCN nodes (ordered link lists without repetition,
   sharing and unreachable nodes included), every status assignment, depth limits, concurrency,
   SkipRoot, handler-option lists, OnError behaviours. *)
EXTENDS DagWalk
CONSTANTS MCN, MCStatus, MCLims, MCConcs, MCSkips, MCHandlerLists, MCOers, MCProvs

\* all sequences of distinct elements of S
SeqsOver(S) == UNION {{s \in [1..k -> S] : \A i, j \in 1..k : i # j => s[i] # s[j]} : k \in 0..Cardinality(S)}
AllLinkLists == SeqsOver(2..MCN)
Graphs == {g \in [1..MCN -> AllLinkLists] : \A i \in 1..MCN : g[i] \in SeqsOver((i + 1)..MCN)}

\* handler-option lists: all sequences of distinct options up to the given length
HandlerOpts == {"IgnoreErrors", "IgnoreMissing", "OnMissing", "OnError"}
ListsUpTo(m) == {s \in SeqsOver(HandlerOpts) : Len(s) <= m}

Lims2 == -1..2
Lims3 == -1..3
LimNone == {-1}
HL_Shape == {<<>>, <<"IgnoreMissing">>, <<"OnMissing", "IgnoreErrors">>}
HL_2     == ListsUpTo(2)
HL_All   == ListsUpTo(4)

MCCases ==
  {[n |-> MCN, links |-> g, status |-> st, loc |-> [i \in 1..MCN |-> i % 2 = 0], lim |-> lim, conc |-> cc,
    skip |-> sk, hs |-> hs, oer |-> oer, prov |-> pv] :
     g \in Graphs, st \in [1..MCN -> MCStatus], lim \in MCLims, cc \in MCConcs, sk \in MCSkips,
     hs \in MCHandlerLists, oer \in MCOers, pv \in MCProvs}
\* the OnError behaviour only matters when OnError is configured
MCCasesNorm == {c \in MCCases : c.oer = "same" \/ "OnError" \in ToSet(c.hs)}
=============================================================================
