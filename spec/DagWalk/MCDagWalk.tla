----------------------------- MODULE MCDagWalk -----------------------------
(* Phase M / G case spaces for DagWalk: every DAG on N nodes (ordered link lists without repetition,
   sharing and unreachable nodes included), every status assignment, depth limits, concurrency,
   SkipRoot, handler-option lists (every order), OnError behaviours.  A family is the full product
   of its dimensions; the named case sets are unions of families. *)
EXTENDS DagWalk

\* all sequences of distinct elements of S
SeqsOver(S) == UNION {{s \in [1..k -> S] : \A i, j \in 1..k : i # j => s[i] # s[j]} : k \in 0..Cardinality(S)}
\* all DAGs on 1..N as tuples of link lists (node i links only to larger nodes)
GraphsOn(N) == LET S == [i \in 1..N |-> SeqsOver((i + 1)..N)]
                   RECURSIVE G(_)
                   G(i) == IF i > N THEN {<<>>} ELSE {<<s>> \o t : s \in S[i], t \in G(i + 1)}
               IN G(1)
\* every node reachable from the root
Connected(g) == \A i \in 2..Len(g) : \E p \in 1..(i - 1) : i \in ToSet(g[p])

HandlerOpts == {"IgnoreErrors", "IgnoreMissing", "OnMissing", "OnError"}
ListsUpTo(m) == {s \in SeqsOver(HandlerOpts) : Len(s) <= m}
HL_Shape == {<<>>, <<"IgnoreMissing">>, <<"OnMissing", "IgnoreErrors">>}
AllOers  == {"same", "nil", "wrap"}
St2 == {"ok", "missing"}
St3 == {"ok", "missing", "bad"}

Fam(N, graphs, Status, Lims, Concs, Skips, HLs, Oers, Provs) ==
  {[n |-> N, links |-> g, status |-> st, loc |-> [i \in 1..N |-> i % 2 = 0], lim |-> lim, conc |-> cc,
    skip |-> sk, hs |-> hs, oer |-> oer, prov |-> pv] :
     g \in graphs, st \in [1..N -> Status], lim \in Lims, cc \in Concs, sk \in Skips,
     hs \in HLs, oer \in Oers, pv \in Provs}
\* the OnError behaviour only matters when OnError is configured
Norm(S) == {c \in S : c.oer = "same" \/ "OnError" \in ToSet(c.hs)}

\* TLC evaluates every parameterless constant definition at start-up, whatever the configuration uses; the
\* families therefore take a dummy parameter and the configuration selects one by name (CONSTANT Family).
CONSTANT Family
HL_Miss == {<<>>, <<"IgnoreMissing">>}
RootOk(S) == {c \in S : c.status[1] = "ok"}
ConnG(N)  == {g \in GraphsOn(N) : Connected(g)}

\* ---- M ---------------------------------------------------------------------------------------
ShapeQ(u) == Fam(3, GraphsOn(3), St2, -1..2, {1, 2}, BOOLEAN, HL_Shape, {"same"}, {TRUE})
HandQ(u)  == Fam(2, GraphsOn(2), St3, {-1}, {1, 2}, {FALSE}, ListsUpTo(2), AllOers, BOOLEAN)
MShape4(u) == Fam(4, GraphsOn(4), St2, {-1, 1, 2}, {2}, {FALSE}, HL_Miss, {"same"}, {TRUE})
MConc3(u)  == Fam(3, GraphsOn(3), St2, -1..2, {3}, {FALSE}, HL_Shape, {"same"}, {TRUE})
MHand(u)   == Fam(2, GraphsOn(2), St3, {-1}, {1, 2}, {FALSE}, ListsUpTo(4), AllOers, BOOLEAN)
MHaz(u)    == Fam(3, GraphsOn(3), St2, {-1}, {2}, {FALSE}, {<<"OnError">>, <<"OnMissing", "OnError">>}, {"same"}, {FALSE})
MDev(u)    == Fam(3, GraphsOn(3), St2, {-1}, {2}, {FALSE}, HL_Shape, {"same"}, {TRUE})

\* ---- G (sequential walks only) ---------------------------------------------------------------
GShapeQ(u) == Fam(3, GraphsOn(3), St2, -1..2, {0, 1}, BOOLEAN, HL_Shape, {"same"}, {TRUE})
GHandQ(u)  == RootOk(Fam(3, ConnG(3), St3, {-1}, {1}, {FALSE}, ListsUpTo(2), AllOers, {TRUE}))
GShapeT(u) == Fam(4, GraphsOn(4), St2, -1..3, {1}, {FALSE}, HL_Miss, {"same"}, {TRUE}) \cup GShapeQ(u)
GHandT(u)  == Fam(3, ConnG(3), St3, {-1}, {1}, {FALSE}, ListsUpTo(4), AllOers, {TRUE})

MCSel == Norm(CASE Family = "MQuick"  -> ShapeQ(0) \cup HandQ(0)
                [] Family = "MShape4" -> MShape4(0)
                [] Family = "MConc3"  -> MConc3(0)
                [] Family = "MHand"   -> MHand(0)
                [] Family = "MDev"    -> MDev(0)
                [] Family = "MHaz"    -> MHaz(0)
                [] Family = "GQuick"    -> GShapeQ(0) \cup GHandQ(0)
                [] Family = "GThorough" -> GShapeT(0) \cup GHandT(0)
                [] OTHER -> {})
=============================================================================
