SPECIFICATION Spec
CONSTANTS Devs = {}
          Cases <- MCCasesNorm
          MCN = 3
          MCStatus = {"ok", "missing"}
          MCLims <- Lims2
          MCConcs = {3}
          MCSkips = {FALSE, TRUE}
          MCHandlerLists <- HL_Shape
          MCOers = {"same"}
          MCProvs = {TRUE}
INVARIANTS TypeOK VisitedSafe VisitedExact DepthShortest FetchedExact LocalExact HandlerCidRight
           HandlerCallsRight ProvidedExact ResultRight NoHandlerCrash
PROPERTY Termination
