SPECIFICATION Spec
CONSTANTS Devs = {}
          Cases <- MCSel
          Family = "MConc3"
INVARIANTS TypeOK VisitedSafe VisitedExact DepthShortest FetchedExact LocalExact HandlerCidRight HandlerOwnFailure
           HandlerCallsRight ProvidedExact ResultRight NoHandlerCrash
PROPERTY Termination
