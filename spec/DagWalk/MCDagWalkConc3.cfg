SPECIFICATION Spec
CONSTANTS Devs = {}
          Cases <- MConc3
INVARIANTS TypeOK VisitedSafe VisitedExact DepthShortest FetchedExact LocalExact HandlerCidRight
           HandlerCallsRight ProvidedExact ResultRight NoHandlerCrash
PROPERTY Termination
