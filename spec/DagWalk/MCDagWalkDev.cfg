SPECIFICATION Spec
CONSTANTS Devs = {"Dev_C12_ParallelRootCid", "Dev_C12_HandlerSelfRecursion"}
          Cases <- MCSel
          Family = "MDev"
INVARIANTS TypeOK VisitedSafe VisitedExact DepthShortest FetchedExact LocalExact HandlerCidRight HandlerOwnFailure
           HandlerCallsRight ProvidedExact ResultRight NoHandlerCrash
