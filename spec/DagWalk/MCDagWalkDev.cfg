SPECIFICATION Spec
CONSTANTS Devs = {"Dev_C12_ParallelRootCid", "Dev_C12_HandlerSelfRecursion"}
          Cases <- MCCasesNorm
          MCN = 3
          MCStatus = {"ok", "missing"}
          MCLims <- LimNone
          MCConcs = {2}
          MCSkips = {FALSE}
          MCHandlerLists <- HL_Shape
          MCOers = {"same"}
          MCProvs = {TRUE}
INVARIANTS TypeOK VisitedSafe VisitedExact DepthShortest FetchedExact LocalExact HandlerCidRight
           HandlerCallsRight ProvidedExact ResultRight NoHandlerCrash

