SPECIFICATION Spec
CONSTANTS Devs = {"Dev_C12_ParallelRootCid", "Dev_C12_HandlerSelfRecursion"}
          Cases <- MDev
INVARIANTS TypeOK VisitedSafe VisitedExact DepthShortest FetchedExact LocalExact HandlerCidRight
           HandlerCallsRight ProvidedExact ResultRight NoHandlerCrash
