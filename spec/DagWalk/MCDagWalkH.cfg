SPECIFICATION Spec
CONSTANTS Devs = {}
          Cases <- MCCasesNorm
          MCN = 2
          MCStatus = {"ok", "missing", "bad"}
          MCLims <- LimNone
          MCConcs = {1, 2}
          MCSkips = {FALSE}
          MCHandlerLists <- HL_2
          MCOers = {"same", "nil", "wrap"}
          MCProvs = {TRUE, FALSE}
INVARIANTS TypeOK VisitedSafe VisitedExact DepthShortest FetchedExact LocalExact HandlerCidRight
           HandlerCallsRight ProvidedExact ResultRight NoHandlerCrash

