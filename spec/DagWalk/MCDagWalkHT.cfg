SPECIFICATION Spec
CONSTANTS Devs = {}
          Cases <- MCCasesNorm
          MCN = 3
          MCStatus = {"ok", "missing", "bad"}
          MCLims <- LimNone
          MCConcs = {1, 3}
          MCSkips = {FALSE, TRUE}
          MCHandlerLists <- HL_All
          MCOers = {"same", "nil", "wrap"}
          MCProvs = {TRUE, FALSE}
INVARIANTS TypeOK VisitedSafe VisitedExact DepthShortest FetchedExact LocalExact HandlerCidRight
           HandlerCallsRight ProvidedExact ResultRight NoHandlerCrash
PROPERTY Termination
