SPECIFICATION Spec
CONSTANTS Devs = {}
          Cases <- MHand
INVARIANTS TypeOK VisitedSafe VisitedExact DepthShortest FetchedExact LocalExact HandlerCidRight
           HandlerCallsRight ProvidedExact ResultRight NoHandlerCrash
