SPECIFICATION Spec
CONSTANTS Devs = {}
          Cases <- MCSel
          Family = "MHand"
INVARIANTS TypeOK VisitedSafe VisitedExact DepthShortest FetchedExact LocalExact HandlerCidRight HandlerOwnFailure
           HandlerCallsRight ProvidedExact ResultRight NoHandlerCrash
