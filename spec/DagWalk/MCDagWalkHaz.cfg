SPECIFICATION Spec
CONSTANTS Devs = {"Haz_C12_CancelledFetchHandled"}
          Cases <- MCSel
          Family = "MHaz"
INVARIANTS TypeOK VisitedSafe HandlerCidRight HandlerOwnFailure
