SPECIFICATION Spec
CONSTANTS Devs = {}
          Cases <- MCSel
          Family = "MShape4"
INVARIANTS TypeOK VisitedSafe VisitedExact DepthShortest FetchedExact LocalExact HandlerCidRight
           HandlerCallsRight ProvidedExact ResultRight NoHandlerCrash
