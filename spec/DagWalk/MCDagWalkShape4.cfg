SPECIFICATION Spec
CONSTANTS Devs = {}
          Cases <- MCSel
          Family = "MShape4"
INVARIANTS TypeOK VisitedSafe VisitedExact DepthShortest FetchedExact LocalExact HandlerCidRight HandlerOwnFailure
           HandlerCallsRight ProvidedExact ResultRight NoHandlerCrash
