SPECIFICATION TSpec
CONSTANTS Devs = @DEVS@
          Cases = {}
INVARIANTS TypeOK VisitedSafe VisitedExact DepthShortest FetchedExact LocalExact HandlerCidRight HandlerOwnFailure THandlerCallsRight
           TProvidedExact TResultRight DevReport
CONSTRAINT TraceConstraint
POSTCONDITION TracePost
CHECK_DEADLOCK FALSE
