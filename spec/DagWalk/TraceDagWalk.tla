---------------------------- MODULE TraceDagWalk ----------------------------
(* Phase T: histories recorded from the real Walk / WalkDepth (one event per callback the walk
   makes: visit, getLinks call (Fetch) and return (FetchRet), OnMissing, OnError, StartProviding, plus Return; `w` = the goroutine
   that made the call) must be behaviours of DagWalk.

   Logged events drive the worker-side actions of DagWalk directly (WVisit, WFetch, WCallback,
   WProvide), every logged argument/result is compared with the model.  The unlogged steps are
   silent actions (l unchanged), scheduled deterministically:
     - TDispatch  any pending item may be handed to the idle worker whose visit comes next in the
                  trace (the code dispatches in FIFO order; the walk order is "not guaranteed", so
                  the trace spec accepts any dispatch order, see DispatchAt),
     - Collect / Done / WHandle / sequential control happen eagerly (they commute with the other
       workers' steps), ErrRecv lazily just before the logged Return.
   Terminal invariants of DagWalk (VisitedExact, FetchedExact, ProvidedExact, ResultRight, ...)
   are evaluated on every state, hence on the terminal state of every recorded walk.

   "FG" events are whole FetchGraphWithDepthLimit runs over a real DAGService with concurrent
   workers, where the visit function is internal: their terminal observables (walk error, local
   blockstore contents, provider calls, handler calls) are compared with the reference operators. *)
EXTENDS DagWalk

Trace == ndJsonDeserialize("trace.ndjson")
VARIABLES l,        \* index of the next trace event
          devAll    \* deviations used by earlier walks of this trace (dev = those of the current walk)
tvars == <<vars, l, devAll>>
ASSUME TLCSet(1, 0)

HasEv == l <= Len(Trace)
Ev == Trace[l]
IsEvent(e) == HasEv /\ Trace[l].ev = e /\ l' = l + 1
Silent == l' = l

CfgOf(e) == [n |-> e.n, links |-> e.links, status |-> e.status, loc |-> e.loc, lim |-> e.lim,
             conc |-> e.conc, skip |-> e.skip, hs |-> e.hs, oer |-> e.oer, prov |-> e.prov]
Dummy == [n |-> 1, links |-> << <<>> >>, status |-> <<"ok">>, loc |-> <<FALSE>>, lim |-> -1, conc |-> 1,
          skip |-> FALSE, hs |-> <<>>, oer |-> "same", prov |-> FALSE]

\* before the first Reset: the terminal state of a trivial one-node walk
TInit == /\ l = 1 /\ devAll = {} /\ cfg = Dummy
         /\ set = <<0>> /\ visited = {1} /\ nfetch = <<1>> /\ provided = <<0>> /\ local = {1}
         /\ calls = <<>> /\ result = OkRes /\ returned = TRUE /\ main = "ret"
         /\ stack = <<>> /\ todo = <<>> /\ inprog = 0 /\ dev = {} /\ nxt = NoItem
         /\ wk = [w \in {0} |-> [Idle EXCEPT !.pc = "exit"]]

\* a new walk starts only after the previous one has returned
TReset == /\ IsEvent("Reset") /\ returned
          /\ StartWith(CfgOf(Ev)) /\ dev' = {} /\ devAll' = devAll \cup dev

W == Ev.w
\* no internal step is outstanding (they are taken eagerly, before the next event is consumed)
MayCrash == D7 \in Devs /\ Len(cfg.hs) >= 2
Quiet == /\ \A w \in Workers : wk[w].pc = "handle" => MayCrash
         /\ main = "loop" => \A w \in Workers : wk[w].pc \notin {"out", "done"}
         /\ IsSeq /\ main = "loop" => wk[0].pc \notin {"desc", "done", "err"}
Live == ~returned /\ HasEv /\ Quiet /\ W \in Workers

\* ---- silent steps ------------------------------------------------------------------------
FirstMatch(q, c, d) == CHOOSE k \in 1..Len(q) : q[k] = [c |-> c, d |-> d] /\ \A j \in 1..(k - 1) : q[j] # q[k]
TDispatch ==                       \* hand the item of the upcoming Visit (or skipped-root Fetch) to its worker
  /\ ~returned /\ HasEv /\ Quiet /\ ~IsSeq /\ W \in Workers /\ wk[W].pc = "idle"
  /\ \/ Ev.ev = "Visit" /\ [c |-> Ev.c, d |-> Ev.d] \in ToSet(Pending)
        /\ DispatchAt(W, FirstMatch(Pending, Ev.c, Ev.d))
     \/ Ev.ev = "Fetch" /\ cfg.skip /\ Ev.c = Root /\ [c |-> Root, d |-> 0] \in ToSet(Pending)
        /\ DispatchAt(W, FirstMatch(Pending, Root, 0))
  /\ Silent
TSkipRootVisit ==                  \* the SkipRoot bypass makes no visit call
  /\ ~returned /\ cfg.skip /\ \E w \in Workers : wk[w].pc = "visit" /\ wk[w].d = 0 /\ WVisit(w)
  /\ Silent
EagerMain(w) ==                   \* receive on out / done as soon as the worker offers it
  /\ wk[w].pc \in {"out", "done"}
  /\ main = "loop"
  /\ \A v \in Workers : (v < w => wk[v].pc \notin {"out", "done"})
  /\ (Collect(w) \/ Done(w))
EagerHandle(w) ==                 \* the composed error handler runs (unless the process is about to die)
  /\ wk[w].pc = "handle"
  /\ ~(HasEv /\ Ev.ev = "Crash")
  /\ (WHandle(w) \/ WHandleDevRoot(w))
TEager ==
  /\ ~returned
  /\ Silent
  /\ \/ \E w \in Workers : EagerMain(w)
     \/ \E w \in Workers : EagerHandle(w)
     \/ SeqDescend
     \/ SeqReturn
     \/ SeqErr
SameErr(a, b) == a.k = b.k /\ a.n = b.n
\* A cancelled fetch shows that the dispatcher has already taken an error and returned (nothing else cancels a
\* walk-owned context).  Items it had handed out before that are still visited afterwards: a worker that is idle
\* in the model but whose next logged event belongs to this walk got its item before the dispatcher returned.
EndEvs == {"Return", "Reset", "Hang", "Crash", "FG"}
CancelSeen == HasEv /\ Ev.ev = "FetchRet" /\ Ev.st = "cancelled"
NextOf(w) == LET S == {k \in l..Len(Trace) : Trace[k].w = w \/ Trace[k].ev \in EndEvs}
             IN  IF S = {} THEN 0 ELSE CHOOSE k \in S : \A j \in S : k <= j
Owed(w) == /\ wk[w].pc = "idle"
           /\ LET k == NextOf(w) IN k > 0 /\ Trace[k].w = w /\ Trace[k].ev \notin EndEvs
TDispatchOwed ==
  /\ ~returned /\ CancelSeen /\ Quiet /\ ~IsSeq /\ main = "loop"
  /\ \E w \in Workers :
       /\ Owed(w)
       /\ \A v \in Workers : v < w => ~Owed(v)
       /\ LET e == Trace[NextOf(w)]
              d == IF e.ev = "Visit" THEN e.d ELSE 0            \* a skipped root's first event is its Fetch
          IN  /\ [c |-> e.c, d |-> d] \in ToSet(Pending)
              /\ DispatchAt(w, FirstMatch(Pending, e.c, d))
  /\ Silent
TErrRecv ==                        \* the dispatcher takes one worker's error; seen only through Return ...
  /\ ~returned /\ HasEv /\ Quiet /\ main = "loop"
  /\ Ev.ev = "Return" \/ (CancelSeen /\ \A w \in Workers : ~Owed(w))    \* ... or through a cancelled sibling fetch
  /\ \E w \in Workers : /\ wk[w].pc = "err"
                        /\ Ev.ev = "Return" => SameErr(wk[w].err, Ev.res)
                        /\ ErrRecv(w)
  /\ Silent

\* ---- logged events -----------------------------------------------------------------------
TVisit == /\ Live /\ IsEvent("Visit")
          /\ wk[W].pc = "visit" /\ wk[W].c = Ev.c /\ wk[W].d = Ev.d /\ ~(cfg.skip /\ Ev.d = 0)
          /\ WVisit(W) /\ Ev.ret = (wk'[W].pc = "fetch")
TFetch == /\ Live /\ IsEvent("Fetch")
          /\ wk[W].pc = "fetch" /\ wk[W].c = Ev.c /\ Ev.st = cfg.status[Ev.c]
          /\ WFetch(W)
\* getLinks returned: Ev.st is what the harness's fetcher really returned ("cancelled" = the context it was
\* given was done: the fetcher honours cancellation).  The caller's context is never cancelled in recorded runs,
\* so a cancelled fetch is only possible once the walk is ending, and nothing may be reported for it.
TFetchRet == /\ Live /\ IsEvent("FetchRet")
             /\ wk[W].pc = "infl" /\ wk[W].c = Ev.c
             /\ IF Ev.st = "cancelled" THEN WFetchCancelled(W)
                ELSE Ev.st = cfg.status[Ev.c] /\ WFetchRet(W)
TCallback == /\ Live /\ (IsEvent("OnMissing") \/ IsEvent("OnError"))
             /\ wk[W].pc = "cb"
             /\ LET cb == Head(wk[W].cbq) IN /\ cb.cb = Ev.ev /\ cb.c = Ev.c
                                           /\ Ev.ev = "OnError" => SameErr(cb.e, Ev.e)   \* OnMissing gets no error
             /\ WCallback(W)
TProvide == /\ Live /\ IsEvent("Provide") /\ wk[W].pc = "provide"
            /\ \/ Ev.c = wk[W].c /\ WProvide(W)
               \/ Ev.c = Root /\ WProvideDevRoot(W)
TReturn == /\ IsEvent("Return") /\ main = "ret" /\ SameErr(result, Ev.res) /\ Finish
TCrash == /\ ~returned /\ IsEvent("Crash")                 \* the test process died with a stack overflow
          /\ \E w \in Workers : WHandleDevCrash(w)

\* ---- FG: terminal observables of a concurrent FetchGraphWithDepthLimit run ----------------
ErrOfNode(c, i) == [k |-> c.status[i], n |-> i]
FGCalls(c, carg(_)) == UNION {ToSet(Compose(c.hs, c.oer, carg(i), i, ErrOfNode(c, i)).calls)
                                : i \in {j \in ReachOf(c) : c.status[j] # "ok"}}
Proj(cs) == {[cb |-> x.cb, c |-> x.c, e |-> IF x.cb = "OnMissing" THEN Nil ELSE x.e] : x \in cs}
LoggedCalls == {[cb |-> Ev.calls[j].cb, c |-> Ev.calls[j].c, e |-> [k |-> Ev.calls[j].e.k, n |-> Ev.calls[j].e.n]]
                  : j \in 1..Len(Ev.calls)}
FGOk == Ev.res.k = "ok"
\* what was fetched and what is local afterwards
FGState(c) ==
  LET reach == ReachOf(c)
      fails == {i \in reach : c.status[i] # "ok"}
      full  == Local0Of(c) \cup (reach \ fails)
  IN /\ ToSet(Ev.local) \subseteq full /\ Local0Of(c) \subseteq ToSet(Ev.local)
     /\ FGOk => ToSet(Ev.local) = full                                  \* fetch-graph leaves exactly these local
     /\ ToSet(Ev.fetched) \subseteq reach /\ (FGOk => ToSet(Ev.fetched) = reach)
     /\ FGOk /\ c.lim < 0 => Len(Ev.fetched) = Cardinality(reach)       \* each exactly once without a depth limit
\* walk error and user callbacks, when the composed handler is given carg(i) for failing node i
FGHandlers(c, carg(_)) ==
  LET prop == {i \in ReachOf(c) : PropagatesOf(c, i)}
      errOf(i) == IF c.hs = <<>> THEN ErrOfNode(c, i) ELSE Compose(c.hs, c.oer, carg(i), i, ErrOfNode(c, i)).e
  IN /\ FGOk = (prop = {})
     /\ ~FGOk => \E i \in prop : SameErr(errOf(i), Ev.res)
     /\ LoggedCalls \subseteq Proj(FGCalls(c, carg))
     /\ FGOk => LoggedCalls = Proj(FGCalls(c, carg))
FGIdealProv(c) ==
     /\ ~c.prov => Ev.provided = <<>>
     /\ ToSet(Ev.provided) \subseteq ToSet(Ev.fetched)
     /\ c.prov /\ FGOk => ToSet(Ev.provided) = ToSet(Ev.fetched) /\ Len(Ev.provided) = Len(Ev.fetched)
\* as built (D6): the provider is asked for the root every time
FGDevProv(c)  == /\ c.prov /\ ToSet(Ev.provided) \subseteq {Root} /\ Len(Ev.provided) <= Len(Ev.fetched)
                 /\ FGOk => Len(Ev.provided) = Len(Ev.fetched)
TFG == /\ IsEvent("FG") /\ returned
       /\ LET c == CfgOf(Ev) IN
          /\ c.conc > 1
          /\ \/ /\ Ev.res.k = "crash" /\ D7 \in Devs /\ Len(c.hs) >= 2
                /\ \E i \in ReachOf(c) : c.status[i] # "ok"
                /\ dev' = dev \cup {D7}
             \/ /\ Ev.res.k # "crash" /\ FGState(c)
                /\ \E dc \in BOOLEAN, dp \in BOOLEAN :
                     /\ IF dc THEN D6 \in Devs /\ ~FGHandlers(c, LAMBDA i : i) /\ FGHandlers(c, LAMBDA i : Root)
                              ELSE FGHandlers(c, LAMBDA i : i)
                     /\ IF dp THEN D6 \in Devs /\ ~FGIdealProv(c) /\ FGDevProv(c) ELSE FGIdealProv(c)
                     /\ dev' = dev \cup (IF dc \/ dp THEN {D6} ELSE {})
       /\ UNCHANGED <<cfg, set, visited, nfetch, local, provided, calls, result, returned, main, wk, stack,
                      nxt, todo, inprog>>

TNext == \/ TReset
         \/ /\ UNCHANGED devAll
            /\ \/ TDispatch \/ TDispatchOwed \/ TSkipRootVisit \/ TEager \/ TErrRecv
               \/ TVisit \/ TFetch \/ TFetchRet \/ TCallback \/ TProvide \/ TReturn \/ TCrash \/ TFG
TSpec == TInit /\ [][TNext]_tvars

\* the property invariants a deviation contradicts are waived for the walk that used it, nothing else is
TProvidedExact     == D6 \in dev \/ ProvidedExact
THandlerCallsRight == D6 \in dev \/ HandlerCallsRight
TResultRight       == D6 \in dev \/ ResultRight
DevReport == HasEv \/ \A d \in dev \cup devAll : PrintT(<<"DEV_USED", d>>)
TraceConstraint == TLCSet(1, IF l - 1 > TLCGet(1) THEN l - 1 ELSE TLCGet(1))
TracePost == PrintT(<<"TRACE_HWM", TLCGet(1)>>)
=============================================================================
