------------------------------- MODULE DirSize -------------------------------
(* C17 -- block-size estimation of a basic UnixFS directory.

   Third, independent oracle next to the Go formula (directory.go varintLen /
   linkSerializedSize / dataFieldSerializedSize) and the real dag-pb serializer: the byte
   length of the directory block is derived here from the protobuf WIRE RULES only

     varint           7 payload bits per byte, at least one byte
     key              varint(field_number * 8 + wire_type)
     length-delimited key + varint(len) + len bytes            (wire type 2)
     int64 < 0        two's complement in 64 bits => 10-byte varint
     fixed32          key + 4 bytes

   and from the message layouts
     PBNode   { Links = 2 (repeated PBLink), Data = 1 (bytes) }
     PBLink   { Hash = 1 (bytes), Name = 2 (string), Tsize = 3 (uint64) }   all three always emitted
     Data     { Type = 1 (varint, Directory = 1), mode = 7 (uint32, optional), mtime = 8 (message, optional) }
     Mtime    { Seconds = 1 (int64), FractionalNanoseconds = 2 (fixed32, only if > 0) }
     CID      v0: multihash ; v1: varint(1) varint(codec) multihash ; multihash = varint(code) varint(len) digest

   64-bit values (Tsize, seconds) are 4 little-endian base-2^16 limbs (TLC integers are 32 bit).

   State machine: one action per public mutation of BasicDirectory (AddChild for a new name,
   AddChild replacing, RemoveChild, reload from the serialized node).  `est` follows the
   as-coded INCREMENTAL bookkeeping (subtract the old link, add the new one); the property
   is the invariant  est = DirBlockSize(entries, mode, mtime).  *)
EXTENDS Naturals, Integers, Sequences, FiniteSets, TLC, Json

CONSTANTS NameLens,    \* tuple: byte length of name i (names are identified by their index)
          Cids,        \* tuple of CID classes [v, codec, mh, dl]
          TsVals,      \* set of Tsize values (limb tuples)
          Modes,       \* set of [present : BOOLEAN, perm : 0..4095]
          Mtimes       \* set of mtime inputs [neg, mag, ns]  (the zero time.Time means "unset")

(* ---------------------------------------------------------------- 64-bit limbs *)
B == 65536
P2 == [k \in 0..16 |-> 2^k]
Zero64 == <<0, 0, 0, 0>>
FromNat(n) == <<n % B, (n \div B) % B, 0, 0>>                     \* 0 <= n < 2^31
Pow2(n)   == [i \in 1..4 |-> IF i = (n \div 16) + 1 THEN P2[n % 16] ELSE 0]          \* 2^n, n in 0..63
Pow2m1(n) == [i \in 1..4 |-> IF i <= n \div 16 THEN B - 1
                              ELSE IF i = (n \div 16) + 1 THEN P2[n % 16] - 1 ELSE 0] \* 2^n - 1, n in 0..64

\* TLC note: arguments of OPERATORS are substituted lazily and may be re-evaluated at every
\* reference (measured: milliseconds per link size); arguments of FUNCTIONS are evaluated once.
\* The leaf rules that mention their argument several times are therefore functions over Nat.

\* number of significant bits of a limb: the k with 2^(k-1) <= x < 2^k  (0 for x = 0)
BL16[x \in Nat] ==
               IF x >= 32768 THEN 16 ELSE IF x >= 16384 THEN 15 ELSE IF x >= 8192 THEN 14 ELSE IF x >= 4096 THEN 13
          ELSE IF x >= 2048  THEN 12 ELSE IF x >= 1024  THEN 11 ELSE IF x >= 512  THEN 10 ELSE IF x >= 256  THEN 9
          ELSE IF x >= 128   THEN 8  ELSE IF x >= 64    THEN 7  ELSE IF x >= 32   THEN 6  ELSE IF x >= 16   THEN 5
          ELSE IF x >= 8     THEN 4  ELSE IF x >= 4     THEN 3  ELSE IF x >= 2    THEN 2  ELSE IF x >= 1    THEN 1 ELSE 0
\* bit length of a 64-bit value = position of its highest set bit
BitLen(u) == IF u[4] # 0 THEN 48 + BL16[u[4]] ELSE IF u[3] # 0 THEN 32 + BL16[u[3]]
        ELSE IF u[2] # 0 THEN 16 + BL16[u[2]] ELSE BL16[u[1]]

\* two's complement negation in 64 bits: complement every limb, add one with carry
Neg64(u) == LET c  == [i \in 1..4 |-> (B - 1) - u[i]]
                s1 == c[1] + 1
                s2 == c[2] + (s1 \div B)
                s3 == c[3] + (s2 \div B)
                s4 == c[4] + (s3 \div B)
            IN <<s1 % B, s2 % B, s3 % B, s4 % B>>

(* ---------------------------------------------------------------- wire rules *)
\* varint: 7 payload bits per byte, at least one byte
BytesForBits[b \in Nat] == IF b = 0 THEN 1 ELSE (b + 6) \div 7
VarintLen(u)  == BytesForBits[BitLen(u)]
VLN[n \in Nat] == VarintLen(FromNat(n))
VarintLenN(n) == VLN[n]
Key(field, wt)        == VLN[field * 8 + wt]
LD[field \in Nat, n \in Nat] == Key(field, 2) + VLN[n] + n
LenDelim(field, n)    == LD[field, n]
VarintField(field, u) == Key(field, 0) + VarintLen(u)
Int64Field(field, neg, mag) == VarintField(field, IF neg /\ mag # Zero64 THEN Neg64(mag) ELSE mag)
Fixed32Field(field)   == Key(field, 5) + 4

(* ---------------------------------------------------------------- message layouts *)
CidLen(c) == (IF c.v = 0 THEN 0 ELSE VarintLenN(c.v) + VarintLenN(c.codec))
             + VarintLenN(c.mh) + VarintLenN(c.dl) + c.dl

LinkMsgLen(nameLen, cidLen, ts) == LenDelim(1, cidLen) + LenDelim(2, nameLen) + VarintField(3, ts)
LinkSize(nameLen, cidLen, ts)   == LenDelim(2, LinkMsgLen(nameLen, cidLen, ts))

\* the zero time.Time (0001-01-01T00:00:00Z = -62135596800 s, 0 ns) means "no mtime"
ZeroTimeMag == <<63232, 30609, 14, 0>>
MtimeSet(mt) == ~(mt.neg /\ mt.mag = ZeroTimeMag /\ mt.ns = 0)
NoMtime == [neg |-> TRUE, mag |-> ZeroTimeMag, ns |-> 0]

MtimeMsgLen(mt) == Int64Field(1, mt.neg, mt.mag) + (IF mt.ns > 0 THEN Fixed32Field(2) ELSE 0)
UnixfsDataLen(mode, mt) == VarintField(1, FromNat(1))
                           + (IF mode.present THEN VarintField(7, FromNat(mode.perm)) ELSE 0)
                           + (IF MtimeSet(mt) THEN LenDelim(8, MtimeMsgLen(mt)) ELSE 0)
DataFieldSize(mode, mt) == LenDelim(1, UnixfsDataLen(mode, mt))

\* entries: function  name index -> [c : index into Cids, ts : limbs]
EntrySize(n, e) == LinkSize(NameLens[n], CidLen(Cids[e.c]), e.ts)
\* sum over the name table (a function indexed by position: TLC evaluates function arguments once,
\* a recursive OPERATOR over a shrinking set re-evaluates its lazy argument exponentially often)
DirBlockSize(ent, mode, mt) ==
  LET S[k \in 0..Len(NameLens)] ==
        IF k = 0 THEN 0 ELSE S[k - 1] + (IF k \in DOMAIN ent THEN EntrySize(k, ent[k]) ELSE 0)
  IN DataFieldSize(mode, mt) + S[Len(NameLens)]

\* the documented sharding rule of the block-size mode: strictly above the threshold
ShouldShard(size, threshold) == size > threshold

(* ---------------------------------------------------------------- class tables (quantifier of C17) *)
\* Tsize: 0, and per varint length k the largest value of length k (2^7k - 1) and the smallest of
\* length k+1 (2^7k); the largest legal Tsize 2^63 - 1 is Pow2m1(63)
AllTsVals == {Zero64, FromNat(1)} \cup {Pow2m1(7*k) : k \in 1..9} \cup {Pow2(7*k) : k \in 1..8}
\* CIDv0 sha2-256 (34 bytes), CIDv1 dag-pb sha2-256 (36), CIDv1 dag-json sha2-256 (37),
\* CIDv1 dag-pb blake2b-256 (38), CIDv1 dag-pb sha2-512 (68)
AllCids == << [v |-> 0, codec |-> 112, mh |-> 18,    dl |-> 32],
              [v |-> 1, codec |-> 112, mh |-> 18,    dl |-> 32],
              [v |-> 1, codec |-> 297, mh |-> 18,    dl |-> 32],
              [v |-> 1, codec |-> 112, mh |-> 45600, dl |-> 32],
              [v |-> 1, codec |-> 112, mh |-> 19,    dl |-> 64] >>
\* name lengths: 0, 1, around the 1-byte/2-byte length varint of the NAME (127/128), around the
\* 1-byte/2-byte length varint of the whole LINK (85..90 with 34..38-byte CIDs), 300
AllNameLens == <<0, 1, 127, 128, 300, 85, 86, 87, 88, 89, 90>>
\* mode: absent (caller passed 0), or a stored permission value 0..07777.  "present with value 0" is a
\* mode whose permission bits are 000 but which is not the zero os.FileMode (e.g. os.ModeDir of a
\* d--------- directory): WithStat stores a Mode field with value 0 for it.
Absent == [present |-> FALSE, perm |-> 0]
AllModes == {Absent} \cup
            {[present |-> TRUE, perm |-> p] : p \in {0, 1, 127, 128, 420, 493, 511, 512, 1024, 2048, 4095}}
SecVals == { <<FALSE, Zero64>>, <<FALSE, FromNat(1)>>, <<FALSE, FromNat(127)>>, <<FALSE, FromNat(128)>>,
             <<FALSE, Pow2m1(31)>>, <<FALSE, Pow2(31)>>, <<FALSE, Pow2m1(35)>>, <<FALSE, Pow2(35)>>,
             <<FALSE, Pow2(62)>>, <<TRUE, FromNat(1)>>, <<TRUE, Pow2(35)>>, <<TRUE, ZeroTimeMag>> }
AllMtimes == {[neg |-> s[1], mag |-> s[2], ns |-> n] : s \in SecVals, n \in {0, 1, 999999999}}

(* ---------------------------------------------------------------- state machine *)
VARIABLES entries,  \* the directory
          est,      \* the tracked estimate (BasicDirectory.estimatedSize)
          mode, mtime
vars == <<entries, est, mode, mtime>>

Names  == 1..Len(NameLens)
Empty  == [n \in {} |-> 0]
Entry  == [c : 1..Len(Cids), ts : TsVals]

Init == /\ entries = Empty
        /\ mode \in Modes /\ mtime \in Mtimes
        /\ est = DataFieldSize(mode, mtime)            \* NewBasicDirectory: data field only

Old(n) == IF n \in DOMAIN entries THEN EntrySize(n, entries[n]) ELSE 0
Put(ent, n, e) == [x \in DOMAIN ent \cup {n} |-> IF x = n THEN e ELSE ent[x]]
Del(ent, n)    == [x \in DOMAIN ent \ {n} |-> ent[x]]

\* AddChild: RemoveChild(name) (ignored when absent), then AddRawLink + est += new link
Add(n, e) == /\ entries' = Put(entries, n, e)
             /\ est' = (est - Old(n)) + EntrySize(n, e)
             /\ UNCHANGED <<mode, mtime>>
\* RemoveChild of an existing name; of an absent name: os.ErrNotExist, nothing changes
Remove(n) == /\ n \in DOMAIN entries
             /\ entries' = Del(entries, n)
             /\ est' = est - Old(n)
             /\ UNCHANGED <<mode, mtime>>
RemoveAbsent(n) == n \notin DOMAIN entries /\ UNCHANGED vars
\* NewBasicDirectoryFromNode(serialized node) / SetSizeEstimationMode: recomputed from the node
Reload == /\ est' = DirBlockSize(entries, mode, mtime)
          /\ UNCHANGED <<entries, mode, mtime>>

Next == \/ \E n \in Names, e \in Entry : Add(n, e)
        \/ \E n \in Names : Remove(n) \/ RemoveAbsent(n)
        \/ Reload
Spec == Init /\ [][Next]_vars

(* ---------------------------------------------------------------- the property *)
TypeOK   == DOMAIN entries \subseteq Names /\ \A n \in DOMAIN entries : entries[n] \in Entry
EstExact == est = DirBlockSize(entries, mode, mtime)
\* sanity of the limb arithmetic itself (checked by TLC at start-up of every run)
LimbSanity == /\ \A k \in 1..9 : VarintLen(Pow2m1(7*k)) = k
              /\ \A k \in 1..9 : VarintLen(Pow2(7*k)) = k + 1
              /\ VarintLen(Zero64) = 1 /\ VarintLen(Pow2m1(64)) = 10 /\ VarintLen(Pow2m1(63)) = 9
              /\ Neg64(FromNat(1)) = Pow2m1(64) /\ Neg64(Pow2(63)) = Pow2(63)
              /\ \A n \in {1, 127, 128, 65535, 65536, 2147483647} : VarintLen(Neg64(FromNat(n))) = 10
              /\ \A n \in {0, 1, 127, 128, 16383, 16384, 2097151, 2097152} :
                    VarintLenN(n) = IF n < 128 THEN 1 ELSE IF n < 16384 THEN 2 ELSE IF n < 2097152 THEN 3 ELSE 4
ASSUME LimbSanity
=============================================================================
