SPECIFICATION GSpec
CONSTANTS NameLens <- AllNameLens
          Cids <- AllCids
          TsVals <- AllTsVals
          Modes <- AllModes
          Mtimes <- AllMtimes
          CaseNames <- QuickCaseNames
          F1Data <- Q1Data
          F2Links <- Q2Links
          D = 2
          E = 2
          HN <- H1N
          HC <- H1C
          HT <- Q1T
          HModes <- H1Modes
          HMtimes <- H1Mtimes
INVARIANTS Emit GEstExact
