------------------------------ MODULE GenDirSize ------------------------------
(* Phase G for C17.  One TLC run emits two kinds of behaviours (JSON after "BEHAVIOUR"):

   kind "case": one point of the class product  name length x CID layout x Tsize x mode x mtime
        with the sizes the wire rules dictate: the link, the Data field, the empty directory
        block, the block with that single entry, and the sharding decision for the two
        thresholds around it.  The harness builds a real BasicDirectory in block-size mode and
        compares estimatedSize, len(RawData()), linkSerializedSize, dataFieldSerializedSize and
        needsToSwitchToHAMTDir.
   kind "hist": every edit sequence of length D of the DirSize state machine (Add new /
        Add replacing / Remove / RemoveAbsent / Reload) over the small class set, with the
        expected estimate after every step.  *)
EXTENDS DirSize
CONSTANTS D,          \* length of the edit sequences
          CaseNames,  \* subset of Names used in the class product
          F1Data, F2Links,   \* see CaseSet
          HN, HC, HT, HModes, HMtimes,  \* class subsets used by the edit sequences
          E                             \* unused (kept for the cfg files)
VARIABLES gk, case, hist
gvars == <<vars, gk, case, hist>>

NoCase == [nl |-> 0]

\* the class product is covered by two families (each-choice + partial products):
\*   F1: EVERY link class (name length x CID layout x Tsize)  x  the data classes F1Data (pairs <<mode, mtime>>)
\*   F2: EVERY data class (mode x mtime)                       x  the link classes F2Links (triples <<n, c, ts>>)
\* (thorough tier: larger F1/F2 sets; the full product is 4*10^5 points and adds nothing, the link
\*  and the Data field contribute independent summands)
CaseSet == {<<n, c, t, d[1], d[2]>> : n \in CaseNames, c \in 1..Len(Cids), t \in TsVals, d \in F1Data}
           \cup {<<l[1], l[2], l[3], m, mt>> : l \in F2Links, m \in Modes, mt \in Mtimes}

MkCase(l) ==
  LET nl == NameLens[l[1]]  cl == CidLen(Cids[l[2]])
      ent == [n \in {l[1]} |-> [c |-> l[2], ts |-> l[3]]]
      one == DirBlockSize(ent, l[4], l[5])
      \* open finding Dev_C17_ZeroPermReload: a directory reloaded from its node forgets a stored Mode
      \* field whose value is 0 (the estimate then lacks that field, the serialized block keeps it)
      alt == IF l[4].present /\ l[4].perm = 0
             THEN [dev |-> "Dev_C17_ZeroPermReload", reload |-> DirBlockSize(ent, Absent, l[5])]
             ELSE [dev |-> "", reload |-> 0]
  IN [alt |-> alt, k |-> "case", n |-> l[1], nl |-> nl, cid |-> Cids[l[2]], c |-> l[2], cidLen |-> cl, ts |-> l[3],
      mode |-> l[4], mtime |-> l[5], mtimeSet |-> MtimeSet(l[5]),
      link |-> LinkSize(nl, cl, l[3]), data |-> DataFieldSize(l[4], l[5]),
      empty |-> DirBlockSize(Empty, l[4], l[5]), one |-> one,
      thr |-> << <<one, ShouldShard(one, one)>>, <<one - 1, ShouldShard(one, one - 1)>> >>]

HInit == /\ entries = Empty /\ mode \in HModes /\ mtime \in HMtimes
         /\ est = DataFieldSize(mode, mtime)
HEntry == [c : HC, ts : HT]

GInit == \/ /\ gk = "case" /\ \E l \in CaseSet : case = MkCase(l)
            /\ hist = <<>> /\ entries = Empty /\ est = 0
            /\ mode = [present |-> FALSE, perm |-> 0] /\ mtime = NoMtime
         \/ /\ gk = "hist" /\ case = NoCase /\ hist = <<>> /\ HInit

Step(r) == hist' = Append(hist, r @@ [est |-> est'])
GNext == /\ gk = "hist" /\ Len(hist) < D /\ UNCHANGED <<gk, case>>
         /\ \/ \E n \in HN, e \in HEntry :
                  Add(n, e) /\ Step([op |-> "Add", n |-> n, nl |-> NameLens[n], c |-> e.c, cid |-> Cids[e.c],
                                     cidLen |-> CidLen(Cids[e.c]), ts |-> e.ts, existed |-> n \in DOMAIN entries])
            \/ \E n \in HN :
                  \/ Remove(n) /\ Step([op |-> "Remove", n |-> n, nl |-> NameLens[n], existed |-> TRUE])
                  \/ RemoveAbsent(n) /\ Step([op |-> "Remove", n |-> n, nl |-> NameLens[n], existed |-> FALSE])
            \/ Reload /\ Step([op |-> "Reload"])
GSpec == GInit /\ [][GNext]_gvars

Emit == /\ gk = "case" => PrintT(<<"BEHAVIOUR", ToJson(case)>>)
        /\ (gk = "hist" /\ Len(hist) = D) =>
              PrintT(<<"BEHAVIOUR", ToJson([k |-> "hist", mode |-> mode, mtime |-> mtime, mtimeSet |-> MtimeSet(mtime),
                                            init |-> DataFieldSize(mode, mtime), steps |-> hist])>>)
\* hist-states also satisfy the property (model-level)
GEstExact == gk = "hist" => EstExact

\* small class set for the exhaustive edit sequences (indices into the full tables)
H1N      == {1, 3, 9}            \* name lengths 0, 127, 88
H1C      == {1, 4, 5}
H1T      == {Zero64, Pow2m1(7), Pow2(7), Pow2m1(63)}
H1Modes  == {[present |-> FALSE, perm |-> 0], [present |-> TRUE, perm |-> 420]}
H1Mtimes == {NoMtime, [neg |-> TRUE, mag |-> FromNat(1), ns |-> 1]}
AllNames == 1..Len(AllNameLens)
AllC     == 1..Len(AllCids)
QuickCaseNames == {1, 2, 3, 4, 5, 8, 9}
Q1Data   == { <<[present |-> FALSE, perm |-> 0], [neg |-> TRUE, mag |-> Pow2(35), ns |-> 999999999]>>,
              <<[present |-> TRUE, perm |-> 4095], NoMtime>> }
Q2Links  == { <<1, 1, Zero64>>, <<8, 5, Pow2m1(63)>> }
Q1T      == {Pow2m1(7), Pow2(7)}
T1Data   == {[present |-> FALSE, perm |-> 0], [present |-> TRUE, perm |-> 127], [present |-> TRUE, perm |-> 128],
             [present |-> TRUE, perm |-> 4095]}
            \X {NoMtime, [neg |-> FALSE, mag |-> Pow2(62), ns |-> 1], [neg |-> TRUE, mag |-> Pow2(35), ns |-> 999999999]}
T2Links  == {1, 2, 5, 8} \X {1, 3, 5} \X {Pow2m1(7), Pow2m1(63)}
H3N      == {1, 9}
H3C      == {1, 5}
=============================================================================
