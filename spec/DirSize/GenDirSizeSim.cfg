SPECIFICATION GSpecSim
CONSTANTS NameLens <- AllNameLens
          Cids <- AllCids
          TsVals <- AllTsVals
          Modes <- AllModes
          Mtimes <- AllMtimes
          CaseNames <- QuickCaseNames
          F1Data <- Q1Data
          F2Links <- Q2Links
          D = 100000
          E = 60
          HN <- AllNames
          HC <- AllC
          HT <- AllTsVals
          HModes <- AllModes
          HMtimes <- AllMtimes
INVARIANTS GEstExact
