SPECIFICATION GSpec
CONSTANTS NameLens <- AllNameLens
          Cids <- AllCids
          TsVals <- AllTsVals
          Modes <- AllModes
          Mtimes <- AllMtimes
          CaseNames <- AllNames
          F1Data <- T1Data
          F2Links <- T2Links
          D = 3
          E = 3
          HN <- H3N
          HC <- H3C
          HT <- Q1T
          HModes <- H1Modes
          HMtimes <- H1Mtimes
INVARIANTS Emit GEstExact
